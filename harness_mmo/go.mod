module verifhm

go 1.21

replace (
	github.com/dfklegend/cell2 => /repo
	github.com/dfklegend/cell2/apimapper => /repo/apimapper
	github.com/dfklegend/cell2/pomelonet => /repo/pomelonet
	github.com/dfklegend/cell2/utils => /repo/utils
	mmo => /verif/.build/mmo-default/mmo
)

require (
	github.com/dfklegend/cell2 v0.0.0-00010101000000-000000000000
	github.com/dfklegend/cell2/apimapper v0.0.0-00010101000000-000000000000
	github.com/dfklegend/cell2/pomelonet v0.0.0-00010101000000-000000000000
	github.com/dfklegend/cell2/utils v0.0.0-00010101000000-000000000000
	mmo v0.0.0-00010101000000-000000000000
)
