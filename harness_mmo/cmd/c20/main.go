package main

import (
	"verifhm/c20"
	"verifhm/hx"
)

func main() { hx.Main(c20.Run) }
