package main

import (
	"verifhm/c19"
	"verifhm/hx"
)

func main() { hx.Main(c19.Run) }
