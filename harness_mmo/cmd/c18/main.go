package main

import (
	"verifhm/c18"
	"verifhm/hx"
)

func main() { hx.Main(c18.Run) }
