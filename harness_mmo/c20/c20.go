// Package c20 drives the real mmo ZoneSpace and SimpleSpace (servers/scene/space), the real
// searchers.FindPlayers and the real entity world through the overlay module `mmo`
// (/verif/bin/mmo_overlay.py).
//
// Units: every coordinate / radius / grid parameter of an op is an integer number of 1/8.
// For |v| <= 2^24 the conversion float32(v)/8 is exact, and for the generated ranges
// (coordinates within +-64, zone sizes >= 1/8) every float32 operation the code performs
// before a comparison is exact (see RULE in bin/props/C20.py), so the exact model applies.
package c20

import (
	"fmt"
	"math"
	"math/rand"
	"sort"

	"mmo/common/entity"
	"mmo/common/entity/impl"
	fcommon "mmo/modules/fight/common"
	"mmo/servers/scene/define"
	edefine "mmo/servers/scene/entity/define"
	"mmo/servers/scene/space"
	"mmo/servers/scene/space/factory"
	"mmo/servers/scene/space/searchers"

	"verifhm/hx"
)

const worldN = 40 // entities 1..worldN exist in the entity world (Model.world_n)

// unitComp is the harness's BaseUnit component: unit type and liveness are a fixed function
// of the entity id (Model.players_ok): id%4 == 0 monster, 1 dead avatar, 2,3 living avatar.
type unitComp struct {
	*impl.BaseComponent
	typ  define.UnitType
	dead bool
}

func (u *unitComp) GetUnitType() define.UnitType { return u.typ }
func (u *unitComp) GetChar() fcommon.ICharacter  { return nil }
func (u *unitComp) IsDead() bool                 { return u.dead }

var world *entity.World

func theWorld() *entity.World {
	if world != nil {
		return world
	}
	w := entity.NewWorld()
	for id := 1; id <= worldN; id++ {
		e := impl.NewEntity()
		e.SetWorld(w)
		e.SetId(entity.EntityID(id))
		c := &unitComp{BaseComponent: impl.NewBaseComponent(), typ: define.UnitAvatar}
		switch id % 4 {
		case 0:
			c.typ = define.UnitMonster
		case 1:
			c.dead = true
		}
		e.AddComponent(edefine.BaseUnit, c)
		e.Prepare()
		e.Start()
		w.AddEntity(e)
	}
	world = w
	return w
}

// collect accepts every candidate (the property's plain range query)
type collect struct{ ids []entity.EntityID }

func (c *collect) Validate(id entity.EntityID, dist float32) bool { return true }
func (c *collect) AddCandidate(id entity.EntityID, dist float32)  { c.ids = append(c.ids, id) }
func (c *collect) MakeResults() []entity.EntityID                 { return c.ids }

func newSearcher(mode int64) define.ISearcher {
	if mode >= 1 && mode <= worldN {
		return searchers.NewFindPlayers(theWorld().GetEntity(entity.EntityID(mode)))
	}
	return &collect{}
}

func u8(v int64) float32 { return float32(v) / 8 }

func pos8(x, y, z int64) define.Pos { return define.Pos{X: u8(x), Y: u8(y), Z: u8(z)} }

// radius r * 2^e units (Model.radius; 2^e = 0 for e < 0 as in Z.pow); overflow gives +Inf
func radius8(r, e int64) float32 {
	if e < 0 {
		return 0
	}
	if e > 2000 {
		e = 2000
	}
	return float32(math.Ldexp(float64(r)/8, int(e)))
}

func sortedIDs(ids []entity.EntityID) []int64 {
	out := make([]int64, len(ids))
	for i, v := range ids {
		out[i] = int64(v)
	}
	sort.Slice(out, func(i, j int) bool { return out[i] < out[j] })
	return out
}

func eqIDs(a, b []int64) bool {
	if len(a) != len(b) {
		return false
	}
	for i := range a {
		if a[i] != b[i] {
			return false
		}
	}
	return true
}

func initOK(bx, bz, ex, ez, sz int64) bool { return sz > 0 && bx <= ex && bz <= ez }

type spaces struct {
	zone    define.ISpace
	simple  define.ISpace
	present map[int64]bool
	at      map[int64][3]int64 // where the ZoneSpace was last told each entity is (1/8 units)
}

// creep: one OMove in three is carried out on the ZoneSpace as a PATH of sub-millimetre steps
// (1/2048 of a unit, exactly representable) from where the entity is to the target, instead of
// one call.  Both are histories of UpdateEntityPos calls ending at the same position; by the
// refinement theorem (zone search = brute force over the current positions, for all histories)
// every later search must answer the same.  Decided from the op alone, so that replays are exact.
func creeps(id, x, y, z int64) bool { return (id+x+z)%3 == 0 }

func (sp *spaces) moveZone(id int64, x, y, z int64) (crept bool) {
	from, ok := sp.at[id]
	to := [3]int64{x, y, z}
	if sp.at == nil {
		sp.at = map[int64][3]int64{}
	}
	defer func() { sp.at[id] = to }()
	dist := int64(0)
	for k := 0; k < 3; k++ {
		d := to[k] - from[k]
		if d < 0 {
			d = -d
		}
		dist += d
	}
	if !ok || !sp.present[id] || !creeps(id, x, y, z) || dist == 0 || dist > 40 {
		sp.zone.UpdateEntityPos(entity.EntityID(id), pos8(x, y, z))
		return false
	}
	cur := [3]float32{u8(from[0]), u8(from[1]), u8(from[2])}
	const step = float32(1) / 2048
	for k := 0; k < 3; k++ {
		n := (to[k] - from[k]) * 256 // 1/8 unit = 256 steps
		st := step
		if n < 0 {
			n, st = -n, -step
		}
		for i := int64(0); i < n; i++ {
			cur[k] += st
			sp.zone.UpdateEntityPos(entity.EntityID(id), define.Pos{X: cur[0], Y: cur[1], Z: cur[2]})
		}
	}
	if cur != [3]float32{u8(x), u8(y), u8(z)} {
		panic("c20: creep path did not end at the target (float32 steps not exact)")
	}
	return true
}

func freshDefault() *spaces {
	// the production constructors registered by the space package's init()
	return &spaces{zone: factory.CreateZoneSpace(), simple: factory.CreateNormalSpace(), present: map[int64]bool{}}
}

// safely runs f and turns a panic of the code under test into a value.
func safely(f func()) (msg string, panicked bool) {
	defer func() {
		if r := recover(); r != nil {
			msg, panicked = fmt.Sprint(r), true
		}
	}()
	f()
	return
}

// Exec runs one op list against fresh real objects and returns the observations.  Every call
// into the space packages is panic-safe: a panic becomes the observation BPanic of that
// operation (which the model never produces), so it is reported with the op sequence.
func Exec(ops []hx.T) (obs []any, nontrivial bool, tags map[string]bool) {
	tags = map[string]bool{}
	var sp *spaces
	if msg, bad := safely(func() { theWorld(); sp = freshDefault() }); bad {
		// the constructors themselves panicked: every operation observes it
		fmt.Printf("c20: panic while constructing the spaces: %s\n", msg)
		for range ops {
			obs = append(obs, "BPanic")
		}
		return
	}
	for _, o := range ops {
		func() {
			defer func() {
				if r := recover(); r != nil {
					fmt.Printf("c20: panic in %s: %v\n", o.Name, r)
					obs = append(obs, "BPanic")
				}
			}()
			switch o.Name {
			case "OInit":
				bx, bz, ex, ez, sz := o.Int(0), o.Int(1), o.Int(2), o.Int(3), o.Int(4)
				if !initOK(bx, bz, ex, ez, sz) {
					obs = append(obs, "BBadInit")
					return
				}
				z := space.NewZoneSpace()
				z.Init(u8(bx), u8(bz), u8(ex), u8(ez), u8(sz))
				sp = &spaces{zone: z, simple: space.NewSimpleSpace(), present: map[int64]bool{}}
				obs = append(obs, "BUnit")
			case "OAdd":
				id := o.Int(0)
				p := pos8(o.Int(1), o.Int(2), o.Int(3))
				sp.zone.AddEntity(entity.EntityID(id), p)
				// SimpleSpace.AddEntity on an existing id overwrites the position whereas
				// ZoneSpace.AddEntity ignores the call; the anchor is ZoneSpace, so a
				// duplicate add is not forwarded to the brute-force mirror.
				if !sp.present[id] {
					sp.simple.AddEntity(entity.EntityID(id), p)
					sp.present[id] = true
					if sp.at == nil {
						sp.at = map[int64][3]int64{}
					}
					sp.at[id] = [3]int64{o.Int(1), o.Int(2), o.Int(3)}
				} else {
					tags["dup-add"] = true
				}
				obs = append(obs, "BUnit")
			case "OMove":
				id := o.Int(0)
				p := pos8(o.Int(1), o.Int(2), o.Int(3))
				if sp.moveZone(id, o.Int(1), o.Int(2), o.Int(3)) {
					tags["move-as-submillimetre-path"] = true
				}
				sp.simple.UpdateEntityPos(entity.EntityID(id), p)
				obs = append(obs, "BUnit")
			case "ORemove":
				id := o.Int(0)
				sp.zone.RemoveEntity(entity.EntityID(id))
				sp.simple.RemoveEntity(entity.EntityID(id))
				delete(sp.present, id)
				delete(sp.at, id)
				obs = append(obs, "BUnit")
			case "OSearch":
				p := pos8(o.Int(0), o.Int(1), o.Int(2))
				r := radius8(o.Int(3), o.Int(4))
				mode := o.Int(5)
				zr := sortedIDs(sp.zone.SearchCircleTargets(p, r, newSearcher(mode)))
				sr := sortedIDs(sp.simple.SearchCircleTargets(p, r, newSearcher(mode)))
				if len(zr) > 0 {
					nontrivial = true
				}
				obs = append(obs, hx.C("BFound", zr, eqIDs(zr, sr)))
			case "OFloat":
				ok, _ := floatCheck(o.Int(0), int(o.Int(1)), false)
				nontrivial = true
				obs = append(obs, hx.C("BFloat", ok))
			default:
				panic("c20: unknown op " + o.Name)
			}
		}()
	}
	return
}

// ---------------------------------------------------------------- random floats (search support)
//
// floatCheck drives ZoneSpace and SimpleSpace with n random operations on arbitrary float32
// values (derived from `seed` only) and checks every query against an independent float64
// reference, outside a tolerance band around the radius: no missing id, no extra id, no
// duplicate, never a removed id, ZoneSpace == SimpleSpace.  This is differential testing
// in the float domain (the Coq theorems are about exact arithmetic); it is reported as one
// observation BFloat ok.  Returns the number of inner operations executed before a failure.
func floatCheck(seed int64, n int, verbose bool) (ok bool, failedAt int) {
	step := 0
	defer func() { // a panic of the code under test is a failed run, at the step that raised it
		if rec := recover(); rec != nil {
			if verbose {
				fmt.Printf("c20 float seed=%d step=%d: panic: %v\n", seed, step, rec)
			}
			ok, failedAt = false, step
		}
	}()
	r := rand.New(rand.NewSource(seed))
	z := space.NewZoneSpace()
	type gridT struct{ bx, bz, ex, ez, sz float32 }
	grids := []gridT{{-30, -30, 30, 30, 5}, {0, 0, 100, 50, 2.5}, {-7.3, 11.1, 40.2, 19.9, 0.7}, {-1000, -1000, 1000, 1000, 100}}
	g := grids[r.Intn(len(grids))]
	z.Init(g.bx, g.bz, g.ex, g.ez, g.sz)
	s := space.NewSimpleSpace()
	ref := map[int64][3]float32{}
	huge := r.Intn(6) == 0 // coordinates beyond 1e15: only ZoneSpace == SimpleSpace is checked
	coord := func(lo, hi float32) float32 {
		switch r.Intn(10) {
		case 0: // exactly on / next to a zone border
			k := float32(r.Intn(int((hi-lo)/g.sz) + 2))
			v := lo + k*g.sz
			switch r.Intn(3) {
			case 0:
				return math.Nextafter32(v, float32(math.Inf(1)))
			case 1:
				return math.Nextafter32(v, float32(math.Inf(-1)))
			}
			return v
		case 1: // outside the map
			return (r.Float32()*2 - 1) * 1e6
		case 2:
			if huge {
				return (r.Float32()*2 - 1) * float32(math.Ldexp(1, 60+r.Intn(40)))
			}
			return (r.Float32()*2 - 1) * 1e12
		case 3:
			return lo
		case 4:
			return hi
		}
		return lo + r.Float32()*(hi-lo)
	}
	rpos := func() define.Pos {
		return define.Pos{X: coord(g.bx, g.ex), Y: (r.Float32()*2 - 1) * 10, Z: coord(g.bz, g.ez)}
	}
	rad := func() float32 {
		switch r.Intn(12) {
		case 0:
			return 0
		case 1:
			return math.MaxFloat32
		case 2:
			return float32(math.Inf(1))
		case 3:
			return -r.Float32() * 10
		case 4:
			return r.Float32() * 1e7
		case 5:
			return float32(math.Ldexp(1, 62+r.Intn(4))) // around the int64 conversion limit
		}
		return r.Float32() * 3 * g.sz
	}
	fail := func(i int, f string, a ...any) (bool, int) {
		if verbose {
			fmt.Printf("c20 float seed=%d step=%d: "+f+"\n", append([]any{seed, i}, a...)...)
		}
		return false, i
	}
	for i := 0; i < n; i++ {
		step = i
		id := int64(1 + r.Intn(12))
		switch c := r.Intn(10); {
		case c < 3:
			if _, ok := ref[id]; !ok {
				p := rpos()
				z.AddEntity(entity.EntityID(id), p)
				s.AddEntity(entity.EntityID(id), p)
				ref[id] = [3]float32{p.X, p.Y, p.Z}
			}
		case c < 5:
			p := rpos()
			z.UpdateEntityPos(entity.EntityID(id), p)
			s.UpdateEntityPos(entity.EntityID(id), p)
			if _, ok := ref[id]; ok {
				ref[id] = [3]float32{p.X, p.Y, p.Z}
			}
		case c < 6:
			z.RemoveEntity(entity.EntityID(id))
			s.RemoveEntity(entity.EntityID(id))
			delete(ref, id)
		default:
			p := rpos()
			if len(ref) > 0 && r.Intn(3) == 0 { // query centred on an entity
				ids := make([]int64, 0, len(ref))
				for k := range ref {
					ids = append(ids, k)
				}
				sort.Slice(ids, func(a, b int) bool { return ids[a] < ids[b] })
				q := ref[ids[r.Intn(len(ids))]]
				p = define.Pos{X: q[0], Y: q[1], Z: q[2]}
			}
			rr := rad()
			zr := sortedIDs(z.SearchCircleTargets(p, rr, &collect{}))
			sr := sortedIDs(s.SearchCircleTargets(p, rr, &collect{}))
			inZ, inS := map[int64]int{}, map[int64]int{}
			for _, v := range zr {
				inZ[v]++
			}
			for _, v := range sr {
				inS[v]++
			}
			for _, v := range zr {
				if inZ[v] > 1 {
					return fail(i, "id %d reported %d times", v, inZ[v])
				}
				if _, ok := ref[v]; !ok {
					return fail(i, "absent id %d reported", v)
				}
			}
			for k, q := range ref {
				dx, dy, dz := float64(p.X)-float64(q[0]), float64(p.Y)-float64(q[1]), float64(p.Z)-float64(q[2])
				d := math.Sqrt(dx*dx + dy*dy + dz*dz)
				cmag := 0.0
				for _, v := range []float32{p.X, p.Y, p.Z, q[0], q[1], q[2]} {
					cmag = math.Max(cmag, math.Abs(float64(v)))
				}
				band := 4e-6*(cmag+d) + 1e-30
				R := float64(rr)
				if math.Abs(d-R) <= band { // rounding exactly at the radius: not checked
					continue
				}
				if inZ[k] != inS[k] {
					return fail(i, "ZoneSpace and SimpleSpace differ on id %d (zone %v simple %v) p=%v r=%v q=%v d=%v", k, zr, sr, p, rr, q, d)
				}
				if cmag > 1e15 {
					continue // float32 squares may overflow: only impl-vs-impl
				}
				want := 0
				if rr >= 0 && d < R {
					want = 1
				}
				if inZ[k] != want {
					return fail(i, "reference: id %d d=%v r=%v want %d got %d (p=%v q=%v zone=%v)", k, d, rr, want, inZ[k], p, q, zr)
				}
			}
		}
	}
	return true, n
}

// ---------------------------------------------------------------- generator (dyadic, exact)

type gridI struct{ bx, bz, ex, ez, sz int64 }

var defaultGrid = gridI{-240, -240, 240, 240, 40}

type shadowEnt struct{ x, y, z int64 }

// hot: crowding mode - most entities are placed inside one zone and its index-neighbours
// (the zones stored before and after it), with ids 1..40, so that zones hold many entities
// while their neighbours are occupied.
func gen(cfg *hx.Config, maxLen int, hot bool) ([]hx.T, []string) {
	r := cfg.Rng
	tags := map[string]bool{}
	if hot {
		tags["crowded"] = true
	}
	g := defaultGrid
	var ops []hx.T
	sh := map[int64]shadowEnt{}
	var hotX, hotZ int64 = -1, -1
	newGrid := func() {
		sizes := []int64{8, 40, 12, 3, 100, 1, 64}
		g = gridI{sz: hx.Pick(r, sizes)}
		g.bx = -int64(r.Intn(300))
		g.bz = -int64(r.Intn(300))
		nx, nz := int64(r.Intn(14)), int64(r.Intn(14))
		g.ex = g.bx + nx*g.sz + int64(r.Intn(int(g.sz)))
		g.ez = g.bz + nz*g.sz + int64(r.Intn(int(g.sz)))
		if r.Intn(4) == 0 { // a grid whose extent is an exact multiple of the zone size
			g.ex = g.bx + nx*g.sz
			g.ez = g.bz + nz*g.sz
		}
		ops = append(ops, hx.C("OInit", g.bx, g.bz, g.ex, g.ez, g.sz))
		sh = map[int64]shadowEnt{}
		tags["custom-grid"] = true
		hotX, hotZ = -1, -1
	}
	if r.Intn(3) == 0 {
		newGrid()
	}
	clamp := func(v int64) int64 {
		if v > 512 {
			return 512
		}
		if v < -512 {
			return -512
		}
		return v
	}
	coord := func(b, e int64) int64 {
		switch r.Intn(10) {
		case 0, 1: // on / next to a zone border
			k := r.Int63n((e-b)/g.sz + 2)
			tags["border"] = true
			return clamp(b + k*g.sz + int64(r.Intn(3)-1))
		case 2: // outside the map
			tags["outside"] = true
			if r.Intn(2) == 0 {
				return clamp(b - 1 - int64(r.Intn(200)))
			}
			return clamp(e + 1 + int64(r.Intn(200)))
		case 3: // the clamp boundaries: begin, end, and the far edge of the extra last zone, +- one unit
			far := b + ((e-b)/g.sz+1)*g.sz
			tags["clamp-boundary"] = true
			return clamp(hx.Pick(r, []int64{-512, 512, b, e, far, far, b, e}) + hx.Pick(r, []int64{0, 0, 0, -1, 1}))
		}
		return clamp(b + r.Int63n(e-b+1))
	}
	// the hot zone (crowding mode): first/last column and row are favoured
	pickHot := func() {
		w, h := (g.ex-g.bx)/g.sz+1, (g.ez-g.bz)/g.sz+1
		edge := func(n int64) int64 {
			switch r.Intn(4) {
			case 0:
				return 0
			case 1:
				return n - 1
			}
			return r.Int63n(n)
		}
		hotX, hotZ = edge(w), edge(h)
	}
	rpos := func() (int64, int64, int64) {
		if hot && r.Intn(100) < 88 {
			if hotX < 0 {
				pickHot()
			}
			w, h := (g.ex-g.bx)/g.sz+1, (g.ez-g.bz)/g.sz+1
			idx := hotZ*w + hotX
			switch c := r.Intn(10); {
			case c < 2 && idx+1 < w*h: // the zone stored after it
				idx++
			case c == 2 && idx > 0: // the zone stored before it
				idx--
			}
			zx, zz := idx%w, idx/w
			return clamp(g.bx + zx*g.sz + r.Int63n(g.sz)), int64(r.Intn(9) - 4), clamp(g.bz + zz*g.sz + r.Int63n(g.sz))
		}
		return coord(g.bx, g.ex), int64(r.Intn(81) - 40), coord(g.bz, g.ez)
	}
	pickID := func() int64 {
		if hot {
			return int64(1 + r.Intn(40))
		}
		switch r.Intn(12) {
		case 0:
			return int64(r.Intn(70) - 5)
		}
		return int64(1 + r.Intn(10))
	}
	presentID := func() (int64, bool) {
		if len(sh) == 0 {
			return 0, false
		}
		ids := hx.SortedKeys(sh)
		return ids[r.Intn(len(ids))], true
	}
	n := 2 + r.Intn(maxLen)
	for len(ops) < n {
		switch c := r.Intn(100); {
		case c < 2:
			newGrid()
		case c < 4:
			bad := [][]int64{{0, 0, 80, 80, 0}, {0, 0, 80, 80, -8}, {10, 0, 0, 80, 8}, {0, 10, 80, 0, 8}}
			b := hx.Pick(r, bad)
			ops = append(ops, hx.C("OInit", b[0], b[1], b[2], b[3], b[4]))
			tags["bad-init"] = true
		case c < 30:
			id := pickID()
			x, y, z := rpos()
			if _, ok := sh[id]; ok {
				tags["dup-add"] = true
			} else {
				sh[id] = shadowEnt{x, y, z}
			}
			ops = append(ops, hx.C("OAdd", id, x, y, z))
		case c < 50:
			id, ok := presentID()
			if !ok || r.Intn(8) == 0 {
				id = pickID()
				if _, p := sh[id]; !p {
					tags["move-absent"] = true
				}
			}
			x, y, z := rpos()
			if e, p := sh[id]; p {
				if r.Intn(4) == 0 { // small move, usually inside the zone
					x, z = clamp(e.x+int64(r.Intn(5)-2)), clamp(e.z+int64(r.Intn(5)-2))
				}
				sh[id] = shadowEnt{x, y, z}
				tags["move"] = true
			}
			ops = append(ops, hx.C("OMove", id, x, y, z))
		case c < 60:
			id, ok := presentID()
			if !ok || r.Intn(5) == 0 {
				id = pickID()
				if _, p := sh[id]; !p {
					tags["remove-absent"] = true
				}
			}
			delete(sh, id)
			ops = append(ops, hx.C("ORemove", id))
		default:
			x, y, z := rpos()
			var rad, e int64
			mode := int64(0)
			switch r.Intn(12) {
			case 0:
				rad = 0
				tags["radius-0"] = true
				if id, ok := presentID(); ok {
					x, y, z = sh[id].x, sh[id].y, sh[id].z
				}
			case 1, 2: // the circle passes exactly through an entity (same y and z): +-1 unit
				if id, ok := presentID(); ok {
					q := sh[id]
					y, z = q.y, q.z
					d := x - q.x
					if d < 0 {
						d = -d
					}
					rad = d + int64(r.Intn(3)-1)
					tags["touch"] = true
				} else {
					rad = int64(r.Intn(80))
				}
			case 3: // 3-4-5 style exact distance in the plane
				if id, ok := presentID(); ok {
					q := sh[id]
					k := int64(1 + r.Intn(12))
					x, y, z = clamp(q.x+3*k), q.y, clamp(q.z+4*k)
					if x == q.x+3*k && z == q.z+4*k {
						rad = 5*k + int64(r.Intn(3)-1)
						tags["touch"] = true
					} else {
						rad = int64(r.Intn(200))
					}
				}
			case 4:
				rad = -int64(1 + r.Intn(50))
				tags["neg-radius"] = true
			case 5:
				rad, e = int64(1+r.Intn(7)), hx.Pick(r, []int64{20, 40, 60, 61, 63, 64, 100, 127, 128, 200})
				tags["huge-radius"] = true
			case 6:
				rad = int64(500 + r.Intn(2000))
				tags["big-radius"] = true
			case 7, 8: // pos+radius or pos-radius exactly on a zone border / clamp boundary (+- one unit)
				b, e, c := g.bx, g.ex, x
				if r.Intn(2) == 0 {
					b, e, c = g.bz, g.ez, z
				}
				t := b + r.Int63n((e-b)/g.sz+2)*g.sz
				if r.Intn(4) == 0 {
					t = e
				}
				rad = t - c
				if rad < 0 {
					rad = -rad
				}
				rad += hx.Pick(r, []int64{0, 0, -1, 1})
				tags["box-on-border"] = true
			default:
				rad = int64(r.Intn(120))
				if id, ok := presentID(); ok && r.Intn(2) == 0 { // near an entity
					q := sh[id]
					x, y, z = clamp(q.x+int64(r.Intn(121)-60)), q.y+int64(r.Intn(21)-10), clamp(q.z+int64(r.Intn(121)-60))
				}
			}
			if r.Intn(6) == 0 {
				mode = int64(1 + r.Intn(worldN+3))
				tags["players"] = true
			}
			ops = append(ops, hx.C("OSearch", x, y, z, rad, e, mode))
		}
	}
	// always end with an "everything" query and a bounded one
	ops = append(ops, hx.C("OSearch", 0, 0, 0, 1, 127, 0))
	x, y, z := rpos()
	ops = append(ops, hx.C("OSearch", x, y, z, int64(r.Intn(160)), 0, 0))
	var tl []string
	for t := range tags {
		tl = append(tl, t)
	}
	sort.Strings(tl)
	return ops, tl
}

// exhaustive small scope: a 3 x 3 grid of unit zones (Init(0,0,2,2,1)); one or two entities on
// and around the borders; every op sequence of length L, followed by four queries.
func enumerate(L int, emit func([]hx.T)) {
	alpha := []hx.T{
		hx.C("OAdd", 1, 8, 0, 8), hx.C("OAdd", 1, 7, 0, 16), hx.C("OAdd", 2, 24, 0, -1),
		hx.C("OMove", 1, 16, 0, 8), hx.C("OMove", 1, -8, 0, 30), hx.C("OMove", 2, 8, 0, 8),
		hx.C("ORemove", 1), hx.C("ORemove", 2),
	}
	tail := []hx.T{
		hx.C("OSearch", 8, 0, 8, 0, 0, 0), hx.C("OSearch", 12, 0, 8, 4, 0, 0),
		hx.C("OSearch", 30, 0, 30, 1, 100, 0), hx.C("OSearch", -8, 0, 24, 8, 0, 0),
	}
	cur := make([]hx.T, 0, L+6)
	cur = append(cur, hx.C("OInit", 0, 0, 16, 16, 8))
	var rec func(d int)
	rec = func(d int) {
		if d == L {
			emit(append(append([]hx.T{}, cur...), tail...))
			return
		}
		for _, a := range alpha {
			cur = append(cur, a)
			rec(d + 1)
			cur = cur[:len(cur)-1]
		}
	}
	rec(0)
}

// boundarySweep: for several grids, an entity and the edges of query bounding boxes are put
// exactly on every zone border and on the clamp boundaries - begin, end, and begin + w*size (the
// far edge of the extra last zone, where (n-begin)/size equals the zone count) - and one unit
// (1/8) to either side, on both axes.
func boundarySweep(emit func([]hx.T)) {
	grids := []gridI{defaultGrid, {0, 0, 80, 80, 8}, {-17, -9, 50, 31, 12}, {-300, -300, -300, -300, 1}, {-64, 0, 63, 40, 16}}
	for gi, g := range grids {
		vals := func(b, e int64) []int64 {
			var v []int64
			w := (e-b)/g.sz + 1
			for k := int64(0); k <= w; k++ {
				for d := int64(-1); d <= 1; d++ {
					v = append(v, b+k*g.sz+d)
				}
			}
			return append(v, e-1, e, e+1)
		}
		vx, vz := vals(g.bx, g.ex), vals(g.bz, g.ez)
		n := len(vx)
		if len(vz) > n {
			n = len(vz)
		}
		xm, zm := (g.bx+g.ex)/2+1, (g.bz+g.ez)/2+1
		for j := 0; j < n; j++ {
			x, z := vx[j%len(vx)], vz[j%len(vz)]
			var ops []hx.T
			if gi > 0 {
				ops = append(ops, hx.C("OInit", g.bx, g.bz, g.ex, g.ez, g.sz))
			}
			ops = append(ops,
				hx.C("OAdd", 1, x, 0, zm), hx.C("OAdd", 2, xm, 0, z), hx.C("OAdd", 3, x, 0, z), hx.C("OAdd", 4, xm, 0, zm),
				hx.C("OSearch", x, 0, zm, 0, 0, 0), hx.C("OSearch", xm, 0, z, 0, 0, 0), hx.C("OSearch", x, 0, z, 0, 0, 0),
				// bounding box edges exactly on the boundary, from either side, on either axis
				hx.C("OSearch", x-16, 0, zm, 16, 0, 0), hx.C("OSearch", x+16, 0, zm, 16, 0, 0),
				hx.C("OSearch", xm, 0, z-16, 16, 0, 0), hx.C("OSearch", xm, 0, z+16, 16, 0, 0),
				hx.C("OSearch", x-320, 0, z-320, 320, 0, 0), hx.C("OSearch", x+320, 0, z+320, 320, 0, 0),
				hx.C("OSearch", 0, 0, 0, 1, 127, 0),
				hx.C("OMove", 1, x+1, 0, zm), hx.C("OMove", 3, x-1, 0, z-1), hx.C("OMove", 4, x, 0, z),
				hx.C("OSearch", x, 0, z, 2, 0, 0), hx.C("OSearch", x+1, 0, zm, 0, 0, 0),
				hx.C("ORemove", 3), hx.C("OSearch", x, 0, z, 2, 0, 0), hx.C("OSearch", 0, 0, 0, 1, 127, 0))
			emit(ops)
		}
	}
}

// crowdCases: n entities inside ONE zone while the zones stored immediately before and after it
// (index -1 / +1: the left/right neighbour, or the end/start of the adjacent row) are occupied
// before or after the crowding; queries cover the crowded zone, the neighbour, both, everything;
// then moves between the two zones and removals in both orders.
func crowdCases(emit func([]hx.T)) {
	type zsel struct {
		g      gridI
		zx, zz int64
	}
	small := gridI{0, 0, 80, 80, 8}
	zones := []zsel{{defaultGrid, 0, 0}, {defaultGrid, 12, 0}, {defaultGrid, 5, 6}, {defaultGrid, 0, 12},
		{defaultGrid, 11, 12}, {defaultGrid, 12, 12}, {small, 3, 3}, {small, 10, 4}}
	for _, zs := range zones {
		g := zs.g
		w, h := (g.ex-g.bx)/g.sz+1, (g.ez-g.bz)/g.sz+1
		idx := zs.zz*w + zs.zx
		// k-th position inside zone number i (distinct for k < 40)
		at := func(i, k int64) (int64, int64) {
			cols := int64(6)
			step := (g.sz - 2) / cols
			if step < 1 {
				step = 1
			}
			return g.bx + (i%w)*g.sz + 1 + (k%cols)*step, g.bz + (i/w)*g.sz + 1 + (k/cols)*step
		}
		centre := func(i int64) (int64, int64) { return g.bx + (i%w)*g.sz + g.sz/2, g.bz + (i/w)*g.sz + g.sz/2 }
		for _, n := range []int64{1, 8, 9, 10, 17, 40} {
			if g.sz < 40 && n != 9 && n != 17 {
				continue
			}
			for order := 0; order < 2; order++ {
				var ops []hx.T
				if g != defaultGrid {
					ops = append(ops, hx.C("OInit", g.bx, g.bz, g.ex, g.ez, g.sz))
				}
				search := func(i int64) {
					cx, cz := centre(i)
					ops = append(ops, hx.C("OSearch", cx, 0, cz, g.sz, 0, 0))
				}
				all := func() { ops = append(ops, hx.C("OSearch", 0, 0, 0, 1, 127, 0)) }
				neighbours := func() {
					if idx > 0 {
						x, z := at(idx-1, 0)
						ops = append(ops, hx.C("OAdd", 101, x, 0, z))
					}
					if idx+1 < w*h {
						x, z := at(idx+1, 0)
						ops = append(ops, hx.C("OAdd", 102, x, 0, z))
						x, z = at(idx+1, 1)
						ops = append(ops, hx.C("OAdd", 103, x, 0, z))
					}
				}
				crowd := func() {
					for k := int64(0); k < n; k++ {
						x, z := at(idx, k)
						ops = append(ops, hx.C("OAdd", k+1, x, 1, z))
						if k == 7 || k == 8 {
							search(idx)
						}
					}
				}
				if order == 0 {
					neighbours()
					crowd()
				} else {
					crowd()
					neighbours()
				}
				search(idx)
				if idx+1 < w*h {
					search(idx + 1)
				}
				if idx > 0 {
					search(idx - 1)
				}
				all()
				// the neighbours move away / are removed
				fx, fz := at((idx+w*h/2)%(w*h), 3)
				ops = append(ops, hx.C("OMove", 102, fx, 0, fz), hx.C("ORemove", 103), hx.C("OMove", 101, fx, 0, fz))
				search(idx)
				all()
				if idx+1 < w*h { // crowd members visit the next zone and come back
					for k := int64(0); k < n && k < 3; k++ {
						x, z := at(idx+1, 5+k)
						ops = append(ops, hx.C("OMove", n-k, x, 0, z))
					}
					search(idx + 1)
					all()
					for k := int64(0); k < n && k < 3; k++ {
						x, z := at(idx, 30+k)
						ops = append(ops, hx.C("OMove", n-k, x, 0, z))
					}
					all()
				}
				// removals: first half ascending, then the rest descending, a re-add in between
				for k := int64(1); k <= n/2; k++ {
					ops = append(ops, hx.C("ORemove", k))
				}
				search(idx)
				x0, z0 := at(idx, 0)
				ops = append(ops, hx.C("OAdd", 1, x0, 0, z0))
				all()
				for k := n; k > n/2; k-- {
					ops = append(ops, hx.C("ORemove", k))
				}
				all()
				emit(ops)
			}
		}
	}
}

func Run(cfg *hx.Config) error {
	emit := func(kind string, ops []hx.T, tags []string) {
		obs, nt, xt := Exec(ops)
		for t := range xt {
			found := false
			for _, u := range tags {
				if u == t {
					found = true
				}
			}
			if !found {
				tags = append(tags, t)
			}
		}
		sort.Strings(tags)
		cfg.Emit(hx.Case{Kind: kind, Ops: ops, Obs: obs, Nontrivial: nt, Tags: tags})
	}
	if cfg.In != "" {
		cs, err := hx.ReadCases(cfg.In)
		if err != nil {
			return err
		}
		for _, c := range cs {
			ops := hx.Terms(c.Ops)
			for _, o := range ops { // make a failing float case explain itself on stdout
				if o.Name == "OFloat" {
					floatCheck(o.Int(0), int(o.Int(1)), true)
				}
			}
			emit("replay", ops, c.Tags)
		}
		return nil
	}
	depth := 3
	if cfg.Tier == "thorough" {
		depth = 4
	}
	for L := 0; L <= depth; L++ {
		enumerate(L, func(ops []hx.T) { emit(fmt.Sprintf("exhaustive-%d", L), ops, nil) })
	}
	boundarySweep(func(ops []hx.T) { emit("boundary-sweep", ops, []string{"border", "clamp-boundary", "box-on-border"}) })
	crowdCases(func(ops []hx.T) { emit("crowd", ops, []string{"crowded"}) })
	for i := 0; i < cfg.N; i++ {
		maxLen := 14
		if i%4 == 3 {
			maxLen = 70
		}
		hot := i%5 == 2
		if hot {
			maxLen = 40 + 30*(i%4)
		}
		ops, tags := gen(cfg, maxLen, hot)
		kind := "random"
		if hot {
			kind = "random-crowded"
		}
		emit(kind, ops, tags)
	}
	// random-float search support: one observation per inner run; a failing run is reduced
	// to its shortest failing prefix before it is emitted
	nf := cfg.N / 4
	for i := 0; i < nf; i++ {
		seed := cfg.Rng.Int63n(1 << 40)
		n := 200
		if ok, at := floatCheck(seed, n, false); !ok {
			n = at + 1
		}
		emit("float", []hx.T{hx.C("OFloat", seed, n)}, []string{"float"})
	}
	return nil
}
