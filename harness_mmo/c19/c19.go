// Package c19 drives the real mmo scene manager (servers/scenem: SceneServiceMgr, World,
// SceneLines) through the overlay module `mmo`, using the white-box accessors of
// harness_mmo/whitebox/servers/scenem/verif_c19.go and the virtual clock
// common.VerifSetNowMs (build tag verif).
package c19

import (
	"fmt"
	"sort"
	"strconv"
	"strings"

	"github.com/dfklegend/cell2/utils/common"
	"github.com/dfklegend/cell2/utils/logger"
	"github.com/sirupsen/logrus"

	"mmo/servers/scenem"

	"verifhm/hx"
)

const clock0 = 1000000 // Model.clock0

func svcName(tok int64) string { return fmt.Sprintf("scene-%d", tok) }

func svcTok(name string) int64 {
	n, err := strconv.ParseInt(strings.TrimPrefix(name, "scene-"), 10, 64)
	if err != nil {
		panic("c19: unexpected service name " + name)
	}
	return n
}

func pair(a, b any) hx.Pair { return hx.Pair{A: a, B: b} }

type liveScene struct {
	sid, cfg, line, svc int64
}

// runner executes ops one at a time on one real manager
type runner struct {
	m     *scenem.SceneServiceMgr
	clock int64
	// what the last dump showed (used by the generator to aim, never by the executor)
	live     []liveScene
	services map[int64]bool // token -> working
	removed  bool           // some op removed a live scene
	answered bool           // some request returned a scene
	created  bool
}

func newRunner() *runner {
	common.VerifSetNowMs(clock0)
	return &runner{m: scenem.VerifNewMgr(), clock: clock0, services: map[int64]bool{}}
}

func (r *runner) close() {
	r.m.VerifStop()
	common.VerifSetNowMs(0)
}

func (r *runner) dump() any {
	scenes, lines, services := r.m.VerifDump()
	if !r.m.VerifSceneKeyMatches() {
		panic("c19: a scene is stored under a key different from its SceneId")
	}
	if !r.m.VerifCPURateZero() {
		panic("c19: a service has a non-zero CPURate (model assumption violated)")
	}
	before := len(r.live)
	r.live = r.live[:0]
	sl := []any{}
	for _, s := range scenes {
		tok := svcTok(s.ServiceId)
		sl = append(sl, pair(int64(s.SceneId), pair(pair(int64(s.CfgId), int64(s.LineId)), tok)))
		r.live = append(r.live, liveScene{int64(s.SceneId), int64(s.CfgId), int64(s.LineId), tok})
	}
	if len(r.live) < before {
		r.removed = true
	}
	ll := []any{}
	for _, c := range lines {
		es := []any{}
		for _, l := range c.Lines {
			es = append(es, pair(int64(l.LineId), int64(l.SceneId)))
		}
		ll = append(ll, pair(int64(c.CfgId), es))
	}
	sort.Slice(services, func(i, j int) bool { return svcTok(services[i].Name) < svcTok(services[j].Name) })
	vl := []any{}
	r.services = map[int64]bool{}
	for _, s := range services {
		tok := svcTok(s.Name)
		r.services[tok] = s.Working
		vl = append(vl, pair(tok, pair(pair(pair(int64(s.Num), s.Working), s.Last), int64(s.Failed))))
	}
	return pair(pair(sl, ll), vl)
}

// do executes one op on the real manager and returns (result, dump)
func (r *runner) do(o hx.T) (obs any, alloc *liveScene) {
	defer func() {
		if p := recover(); p != nil {
			if s, ok := p.(string); ok && strings.HasPrefix(s, "c19:") {
				panic(p) // the harness's own assertions
			}
			// a panic of the manager is an observation no model result matches
			bad := hx.C("RReq", hx.C("Some", pair(pair(pair(int64(-1), int64(-1)), int64(-1)), int64(-1))))
			obs, alloc = pair(bad, r.dump()), nil
		}
	}()
	var res any = "RUnit"
	switch o.Name {
	case "OCreate":
		r.m.OnSceneCreateSucc(&scenem.SceneObj{CfgId: int32(o.Int(0)), SceneId: uint64(o.Int(1)), ServiceId: svcName(o.Int(2))})
		r.created = true
	case "OEnd":
		r.m.OnSceneEnd(uint64(o.Int(0)))
	case "ORefresh":
		r.m.OnServiceRefresh(svcName(o.Int(0)), int(o.Int(1)))
	case "OTick":
		r.m.VerifTick()
	case "OAdvance":
		r.clock += o.Int(0)
		common.VerifSetNowMs(r.clock)
	case "OLost":
		r.m.VerifLost(svcName(o.Int(0)))
	case "OAlloc":
		s := r.m.AllocScene(int32(o.Int(0)))
		if s == nil {
			res = hx.C("RAlloc", "None")
		} else {
			tok := svcTok(s.ServiceId)
			res = hx.C("RAlloc", hx.C("Some", pair(tok, int64(s.SceneId))))
			alloc = &liveScene{sid: int64(s.SceneId), cfg: int64(s.CfgId), svc: tok}
		}
	case "OReq":
		s := r.m.ReqSceneByCfgId(int32(o.Int(0)))
		if s == nil {
			res = hx.C("RReq", "None")
		} else {
			r.answered = true
			res = hx.C("RReq", hx.C("Some", pair(pair(pair(int64(s.SceneId), int64(s.CfgId)), int64(s.LineId)), svcTok(s.ServiceId))))
		}
	default:
		panic("c19: unknown op " + o.Name)
	}
	return pair(res, r.dump()), alloc
}

func (r *runner) nontrivial() bool { return r.created && (r.removed || r.answered) }

// Exec runs one op list against a fresh real manager.
func Exec(ops []hx.T) (obs []any, nontrivial bool) {
	r := newRunner()
	defer r.close()
	for _, o := range ops {
		b, _ := r.do(o)
		obs = append(obs, b)
	}
	return obs, r.nontrivial()
}

// selfCheck: the float32 weight really is the monotone function of the scene count the model
// uses (strict below the cap, exactly 1 from 5000 on and for non-working services).
func selfCheck() error {
	prev := scenem.VerifWeight(-20001, true)
	for n := -20000; n <= 20000; n++ {
		w := scenem.VerifWeight(n, true)
		switch {
		case n < 5000 && !(w > prev && w < 1):
			return fmt.Errorf("c19: GetBusyWeight not strictly increasing below the cap at n=%d (%v after %v)", n, w, prev)
		case n >= 5000 && w != 1:
			return fmt.Errorf("c19: GetBusyWeight(%d) = %v, expected the cap 1", n, w)
		}
		prev = w
	}
	if scenem.VerifWeight(0, false) != 1 || scenem.VerifWeight(9000, false) != 1 {
		return fmt.Errorf("c19: GetBusyWeight of a non-working service is not 1")
	}
	return nil
}

// ---------------------------------------------------------------- generator
//
// Ops are generated WHILE executing them on the real manager, so that the result of an
// AllocScene (which depends on Go's map order among equally idle services) can be used by a
// later OCreate exactly as the asynchronous reply of SpawnScene would.  The emitted op list is
// plain data and is what a replay executes.

func gen(cfg *hx.Config, maxLen int) ([]hx.T, []any, bool, []string) {
	rng := cfg.Rng
	r := newRunner()
	defer r.close()
	tags := map[string]bool{}
	var ops []hx.T
	var obs []any
	var pending []liveScene // allocated, reply not yet arrived
	usedSid := map[int64]bool{}
	nextOwn := int64(1000)
	cfgs := []int64{100, 101, 102, 1}
	nsvc := int64(2 + rng.Intn(3))
	run := func(o hx.T) {
		b, a := r.do(o)
		ops = append(ops, o)
		obs = append(obs, b)
		if a != nil {
			pending = append(pending, *a)
		}
	}
	pickLive := func() (liveScene, bool) {
		if len(r.live) == 0 {
			return liveScene{}, false
		}
		return r.live[rng.Intn(len(r.live))], true
	}
	n := 3 + rng.Intn(maxLen)
	// usually start with some services alive
	for s := int64(1); s <= nsvc; s++ {
		if rng.Intn(4) > 0 {
			run(hx.C("ORefresh", s, hx.Pick(rng, []int64{0, 0, 1, 2, 7})))
		}
	}
	for len(ops) < n {
		switch c := rng.Intn(100); {
		case c < 14: // keep-alive with a scene count; ties and cap values on purpose
			num := hx.Pick(rng, []int64{0, 0, 1, 1, 2, 3, 5, 100, 4999, 5000, 5001, 7000, -3, int64(rng.Intn(20))})
			run(hx.C("ORefresh", 1+rng.Int63n(nsvc), num))
		case c < 30:
			run(hx.C("OAlloc", hx.Pick(rng, cfgs)))
		case c < 52: // the reply of an allocation arrives (any order), or a creation of our own
			if len(pending) > 0 && rng.Intn(6) > 0 {
				i := rng.Intn(len(pending))
				p := pending[i]
				pending = append(pending[:i], pending[i+1:]...)
				if !r.services[p.svc] {
					tags["create-on-lost-service"] = true
				}
				usedSid[p.sid] = true
				run(hx.C("OCreate", p.cfg, p.sid, p.svc))
			} else {
				sid := nextOwn
				nextOwn++
				svc := 1 + rng.Int63n(nsvc+1) // may be a service the manager never saw
				switch rng.Intn(25) {
				case 0: // guard violated: scene id reused / zero
					if l, ok := pickLive(); ok {
						sid = l.sid
						tags["guard-violated"] = true
					}
				case 1:
					sid = 0
					tags["guard-violated"] = true
				}
				if usedSid[sid] {
					tags["guard-violated"] = true
				}
				usedSid[sid] = true
				run(hx.C("OCreate", hx.Pick(rng, cfgs), sid, svc))
			}
		case c < 66:
			if l, ok := pickLive(); ok && rng.Intn(5) > 0 {
				// prefer low line numbers now and then so that gaps appear
				if rng.Intn(2) == 0 {
					for _, x := range r.live {
						if x.cfg == l.cfg && x.line < l.line {
							l = x
						}
					}
				}
				tags["end-live"] = true
				run(hx.C("OEnd", l.sid))
				if rng.Intn(6) == 0 {
					tags["end-twice"] = true
					run(hx.C("OEnd", l.sid))
				}
			} else {
				tags["end-unknown"] = true
				run(hx.C("OEnd", hx.Pick(rng, []int64{0, 7, 999, 123456})))
			}
		case c < 76: // time passes, the 1 s timer fires
			dt := hx.Pick(rng, []int64{0, 1, 500, 999, 1000, 2999, 3000, 3000, 3000, 3001, 9000})
			run(hx.C("OAdvance", dt))
			run(hx.C("OTick"))
			if dt >= 3000 {
				tags["strike"] = true
			}
		case c < 80: // drive one service to the 4th strike while others keep refreshing
			keep := 1 + rng.Int63n(nsvc)
			for k := 0; k < 4 && len(ops) < n+8; k++ {
				run(hx.C("OAdvance", int64(3000)))
				if rng.Intn(2) == 0 {
					run(hx.C("ORefresh", keep, int64(rng.Intn(5))))
				}
				run(hx.C("OTick"))
			}
			tags["four-strikes"] = true
		case c < 86:
			svc := 1 + rng.Int63n(nsvc+1)
			if w, known := r.services[svc]; !known {
				tags["lost-unknown"] = true
			} else if !w {
				tags["lost-repeated"] = true
			}
			run(hx.C("OLost", svc))
		default:
			run(hx.C("OReq", hx.Pick(rng, append(cfgs, 55))))
		}
	}
	for _, c := range cfgs[:3] {
		run(hx.C("OReq", c))
	}
	run(hx.C("OAlloc", int64(100)))
	var tl []string
	for t := range tags {
		tl = append(tl, t)
	}
	sort.Strings(tl)
	return ops, obs, r.nontrivial(), tl
}

// exhaustive small scope: every sequence of length L over this alphabet; OCreate gets the next
// unused scene id, OEnd k ends the k-th created scene (whether or not it is still live).
func enumerate(L int, emit func([]hx.T)) {
	type sym struct {
		name string
		a, b int64
	}
	alpha := []sym{{"R", 1, 0}, {"R", 2, 1}, {"C", 100, 1}, {"C", 100, 2}, {"C", 101, 1}, {"E", 1, 0}, {"E", 2, 0}, {"L", 1, 0}, {"T", 0, 0}}
	cur := make([]sym, 0, L)
	var rec func(d int)
	rec = func(d int) {
		if d == L {
			var ops []hx.T
			next := int64(1)
			for _, s := range cur {
				switch s.name {
				case "R":
					ops = append(ops, hx.C("ORefresh", s.a, s.b))
				case "C":
					ops = append(ops, hx.C("OCreate", s.a, next, s.b))
					next++
				case "E":
					ops = append(ops, hx.C("OEnd", s.a))
				case "L":
					ops = append(ops, hx.C("OLost", s.a))
				case "T":
					ops = append(ops, hx.C("OAdvance", int64(12000)), hx.C("OTick"))
				}
			}
			ops = append(ops, hx.C("OCreate", int64(100), next, int64(2)), hx.C("OReq", int64(100)), hx.C("OAlloc", int64(101)))
			emit(ops)
			return
		}
		for _, a := range alpha {
			cur = append(cur, a)
			rec(d + 1)
			cur = cur[:len(cur)-1]
		}
	}
	rec(0)
}

// ---------------------------------------------------------------- hole patterns
//
// holeEnumerate: ONE configuration.  k scenes are created (lines 0..k-1), then every sequence
// of length <= depth over the alphabet { create, end the scene on line j (j < k) } that never
// ends an empty line is executed, followed by two creations and a request.  Holes of different
// ages therefore coexist in every possible way: several lines freed, only some refilled, a
// higher one freed, the next creation must still take the least free number.  The generator
// tracks which scene sits on which line with the CORRECT rule only to translate "the scene on
// line j" into a scene id; the expected behaviour comes from the model, not from here.
func holeEnumerate(k, depth int, emit func([]hx.T)) {
	const cfg = int64(100)
	type sym int // -1 = create, j >= 0 = end the scene on line j
	var rec func(d int, seq []sym, lines map[int]int64, next int64, ops []hx.T)
	least := func(lines map[int]int64) int {
		for n := 0; ; n++ {
			if _, used := lines[n]; !used {
				return n
			}
		}
	}
	rec = func(d int, seq []sym, lines map[int]int64, next int64, ops []hx.T) {
		if len(seq) > 0 {
			tail := append(append([]hx.T{}, ops...),
				hx.C("OCreate", cfg, next, int64(1)), hx.C("OCreate", cfg, next+1, int64(2)), hx.C("OReq", cfg))
			emit(tail)
		}
		if d == 0 {
			return
		}
		for a := -1; a < k; a++ {
			nl := map[int]int64{}
			for x, y := range lines {
				nl[x] = y
			}
			if a < 0 {
				nl[least(nl)] = next
				rec(d-1, append(seq, sym(a)), nl, next+1, append(append([]hx.T{}, ops...), hx.C("OCreate", cfg, next, int64(1+next%2))))
				continue
			}
			sid, ok := nl[a]
			if !ok {
				continue // nothing on that line: ending an unknown scene is covered elsewhere
			}
			delete(nl, a)
			rec(d-1, append(seq, sym(a)), nl, next, append(append([]hx.T{}, ops...), hx.C("OEnd", sid)))
		}
	}
	lines := map[int]int64{}
	var ops []hx.T
	for i := 0; i < k; i++ {
		lines[i] = int64(i + 1)
		ops = append(ops, hx.C("OCreate", cfg, int64(i+1), int64(1+i%2)))
	}
	rec(depth, nil, lines, int64(k+1), ops)
}

// genHoles: 1-3 configurations with 3-6 scenes each on 2-3 services; then a long random
// interleaving of ends (any live scene, biased to one configuration at a time so that several
// of ITS lines are free together), creations into the configurations that have holes, service
// losses and four-strike expiries that free many lines at once followed by creations, and
// requests.  Executed on the real manager while generating (the live set is read from the dump).
func genHoles(cfg *hx.Config, maxLen int) ([]hx.T, []any, bool, []string) {
	rng := cfg.Rng
	r := newRunner()
	defer r.close()
	tags := map[string]bool{"holes": true}
	var ops []hx.T
	var obs []any
	run := func(o hx.T) {
		b, _ := r.do(o)
		ops = append(ops, o)
		obs = append(obs, b)
	}
	ncfg := 1 + rng.Intn(3)
	cfgs := []int64{100, 101, 102}[:ncfg]
	nsvc := int64(2 + rng.Intn(2))
	next := int64(1)
	for s := int64(1); s <= nsvc; s++ {
		run(hx.C("ORefresh", s, int64(rng.Intn(4))))
	}
	create := func(c int64) {
		run(hx.C("OCreate", c, next, 1+rng.Int63n(nsvc)))
		next++
	}
	for _, c := range cfgs {
		for i := 3 + rng.Intn(4); i > 0; i-- {
			create(c)
		}
	}
	focus := hx.Pick(rng, cfgs)
	liveOf := func(c int64) []liveScene {
		var l []liveScene
		for _, x := range r.live {
			if x.cfg == c {
				l = append(l, x)
			}
		}
		return l
	}
	n := len(ops) + 6 + rng.Intn(maxLen)
	for len(ops) < n {
		if rng.Intn(12) == 0 {
			focus = hx.Pick(rng, cfgs)
		}
		c := focus
		if rng.Intn(5) == 0 {
			c = hx.Pick(rng, cfgs)
		}
		switch p := rng.Intn(100); {
		case p < 45: // end a scene of the configuration in focus: low, high or any line
			l := liveOf(c)
			if len(l) == 0 {
				create(c)
				break
			}
			sort.Slice(l, func(i, j int) bool { return l[i].line < l[j].line })
			var x liveScene
			switch rng.Intn(4) {
			case 0:
				x = l[0]
			case 1:
				x = l[len(l)-1]
			default:
				x = l[rng.Intn(len(l))]
			}
			run(hx.C("OEnd", x.sid))
		case p < 80:
			create(c)
		case p < 86: // a burst: free several lines, refill some
			l := liveOf(c)
			rng.Shuffle(len(l), func(i, j int) { l[i], l[j] = l[j], l[i] })
			k := 0
			if len(l) > 0 {
				k = 1 + rng.Intn(len(l))
			}
			for _, x := range l[:k] {
				run(hx.C("OEnd", x.sid))
			}
			for i := rng.Intn(k + 1); i > 0; i-- {
				create(c)
			}
			tags["burst"] = true
		case p < 92: // a service disappears: many lines of several configurations are freed at once
			svc := 1 + rng.Int63n(nsvc)
			if rng.Intn(2) == 0 {
				run(hx.C("OLost", svc))
				tags["loss-frees-many"] = true
			} else {
				for k := 0; k < 4; k++ {
					run(hx.C("OAdvance", int64(3000)))
					for s := int64(1); s <= nsvc; s++ {
						if s != svc {
							run(hx.C("ORefresh", s, int64(rng.Intn(4))))
						}
					}
					run(hx.C("OTick"))
				}
				tags["expiry-frees-many"] = true
			}
			for i := 1 + rng.Intn(3); i > 0; i-- {
				create(hx.Pick(rng, cfgs))
			}
			if rng.Intn(2) == 0 {
				run(hx.C("ORefresh", svc, int64(0)))
			}
		default:
			run(hx.C("OReq", c))
		}
	}
	for _, c := range cfgs { // every configuration must still hand out its least free line
		create(c)
		create(c)
	}
	var tl []string
	for t := range tags {
		tl = append(tl, t)
	}
	sort.Strings(tl)
	return ops, obs, r.nontrivial(), tl
}

func Run(cfg *hx.Config) error {
	logger.SetLogLevel(logrus.PanicLevel)
	logger.GetLogProxy("default").SetLogLevel(logrus.PanicLevel)
	logger.GetLogProxy("exception").SetLogLevel(logrus.PanicLevel)
	// the model's weight (5000 * GetBusyWeight as an integer) is justified by this sweep; when it
	// fails the cases below still run - the busy-weight grid turns the failing count into a
	// concrete history (two services, an allocation that must go to the less busy one)
	wfail := selfCheck()
	if wfail != nil {
		fmt.Println("c19 selfCheck:", wfail)
	}
	if cfg.In != "" {
		cs, err := hx.ReadCases(cfg.In)
		if err != nil {
			return err
		}
		for _, c := range cs {
			ops := hx.Terms(c.Ops)
			obs, nt := Exec(ops)
			cfg.Emit(hx.Case{Kind: "replay", Ops: ops, Obs: obs, Nontrivial: nt, Tags: c.Tags})
		}
		return nil
	}
	var buf []hx.Case
	emit := func(c hx.Case) { buf = append(buf, c) }
	depth := 3
	if cfg.Tier == "thorough" {
		depth = 4
	}
	for L := 0; L <= depth; L++ {
		enumerate(L, func(ops []hx.T) {
			obs, nt := Exec(ops)
			emit(hx.Case{Kind: fmt.Sprintf("exhaustive-%d", L), Ops: ops, Obs: obs, Nontrivial: nt})
		})
	}
	// hole patterns in one configuration, exhaustively: k initial scenes, all end/create
	// interleavings up to the depth
	hd := map[int]int{2: 5, 3: 5, 4: 4}
	if cfg.Tier == "thorough" {
		hd = map[int]int{2: 8, 3: 7, 4: 6}
	}
	for k := 2; k <= 4; k++ {
		holeEnumerate(k, hd[k], func(ops []hx.T) {
			obs, nt := Exec(ops)
			emit(hx.Case{Kind: fmt.Sprintf("holes-%d", k), Ops: ops, Obs: obs, Nontrivial: nt, Tags: []string{"holes"}})
		})
	}
	// requests interleaved with the end of a line: n lines of one configuration, k requests, then the
	// scene on line j ends (directly, or because its service is lost), then requests again - a request
	// must keep answering with a live scene of that configuration whatever was asked before
	maxn := 4
	if cfg.Tier == "thorough" {
		maxn = 6
	}
	for n := 2; n <= maxn; n++ {
		for k := 0; k < 2*n; k++ {
			for _, j := range []int{n - 1, 0, n / 2} {
				for _, lost := range []bool{false, true} {
					ops := []hx.T{hx.C("ORefresh", int64(1), int64(0)), hx.C("ORefresh", int64(2), int64(0))}
					for l := 0; l < n; l++ {
						svc := int64(1)
						if l == j {
							svc = 2
						}
						ops = append(ops, hx.C("OCreate", int64(100), int64(l+1), svc))
					}
					for q := 0; q < k; q++ {
						ops = append(ops, hx.C("OReq", int64(100)))
					}
					if lost {
						ops = append(ops, hx.C("OLost", int64(2)))
					} else {
						ops = append(ops, hx.C("OEnd", int64(j+1)))
					}
					ops = append(ops, hx.C("OReq", int64(100)), hx.C("OReq", int64(100)), hx.C("OCreate", int64(100), int64(n+1), int64(1)), hx.C("OReq", int64(100)))
					obs, nt := Exec(ops)
					emit(hx.Case{Kind: "req-after-end", Ops: ops, Obs: obs, Nontrivial: nt, Tags: []string{"req-after-end"}})
				}
			}
		}
	}
	// many lines of one configuration: n = 63..130 scenes (lines 0..n-1), the scene on line j ends
	// (j around 0, 31, 62..66, n-2, n-1), then creations: each must take the least free line
	many := []int{65, 66, 70}
	if cfg.Tier == "thorough" {
		many = []int{31, 32, 33, 63, 64, 65, 66, 67, 70, 100, 127, 128, 129, 130, 200}
	}
	for _, n := range many {
		seen := map[int]bool{}
		js := []int{0, 63, 64, 65, n - 2}
		if cfg.Tier == "thorough" {
			js = []int{0, 31, 62, 63, 64, 65, 66, n / 2, n - 2, n - 1}
		}
		for _, j := range js {
			if j < 0 || j >= n || seen[j] {
				continue
			}
			seen[j] = true
			ops := []hx.T{hx.C("ORefresh", int64(1), int64(0)), hx.C("ORefresh", int64(2), int64(0))}
			for l := 0; l < n; l++ {
				ops = append(ops, hx.C("OCreate", int64(100), int64(l+1), int64(1+l%2)))
			}
			ops = append(ops, hx.C("OEnd", int64(j+1)), hx.C("OCreate", int64(100), int64(n+1), int64(1)), hx.C("OCreate", int64(100), int64(n+2), int64(2)), hx.C("OReq", int64(100)))
			if j+2 < n {
				ops = append(ops, hx.C("OEnd", int64(j+3)), hx.C("OEnd", int64(n+1)), hx.C("OCreate", int64(100), int64(n+3), int64(1)), hx.C("OCreate", int64(100), int64(n+4), int64(1)))
			}
			obs, nt := Exec(ops)
			emit(hx.Case{Kind: "many-lines", Ops: ops, Obs: obs, Nontrivial: nt, Tags: []string{"many-lines"}})
		}
	}
	// busy-weight grid: two or three working services with scene counts around every kink of
	// GetBusyWeight (1000 scenes = "ratio 1", 5000 = the cap), then an allocation: it must land on
	// the least busy one
	grid := []int64{0, 1, 999, 1000, 1001, 1200, 2500, 3600, 4100, 4998, 4999}
	if wfail != nil {
		var n int64
		if _, err := fmt.Sscanf(wfail.Error()[strings.Index(wfail.Error(), "n=")+2:], "%d", &n); err == nil {
			grid = append(grid, n-1, n, n+1)
		}
	}
	for _, a := range grid {
		for _, b := range grid {
			if a == b {
				continue
			}
			ops := []hx.T{hx.C("ORefresh", int64(1), a), hx.C("ORefresh", int64(2), b), hx.C("OAlloc", int64(101))}
			if (a+b)%3 == 0 {
				ops = []hx.T{hx.C("ORefresh", int64(1), a), hx.C("ORefresh", int64(2), b), hx.C("ORefresh", int64(3), a+b+7), hx.C("OAlloc", int64(101)), hx.C("OAlloc", int64(102))}
			}
			obs, nt := Exec(ops)
			emit(hx.Case{Kind: "busy-weight-grid", Ops: ops, Obs: obs, Nontrivial: nt, Tags: []string{"busy-weight-grid"}})
		}
	}
	for i := 0; i < cfg.N; i++ {
		if i%4 == 1 {
			ops, obs, nt, tags := genHoles(cfg, 8+6*(i%5))
			emit(hx.Case{Kind: "random-holes", Ops: ops, Obs: obs, Nontrivial: nt, Tags: tags})
			continue
		}
		maxLen := 12
		if i%4 == 3 {
			maxLen = 45
		}
		ops, obs, nt, tags := gen(cfg, maxLen)
		emit(hx.Case{Kind: "random", Ops: ops, Obs: obs, Nontrivial: nt, Tags: tags})
	}
	// bin/check.py evaluates the cases in shards of 500, in parallel: deal the streams out evenly
	// so that no shard gets all the long histories
	shards := (len(buf) + 499) / 500
	for k := 0; k < shards; k++ {
		for j := k; j < len(buf); j += shards {
			cfg.Emit(buf[j])
		}
	}
	return nil
}
