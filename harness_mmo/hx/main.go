package hx

import (
	"flag"
	"fmt"
	"os"
)

// Main is the entry point shared by every per-property harness binary
// (harness/cmd/<id>/main.go):  <bin> <PROP> [flags].
func Main(run func(cfg *Config) error) {
	if len(os.Args) < 2 {
		fmt.Fprintln(os.Stderr, "usage: <harness> <property> [flags]")
		os.Exit(2)
	}
	prop := os.Args[1]
	fs := flag.NewFlagSet(prop, flag.ExitOnError)
	cfg := &Config{}
	fs.Int64Var(&cfg.Seed, "seed", 1, "PRNG seed")
	fs.IntVar(&cfg.N, "n", 300, "number of generated cases")
	fs.StringVar(&cfg.Tier, "tier", "quick", "quick|thorough")
	fs.StringVar(&cfg.In, "in", "", "replay ops from this JSONL instead of generating")
	fs.StringVar(&cfg.Out, "out", "cases.jsonl", "output JSONL")
	fs.StringVar(&cfg.Scratch, "scratch", "", "scratch directory")
	fs.Parse(os.Args[2:])
	if err := cfg.Open(); err != nil {
		fmt.Fprintln(os.Stderr, "harness:", err)
		os.Exit(2)
	}
	err := run(cfg)
	cfg.Close()
	if err != nil {
		fmt.Fprintln(os.Stderr, "harness:", err)
		os.Exit(3)
	}
	fmt.Printf("harness %s: %d cases\n", prop, cfg.Emitted())
}
