// Package hx is the small shared library of the verification harness: the generic
// operation/observation term representation (mirrors Coq constructor applications),
// the deterministic PRNG, and the JSONL case writer/reader.
package hx

import (
	"bufio"
	"encoding/json"
	"fmt"
	"math"
	"math/rand"
	"os"
	"sort"
	"strconv"
)

// T is a term: constructor application  Name a1 .. an.  JSON form: {"Name":[a1,..,an]}.
// Arguments are int64 / bool / string (bare constructor) / []any (Coq list) / T / Pair.
type T struct {
	Name string
	Args []any
}

// Num is an integer that does not fit int64 (decimal digits); JSON form: a bare number.
type Num string

func (n Num) MarshalJSON() ([]byte, error) { return []byte(string(n)), nil }

// Pair is a Coq pair (a, b); JSON form {"":[a,b]}.
type Pair struct{ A, B any }

func C(name string, args ...any) T { return T{Name: name, Args: norm(args)} }

func norm(args []any) []any {
	out := make([]any, len(args))
	for i, a := range args {
		out[i] = Norm(a)
	}
	return out
}

// Norm converts Go values into the canonical term representation.
func Norm(a any) any {
	switch v := a.(type) {
	case int:
		return int64(v)
	case int32:
		return int64(v)
	case uint32:
		return int64(v)
	case uint64:
		if v > math.MaxInt64 {
			return Num(strconv.FormatUint(v, 10))
		}
		return int64(v)
	case uint:
		return Norm(uint64(v))
	case Num:
		return v
	case uint8:
		return int64(v)
	case int64, bool, string, T, Pair:
		return v
	case []int64:
		r := make([]any, len(v))
		for i, x := range v {
			r[i] = x
		}
		return r
	case []int:
		r := make([]any, len(v))
		for i, x := range v {
			r[i] = int64(x)
		}
		return r
	case []uint32:
		r := make([]any, len(v))
		for i, x := range v {
			r[i] = int64(x)
		}
		return r
	case []byte:
		r := make([]any, len(v))
		for i, x := range v {
			r[i] = int64(x)
		}
		return r
	case []T:
		r := make([]any, len(v))
		for i, x := range v {
			r[i] = x
		}
		return r
	case []any:
		return norm(v)
	case nil:
		return []any{}
	}
	panic(fmt.Sprintf("hx.Norm: unsupported %T", a))
}

func (t T) MarshalJSON() ([]byte, error) {
	args := t.Args
	if args == nil {
		args = []any{}
	}
	return json.Marshal(map[string]any{t.Name: args})
}

func (p Pair) MarshalJSON() ([]byte, error) {
	return json.Marshal(map[string]any{"": []any{p.A, p.B}})
}

// FromJSON converts decoded JSON (interface{} from encoding/json with UseNumber) into terms.
func FromJSON(v any) any {
	switch x := v.(type) {
	case json.Number:
		n, err := x.Int64()
		if err != nil {
			return Num(x.String())
		}
		return n
	case float64:
		return int64(x)
	case bool, string:
		return x
	case []any:
		r := make([]any, len(x))
		for i, e := range x {
			r[i] = FromJSON(e)
		}
		return r
	case map[string]any:
		for k, a := range x {
			args := FromJSON(a).([]any)
			if k == "" {
				return Pair{args[0], args[1]}
			}
			return T{Name: k, Args: args}
		}
	}
	panic(fmt.Sprintf("hx.FromJSON: unsupported %T", v))
}

// U64 reads an unsigned 64-bit argument (int64 or Num).
func U64(a any) uint64 {
	switch v := a.(type) {
	case int64:
		return uint64(v)
	case Num:
		u, err := strconv.ParseUint(string(v), 10, 64)
		if err != nil {
			panic(err)
		}
		return u
	}
	panic(fmt.Sprintf("hx.U64: %T", a))
}

// accessors for executors
func (t T) Int(i int) int64   { return t.Args[i].(int64) }
func (t T) Bool(i int) bool   { return t.Args[i].(bool) }
func (t T) Str(i int) string  { return t.Args[i].(string) }
func (t T) Term(i int) T      { return AsTerm(t.Args[i]) }
func (t T) List(i int) []any  { return t.Args[i].([]any) }
func (t T) Ints(i int) []int64 { return Ints(t.Args[i]) }

func AsTerm(a any) T {
	switch v := a.(type) {
	case T:
		return v
	case string:
		return T{Name: v}
	}
	panic(fmt.Sprintf("hx.AsTerm: %T", a))
}

func Ints(a any) []int64 {
	l := a.([]any)
	r := make([]int64, len(l))
	for i, x := range l {
		r[i] = x.(int64)
	}
	return r
}

func Terms(a any) []T {
	l := a.([]any)
	r := make([]T, len(l))
	for i, x := range l {
		r[i] = AsTerm(x)
	}
	return r
}

// Case is one correspondence case: what was done and what was observed.
type Case struct {
	ID         int      `json:"id"`
	Kind       string   `json:"kind"`           // generator stream that produced it
	Ops        any      `json:"ops"`            // term (usually list of T)
	Obs        any      `json:"obs"`            // term
	Nontrivial bool     `json:"nontrivial"`
	Tags       []string `json:"tags,omitempty"` // distribution tags (counted into the evidence)
	Note       string   `json:"note,omitempty"`
}

// Config is what every property driver receives.
type Config struct {
	Seed    int64
	N       int    // number of generated cases wanted (driver may scale it)
	Tier    string // quick | thorough
	In      string // replay: JSONL of cases whose ops are to be re-executed ("" = generate)
	Out     string // JSONL output
	Scratch string // scratch directory (removed by the caller)
	Rng     *rand.Rand
	w       *bufio.Writer
	f       *os.File
	next    int
}

func (c *Config) Open() error {
	f, err := os.Create(c.Out)
	if err != nil {
		return err
	}
	c.f = f
	c.w = bufio.NewWriterSize(f, 1<<20)
	c.Rng = rand.New(rand.NewSource(c.Seed))
	return nil
}

func (c *Config) Close() {
	if c.w != nil {
		c.w.Flush()
		c.f.Close()
	}
}

// Emit writes one case.
func (c *Config) Emit(cs Case) {
	cs.ID = c.next
	c.next++
	cs.Ops = Norm(cs.Ops)
	cs.Obs = Norm(cs.Obs)
	b, err := json.Marshal(cs)
	if err != nil {
		panic(err)
	}
	c.w.Write(b)
	c.w.WriteByte('\n')
}

func (c *Config) Emitted() int { return c.next }

// ReadCases loads the ops of the cases in a JSONL file (replay / corpus).
func ReadCases(path string) ([]Case, error) {
	f, err := os.Open(path)
	if err != nil {
		return nil, err
	}
	defer f.Close()
	var out []Case
	sc := bufio.NewScanner(f)
	sc.Buffer(make([]byte, 1<<20), 1<<28)
	for sc.Scan() {
		line := sc.Bytes()
		if len(line) == 0 || line[0] == '#' {
			continue
		}
		dec := json.NewDecoder(bytesReader(line))
		dec.UseNumber()
		var raw struct {
			Kind string   `json:"kind"`
			Ops  any      `json:"ops"`
			Tags []string `json:"tags"`
			Note string   `json:"note"`
		}
		if err := dec.Decode(&raw); err != nil {
			return nil, fmt.Errorf("%s: %v", path, err)
		}
		out = append(out, Case{Kind: raw.Kind, Ops: FromJSON(raw.Ops), Tags: raw.Tags, Note: raw.Note})
	}
	return out, sc.Err()
}

// SortedKeys returns the keys of an int64-keyed map in ascending order.
func SortedKeys[V any](m map[int64]V) []int64 {
	ks := make([]int64, 0, len(m))
	for k := range m {
		ks = append(ks, k)
	}
	sort.Slice(ks, func(i, j int) bool { return ks[i] < ks[j] })
	return ks
}

// Pick returns a random element.
func Pick[E any](r *rand.Rand, xs []E) E { return xs[r.Intn(len(xs))] }
