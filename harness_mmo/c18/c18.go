// Package c18 drives the real mmo centre (servers/center: PlayerMgr, Player,
// PlayerTransactionLock, KickWaitTaskMgr; common.StateWithTimeout) through the overlay module
// `mmo`.
//
// The centre service is built by its production constructor (handler.NewService) and driven
// through the production remote entry points (handler.Entry in center_remote.go), so the
// translation of the manager's return values into acknowledgement codes is exercised too.
// Everything the centre sends goes through the real app.Kick / app.Request, the real route
// service and a real node/app cluster directory (gate-1, gate-2, logic-1, logic-2); the one
// seam is the exported actorex Service.Context: a recording actor.Context stands in for
// protoactor's, so that sys.kick and logicremote.onoffline requests are logged instead of put
// into a mailbox, and the answer to an onoffline request is delivered (through the real
// Service.Receive -> handleResponse -> callback chain) exactly when the history says OfflineAck.
// The run service of the centre is never started: the manager's 1 s timer and the request
// expiry timer fire into a queue nobody reads, the harness calls PlayerMgr.update() itself
// (white-box VerifTick) and time is the virtual clock common.VerifSetNowMs.
package c18

import (
	"fmt"
	"io"
	"log"
	"math/rand"
	"sort"
	"strconv"
	"strings"
	"sync"

	"github.com/asynkron/protoactor-go/actor"
	"github.com/asynkron/protoactor-go/remote"
	"github.com/sirupsen/logrus"

	as "github.com/dfklegend/cell2/actorex/service"
	"github.com/dfklegend/cell2/actorex/service/servicemsgs"
	"github.com/dfklegend/cell2/node/app"
	"github.com/dfklegend/cell2/node/builtin/msgs"
	"github.com/dfklegend/cell2/node/cluster"
	nodedef "github.com/dfklegend/cell2/nodectrl/define"
	"github.com/dfklegend/cell2/utils/common"
	"github.com/dfklegend/cell2/utils/logger"
	"github.com/dfklegend/cell2/utils/runservice"

	"mmo/common/define"
	mymsg "mmo/messages"
	"mmo/servers/center"
	"mmo/servers/center/handler"

	"verifhm/hx"
)

const clock0 = 1000000 // Model.clock0

var stateNames = []string{"SInit", "SLogining", "SLogined", "SSwitchLine", "SLogouting", "SWaitRemove", "SAbnormal"}
var reasonNames = []string{"TInit", "TLogin", "TLogout", "TReonline", "TSwitchLine"}

const (
	stLogining  = 1
	stLogined   = 2
	stSwitch    = 3
	stLogouting = 4
	stWaitRm    = 5
)

func pair(a, b any) hx.Pair { return hx.Pair{A: a, B: b} }

func name(prefix string, tok int64) string {
	if tok == 0 {
		return ""
	}
	return prefix + strconv.FormatInt(tok, 10)
}

func tok(prefix, s string) int64 {
	if s == "" {
		return 0
	}
	if !strings.HasPrefix(s, prefix) {
		panic("c18: unexpected service name " + s)
	}
	n, err := strconv.ParseInt(s[len(prefix):], 10, 64)
	if err != nil || n == 0 {
		panic("c18: unexpected service name " + s)
	}
	return n
}

func frontName(t int64) string { return name("gate-", t) }
func logicName(t int64) string { return name("logic-", t) }
func frontTok(s string) int64  { return tok("gate-", s) }
func logicTok(s string) int64  { return tok("logic-", s) }

func codeName(c int32) string {
	switch define.ErrorCode(c) {
	case define.Succ:
		return "CSucc"
	case define.ErrSystemBusy:
		return "CSystemBusy"
	case define.ErrAlreadyOnline:
		return "CAlreadyOnline"
	}
	panic(fmt.Sprintf("c18: unexpected login acknowledgement code %d", c))
}

var initOnce sync.Once

// the process-wide parts: silent loggers, the node object and its cluster directory
func initProcess() {
	initOnce.Do(func() {
		logger.SetLogLevel(logrus.PanicLevel)
		logger.GetLogProxy("default").SetLogLevel(logrus.PanicLevel)
		logger.GetLogProxy("exception").SetLogLevel(logrus.PanicLevel)
		log.SetOutput(io.Discard)
		app.Node = app.NewNode()
		app.Node.GetCluster().UpdateClusterTopology([]*cluster.Member{{
			Id: "c18@n1", Host: "nonhost", Port: 0, State: int(nodedef.Working),
			Services: []string{"gate.gate-1", "gate.gate-2", "logic.logic-1", "logic.logic-2"},
		}})
		for _, n := range []string{"gate-1", "gate-2", "logic-1", "logic-2"} {
			if app.GetServicePID(n) == nil {
				panic("c18: cluster directory does not list " + n)
			}
		}
		if app.GetServicePID("gate-3") != nil || app.GetServicePID("logic-3") != nil || app.GetServicePID("") != nil {
			panic("c18: cluster directory lists a service that was never registered")
		}
	})
}

// fakeCtx is the recording actor.Context.  The embedded interface is nil: any method other
// than the four below would panic, i.e. the centre using protoactor in a way the harness does
// not account for is an error, not silence.
type fakeCtx struct {
	actor.Context
	w    *world
	msg  any
	self *actor.PID
}

func (c *fakeCtx) Self() *actor.PID     { return c.self }
func (c *fakeCtx) Actor() actor.Actor   { return c.w.svc }
func (c *fakeCtx) Message() interface{} { return c.msg }
func (c *fakeCtx) Send(pid *actor.PID, message interface{}) {
	c.w.onSend(pid, message)
}

type pending struct {
	reqId int32
	uid   int64
}

// world is one real centre service plus what the harness needs to drive it
type world struct {
	svc   *handler.Service
	entry *handler.Entry
	ctx   *fakeCtx
	rc    *as.RemoteContext
	clock int64
	nreq  int64
	outs  []any
	pend  []pending

	// what the last dump showed (used by the generator to aim, never by the executor)
	players []center.VerifPlayer
	tasks   []center.VerifTask
	next    int64
}

func newWorld() *world {
	initProcess()
	common.VerifSetNowMs(clock0)
	w := &world{clock: clock0, entry: &handler.Entry{}}
	w.svc = handler.NewService()
	w.svc.SetRunService(runservice.NewStandardRunService("verif-center"))
	w.svc.Name = "center-1"
	w.ctx = &fakeCtx{w: w, self: actor.NewPID("nonhost", "center-1")}
	w.svc.Service.Context = w.ctx
	w.rc = &as.RemoteContext{ActorContext: w.ctx}
	w.svc.Mgr.Start() // registers the 1 s timer (never delivered: VerifTick stands for it)
	return w
}

func (w *world) close() {
	w.svc.GetRunService().GetTimerMgr().Stop()
	common.VerifSetNowMs(0)
}

func (w *world) onSend(pid *actor.PID, message interface{}) {
	req, ok := message.(*servicemsgs.ServiceRequest)
	if !ok {
		panic(fmt.Sprintf("c18: centre sent a %T", message))
	}
	body, err := remote.Deserialize(req.Body, req.Type, as.DefaultSerializeId)
	if err != nil {
		panic(err)
	}
	switch req.Route {
	case "sys.kick":
		k := body.(*msgs.Kick)
		w.outs = append(w.outs, hx.C("Kick", frontTok(pid.Id), int64(k.SessionId)))
	case "logicremote.onoffline":
		m := body.(*mymsg.OnOffline)
		w.outs = append(w.outs, hx.C("Offline", m.UId, logicTok(pid.Id)))
		w.pend = append(w.pend, pending{req.ReqId, m.UId})
	default:
		panic("c18: centre sent an unexpected request " + req.Route)
	}
}

// expectAck returns a handler callback that must be invoked exactly once with a NormalAck
func expectAck(what string, n *int, code *int32) func(error, interface{}) {
	return func(err error, res interface{}) {
		*n++
		if err != nil {
			panic("c18: " + what + " answered with error " + err.Error())
		}
		if res == nil {
			*code = -1
			return
		}
		*code = res.(*mymsg.NormalAck).Code
	}
}

func (w *world) ret(what string, n int, code int32) {
	if n != 1 {
		panic(fmt.Sprintf("c18: %s answered %d times", what, n))
	}
	switch define.ErrorCode(code) {
	case define.Succ:
		w.outs = append(w.outs, hx.C("Ret", true))
	case define.ErrFaild:
		w.outs = append(w.outs, hx.C("Ret", false))
	default:
		panic(fmt.Sprintf("c18: %s answered code %d", what, code))
	}
}

func mustSucc(what string, n int, code int32, want int32) {
	if n != 1 || code != want {
		panic(fmt.Sprintf("c18: %s answered %d times, code %d", what, n, code))
	}
}

// do executes one op on the real centre and returns (events, dump)
func (w *world) do(o hx.T) (any, error) {
	w.outs = []any{}
	var n int
	var code int32
	switch o.Name {
	case "ReqLogin":
		uid, rid := o.Int(0), w.nreq
		w.nreq++
		w.entry.ReqLogin(w.rc, &mymsg.CenterReqLogin{UId: uid, ServerId: frontName(o.Int(1)), NetId: uint32(o.Int(2)), KickPrev: o.Bool(3)},
			func(err error, res interface{}) {
				if err != nil {
					panic("c18: login answered with error " + err.Error())
				}
				a := res.(*mymsg.CenterReqLoginAck)
				w.outs = append(w.outs, hx.C("Ack", rid, uid, codeName(a.Code), a.IsReconnect, logicTok(a.LogicId)))
			})
	case "SessionClosed":
		w.entry.OnSessionClose(w.rc, &mymsg.CenterOnSessionClose{UId: o.Int(0)}, expectAck("OnSessionClose", &n, &code))
		mustSucc("OnSessionClose", n, code, -1)
	case "OfflineAck":
		uid := o.Int(0)
		for i, p := range w.pend {
			if p.uid != uid {
				continue
			}
			w.pend = append(w.pend[:i:i], w.pend[i+1:]...)
			res := &servicemsgs.ServiceResponse{ReqId: p.reqId}
			if !o.Bool(1) {
				res.ErrCode, res.ErrInfo = as.CodeErrString, "c18: scripted failure"
			}
			w.ctx.msg = res
			w.svc.Receive(w.ctx)
			w.ctx.msg = nil
			break
		}
	case "LogicLogined":
		w.entry.OnLogicLogined(w.rc, &mymsg.OnLogicLogined{UId: o.Int(0), LogicId: logicName(o.Int(1))}, expectAck("OnLogicLogined", &n, &code))
		mustSucc("OnLogicLogined", n, code, int32(define.Succ))
	case "LogicReOnline":
		w.entry.OnLogicReonline(w.rc, &mymsg.OnLogicReOnline{UId: o.Int(0)}, expectAck("OnLogicReonline", &n, &code))
		mustSucc("OnLogicReonline", n, code, int32(define.Succ))
	case "ReqLogout":
		w.entry.ReqLogout(w.rc, &mymsg.ReqLogout{UId: o.Int(0)}, expectAck("ReqLogout", &n, &code))
		w.ret("ReqLogout", n, code)
	case "LogicLogout":
		w.entry.OnLogout(w.rc, &mymsg.OnLogout{UId: o.Int(0)}, expectAck("OnLogout", &n, &code))
		mustSucc("OnLogout", n, code, int32(define.Succ))
	case "AbnormalLogout":
		w.entry.OnAbnormalLogout(w.rc, &mymsg.OnLogout{UId: o.Int(0)}, expectAck("OnAbnormalLogout", &n, &code))
		mustSucc("OnAbnormalLogout", n, code, int32(define.Succ))
	case "ReqSwitchLine":
		w.entry.ReqSwitchLine(w.rc, &mymsg.ReqSwitchLine{UId: o.Int(0)}, expectAck("ReqSwitchLine", &n, &code))
		w.ret("ReqSwitchLine", n, code)
	case "SwitchLineEnd":
		w.entry.OnSwitchLineEnd(w.rc, &mymsg.OnSwitchLineEnd{UId: o.Int(0), Succ: o.Bool(1)}, expectAck("OnSwitchLineEnd", &n, &code))
		w.ret("OnSwitchLineEnd", n, code)
	case "Tick":
		w.svc.Mgr.VerifTick()
	case "Advance":
		w.clock += o.Int(0)
		if w.clock <= 0 {
			return nil, fmt.Errorf("c18: the virtual clock cannot represent the non-positive instant %d", w.clock)
		}
		common.VerifSetNowMs(w.clock)
	default:
		return nil, fmt.Errorf("c18: unknown op %s", o.Name)
	}
	return pair(w.outs, w.dump()), nil
}

func (w *world) dump() any {
	ps, ts, next := w.svc.Mgr.VerifDump()
	w.players, w.tasks, w.next = ps, ts, next
	pl := []any{}
	for _, p := range ps {
		if !p.KeyOK {
			panic("c18: a player record is stored under a key different from its UId")
		}
		if p.State < 0 || p.State >= len(stateNames) || p.Reason < 0 || p.Reason >= len(reasonNames) {
			panic("c18: state or lock reason outside define.go")
		}
		pl = append(pl, hx.C("PD", p.UId, stateNames[p.State], p.Deadline, frontTok(p.FrontId), int64(p.NetId), logicTok(p.LogicId),
			p.Locked, reasonNames[p.Reason], p.Until))
	}
	tl := []any{}
	for _, t := range ts {
		if !t.KeyOK {
			panic("c18: a kick-wait task is stored under a key different from its uid")
		}
		tl = append(tl, hx.C("TD", t.UId, frontTok(t.FrontId), int64(t.NetId), t.Start))
	}
	pq := []any{}
	for _, p := range w.pend {
		pq = append(pq, p.uid)
	}
	return hx.C("Dump", pl, tl, next, pq)
}

// Exec runs one op list against a fresh real centre.
func Exec(ops []hx.T) ([]any, bool, error) {
	w := newWorld()
	defer w.close()
	var obs []any
	var sum summary
	for _, o := range ops {
		prev := w.players
		b, err := w.do(o)
		if err != nil {
			return nil, false, err
		}
		obs = append(obs, b)
		sum.note(o, w.outs, prev, w.players)
	}
	return obs, sum.nontrivial(), nil
}

// summary: what the non-trivial rule looks at
type summary struct {
	fresh, refused, parked, removed, recon bool
}

func (s *summary) note(o hx.T, outs []any, prev, cur []center.VerifPlayer) {
	answered := false
	for _, e := range outs {
		t := e.(hx.T)
		switch t.Name {
		case "Ack":
			answered = true
			switch {
			case t.Str(2) != "CSucc":
				s.refused = true
			case t.Bool(3):
				s.recon = true
			default:
				s.fresh = true
			}
		case "Ret":
			if !t.Bool(0) {
				s.refused = true
			}
		}
	}
	if o.Name == "ReqLogin" && !answered {
		s.parked = true
	}
	if len(cur) < len(prev) {
		s.removed = true
	}
}

func (s *summary) nontrivial() bool {
	return s.fresh && (s.refused || s.parked || s.removed || s.recon)
}

// ---------------------------------------------------------------- generator
//
// Ops are generated WHILE executing them on the real centre, so that they can be aimed at the
// current player table (an account that is logged in, a lock that is held, a deadline that is
// 1 ms away).  The emitted op list is plain data and is what a replay executes.

type gen struct {
	w       *world
	rng     *rand.Rand
	conf    bool // keep to the protocol: net ids != 0, logic notifications only for live loads, clock forward
	uids    []int64
	nextNet int64
	live    map[int64]bool // harness copy of Spec.g_live (aiming only; Coq judges conformance itself)
	tags    map[string]bool
	ops     []hx.T
	obs     []any
	sum     summary
	negAdv  int
}

func (g *gen) player(uid int64) *center.VerifPlayer {
	for i := range g.w.players {
		if g.w.players[i].UId == uid {
			return &g.w.players[i]
		}
	}
	return nil
}

func expiring(p *center.VerifPlayer, now int64) bool {
	return p.Deadline > 0 && p.Deadline <= now && (p.State == stLogining || p.State == stLogouting)
}

func (g *gen) run(o hx.T) {
	prev := append([]center.VerifPlayer(nil), g.w.players...)
	prevTasks := len(g.w.tasks)
	b, err := g.w.do(o)
	if err != nil {
		panic(err)
	}
	g.ops = append(g.ops, o)
	g.obs = append(g.obs, b)
	g.sum.note(o, g.w.outs, prev, g.w.players)
	// ghost + tags
	switch o.Name {
	case "LogicLogout", "AbnormalLogout":
		g.live[o.Int(0)] = false
	case "Tick":
		for i := range prev {
			if expiring(&prev[i], g.w.clock) {
				g.live[prev[i].UId] = false
				g.tags["state-timeout"] = true
			}
		}
		if len(g.w.players) < len(prev) {
			g.tags["record-removed"] = true
		}
	}
	acks := 0
	for _, e := range g.w.outs {
		t := e.(hx.T)
		switch t.Name {
		case "Ack":
			acks++
			uid := t.Int(1)
			var before *center.VerifPlayer
			for i := range prev {
				if prev[i].UId == uid {
					before = &prev[i]
				}
			}
			switch {
			case t.Str(2) == "CSucc" && !t.Bool(3):
				g.live[uid] = true
				g.tags["fresh-load"] = true
			case t.Str(2) == "CSucc":
				g.tags["reconnect"] = true
				if before != nil && before.Locked {
					g.tags["expired-lock-retaken"] = true
				}
			case t.Str(2) == "CSystemBusy":
				g.tags["refused-busy"] = true
			default:
				g.tags["refused-online"] = true
			}
			if o.Name != "ReqLogin" {
				g.tags["parked-login-carried-out"] = true
			} else if t.Int(0) != g.w.nreq-1 {
				g.tags["parked-login-overwritten"] = true
			}
		case "Ret":
			if t.Bool(0) {
				g.tags["request-granted"] = true
				if p := g.playerIn(prev, o.Int(0)); p != nil && p.Locked {
					g.tags["expired-lock-retaken"] = true
				}
			} else {
				g.tags["request-refused"] = true
			}
		case "Kick":
			g.tags["kick"] = true
		case "Offline":
			g.tags["offline-sent"] = true
		}
	}
	if o.Name == "ReqLogin" && len(g.w.tasks) > 0 && (acks == 0 || g.tags["parked-login-overwritten"]) {
		g.tags["parked-login"] = true
	}
	if len(g.w.tasks) < prevTasks && acks == 0 {
		g.tags["parked-login-expired"] = true
	}
	if (o.Name == "SessionClosed" || o.Name == "LogicLogined") && acks > 0 {
		g.tags["offline-route-failed-sync"] = true
	}
}

func (g *gen) playerIn(ps []center.VerifPlayer, uid int64) *center.VerifPlayer {
	for i := range ps {
		if ps[i].UId == uid {
			return &ps[i]
		}
	}
	return nil
}

func (g *gen) uid() int64 { return hx.Pick(g.rng, g.uids) }

// pickUid prefers an account satisfying want
func (g *gen) pickUid(want func(uid int64, p *center.VerifPlayer) bool) (int64, bool) {
	var c []int64
	for _, u := range g.uids {
		if want(u, g.player(u)) {
			c = append(c, u)
		}
	}
	if len(c) == 0 {
		return 0, false
	}
	return hx.Pick(g.rng, c), true
}

func (g *gen) front() int64 {
	if g.rng.Intn(12) == 0 {
		return 3 // not in the cluster directory: kicks to it are not sent
	}
	return 1 + g.rng.Int63n(2)
}

func (g *gen) logic() int64 {
	switch g.rng.Intn(14) {
	case 0:
		return 3 // not in the directory: onoffline fails synchronously
	case 1:
		if !g.conf {
			return 0
		}
	}
	return 1 + g.rng.Int63n(2)
}

func (g *gen) net() int64 {
	if !g.conf && g.rng.Intn(8) == 0 {
		g.tags["net-zero"] = true
		return 0
	}
	g.nextNet++
	return g.nextNet
}

func (g *gen) login(uid int64) {
	g.run(hx.C("ReqLogin", uid, g.front(), g.net(), g.rng.Intn(3) > 0))
}

// liveOnly: in the conformant stream logic notifications are sent for live loads only
func (g *gen) notifyUid(prefer func(p *center.VerifPlayer) bool) (int64, bool) {
	if !g.conf && g.rng.Intn(3) == 0 {
		u := g.uid()
		if !g.live[u] {
			g.tags["notification-for-dead-load"] = true
		}
		return u, true
	}
	if g.rng.Intn(5) > 0 {
		if u, ok := g.pickUid(func(u int64, p *center.VerifPlayer) bool { return g.live[u] && p != nil && prefer(p) }); ok {
			return u, true
		}
	}
	return g.pickUid(func(u int64, p *center.VerifPlayer) bool { return g.live[u] })
}

func (g *gen) advance() {
	var instants []int64
	for _, p := range g.w.players {
		if p.Deadline > 0 {
			instants = append(instants, p.Deadline)
		}
		if p.Locked {
			instants = append(instants, p.Until)
		}
	}
	for _, t := range g.w.tasks {
		instants = append(instants, t.Start+30000)
	}
	if g.w.next > 0 {
		instants = append(instants, g.w.next)
	}
	var dt int64
	aimed := false
	if len(instants) > 0 && g.rng.Intn(100) < 65 {
		off := int64(g.rng.Intn(3) - 1)
		dt = hx.Pick(g.rng, instants) + off - g.w.clock
		if dt >= 0 {
			aimed = true
			g.tags[[]string{"boundary-one-below", "boundary-exactly-at", "boundary-one-above"}[off+1]] = true
		}
	}
	if !aimed {
		dt = hx.Pick(g.rng, []int64{0, 1, 500, 1000, 2999, 3000, 3001, 29999, 30000, 30001, 119999, 120000, 120001,
			179999, 180000, 180001, 299999, 300000, 300001, 1799999, 1800000, 1800001})
		if !g.conf && g.negAdv < 3 && g.rng.Intn(6) == 0 {
			dt = -hx.Pick(g.rng, []int64{1, 1000, 30000, 200000})
			g.negAdv++
			g.tags["clock-backwards"] = true
		}
	}
	g.run(hx.C("Advance", dt))
	if g.rng.Intn(2) == 0 {
		g.run(hx.C("Tick"))
	}
}

func (g *gen) stepRandom() {
	isState := func(s int) func(p *center.VerifPlayer) bool {
		return func(p *center.VerifPlayer) bool { return p.State == s }
	}
	switch c := g.rng.Intn(100); {
	case c < 22:
		g.login(g.uid())
		if g.rng.Intn(6) == 0 { // a second connection right behind the first: overwrite of a parked login
			g.login(g.ops[len(g.ops)-1].Int(0))
		}
	case c < 34:
		if u, ok := g.pickUid(func(u int64, p *center.VerifPlayer) bool { return p != nil && p.NetId != 0 }); ok && g.rng.Intn(6) > 0 {
			g.run(hx.C("SessionClosed", u))
		} else {
			g.run(hx.C("SessionClosed", g.uid()))
		}
	case c < 44:
		if len(g.w.pend) > 0 && g.rng.Intn(8) > 0 {
			g.run(hx.C("OfflineAck", g.w.pend[g.rng.Intn(len(g.w.pend))].uid, g.rng.Intn(4) > 0))
		} else {
			g.run(hx.C("OfflineAck", g.uid(), true))
		}
	case c < 56:
		if u, ok := g.notifyUid(isState(stLogining)); ok {
			g.run(hx.C("LogicLogined", u, g.logic()))
		}
	case c < 61:
		if u, ok := g.notifyUid(func(p *center.VerifPlayer) bool { return p.Locked && p.Reason == 3 }); ok {
			g.run(hx.C("LogicReOnline", u))
		}
	case c < 67:
		if u, ok := g.pickUid(func(u int64, p *center.VerifPlayer) bool { return p != nil && p.State == stLogined }); ok && g.rng.Intn(4) > 0 {
			g.run(hx.C("ReqLogout", u))
		} else {
			g.run(hx.C("ReqLogout", g.uid()))
		}
	case c < 73:
		if u, ok := g.notifyUid(isState(stLogouting)); ok {
			g.run(hx.C("LogicLogout", u))
		}
	case c < 75:
		if u, ok := g.notifyUid(isState(stLogined)); ok {
			g.run(hx.C("AbnormalLogout", u))
		}
	case c < 79:
		if u, ok := g.pickUid(func(u int64, p *center.VerifPlayer) bool { return p != nil && p.State == stLogined }); ok && g.rng.Intn(4) > 0 {
			g.run(hx.C("ReqSwitchLine", u))
		} else {
			g.run(hx.C("ReqSwitchLine", g.uid()))
		}
	case c < 83:
		if u, ok := g.pickUid(func(u int64, p *center.VerifPlayer) bool { return p != nil && p.State == stSwitch }); ok && g.rng.Intn(4) > 0 {
			g.run(hx.C("SwitchLineEnd", u, g.rng.Intn(2) == 0))
		} else {
			g.run(hx.C("SwitchLineEnd", g.uid(), true))
		}
	case c < 90:
		g.run(hx.C("Tick"))
	default:
		g.advance()
	}
}

func generate(cfg *hx.Config, conf bool, maxLen int) ([]hx.T, []any, bool, []string) {
	rng := cfg.Rng
	g := &gen{w: newWorld(), rng: rng, conf: conf, nextNet: 9, live: map[int64]bool{}, tags: map[string]bool{}}
	defer g.w.close()
	g.w.dump()
	switch rng.Intn(6) {
	case 0:
		g.uids = []int64{1}
	case 1, 2:
		g.uids = []int64{1, 2}
	default:
		g.uids = []int64{1, 2, 3}
	}
	if !conf && rng.Intn(3) == 0 {
		g.uids = append(g.uids, hx.Pick(rng, []int64{0, -5, 1 << 40}))
	}
	if conf {
		g.tags["stream-conformant"] = true
	} else {
		g.tags["stream-unconstrained"] = true
	}
	// scenario prefixes so that deep states are common: a logged-in character, possibly with a
	// parked second login
	if k := rng.Intn(4); k > 0 {
		u := g.uid()
		g.login(u)
		g.run(hx.C("LogicLogined", u, g.logic()))
		if k > 1 {
			g.run(hx.C("ReqLogin", u, g.front(), g.net(), true))
		}
		if k > 2 {
			g.run(hx.C("SessionClosed", u))
		}
	}
	n := 4 + rng.Intn(maxLen)
	for len(g.ops) < n {
		g.stepRandom()
	}
	var tl []string
	for t := range g.tags {
		tl = append(tl, t)
	}
	sort.Strings(tl)
	return g.ops, g.obs, g.sum.nontrivial(), tl
}

// exhaustive small scope: every sequence of length L over an alphabet of operations on account 1,
// after a prefix, followed by a probing login and a timer tick.  Each login symbol uses a new
// connection id.
func enumerate(alpha string, prefix string, L int, emit func([]hx.T)) {
	cur := make([]byte, 0, L)
	build := func() []hx.T {
		var ops []hx.T
		net := int64(9)
		for _, s := range []byte(prefix + string(cur) + "mT") {
			switch s {
			case 'L':
				net++
				ops = append(ops, hx.C("ReqLogin", int64(1), int64(1), net, true))
			case 'M', 'm':
				net++
				ops = append(ops, hx.C("ReqLogin", int64(1), int64(2), net, false))
			case 'C':
				ops = append(ops, hx.C("SessionClosed", int64(1)))
			case 'A':
				ops = append(ops, hx.C("OfflineAck", int64(1), true))
			case 'G':
				ops = append(ops, hx.C("LogicLogined", int64(1), int64(1)))
			case 'R':
				ops = append(ops, hx.C("LogicReOnline", int64(1)))
			case 'O':
				ops = append(ops, hx.C("ReqLogout", int64(1)))
			case 'X':
				ops = append(ops, hx.C("LogicLogout", int64(1)))
			case 'B':
				ops = append(ops, hx.C("AbnormalLogout", int64(1)))
			case 'S':
				ops = append(ops, hx.C("ReqSwitchLine", int64(1)))
			case 'E':
				ops = append(ops, hx.C("SwitchLineEnd", int64(1), true))
			case 'T':
				ops = append(ops, hx.C("Tick"))
			case 'D':
				ops = append(ops, hx.C("Advance", int64(120000)))
			case 'd':
				ops = append(ops, hx.C("Advance", int64(180000)))
			case 'e':
				ops = append(ops, hx.C("Advance", int64(30001)))
			default:
				panic("c18: unknown symbol")
			}
		}
		return ops
	}
	var rec func(d int)
	rec = func(d int) {
		if d == L {
			emit(build())
			return
		}
		for i := 0; i < len(alpha); i++ {
			cur = append(cur, alpha[i])
			rec(d + 1)
			cur = cur[:len(cur)-1]
		}
	}
	rec(0)
}

func Run(cfg *hx.Config) error {
	if cfg.In != "" {
		cs, err := hx.ReadCases(cfg.In)
		if err != nil {
			return err
		}
		for _, c := range cs {
			ops := hx.Terms(c.Ops)
			obs, nt, err := Exec(ops)
			if err != nil {
				return err
			}
			cfg.Emit(hx.Case{Kind: "replay", Ops: ops, Obs: obs, Nontrivial: nt, Tags: c.Tags})
		}
		return nil
	}
	type scope struct {
		alpha, prefix string
		depth         int
	}
	scopes := []scope{{"LCAGOXTDR", "", 3}, {"LCAGOXTDR", "LG", 2}, {"MSEBde", "LG", 2}}
	if cfg.Tier == "thorough" {
		scopes = []scope{{"LCAGOXTDR", "", 4}, {"LCAGOXTDR", "LG", 4}, {"MSEBdeCA", "LG", 4}, {"LMCAeT", "LGL", 5}}
	}
	// The random histories are long; they are interleaved with the (short) exhaustive ones so that
	// the evaluation shards of bin/check.py are of similar size.
	var random []hx.Case
	for i := 0; i < cfg.N; i++ {
		maxLen := 30
		if i%4 == 3 {
			maxLen = 90
		}
		conf := i%5 < 3
		ops, obs, nt, tags := generate(cfg, conf, maxLen)
		kind := "random-conformant"
		if !conf {
			kind = "random-unconstrained"
		}
		random = append(random, hx.Case{Kind: kind, Ops: ops, Obs: obs, Nontrivial: nt, Tags: tags})
	}
	var exhaustive []hx.Case
	for _, sc := range scopes {
		for L := 0; L <= sc.depth; L++ {
			var err error
			enumerate(sc.alpha, sc.prefix, L, func(ops []hx.T) {
				obs, nt, e := Exec(ops)
				if e != nil {
					err = e
					return
				}
				exhaustive = append(exhaustive, hx.Case{Kind: fmt.Sprintf("exhaustive-%s+%s^%d", sc.prefix, sc.alpha, L), Ops: ops, Obs: obs, Nontrivial: nt})
			})
			if err != nil {
				return err
			}
		}
	}
	every := 1
	if len(random) > 0 {
		every = len(exhaustive)/len(random) + 1
	}
	for i, c := range exhaustive {
		cfg.Emit(c)
		if i%every == every-1 && len(random) > 0 {
			cfg.Emit(random[0])
			random = random[1:]
		}
	}
	for _, c := range random {
		cfg.Emit(c)
	}
	return nil
}
