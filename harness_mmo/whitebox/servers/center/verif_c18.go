//go:build verif

// White-box accessors for the C18 verification harness.  This file lives in
// /verif/harness_mmo/whitebox and is copied into the overlay's center package on every run
// (bin/mmo_overlay.py); it is NOT part of /repo.  It only reads unexported state and calls the
// unexported timer body; it contains no logic of its own.
package center

import (
	"reflect"
	"sort"
)

type VerifPlayer struct {
	UId      int64
	State    int
	Deadline int64 // StateWithTimeout.timeout (0 = never)
	FrontId  string
	NetId    uint32
	LogicId  string
	Locked   bool // PlayerTransactionLock.lock
	Reason   int
	Until    int64 // PlayerTransactionLock.timeout
	KeyOK    bool  // stored under its own UId, lock initialised with it
}

type VerifTask struct {
	UId     int64
	FrontId string
	NetId   uint32
	Start   int64
	KeyOK   bool
}

// VerifTick is the body of the manager's 1 s timer (registered by Start()).
func (m *PlayerMgr) VerifTick() { m.update() }

// VerifDump returns the player table and the kick-wait table sorted by account id, and the
// kick-wait manager's next expiry-scan instant.
func (m *PlayerMgr) VerifDump() (players []VerifPlayer, tasks []VerifTask, nextCheck int64) {
	for k, p := range m.players {
		// common.StateWithTimeout keeps its deadline in an unexported field of another package
		dl := reflect.ValueOf(p.state).Elem().FieldByName("timeout").Int()
		players = append(players, VerifPlayer{
			UId: k, State: p.GetState(), Deadline: dl, FrontId: p.FrontId, NetId: p.NetId, LogicId: p.logicId,
			Locked: p.lock.lock, Reason: p.lock.reason, Until: p.lock.timeout,
			KeyOK: p.UId == k && p.lock.uid == k,
		})
	}
	sort.Slice(players, func(i, j int) bool { return players[i].UId < players[j].UId })
	for k, t := range m.kickWaitMgr.tasks {
		tasks = append(tasks, VerifTask{UId: k, FrontId: t.frontId, NetId: t.netId, Start: t.startTime, KeyOK: t.uid == k && t.cbFunc != nil})
	}
	sort.Slice(tasks, func(i, j int) bool { return tasks[i].UId < tasks[j].UId })
	return players, tasks, m.kickWaitMgr.nextCheckExpired
}
