//go:build verif

// White-box accessors for the C19 verification harness.  This file lives in
// /verif/harness_mmo/whitebox and is copied into the overlay's scenem package on every run
// (bin/mmo_overlay.py); it is NOT part of /repo.  It only reads unexported state and calls
// unexported methods; it contains no logic of its own.
package scenem

import (
	"sort"

	"github.com/dfklegend/cell2/node/service"
	"github.com/dfklegend/cell2/utils/runservice"
)

type VerifScene struct {
	SceneId   uint64
	CfgId     int32
	LineId    int32
	ServiceId string
}

type VerifLine struct {
	LineId  int32
	SceneId uint64
}

type VerifLines struct {
	CfgId int32
	Lines []VerifLine // in slice order (the code keeps it sorted; that is part of the property)
}

type VerifService struct {
	Name    string
	Num     int
	Working bool
	Last    int64
	Failed  int
}

// VerifNewMgr builds the real manager on a NodeService whose run service is never started:
// the 1 s timers registered by Start() and PublicScenes.Start() fire into a queue nobody
// reads, so the harness decides when onUpdate runs (VerifTick) and the public-scene spawner
// (which needs a cluster to send its request) stays quiet.
func VerifNewMgr() *SceneServiceMgr {
	ns := service.NewService()
	ns.SetRunService(runservice.NewStandardRunService("verif-scenem"))
	m := NewMgr(ns)
	m.Start()
	return m
}

func (m *SceneServiceMgr) VerifStop() { m.ns.GetRunService().GetTimerMgr().Stop() }

// VerifTick is the body of the manager's 1 s timer.
func (m *SceneServiceMgr) VerifTick() { m.onUpdate() }

// VerifLost reports a service as lost (what the 4th keep-alive strike does); for a service the
// manager has never seen only the world is told.
func (m *SceneServiceMgr) VerifLost(svc string) {
	if stat := m.services[svc]; stat != nil {
		m.onServiceLost(svc, stat)
	} else {
		m.world.OnServiceLost(svc)
	}
}

func (m *SceneServiceMgr) VerifDump() (scenes []VerifScene, lines []VerifLines, services []VerifService) {
	for k, o := range m.world.scenes {
		scenes = append(scenes, VerifScene{SceneId: k, CfgId: o.CfgId, LineId: o.LineId, ServiceId: o.ServiceId})
	}
	sort.Slice(scenes, func(i, j int) bool { return scenes[i].SceneId < scenes[j].SceneId })
	for cfg, ls := range m.world.sceneLines {
		vl := VerifLines{CfgId: cfg}
		for _, l := range ls.lines {
			vl.Lines = append(vl.Lines, VerifLine{LineId: l.lineId, SceneId: l.sceneId})
		}
		lines = append(lines, vl)
	}
	sort.Slice(lines, func(i, j int) bool { return lines[i].CfgId < lines[j].CfgId })
	for name, s := range m.services {
		services = append(services, VerifService{Name: name, Num: s.ActiveSceneNum, Working: s.Working,
			Last: s.LastActiveTime, Failed: s.ActiveFailedTimes})
	}
	return
}

// VerifSceneKeyMatches reports whether every scene is stored under its own id.
func (m *SceneServiceMgr) VerifSceneKeyMatches() bool {
	for k, o := range m.world.scenes {
		if o == nil || o.SceneId != k {
			return false
		}
	}
	return true
}

// VerifWeight evaluates the real GetBusyWeight.
func VerifWeight(n int, working bool) float32 {
	s := &SceneServiceStat{ActiveSceneNum: n, Working: working}
	return s.GetBusyWeight()
}

// VerifCPURateZero reports that no service has a CPU rate (nothing in mmo assigns it).
func (m *SceneServiceMgr) VerifCPURateZero() bool {
	for _, s := range m.services {
		if s.CPURate != 0 {
			return false
		}
	}
	return true
}
