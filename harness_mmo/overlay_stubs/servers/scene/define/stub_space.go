// STUB SUPPLEMENT (verification overlay, see /verif/bin/mmo_overlay.py).
// The real package mmo/servers/scene/define also contains scene.go, player.go ... which
// import blockgraph, fight, systems, messages (not buildable offline).  common.go and
// unit.go are copied verbatim next to this file; this file supplies only the two
// interfaces of scene.go that the space package needs.  The builder checks on every run
// that both declarations are textually identical to the current scene.go.
package define

import (
	"mmo/common/entity"
)

//verif:mirror servers/scene/define/scene.go type ISearcher
//verif:mirror servers/scene/define/scene.go type ISpace

// ISearcher 搜索器
type ISearcher interface {
	Validate(id entity.EntityID, dist float32) bool
	AddCandidate(id entity.EntityID, dist float32)
	MakeResults() []entity.EntityID
}

// ISpace
type ISpace interface {
	AddEntity(id entity.EntityID, pos Pos)
	RemoveEntity(id entity.EntityID)
	UpdateEntityPos(id entity.EntityID, pos Pos)

	SearchCircleTargets(pos Pos, radius float32, searcher ISearcher) []entity.EntityID
}
