// STUB PACKAGE (verification overlay, see /verif/bin/mmo_overlay.py).
// Stands for mmo/modules/fight/common, of which the copied files only need the NAME of
// the type ICharacter (result type of IBaseUnit.GetChar, never called by findplayers.go
// or the space package).  The real interface has ~60 methods over fight/attr, buf, skill.
package common

// ICharacter is opaque here.
type ICharacter interface{}
