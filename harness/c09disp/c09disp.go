// Package c09disp drives n REAL mailboxes (actorex/mailbox) registered with ONE real scheDisp
// (actorex/disp/schedisp.go) - what actors spawned from the same service props share.  A script
// holds the service goroutine inside one mailbox's handler while messages are posted to the
// others (more than the dispatcher's 9-slot channel holds), then releases it; at rest every
// mailbox must have handled exactly what was posted to it, in order, one handler at a time, on the
// service goroutine.  The goroutines run freely: the theorems (C09disp) hold for every schedule.
package c09disp

import (
	"bytes"
	"fmt"
	"runtime"
	"strconv"
	"sync"
	"sync/atomic"
	"time"

	"github.com/asynkron/protoactor-go/actor"
	"github.com/sirupsen/logrus"

	"github.com/dfklegend/cell2/actorex/disp"
	"github.com/dfklegend/cell2/actorex/mailbox"
	"github.com/dfklegend/cell2/utils/logger"

	"verifh/hx"
)

func goid() int64 {
	b := make([]byte, 64)
	b = b[:runtime.Stack(b, false)]
	b = bytes.TrimPrefix(b, []byte("goroutine "))
	if i := bytes.IndexByte(b, ' '); i > 0 {
		n, _ := strconv.ParseInt(string(b[:i]), 10, 64)
		return n
	}
	return -1
}

type hold struct {
	entered chan struct{}
	gate    chan struct{}
}

type world struct {
	mu      sync.Mutex
	logs    [][]int64
	inside  int32
	overlap bool
	offloop bool
	loop    int64
	handled int64
}

type invoker struct {
	w *world
	i int
}

func (v *invoker) InvokeSystemMessage(interface{}) {}
func (v *invoker) EscalateFailure(r interface{}, _ interface{}) {}
func (v *invoker) InvokeUserMessage(msg interface{}) {
	w := v.w
	if atomic.AddInt32(&w.inside, 1) > 1 {
		w.mu.Lock()
		w.overlap = true
		w.mu.Unlock()
	}
	g := goid()
	w.mu.Lock()
	if w.loop == 0 {
		w.loop = g
	} else if w.loop != g {
		w.offloop = true
	}
	switch m := msg.(type) {
	case *hold:
		w.logs[v.i] = append(w.logs[v.i], -1)
		w.mu.Unlock()
		close(m.entered)
		<-m.gate
	case int64:
		w.logs[v.i] = append(w.logs[v.i], m)
		w.mu.Unlock()
	default:
		w.mu.Unlock()
	}
	atomic.AddInt64(&w.handled, 1)
	atomic.AddInt32(&w.inside, -1)
}

var caseNo int

// Exec runs one case on the real code.
func Exec(o hx.T) any {
	n := int(o.Int(0))
	script := o.List(1)
	caseNo++
	d := disp.NewScheDisp(fmt.Sprintf("c09disp-%d", caseNo))
	d.Start()
	defer d.Stop()
	w := &world{logs: make([][]int64, n)}
	mbs := make([]actor.Mailbox, n)
	feeds := make([]chan interface{}, n)
	var posters sync.WaitGroup
	var returned int64
	for i := 0; i < n; i++ {
		mb := mailbox.Producer(20)()
		mb.RegisterHandlers(&invoker{w: w, i: i}, d)
		mb.Start()
		mbs[i] = mb
		feeds[i] = make(chan interface{}, len(script)+1)
		posters.Add(1)
		go func(i int) { // the poster of mailbox i: its posts in script order; a post may block in Schedule
			defer posters.Done()
			for m := range feeds[i] {
				mbs[i].PostUserMessage(m)
				atomic.AddInt64(&returned, 1)
			}
		}(i)
	}
	var posted int64
	var held []*hold
	stalled := false
	release := func() {
		for _, h := range held {
			close(h.gate)
		}
		held = nil
	}
	for _, s := range script {
		t := hx.AsTerm(s)
		switch t.Name {
		case "DHold":
			i := int(t.Int(0))
			if i < 0 || i >= n {
				continue
			}
			if len(held) > 0 { // one service goroutine: a second hold would never be entered
				release()
			}
			h := &hold{entered: make(chan struct{}), gate: make(chan struct{})}
			feeds[i] <- h
			posted++
			select {
			case <-h.entered:
				held = append(held, h)
			case <-time.After(3 * time.Second):
				stalled = true
				close(h.gate)
			}
		case "DPost":
			i := int(t.Int(0))
			if i < 0 || i >= n {
				continue
			}
			feeds[i] <- t.Int(1)
			posted++
		case "DRelease":
			release()
		}
		if len(held) > 0 {
			// let the posts reach their mailboxes / block in Schedule while the goroutine is held
			time.Sleep(200 * time.Microsecond)
		}
	}
	if len(held) > 0 {
		time.Sleep(20 * time.Millisecond)
	}
	release()
	for i := range feeds {
		close(feeds[i])
	}
	deadline := time.Now().Add(3 * time.Second)
	for atomic.LoadInt64(&w.handled) < posted || atomic.LoadInt64(&returned) < posted {
		if time.Now().After(deadline) {
			stalled = true
			break
		}
		time.Sleep(200 * time.Microsecond)
	}
	if !stalled {
		posters.Wait()
	}
	w.mu.Lock()
	defer w.mu.Unlock()
	logs := make([]any, n)
	for i := range w.logs {
		logs[i] = hx.Norm(w.logs[i])
	}
	return hx.C("mkDObs", logs, w.overlap, w.offloop, stalled)
}

func mk(n int, script []any) hx.T { return hx.C("mkD", int64(n), script) }

func emit(cfg *hx.Config, kind string, o hx.T, tags ...string) {
	obs := Exec(o)
	cfg.Emit(hx.Case{Kind: kind, Ops: o, Obs: obs, Nontrivial: len(o.List(1)) > 0, Tags: tags})
}

// fan: hold mailbox 0, k posts to each of mailboxes 1..m, release
func fan(n, m, k int, releaseEarly bool) hx.T {
	s := []any{hx.C("DHold", int64(0))}
	z := int64(1)
	for r := 0; r < k; r++ {
		for i := 1; i <= m && i < n; i++ {
			s = append(s, hx.C("DPost", int64(i), z))
			z++
		}
		if releaseEarly && r == 0 {
			s = append(s, "DRelease", hx.C("DHold", int64(0)))
		}
	}
	s = append(s, "DRelease")
	return mk(n, s)
}

func Run(cfg *hx.Config) error {
	logger.SetLogLevel(logrus.PanicLevel)
	if cfg.In != "" {
		cs, err := hx.ReadCases(cfg.In)
		if err != nil {
			return err
		}
		for _, c := range cs {
			emit(cfg, "replay", hx.AsTerm(c.Ops))
		}
		return nil
	}
	// the capacity boundary of the dispatcher's channel: 8, 9, 10, 11, 12, 20, 40 idle mailboxes get a
	// message while the service goroutine is held
	ms := []int{1, 8, 9, 10, 11, 12, 20, 40}
	for _, m := range ms {
		emit(cfg, "fan", fan(m+1, m, 1, false), "fan", fmt.Sprintf("fan-%d", m))
		emit(cfg, "fan", fan(m+1, m, 3, false), "fan", "fan-3-rounds")
		emit(cfg, "fan", fan(m+1, m, 2, true), "fan", "fan-release-rehold")
	}
	r := cfg.Rng
	nr := cfg.N
	if nr > 60 && cfg.Tier != "thorough" {
		nr = 60
	}
	for c := 0; c < nr; c++ {
		n := 1 + r.Intn(16)
		if r.Intn(4) == 0 {
			n = 10 + r.Intn(30)
		}
		var s []any
		z := int64(1)
		holding := false
		for k := 5 + r.Intn(60); k > 0; k-- {
			switch x := r.Intn(100); {
			case x < 8 && !holding:
				s = append(s, hx.C("DHold", int64(r.Intn(n))))
				holding = true
			case x < 14 && holding:
				s = append(s, "DRelease")
				holding = false
			default:
				s = append(s, hx.C("DPost", int64(r.Intn(n)), z))
				z++
			}
		}
		tags := []string{"random"}
		if n > 10 {
			tags = append(tags, "more-mailboxes-than-channel-slots")
		}
		emit(cfg, "random", mk(n, s), tags...)
	}
	return nil
}
