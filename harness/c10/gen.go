package c10

import (
	"sort"

	"verifh/hx"
)

func vint(z int64) hx.T   { return hx.C("VInt", z) }
func vnum(z int64) hx.T   { return hx.C("VNum", z) }
func vstr(t int64) hx.T   { return hx.C("VStr", t) }
func vbool(b bool) hx.T   { return hx.C("VBool", b) }
func vlist(l ...any) hx.T { return hx.C("VList", l) }

func fixedCases() [][]hx.T {
	c := hx.C
	return [][]hx.T{
		// the chat2 example: bind + routing key set on the front, forward, back-end sets and pushes
		{c("OConnect", 1), c("OForward", 1), c("OFrontSet", 1, 0, vstr(7)), c("OFrontSet", 1, 3, vstr(1)), c("OForward", 1),
			c("OBackNew", 1, 1), c("OBackGet", 1, 0), c("OBackQuery", 1), c("OBackDump", 1), c("OBackSet", 1, 4, vint(5)),
			c("OBackGet", 1, 4), c("OBackPush", 1), c("OFrontGet", 1, 4), c("OFrontDump", 1)},
		// later push wins per key, untouched keys persist; NewData is resent as a whole
		{c("OConnect", 1), c("OBackNew", 1, 1), c("OBackNew", 2, 1), c("OBackSet", 1, 4, vint(1)), c("OBackSet", 1, 5, vint(1)), c("OBackPush", 1),
			c("OBackSet", 2, 4, vint(2)), c("OBackPush", 2), c("OFrontDump", 1), c("OBackSet", 1, 6, vint(3)), c("OBackPush", 1), c("OFrontDump", 1)},
		// routing follows the pushed key; bound id follows a pushed _ID
		{c("OConnect", 1), c("OBackNew", 1, 1), c("OBackSet", 1, 3, vstr(2)), c("OForward", 1), c("OBackPush", 1), c("OForward", 1),
			c("OBackSet", 1, 0, vstr(8)), c("OBackSet", 1, 3, vstr(1)), c("OBackPush", 1), c("OForward", 1)},
		// dead session: push has no effect, query reports an error, the other session is untouched
		{c("OConnect", 1), c("OConnect", 2), c("OBackNew", 1, 1), c("OBackNew", 2, 2), c("OBackSet", 1, 4, vint(1)), c("OBackSet", 2, 4, vint(2)),
			c("OBackPush", 2), c("ORemove", 1), c("OBackPush", 1), c("OBackQuery", 1), c("OBackDump", 1), c("OFrontDump", 2), c("OFrontDump", 1),
			c("OBackNew", 3, 7), c("OBackSet", 3, 4, vint(9)), c("OBackPush", 3), c("OBackQuery", 3), c("OFrontDump", 2)},
		// a local, unpushed value shadows the queried one; query clears the dirty flag
		{c("OConnect", 1), c("OBackNew", 1, 1), c("OBackNew", 2, 1), c("OBackSet", 1, 4, vint(1)), c("OBackSet", 2, 4, vint(2)), c("OBackPush", 2),
			c("OBackQuery", 1), c("OBackGet", 1, 4), c("OBackDump", 1), c("OBackPush", 1), c("OFrontGet", 1, 4)},
		// pipelined on one back-session: set, push (not awaited), set, [acks], push - the second value must arrive
		{c("OConnect", 1), c("OBackNew", 1, 1), c("OBackScript", 1, []any{c("ASet", 4, vint(1)), "APush", c("ASet", 5, vint(2))}),
			c("OBackPush", 1), c("OFrontDump", 1), c("OBackDump", 1)},
		{c("OConnect", 1), c("OBackNew", 1, 1), c("OBackScript", 1, []any{c("ASet", 3, vstr(2)), "APush", c("ASet", 3, vstr(1)), "APush", c("ASet", 0, vstr(7))}),
			c("OForward", 1), c("OBackPush", 1), c("OForward", 1)},
		{c("OConnect", 1), c("OBackNew", 1, 1), c("OBackNew", 2, 1), c("OBackSet", 2, 5, vint(9)), c("OBackPush", 2),
			c("OBackScript", 1, []any{c("ASet", 4, vint(1)), "APush", "AQuery", c("ASet", 5, vint(2)), "APush", "AQuery", c("ASet", 6, vint(3))}),
			c("OBackDump", 1), c("OBackPush", 1), c("OFrontDump", 1), c("ORemove", 1), c("OBackScript", 1, []any{c("ASet", 6, vint(4)), "APush", "AQuery"}), c("OBackDump", 1)},
		// the closing window: login-like script kicks, binds, sets the routing key, pushes, queries
		{c("OConnect", 1), c("OConnect", 2), c("OBackNew", 1, 1), c("OBackNew", 2, 2), c("OFrontSet", 1, 4, vint(3)),
			c("OBackScript", 1, []any{"AKick", c("ASet", 0, vstr(7)), c("ASet", 3, vstr(2)), "APush", "AQuery", c("ASet", 5, vint(1)), "APush"}),
			c("OBackGet", 1, 0), c("OBackDump", 1), c("OFrontDump", 1), c("OFrontDump", 2), c("OBackScript", 1, []any{"AKick", c("ASet", 6, vint(1)), "APush", "AQuery"}),
			c("OBackScript", 2, []any{c("ASet", 0, vstr(6)), "APush", "AKick", "AQuery"}), c("OForward", 2)},
		// handlers that answer first and keep their session, interleaved on the same back-end
		{c("OConnect", 1), c("OConnect", 2), c("OFrontSet", 2, 0, vstr(6)), c("OForwardKeep", 1, 1), c("OForwardKeep", 2, 2), c("OBackGet", 1, 0), c("OBackGet", 2, 0),
			c("OBackSet", 1, 0, vstr(7)), c("OBackSet", 1, 4, vint(1)), c("OBackPush", 1), c("OForwardKeep", 2, 3), c("OForwardKeep", 1, 2), c("OBackQuery", 2), c("OBackDump", 1), c("OBackDump", 2), c("OBackDump", 3),
			c("OFrontDump", 1), c("OFrontDump", 2), c("ORemove", 1), c("OBackScript", 3, []any{c("ASet", 5, vint(2)), "APush", "AQuery"}), c("OFrontDump", 2)},
		// a write whose value equals the writer's stale view of the key, after somebody else wrote it:
		// unbind through a back-end-created session; queried view; id the request arrived with
		{c("OConnect", 1), c("OFrontSet", 1, 0, vstr(7)), c("OBackNew", 1, 1), c("OBackSet", 1, 0, vstr(9)), c("OBackSet", 1, 4, vint(1)), c("OBackPush", 1),
			c("OFrontDump", 1), c("OFrontSet", 1, 3, vstr(1)), c("OForward", 1)},
		{c("OConnect", 1), c("OFrontSet", 1, 4, vstr(5)), c("OBackNew", 1, 1), c("OBackNew", 2, 1), c("OBackQuery", 1), c("OBackSet", 2, 4, vstr(6)), c("OBackPush", 2),
			c("OBackSet", 1, 4, vstr(5)), c("OBackSet", 1, 5, vstr(6)), c("OBackPush", 1), c("OFrontDump", 1)},
		{c("OConnect", 1), c("OFrontSet", 1, 0, vstr(7)), c("OForwardKeep", 1, 1), c("OBackNew", 2, 1), c("OBackSet", 2, 0, vstr(8)), c("OBackPush", 2),
			c("OBackSet", 1, 0, vstr(7)), c("OBackPush", 1), c("OFrontGet", 1, 0), c("OForwardKeep", 1, 3)},
		// handlers reached by a forwarded NOTIFICATION keep their session and use it: set / push / query /
		// kick must reach the notifying connection exactly as from a request
		{c("OConnect", 1), c("OConnect", 2), c("OFrontSet", 2, 0, vstr(6)), c("OForwardKeepN", 1, 1), c("OForwardKeepN", 2, 2), c("OBackGet", 1, 0), c("OBackGet", 2, 0),
			c("OBackDump", 2), c("OBackSet", 1, 0, vstr(7)), c("OBackSet", 1, 4, vint(1)), c("OBackPush", 1), c("OBackQuery", 2), c("OBackDump", 2), c("OFrontDump", 1), c("OFrontDump", 2),
			c("OBackScript", 2, []any{c("ASet", 3, vstr(2)), "APush", "AQuery", c("ASet", 5, vint(2)), "APush"}), c("OForward", 2),
			c("OBackScript", 1, []any{"AKick", c("ASet", 0, vstr(5)), "APush", "AQuery"}), c("OBackDump", 1), c("OFrontDump", 1), c("OFrontDump", 2)},
		{c("OConnect", 1), c("OForwardKeepN", 1, 2), c("OBackQuery", 2), c("OBackGet", 2, 1), c("OBackGet", 2, 2), c("OForwardKeepN", 1, 2), c("OForwardKeepN", 3, 3), c("ORemove", 1),
			c("OForwardKeepN", 1, 4), c("OBackSet", 2, 4, vint(1)), c("OBackPush", 2), c("OBackQuery", 2)},
		// two front-ends whose connection ids coincide (1 / 101 and 2 / 102 are the same id on gate-1 / gate-2)
		{c("OConnect", 1), c("OConnect", 101), c("OFrontDump", 1), c("OFrontDump", 101), c("OFrontSet", 101, 3, vstr(1)), c("OForward", 1), c("OForward", 101),
			c("OForwardKeep", 101, 1), c("OForwardKeepN", 1, 2), c("OBackNew", 3, 101), c("OBackNew", 4, 1),
			c("OBackSet", 1, 4, vint(1)), c("OBackPush", 1), c("OBackSet", 2, 4, vint(2)), c("OBackPush", 2), c("OBackQuery", 3), c("OBackQuery", 4), c("OBackDump", 3), c("OBackDump", 4),
			c("OFrontDump", 1), c("OFrontDump", 101), c("OBackScript", 2, []any{"AKick", c("ASet", 5, vint(3)), "APush"}), c("OFrontDump", 1), c("OFrontDump", 101),
			c("OBackScript", 3, []any{c("ASet", 6, vint(4)), "APush", "AQuery"}), c("OBackDump", 3), c("OFrontDump", 101)},
		{c("OConnect", 101), c("OConnect", 102), c("OConnect", 2), c("OForwardKeepN", 102, 1), c("OForwardKeepN", 2, 2), c("OBackScript", 1, []any{c("ASet", 0, vstr(7)), "APush", "AQuery"}),
			c("OBackDump", 1), c("OFrontDump", 2), c("OFrontDump", 102), c("ORemove", 2), c("OBackPush", 2), c("OBackQuery", 2), c("OBackSet", 1, 4, vint(1)), c("OBackPush", 1), c("OFrontDump", 102),
			c("ORemove", 102), c("OFrontDump", 101)},
		// a push merges its own keys only: what was written on the front-end (or pushed by somebody else)
		// between two pushes stays, whoever pushes next and whatever keys
		{c("OConnect", 1), c("OBackNew", 1, 1), c("OBackSet", 1, 4, vint(1)), c("OBackPush", 1), c("OFrontSet", 1, 4, vint(2)), c("OBackNew", 2, 1), c("OBackSet", 2, 5, vint(3)), c("OBackPush", 2),
			c("OFrontDump", 1), c("OFrontSet", 1, 5, vint(4)), c("OForwardKeepN", 1, 3), c("OBackSet", 3, 6, vint(1)), c("OBackPush", 3), c("OFrontDump", 1), c("OBackQuery", 1), c("OBackDump", 1)},
		{c("OConnect", 1), c("OConnect", 2), c("OBackNew", 1, 1), c("OBackNew", 2, 2), c("OBackScript", 1, []any{c("ASet", 3, vstr(1)), c("ASet", 0, vstr(7)), "APush"}), c("OFrontSet", 1, 3, vstr(2)), c("OFrontSet", 1, 0, vstr(8)),
			c("OBackSet", 2, 4, vint(1)), c("OBackPush", 2), c("OForward", 1), c("OForwardKeep", 1, 3), c("OBackScript", 3, []any{c("ASet", 5, vint(1)), "APush", "AQuery"}), c("OForward", 1), c("OBackDump", 3)},
		// a close callback that panics: the connection is removed all the same - a query of it reports an
		// error, a push to it has no effect (also through sessions made later for its id), others are undisturbed
		{c("OConnect", 1), c("OConnect", 2), c("OFrontSet", 1, 4, vint(3)), c("OBackNew", 1, 1), c("OBackNew", 2, 2), c("OFrontHook", 1), c("ORemove", 1),
			c("OBackQuery", 1), c("OBackSet", 1, 5, vint(1)), c("OBackPush", 1), c("OBackQuery", 1), c("OBackDump", 1), c("OBackNew", 3, 1), c("OBackQuery", 3), c("OBackDump", 3),
			c("OBackQuery", 2), c("OFrontDump", 1), c("OFrontDump", 2), c("OFrontHook", 1)},
		{c("OConnect", 1), c("OConnect", 101), c("OFrontHook", 101), c("OForwardKeepN", 101, 1), c("OForwardKeep", 1, 2), c("OFrontHook", 1),
			c("OBackScript", 1, []any{c("ASet", 4, vint(1)), "APush", "AKick", c("ASet", 5, vint(2)), "APush", "AQuery"}), c("OBackQuery", 1), c("OBackDump", 1),
			c("OBackSet", 1, 6, vint(1)), c("OBackPush", 1), c("OBackQuery", 1), c("ORemove", 1), c("OBackQuery", 2), c("OBackScript", 2, []any{c("ASet", 4, vint(1)), "APush", "AQuery"}), c("OFrontDump", 101)},
		// value shapes
		{c("OConnect", 1), c("OFrontSet", 1, 4, vint(9007199254740991)), c("OFrontSet", 1, 5, vlist(vint(1), vstr(5), vlist(vbool(true), "VNull"))),
			c("OFrontSet", 1, 6, "VNull"), c("OFrontGet", 1, 4), c("OFrontGet", 1, 5), c("OFrontDump", 1), c("OBackNew", 1, 1), c("OBackQuery", 1),
			c("OBackGet", 1, 4), c("OBackGet", 1, 5), c("OBackGet", 1, 6), c("OBackGet", 1, 7), c("OBackSet", 1, 5, vnum(-3)), c("OBackPush", 1), c("OFrontDump", 1)},
	}
}

func gen(cfg *hx.Config, i int) ([]hx.T, []string) {
	r := cfg.Rng
	tags := map[string]bool{}
	nsid := int64(1 + r.Intn(3))
	nb := int64(1 + r.Intn(4))
	// a third of the cases use both front-ends: connections k and 100+k get the same connection id
	twoFronts := r.Intn(3) == 0
	pickSid := func() int64 {
		sid := 1 + r.Int63n(nsid)
		if twoFronts && r.Intn(2) == 0 {
			sid += 100
		}
		return sid
	}
	n := 4 + r.Intn(20)
	if i%8 == 7 {
		n = 30 + r.Intn(50)
	}
	val := func(depth int) any {
		switch p := r.Intn(20); {
		case p < 6:
			return vint(int64(r.Intn(7)) - 2)
		case p < 8:
			return vnum(int64(r.Intn(5)))
		case p < 12:
			return vstr(int64(4 + r.Intn(4)))
		case p < 14:
			return vbool(r.Intn(2) == 0)
		case p < 15:
			return "VNull"
		case p < 16:
			return vint(hx.Pick(r, []int64{9007199254740991, -9007199254740991, 4294967296, 2147483648}))
		default:
			if depth > 1 {
				return vint(1)
			}
			tags["list"] = true
			l := []any{}
			for j := r.Intn(3); j > 0; j-- {
				l = append(l, vint(int64(j)))
			}
			return hx.C("VList", l)
		}
	}
	// (key, value) respecting the guard on reserved keys: _ID only strings, _NetId/_ServerId never written
	// values already written to a key by anybody in this case: a third of the writes repeat one of
	// them (a write whose value equals somebody's stale view of the key must still count; "" for
	// _ID is the view of a back-end-created session, i.e. an unbind)
	seen := map[int64][]any{0: {vstr(9)}}
	kv0 := func() (int64, any) {
		switch p := r.Intn(10); {
		case p < 2:
			tags["bind"] = true
			return 0, vstr(int64(4 + r.Intn(4)))
		case p < 5:
			v := hx.Pick(r, []any{vstr(1), vstr(1), vstr(2), vstr(2), vstr(5), vstr(9), vint(1), "VNull"})
			tags["route-key"] = true
			return 3, v
		}
		return int64(4 + r.Intn(3)), val(0)
	}
	kv := func() (int64, any) {
		k, v := kv0()
		if len(seen[k]) > 0 && r.Intn(3) == 0 {
			v = hx.Pick(r, seen[k])
			tags["rewrite-seen-value"] = true
		}
		seen[k] = append(seen[k], v)
		return k, v
	}
	var ops []hx.T
	ops = append(ops, hx.C("OConnect", 1))
	if twoFronts {
		tags["two-fronts"] = true
		ops = append(ops, hx.C("OConnect", 101))
	}
	if r.Intn(4) == 0 {
		// the case's first session comes from a forwarded notification
		tags["forward-keep-notify"] = true
		ops = append(ops, hx.C("OForwardKeepN", ops[len(ops)-1].Int(0), 1+r.Int63n(nb)))
	}
	// most operations address connections that are (probably) connected and handles that (probably)
	// exist - the rest exercises the ignored / dead paths
	live := map[int64]bool{}
	made := map[int64]int64{} // handle -> connection it was made for
	pickIn := func(m map[int64]bool) (int64, bool) {
		var ks []int64
		for k, on := range m {
			if on {
				ks = append(ks, k)
			}
		}
		if len(ks) == 0 {
			return 0, false
		}
		sort.Slice(ks, func(i, j int) bool { return ks[i] < ks[j] })
		return ks[r.Intn(len(ks))], true
	}
	note := func(o hx.T) {
		switch o.Name {
		case "OConnect":
			live[o.Int(0)] = true
		case "ORemove":
			live[o.Int(0)] = false
		case "OBackNew":
			if _, ok := made[o.Int(0)]; !ok {
				made[o.Int(0)] = o.Int(1)
			}
		case "OForwardKeep", "OForwardKeepN":
			if _, ok := made[o.Int(1)]; !ok && live[o.Int(0)] {
				made[o.Int(1)] = o.Int(0)
			}
		case "OBackScript":
			for _, a := range o.List(1) {
				if s, ok := a.(string); ok && s == "AKick" {
					live[made[o.Int(0)]] = false
				}
			}
		}
	}
	for _, o := range ops {
		note(o)
	}
	for len(ops) < n {
		if len(ops) > 0 {
			note(ops[len(ops)-1])
		}
		sid := pickSid()
		if k, ok := pickIn(live); ok && r.Intn(5) != 0 {
			sid = k
		}
		b := 1 + r.Int63n(nb)
		useB := b // for operations that use a handle: mostly one that exists
		if len(made) > 0 && r.Intn(6) != 0 {
			hs := map[int64]bool{}
			for h := range made {
				hs[h] = true
			}
			useB, _ = pickIn(hs)
		}
		switch p := r.Intn(100); {
		case p < 8:
			ops = append(ops, hx.C("OConnect", sid))
		case p < 11:
			tags["remove"] = true
			ops = append(ops, hx.C("ORemove", sid))
		case p < 21:
			k, v := kv()
			ops = append(ops, hx.C("OFrontSet", sid, k, v))
		case p < 25:
			ops = append(ops, hx.C("OFrontGet", sid, int64(r.Intn(7))))
		case p < 29:
			ops = append(ops, hx.C("OFrontDump", sid))
		case p < 31:
			tags["panicking-close-hook"] = true
			ops = append(ops, hx.C("OFrontHook", sid))
		case p < 38:
			tags["forward"] = true
			ops = append(ops, hx.C("OForward", sid))
		case p < 43:
			// a handler that answers first (or was notified: nothing to answer) and keeps its session:
			// later ops use it as handle b
			if r.Intn(2) == 0 {
				tags["forward-keep"] = true
				ops = append(ops, hx.C("OForwardKeep", sid, b))
			} else {
				tags["forward-keep-notify"] = true
				ops = append(ops, hx.C("OForwardKeepN", sid, b))
			}
		case p < 50:
			s2 := sid
			if r.Intn(10) == 0 {
				s2 = 7 // never connected: ignored
				tags["back-for-unknown-conn"] = true
			}
			ops = append(ops, hx.C("OBackNew", b, s2))
		case p < 68:
			k, v := kv()
			ops = append(ops, hx.C("OBackSet", useB, k, v))
		case p < 73:
			ops = append(ops, hx.C("OBackGet", useB, int64(r.Intn(7))))
		case p < 79:
			ops = append(ops, hx.C("OBackDump", useB))
		case p < 89:
			tags["push"] = true
			ops = append(ops, hx.C("OBackPush", useB))
		case p < 96:
			tags["query"] = true
			ops = append(ops, hx.C("OBackQuery", useB))
		default:
			// pipelined script on one back-session: sets / pushes / queries without awaiting
			tags["script"] = true
			acts := []any{}
			for j := 1 + r.Intn(6); j > 0; j-- {
				switch q := r.Intn(10); {
				case q < 5:
					k, v := kv()
					acts = append(acts, hx.C("ASet", k, v))
				case q < 9:
					acts = append(acts, "APush")
				default:
					tags["script-query"] = true
					acts = append(acts, "AQuery")
				}
				if r.Intn(14) == 0 {
					// the closing window: the rest of the script is handled between Close and RemoveSession
					tags["script-kick"] = true
					acts = append(acts, "AKick")
				}
			}
			ops = append(ops, hx.C("OBackScript", useB, acts))
		}
	}
	var tl []string
	for t := range tags {
		tl = append(tl, t)
	}
	sort.Strings(tl)
	return ops, tl
}
