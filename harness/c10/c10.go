// Package c10 drives session data through the shared in-process node (harness/e2e):
// front-local handlers set / read the FrontSession, real BackSession objects living in the
// back-end services set / push / query, forwarded requests report the envelope and the
// receiving instance.  Operations are sequential (each one is acknowledged before the next).
package c10

import (
	"encoding/json"
	"fmt"
	"strconv"
	"strings"

	"verifh/e2e"
	"verifh/hx"
)

// ---- tokens

func keyName(k int64) string {
	switch k {
	case 0:
		return "_ID"
	case 1:
		return "_NetId"
	case 2:
		return "_ServerId"
	case 3:
		return e2e.RouteKey
	}
	return "k" + strconv.FormatInt(k, 10)
}

func keyTok(s string) int64 {
	switch s {
	case "_ID":
		return 0
	case "_NetId":
		return 1
	case "_ServerId":
		return 2
	case e2e.RouteKey:
		return 3
	}
	if strings.HasPrefix(s, "k") {
		if v, err := strconv.ParseInt(s[1:], 10, 64); err == nil {
			return v
		}
	}
	return -1
}

func strName(t int64) string {
	switch t {
	case 0:
		return "gate-1"
	case 1:
		return "chat-1"
	case 2:
		return "chat-2"
	case 9:
		return ""
	case 10:
		return "gate-2"
	}
	return "s" + strconv.FormatInt(t, 10)
}

func strTok(s string) int64 {
	switch s {
	case "gate-1":
		return 0
	case "chat-1":
		return 1
	case "chat-2":
		return 2
	case "":
		return 9
	case "gate-2":
		return 10
	}
	if strings.HasPrefix(s, "s") {
		if v, err := strconv.ParseInt(s[1:], 10, 64); err == nil {
			return v
		}
	}
	return -1
}

// Coq term -> e2e.Val
func valOf(a any) *e2e.Val {
	t := hx.AsTerm(a)
	switch t.Name {
	case "VInt":
		return &e2e.Val{Kind: "int", I: t.Int(0)}
	case "VNum":
		return &e2e.Val{Kind: "num", I: t.Int(0)}
	case "VStr":
		return &e2e.Val{Kind: "str", S: strName(t.Int(0))}
	case "VBool":
		return &e2e.Val{Kind: "bool", B: t.Bool(0)}
	case "VNull":
		return &e2e.Val{Kind: "null"}
	case "VList":
		l := t.List(0)
		v := &e2e.Val{Kind: "list", L: make([]*e2e.Val, len(l))}
		for i, e := range l {
			v.L[i] = valOf(e)
		}
		return v
	}
	panic("c10: bad value term " + t.Name)
}

// e2e.Val -> Coq term
func valTerm(v *e2e.Val) any {
	switch v.Kind {
	case "int":
		return hx.C("VInt", v.I)
	case "num":
		return hx.C("VNum", v.I)
	case "str":
		return hx.C("VStr", strTok(v.S))
	case "bool":
		return hx.C("VBool", v.B)
	case "null":
		return "VNull"
	case "list":
		l := []any{}
		for _, e := range v.L {
			l = append(l, valTerm(e))
		}
		return hx.C("VList", l)
	}
	return "VOther"
}

// frontOf: connections with a token >= 100 are connected to the second front-end (Corr.v cfront)
func frontOf(sid int64) int {
	if sid >= 100 {
		return 1
	}
	return 0
}

type fnet struct {
	front int
	id    uint32
}

type world struct {
	n     *e2e.Node
	conns map[int64]*e2e.Client
	dead  map[int64]bool
	netOf map[int64]uint32
	tokOf map[fnet]int64 // (front-end, connection id) -> token: the ids of the two front-ends coincide
	mid   uint64
}

// the connection id the server allocated is reported as the connection's token; which
// connection an id means depends on the front-end the map says it belongs to
func (w *world) fixNet(front int, k string, v *e2e.Val) *e2e.Val {
	if k == "_NetId" && (v.Kind == "int" || v.Kind == "num") {
		if t, ok := w.tokOf[fnet{front, uint32(v.I)}]; ok {
			return &e2e.Val{Kind: v.Kind, I: t}
		}
		return &e2e.Val{Kind: v.Kind, I: -1}
	}
	return v
}

// frontOfDump: the front-end a dumped map names (_ServerId); def when it names none
func frontOfDump(kvs []e2e.KV, def int) int {
	for _, kv := range kvs {
		if kv.K == "_ServerId" && kv.V.Kind == "str" {
			if fi := e2e.FrontOf(kv.V.S); fi >= 0 {
				return fi
			}
		}
	}
	return def
}

func (w *world) mapTerm(def int, dump string) (any, error) {
	kvs, err := e2e.ParseDump(dump)
	if err != nil {
		return nil, err
	}
	type ent struct {
		k int64
		v any
	}
	var es []ent
	front := frontOfDump(kvs, def)
	for _, kv := range kvs {
		es = append(es, ent{keyTok(kv.K), valTerm(w.fixNet(front, kv.K, kv.V))})
	}
	// ascending key token
	for i := 1; i < len(es); i++ {
		for j := i; j > 0 && es[j].k < es[j-1].k; j-- {
			es[j], es[j-1] = es[j-1], es[j]
		}
	}
	l := []any{}
	for _, e := range es {
		l = append(l, hx.Pair{A: e.k, B: e.v})
	}
	return hx.C("BMap", l), nil
}

func optTerm(has bool, v any) any {
	if has {
		return hx.C("BVal", hx.C("Some", v))
	}
	return hx.C("BVal", "None")
}

func (w *world) call(c *e2e.Client, route string, arg map[string]any) (*e2e.Event, error) {
	w.mid++
	pl, _ := json.Marshal(arg)
	if err := c.Request(w.mid, route, pl); err != nil {
		return nil, err
	}
	ev := c.WaitResponse(w.mid, e2e.WaitTimeout)
	if ev == nil {
		return nil, fmt.Errorf("c10: %s unanswered", route)
	}
	return ev, nil
}

func (w *world) live(sid int64) *e2e.Client {
	if w.dead[sid] {
		return nil
	}
	return w.conns[sid]
}

func (w *world) step(o hx.T) (any, error) {
	n := w.n
	switch o.Name {
	case "OConnect":
		sid := o.Int(0)
		if w.conns[sid] != nil {
			return "BIgnored", nil
		}
		if sid >= 100 {
			// the second front-end's connection 100+k gets the id of the first one's connection k
			// (when there is one, and the id is free): equal ids on different front-ends
			id, ok := w.netOf[sid-100]
			for s2, c2 := range w.conns {
				if s2 >= 100 && !w.dead[s2] && c2.NetId == id {
					ok = false
				}
			}
			if !ok {
				// otherwise an id no connection of this case has
				id = 0
				for _, x := range w.netOf {
					if x > id {
						id = x
					}
				}
				id++
			}
			if err := n.SetNextSessionIdOn(1, id); err != nil {
				return nil, err
			}
		}
		cl, err := n.DialFront(frontOf(sid))
		if err != nil {
			return nil, err
		}
		if err := n.Sentinel(cl); err != nil {
			return nil, err
		}
		w.conns[sid], w.netOf[sid], w.tokOf[fnet{frontOf(sid), cl.NetId}] = cl, cl.NetId, sid
		return "BUnit", nil
	case "ORemove":
		c := w.live(o.Int(0))
		if c == nil {
			return "BIgnored", nil
		}
		if err := n.CloseAndAwait(c); err != nil {
			return nil, err
		}
		w.dead[o.Int(0)] = true
		view, ok := w.closeView(c.Front, c.NetId)
		if !ok {
			return nil, fmt.Errorf("c10: no (or inconsistent) OnClose view for connection %d", c.NetId)
		}
		m, err := w.mapTerm(c.Front, view)
		if err != nil {
			return nil, err
		}
		return hx.C("BClosed", hx.AsTerm(m).Args[0]), nil
	case "OFrontSet":
		c := w.live(o.Int(0))
		if c == nil {
			return "BIgnored", nil
		}
		ev, err := w.call(c, "gate.h.fset", map[string]any{"K": keyName(o.Int(1)), "V": valOf(o.Args[2])})
		if err != nil || ev.Err {
			return nil, fmt.Errorf("c10: fset failed: %v", err)
		}
		return "BUnit", nil
	case "OFrontHook":
		c := w.live(o.Int(0))
		if c == nil {
			return "BIgnored", nil
		}
		ev, err := w.call(c, "gate.h.fhook", map[string]any{})
		if err != nil || ev.Err {
			return nil, fmt.Errorf("c10: fhook failed: %v", err)
		}
		return "BUnit", nil
	case "OFrontGet":
		c := w.live(o.Int(0))
		if c == nil {
			return "BIgnored", nil
		}
		k := keyName(o.Int(1))
		ev, err := w.call(c, "gate.h.fget", map[string]any{"K": k})
		if err != nil || ev.Err {
			return nil, fmt.Errorf("c10: fget failed: %v", err)
		}
		var r e2e.SessReply
		if err := json.Unmarshal(ev.Data, &r); err != nil {
			return nil, err
		}
		if !r.Has {
			return optTerm(false, nil), nil
		}
		return optTerm(true, valTerm(w.fixNet(c.Front, k, r.V))), nil
	case "OFrontDump":
		c := w.live(o.Int(0))
		if c == nil {
			return "BIgnored", nil
		}
		ev, err := w.call(c, "gate.h.fdump", map[string]any{})
		if err != nil || ev.Err {
			return nil, fmt.Errorf("c10: fdump failed: %v", err)
		}
		var r e2e.SessReply
		if err := json.Unmarshal(ev.Data, &r); err != nil {
			return nil, err
		}
		return w.mapTerm(c.Front, r.Dump)
	case "OForward":
		sid := o.Int(0)
		c := w.live(sid)
		if c == nil {
			return "BIgnored", nil
		}
		ev, err := w.call(c, "chat.h.open", map[string]any{"T": 1})
		if err != nil {
			return nil, err
		}
		if ev.Err {
			return "BFwdNone", nil
		}
		var r e2e.Reply
		if err := json.Unmarshal(ev.Data, &r); err != nil {
			return nil, err
		}
		net := int64(-1)
		if t, ok := w.tokOf[fnet{e2e.FrontOf(r.Front), r.NetId}]; ok {
			net = t
		}
		return hx.C("BFwd", e2e.InstOf(r.Svc), hx.C("VStr", strTok(r.Uid)), hx.C("VStr", strTok(r.Front)), net), nil
	case "OForwardKeep":
		sid := o.Int(0)
		c := w.live(sid)
		if c == nil {
			return "BIgnored", nil
		}
		ev, err := w.call(c, "room.h.keep", map[string]any{"T": 1, "H": o.Int(1)})
		if err != nil {
			return nil, err
		}
		if ev.Err {
			return "BFwdNone", nil
		}
		var r e2e.Reply
		if err := json.Unmarshal(ev.Data, &r); err != nil {
			return nil, err
		}
		net := int64(-1)
		if t, ok := w.tokOf[fnet{e2e.FrontOf(r.Front), r.NetId}]; ok {
			net = t
		}
		// the handler stores the session after answering: let it finish that turn
		if err := n.Settle(); err != nil {
			return nil, err
		}
		return hx.C("BFwd", e2e.InstOf(r.Svc), hx.C("VStr", strTok(r.Uid)), hx.C("VStr", strTok(r.Front)), net), nil
	case "OForwardKeepN":
		sid := o.Int(0)
		c := w.live(sid)
		if c == nil {
			return "BIgnored", nil
		}
		pl, _ := json.Marshal(map[string]any{"T": 1, "H": o.Int(1)})
		if err := c.Notify("room.h.keep", pl); err != nil {
			return nil, err
		}
		// nothing is answered: the notification has been handled when the system is quiet
		if err := n.Drain([]*e2e.Client{c}); err != nil {
			return nil, err
		}
		if !n.HasBack(o.Int(1)) {
			return nil, fmt.Errorf("c10: the notified handler did not run")
		}
		return "BUnit", nil
	case "OBackNew":
		b, sid := o.Int(0), o.Int(1)
		if n.HasBack(b) {
			return "BIgnored", nil
		}
		net, ok := w.netOf[sid]
		if !ok {
			return "BIgnored", nil // the connection never existed: there is no id to create it for
		}
		inst := 1 + ((b%3)+3)%3
		if err := n.BackNewOn(b, inst, frontOf(sid), net); err != nil {
			return nil, err
		}
		return "BUnit", nil
	case "OBackSet":
		if !n.HasBack(o.Int(0)) {
			return "BIgnored", nil
		}
		return "BUnit", n.BackSet(o.Int(0), keyName(o.Int(1)), valOf(o.Args[2]))
	case "OBackGet":
		if !n.HasBack(o.Int(0)) {
			return "BIgnored", nil
		}
		k := keyName(o.Int(1))
		has, v, err := n.BackGet(o.Int(0), k)
		if err != nil {
			return nil, err
		}
		if !has {
			return optTerm(false, nil), nil
		}
		return optTerm(true, valTerm(w.fixNet(w.backFront(o.Int(0)), k, v))), nil
	case "OBackDump":
		if !n.HasBack(o.Int(0)) {
			return "BIgnored", nil
		}
		d, err := n.BackDump(o.Int(0))
		if err != nil {
			return nil, err
		}
		return w.mapTerm(w.backFront(o.Int(0)), d)
	case "OBackScript":
		if !n.HasBack(o.Int(0)) {
			return "BIgnored", nil
		}
		var steps []e2e.ScriptStep
		kicks := false
		for _, a := range o.List(1) {
			t := hx.AsTerm(a)
			switch t.Name {
			case "ASet":
				steps = append(steps, e2e.ScriptStep{Kind: "set", K: keyName(t.Int(0)), V: valOf(t.Args[1])})
			case "APush":
				steps = append(steps, e2e.ScriptStep{Kind: "push"})
			case "AQuery":
				steps = append(steps, e2e.ScriptStep{Kind: "query"})
			case "AKick":
				steps = append(steps, e2e.ScriptStep{Kind: "kick"})
				kicks = true
			default:
				return nil, fmt.Errorf("c10: bad act %s", t.Name)
			}
		}
		net := n.BackNetId(o.Int(0))
		fi := w.backFront(o.Int(0))
		wasLive := false
		if kicks {
			var e error
			if wasLive, e = n.HasSessionOn(fi, net); e != nil {
				return nil, e
			}
		}
		acks, err := n.BackScript(o.Int(0), steps)
		if err != nil {
			return nil, err
		}
		l := []any{}
		for _, a := range acks {
			l = append(l, a)
		}
		if kicks && wasLive {
			// the connection was kicked: it is removed after the script's messages
			if err := n.AwaitRemoval(fi, net); err != nil {
				return nil, err
			}
			if t, ok := w.tokOf[fnet{fi, net}]; ok {
				w.dead[t] = true
			}
			view, ok := w.closeView(fi, net)
			if !ok {
				return nil, fmt.Errorf("c10: no (or inconsistent) OnClose view for connection %d", net)
			}
			m, err := w.mapTerm(fi, view)
			if err != nil {
				return nil, err
			}
			return hx.C("BAcksClosed", l, hx.AsTerm(m).Args[0]), nil
		}
		return hx.C("BAcks", l), nil
	case "OBackPush", "OBackQuery":
		if !n.HasBack(o.Int(0)) {
			return "BIgnored", nil
		}
		var cbErr, err error
		if o.Name == "OBackPush" {
			cbErr, err = n.BackPush(o.Int(0))
		} else {
			cbErr, err = n.BackQuery(o.Int(0))
		}
		if err != nil {
			return nil, err
		}
		if cbErr != nil {
			return "BErr", nil
		}
		return "BOk", nil
	}
	return nil, fmt.Errorf("c10: unknown op %s", o.Name)
}

// backFront: the front-end a handle's session names (front 0 when it names none - whatever the
// session then does goes nowhere, which the observations show)
func (w *world) backFront(h int64) int {
	if fi := e2e.FrontOf(w.n.BackFront(h)); fi >= 0 {
		return fi
	}
	return 0
}

// closeView: what the close handlers saw (the panicking callback's own view when there is one)
func (w *world) closeView(fi int, id uint32) (string, bool) {
	if w.n.Hooked(fi, id) {
		return w.n.HookedCloseView(fi, id)
	}
	return w.n.CloseViewOn(fi, id)
}

type broken struct{ err error }

func (b *broken) Error() string { return b.err.Error() }

// Exec runs one case.
func Exec(n *e2e.Node, ops []hx.T) (obs []any, nontrivial bool, err error) {
	w := &world{n: n, conns: map[int64]*e2e.Client{}, dead: map[int64]bool{}, netOf: map[int64]uint32{}, tokOf: map[fnet]int64{}, mid: 100}
	defer func() {
		// the front-ends must have removed every session of this case before the next one starts: the
		// second front-end's connection ids are positioned explicitly and may be used again at once
		for sid, c := range w.conns {
			if !w.dead[sid] {
				c.Close()
			}
		}
		for sid, c := range w.conns {
			if !w.dead[sid] {
				if e := n.CloseAndAwait(c); e != nil && err == nil {
					err = e
				}
			}
		}
		n.ClearBacks()
		if e := n.Settle(); err == nil {
			err = e
		}
	}()
	obs = []any{}
	for _, o := range ops {
		b, e := w.step(o)
		if e != nil {
			// the implementation did not answer: an observation no model produces; the rest
			// of the case is not executed (the error text goes to the case note)
			obs = append(obs, "BBroken")
			return obs, nontrivial, &broken{e}
		}
		switch t := b.(type) {
		case hx.T:
			if t.Name == "BMap" || t.Name == "BFwd" || t.Name == "BClosed" || t.Name == "BAcksClosed" || (t.Name == "BVal" && hx.AsTerm(t.Args[0]).Name == "Some") {
				nontrivial = true
			}
		}
		obs = append(obs, b)
	}
	return obs, nontrivial, nil
}

func Run(cfg *hx.Config) error {
	n, err := e2e.Boot(cfg.Scratch)
	if err != nil {
		return err
	}
	nbroken := 0
	emit := func(kind string, ops []hx.T, tags []string) error {
		obs, nt, err := Exec(n, ops)
		note := ""
		if b, ok := err.(*broken); ok {
			nbroken++
			note = b.Error()
		} else if err != nil {
			return fmt.Errorf("case %d (%s): %v", cfg.Emitted(), kind, err)
		}
		cfg.Emit(hx.Case{Kind: kind, Ops: ops, Obs: obs, Nontrivial: nt, Tags: tags, Note: note})
		return nil
	}
	if cfg.In != "" {
		cs, err := hx.ReadCases(cfg.In)
		if err != nil {
			return err
		}
		for _, c := range cs {
			if err := emit("replay", hx.Terms(c.Ops), c.Tags); err != nil {
				return err
			}
		}
		return nil
	}
	for _, ops := range fixedCases() {
		if nbroken >= 4 {
			break
		}
		if err := emit("fixed", ops, nil); err != nil {
			return err
		}
	}
	for i := 0; i < cfg.N && nbroken < 4; i++ {
		// (a case in which the implementation stopped answering costs a time-out; after a few
		// of them the run ends early - what was emitted is reported and shrunk as usual)
		ops, tags := gen(cfg, i)
		if err := emit("random", ops, tags); err != nil {
			return err
		}
	}
	return nil
}
