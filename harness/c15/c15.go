// Package c15 drives the real sche.Sche (utils/sche), runservice.RunService and
// waterfall.Sche (utils/waterfall).
//
// Scripts (OPost/OPostN/OStep/OStop/OChain/OFire) run on one real Sche whose consumer is a
// harness goroutine that performs exactly one receive from GetChanTask() + DoTask per OStep,
// so the execution is a function of the op list.  A Post that meets a full queue really
// blocks in the real channel send; the harness waits until the poster goroutine is parked in
// "chan send" (runtime.Stack) before it goes on.  OConc / OConcW blocks use the real
// consumer loops (Sche.Handler, RunService) with truly concurrent posters; of those only the
// per-poster / per-chain projections are compared.
package c15

import (
	"fmt"
	"io"
	"log"
	"reflect"
	"runtime"
	"strconv"
	"strings"
	"sync"
	"sync/atomic"
	"time"

	"github.com/sirupsen/logrus"

	"github.com/dfklegend/cell2/utils/common"
	"github.com/dfklegend/cell2/utils/logger"
	"github.com/dfklegend/cell2/utils/runservice"
	"github.com/dfklegend/cell2/utils/sche"
	"github.com/dfklegend/cell2/utils/waterfall"

	"verifh/hx"
)

const (
	capQ     = sche.QueueSize // 999; the model's [cap]
	nPosters = 16
	waitMax  = 20 * time.Second
)

var silenceOnce sync.Once

func silence() {
	silenceOnce.Do(func() {
		// the exception log stays ENABLED (doTask's recover handler formats the panic value and
		// the stack into it - that code must run) but writes nothing
		logger.GetLogProxy("exception").SetFormatter(nullFormatter{}).SetLogLevel(logrus.ErrorLevel)
		logger.GetLogProxy("default").SetLogLevel(logrus.PanicLevel)
		log.SetOutput(io.Discard)
	})
}

type nullFormatter struct{}

func (nullFormatter) Format(*logrus.Entry) ([]byte, error) { return nil, nil }

// ---- goroutine identity (petermattis/goid is constant on this toolchain) ----

func curGoid() int64 {
	var buf [64]byte
	n := runtime.Stack(buf[:], false)
	// "goroutine 123 [running]:"
	s := string(buf[:n])
	s = strings.TrimPrefix(s, "goroutine ")
	if i := strings.IndexByte(s, ' '); i > 0 {
		id, _ := strconv.ParseInt(s[:i], 10, 64)
		return id
	}
	return -1
}

// goroutineStates returns id -> wait state ("chan send", "running", ...) of all goroutines.
func goroutineStates() map[int64]string {
	buf := make([]byte, 1<<16)
	for {
		n := runtime.Stack(buf, true)
		if n < len(buf) {
			buf = buf[:n]
			break
		}
		buf = make([]byte, 2*len(buf))
	}
	out := map[int64]string{}
	for _, blk := range strings.Split(string(buf), "\n\n") {
		if !strings.HasPrefix(blk, "goroutine ") {
			continue
		}
		rest := blk[len("goroutine "):]
		sp := strings.IndexByte(rest, ' ')
		if sp < 0 {
			continue
		}
		id, err := strconv.ParseInt(rest[:sp], 10, 64)
		if err != nil {
			continue
		}
		lb := strings.IndexByte(rest, '[')
		rb := strings.IndexByte(rest, ']')
		if lb < 0 || rb < lb {
			continue
		}
		out[id] = rest[lb+1 : rb]
	}
	return out
}

// ---- event log ----

type evlog struct {
	mu       sync.Mutex
	evs      []any
	gorBad   bool
	consumer int64 // goroutine id of the consumer; 0 = learn it from the first event
	foreign  map[int64]bool
	activity int64
}

func (l *evlog) add(e hx.T) {
	g := curGoid()
	l.mu.Lock()
	if l.consumer == 0 {
		l.consumer = g
	}
	if g != l.consumer || l.foreign[g] {
		l.gorBad = true
	}
	l.evs = append(l.evs, e)
	l.mu.Unlock()
	atomic.AddInt64(&l.activity, 1)
}

// addOn records an event that must run on goroutine `want`.
func (l *evlog) addOn(e hx.T, want int64) {
	g := curGoid()
	l.mu.Lock()
	if g != want {
		l.gorBad = true
	}
	l.evs = append(l.evs, e)
	l.mu.Unlock()
	atomic.AddInt64(&l.activity, 1)
}

func (l *evlog) addRaw(e hx.T) {
	l.mu.Lock()
	l.evs = append(l.evs, e)
	l.mu.Unlock()
}

func (l *evlog) since(n int) ([]any, int) {
	l.mu.Lock()
	defer l.mu.Unlock()
	out := append([]any{}, l.evs[n:]...)
	return out, len(l.evs)
}

func (l *evlog) count() int {
	l.mu.Lock()
	defer l.mu.Unlock()
	return len(l.evs)
}

// ---- behaviours ----

type cbSpec struct {
	err bool
	res []int64
}

type behSpec struct {
	il, lt []cbSpec
	pan    bool
}

func parseCbs(l []any) []cbSpec {
	out := make([]cbSpec, 0, len(l))
	for _, x := range l {
		p := x.(hx.Pair)
		out = append(out, cbSpec{p.A.(bool), hx.Ints(p.B)})
	}
	return out
}

func parseBeh(a any) behSpec {
	t := hx.AsTerm(a)
	return behSpec{parseCbs(t.List(0)), parseCbs(t.List(1)), t.Bool(2)}
}

func parseTasks(l []any) []behSpec {
	out := make([]behSpec, len(l))
	for i, x := range l {
		out[i] = parseBeh(x)
	}
	return out
}

func toIface(v []int64) []interface{} {
	out := make([]interface{}, len(v))
	for i, x := range v {
		out[i] = x
	}
	return out
}

func fromIface(v []interface{}) []int64 {
	out := make([]int64, len(v))
	for i, x := range v {
		out[i], _ = x.(int64)
	}
	return out
}

type fireKey struct{ c, i, k int64 }

// buildChain makes the real waterfall tasks / final for one scripted chain.  `later` is
// called for every callback a task gives away.
// `want` (may be nil = the scheduler's consumer) gives the goroutine every task and final of
// this chain must run on at that moment.
func buildChain(l *evlog, c int64, tasks []behSpec, later func(key fireKey, f func()), want func() int64, panKind string) ([]waterfall.Task, waterfall.FinalCallback) {
	rec := func(e hx.T) {
		if want == nil {
			l.add(e)
		} else {
			l.addOn(e, want())
		}
	}
	fns := make([]waterfall.Task, len(tasks))
	for idx := range tasks {
		i := int64(idx)
		b := tasks[idx]
		fns[idx] = func(cb waterfall.Callback, args ...interface{}) {
			defer atomic.AddInt64(&l.activity, 1)
			rec(hx.C("STask", c, i, fromIface(args)))
			for _, x := range b.il {
				cb(x.err, toIface(x.res)...)
			}
			for k, x := range b.lt {
				x := x
				later(fireKey{c, i, int64(k)}, func() { cb(x.err, toIface(x.res)...) })
			}
			if b.pan {
				doPanic(panKind)
			}
		}
	}
	final := func(err bool, args ...interface{}) {
		rec(hx.C("SFinal", c, err, fromIface(args)))
	}
	return fns, final
}

// ---- validity (mirror of Model.valid) ----

func kindsHavePanic(progs []any) bool {
	for _, p := range progs {
		for _, k := range p.([]any) {
			if kindName(k) != "KOk" {
				return true
			}
		}
	}
	return false
}

func behSize(b behSpec) int { return len(b.il) + len(b.lt) }

func settles(b behSpec) bool {
	return !b.pan && len(b.il)+len(b.lt) == 1
}

func isConcOp(name string) bool {
	switch name {
	case "OConc", "OConcN", "OConcW", "OConcReg", "OConcS", "OConcStop":
		return true
	}
	return false
}

func valid(ops []hx.T) bool {
	hasChain := false
	total := 0
	tracked, hasConc, hasOther := false, false, false
	// the shared lists a script declares: the first declaration of an id wins
	lists := map[int64][]behSpec{}
	for _, o := range ops {
		if o.Name == "OList" {
			if _, ok := lists[o.Int(0)]; !ok {
				lists[o.Int(0)] = parseTasks(o.List(1))
			}
		}
	}
	for _, o := range ops {
		switch {
		case o.Name == "OSetId":
			tracked = true
		case isConcOp(o.Name):
			hasConc = true
		default:
			hasOther = true
		}
		switch o.Name {
		case "OPost":
			if p := o.Int(0); p < 0 || p >= nPosters {
				return false
			}
			total++
		case "OPostN":
			if p := o.Int(0); p < 0 || p >= nPosters {
				return false
			}
			if n := o.Int(1); n < 0 || n >= 3000 {
				return false
			} else {
				total += int(n)
			}
		case "OStep", "OStop":
		case "OChain", "OChainB":
			hasChain = true
			if o.Int(0) < 0 {
				return false
			}
			total++
			for _, b := range parseTasks(o.List(1)) {
				total += behSize(b)
			}
		case "OSimple", "OWait":
			hasChain = true
			if o.Int(0) < 0 {
				return false
			}
		case "OMgrGet", "OMgrDel":
			hasChain = true
			if n := o.Int(0); n < 0 || n >= 8 {
				return false
			}
		case "OFire":
			hasChain = true
			if o.Int(0) < 0 || o.Int(1) < 0 || o.Int(2) < 0 {
				return false
			}
		case "OConc":
			m := o.Int(0)
			if m < 0 || m >= 6 || len(o.List(1)) > 64 {
				return false
			}
			if m >= 2 && m != 5 && kindsHavePanic(o.List(1)) {
				return false
			}
		case "OTaskPanics":
		case "OConcN":
			if m := o.Int(0); m < 0 || m >= 6 {
				return false
			}
			if np := o.Int(1); np < 0 || np > 64 {
				return false
			}
			if n := o.Int(2); n < 0 || n > 20000 {
				return false
			}
		case "OConcW":
			if m := o.Int(0); m < 0 || m >= 2 {
				return false
			}
		case "OConcReg":
			if t := o.Int(0); t < 0 || t > 5000 {
				return false
			}
			if g := o.Int(1); g < 1 || g > 32 {
				return false
			}
		case "OSetId":
			if v := o.Int(0); v < 0 || v >= 1<<32 {
				return false
			}
		case "OList":
			hasChain = true
			if l := o.Int(0); l < 0 || l >= 64 {
				return false
			}
		case "OShare":
			hasChain = true
			if o.Int(0) < 0 {
				return false
			}
			if l := o.Int(1); l < 0 || l >= 64 {
				return false
			}
			if k := o.Int(2); k < 0 || k >= 4 {
				return false
			}
			if t, ok := lists[o.Int(1)]; ok {
				total++
				for _, b := range t {
					total += behSize(b)
				}
			}
		case "OConcStop":
			if m := o.Int(0); m != 0 && m != 2 && m != 5 {
				return false
			}
			if w := o.Int(1); w < 0 || w > 1 {
				return false
			}
			if n := o.Int(2); n < 0 || n > 900 {
				return false
			}
			if k := o.Int(3); k < 0 || k > 32 {
				return false
			}
		case "OConcS":
			if m := o.Int(0); m < 0 || m >= 2 {
				return false
			}
			if ns := o.Int(1); ns < 1 || ns > 8 {
				return false
			}
			if rd := o.Int(2); rd < 0 || rd > 64 {
				return false
			}
			for _, b := range parseTasks(o.List(3)) {
				if !settles(b) {
					return false
				}
			}
		default:
			panic("c15: unknown op " + o.Name)
		}
	}
	if hasChain && total >= capQ-100 {
		return false
	}
	if tracked && hasConc && hasOther {
		return false
	}
	return true
}

// ---- scripted run on one Sche, consumer driven by the harness ----

type work struct {
	seq  int64
	kind string
}

type posterG struct {
	id        int64
	goid      int64
	ch        chan work
	submitted int64
	completed int64
	nextSeq   int64
	mu        sync.Mutex
	results   []any
}

type scriptRun struct {
	s         *sche.Sche
	log       *evlog
	step      chan struct{}
	stepDone  chan struct{}
	quit      chan struct{}
	posters   map[int64]*posterG
	stopped   bool
	esc       int32
	pmu       sync.Mutex
	pending   map[fireKey]func()
	chains    map[int64]*chainG
	curTop    int64 // goroutine performing the current top-level Simple call / callback
	mgr       *sche.Mgr
	mgrIds    map[*sche.Sche]int64
	timedOut  bool
	sawId0    bool    // id-tracked script: the consumer received a task whose id is 0
	tracking  bool    // id-tracked script: report RunTask.id of every task the consumer receives
	hasChain  bool    // chain script (posts never block): the shadow queue below is maintained
	shadow    []int64 // per queued task, in queue order: the chain it belongs to, -1 = plain closure
	curChain  int64   // the chain whose closure / callback / caller goroutine is running now (shared lists)
	lists     map[int64]*sharedList
	taskPanic string // what the panicking tasks of chains declared from now on panic with (OTaskPanics)
}

// chainG: what the harness knows about one declared chain
type chainG struct {
	kind    string // "sche" | "simple" | "wait"
	goid    int64  // wait: the goroutine that called ExecAndWait
	done    chan struct{}
	paniced int32 // wait: set by the caller goroutine when a panic left ExecAndWait
	final   int   // wait: 0 running/parked, 1 returned, 2 panicked, 3 stuck (already reported)
}

func (r *scriptRun) setPending(k fireKey, f func()) {
	r.pmu.Lock()
	r.pending[k] = f
	r.pmu.Unlock()
}

func (r *scriptRun) takePending(k fireKey) (func(), bool) {
	r.pmu.Lock()
	defer r.pmu.Unlock()
	f, ok := r.pending[k]
	if ok {
		delete(r.pending, k)
	}
	return f, ok
}

// goWait runs f on a fresh goroutine and waits until it has finished or is parked for ever in
// a channel send.  Returns (panicked, stuck).
func (r *scriptRun) goWait(f func(), setTop bool) (panicked, stuck bool) {
	done := make(chan struct{})
	var goid int64
	var pan int32
	go func() {
		defer close(done)
		defer func() {
			if e := recover(); e != nil {
				atomic.StoreInt32(&pan, 1)
			}
		}()
		atomic.StoreInt64(&goid, curGoid())
		if setTop {
			atomic.StoreInt64(&r.curTop, curGoid())
		}
		f()
	}()
	deadline := time.Now().Add(waitMax)
	for i := 0; ; i++ {
		select {
		case <-done:
			return atomic.LoadInt32(&pan) != 0, false
		default:
		}
		if i < 50 {
			runtime.Gosched()
			continue
		}
		if g := atomic.LoadInt64(&goid); g != 0 && strings.HasPrefix(goroutineStates()[g], "chan send") {
			return false, true
		}
		if time.Now().After(deadline) {
			r.timedOut = true
			return false, false
		}
		time.Sleep(20 * time.Microsecond)
	}
}

// settleCaller waits until the ExecAndWait caller of ch has left or is parked, and returns
// the status events that are new.
func (r *scriptRun) settleCaller(c int64, ch *chainG) []any {
	if ch.final != 0 {
		return nil
	}
	deadline := time.Now().Add(waitMax)
	for i := 0; ; i++ {
		select {
		case <-ch.done:
			if atomic.LoadInt32(&ch.paniced) != 0 {
				ch.final = 2
				return []any{hx.C("SEsc", c)}
			}
			ch.final = 1
			return []any{hx.C("SRet", c)}
		default:
		}
		if i < 50 {
			runtime.Gosched()
			continue
		}
		st := goroutineStates()[atomic.LoadInt64(&ch.goid)]
		if strings.HasPrefix(st, "chan receive") {
			return nil
		}
		if strings.HasPrefix(st, "chan send") {
			ch.final = 3
			return []any{hx.C("SHang", c)}
		}
		if time.Now().After(deadline) {
			r.timedOut = true
			return nil
		}
		time.Sleep(20 * time.Microsecond)
	}
}

func (r *scriptRun) consumerLoop(ready chan struct{}) {
	r.log.consumer = curGoid()
	close(ready)
	ch := r.s.GetChanTask()
	for {
		select {
		case <-r.quit:
			return
		case <-r.step:
		}
		if atomic.LoadInt32(&r.esc) != 0 {
			// a panic left DoTask: Handler / the selector loop would be gone with it (neither
			// recovers), so this consumer takes nothing more - the closures behind stay unexecuted
			r.stepDone <- struct{}{}
			continue
		}
		select {
		case t, ok := <-ch:
			if ok && t != nil {
				if r.tracking {
					id := sche.VerifTaskId(t)
					r.log.addRaw(hx.C("SId", int64(id)))
					if id == 0 {
						r.sawId0 = true
					}
				}
				owner := int64(-1)
				if r.hasChain && len(r.shadow) > 0 {
					owner, r.shadow = r.shadow[0], r.shadow[1:]
					atomic.StoreInt64(&r.curChain, owner)
				}
				n0 := len(ch)
				func() {
					defer func() {
						if e := recover(); e != nil {
							atomic.StoreInt32(&r.esc, 1) // a panic left DoTask
						}
					}()
					r.s.DoTask(t)
				}()
				r.noteQueued(owner, n0) // what the closure posted belongs to its chain
			}
		default:
		}
		r.stepDone <- struct{}{}
	}
}

// noteQueued: chain scripts never block, so whatever entered the queue since it held n0 tasks
// was posted on behalf of `owner`.
func (r *scriptRun) noteQueued(owner int64, n0 int) {
	if !r.hasChain {
		return
	}
	for d := len(r.s.GetChanTask()) - n0; d > 0; d-- {
		r.shadow = append(r.shadow, owner)
	}
}

func (r *scriptRun) poster(p int64, size int) *posterG {
	if g, ok := r.posters[p]; ok {
		return g
	}
	g := &posterG{id: p, ch: make(chan work, size+1)}
	ready := make(chan struct{})
	go func() {
		g.goid = curGoid()
		close(ready)
		for w := range g.ch {
			w := w
			var res bool
			func() {
				defer func() {
					if e := recover(); e != nil {
						atomic.StoreInt32(&r.esc, 1) // a panic left Post
					}
				}()
				t := r.s.Post(func() {
					r.log.add(hx.C("SExec", p, w.seq))
					if w.kind != "KOk" {
						doPanic(w.kind)
					}
				})
				res = t != nil
			}()
			g.mu.Lock()
			g.results = append(g.results, res)
			g.mu.Unlock()
			atomic.AddInt64(&g.completed, 1)
		}
	}()
	<-ready
	r.posters[p] = g
	return g
}

// settle waits until every poster is idle or parked in the channel send of Post.
func (r *scriptRun) settle() {
	deadline := time.Now().Add(waitMax)
	for spin := 0; ; spin++ {
		idle := true
		for _, g := range r.posters {
			if atomic.LoadInt64(&g.completed) != g.submitted {
				idle = false
			}
		}
		if idle {
			return
		}
		if spin < 50 {
			runtime.Gosched()
			continue
		}
		st := goroutineStates()
		ok := true
		for _, g := range r.posters {
			if atomic.LoadInt64(&g.completed) != g.submitted && !strings.HasPrefix(st[g.goid], "chan send") {
				ok = false
			}
		}
		if ok {
			return
		}
		if time.Now().After(deadline) {
			r.timedOut = true
			return
		}
		time.Sleep(20 * time.Microsecond)
	}
}

func (r *scriptRun) doStep() {
	r.step <- struct{}{}
	select {
	case <-r.stepDone:
	case <-time.After(waitMax):
		r.timedOut = true
	}
	r.settle()
}

func (r *scriptRun) busy() bool {
	if len(r.s.GetChanTask()) > 0 {
		return true
	}
	for _, g := range r.posters {
		if atomic.LoadInt64(&g.completed) != g.submitted {
			return true
		}
	}
	return false
}

func postsByPoster(ops []hx.T) map[int64]int {
	m := map[int64]int{}
	for _, o := range ops {
		switch o.Name {
		case "OPost":
			m[o.Int(0)]++
		case "OPostN":
			m[o.Int(0)] += int(o.Int(1))
		}
	}
	return m
}

// Exec runs one op list and returns the observation term.
func Exec(ops []hx.T, tags map[string]bool) (obs any, nontrivial bool) {
	silence()
	if !valid(ops) {
		return "BInvalid", false
	}
	r := &scriptRun{
		s:         sche.NewSche(),
		log:       &evlog{foreign: map[int64]bool{}},
		step:      make(chan struct{}),
		stepDone:  make(chan struct{}, 1),
		quit:      make(chan struct{}),
		posters:   map[int64]*posterG{},
		pending:   map[fireKey]func(){},
		chains:    map[int64]*chainG{},
		mgr:       sche.NewScheMgr(),
		mgrIds:    map[*sche.Sche]int64{},
		lists:     map[int64]*sharedList{},
		curChain:  -1,
		taskPanic: "KPanic",
	}
	for _, o := range ops {
		switch o.Name {
		case "OSetId":
			r.tracking = true
		case "OChain", "OChainB", "OSimple", "OWait", "OFire", "OMgrGet", "OMgrDel", "OList", "OShare":
			r.hasChain = true
		}
	}
	// every case starts where a fresh process starts (the counter is process-wide)
	sche.VerifSetNextTaskId(1)
	ready := make(chan struct{})
	go r.consumerLoop(ready)
	<-ready
	sizes := postsByPoster(ops)
	gor := true
	esc := false
	perOp := make([]any, 0, len(ops))
	mark := 0
	snapshot := func() []any {
		var e []any
		e, mark = r.log.since(mark)
		return e
	}
	for _, o := range ops {
		switch o.Name {
		case "OPost", "OPostN":
			p := o.Int(0)
			g := r.poster(p, sizes[p])
			n, kind := int64(1), "KOk"
			if o.Name == "OPost" {
				kind = kindName(o.Args[1])
				if pvalUncomparable[kind] {
					tags["panic-uncomparable"] = true
				}
			} else {
				n = o.Int(1)
			}
			if len(r.s.GetChanTask()) == capQ && !r.stopped && n > 0 {
				tags["post-at-full"] = true
			}
			n0 := len(r.s.GetChanTask())
			for j := int64(0); j < n; j++ {
				g.submitted++
				g.ch <- work{g.nextSeq, kind}
				g.nextSeq++
			}
			r.settle()
			r.noteQueued(-1, n0)
			perOp = append(perOp, snapshot())
		case "OStep":
			r.doStep()
			perOp = append(perOp, snapshot())
		case "OStop":
			if !r.stopped {
				r.stopped = true
				for _, g := range r.posters {
					if atomic.LoadInt64(&g.completed) != g.submitted {
						tags["stop-while-blocked"] = true
					}
				}
				r.s.Stop()
				r.settle()
			}
			perOp = append(perOp, snapshot())
		case "OChain", "OChainB":
			c := o.Int(0)
			if r.chains[c] == nil {
				r.chains[c] = &chainG{kind: "sche"}
				fns, final := buildChain(r.log, c, parseTasks(o.List(1)), r.setPending, nil, r.taskPanic)
				n0 := len(r.s.GetChanTask())
				func() {
					defer func() {
						if e := recover(); e != nil {
							atomic.StoreInt32(&r.esc, 1)
						}
					}()
					if o.Name == "OChain" {
						waterfall.Sche(r.s, fns, final)
					} else {
						b := waterfall.NewBuilder(r.s)
						for _, f := range fns {
							b = b.Next(f)
						}
						b.Final(final).Do()
					}
				}()
				r.noteQueued(c, n0)
			}
			perOp = append(perOp, snapshot())
		case "OSimple":
			c := o.Int(0)
			var extra []any
			if r.chains[c] == nil {
				r.chains[c] = &chainG{kind: "simple"}
				fns, final := buildChain(r.log, c, parseTasks(o.List(1)), r.setPending,
					func() int64 { return atomic.LoadInt64(&r.curTop) }, r.taskPanic)
				pan, _ := r.goWait(func() { waterfall.Simple(fns, final) }, true)
				if pan {
					extra = append(extra, hx.C("SEsc", c))
				}
			}
			perOp = append(perOp, append(snapshot(), extra...))
		case "OWait":
			c := o.Int(0)
			var extra []any
			if r.chains[c] == nil {
				ch := &chainG{kind: "wait", done: make(chan struct{})}
				r.chains[c] = ch
				fns, final := buildChain(r.log, c, parseTasks(o.List(1)), r.setPending,
					func() int64 { return atomic.LoadInt64(&ch.goid) }, r.taskPanic)
				started := make(chan struct{})
				go func() {
					defer close(ch.done)
					defer func() {
						if e := recover(); e != nil {
							atomic.StoreInt32(&ch.paniced, 1)
						}
					}()
					atomic.StoreInt64(&ch.goid, curGoid())
					close(started)
					waterfall.ExecAndWait(fns, final)
				}()
				<-started
				extra = r.settleCaller(c, ch)
			}
			perOp = append(perOp, append(snapshot(), extra...))
		case "OFire":
			k := fireKey{o.Int(0), o.Int(1), o.Int(2)}
			var extra []any
			if f, ok := r.takePending(k); ok {
				ch := r.chains[k.c]
				atomic.StoreInt64(&r.curChain, k.c)
				n0 := len(r.s.GetChanTask())
				// the environment: some other goroutine completes the task
				pan, stuck := r.goWait(f, ch.kind == "simple")
				r.noteQueued(k.c, n0)
				switch ch.kind {
				case "sche":
					if pan {
						atomic.StoreInt32(&r.esc, 1)
					}
				default:
					if pan {
						extra = append(extra, hx.C("SEsc", k.c))
					}
					if stuck {
						extra = append(extra, hx.C("SHang", k.c))
					}
				}
				if ch.kind == "wait" {
					extra = append(extra, r.settleCaller(k.c, ch)...)
				}
			}
			perOp = append(perOp, append(snapshot(), extra...))
		case "OTaskPanics":
			r.taskPanic = o.Term(0).Name
			tags["task-panic-value"] = true
			perOp = append(perOp, snapshot())
		case "OSetId":
			v := uint32(o.Int(0))
			sche.VerifSetNextTaskId(v)
			var extra []any
			if sche.VerifNextTaskId() != v {
				extra = append(extra, hx.C("SBad", 8)) // the hook did not position the counter
			}
			if v >= 1<<32-64 {
				tags["id-near-wrap"] = true
			}
			perOp = append(perOp, append(snapshot(), extra...))
		case "OList":
			if l := o.Int(0); r.lists[l] == nil {
				r.lists[l] = r.buildShared(parseTasks(o.List(1)))
			}
			perOp = append(perOp, snapshot())
		case "OShare":
			extra := r.startShared(o.Int(0), o.Int(1), o.Int(2), tags)
			perOp = append(perOp, append(snapshot(), extra...))
		case "OConcStop":
			ev, g, e := runConcStop(o.Int(0), o.Int(1), o.Int(2), o.Int(3), tags)
			gor, esc = gor && g, esc || e
			nontrivial = true
			perOp = append(perOp, ev)
		case "OConcS":
			ev, g, e := runConcS(o.Int(0), o.Int(1), o.Int(2), parseTasks(o.List(3)), tags)
			gor, esc = gor && g, esc || e
			if len(ev) > 0 {
				nontrivial = true
			}
			perOp = append(perOp, ev)
		case "OMgrGet":
			got := r.mgr.GetSche(fmt.Sprintf("n%d", o.Int(0)))
			id, ok := r.mgrIds[got]
			if !ok {
				id = int64(len(r.mgrIds))
				r.mgrIds[got] = id
			}
			perOp = append(perOp, append(snapshot(), hx.C("SMgr", id)))
		case "OMgrDel":
			r.mgr.DelSche(fmt.Sprintf("n%d", o.Int(0)))
			perOp = append(perOp, snapshot())
		case "OConc":
			ev, g, e := runConc(o.Int(0), o.List(1), tags)
			gor, esc = gor && g, esc || e
			if len(ev) > 0 {
				nontrivial = true
			}
			perOp = append(perOp, ev)
		case "OConcN":
			progs := make([]any, o.Int(1))
			for i := range progs {
				ks := make([]any, o.Int(2))
				for j := range ks {
					ks[j] = "KOk"
				}
				progs[i] = ks
			}
			ev, g, e := runConc(o.Int(0), progs, tags)
			gor, esc = gor && g, esc || e
			if len(ev) > 0 {
				nontrivial = true
			}
			perOp = append(perOp, ev)
		case "OConcReg":
			ev, g := runConcReg(o.Int(0), o.Int(1), tags)
			gor = gor && g
			if o.Int(0) > 0 {
				nontrivial = true
			}
			perOp = append(perOp, ev)
		case "OConcW":
			ev, g, e := runConcW(o.Int(0), o.List(1), r.taskPanic, tags)
			gor, esc = gor && g, esc || e
			if len(ev) > 0 {
				nontrivial = true
			}
			perOp = append(perOp, ev)
		}
	}
	// drain: run the consumer until nothing is queued and no poster is blocked
	for guard := 0; r.busy() && guard < 200000 && !r.timedOut && atomic.LoadInt32(&r.esc) == 0; guard++ {
		r.doStep()
	}
	drain := snapshot()
	close(r.quit)
	if !r.stopped {
		r.s.Stop()
		r.settle() // posters left blocked by a dead consumer return now (Post recovers, nil)
	}
	posts := []any{}
	for p := int64(0); p < nPosters; p++ {
		if g, ok := r.posters[p]; ok {
			close(g.ch)
			g.mu.Lock()
			if len(g.results) > 0 {
				posts = append(posts, hx.Pair{A: p, B: append([]any{}, g.results...)})
			}
			g.mu.Unlock()
		}
	}
	r.log.mu.Lock()
	if r.log.gorBad {
		gor = false
	}
	if len(r.log.evs) > 0 {
		nontrivial = true
	}
	r.log.mu.Unlock()
	if atomic.LoadInt32(&r.esc) != 0 {
		esc = true
	}
	if r.timedOut {
		tags["TIMEOUT"] = true
		gor = false // make a hang visible as a failed observation
	}
	if r.sawId0 {
		tags["id0-received"] = true
	}
	return hx.C("Obs", perOp, drain, posts, gor, esc), nontrivial
}

// ---- concurrent posters on the real consumer loops ----

var rsCounter int64

func waitUntil(cond func() bool) bool {
	deadline := time.Now().Add(waitMax)
	for i := 0; !cond(); i++ {
		if time.Now().After(deadline) {
			return false
		}
		if i < 100 {
			runtime.Gosched()
		} else {
			time.Sleep(50 * time.Microsecond)
		}
	}
	return true
}

// waitChan waits for ch to be closed/signalled; gives up early when abort() holds (the
// consumer loop died of an escaped panic) or after waitMax.  Returns false on give-up.
func waitChan(ch <-chan struct{}, abort func() bool) bool {
	deadline := time.Now().Add(waitMax)
	for {
		select {
		case <-ch:
			return true
		case <-time.After(2 * time.Millisecond):
		}
		if abort() || time.Now().After(deadline) {
			select {
			case <-ch:
				return true
			default:
			}
			return false
		}
	}
}

// runConc: mode 0 Sche.Handler started first; 1 Handler gated by a first blocking closure
// until every poster is done or blocked on the full queue; 2/3 the same on a RunService
// (3: auto-named); 4 RunService with detailed perf logging and three slow closures (the
// heavy-frame accounting of the loop must not disturb the order).  On a RunService every odd
// poster posts through the registry (GetScheMgr().GetSche(name)), which must be the same
// scheduler; after Stop the service reports stopped and the name is free again.
// 5: the selector loop of a RunService (MultiSelector + FuncSelector over GetChanTask calling
// DoTask, as RunService.Start wires it) on a goroutine of the harness.  In modes 0, 1, 5 the
// consumer goroutine runs under a guard: a panic that leaves the loop ends that consumer (the
// closures behind it never run - visible in the events) and sets esc; it does not end the
// harness.  A real RunService starts its own goroutine, which cannot be guarded: the model
// has no panicking closures there.
func runConc(mode int64, progs []any, tags map[string]bool) (events []any, gor, esc bool) {
	l := &evlog{foreign: map[int64]bool{}}
	var s *sche.Sche
	var rs *runservice.RunService
	var escFlag int32
	handlerDone := make(chan struct{})
	gated := mode == 1 || mode == 3
	var viaReg *sche.Sche
	gate := make(chan struct{})
	var gateGoid int64
	selClose := make(chan int, 1)
	ownLoop := mode <= 1 || mode == 5 // the consumer goroutine is ours: it runs under a guard
	startConsumer := func() {
		if ownLoop {
			ready := make(chan struct{})
			go func() {
				defer close(handlerDone)
				defer func() {
					if e := recover(); e != nil {
						atomic.StoreInt32(&escFlag, 1) // a panic left the consumer loop
					}
				}()
				l.mu.Lock()
				l.consumer = curGoid()
				l.mu.Unlock()
				close(ready)
				if mode != 5 {
					s.Handler()
					return
				}
				// the loop of a RunService (Start: addSchedulerSelector, addCloseChan, loop)
				sel := sche.NewMultiSelector()
				sel.AddSelector("sheduler", sche.NewFuncSelector(reflect.ValueOf(s.GetChanTask()),
					func(v reflect.Value, recvOk bool) {
						if !recvOk {
							return
						}
						s.DoTask(v.Interface().(*sche.RunTask))
					}))
				running := true
				sel.AddSelector("__close__", sche.NewFuncSelector(reflect.ValueOf(selClose),
					func(v reflect.Value, recvOk bool) { running = false }))
				for running {
					sel.HandleOnce()
				}
			}()
			<-ready
		} else {
			rs.Start()
			close(handlerDone)
		}
	}
	if ownLoop {
		s = sche.NewSche()
	} else {
		name := fmt.Sprintf("c15-rs-%d", atomic.AddInt64(&rsCounter, 1))
		if mode == 3 {
			name = "" // NewRunService picks "rs<serial>"
		}
		rs = runservice.NewRunService(name)
		s = rs.GetScheduler()
		viaReg = runservice.GetScheMgr().GetSche(rs.Name)
		if viaReg != s || rs.GetSelector() == nil || rs.IsStopped() {
			l.addRaw(hx.C("SBad", 1))
			viaReg = nil // nobody consumes a different scheduler: do not post there
		}
		if mode == 4 {
			runservice.SetPerfLogLevel(runservice.LevelDetail)
			common.VerifSetNowMs(1000000)
			defer func() {
				runservice.SetPerfLogLevel(runservice.LevelNormal)
				common.VerifSetNowNano(0) // back to the real clock
			}()
			if rs.GetValue("c15") != nil { // blackboard of a new service is empty
				l.addRaw(hx.C("SBad", 5))
			}
		}
	}
	if gated {
		s.Post(func() { // not logged; it only holds the consumer
			atomic.StoreInt64(&gateGoid, curGoid())
			<-gate
		})
	}
	startConsumer()
	if gated {
		waitUntil(func() bool { return atomic.LoadInt64(&gateGoid) != 0 })
		l.mu.Lock()
		if l.consumer == 0 {
			l.consumer = atomic.LoadInt64(&gateGoid)
		} else if l.consumer != atomic.LoadInt64(&gateGoid) {
			l.gorBad = true
		}
		l.mu.Unlock()
	}
	type pg struct {
		goid int64
		done int32
	}
	ps := make([]*pg, len(progs))
	var total int64
	var accepted int64
	start := make(chan struct{})
	var wg sync.WaitGroup
	for pi := range progs {
		p := int64(pi)
		kinds := progs[pi].([]any)
		g := &pg{}
		ps[pi] = g
		total += int64(len(kinds))
		wg.Add(1)
		ready := make(chan struct{})
		go func() {
			defer wg.Done()
			g.goid = curGoid()
			close(ready)
			<-start
			for n, k := range kinds {
				n := int64(n)
				pan := kindName(k)
				var t *sche.RunTask
				func() {
					defer func() {
						if e := recover(); e != nil {
							atomic.StoreInt32(&escFlag, 1)
						}
					}()
					target := s
					if viaReg != nil && p%2 == 1 {
						target = viaReg
					}
					t = target.Post(func() {
						l.add(hx.C("SExec", p, n))
						if mode == 4 && p == 0 && n < 3 {
							// a slow closure on the virtual clock (35 ms, 55 ms, then 11 s later 105 ms):
							// every branch of the loop's heavy-frame accounting
							d := []int64{35, 55, 11105}[n]
							common.VerifSetNowNano(common.NowNano() + d*1000000)
						}
						if pan != "KOk" {
							doPanic(pan)
						}
					})
				}()
				if t == nil {
					l.addRaw(hx.C("SPostFail", p, n))
				} else {
					atomic.AddInt64(&accepted, 1)
				}
			}
			atomic.StoreInt32(&g.done, 1)
		}()
		<-ready
		l.mu.Lock()
		l.foreign[g.goid] = true
		l.mu.Unlock()
	}
	close(start)
	timedOut := false
	if gated {
		// wait until every poster has finished or is parked in Post's channel send
		ok := waitUntil(func() bool {
			if atomic.LoadInt32(&escFlag) != 0 {
				return true
			}
			all := true
			for _, g := range ps {
				if atomic.LoadInt32(&g.done) == 0 {
					all = false
				}
			}
			if all {
				return true
			}
			st := goroutineStates()
			for _, g := range ps {
				if atomic.LoadInt32(&g.done) == 0 && !strings.HasPrefix(st[g.goid], "chan send") {
					return false
				}
			}
			return true
		})
		if !ok {
			timedOut = true
		}
		if len(s.GetChanTask()) == capQ {
			tags["conc-blocked-at-capacity"] = true
		}
		close(gate)
	}
	dead := func() bool { return atomic.LoadInt32(&escFlag) != 0 }
	doneCh := make(chan struct{})
	go func() { wg.Wait(); close(doneCh) }()
	if !waitChan(doneCh, dead) && !dead() {
		timedOut = true
	}
	// Every accepted closure is queued by now.  A sentinel behind them: once IT ran, each of
	// them has been handed to DoTask (FIFO), so a closure that has not run by then was dropped
	// and waiting longer will not bring it back (the acceptor reports it).
	sentinel := make(chan struct{})
	sent := !timedOut && s.Post(func() { close(sentinel) }) != nil
	if !waitUntil(func() bool {
		if int64(l.count()) >= atomic.LoadInt64(&accepted) || dead() {
			return true
		}
		if sent {
			select {
			case <-sentinel:
				return true
			default:
			}
		}
		return false
	}) {
		timedOut = true
	}
	if sent {
		waitChan(sentinel, dead) // do not stop the scheduler under the sentinel
	}
	if !timedOut {
		// anything executed twice would show up now
		time.Sleep(200 * time.Microsecond)
	}
	if rs != nil {
		rs.Stop()
		if !waitUntil(rs.IsStopped) {
			l.addRaw(hx.C("SBad", 2))
		}
		// Stop removed the name from the registry: the next GetSche makes a fresh scheduler
		fresh := runservice.GetScheMgr().GetSche(rs.Name)
		if fresh == s || fresh.Post(func() {}) == nil {
			l.addRaw(hx.C("SBad", 3))
		}
		runservice.GetScheMgr().DelSche(rs.Name)
	} else {
		close(selClose)
		s.Stop()
	}
	select {
	case <-handlerDone:
	case <-time.After(waitMax):
		timedOut = true
	}
	events, _ = l.since(0)
	l.mu.Lock()
	gor = !l.gorBad
	l.mu.Unlock()
	if timedOut {
		tags["TIMEOUT"] = true
		gor = false
	}
	tags[fmt.Sprintf("conc-mode-%d", mode)] = true
	return events, gor, atomic.LoadInt32(&escFlag) != 0
}

// runConcW: several chains started concurrently on one Sche with the real Handler; every
// callback a task gives away is invoked from a fresh goroutine.  Events are returned grouped
// by chain (stable), i.e. as per-chain projections.
func runConcW(mode int64, chains []any, panKind string, tags map[string]bool) (events []any, gor, esc bool) {
	l := &evlog{foreign: map[int64]bool{}}
	s := sche.NewSche()
	var escFlag int32
	handlerDone := make(chan struct{})
	var spawned int64
	var laterOut int64 // callbacks handed to the environment and not yet invoked
	laterIdle := func() { waitUntil(func() bool { return atomic.LoadInt64(&laterOut) == 0 }) }
	later := func(k fireKey, f func()) {
		atomic.AddInt64(&spawned, 1)
		atomic.AddInt64(&laterOut, 1)
		go func() {
			defer atomic.AddInt64(&laterOut, -1)
			defer func() {
				if e := recover(); e != nil {
					atomic.StoreInt32(&escFlag, 1)
				}
			}()
			if k.i%2 == 0 {
				runtime.Gosched()
			}
			f()
		}()
	}
	startHandler := func() {
		ready := make(chan struct{})
		go func() {
			defer close(handlerDone)
			defer func() {
				if e := recover(); e != nil {
					atomic.StoreInt32(&escFlag, 1)
				}
			}()
			l.mu.Lock()
			l.consumer = curGoid()
			l.mu.Unlock()
			close(ready)
			s.Handler()
		}()
		<-ready
	}
	if mode == 0 {
		startHandler()
	}
	var wg sync.WaitGroup
	start := make(chan struct{})
	for ci := range chains {
		c := int64(ci)
		fns, final := buildChain(l, c, parseTasks(chains[ci].([]any)), later, nil, panKind)
		wg.Add(1)
		go func() {
			defer wg.Done()
			<-start
			waterfall.Sche(s, fns, final)
		}()
	}
	close(start)
	wg.Wait()
	if mode != 0 {
		startHandler()
	}
	// quiescence: two consecutive sentinel rounds without activity
	timedOut := false
	quiet := 0
	var last int64 = -1
	for round := 0; quiet < 2 && round < 100000; round++ {
		laterIdle()
		ran := make(chan struct{})
		if s.Post(func() { close(ran) }) == nil {
			break
		}
		if !waitChan(ran, func() bool { return atomic.LoadInt32(&escFlag) != 0 }) {
			if atomic.LoadInt32(&escFlag) == 0 {
				timedOut = true
			}
			break
		}
		laterIdle()
		cur := atomic.LoadInt64(&l.activity) + atomic.LoadInt64(&spawned)
		if cur == last && len(s.GetChanTask()) == 0 {
			quiet++
		} else {
			quiet = 0
		}
		last = cur
	}
	s.Stop()
	select {
	case <-handlerDone:
	case <-time.After(waitMax):
		timedOut = true
	}
	all, _ := l.since(0)
	events = []any{}
	for ci := range chains {
		for _, e := range all {
			if e.(hx.T).Int(0) == int64(ci) {
				events = append(events, e)
			}
		}
	}
	l.mu.Lock()
	gor = !l.gorBad
	l.mu.Unlock()
	if timedOut {
		tags["TIMEOUT"] = true
		gor = false
	}
	tags[fmt.Sprintf("concw-mode-%d", mode)] = true
	return events, gor, atomic.LoadInt32(&escFlag) != 0
}

// runConcReg: the registry under concurrency.  Per trial a fresh name; one goroutine creates
// and starts the RunService of that name while g others look the scheduler up by name and
// post one closure each, all released together by a spin barrier.  Whatever the interleaving
// there must be ONE scheduler per name, so every closure runs exactly once, on the service's
// goroutine.  Returns SBad 6 (several schedulers for one name) / SBad 7 (a closure did not
// run exactly once); nothing when all is well.
func runConcReg(trials, g int64, tags map[string]bool) (events []any, gor bool) {
	events = []any{}
	gor = true
	mgr := runservice.GetScheMgr()
	bad6, bad7 := false, false
	for trial := int64(0); trial < trials && !bad6 && !bad7; trial++ {
		name := fmt.Sprintf("c15-reg-%d", atomic.AddInt64(&rsCounter, 1))
		var arrived int32
		barrier := func() {
			atomic.AddInt32(&arrived, 1)
			for i := 0; atomic.LoadInt32(&arrived) < int32(g)+1; i++ {
				if i%1000 == 999 {
					runtime.Gosched()
				}
			}
		}
		var wg sync.WaitGroup
		var rs *runservice.RunService
		got := make([]*sche.Sche, g)
		ran := make([]int32, g)
		goids := make([]int64, g)
		posterIds := make([]int64, g)
		wg.Add(1)
		go func() {
			defer wg.Done()
			barrier()
			rs = runservice.NewRunService(name)
			rs.Start()
		}()
		for i := int64(0); i < g; i++ {
			i := i
			wg.Add(1)
			go func() {
				defer wg.Done()
				posterIds[i] = curGoid()
				barrier()
				s := mgr.GetSche(name)
				got[i] = s
				s.Post(func() {
					atomic.StoreInt64(&goids[i], curGoid())
					atomic.AddInt32(&ran[i], 1)
				})
			}()
		}
		wg.Wait()
		all := func() bool {
			for i := range ran {
				if atomic.LoadInt32(&ran[i]) < 1 {
					return false
				}
			}
			return true
		}
		deadline := time.Now().Add(2 * time.Second)
		for !all() && time.Now().Before(deadline) {
			time.Sleep(50 * time.Microsecond)
		}
		distinct := map[*sche.Sche]bool{rs.GetScheduler(): true}
		for _, s := range got {
			distinct[s] = true
		}
		if len(distinct) != 1 {
			bad6 = true
		}
		for i := range ran {
			if atomic.LoadInt32(&ran[i]) != 1 {
				bad7 = true
			}
		}
		if !bad7 {
			for i := range goids {
				if goids[i] != goids[0] {
					gor = false
				}
				for _, p := range posterIds {
					if goids[i] == p {
						gor = false
					}
				}
			}
		}
		rs.Stop()
		mgr.DelSche(name)
	}
	if bad6 {
		events = append(events, hx.C("SBad", 6))
	}
	if bad7 {
		events = append(events, hx.C("SBad", 7))
	}
	tags["registry-race"] = true
	return events, gor
}
