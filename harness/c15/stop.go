package c15

// Teardown with closures queued: who runs them, and where.

import (
	"fmt"
	"reflect"
	"sync/atomic"
	"time"

	"github.com/dfklegend/cell2/utils/runservice"
	"github.com/dfklegend/cell2/utils/sche"

	"verifh/hx"
)

// runConcStop: a fresh scheduler whose consumer is Sche.Handler (mode 0), a real RunService
// (mode 2) or the selector loop of a RunService on a harness goroutine (mode 5).  A first
// closure holds the consumer (and tells its goroutine id); poster 0 posts n closures behind it;
// then Stop - RunService.Stop in mode 2 - is called by a foreign goroutine while the consumer is
// still inside the holding closure (who = 0), or by the holding closure itself (who = 1); then
// poster 1 posts k closures, which must fail.  Every closure that runs is recorded with the
// goroutine it ran on (must be the consumer's, never the stopper's or a poster's) and with
// whether another closure was running at that moment - inside it or next to it (must not).
func runConcStop(mode, who, n, k int64, tags map[string]bool) (events []any, gor, esc bool) {
	l := &evlog{foreign: map[int64]bool{}}
	var escFlag, inside, overlap int32
	enter := func() func() {
		if atomic.AddInt32(&inside, 1) != 1 {
			atomic.StoreInt32(&overlap, 1)
		}
		return func() { atomic.AddInt32(&inside, -1) }
	}
	var s *sche.Sche
	var rs *runservice.RunService
	handlerDone := make(chan struct{})
	selClose := make(chan int, 1)
	if mode == 2 {
		rs = runservice.NewRunService(fmt.Sprintf("c15-stop-%d", atomic.AddInt64(&rsCounter, 1)))
		s = rs.GetScheduler()
	} else {
		s = sche.NewSche()
	}
	stop := func() {
		defer func() {
			if e := recover(); e != nil {
				atomic.StoreInt32(&escFlag, 1) // a panic left Stop
			}
		}()
		switch mode {
		case 2:
			rs.Stop()
		case 5:
			close(selClose)
			s.Stop()
		default:
			s.Stop()
		}
	}
	var holdGoid int64
	release := make(chan struct{})
	s.Post(func() { // the holding closure: not logged
		defer enter()()
		atomic.StoreInt64(&holdGoid, curGoid())
		<-release
		if who == 1 {
			stop() // Stop called by a closure of the consumer itself
		}
	})
	if mode == 2 {
		rs.Start()
		close(handlerDone)
	} else {
		go func() {
			defer close(handlerDone)
			defer func() {
				if e := recover(); e != nil {
					atomic.StoreInt32(&escFlag, 1)
				}
			}()
			if mode == 0 {
				s.Handler()
				return
			}
			sel := sche.NewMultiSelector()
			sel.AddSelector("sheduler", sche.NewFuncSelector(reflect.ValueOf(s.GetChanTask()),
				func(v reflect.Value, recvOk bool) {
					if !recvOk {
						return
					}
					s.DoTask(v.Interface().(*sche.RunTask))
				}))
			running := true
			sel.AddSelector("__close__", sche.NewFuncSelector(reflect.ValueOf(selClose),
				func(v reflect.Value, recvOk bool) { running = false }))
			for running {
				sel.HandleOnce()
			}
		}()
	}
	timedOut := !waitUntil(func() bool { return atomic.LoadInt64(&holdGoid) != 0 })
	l.mu.Lock()
	l.consumer = atomic.LoadInt64(&holdGoid)
	l.mu.Unlock()
	post := func(p, cnt int64) {
		done := make(chan struct{})
		go func() {
			defer close(done)
			g := curGoid()
			l.mu.Lock()
			l.foreign[g] = true
			l.mu.Unlock()
			for j := int64(0); j < cnt; j++ {
				j := j
				t := s.Post(func() {
					defer enter()()
					l.add(hx.C("SExec", p, j))
				})
				if t == nil {
					l.addRaw(hx.C("SPostFail", p, j))
				}
			}
		}()
		select {
		case <-done:
		case <-time.After(waitMax):
			timedOut = true
		}
	}
	if !timedOut {
		post(0, n) // n < capacity: never blocks
	}
	if who == 0 {
		done := make(chan struct{})
		go func() { // a foreign goroutine stops the scheduler; the consumer is inside a closure
			defer close(done)
			g := curGoid()
			l.mu.Lock()
			l.foreign[g] = true
			l.mu.Unlock()
			stop()
		}()
		select {
		case <-done:
		case <-time.After(waitMax):
			timedOut = true
		}
		if !timedOut {
			post(1, k)
		}
		close(release)
	} else {
		close(release)
		// the holding closure calls Stop; Posts made after it returned must fail
		if mode == 2 {
			timedOut = !waitUntil(rs.IsStopped) || timedOut
		} else {
			select {
			case <-handlerDone:
			case <-time.After(waitMax):
				timedOut = true
			}
		}
		if !timedOut {
			post(1, k)
		}
	}
	if mode == 2 {
		if !waitUntil(rs.IsStopped) {
			timedOut = true
		}
	} else {
		select {
		case <-handlerDone:
		case <-time.After(waitMax):
			timedOut = true
		}
	}
	// anything run late, elsewhere or twice would show up now
	time.Sleep(300 * time.Microsecond)
	waitUntil(func() bool { return atomic.LoadInt32(&inside) == 0 })
	events, _ = l.since(0)
	l.mu.Lock()
	gor = !l.gorBad
	l.mu.Unlock()
	if atomic.LoadInt32(&overlap) != 0 {
		gor = false
		tags["OVERLAP"] = true
	}
	if timedOut {
		tags["TIMEOUT"] = true
		gor = false
	}
	if n > 0 {
		tags["stop-with-queued"] = true
	}
	tags[fmt.Sprintf("stop-mode-%d-who-%d", mode, who)] = true
	return events, gor, atomic.LoadInt32(&escFlag) != 0
}
