package c15

// What scripted closures and waterfall tasks panic WITH (Model.v: pval).  Every call makes a
// fresh value; what matters to code that handles recovered values is the dynamic type.

import (
	"errors"
	"fmt"

	"verifh/hx"
)

type errStruct struct{ code int }

func (e errStruct) Error() string { return fmt.Sprintf("c15: error %d", e.code) }

// a slice type that is an error (like validator.ValidationErrors, multi-errors): not comparable
type sliceErr []string

func (e sliceErr) Error() string { return fmt.Sprintf("c15: %d errors", len(e)) }

type structWithSlice struct {
	Code int
	Args []interface{}
}

type badError struct{ n int }

func (*badError) Error() string { panic("c15: Error() of the panic value panics") }

type badStringer struct{ n int }

func (*badStringer) String() string { panic("c15: String() of the panic value panics") }

var pvalNames = []string{"PString", "PErrorPtr", "PInt", "PErrStruct", "PNilDeref", "PIndex", "PNil", "PBadError",
	"PBadStringer", "PSliceErr", "PRawSlice", "PMap", "PStructSlice", "PFunc", "PArrOfSlice"}

// the panic values whose dynamic type is not comparable
var pvalUncomparable = map[string]bool{"PSliceErr": true, "PRawSlice": true, "PMap": true, "PStructSlice": true,
	"PFunc": true, "PArrOfSlice": true}

// kindName: "KOk", "KPanic" or the pval of a KPanicV
func kindName(k any) string {
	t := hx.AsTerm(k)
	if t.Name == "KPanicV" {
		return t.Term(0).Name
	}
	return t.Name
}

var panicSerial int

// doPanic panics the way `kind` says ("KPanic" = a string)
func doPanic(kind string) {
	panicSerial++
	n := panicSerial
	switch kind {
	case "KPanic", "PString":
		panic("c15: scripted closure panic")
	case "PErrorPtr":
		panic(errors.New("c15: scripted error"))
	case "PInt":
		panic(42)
	case "PErrStruct":
		panic(errStruct{7})
	case "PNilDeref":
		var p *structWithSlice
		panicSerial += p.Code // runtime error: invalid memory address or nil pointer dereference
	case "PIndex":
		var a []int
		panicSerial += a[n%3+1] // runtime error: index out of range
	case "PNil":
		panic(nil)
	case "PBadError":
		panic(&badError{n})
	case "PBadStringer":
		panic(&badStringer{n})
	case "PSliceErr":
		panic(sliceErr{"field a", "field b"})
	case "PRawSlice":
		panic([]int{1, 2, 3})
	case "PMap":
		panic(map[string]int{"a": 1})
	case "PStructSlice":
		panic(structWithSlice{Code: 3, Args: []interface{}{"x", 1}})
	case "PFunc":
		panic(func() {})
	case "PArrOfSlice":
		panic([1][]int{{1}})
	default:
		panic("c15: unknown panic kind " + kind)
	}
}
