package c15

import (
	"fmt"
	"math/rand"
	"sort"

	"verifh/hx"
)

func kind(r *rand.Rand, tags map[string]bool) string {
	if r.Intn(6) == 0 {
		tags["panic"] = true
		return "KPanic"
	}
	return "KOk"
}

func cbT(err bool, res ...int64) hx.Pair { return hx.Pair{A: err, B: hx.Norm(res)} }

func behT(il, lt []any, pan bool) hx.T { return hx.C("Beh", il, lt, pan) }

// the behaviour alphabet of the exhaustive chain enumeration; v makes the results distinct
func behAlphabet(v int64) []hx.T {
	return []hx.T{
		behT([]any{cbT(false, v, v+1)}, nil, false),               // sync ok
		behT([]any{cbT(true, -v)}, nil, false),                    // sync error
		behT(nil, []any{cbT(false, v+2)}, false),                  // completes later, ok
		behT(nil, []any{cbT(true, -v-2)}, false),                  // completes later, error
		behT(nil, nil, false),                                     // never
		behT([]any{cbT(false, v+3)}, nil, true),                   // ok, then panics
		behT([]any{cbT(false, v+4), cbT(false, v+5)}, nil, false), // calls back twice
	}
}

var behNames = []string{"sync-ok", "sync-err", "later-ok", "later-err", "never", "ok-then-panic", "twice"}

func randBeh(r *rand.Rand, v int64, allowTwice bool, tags map[string]bool) hx.T {
	res := func() []int64 {
		n := r.Intn(3)
		out := make([]int64, n)
		for i := range out {
			out[i] = v*10 + int64(i) + int64(r.Intn(3))
		}
		return out
	}
	p := r.Intn(100)
	switch {
	case p < 40:
		tags["sync-ok"] = true
		return behT([]any{hx.Pair{A: false, B: hx.Norm(res())}}, nil, false)
	case p < 52:
		tags["sync-err"] = true
		return behT([]any{hx.Pair{A: true, B: hx.Norm(res())}}, nil, false)
	case p < 75:
		tags["later-ok"] = true
		return behT(nil, []any{hx.Pair{A: false, B: hx.Norm(res())}}, false)
	case p < 82:
		tags["later-err"] = true
		return behT(nil, []any{hx.Pair{A: true, B: hx.Norm(res())}}, false)
	case p < 87:
		tags["never"] = true
		return behT(nil, nil, r.Intn(2) == 0)
	case p < 93:
		tags["ok-then-panic"] = true
		return behT([]any{hx.Pair{A: false, B: hx.Norm(res())}}, nil, true)
	default:
		if !allowTwice {
			tags["sync-ok"] = true
			return behT([]any{hx.Pair{A: false, B: hx.Norm(res())}}, nil, false)
		}
		tags["twice"] = true
		switch r.Intn(3) {
		case 0:
			return behT([]any{hx.Pair{A: false, B: hx.Norm(res())}, hx.Pair{A: r.Intn(2) == 0, B: hx.Norm(res())}}, nil, false)
		case 1:
			return behT([]any{hx.Pair{A: false, B: hx.Norm(res())}}, []any{hx.Pair{A: false, B: hx.Norm(res())}}, false)
		default:
			return behT(nil, []any{hx.Pair{A: false, B: hx.Norm(res())}, hx.Pair{A: true, B: hx.Norm(res())}}, false)
		}
	}
}

func randChain(r *rand.Rand, maxLen int, allowTwice bool, tags map[string]bool) []any {
	n := r.Intn(maxLen + 1)
	if n == 0 {
		tags["empty-chain"] = true
	}
	out := make([]any, n)
	for i := range out {
		out[i] = randBeh(r, int64(i+1), allowTwice, tags)
	}
	return out
}

// random scheduler script: posts from a few posters, consumer steps, sometimes a Stop
func genSched(r *rand.Rand, tags map[string]bool) []hx.T {
	n := 1 + r.Intn(40)
	np := int64(1 + r.Intn(4))
	var ops []hx.T
	stopAt := -1
	if r.Intn(5) == 0 {
		stopAt = r.Intn(n)
		tags["stop"] = true
	}
	for i := 0; i < n; i++ {
		if i == stopAt {
			ops = append(ops, hx.C("OStop"))
			continue
		}
		switch p := r.Intn(100); {
		case p < 50:
			ops = append(ops, hx.C("OPost", r.Int63n(np), kind(r, tags)))
		case p < 55:
			ops = append(ops, hx.C("OPostN", r.Int63n(np), int64(r.Intn(6))))
		default:
			ops = append(ops, hx.C("OStep"))
		}
	}
	return ops
}

// boundary script: fill the queue to around its capacity, then several posters run into the
// full queue, the consumer frees slots one at a time, optionally Stop while posters block
func genFull(r *rand.Rand, tags map[string]bool) []hx.T {
	tags["near-capacity"] = true
	fill := int64(capQ - 3 + r.Intn(6)) // 996 .. 1001
	ops := []hx.T{hx.C("OPostN", 0, fill)}
	np := int64(2 + r.Intn(3))
	n := 5 + r.Intn(25)
	stopAt := -1
	if r.Intn(3) == 0 {
		stopAt = 3 + r.Intn(n-3)
		tags["stop"] = true
	}
	for i := 0; i < n; i++ {
		if i == stopAt {
			ops = append(ops, hx.C("OStop"))
			continue
		}
		switch p := r.Intn(100); {
		case p < 55:
			ops = append(ops, hx.C("OPost", r.Int63n(np+1), kind(r, tags)))
		case p < 60:
			ops = append(ops, hx.C("OPostN", 1+r.Int63n(np), int64(2+r.Intn(4))))
		default:
			ops = append(ops, hx.C("OStep"))
		}
	}
	return ops
}

// the four ways of running a chain: waterfall.Sche, the Builder, Simple, ExecAndWait
var runnerOps = []string{"OChain", "OChainB", "OSimple", "OWait"}

// random chain script: chains, plain closures in between, steps, environment completions in
// generated orders (including before the task ran and twice), sometimes a Stop
func genChains(r *rand.Rand, tags map[string]bool) []hx.T {
	nch := 1 + r.Intn(3)
	var ops []hx.T
	type lk struct{ c, i int64 }
	var laters []lk
	for c := 0; c < nch; c++ {
		tasks := randChain(r, 5, r.Intn(4) == 0, tags)
		decl := runnerOps[r.Intn(len(runnerOps))]
		tags["runner-"+decl] = true
		ops = append(ops, hx.C(decl, int64(c), tasks))
		for i, t := range tasks {
			if len(t.(hx.T).Args[1].([]any)) > 0 {
				laters = append(laters, lk{int64(c), int64(i)})
			}
		}
		for k := r.Intn(3); k > 0; k-- {
			ops = append(ops, hx.C("OPost", int64(r.Intn(2)), kind(r, tags)))
		}
		if r.Intn(3) == 0 {
			ops = append(ops, hx.C("OStep"))
		}
	}
	n := 4 + r.Intn(30)
	stopAt := -1
	if r.Intn(8) == 0 {
		stopAt = r.Intn(n)
		tags["stop"] = true
	}
	for i := 0; i < n; i++ {
		if i == stopAt {
			ops = append(ops, hx.C("OStop"))
			continue
		}
		switch p := r.Intn(100); {
		case p < 55:
			ops = append(ops, hx.C("OStep"))
		case p < 85 && len(laters) > 0:
			l := laters[r.Intn(len(laters))]
			ops = append(ops, hx.C("OFire", l.c, l.i, int64(r.Intn(5)/4)))
		case p < 93:
			ops = append(ops, hx.C("OPost", int64(r.Intn(2)), kind(r, tags)))
		case p < 96:
			ops = append(ops, hx.C("OFire", int64(r.Intn(nch+1)), int64(r.Intn(6)), int64(0)))
		default:
			tags["registry"] = true
			if r.Intn(3) == 0 {
				ops = append(ops, hx.C("OMgrDel", int64(r.Intn(3))))
			} else {
				ops = append(ops, hx.C("OMgrGet", int64(r.Intn(3))))
			}
		}
	}
	// usually complete everything so that "exactly once" is exercised
	if r.Intn(4) > 0 {
		for round := 0; round < 6; round++ {
			for _, l := range laters {
				ops = append(ops, hx.C("OFire", l.c, l.i, int64(0)))
			}
			ops = append(ops, hx.C("OStep"), hx.C("OStep"))
		}
		tags["all-fired"] = true
	}
	return ops
}

func genConc(r *rand.Rand, mode int64, maxPosters, maxLen int, tags map[string]bool) []hx.T {
	np := 1 + r.Intn(maxPosters)
	progs := make([]any, np)
	for i := range progs {
		n := r.Intn(maxLen + 1)
		ks := make([]any, n)
		for j := range ks {
			ks[j] = "KOk"
			if mode < 2 && r.Intn(40) == 0 {
				ks[j] = "KPanic"
				tags["panic"] = true
			}
		}
		progs[i] = ks
	}
	return []hx.T{hx.C("OConc", mode, progs)}
}

func burst(mode int64, n int) []hx.T {
	return []hx.T{hx.C("OConcN", mode, 1, n)}
}

func genConcW(r *rand.Rand, mode int64, tags map[string]bool) []hx.T {
	n := 1 + r.Intn(6)
	chains := make([]any, n)
	for i := range chains {
		chains[i] = randChain(r, 6, false, tags)
	}
	return []hx.T{hx.C("OConcW", mode, chains)}
}

func genMalformed(r *rand.Rand, tags map[string]bool) []hx.T {
	tags["malformed"] = true
	switch r.Intn(5) {
	case 0:
		return []hx.T{hx.C("OPost", int64(nPosters+r.Intn(3)), "KOk"), hx.C("OStep")}
	case 1:
		return []hx.T{hx.C("OPostN", 0, int64(-1-r.Intn(3)))}
	case 2: // a chain script that could fill the queue: rejected by both sides
		return []hx.T{hx.C("OChain", 0, []any{behAlphabet(1)[0]}), hx.C("OPostN", 1, int64(capQ-100))}
	case 3:
		return []hx.T{hx.C("OConc", 2, []any{[]any{"KPanic"}})}
	default:
		return []hx.T{hx.C("OFire", int64(-1), 0, 0), hx.C("OStep")}
	}
}

// ---- exhaustive small scopes ----

func enumSched(L int, emit func([]hx.T)) {
	alpha := []hx.T{
		hx.C("OPost", 0, "KOk"), hx.C("OPost", 0, "KPanic"), hx.C("OPost", 1, "KOk"),
		hx.C("OStep"), hx.C("OStop"),
	}
	cur := make([]hx.T, L)
	var rec func(d int)
	rec = func(d int) {
		if d == L {
			emit(append([]hx.T{}, cur...))
			return
		}
		for _, a := range alpha {
			cur[d] = a
			rec(d + 1)
		}
	}
	rec(0)
}

// every chain of length L over the 7-behaviour alphabet, driven to completion: after each
// pair of consumer steps the environment completes every task (a no-op unless it is waiting)
func enumChains(L int, emit func([]hx.T, []string)) {
	idx := make([]int, L)
	var rec func(d int)
	rec = func(d int) {
		if d == L {
			tasks := make([]any, L)
			tg := map[string]bool{}
			for i, k := range idx {
				tasks[i] = behAlphabet(int64(10 * (i + 1)))[k]
				tg[behNames[k]] = true
			}
			for _, decl := range runnerOps {
				ops := []hx.T{hx.C(decl, 0, tasks), hx.C("OPost", 0, "KOk")}
				for round := 0; round <= L+1; round++ {
					ops = append(ops, hx.C("OStep"), hx.C("OStep"))
					for i := 0; i < L; i++ {
						ops = append(ops, hx.C("OFire", 0, int64(i), 0))
					}
				}
				tg["runner-"+decl] = true
				emit(ops, tagList(tg))
				delete(tg, "runner-"+decl)
			}
			return
		}
		for k := range behNames {
			idx[d] = k
			rec(d + 1)
		}
	}
	rec(0)
}

// every Get/Del sequence of length L over two names
func enumMgr(L int, emit func([]hx.T)) {
	alpha := []hx.T{hx.C("OMgrGet", 0), hx.C("OMgrGet", 1), hx.C("OMgrDel", 0), hx.C("OMgrDel", 1)}
	cur := make([]hx.T, L)
	var rec func(d int)
	rec = func(d int) {
		if d == L {
			emit(append([]hx.T{}, cur...))
			return
		}
		for _, a := range alpha {
			cur[d] = a
			rec(d + 1)
		}
	}
	rec(0)
}

func tagList(m map[string]bool) []string {
	var tl []string
	for t := range m {
		tl = append(tl, t)
	}
	sort.Strings(tl)
	return tl
}

func Run(cfg *hx.Config) error {
	emit := func(kind string, ops []hx.T, tags map[string]bool) {
		if tags == nil {
			tags = map[string]bool{}
		}
		obs, nt := Exec(ops, tags)
		cfg.Emit(hx.Case{Kind: kind, Ops: ops, Obs: obs, Nontrivial: nt, Tags: tagList(tags)})
	}
	if cfg.In != "" {
		cs, err := hx.ReadCases(cfg.In)
		if err != nil {
			return err
		}
		for _, c := range cs {
			tg := map[string]bool{}
			for _, t := range c.Tags {
				tg[t] = true
			}
			emit("replay", hx.Terms(c.Ops), tg)
		}
		return nil
	}
	r := cfg.Rng
	thorough := cfg.Tier == "thorough"
	depth, cdepth := 3, 2
	if thorough {
		depth, cdepth = 5, 3
	}
	for L := 0; L <= depth; L++ {
		enumSched(L, func(ops []hx.T) { emit(fmt.Sprintf("exhaustive-sched-%d", L), ops, nil) })
	}
	for L := 0; L <= cdepth; L++ {
		enumChains(L, func(ops []hx.T, tl []string) {
			tg := map[string]bool{}
			for _, t := range tl {
				tg[t] = true
			}
			emit(fmt.Sprintf("exhaustive-chain-%d", L), ops, tg)
		})
	}
	mdepth := 3
	if thorough {
		mdepth = 5
	}
	for L := 1; L <= mdepth; L++ {
		enumMgr(L, func(ops []hx.T) {
			emit(fmt.Sprintf("exhaustive-registry-%d", L), ops, map[string]bool{"registry": true})
		})
	}
	// deterministic burst: consumer gated, one goroutine posts capacity+200 closures
	emit("burst", burst(1, capQ+200), map[string]bool{"burst": true})
	emit("burst", burst(3, capQ+200), map[string]bool{"burst": true})
	// the registry under concurrency (service creation racing with lookups by name)
	regTrials := 400
	if thorough {
		regTrials = 4000
	}
	emit("registry-race", []hx.T{hx.C("OConcReg", regTrials, 8)}, nil)
	// RunService with slow closures (heavy-frame accounting) and detailed perf logging
	emit("runservice-slow", []hx.T{hx.C("OConcN", 4, 3, 40)}, map[string]bool{"slow-closures": true})
	nFull, nConc, nBig := 12, 40, 1
	if thorough {
		nFull, nConc, nBig = 120, 400, 3
	}
	for i := 0; i < nFull; i++ {
		tg := map[string]bool{}
		emit("near-capacity", genFull(r, tg), tg)
	}
	for i := 0; i < nConc; i++ {
		tg := map[string]bool{}
		emit("concurrent-posters", genConc(r, int64(i%4), 8, 60, tg), tg)
		tg = map[string]bool{}
		emit("concurrent-chains", genConcW(r, int64(i%2), tg), tg)
	}
	for i := 0; i < nBig; i++ {
		// several goroutines x many closures, beyond the capacity, on every consumer loop
		per := 400
		if thorough {
			per = 2000
		}
		for mode := int64(0); mode < 4; mode++ {
			tg := map[string]bool{"many-posters": true}
			emit("concurrent-posters-big", []hx.T{hx.C("OConcN", mode, 8, per)}, tg)
		}
	}
	for i := 0; i < cfg.N; i++ {
		tg := map[string]bool{}
		switch {
		case i%25 == 24:
			emit("malformed", genMalformed(r, tg), tg)
		case i%2 == 0:
			emit("random-sched", genSched(r, tg), tg)
		default:
			emit("random-chains", genChains(r, tg), tg)
		}
	}
	return nil
}
