package c15

import (
	"fmt"
	"math/rand"
	"sort"

	"verifh/hx"
)

func kind(r *rand.Rand, tags map[string]bool) any {
	if r.Intn(6) == 0 {
		tags["panic"] = true
		return panicKind(r, tags)
	}
	return "KOk"
}

func kpv(v string) hx.T { return hx.C("KPanicV", v) }

// a panicking closure: a string, or one of the panic values - a script keeps coming back to
// the few values it started with, so that the same dynamic type panics again and again
func panicKind(r *rand.Rand, tags map[string]bool) any {
	if r.Intn(3) == 0 {
		return "KPanic"
	}
	tags["panic-value"] = true
	fav := pvalNames[(r.Intn(3)*7+len(tags))%len(pvalNames)]
	if r.Intn(3) > 0 {
		return kpv(fav)
	}
	return kpv(pvalNames[r.Intn(len(pvalNames))])
}

// every ordered pair of panic values (the plain string included), scripted: the closures that
// panic come from one or two posters, closures that return sit between and behind them
func enumPanicPairs(emit func([]hx.T)) {
	all := []any{"KPanic"}
	for _, v := range pvalNames {
		all = append(all, kpv(v))
	}
	for i, a := range all {
		for j, b := range all {
			p2 := int64((i + j) % 2)
			emit([]hx.T{hx.C("OPost", 0, a), hx.C("OPost", 0, "KOk"), hx.C("OPost", p2, b), hx.C("OPost", 1, "KOk"),
				hx.C("OStep"), hx.C("OStep"), hx.C("OPost", p2, "KOk")})
		}
	}
}

// a program for one poster: panics with the given values, a returning closure after each
func panicProg(vals ...any) []any {
	var ks []any
	for _, v := range vals {
		ks = append(ks, v, "KOk")
	}
	return ks
}

func cbT(err bool, res ...int64) hx.Pair { return hx.Pair{A: err, B: hx.Norm(res)} }

func behT(il, lt []any, pan bool) hx.T { return hx.C("Beh", il, lt, pan) }

// the behaviour alphabet of the exhaustive chain enumeration; v makes the results distinct
func behAlphabet(v int64) []hx.T {
	return []hx.T{
		behT([]any{cbT(false, v, v+1)}, nil, false),               // sync ok
		behT([]any{cbT(true, -v)}, nil, false),                    // sync error
		behT(nil, []any{cbT(false, v+2)}, false),                  // completes later, ok
		behT(nil, []any{cbT(true, -v-2)}, false),                  // completes later, error
		behT(nil, nil, false),                                     // never
		behT([]any{cbT(false, v+3)}, nil, true),                   // ok, then panics
		behT([]any{cbT(false, v+4), cbT(false, v+5)}, nil, false), // calls back twice
	}
}

var behNames = []string{"sync-ok", "sync-err", "later-ok", "later-err", "never", "ok-then-panic", "twice"}

func randBeh(r *rand.Rand, v int64, allowTwice bool, tags map[string]bool) hx.T {
	res := func() []int64 {
		n := r.Intn(3)
		out := make([]int64, n)
		for i := range out {
			out[i] = v*10 + int64(i) + int64(r.Intn(3))
		}
		return out
	}
	p := r.Intn(100)
	switch {
	case p < 40:
		tags["sync-ok"] = true
		return behT([]any{hx.Pair{A: false, B: hx.Norm(res())}}, nil, false)
	case p < 52:
		tags["sync-err"] = true
		return behT([]any{hx.Pair{A: true, B: hx.Norm(res())}}, nil, false)
	case p < 75:
		tags["later-ok"] = true
		return behT(nil, []any{hx.Pair{A: false, B: hx.Norm(res())}}, false)
	case p < 82:
		tags["later-err"] = true
		return behT(nil, []any{hx.Pair{A: true, B: hx.Norm(res())}}, false)
	case p < 87:
		tags["never"] = true
		return behT(nil, nil, r.Intn(2) == 0)
	case p < 93:
		tags["ok-then-panic"] = true
		return behT([]any{hx.Pair{A: false, B: hx.Norm(res())}}, nil, true)
	default:
		if !allowTwice {
			tags["sync-ok"] = true
			return behT([]any{hx.Pair{A: false, B: hx.Norm(res())}}, nil, false)
		}
		tags["twice"] = true
		switch r.Intn(3) {
		case 0:
			return behT([]any{hx.Pair{A: false, B: hx.Norm(res())}, hx.Pair{A: r.Intn(2) == 0, B: hx.Norm(res())}}, nil, false)
		case 1:
			return behT([]any{hx.Pair{A: false, B: hx.Norm(res())}}, []any{hx.Pair{A: false, B: hx.Norm(res())}}, false)
		default:
			return behT(nil, []any{hx.Pair{A: false, B: hx.Norm(res())}, hx.Pair{A: true, B: hx.Norm(res())}}, false)
		}
	}
}

func randChain(r *rand.Rand, maxLen int, allowTwice bool, tags map[string]bool) []any {
	n := r.Intn(maxLen + 1)
	if n == 0 {
		tags["empty-chain"] = true
	}
	out := make([]any, n)
	for i := range out {
		out[i] = randBeh(r, int64(i+1), allowTwice, tags)
	}
	return out
}

// random scheduler script: posts from a few posters, consumer steps, sometimes a Stop
func genSched(r *rand.Rand, tags map[string]bool) []hx.T {
	n := 1 + r.Intn(40)
	np := int64(1 + r.Intn(4))
	var ops []hx.T
	stopAt := -1
	if r.Intn(5) == 0 {
		stopAt = r.Intn(n)
		tags["stop"] = true
	}
	for i := 0; i < n; i++ {
		if i == stopAt {
			ops = append(ops, hx.C("OStop"))
			continue
		}
		switch p := r.Intn(100); {
		case p < 50:
			ops = append(ops, hx.C("OPost", r.Int63n(np), kind(r, tags)))
		case p < 55:
			ops = append(ops, hx.C("OPostN", r.Int63n(np), int64(r.Intn(6))))
		default:
			ops = append(ops, hx.C("OStep"))
		}
	}
	return ops
}

// boundary script: fill the queue to around its capacity, then several posters run into the
// full queue, the consumer frees slots one at a time, optionally Stop while posters block
func genFull(r *rand.Rand, tags map[string]bool) []hx.T {
	tags["near-capacity"] = true
	fill := int64(capQ - 3 + r.Intn(6)) // 996 .. 1001
	ops := []hx.T{hx.C("OPostN", 0, fill)}
	np := int64(2 + r.Intn(3))
	n := 5 + r.Intn(25)
	stopAt := -1
	if r.Intn(3) == 0 {
		stopAt = 3 + r.Intn(n-3)
		tags["stop"] = true
	}
	for i := 0; i < n; i++ {
		if i == stopAt {
			ops = append(ops, hx.C("OStop"))
			continue
		}
		switch p := r.Intn(100); {
		case p < 55:
			ops = append(ops, hx.C("OPost", r.Int63n(np+1), kind(r, tags)))
		case p < 60:
			ops = append(ops, hx.C("OPostN", 1+r.Int63n(np), int64(2+r.Intn(4))))
		default:
			ops = append(ops, hx.C("OStep"))
		}
	}
	return ops
}

// the four ways of running a chain: waterfall.Sche, the Builder, Simple, ExecAndWait
var runnerOps = []string{"OChain", "OChainB", "OSimple", "OWait"}

// random chain script: chains, plain closures in between, steps, environment completions in
// generated orders (including before the task ran and twice), sometimes a Stop
func genChains(r *rand.Rand, tags map[string]bool) []hx.T {
	nch := 1 + r.Intn(3)
	var ops []hx.T
	type lk struct{ c, i int64 }
	var laters []lk
	for c := 0; c < nch; c++ {
		if r.Intn(4) == 0 {
			ops = append(ops, hx.C("OTaskPanics", pvalNames[r.Intn(len(pvalNames))]))
		}
		tasks := randChain(r, 5, r.Intn(4) == 0, tags)
		decl := runnerOps[r.Intn(len(runnerOps))]
		tags["runner-"+decl] = true
		ops = append(ops, hx.C(decl, int64(c), tasks))
		for i, t := range tasks {
			if len(t.(hx.T).Args[1].([]any)) > 0 {
				laters = append(laters, lk{int64(c), int64(i)})
			}
		}
		for k := r.Intn(3); k > 0; k-- {
			ops = append(ops, hx.C("OPost", int64(r.Intn(2)), kind(r, tags)))
		}
		if r.Intn(3) == 0 {
			ops = append(ops, hx.C("OStep"))
		}
	}
	n := 4 + r.Intn(30)
	stopAt := -1
	if r.Intn(8) == 0 {
		stopAt = r.Intn(n)
		tags["stop"] = true
	}
	for i := 0; i < n; i++ {
		if i == stopAt {
			ops = append(ops, hx.C("OStop"))
			continue
		}
		switch p := r.Intn(100); {
		case p < 55:
			ops = append(ops, hx.C("OStep"))
		case p < 85 && len(laters) > 0:
			l := laters[r.Intn(len(laters))]
			ops = append(ops, hx.C("OFire", l.c, l.i, int64(r.Intn(5)/4)))
		case p < 93:
			ops = append(ops, hx.C("OPost", int64(r.Intn(2)), kind(r, tags)))
		case p < 96:
			ops = append(ops, hx.C("OFire", int64(r.Intn(nch+1)), int64(r.Intn(6)), int64(0)))
		default:
			tags["registry"] = true
			if r.Intn(3) == 0 {
				ops = append(ops, hx.C("OMgrDel", int64(r.Intn(3))))
			} else {
				ops = append(ops, hx.C("OMgrGet", int64(r.Intn(3))))
			}
		}
	}
	// usually complete everything so that "exactly once" is exercised
	if r.Intn(4) > 0 {
		for round := 0; round < 6; round++ {
			for _, l := range laters {
				ops = append(ops, hx.C("OFire", l.c, l.i, int64(0)))
			}
			ops = append(ops, hx.C("OStep"), hx.C("OStep"))
		}
		tags["all-fired"] = true
	}
	return ops
}

func genConc(r *rand.Rand, mode int64, maxPosters, maxLen int, tags map[string]bool) []hx.T {
	np := 1 + r.Intn(maxPosters)
	progs := make([]any, np)
	for i := range progs {
		n := r.Intn(maxLen + 1)
		ks := make([]any, n)
		for j := range ks {
			ks[j] = "KOk"
			if (mode < 2 || mode == 5) && r.Intn(40) == 0 {
				ks[j] = panicKind(r, tags)
				tags["panic"] = true
			}
		}
		progs[i] = ks
	}
	return []hx.T{hx.C("OConc", mode, progs)}
}

func burst(mode int64, n int) []hx.T {
	return []hx.T{hx.C("OConcN", mode, 1, n)}
}

func genConcW(r *rand.Rand, mode int64, tags map[string]bool) []hx.T {
	n := 1 + r.Intn(6)
	chains := make([]any, n)
	for i := range chains {
		chains[i] = randChain(r, 6, false, tags)
	}
	return []hx.T{hx.C("OConcW", mode, chains)}
}

func genMalformed(r *rand.Rand, tags map[string]bool) []hx.T {
	tags["malformed"] = true
	switch r.Intn(10) {
	case 5:
		return []hx.T{hx.C("OSetId", two32+int64(r.Intn(3))), hx.C("OPost", 0, "KOk"), hx.C("OStep")}
	case 6:
		return []hx.T{hx.C("OSetId", int64(-1)), hx.C("OPost", 0, "KOk")}
	case 7: // ids of scripted tasks are not determined next to a concurrent block
		return []hx.T{hx.C("OSetId", two32-2), hx.C("OPost", 0, "KOk"), hx.C("OConcN", 0, 2, 3), hx.C("OStep")}
	case 8:
		return []hx.T{hx.C("OList", 0, []any{behAlphabet(1)[0]}), hx.C("OShare", 0, 0, int64(4+r.Intn(2)))}
	case 4:
		return []hx.T{hx.C("OConcStop", int64(1+2*r.Intn(2)), 0, 3, 1)}
	case 9: // a task of a concurrent shared block that never completes
		return []hx.T{hx.C("OConcS", 0, 2, 2, []any{behAlphabet(1)[4]})}
	case 0:
		return []hx.T{hx.C("OPost", int64(nPosters+r.Intn(3)), "KOk"), hx.C("OStep")}
	case 1:
		return []hx.T{hx.C("OPostN", 0, int64(-1-r.Intn(3)))}
	case 2: // a chain script that could fill the queue: rejected by both sides
		return []hx.T{hx.C("OChain", 0, []any{behAlphabet(1)[0]}), hx.C("OPostN", 1, int64(capQ-100))}
	case 3:
		return []hx.T{hx.C("OConc", 2, []any{[]any{"KPanic"}})}
	default:
		return []hx.T{hx.C("OFire", int64(-1), 0, 0), hx.C("OStep")}
	}
}

// ---- exhaustive small scopes ----

func enumSched(L int, emit func([]hx.T)) {
	alpha := []hx.T{
		hx.C("OPost", 0, "KOk"), hx.C("OPost", 0, "KPanic"), hx.C("OPost", 1, "KOk"),
		hx.C("OStep"), hx.C("OStop"),
	}
	cur := make([]hx.T, L)
	var rec func(d int)
	rec = func(d int) {
		if d == L {
			emit(append([]hx.T{}, cur...))
			return
		}
		for _, a := range alpha {
			cur[d] = a
			rec(d + 1)
		}
	}
	rec(0)
}

// every chain of length L over the 7-behaviour alphabet, driven to completion: after each
// pair of consumer steps the environment completes every task (a no-op unless it is waiting)
func enumChains(L int, emit func([]hx.T, []string)) {
	idx := make([]int, L)
	var rec func(d int)
	rec = func(d int) {
		if d == L {
			tasks := make([]any, L)
			tg := map[string]bool{}
			for i, k := range idx {
				tasks[i] = behAlphabet(int64(10 * (i + 1)))[k]
				tg[behNames[k]] = true
			}
			for _, decl := range runnerOps {
				ops := []hx.T{hx.C(decl, 0, tasks), hx.C("OPost", 0, "KOk")}
				for round := 0; round <= L+1; round++ {
					ops = append(ops, hx.C("OStep"), hx.C("OStep"))
					for i := 0; i < L; i++ {
						ops = append(ops, hx.C("OFire", 0, int64(i), 0))
					}
				}
				tg["runner-"+decl] = true
				emit(ops, tagList(tg))
				delete(tg, "runner-"+decl)
			}
			return
		}
		for k := range behNames {
			idx[d] = k
			rec(d + 1)
		}
	}
	rec(0)
}

// every Get/Del sequence of length L over two names
func enumMgr(L int, emit func([]hx.T)) {
	alpha := []hx.T{hx.C("OMgrGet", 0), hx.C("OMgrGet", 1), hx.C("OMgrDel", 0), hx.C("OMgrDel", 1)}
	cur := make([]hx.T, L)
	var rec func(d int)
	rec = func(d int) {
		if d == L {
			emit(append([]hx.T{}, cur...))
			return
		}
		for _, a := range alpha {
			cur[d] = a
			rec(d + 1)
		}
	}
	rec(0)
}

const two32 = int64(1) << 32

func countPosts(ops []hx.T) int {
	n := 0
	for _, o := range ops {
		switch o.Name {
		case "OPost":
			n++
		case "OPostN":
			n += int(o.Int(1))
		}
	}
	return n
}

// withId puts "the counter is j Posts before the wrap" in front: the j-th Post gets id 0
func withId(j int64, ops []hx.T) []hx.T {
	return append([]hx.T{hx.C("OSetId", (two32-j)%two32)}, ops...)
}

// a task that completes exactly once and returns (OConcS blocks)
func settlingBeh(r *rand.Rand, v int64, tags map[string]bool) hx.T {
	res := []int64{v, v + int64(r.Intn(3))}[:1+r.Intn(2)]
	switch p := r.Intn(100); {
	case p < 45:
		tags["sync-ok"] = true
		return behT([]any{hx.Pair{A: false, B: hx.Norm(res)}}, nil, false)
	case p < 55:
		tags["sync-err"] = true
		return behT([]any{hx.Pair{A: true, B: hx.Norm(res)}}, nil, false)
	case p < 90:
		tags["later-ok"] = true
		return behT(nil, []any{hx.Pair{A: false, B: hx.Norm(res)}}, false)
	default:
		tags["later-err"] = true
		return behT(nil, []any{hx.Pair{A: true, B: hx.Norm(res)}}, false)
	}
}

func genConcS(r *rand.Rand, mode int64, tags map[string]bool) []hx.T {
	n := r.Intn(6)
	tasks := make([]any, n)
	for i := range tasks {
		tasks[i] = settlingBeh(r, int64(10*(i+1)), tags)
	}
	tags["shared-list"] = true
	return []hx.T{hx.C("OConcS", mode, int64(1+r.Intn(4)), int64(1+r.Intn(6)), tasks)}
}

// drive every chain in cs (all over a list of L tasks) to completion: consumer steps, then the
// environment completes every task of every chain (a no-op unless it is waiting)
func driveShared(ops []hx.T, cs []int64, L int) []hx.T {
	for round := 0; round <= L+1; round++ {
		for range cs {
			ops = append(ops, hx.C("OStep"), hx.C("OStep"))
		}
		for _, c := range cs {
			for i := 0; i < L; i++ {
				ops = append(ops, hx.C("OFire", c, int64(i), 0))
			}
		}
	}
	return ops
}

var sharedPairs = [][2]int64{{2, 2}, {3, 3}, {2, 0}, {0, 2}, {3, 0}, {0, 3}, {2, 3}, {3, 2}, {1, 2}, {3, 1}}

// every task list of length L over the 7-behaviour alphabet, defined ONCE and used for several
// chains: one after the other (the second starts when the first is done) and overlapped (both
// started, then driven together), under the same and under different runners
func enumShared(L int, emit func(string, []hx.T, []string)) {
	idx := make([]int, L)
	serial := 0
	var rec func(d int)
	rec = func(d int) {
		if d == L {
			tasks := make([]any, L)
			tg := map[string]bool{"shared-list": true}
			for i, k := range idx {
				tasks[i] = behAlphabet(int64(10 * (i + 1)))[k]
				tg[behNames[k]] = true
			}
			decl := hx.C("OList", 0, tasks)
			seq := func(ra, rb int64) []hx.T {
				ops := []hx.T{decl, hx.C("OShare", 0, 0, ra), hx.C("OPost", 0, "KOk")}
				ops = driveShared(ops, []int64{0}, L)
				ops = append(ops, hx.C("OShare", 1, 0, rb))
				ops = driveShared(ops, []int64{1}, L)
				ops = append(ops, hx.C("OShare", 2, 0, ra))
				return driveShared(ops, []int64{2}, L)
			}
			over := func(ra, rb int64) []hx.T {
				ops := []hx.T{decl, hx.C("OShare", 0, 0, ra), hx.C("OShare", 1, 0, rb), hx.C("OPost", 0, "KOk")}
				return driveShared(ops, []int64{0, 1}, L)
			}
			pr := sharedPairs[serial%len(sharedPairs)]
			serial++
			emit("sequential", seq(0, 0), tagList(tg))
			emit("sequential", seq(1, 1), tagList(tg))
			emit("sequential", seq(pr[0], pr[1]), tagList(tg))
			emit("overlapped", over(0, 0), tagList(tg))
			emit("overlapped", over(1, 0), tagList(tg))
			return
		}
		for k := range behNames {
			idx[d] = k
			rec(d + 1)
		}
	}
	rec(0)
}

// random script over shared task lists: 1-2 lists, 2-5 chains under random runners started at
// random moments, steps / completions / plain closures in between, usually completed at the end
func genShared(r *rand.Rand, tags map[string]bool) []hx.T {
	tags["shared-list"] = true
	nl := 1 + r.Intn(2)
	lists := make([][]any, nl)
	var ops []hx.T
	for l := range lists {
		lists[l] = randChain(r, 4, r.Intn(6) == 0, tags)
		ops = append(ops, hx.C("OList", int64(l), lists[l]))
	}
	nch := 2 + r.Intn(4)
	type lk struct{ c, i int64 }
	var laters []lk
	started := 0
	start := func() {
		l := r.Intn(nl)
		c := int64(started)
		started++
		k := int64(r.Intn(4))
		if r.Intn(2) == 0 {
			k = int64(r.Intn(2)) // mostly the scheduler variants
		}
		ops = append(ops, hx.C("OShare", c, int64(l), k))
		for i, t := range lists[l] {
			if len(t.(hx.T).Args[1].([]any)) > 0 {
				laters = append(laters, lk{c, int64(i)})
			}
		}
	}
	start()
	n := 6 + r.Intn(40)
	stopAt := -1
	if r.Intn(10) == 0 {
		stopAt = r.Intn(n)
		tags["stop"] = true
	}
	for i := 0; i < n; i++ {
		if i == stopAt {
			ops = append(ops, hx.C("OStop"))
			continue
		}
		switch p := r.Intn(100); {
		case p < 50:
			ops = append(ops, hx.C("OStep"))
		case p < 75 && len(laters) > 0:
			l := laters[r.Intn(len(laters))]
			ops = append(ops, hx.C("OFire", l.c, l.i, int64(r.Intn(5)/4)))
		case p < 88 && started < nch:
			start()
		case p < 94:
			ops = append(ops, hx.C("OPost", int64(r.Intn(2)), kind(r, tags)))
		case p < 97:
			// a chain over a list of its own in between: it must not be disturbed either
			ops = append(ops, hx.C("OChain", int64(100+i), randChain(r, 3, false, tags)))
		default:
			ops = append(ops, hx.C("OShare", int64(r.Intn(nch)), int64(r.Intn(nl+1)), int64(r.Intn(4))))
		}
	}
	for started < nch {
		start()
	}
	if r.Intn(5) > 0 {
		for round := 0; round < 7; round++ {
			for _, l := range laters {
				ops = append(ops, hx.C("OFire", l.c, l.i, int64(0)))
			}
			for c := 0; c < nch; c++ {
				ops = append(ops, hx.C("OStep"))
			}
		}
		tags["all-fired"] = true
	}
	return ops
}

// put an OSetId somewhere into a random script: mostly a few Posts before the wrap, sometimes 0
func injectId(r *rand.Rand, ops []hx.T, tags map[string]bool) []hx.T {
	tags["id-tracked"] = true
	v := two32 - 1 - int64(r.Intn(24))
	switch r.Intn(8) {
	case 0:
		v = 0
	case 1:
		v = int64(r.Intn(5))
	}
	at := 0
	if r.Intn(3) == 0 {
		at = r.Intn(len(ops) + 1)
	}
	out := append([]hx.T{}, ops[:at]...)
	out = append(out, hx.C("OSetId", v))
	return append(out, ops[at:]...)
}

func tagList(m map[string]bool) []string {
	var tl []string
	for t := range m {
		tl = append(tl, t)
	}
	sort.Strings(tl)
	return tl
}

func Run(cfg *hx.Config) error {
	emit := func(kind string, ops []hx.T, tags map[string]bool) {
		if tags == nil {
			tags = map[string]bool{}
		}
		obs, nt := Exec(ops, tags)
		cfg.Emit(hx.Case{Kind: kind, Ops: ops, Obs: obs, Nontrivial: nt, Tags: tagList(tags)})
	}
	if cfg.In != "" {
		cs, err := hx.ReadCases(cfg.In)
		if err != nil {
			return err
		}
		for _, c := range cs {
			tg := map[string]bool{}
			for _, t := range c.Tags {
				tg[t] = true
			}
			emit("replay", hx.Terms(c.Ops), tg)
		}
		return nil
	}
	r := cfg.Rng
	thorough := cfg.Tier == "thorough"
	depth, cdepth := 3, 2
	if thorough {
		depth, cdepth = 5, 3
	}
	for L := 0; L <= depth; L++ {
		enumSched(L, func(ops []hx.T) { emit(fmt.Sprintf("exhaustive-sched-%d", L), ops, nil) })
	}
	for L := 0; L <= cdepth; L++ {
		enumChains(L, func(ops []hx.T, tl []string) {
			tg := map[string]bool{}
			for _, t := range tl {
				tg[t] = true
			}
			emit(fmt.Sprintf("exhaustive-chain-%d", L), ops, tg)
		})
	}
	mdepth := 3
	if thorough {
		mdepth = 5
	}
	for L := 1; L <= mdepth; L++ {
		enumMgr(L, func(ops []hx.T) {
			emit(fmt.Sprintf("exhaustive-registry-%d", L), ops, map[string]bool{"registry": true})
		})
	}
	// ---- panic values: what a closure / a waterfall task panics with
	enumPanicPairs(func(ops []hx.T) {
		emit("exhaustive-panic-pairs", ops, map[string]bool{"panic": true, "panic-value": true})
	})
	for _, mode := range []int64{0, 1, 5} {
		// the real consumer loops: the same value twice, three times with a different one in between,
		// and a run through all values
		for _, v := range pvalNames {
			other := pvalNames[(len(v)*5)%len(pvalNames)]
			emit("consumer-loop-panics", []hx.T{hx.C("OConc", mode, []any{panicProg(kpv(v), kpv(v))})},
				map[string]bool{"panic": true, "panic-value": true})
			emit("consumer-loop-panics", []hx.T{hx.C("OConc", mode, []any{panicProg(kpv(v), kpv(other), kpv(v), kpv(v)), panicProg("KPanic")})},
				map[string]bool{"panic": true, "panic-value": true})
		}
		var allv []any
		for _, v := range pvalNames {
			allv = append(allv, kpv(v), kpv(v))
		}
		emit("consumer-loop-panics", []hx.T{hx.C("OConc", mode, []any{panicProg(allv...), panicProg(allv...)})},
			map[string]bool{"panic": true, "panic-value": true})
	}
	okPan := func(v int64) hx.T { return behT([]any{cbT(false, v)}, nil, true) } // completes, then panics
	for vi, v := range pvalNames {
		// waterfall tasks panicking with it, twice in one chain and in two chains, under every runner
		// (Sche / Builder: recovered by the scheduler; Simple / ExecAndWait: reaches the caller)
		for ri, decl := range runnerOps {
			tasks := []any{okPan(1), okPan(2), behAlphabet(30)[0]}
			ops := []hx.T{hx.C("OTaskPanics", v), hx.C(decl, 0, tasks), hx.C(runnerOps[(ri+vi)%2], 1, tasks), hx.C("OPost", 0, kpv(v)), hx.C("OPost", 0, "KOk")}
			for i := 0; i < 8; i++ {
				ops = append(ops, hx.C("OStep"))
			}
			emit("task-panic-values", ops, map[string]bool{"panic": true, "panic-value": true, "runner-" + decl: true})
		}
		emit("task-panic-values", []hx.T{hx.C("OTaskPanics", v), hx.C("OList", 0, []any{okPan(1), okPan(2)}),
			hx.C("OShare", 0, 0, 0), hx.C("OShare", 1, 0, 1), hx.C("OStep"), hx.C("OStep"), hx.C("OStep"), hx.C("OStep"), hx.C("OStep"), hx.C("OStep")},
			map[string]bool{"panic": true, "panic-value": true, "shared-list": true})
		tg := map[string]bool{"panic": true, "panic-value": true}
		emit("task-panic-values", []hx.T{hx.C("OTaskPanics", v), hx.C("OConcW", int64(vi%2), []any{
			[]any{okPan(1), okPan(2), behAlphabet(30)[2]}, []any{okPan(5), behAlphabet(40)[0], okPan(6)}})}, tg)
	}
	// ---- teardown: Stop with closures queued, by a foreign goroutine / by a closure of the consumer
	for _, mode := range []int64{0, 2, 5} {
		for who := int64(0); who < 2; who++ {
			for _, n := range []int64{0, 1, 3, 40, 900} {
				emit("stop-with-queued", []hx.T{hx.C("OConcStop", mode, who, n, n%3)}, nil)
			}
			emit("stop-with-queued", []hx.T{hx.C("OConcStop", mode, who, int64(2+r.Intn(200)), int64(r.Intn(5)))}, nil)
			emit("stop-with-queued", withId(int64(2+who), []hx.T{hx.C("OConcStop", mode, who, 6, 2)}), map[string]bool{"id-tracked": true})
		}
	}
	// ---- shared task lists
	for L := 0; L <= cdepth; L++ {
		enumShared(L, func(how string, ops []hx.T, tl []string) {
			tg := map[string]bool{"shared-" + how: true}
			for _, t := range tl {
				tg[t] = true
			}
			emit(fmt.Sprintf("exhaustive-shared-%d", L), ops, tg)
		})
	}
	// ---- task ids: the process-wide counter positioned so that the j-th Post of the script
	// gets id 0 (the uint32 wrap), for every j, and at 0
	idDepth := 3
	if thorough {
		idDepth = 4
	}
	for L := 1; L <= idDepth; L++ {
		enumSched(L, func(ops []hx.T) {
			for j := 1; j <= countPosts(ops); j++ {
				emit(fmt.Sprintf("exhaustive-sched-idwrap-%d", L), withId(int64(j), ops), map[string]bool{"id-tracked": true})
			}
		})
	}
	serial := 0
	for L := 0; L <= cdepth; L++ {
		enumChains(L, func(ops []hx.T, tl []string) {
			// only the runners that post to the scheduler; every Post of the script in turn gets id 0
			// (quick: the two runners alternate)
			if ops[0].Name != "OChain" && ops[0].Name != "OChainB" {
				return
			}
			serial++
			if !thorough && (ops[0].Name == "OChain") != (serial/2%2 == 0) {
				return
			}
			for j := 1; j <= L+2; j++ {
				tg := map[string]bool{"id-tracked": true}
				for _, t := range tl {
					tg[t] = true
				}
				emit(fmt.Sprintf("exhaustive-chain-idwrap-%d", L), withId(int64(j), ops), tg)
			}
		})
	}
	emit("id-at-zero", []hx.T{hx.C("OSetId", 0), hx.C("OPostN", 0, 5), hx.C("OStep"), hx.C("OSetId", two32-1), hx.C("OPostN", 1, 3)},
		map[string]bool{"id-tracked": true})
	for mode := int64(0); mode < 4; mode++ {
		// one poster, every position of the wrap (the gated modes post their gate closure first)
		for j := int64(1); j <= 5; j++ {
			emit("concurrent-posters-idwrap", withId(j, []hx.T{hx.C("OConc", mode, []any{[]any{"KOk", "KOk", "KOk", "KOk"}})}),
				map[string]bool{"id-tracked": true})
		}
	}
	for mode := int64(0); mode < 4; mode++ {
		for _, off := range []int64{1, 8, 200} {
			// concurrent posters on every consumer loop, the wrap falls among their Posts
			emit("concurrent-posters-idwrap", withId(off, []hx.T{hx.C("OConcN", mode, 8, 50)}), map[string]bool{"id-tracked": true})
		}
		tg := map[string]bool{"id-tracked": true}
		emit("concurrent-posters-idwrap", withId(3, genConc(r, mode, 6, 30, tg)), tg)
		emit("burst-idwrap", withId(capQ+1+mode, burst(mode, capQ+200)), map[string]bool{"id-tracked": true, "burst": true})
	}
	for i := 0; i < 6; i++ {
		tg := map[string]bool{"id-tracked": true}
		emit("concurrent-chains-idwrap", withId(int64(1+i), genConcW(r, int64(i%2), tg)), tg)
		tg = map[string]bool{"id-tracked": true}
		emit("shared-concurrent-idwrap", withId(int64(1+2*i), genConcS(r, int64(i%2), tg)), tg)
	}
	emit("registry-race-idwrap", withId(100, []hx.T{hx.C("OConcReg", 40, 8)}), map[string]bool{"id-tracked": true})
	nShared := 10
	if thorough {
		nShared = 100
	}
	for i := 0; i < nShared; i++ {
		tg := map[string]bool{}
		emit("shared-concurrent", genConcS(r, int64(i%2), tg), tg)
	}
	// deterministic burst: consumer gated, one goroutine posts capacity+200 closures
	emit("burst", burst(1, capQ+200), map[string]bool{"burst": true})
	emit("burst", burst(3, capQ+200), map[string]bool{"burst": true})
	// the registry under concurrency (service creation racing with lookups by name)
	regTrials := 400
	if thorough {
		regTrials = 4000
	}
	emit("registry-race", []hx.T{hx.C("OConcReg", regTrials, 8)}, nil)
	// RunService with slow closures (heavy-frame accounting) and detailed perf logging
	emit("runservice-slow", []hx.T{hx.C("OConcN", 4, 3, 40)}, map[string]bool{"slow-closures": true})
	nFull, nConc, nBig := 12, 40, 1
	if thorough {
		nFull, nConc, nBig = 120, 400, 3
	}
	for i := 0; i < nFull; i++ {
		tg := map[string]bool{}
		ops := genFull(r, tg)
		if i%2 == 1 {
			// the wrap falls around the moment the queue is full: a blocked poster holds id 0
			tg["id-tracked"] = true
			ops = withId(ops[0].Int(1)-2+int64(r.Intn(6)), ops)
		}
		emit("near-capacity", ops, tg)
	}
	for i := 0; i < nConc; i++ {
		tg := map[string]bool{}
		emit("concurrent-posters", genConc(r, []int64{0, 1, 2, 3, 5}[i%5], 8, 60, tg), tg)
		tg = map[string]bool{}
		emit("concurrent-chains", genConcW(r, int64(i%2), tg), tg)
	}
	for i := 0; i < nBig; i++ {
		// several goroutines x many closures, beyond the capacity, on every consumer loop
		per := 400
		if thorough {
			per = 2000
		}
		for _, mode := range []int64{0, 1, 2, 3, 5} {
			tg := map[string]bool{"many-posters": true}
			emit("concurrent-posters-big", []hx.T{hx.C("OConcN", mode, 8, per)}, tg)
		}
	}
	for i := 0; i < cfg.N; i++ {
		tg := map[string]bool{}
		idw := func(ops []hx.T) []hx.T {
			if i%3 == 1 {
				return injectId(r, ops, tg)
			}
			return ops
		}
		switch {
		case i%25 == 24:
			emit("malformed", genMalformed(r, tg), tg)
		case i%2 == 0:
			emit("random-sched", idw(genSched(r, tg)), tg)
		case i%4 == 1:
			emit("random-chains", idw(genChains(r, tg)), tg)
		default:
			emit("random-shared", idw(genShared(r, tg)), tg)
		}
	}
	return nil
}
