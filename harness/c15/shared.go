package c15

// Shared task lists: ONE []waterfall.Task (and one final, one prepared Builder) used for
// several chains, sequentially, interleaved on one scheduler, or concurrently on several.
// The functions of a shared list cannot know which chain invoked them (that is the point of
// sharing them), so in scripts the harness - which runs one thing at a time - tells them:
// scriptRun.curChain is set by the consumer before every DoTask from a shadow copy of the
// queue (which chain each queued closure was posted for), and by OShare / OFire for the
// runners that do not go through the scheduler.

import (
	"fmt"
	"runtime"
	"sync"
	"sync/atomic"
	"time"

	"github.com/dfklegend/cell2/utils/sche"
	"github.com/dfklegend/cell2/utils/waterfall"

	"verifh/hx"
)

type sharedList struct {
	fns     []waterfall.Task
	final   waterfall.FinalCallback
	builder *waterfall.Builder // prepared on first use; Do() once per chain
}

// buildShared makes the functions of one shared list.  Also the RESULT slices are shared:
// every invocation of a task hands the same []interface{} to its callback (a constant
// pipeline stage), so a chain that wrote into what it was handed would be seen by the next.
func (r *scriptRun) buildShared(tasks []behSpec) *sharedList {
	l := r.log
	panKind := r.taskPanic
	cur := func() int64 { return atomic.LoadInt64(&r.curChain) }
	rec := func(e hx.T) {
		ch := r.chains[cur()]
		switch {
		case ch == nil:
			l.add(e) // no chain is running: recorded, and will not be accepted
		case ch.kind == "sche":
			l.add(e)
		case ch.kind == "simple":
			l.addOn(e, atomic.LoadInt64(&r.curTop))
		default:
			l.addOn(e, atomic.LoadInt64(&ch.goid))
		}
	}
	sl := &sharedList{fns: make([]waterfall.Task, len(tasks))}
	for idx := range tasks {
		i := int64(idx)
		b := tasks[idx]
		il := make([][]interface{}, len(b.il))
		for k, x := range b.il {
			il[k] = toIface(x.res)
		}
		lt := make([][]interface{}, len(b.lt))
		for k, x := range b.lt {
			lt[k] = toIface(x.res)
		}
		sl.fns[idx] = func(cb waterfall.Callback, args ...interface{}) {
			defer atomic.AddInt64(&l.activity, 1)
			c := cur()
			rec(hx.C("STask", c, i, fromIface(args)))
			for k, x := range b.il {
				cb(x.err, il[k]...)
			}
			for k, x := range b.lt {
				x, res := x, lt[k]
				r.setPending(fireKey{c, i, int64(k)}, func() { cb(x.err, res...) })
			}
			if b.pan {
				doPanic(panKind)
			}
		}
	}
	sl.final = func(err bool, args ...interface{}) {
		rec(hx.C("SFinal", cur(), err, fromIface(args)))
	}
	return sl
}

// startShared: OShare c l k - chain c over shared list l under runner k.
func (r *scriptRun) startShared(c, l, k int64, tags map[string]bool) (extra []any) {
	sl := r.lists[l]
	if sl == nil || r.chains[c] != nil {
		return nil
	}
	tags[fmt.Sprintf("shared-runner-%d", k)] = true
	switch k {
	case 0, 1:
		r.chains[c] = &chainG{kind: "sche"}
		n0 := len(r.s.GetChanTask())
		func() {
			defer func() {
				if e := recover(); e != nil {
					atomic.StoreInt32(&r.esc, 1)
				}
			}()
			if k == 0 {
				waterfall.Sche(r.s, sl.fns, sl.final)
			} else {
				if sl.builder == nil {
					b := waterfall.NewBuilder(r.s)
					for _, f := range sl.fns {
						b = b.Next(f)
					}
					sl.builder = b.Final(sl.final)
				}
				sl.builder.Do()
			}
		}()
		r.noteQueued(c, n0)
	case 2:
		r.chains[c] = &chainG{kind: "simple"}
		atomic.StoreInt64(&r.curChain, c)
		pan, _ := r.goWait(func() { waterfall.Simple(sl.fns, sl.final) }, true)
		if pan {
			extra = append(extra, hx.C("SEsc", c))
		}
	default:
		ch := &chainG{kind: "wait", done: make(chan struct{})}
		r.chains[c] = ch
		atomic.StoreInt64(&r.curChain, c)
		started := make(chan struct{})
		go func() {
			defer close(ch.done)
			defer func() {
				if e := recover(); e != nil {
					atomic.StoreInt32(&ch.paniced, 1)
				}
			}()
			atomic.StoreInt64(&ch.goid, curGoid())
			close(started)
			waterfall.ExecAndWait(sl.fns, sl.final)
		}()
		<-started
		extra = r.settleCaller(c, ch)
	}
	return extra
}

// runConcS: ns schedulers with the real Handler run at the same time; on each, `rounds`
// chains one after the other (the next one once the previous final ran); all ns*rounds chains
// walk ONE shared task slice (mode 0: waterfall.Sche) or, mode 1, each scheduler's chains go
// through one prepared Builder (the builders are built from the same functions).  Chain
// j*rounds+k is the k-th chain of scheduler j; a task knows its chain from the consumer
// goroutine it runs on.  Events are returned grouped by chain.
func runConcS(mode, ns, rounds int64, tasks []behSpec, tags map[string]bool) (events []any, gor, esc bool) {
	var mu sync.Mutex
	var evs []hx.T
	gorBad := false
	var escFlag int32
	scheOf := map[int64]int64{} // consumer goroutine id -> scheduler index (read-only once started)
	cur := make([]int64, ns)
	finals := make([]chan struct{}, ns)
	ss := make([]*sche.Sche, ns)
	handlerDone := make([]chan struct{}, ns)
	var laterOut int64
	where := func() (j, chain int64) {
		j, ok := scheOf[curGoid()]
		if !ok {
			return -1, -1
		}
		return j, atomic.LoadInt64(&cur[j])
	}
	rec := func(mk func(chain int64) hx.T) int64 {
		j, chain := where()
		mu.Lock()
		if j < 0 {
			gorBad = true // not on any scheduler's consumer goroutine
		}
		evs = append(evs, mk(chain))
		mu.Unlock()
		return j
	}
	fns := make([]waterfall.Task, len(tasks))
	for idx := range tasks {
		i := int64(idx)
		b := tasks[idx]
		il := make([][]interface{}, len(b.il))
		for k, x := range b.il {
			il[k] = toIface(x.res)
		}
		lt := make([][]interface{}, len(b.lt))
		for k, x := range b.lt {
			lt[k] = toIface(x.res)
		}
		fns[idx] = func(cb waterfall.Callback, args ...interface{}) {
			a := fromIface(args)
			rec(func(chain int64) hx.T { return hx.C("STask", chain, i, a) })
			for k, x := range b.il {
				cb(x.err, il[k]...)
			}
			for k, x := range b.lt {
				x, res := x, lt[k]
				atomic.AddInt64(&laterOut, 1)
				go func() { // the environment completes the task from some other goroutine
					defer atomic.AddInt64(&laterOut, -1)
					defer func() {
						if e := recover(); e != nil {
							atomic.StoreInt32(&escFlag, 1)
						}
					}()
					if i%2 == 0 {
						runtime.Gosched()
					}
					cb(x.err, res...)
				}()
			}
		}
	}
	final := func(err bool, args ...interface{}) {
		a := fromIface(args)
		j := rec(func(chain int64) hx.T { return hx.C("SFinal", chain, err, a) })
		if j >= 0 {
			select {
			case finals[j] <- struct{}{}:
			default:
			}
		}
	}
	for j := int64(0); j < ns; j++ {
		j := j
		ss[j] = sche.NewSche()
		finals[j] = make(chan struct{}, 64)
		handlerDone[j] = make(chan struct{})
		ready := make(chan int64)
		go func() {
			defer close(handlerDone[j])
			defer func() {
				if e := recover(); e != nil {
					atomic.StoreInt32(&escFlag, 1)
				}
			}()
			ready <- curGoid()
			ss[j].Handler()
		}()
		scheOf[<-ready] = j
	}
	builders := make([]*waterfall.Builder, ns)
	if mode == 1 {
		for j := range builders {
			b := waterfall.NewBuilder(ss[j])
			for _, f := range fns {
				b = b.Next(f)
			}
			builders[j] = b.Final(final)
		}
	}
	var timedOut int32
	start := make(chan struct{})
	var wg sync.WaitGroup
	for j := int64(0); j < ns; j++ {
		j := j
		wg.Add(1)
		go func() {
			defer wg.Done()
			defer func() {
				if e := recover(); e != nil {
					atomic.StoreInt32(&escFlag, 1)
				}
			}()
			<-start
			for k := int64(0); k < rounds; k++ {
				atomic.StoreInt64(&cur[j], j*rounds+k)
				if mode == 0 {
					waterfall.Sche(ss[j], fns, final)
				} else {
					builders[j].Do()
				}
				select {
				case <-finals[j]:
				case <-time.After(3 * time.Second):
					// this chain never reached final: what was recorded shows it
					atomic.StoreInt32(&timedOut, 1)
					return
				}
			}
		}()
	}
	close(start)
	wg.Wait()
	waitUntil(func() bool { return atomic.LoadInt64(&laterOut) == 0 })
	// a sentinel through every scheduler: anything a chain still had queued has run by then
	for j := range ss {
		ran := make(chan struct{})
		if ss[j].Post(func() { close(ran) }) != nil {
			waitChan(ran, func() bool { return atomic.LoadInt32(&escFlag) != 0 })
		}
	}
	for j := range ss {
		ss[j].Stop()
		select {
		case <-handlerDone[j]:
		case <-time.After(waitMax):
			atomic.StoreInt32(&timedOut, 1)
		}
	}
	mu.Lock()
	events = []any{}
	for c := int64(-1); c < ns*rounds; c++ {
		for _, e := range evs {
			if e.Int(0) == c {
				events = append(events, e)
			}
		}
	}
	gor = !gorBad
	mu.Unlock()
	if atomic.LoadInt32(&timedOut) != 0 {
		tags["TIMEOUT"] = true
	}
	tags[fmt.Sprintf("concs-mode-%d", mode)] = true
	return events, gor, atomic.LoadInt32(&escFlag) != 0
}
