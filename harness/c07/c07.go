// Package c07 drives the real routing code of cell2:
//
//   - direct driver: route.RouteService (Register / Route with every parameter kind, route
//     functions built from op data, including panicking ones), route.SetDefaultRoute,
//     app.Node's Cluster.UpdateClusterTopology with generated member lists, app.RoutePID,
//     app.GetWorkServices / app.GetServices;
//   - actor driver: one real node/service.NodeService running in a local protoactor system
//     (no etcd, no network).  app.Request / app.Notify / app.QuerySession / app.Kick are
//     called inside the service's own goroutine; a protoactor sender middleware records the
//     target PID and message of every send, the callbacks passed in record their
//     invocations into the same ordered event log.  Sends whose PID address is the local
//     one ("h:0") are really delivered to recording actors spawned under the service names,
//     and the harness checks that the actor that received the message is the recorded target;
//   - calls in flight together (OCalls, calls.go): one call per worker NodeService, each made
//     inside that service's own goroutine, run by a token-passing scheduler so that two or
//     more calls are inside the route layer at the same time at exactly reproducible points.
package c07

import (
	"fmt"
	"io"
	"log/slog"
	"strconv"
	"strings"
	"sync"
	"time"

	"github.com/asynkron/protoactor-go/actor"
	"github.com/sirupsen/logrus"

	as "github.com/dfklegend/cell2/actorex/service"
	"github.com/dfklegend/cell2/actorex/service/servicemsgs"
	"github.com/dfklegend/cell2/node/app"
	"github.com/dfklegend/cell2/node/builtin/msgs"
	"github.com/dfklegend/cell2/node/client/session"
	"github.com/dfklegend/cell2/node/cluster"
	"github.com/dfklegend/cell2/node/config"
	"github.com/dfklegend/cell2/node/route"
	"github.com/dfklegend/cell2/node/service"
	"github.com/dfklegend/cell2/utils/common"
	"github.com/dfklegend/cell2/utils/logger"

	"verifh/hx"
)

const (
	localAddr  = "h:0"
	driverName = "c07-driver"
	nWorkers   = 4
)

// ---- tokens <-> strings (injective) ----

var fixedTok = map[int64]string{
	0: "", -1: route.BadRouteParam, -2: route.MissRouteFunc, -3: route.NoService,
	-10: "sys", -11: "querysession", -12: "kick",
}
var fixedStr = func() map[string]int64 {
	m := map[string]int64{}
	for k, v := range fixedTok {
		m[v] = k
	}
	return m
}()

func tokStr(t int64) string {
	if s, ok := fixedTok[t]; ok {
		return s
	}
	if t > 0 {
		return "s" + strconv.FormatInt(t, 10)
	}
	return "m" + strconv.FormatInt(-t, 10)
}

const badTok = int64(-999)

func strTok(s string) int64 {
	if t, ok := fixedStr[s]; ok {
		return t
	}
	if len(s) >= 2 && (s[0] == 's' || s[0] == 'm') {
		n, err := strconv.ParseInt(s[1:], 10, 64)
		if err == nil && n > 0 && tokStr(sign(s[0])*n) == s {
			return sign(s[0]) * n
		}
	}
	return badTok
}

func sign(c byte) int64 {
	if c == 'm' {
		return -1
	}
	return 1
}

func segStr(segs []int64) string {
	parts := make([]string, len(segs))
	for i, s := range segs {
		parts[i] = tokStr(s)
	}
	return strings.Join(parts, ".")
}

func keyStr(k int64) string { return "k" + strconv.FormatInt(k, 10) }

// ---- the driver ----

type recvRec struct {
	name  string
	route string
	reqId int32
}

type driver struct {
	sys        *actor.ActorSystem
	ns         *service.NodeService
	appDefault route.RouteFunc
	workers    []*service.NodeService
	mainT      *tctx
	curT       *tctx // context of the goroutine that holds the token (see calls.go)
	poisoned   bool  // a goroutine of this driver is stuck in the code under test
	mu         sync.Mutex
	spawned    map[string]bool
	recv       chan recvRec
}

var (
	envOnce sync.Once
	drv     *driver
)

type recorder struct{ d *driver }

func (r *recorder) Receive(ctx actor.Context) {
	if m, ok := ctx.Message().(*servicemsgs.ServiceRequest); ok {
		r.d.recv <- recvRec{ctx.Self().Id, m.Route, m.ReqId}
	}
}

func pidTerm(p *actor.PID) any {
	addr := badTok
	if strings.HasPrefix(p.Address, "h:") {
		if n, err := strconv.ParseInt(p.Address[2:], 10, 64); err == nil {
			addr = n
		}
	}
	return hx.Pair{A: addr, B: strTok(p.Id)}
}

func (d *driver) middleware(next actor.SenderFunc) actor.SenderFunc {
	return func(c actor.SenderContext, target *actor.PID, env *actor.MessageEnvelope) {
		if t := d.curT; t != nil && t.evs != nil {
			g, m, req := int64(-98), int64(-98), false
			if sr, ok := env.Message.(*servicemsgs.ServiceRequest); ok {
				segs := strings.Split(sr.Route, ".")
				if len(segs) == 2 {
					g, m = strTok(segs[0]), strTok(segs[1])
				} else {
					g, m = -97, -97
				}
				req = sr.ReqId != as.NotifyReqID
			}
			*t.evs = append(*t.evs, hx.C("ESend", pidTerm(target), req, g, m))
		}
		next(c, target, env)
		if target.Address == localAddr {
			d.expectDelivery(target, env)
		}
	}
}

// a send to the local address must reach the actor spawned under exactly that name
func (d *driver) expectDelivery(target *actor.PID, env *actor.MessageEnvelope) {
	sr, ok := env.Message.(*servicemsgs.ServiceRequest)
	if !ok {
		return
	}
	d.mu.Lock()
	known := d.spawned[target.Id]
	d.mu.Unlock()
	if !known {
		panic(fmt.Sprintf("c07: send to local target %q that the harness never spawned", target.Id))
	}
	select {
	case r := <-d.recv:
		if r.name != target.Id || r.route != sr.Route || r.reqId != sr.ReqId {
			panic(fmt.Sprintf("c07: message for %v (route %q id %d) was received by %q (route %q id %d)",
				target, sr.Route, sr.ReqId, r.name, r.route, r.reqId))
		}
	case <-time.After(5 * time.Second):
		panic(fmt.Sprintf("c07: message for local target %v never received", target))
	}
}

// setup returns the driver; after a hang (a service goroutine stuck inside the code under
// test for good) a fresh one is built: new actor system, new services, new recording actors.
func setup() *driver {
	envOnce.Do(func() {
		logger.GetLogProxy("default").SetLogLevel(logrus.PanicLevel)
		logger.GetLogProxy("exception").SetLogLevel(logrus.PanicLevel)
		// requests that were really sent stay pending (nobody answers); freeze the clock so
		// that their 30 s timeout never fires a callback into a later case
		common.VerifSetNowMs(1_000_000)
	})
	if drv != nil && !drv.poisoned {
		return drv
	}
	drv = nil
	func() {
		d := &driver{spawned: map[string]bool{}, recv: make(chan recvRec, 1024)}
		d.sys = actor.NewActorSystemWithConfig(actor.Configure(
			actor.WithLoggerFactory(func(*actor.ActorSystem) *slog.Logger {
				return slog.New(slog.NewTextHandler(io.Discard, nil))
			})))
		d.sys.ProcessRegistry.Address = localAddr
		d.appDefault = route.VerifDefaultRoute() // node/app's defaultRoute, installed by its init
		props, _ := as.NewServicePropsWithNewScheDisp(func() actor.Actor {
			d.ns = service.NewService()
			return d.ns
		}, driverName)
		props.Configure(actor.WithSenderMiddleware(d.middleware))
		if _, err := d.sys.Root.SpawnNamed(props, driverName); err != nil {
			panic(err)
		}
		d.workers = make([]*service.NodeService, nWorkers)
		for i := range d.workers {
			i := i
			name := fmt.Sprintf("%s-w%d", driverName, i)
			wp, _ := as.NewServicePropsWithNewScheDisp(func() actor.Actor {
				d.workers[i] = service.NewService()
				return d.workers[i]
			}, name)
			wp.Configure(actor.WithSenderMiddleware(d.middleware))
			if _, err := d.sys.Root.SpawnNamed(wp, name); err != nil {
				panic(err)
			}
		}
		d.mainT = &tctx{}
		d.curT = d.mainT
		waitStarted(func() *service.NodeService { return d.ns })
		for i := range d.workers {
			i := i
			waitStarted(func() *service.NodeService { return d.workers[i] })
		}
		drv = d
	}()
	return drv
}

// waitStarted waits until the service actor is started (Context set)
func waitStarted(get func() *service.NodeService) {
	deadline := time.Now().Add(5 * time.Second)
	for {
		ok := make(chan bool, 1)
		if ns := get(); ns != nil && ns.GetRunService() != nil {
			ns.Post(func() { ok <- ns.Context != nil })
			select {
			case v := <-ok:
				if v {
					return
				}
			case <-time.After(time.Second):
			}
		}
		if time.Now().After(deadline) {
			panic("c07: driver service did not start")
		}
		time.Sleep(5 * time.Millisecond)
	}
}

func (d *driver) ensureTargets(members []*cluster.Member) {
	for _, m := range members {
		for _, full := range m.Services {
			_, name := app.SplitServiceName(full)
			if name == "" || strings.HasPrefix(name, driverName) {
				continue
			}
			d.mu.Lock()
			done := d.spawned[name]
			d.spawned[name] = true
			d.mu.Unlock()
			if done {
				continue
			}
			props := actor.PropsFromProducer(func() actor.Actor { return &recorder{d} })
			if _, err := d.sys.Root.SpawnNamed(props, name); err != nil {
				panic(fmt.Sprintf("c07: spawn %q: %v", name, err))
			}
		}
	}
}

// stub client connection for session.NewFrontSession
type stubConn struct{}

func (stubConn) Reserve()                                   {}
func (stubConn) GetId() uint32                              { return 7 }
func (stubConn) SetId(uint32)                               {}
func (stubConn) Close()                                     {}
func (stubConn) IsClosed() bool                             { return false }
func (stubConn) Push(string, interface{}) error             { return nil }
func (stubConn) ResponseMID(uint, interface{}, error) error { return nil }

type plainStruct struct{ A int }

func mkParam(p hx.T) any {
	switch p.Name {
	case "PNil":
		return nil
	case "PSess":
		fs := session.NewFrontSession("front-x", stubConn{})
		for _, kv := range p.List(0) {
			pr := kv.(hx.Pair)
			k := keyStr(pr.A.(int64))
			if fs.Get(k, nil) == nil {
				fs.Set(k, pr.B.(int64))
			}
		}
		return fs
	case "PMap":
		m := map[string]interface{}{}
		for _, kv := range p.List(0) {
			pr := kv.(hx.Pair)
			k := keyStr(pr.A.(int64))
			if _, ok := m[k]; !ok {
				m[k] = pr.B.(int64)
			}
		}
		return m
	case "PStr":
		return tokStr(p.Int(0))
	case "POther":
		k := p.Int(0)
		if k < 0 {
			k = -k
		}
		switch k % 8 {
		case 0:
			return 42
		case 1:
			return true
		case 2:
			return map[string]int{"k1": 1}
		case 3:
			return []string{"s1"}
		case 4:
			return plainStruct{1}
		case 5:
			return (*int)(nil)
		case 6:
			return 3.25
		default:
			return []byte("s1")
		}
	}
	panic("c07: unknown param " + p.Name)
}

func doRes(r hx.T) string {
	if r.Name == "RPanic" {
		panic("c07 scripted route-function panic")
	}
	return tokStr(r.Int(0))
}

func lookupRes(tbl []any, key int64) (hx.T, bool) {
	for _, e := range tbl {
		pr := e.(hx.Pair)
		if pr.A.(int64) == key {
			return hx.AsTerm(pr.B), true
		}
	}
	return hx.T{}, false
}

func mkMembers(v []any) []*cluster.Member {
	ms := make([]*cluster.Member, 0, len(v))
	for _, e := range v {
		n := hx.AsTerm(e)
		m := &cluster.Member{
			Id:    fmt.Sprintf("c@n%d", n.Int(0)),
			Host:  "h",
			Port:  int32(n.Int(1)),
			State: int(n.Int(2)),
		}
		for _, s := range n.List(3) {
			m.Services = append(m.Services, segStr(hx.Ints(s)))
		}
		ms = append(ms, m)
	}
	return ms
}

func names(l *app.ServiceList) []int64 {
	out := []int64{}
	if l == nil {
		return out
	}
	for _, it := range l.Items {
		out = append(out, strTok(it.Name))
	}
	return out
}

func classify(err error) string {
	switch {
	case err == nil:
		return "CbOk"
	case err == app.ErrorNoService:
		return "NoServiceErr"
	}
	return "OtherErr"
}

type stats struct {
	decisions  int
	nontrivial bool
	tags       map[string]bool
}

// caseRun is what the goroutine that executes a case shares with Exec, which watches it.
type caseRun struct {
	mu    sync.Mutex
	obs   []any
	touch time.Time // last sign of life
	hung  bool      // a call of an OCalls never returned (reported by the scheduler)
}

func (r *caseRun) alive() {
	r.mu.Lock()
	r.touch = time.Now()
	r.mu.Unlock()
}

func (r *caseRun) add(o any) {
	r.mu.Lock()
	r.obs = append(r.obs, o)
	r.touch = time.Now()
	r.mu.Unlock()
}

// a call that neither returns nor reaches a scheduling point: deterministic where it happens
// (a lock that is never released); after the first one the watchdogs stop waiting that long
var hangsSeen int

func watchdog() time.Duration {
	if hangsSeen > 0 {
		return 400 * time.Millisecond
	}
	return 3 * time.Second
}

// Exec runs one history on the real code, inside the driver service's goroutine.  A call that
// never returns is an observation (BHang, which no model run shows), not a harness failure:
// the history ends there and the driver is rebuilt.
func Exec(ops []hx.T) (obs []any, st stats, hung bool) {
	d := setup()
	st.tags = map[string]bool{}
	run := &caseRun{touch: time.Now()}
	done := make(chan any, 1)
	d.ns.Post(func() {
		defer func() {
			d.curT = d.mainT
			d.mainT.evs = nil
			done <- recover()
		}()
		d.execAll(ops, &st, run)
	})
	tick := time.NewTicker(50 * time.Millisecond)
	defer tick.Stop()
	for {
		select {
		case e := <-done:
			if e != nil {
				panic(fmt.Sprintf("c07: panic escaped the code under test: %v", e))
			}
			if run.hung {
				d.poisoned = true
				hangsSeen++
				st.tags["out-hang"] = true
			}
			return run.obs, st, run.hung
		case <-tick.C:
			run.mu.Lock()
			stalled := time.Since(run.touch) > watchdog()+time.Second
			cur := append([]any{}, run.obs...)
			run.mu.Unlock()
			if stalled {
				// the driver service's own goroutine is stuck inside the op after cur
				d.poisoned = true
				hangsSeen++
				st.tags["out-hang"] = true
				return append(cur, "BHang"), st, true
			}
		}
	}
}

// per-case execution context
type cx struct {
	d                       *driver
	st                      *stats
	run                     *caseRun
	viewSize, regs, updates int
	members                 []*cluster.Member
	self                    int64 // -1: own address not set
}

// tagSelf records where the asking node stands in the view it is asked about
func (c *cx) tagSelf() {
	if c.self < 0 {
		return
	}
	tags := c.st.tags
	listed := false
	for _, m := range c.members {
		if int64(m.Port) != c.self {
			continue
		}
		listed = true
		if app.IsWorkState(m.State) {
			tags["self-listed-working"] = true
			continue
		}
		tags["self-listed-not-working"] = true
		for _, full := range m.Services {
			ty, name := app.SplitServiceName(full)
			if name == "" {
				continue
			}
			tags["self-not-working-hosts-a-service"] = true
			for _, o := range c.members {
				if o == m || !app.IsWorkState(o.State) {
					continue
				}
				for _, f2 := range o.Services {
					if t2, n2 := app.SplitServiceName(f2); n2 != "" && t2 == ty {
						tags["self-not-working-hosts-type-another-working-node-hosts"] = true
					}
				}
			}
		}
	}
	if !listed {
		tags["self-not-listed"] = true
	}
}

var selfCfg = &config.ClusterInfo{Name: "c"}

// what this node knows about itself (Cluster.InitSelf, done by App.StartNode in production):
// its address, its cluster node id, the services it hosts
func setSelf(a, id int64, svcs []any) {
	addr, nid := "", "c@self"
	if a >= 0 {
		addr = fmt.Sprintf("h:%d", a)
	}
	if id >= 0 {
		nid = fmt.Sprintf("c@n%d", id)
	}
	var names []string
	cfg := map[string]*config.ServiceInfo{}
	for _, s := range svcs {
		segs := hx.Ints(s)
		if len(segs) != 2 {
			continue
		}
		names = append(names, tokStr(segs[1]))
		cfg[tokStr(segs[1])] = &config.ServiceInfo{Type: tokStr(segs[0])}
	}
	app.Node.GetCluster().InitSelf(addr, selfCfg, nid, names, cfg)
}

func (d *driver) execAll(ops []hx.T, st *stats, run *caseRun) {
	// fresh state: empty route table, node/app's default route, empty cluster view, own
	// address not set
	route.TheRouteService = route.NewRouteService()
	route.SetDefaultRoute(d.appDefault)
	app.Node.GetCluster().UpdateClusterTopology(nil)
	setSelf(-1, -1, nil)
	for len(d.recv) > 0 {
		<-d.recv
	}
	c := &cx{d: d, st: st, run: run, self: -1}
	for _, o := range ops {
		run.alive()
		run.add(c.execOne(o))
		if run.hung {
			return // goroutines of this driver are stuck: the history ends here
		}
	}
}

func (c *cx) decision() {
	c.st.decisions++
	if c.viewSize > 0 || c.regs > 0 {
		c.st.nontrivial = true
	}
}

// events runs one app-level call and returns the ordered list of sends and callbacks
func (c *cx) events(t *tctx, f func(cb func(error, any))) any {
	evs := []any{}
	t.evs = &evs
	f(func(err error, _ any) { evs = append(evs, hx.C("ECb", classify(err))) })
	t.evs = nil
	c.decision()
	sent, cbs := 0, 0
	for _, e := range evs {
		if e.(hx.T).Name == "ESend" {
			sent++
		} else {
			cbs++
		}
	}
	switch {
	case sent == 1 && cbs == 0:
		c.st.tags["out-send"] = true
	case sent == 0 && cbs == 1:
		c.st.tags["out-callback"] = true
	case sent == 0 && cbs == 0:
		c.st.tags["out-nothing"] = true
	default:
		c.st.tags["out-other"] = true
	}
	return hx.C("BEvents", evs)
}

// execOne runs one op.  A panic that escapes the code under test is an observation (BPanic),
// not a harness failure: the property says route-function panics are contained.
func (c *cx) execOne(o hx.T) any {
	if o.Name == "OCalls" {
		return c.calls(o)
	}
	c.d.mainT.invoked = 0
	return c.execOn(c.d.ns, c.d.mainT, o)
}

// execOn runs one single-call op on service ns, whose goroutine is the caller and whose
// context is t.
func (c *cx) execOn(ns *service.NodeService, t *tctx, o hx.T) (res any) {
	d, st := c.d, c.st
	defer func() {
		if e := recover(); e != nil {
			if s, ok := e.(string); ok && strings.HasPrefix(s, "c07:") {
				panic(e) // harness-internal inconsistency
			}
			t.evs = nil
			st.tags["out-panic"] = true
			res = "BPanic"
		}
	}()
	msg := &msgs.QuerySession{SessionId: 1}
	switch o.Name {
	case "OReg":
		f := hx.AsTerm(o.Args[1])
		if f.Name == "None" {
			route.GetRouteService().Register(tokStr(o.Int(0)), nil)
		} else {
			route.GetRouteService().Register(tokStr(o.Int(0)), mkFn(f.Term(0)))
			c.regs++
		}
		return "BUnit"
	case "ODefault":
		m := hx.AsTerm(o.Args[0])
		switch m.Name {
		case "DApp":
			route.SetDefaultRoute(d.appDefault)
		case "DNone":
			route.SetDefaultRoute(nil)
		case "DFn":
			route.SetDefaultRoute(mkFn(m.Term(0)))
			c.regs++
		}
		st.tags["set-default-"+m.Name] = true
		return "BUnit"
	case "OSelf":
		setSelf(o.Int(0), o.Int(1), o.List(2))
		st.tags["self-address-set"] = true
		c.self = o.Int(0)
		c.tagSelf()
		return "BUnit"
	case "OUpdate":
		ms := mkMembers(o.List(0))
		d.ensureTargets(ms)
		app.Node.GetCluster().UpdateClusterTopology(ms)
		c.members = ms
		c.tagSelf()
		c.viewSize = 0
		for _, m := range ms {
			c.viewSize += len(m.Services)
		}
		c.updates++
		if c.updates > 1 {
			st.tags["view-updated-again"] = true
		}
		return "BUnit"
	case "ORoute":
		p := o.Term(1)
		st.tags["param-"+p.Name] = true
		c.decision()
		return hx.C("BName", strTok(route.GetRouteService().Route(tokStr(o.Int(0)), mkParam(p))))
	case "ORoutePID":
		p := o.Term(1)
		st.tags["param-"+p.Name] = true
		c.decision()
		pid := app.RoutePID(tokStr(o.Int(0)), mkParam(p))
		if pid == nil {
			return hx.C("BPid", "None")
		}
		return hx.C("BPid", hx.C("Some", pidTerm(pid)))
	case "ORequest":
		r, p := segStr(o.Ints(0)), o.Term(1)
		st.tags["param-"+p.Name] = true
		st.tags[fmt.Sprintf("route-segments-%d", len(o.Ints(0)))] = true
		return c.events(t, func(cb func(error, any)) { app.Request(ns, r, mkParam(p), msg, cb) })
	case "ONotify":
		r, p := segStr(o.Ints(0)), o.Term(1)
		st.tags["param-"+p.Name] = true
		st.tags[fmt.Sprintf("route-segments-%d", len(o.Ints(0)))] = true
		return c.events(t, func(func(error, any)) { app.Notify(ns, r, mkParam(p), msg) })
	case "OQuery":
		f := tokStr(o.Int(0))
		return c.events(t, func(cb func(error, any)) { app.QuerySession(ns, f, 9, cb) })
	case "OKick":
		f := tokStr(o.Int(0))
		return c.events(t, func(cb func(error, any)) { app.Kick(ns, f, 9, cb) })
	case "OWork":
		return hx.C("BNames", names(app.GetWorkServices(tokStr(o.Int(0)))))
	case "OList":
		return hx.C("BNames", names(app.GetServices(tokStr(o.Int(0)))))
	}
	panic("c07: unknown op " + o.Name)
}
