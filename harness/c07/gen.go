package c07

import (
	"fmt"
	"math/rand"
	"sort"

	"verifh/hx"
)

// ---- term builders ----

func svc(segs ...int64) []int64 { return segs }

func node(id, addr, state int64, svcs ...[]int64) hx.T {
	l := make([]any, len(svcs))
	for i, s := range svcs {
		l[i] = hx.Norm(s)
	}
	return hx.C("Node", id, addr, state, l)
}

func view(ns ...hx.T) hx.T {
	l := make([]any, len(ns))
	for i, n := range ns {
		l[i] = n
	}
	return hx.C("OUpdate", l)
}

func rname(n int64) hx.T { return hx.C("RName", n) }

var rpanic = hx.T{Name: "RPanic"}

func data(kv ...int64) []any {
	l := []any{}
	for i := 0; i+1 < len(kv); i += 2 {
		l = append(l, hx.Pair{A: kv[i], B: kv[i+1]})
	}
	return l
}

func tbl(kv ...any) []any {
	l := []any{}
	for i := 0; i+1 < len(kv); i += 2 {
		l = append(l, hx.Pair{A: hx.Norm(kv[i]), B: kv[i+1]})
	}
	return l
}

func pNil() hx.T          { return hx.T{Name: "PNil"} }
func pSess(d []any) hx.T  { return hx.C("PSess", d) }
func pMap(d []any) hx.T   { return hx.C("PMap", d) }
func pStr(n int64) hx.T   { return hx.C("PStr", n) }
func pOther(k int64) hx.T { return hx.C("POther", k) }
func some(x any) hx.T     { return hx.C("Some", x) }
func reg(ty int64, f any) hx.T {
	if f == nil {
		return hx.C("OReg", ty, "None")
	}
	return hx.C("OReg", ty, some(f))
}
func route3(t, g, m int64) []int64 { return []int64{t, g, m} }

var aYield = hx.T{Name: "AYield"}

func aCall(ty int64, p hx.T) hx.T { return hx.C("ACall", ty, p) }
func aGet(k int64) hx.T           { return hx.C("AGet", k) }
func spre(s hx.T, acts ...hx.T) hx.T {
	l := make([]any, len(acts))
	for i, a := range acts {
		l[i] = a
	}
	return hx.C("SPre", l, s)
}
func aReg(ty int64, f any) hx.T {
	if f == nil {
		return hx.C("AReg", ty, "None")
	}
	return hx.C("AReg", ty, some(f))
}

// schedule entries: runs(i, j, ...) = SRun i, SRun j, ...; sreg = a Register by another goroutine
func runs(ids ...int64) []any {
	l := make([]any, len(ids))
	for i, k := range ids {
		l[i] = hx.C("SRun", k)
	}
	return l
}
func sreg(ty int64, f any) hx.T {
	if f == nil {
		return hx.C("SReg", ty, "None")
	}
	return hx.C("SReg", ty, some(f))
}
func ocalls(sched []any, cs ...hx.T) hx.T {
	l := make([]any, len(cs))
	for i, c := range cs {
		l[i] = c
	}
	if sched == nil {
		sched = []any{}
	}
	return hx.C("OCalls", l, sched)
}
func cRoute(ty int64, p hx.T) hx.T    { return hx.C("CRoute", ty, p) }
func cRoutePID(ty int64, p hx.T) hx.T { return hx.C("CRoutePID", ty, p) }
func cRequest(r []int64, p hx.T) hx.T { return hx.C("CRequest", r, p) }
func cNotify(r []int64, p hx.T) hx.T  { return hx.C("CNotify", r, p) }

// every parameter kind, two values of the kinds a rule reads
func kindParams() []hx.T {
	return []hx.T{
		pNil(), pSess(data(1, 1)), pSess(data(1, 3, 2, 1)), pMap(data(1, 1)), pMap(data(1, 2, 2, 3)),
		pMap(data()), pStr(4), pOther(2),
	}
}

// E: calls in flight together.  The rule for type 1 stops at a scheduling point BEFORE it
// reads its key (and reads it twice, around a second scheduling point); the default function
// does the same for type 2.  Every ordered pair of parameters over all kinds, as
// Request/Request, Route/Notify and RoutePID/Request, under three schedules; then three and
// four calls at once with mixed kinds and routes.
func enumCalls(emit func([]hx.T)) {
	keyed := hx.C("SKey", 1, tbl(1, rname(1), 2, rname(2), 3, rpanic), rname(4), rname(5))
	head := func() []hx.T {
		return []hx.T{v0(),
			reg(1, spre(keyed, aYield, aGet(1), aYield)),
			reg(3, spre(hx.C("SKind", rname(1), rname(2), rname(5)), aYield)),
			hx.C("ODefault", hx.C("DFn", spre(hx.C("SKey", 2, tbl(1, rname(3), 3, rname(5)), rname(0), rname(3)), aGet(2), aYield))),
		}
	}
	ps := kindParams()
	scheds := [][]any{{}, runs(1, 0, 0, 1), runs(0, 0, 1, 1, 1, 0)}
	for _, a := range ps {
		ops := head()
		for i, b := range ps {
			sc := scheds[i%len(scheds)]
			ops = append(ops,
				ocalls(sc, cRequest(route3(1, 5, 6), a), cRequest(route3(1, 6, 5), b)),
				ocalls(scheds[(i+1)%len(scheds)], cRoute(1, a), cNotify(route3(2, 5, 5), b)),
				ocalls(scheds[(i+2)%len(scheds)], cRoutePID(3, a), cRequest(route3(3, 6, 6), b)))
		}
		emit(ops)
	}
	for i := 0; i+3 < len(ps)+3; i++ {
		q := func(k int) hx.T { return ps[(i+k)%len(ps)] }
		ops := head()
		ops = append(ops,
			ocalls(runs(2, 1, 0), cRequest(route3(1, 5, 6), q(0)), cNotify(route3(1, 6, 6), q(1)), cRequest(route3(2, 5, 5), q(2))),
			ocalls(runs(3, 3, 0, 1, 2, 2, 1, 0), cRoute(1, q(0)), cRequest(route3(1, 5, 6), q(3)), cRoutePID(2, q(1)), cNotify(route3(3, 5, 6), q(2))),
			ocalls(nil, cRequest(route3(1, 5, 6), q(3)), cRequest([]int64{1, 5}, q(0)), cRequest(route3(0, 5, 6), q(1)), cRequest(route3(1, 5, 6), q(3))),
			ocalls(nil, cRequest(route3(1, 5, 6), q(1))))
		emit(ops)
	}
}

// F: rules that route.  The rule for type 1 calls Route(2, q) BEFORE it reads its own key (and
// reads a key before and after the call); type 2's rule is in turn a plain reader / a kind
// switch / a panicking function / a rule that routes on to type 3 / absent (default).  Every
// own parameter x every nested parameter, made alone (old ops and single-call OCalls) and two
// at a time with scheduling points around the nested call.
func enumNested(emit func([]hx.T)) {
	ps := kindParams()
	inner := []any{
		hx.C("SKey", 1, tbl(1, rname(3), 2, rname(5)), rname(0), rname(4)),
		hx.C("SKind", rname(3), rname(5), rpanic),
		hx.C("SConst", rpanic),
		spre(hx.C("SKey", 2, tbl(1, rname(5), 3, rname(3)), rname(1), rname(2)), aCall(3, pMap(data(1, 3))), aYield, aCall(3, pStr(2))),
		nil,
	}
	outerLeaf := hx.C("SKey", 1, tbl(1, rname(1), 2, rname(2), 3, rpanic), rname(4), rname(5))
	for ii, in := range inner {
		for _, q := range ps {
			ops := []hx.T{v0(),
				reg(2, in),
				reg(3, hx.C("SKey", 1, tbl(3, rname(5)), rname(1), rname(2))),
				reg(1, spre(outerLeaf, aCall(2, q))),
				reg(4, spre(outerLeaf, aGet(2), aYield, aCall(2, q), aYield, aGet(2))),
			}
			if ii%2 == 1 {
				ops = append(ops, hx.C("ODefault", hx.C("DFn", spre(hx.C("SConst", rname(3)), aGet(1), aCall(9, pStr(1))))))
			}
			for j, a := range ps {
				ops = append(ops,
					hx.C("ORequest", route3(1, 5, 6), a),
					ocalls(nil, cRequest(route3(1, 5, 6), a)),
					ocalls(nil, cRoute(4, a)),
					ocalls(runs(0, 1, 1, 0), cRequest(route3(4, 5, 6), a), cNotify(route3(4, 6, 5), ps[(j+3)%len(ps)])),
					ocalls(runs(1, 0), cRoutePID(1, a), cRoute(4, ps[(j+1)%len(ps)]), cRequest(route3(2, 5, 6), ps[(j+4)%len(ps)])))
			}
			emit(ops)
		}
	}
}

// ---- view facts used for tags ----

func viewTags(v hx.T, tags map[string]bool) {
	seenName := map[int64]string{}
	seenNode := map[int64]bool{}
	for _, e := range v.List(0) {
		n := hx.AsTerm(e)
		if seenNode[n.Int(0)] {
			tags["view-dup-node-id"] = true
		}
		seenNode[n.Int(0)] = true
		tags[fmt.Sprintf("view-node-state-%d", n.Int(2))] = true
		for _, s := range n.List(3) {
			segs := hx.Ints(s)
			if len(segs) != 2 || segs[0] == 0 || segs[1] == 0 {
				tags["view-malformed-service"] = true
				continue
			}
			key := fmt.Sprintf("%d/%d", n.Int(0), segs[0])
			if prev, ok := seenName[segs[1]]; ok {
				if prev == key {
					tags["view-dup-name-same-node-type"] = true
				} else {
					tags["view-dup-name"] = true
				}
			}
			seenName[segs[1]] = key
			if segs[1] < 0 && segs[1] >= -3 {
				tags["view-service-with-reserved-name"] = true
			}
		}
	}
	if len(v.List(0)) == 0 {
		tags["view-empty"] = true
	}
}

// ---- exhaustive small scopes ----

func probeOps() []hx.T {
	return []hx.T{
		hx.C("ORequest", route3(1, 5, 6), pNil()),
		hx.C("ONotify", route3(1, 5, 6), pNil()),
		hx.C("ORequest", route3(2, 5, 6), pNil()),
		hx.C("ORequest", route3(3, 5, 6), pSess(data(1, 1))),
		hx.C("ORequest", route3(9, 5, 6), pStr(1)),
		hx.C("ONotify", route3(9, 5, 6), pStr(2)),
		hx.C("ORequest", route3(9, 5, 6), pStr(-3)),
		hx.C("ORoutePID", 1, pMap(data())),
		hx.C("ORoutePID", 2, pNil()),
		hx.C("ORoute", 1, pNil()),
		hx.C("OQuery", 1), hx.C("OKick", 2), hx.C("OQuery", 3),
		hx.C("OWork", 1), hx.C("OList", 1), hx.C("OWork", 2),
	}
}

// what the node knows about itself: address, node id, own services
func self(addr, id int64, svcs ...[]int64) hx.T {
	l := make([]any, len(svcs))
	for i, s := range svcs {
		l[i] = hx.Norm(s)
	}
	return hx.C("OSelf", addr, id, l)
}

// the decisions that consult the default rule, the directory and the lists
func selfProbeOps() []hx.T {
	return []hx.T{
		hx.C("ORequest", route3(1, 5, 6), pNil()),
		hx.C("ONotify", route3(1, 5, 6), pMap(data(1, 1))),
		hx.C("ORoutePID", 1, pSess(data())),
		hx.C("ORoute", 2, pNil()),
		hx.C("ORequest", route3(2, 5, 6), pSess(data(1, 1))),
		hx.C("ORequest", route3(9, 5, 6), pStr(1)),
		hx.C("OQuery", 2), hx.C("OWork", 1),
		ocalls(nil, cRequest(route3(1, 5, 6), pNil()), cRoutePID(2, pMap(data()))),
	}
}

// A: every two-node view over small service-list alphabets, in every combination of states
func enumViews(states []int64, emit func([]hx.T)) {
	s1 := [][][]int64{{}, {svc(1, 1)}, {svc(1, 1), svc(1, 2)}, {svc(2, 1)}, {svc(1, -3)}}
	s2 := [][][]int64{{}, {svc(1, 1)}, {svc(1, 2)}, {svc(2, 1), svc(1, 3)}, {svc(1, 2), svc(2, 2)}}
	for _, st1 := range states {
		for _, st2 := range states {
			for _, a := range s1 {
				for _, b := range s2 {
					// the same view asked from a node that does not know its own address, from
					// node 1, from node 2 and from a node the view does not list
					ops := []hx.T{view(node(1, 0, st1, a...), node(2, 2, st2, b...))}
					ops = append(ops, probeOps()...)
					ops = append(ops, self(0, 1, a...))
					ops = append(ops, selfProbeOps()...)
					ops = append(ops, self(2, 2, b...))
					ops = append(ops, selfProbeOps()...)
					ops = append(ops, self(3, 7, svc(1, 9)))
					ops = append(ops, selfProbeOps()...)
					emit(ops)
				}
			}
		}
	}
}

func v0() hx.T {
	return view(
		node(1, 0, 1, svc(1, 1), svc(1, 2), svc(2, 3)),
		node(2, 2, 3, svc(1, 4)),
		node(3, 3, 1, svc(2, 5), svc(3, -3)))
}

// B: every rule (registered function x default mode) against every parameter kind
func enumRules(emit func([]hx.T)) {
	fns := []any{
		nil,
		hx.C("SConst", rname(2)), hx.C("SConst", rname(7)), hx.C("SConst", rname(0)),
		hx.C("SConst", rpanic), hx.C("SConst", rname(-3)),
		hx.C("SKey", 1, tbl(1, rname(1), 2, rname(4), 3, rpanic), rname(0), rname(2)),
		hx.C("SKind", rname(1), rname(2), rpanic),
		hx.C("STy", tbl(1, rname(4), 2, rname(5)), rpanic),
	}
	dflts := []hx.T{
		{Name: "DApp"}, {Name: "DNone"},
		hx.C("DFn", hx.C("SConst", rname(2))), hx.C("DFn", hx.C("SConst", rpanic)),
		hx.C("DFn", hx.C("STy", tbl(2, rname(5)), rname(1))),
	}
	params := []hx.T{
		pNil(), pSess(data(1, 1)), pSess(data(1, 3)), pSess(data()), pSess(data(1, 9)),
		pMap(data(1, 2)), pMap(data(2, 1)), pMap(data(1, 1, 1, 2)),
		pStr(1), pStr(4), pStr(7), pStr(0), pStr(-3), pStr(-1),
		pOther(0), pOther(2), pOther(5), pOther(7),
	}
	for _, f := range fns {
		for _, d := range dflts {
			ops := []hx.T{v0(), hx.C("ODefault", d), reg(1, f)}
			for _, p := range params {
				ops = append(ops,
					hx.C("ORoute", 1, p),
					hx.C("ORequest", route3(1, 5, 6), p),
					hx.C("ONotify", route3(1, 5, 6), p),
					hx.C("ORequest", route3(2, 5, 6), p),
					hx.C("ORoutePID", 3, p))
			}
			emit(ops)
		}
	}
}

// C: every route of 0..maxLen segments over {"", s1, s5}
func enumRoutes(maxLen int, emit func([]hx.T)) {
	alpha := []int64{0, 1, 5}
	var routes [][]int64
	var rec func(cur []int64, n int)
	rec = func(cur []int64, n int) {
		if len(cur) == n {
			routes = append(routes, append([]int64{}, cur...))
			return
		}
		for _, a := range alpha {
			rec(append(cur, a), n)
		}
	}
	for n := 0; n <= maxLen; n++ {
		rec(nil, n)
	}
	var ops []hx.T
	flush := func() {
		if len(ops) > 1 {
			emit(ops)
		}
		ops = []hx.T{v0()}
	}
	flush()
	for i, r := range routes {
		ops = append(ops,
			hx.C("ORequest", r, pStr(1)), hx.C("ONotify", r, pStr(1)),
			hx.C("ORequest", r, pNil()), hx.C("ONotify", r, pMap(data(1, 1))))
		if i%8 == 7 {
			flush()
		}
	}
	flush()
}

// D: every sequence of up to L view updates over four small views, probing after each
func enumUpdates(L int, emit func([]hx.T)) {
	views := []hx.T{
		view(),
		view(node(1, 0, 1, svc(1, 1))),
		view(node(1, 0, 3, svc(1, 1)), node(2, 2, 1, svc(1, 2))),
		view(node(2, 2, 1, svc(1, 1))),
	}
	probes := []hx.T{
		hx.C("ORequest", route3(1, 5, 6), pNil()),
		hx.C("ORequest", route3(1, 5, 6), pStr(1)),
		hx.C("OQuery", 2),
	}
	var rec func(cur []hx.T, n int)
	rec = func(cur []hx.T, n int) {
		if n == 0 {
			emit(append([]hx.T{}, cur...))
			return
		}
		for _, v := range views {
			rec(append(append(append([]hx.T{}, cur...), v), probes...), n-1)
		}
	}
	for n := 1; n <= L; n++ {
		rec(nil, n)
	}
}

// G: rules that change while calls are in flight.  (a) a rule that registers (lazily installs)
// the rule of another type and then routes that type; a rule that replaces or removes ITS OWN
// registration while it runs; the default function registering; (b) another goroutine calling
// Register (new rule / replacement / removal, for the type in flight and for others) at every
// position of the schedule of two calls whose rules stop at scheduling points before and after
// a nested call.
func enumRegs(emit func([]hx.T)) {
	ps := kindParams()
	leafA := hx.C("SKey", 1, tbl(1, rname(1), 2, rname(2)), rname(4), rname(5))
	leafB := hx.C("SConst", rname(3))
	leafC := hx.C("SKind", rname(5), rname(3), rname(2))
	// (a)
	for i, a := range ps {
		b := ps[(i+3)%len(ps)]
		ops := []hx.T{v0(),
			reg(1, spre(leafA, aReg(2, leafB), aCall(2, b), aReg(2, nil), aCall(2, a))),
			hx.C("ORequest", route3(1, 5, 6), a),
			hx.C("ORoute", 2, b),
			reg(3, spre(leafC, aGet(1), aReg(3, leafB), aYield, aReg(4, spre(leafA, aCall(5, pStr(2)))))),
			hx.C("ORoutePID", 3, a),
			hx.C("ORoute", 3, b),
			hx.C("ORequest", route3(4, 6, 5), a),
			hx.C("ODefault", hx.C("DFn", spre(leafB, aReg(6, leafC), aReg(1, nil)))),
			hx.C("ONotify", route3(7, 5, 6), b),
			hx.C("ORoute", 6, a),
			hx.C("ORequest", route3(1, 5, 6), a),
			ocalls(runs(0, 1, 1, 0),
				cRequest(route3(1, 5, 6), a), cRoute(8, b), cRoutePID(6, a)),
			hx.C("ORoute", 1, a),
		}
		emit(ops)
	}
	// (b)
	outer := spre(leafA, aYield, aCall(2, pMap(data(1, 2))), aYield, aGet(1))
	regs := []hx.T{sreg(2, leafB), sreg(1, leafC), sreg(1, nil), sreg(9, leafB), sreg(2, nil)}
	base := runs(0, 1, 0, 1, 0, 1)
	for i, a := range ps {
		b := ps[(i+5)%len(ps)]
		ops := []hx.T{v0(), reg(1, outer), reg(2, leafC)}
		for pos := 0; pos <= len(base); pos++ {
			r := regs[(pos+i)%len(regs)]
			sc := append(append(append([]any{}, base[:pos]...), r), base[pos:]...)
			ops = append(ops,
				ocalls(sc, cRequest(route3(1, 5, 6), a), cRoute(1, b)),
				reg(1, outer), reg(2, leafC), reg(9, nil))
		}
		ops = append(ops, ocalls([]any{hx.C("SRun", 0), regs[0], regs[1], hx.C("SRun", 1), regs[2], hx.C("SRun", 2)},
			cNotify(route3(1, 5, 6), a), cRequest(route3(2, 6, 5), b), cRoutePID(1, b)))
		emit(ops)
	}
}

// ---- random ----

type rgen struct {
	r    *rand.Rand
	tags map[string]bool
}

func (g *rgen) pick(xs ...int64) int64 { return xs[g.r.Intn(len(xs))] }

func (g *rgen) ty() int64 {
	if g.r.Intn(12) == 0 {
		return g.pick(0, -3, 4)
	}
	return 1 + g.r.Int63n(3)
}

func (g *rgen) name() int64 {
	if g.r.Intn(10) == 0 {
		return g.pick(0, -1, -2, -3, 6, 7)
	}
	return 1 + g.r.Int63n(5)
}

func (g *rgen) res() hx.T {
	if g.r.Intn(5) == 0 {
		return rpanic
	}
	return rname(g.name())
}

func (g *rgen) data() []any {
	l := []any{}
	for n := g.r.Intn(4); n > 0; n-- {
		l = append(l, hx.Pair{A: 1 + g.r.Int63n(2), B: 1 + g.r.Int63n(4)})
	}
	return l
}

func (g *rgen) param() hx.T {
	switch p := g.r.Intn(100); {
	case p < 15:
		return pNil()
	case p < 35:
		return pSess(g.data())
	case p < 55:
		return pMap(g.data())
	case p < 85:
		return pStr(g.name())
	default:
		return pOther(g.r.Int63n(8))
	}
}

// scriptFor: a function to be registered for type ty (dflt: as the default function).  Nested
// calls consult rules only for types ABOVE ty and never from the default function, so rules
// cannot consult each other in a cycle (in Go: unbounded recursion, a fatal stack overflow).
func (g *rgen) scriptFor(ty int64, dflt bool) hx.T {
	s := g.script()
	if g.r.Intn(3) > 0 {
		return s
	}
	g.tags["gen-rule-with-prefix"] = true
	var acts []hx.T
	deep := 0
	for n := 1 + g.r.Intn(3); n > 0; n-- {
		switch g.r.Intn(5) {
		case 0:
			acts = append(acts, aYield)
		case 1:
			acts = append(acts, aGet(1+g.r.Int63n(2)))
		case 2:
			// a rule that registers: only for types above its own, with functions that obey
			// the same discipline, so registered rules still cannot form a cycle
			g.tags["gen-rule-registers"] = true
			rty := ty + 1 + g.r.Int63n(3)
			if dflt {
				rty = g.ty()
			}
			if g.r.Intn(4) == 0 {
				acts = append(acts, aReg(rty, nil))
			} else if dflt {
				acts = append(acts, aReg(rty, g.script()))
			} else {
				acts = append(acts, aReg(rty, g.scriptFor(rty, false)))
			}
		default:
			deep++
			if dflt || deep > 2 || ty >= 5 || g.r.Intn(4) == 0 {
				if g.r.Intn(2) == 0 {
					acts = append(acts, aCall(g.ty(), pStr(g.name())))
				} else {
					acts = append(acts, aCall(g.ty(), pOther(g.r.Int63n(8))))
				}
			} else {
				acts = append(acts, aCall(ty+1+g.r.Int63n(2), g.param()))
			}
		}
	}
	return spre(s, acts...)
}

func (g *rgen) pcall() hx.T {
	switch g.r.Intn(6) {
	case 0:
		return cRoute(g.ty(), g.param())
	case 1:
		return cRoutePID(g.ty(), g.param())
	case 2:
		return cNotify(g.route(), g.param())
	default:
		return cRequest(g.route(), g.param())
	}
}

func (g *rgen) calls() hx.T {
	n := 1 + g.r.Intn(4)
	cs := make([]hx.T, n)
	for i := range cs {
		cs[i] = g.pcall()
	}
	sched := []any{}
	for k := g.r.Intn(9); k > 0; k-- {
		if g.r.Intn(5) == 0 {
			g.tags["gen-register-in-flight"] = true
			ty := g.ty()
			if g.r.Intn(5) == 0 {
				sched = append(sched, sreg(ty, nil))
			} else {
				sched = append(sched, sreg(ty, g.scriptFor(ty, false)))
			}
		} else {
			sched = append(sched, hx.C("SRun", g.r.Int63n(6)-1))
		}
	}
	return ocalls(sched, cs...)
}

func (g *rgen) script() hx.T {
	switch p := g.r.Intn(100); {
	case p < 35:
		return hx.C("SConst", g.res())
	case p < 70:
		t := []any{}
		for n := g.r.Intn(4); n > 0; n-- {
			t = append(t, hx.Pair{A: 1 + g.r.Int63n(4), B: g.res()})
		}
		return hx.C("SKey", 1+g.r.Int63n(2), t, g.res(), g.res())
	case p < 85:
		return hx.C("SKind", g.res(), g.res(), g.res())
	default:
		t := []any{}
		for n := g.r.Intn(3); n > 0; n-- {
			t = append(t, hx.Pair{A: g.ty(), B: g.res()})
		}
		return hx.C("STy", t, g.res())
	}
}

func (g *rgen) route() []int64 {
	if g.r.Intn(5) > 0 {
		return route3(g.ty(), g.pick(5, 6, -10), g.pick(5, 6, -11))
	}
	g.tags["gen-odd-route"] = true
	n := g.r.Intn(6)
	r := make([]int64, n)
	for i := range r {
		r[i] = g.pick(0, 1, 2, 5, 6)
	}
	return r
}

func (g *rgen) view() hx.T {
	nn := g.r.Intn(5)
	ns := make([]hx.T, nn)
	for i := range ns {
		id := int64(i + 1)
		if g.r.Intn(12) == 0 {
			id = 1 + g.r.Int63n(3)
		}
		addr := id - 1
		if g.r.Intn(8) == 0 {
			addr = g.r.Int63n(4)
		}
		state := int64(1)
		if g.r.Intn(2) == 0 {
			state = g.r.Int63n(6)
		}
		var svcs [][]int64
		for k := g.r.Intn(5); k > 0; k-- {
			switch q := g.r.Intn(20); {
			case q < 17:
				svcs = append(svcs, svc(g.ty(), g.name()))
			case q == 17:
				svcs = append(svcs, svc(g.ty()))
			case q == 18:
				svcs = append(svcs, svc(g.ty(), g.name(), 5))
			default:
				svcs = append(svcs, svc())
			}
		}
		ns[i] = node(id, addr, state, svcs...)
	}
	return view(ns...)
}

func genRandom(r *rand.Rand, maxLen int) ([]hx.T, map[string]bool) {
	g := &rgen{r: r, tags: map[string]bool{}}
	n := 1 + r.Intn(maxLen)
	var ops []hx.T
	if r.Intn(10) > 0 {
		ops = append(ops, g.view())
	}
	for len(ops) < n {
		switch p := r.Intn(100); {
		case p < 12:
			ops = append(ops, g.view())
		case p < 24:
			if r.Intn(6) == 0 {
				ops = append(ops, reg(g.ty(), nil))
			} else {
				ty := g.ty()
				ops = append(ops, reg(ty, g.scriptFor(ty, false)))
			}
		case p < 28:
			switch r.Intn(4) {
			case 0:
				ops = append(ops, hx.C("ODefault", "DNone"))
			case 1:
				ops = append(ops, hx.C("ODefault", hx.C("DFn", g.scriptFor(0, true))))
			default:
				ops = append(ops, hx.C("ODefault", "DApp"))
			}
		case p < 36:
			ops = append(ops, hx.C("ORoute", g.ty(), g.param()))
		case p < 44:
			ops = append(ops, hx.C("ORoutePID", g.ty(), g.param()))
		case p < 46:
			ops = append(ops, g.calls())
		case p < 48:
			var own [][]int64
			for k := g.r.Intn(3); k > 0; k-- {
				own = append(own, svc(g.ty(), g.name()))
			}
			ops = append(ops, self(g.r.Int63n(5)-1, g.r.Int63n(5)-1, own...))
		case p < 69:
			ops = append(ops, hx.C("ORequest", g.route(), g.param()))
		case p < 81:
			ops = append(ops, hx.C("ONotify", g.route(), g.param()))
		case p < 87:
			ops = append(ops, hx.C("OQuery", g.name()))
		case p < 91:
			ops = append(ops, hx.C("OKick", g.name()))
		case p < 96:
			ops = append(ops, hx.C("OWork", g.ty()))
		default:
			ops = append(ops, hx.C("OList", g.ty()))
		}
	}
	return ops, g.tags
}

// ---- entry point ----

// maxHung: after this many histories that ran into a call that never returns the run stops
// generating and reports what it has - on code that locks up every further history would only
// cost more watchdogs, and the hung ones are already concrete failures.
const maxHung = 3

func Run(cfg *hx.Config) error {
	hungCases, stopped := 0, false
	emit := func(kind string, ops []hx.T, extra map[string]bool) {
		if stopped {
			return
		}
		obs, st, hung := Exec(ops)
		if hung {
			hungCases++
			if cfg.In == "" && hungCases >= maxHung {
				stopped = true
				fmt.Printf("c07: %d histories hung - generation stopped after %d cases\n", hungCases, cfg.Emitted()+1)
			}
		}
		for t := range extra {
			st.tags[t] = true
		}
		for _, o := range ops {
			if o.Name == "OUpdate" {
				viewTags(o, st.tags)
			}
		}
		var tl []string
		for t := range st.tags {
			tl = append(tl, t)
		}
		sort.Strings(tl)
		cfg.Emit(hx.Case{Kind: kind, Ops: ops, Obs: obs, Nontrivial: st.nontrivial, Tags: tl})
	}
	if cfg.In != "" {
		cs, err := hx.ReadCases(cfg.In)
		if err != nil {
			return err
		}
		for _, c := range cs {
			emit("replay", hx.Terms(c.Ops), nil)
		}
		return nil
	}
	thorough := cfg.Tier == "thorough"
	states := []int64{0, 1, 3}
	if thorough {
		states = []int64{0, 1, 2, 3, 5}
	}
	enumViews(states, func(ops []hx.T) { emit("exhaustive-views", ops, nil) })
	enumRules(func(ops []hx.T) { emit("exhaustive-rules", ops, nil) })
	maxSeg := 4
	if thorough {
		maxSeg = 5
	}
	enumRoutes(maxSeg, func(ops []hx.T) { emit("exhaustive-routes", ops, nil) })
	L := 2
	if thorough {
		L = 4
	}
	enumUpdates(L, func(ops []hx.T) { emit("exhaustive-updates", ops, nil) })
	enumCalls(func(ops []hx.T) { emit("exhaustive-calls", ops, nil) })
	enumNested(func(ops []hx.T) { emit("exhaustive-nested", ops, nil) })
	enumRegs(func(ops []hx.T) { emit("exhaustive-registers", ops, nil) })
	for i := 0; i < cfg.N; i++ {
		maxLen := 14
		if i%4 == 3 {
			maxLen = 45
		}
		ops, tags := genRandom(cfg.Rng, maxLen)
		emit("random", ops, tags)
	}
	return nil
}
