package c07

import (
	"fmt"
	"strings"
	"time"

	"github.com/dfklegend/cell2/node/client/session"
	"github.com/dfklegend/cell2/node/route"

	"verifh/hx"
)

// Model.NEST_FUEL = 8: rule invocations at nesting depth 0..7 are followed by the model;
// Model.TURN_FUEL = 400 scheduler turns, Model.STEP_FUEL = 2000 steps per turn.
const (
	maxDepth   = 7
	maxTurns   = 300
	maxInvokes = 200 // rule invocations per turn
)

// tctx is the context of one goroutine running code under test.  Only one such goroutine runs
// at a time (driver.curT names it): the main driver service outside OCalls, inside an OCalls
// the worker that holds the scheduler's token.
type tctx struct {
	evs     *[]any // sends / callbacks of the app-level call being executed (nil: none)
	rec     bool   // record what rule invocations see
	seen    []any
	depth   int  // nesting depth of the rule invocation that is running
	sched   bool // AYield parks the goroutine and hands the token back
	resume  chan struct{}
	parked  chan bool // true: the call returned
	herr    any       // harness-internal inconsistency raised on this goroutine
	res     any
	invoked int // rule invocations since the goroutine was last given the token
}

func (t *tctx) see(e any) {
	if t.rec {
		t.seen = append(t.seen, e)
	}
}

func (t *tctx) yield() {
	if !t.sched {
		return
	}
	t.parked <- false
	<-t.resume
}

func kindOf(p route.IRouteParam) string {
	switch p.(type) {
	case nil:
		return "KNil"
	case *session.FrontSession:
		return "KSess"
	case *route.MapParam:
		return "KMap"
	}
	panic("c07: route function handed an unexpected parameter type")
}

func optZ(v interface{}) any {
	if v == nil {
		return "None"
	}
	return hx.C("Some", v.(int64))
}

// mkFn builds a real route.RouteFunc from a script term (Model.interp_script is what it
// answers, Model.prog_of_script how it gets there).  Every invocation records, at its nesting
// depth, the kind of the parameter it was handed, the value of every key it reads and the
// answer of every Route call it makes itself.
func mkFn(s hx.T) route.RouteFunc {
	return func(ty string, p route.IRouteParam) string {
		t := drv.curT
		t.invoked++
		if t.invoked > maxInvokes {
			panic("c07: scripted route functions run longer than the model follows")
		}
		depth := int64(t.depth)
		t.see(hx.C("VKind", depth, strTok(ty), kindOf(p)))
		return runScript(t, depth, s, ty, p)
	}
}

func runScript(t *tctx, depth int64, s hx.T, ty string, p route.IRouteParam) string {
	switch s.Name {
	case "SConst":
		return doRes(s.Term(0))
	case "SKey":
		v := p.Get(keyStr(s.Int(0)), nil) // p == nil: a genuine nil-interface panic
		t.see(hx.C("VGet", depth, s.Int(0), optZ(v)))
		if v == nil {
			return doRes(s.Term(3))
		}
		if r, ok := lookupRes(s.List(1), v.(int64)); ok {
			return doRes(r)
		}
		return doRes(s.Term(2))
	case "SKind":
		k := kindOf(p)
		t.see(hx.C("VKind", depth, strTok(ty), k))
		switch k {
		case "KNil":
			return doRes(s.Term(0))
		case "KSess":
			return doRes(s.Term(1))
		default:
			return doRes(s.Term(2))
		}
	case "STy":
		if r, ok := lookupRes(s.List(0), strTok(ty)); ok {
			return doRes(r)
		}
		return doRes(s.Term(1))
	case "SPre":
		for _, e := range s.List(0) {
			a := hx.AsTerm(e)
			switch a.Name {
			case "AYield":
				t.yield()
			case "ACall":
				if t.depth >= maxDepth {
					panic("c07: scripted route functions nest deeper than the model follows")
				}
				cty := a.Int(0)
				n := func() string {
					t.depth++
					defer func() { t.depth-- }()
					return route.GetRouteService().Route(tokStr(cty), mkParam(a.Term(1)))
				}()
				t.see(hx.C("VCall", depth, cty, strTok(n)))
			case "AGet":
				v := p.Get(keyStr(a.Int(0)), nil) // p == nil: a genuine nil-interface panic
				t.see(hx.C("VGet", depth, a.Int(0), optZ(v)))
			case "AReg":
				register(a.Int(0), hx.AsTerm(a.Args[1]))
			default:
				panic("c07: unknown act " + a.Name)
			}
		}
		return runScript(t, depth, s.Term(1), ty, p)
	}
	panic("c07: unknown script " + s.Name)
}

// register calls RouteService.Register(ty, f) with f built from an option-of-script term
func register(ty int64, f hx.T) {
	if f.Name == "None" {
		route.GetRouteService().Register(tokStr(ty), nil)
	} else {
		route.GetRouteService().Register(tokStr(ty), mkFn(f.Term(0)))
	}
}

var callOp = map[string]string{
	"CRoute": "ORoute", "CRoutePID": "ORoutePID", "CRequest": "ORequest", "CNotify": "ONotify",
}

// calls runs an OCalls: call i is made inside worker service i's goroutine.  The scheduler
// (this goroutine: the main driver service's) lets exactly one worker run at a time, from one
// scheduling point to the next, in the order the op's schedule says (SRun k: worker k mod n,
// skipped when its call has returned) and round-robin after it; an SReg entry is a Register
// made by yet another goroutine at that point.  Schedule entries are consumed while a call is
// in flight.  Model.sim is the same scheduler.
//
// A worker that neither returns nor reaches a scheduling point within the watchdog is stuck
// inside the code under test: its call is observed as BHang, the history ends after this op
// and the driver is rebuilt.
func (c *cx) calls(o hx.T) any {
	d := c.d
	cs := hx.Terms(o.Args[0])
	sched := hx.Terms(o.Args[1])
	n := len(cs)
	if n > nWorkers {
		panic(fmt.Sprintf("c07: OCalls with %d calls, %d workers", n, nWorkers))
	}
	c.st.tags[fmt.Sprintf("calls-%d", n)] = true
	ts := make([]*tctx, n)
	for i := range cs {
		i := i
		call := cs[i]
		name, ok := callOp[call.Name]
		if !ok {
			panic("c07: unknown call " + call.Name)
		}
		one := hx.T{Name: name, Args: call.Args}
		t := &tctx{rec: true, sched: true, resume: make(chan struct{}), parked: make(chan bool)}
		ts[i] = t
		d.workers[i].Post(func() {
			<-t.resume
			func() {
				defer func() {
					if e := recover(); e != nil {
						t.herr = e
					}
				}()
				t.res = c.execOn(d.workers[i], t, one)
			}()
			t.parked <- true
		})
	}
	defer func() { d.curT = d.mainT }()
	done := make([]bool, n)
	hung := make([]bool, n)
	started := make([]bool, n)
	var pending []chan struct{} // Register calls by other goroutines that have not returned yet
	live, si, rr, turns := n, 0, 0, 0
	for live > 0 {
		c.run.alive()
		id := -1
		if si < len(sched) {
			e := sched[si]
			si++
			switch e.Name {
			case "SReg":
				c.st.tags["calls-register-in-flight"] = true
				ch := make(chan struct{})
				ty, f := e.Int(0), hx.AsTerm(e.Args[1])
				go func() {
					register(ty, f)
					close(ch)
				}()
				select {
				case <-ch:
				case <-time.After(watchdog() / 3):
					// blocked (it is waiting for a rule that is running): it stays pending,
					// as it would on its own goroutine
					pending = append(pending, ch)
					c.st.tags["calls-register-blocked"] = true
				}
				continue
			case "SRun":
				k := int(((e.Int(0) % int64(n)) + int64(n)) % int64(n))
				if done[k] {
					continue
				}
				id = k
			default:
				panic("c07: unknown schedule entry " + e.Name)
			}
		} else {
			k := rr % n
			rr++
			if done[k] {
				continue
			}
			id = k
		}
		turns++
		if turns > maxTurns {
			panic("c07: an OCalls takes more scheduler turns than the model follows")
		}
		for j := range ts {
			if j != id && started[j] && !done[j] {
				c.st.tags["calls-overlap-in-route-layer"] = true
			}
		}
		started[id] = true
		t := ts[id]
		t.invoked = 0
		d.curT = t
		t.resume <- struct{}{}
		select {
		case fin := <-t.parked:
			if fin {
				done[id] = true
				live--
			} else {
				c.st.tags["calls-yield"] = true
			}
		case <-time.After(watchdog()):
			// stuck inside the code under test
			hung[id], done[id] = true, true
			live--
			c.run.hung = true
			hangsSeen++
		}
		d.curT = d.mainT
	}
	for _, ch := range pending {
		select {
		case <-ch:
		case <-time.After(watchdog() / 3):
			c.run.hung = true // a Register that never returns although no call is in flight
		}
	}
	out := make([]any, n)
	for i, t := range ts {
		if hung[i] {
			// t belongs to a goroutine that may still be running: do not read it
			out[i] = hx.Pair{A: "BHang", B: []any{}}
			continue
		}
		if t.herr != nil {
			if s, ok := t.herr.(string); ok && strings.HasPrefix(s, "c07:") {
				panic(s)
			}
			panic(fmt.Sprintf("c07: unexpected panic in a worker: %v", t.herr))
		}
		seen := t.seen
		if seen == nil {
			seen = []any{}
		}
		for _, e := range seen {
			if e.(hx.T).Name == "VCall" {
				c.st.tags["calls-nested"] = true
			}
		}
		out[i] = hx.Pair{A: t.res, B: seen}
	}
	return hx.C("BCalls", out)
}
