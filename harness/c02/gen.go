package c02

import (
	"sort"

	"verifh/hx"
)

var meths = []string{"MEcho", "MFail", "MBoom", "MNever", "MNote", "MNoMethod", "MNoGroup", "MBadPayload", "MUnenc", "MEncPanic", "MEchoLater", "MUnencLater", "MEncPanicLater", "MZero"}

func rt(ty int64, m any) hx.T { return hx.C("RT", ty, m) }

// every (type, method) combination once as a request and once as a notification, for an
// unbound and for each bound routing key; the classes behind F3, F4, F12; duplicates of ids.
func fixedCases(tier string) [][]hx.T {
	var out [][]hx.T
	types := []int64{0, 1, 2, 7}
	keys := []int64{-1, 0, 1, 2, 3, 9}
	for _, k := range keys {
		for _, ty := range types {
			if ty != 1 && k > 0 {
				continue // the key only matters for chat
			}
			var ops []hx.T
			ops = append(ops, hx.C("OConnect", 1, false, 1))
			tag := int64(1)
			if k >= 0 {
				ops = append(ops, hx.C("OReq", 1, 900, rt(0, hx.C("MSetKey", k)), tag))
				tag++
			}
			for i, m := range meths {
				ops = append(ops, hx.C("OReq", 1, int64(10+i), rt(ty, m), tag))
				tag++
				ops = append(ops, hx.C("ONotify", 1, rt(ty, m), tag))
				tag++
			}
			out = append(out, ops)
		}
	}
	for k := int64(0); k <= 5; k++ {
		out = append(out, []hx.T{hx.C("OConnect", 1, false, 1), hx.C("OReq", 1, 5, hx.C("RMalformed", k), 1),
			hx.C("ONotify", 1, hx.C("RMalformed", k), 2)})
	}
	// connect while the front is busy, forward at once (F12)
	out = append(out, []hx.T{hx.C("OConnect", 1, true, 1), hx.C("OReq", 1, 1, rt(2, "MEcho"), 1), hx.C("OReq", 1, 2, rt(0, "MEcho"), 2)})
	out = append(out, []hx.T{hx.C("OConnect", 1, true, 1), hx.C("OReq", 1, 1, rt(0, hx.C("MSetKey", 2)), 1), hx.C("OReq", 1, 2, rt(1, "MEcho"), 2), hx.C("ONotify", 1, rt(1, "MEcho"), 3)})
	// same id twice, in flight at the same time, to different instances
	out = append(out, []hx.T{hx.C("OConnect", 1, false, 1), hx.C("OReq", 1, 7, rt(0, hx.C("MSetKey", 1)), 1), hx.C("OReq", 1, 7, rt(1, "MEcho"), 2),
		hx.C("OReq", 1, 7, rt(0, hx.C("MSetKey", 2)), 3), hx.C("OReq", 1, 7, rt(1, "MEcho"), 4), hx.C("OReq", 1, 7, rt(2, "MNever"), 5)})
	// close with requests pending at a back-end; other connection unaffected
	out = append(out, []hx.T{hx.C("OConnect", 1, false, 1), hx.C("OConnect", 2, false, 2), hx.C("OReq", 1, 3, rt(2, "MNever"), 1),
		hx.C("OReq", 2, 3, rt(2, "MNever"), 2), hx.C("OReq", 1, 4, rt(2, "MEcho"), 3), hx.C("OClose", 1), hx.C("OReq", 1, 5, rt(0, "MEcho"), 4),
		hx.C("OAdvance"), hx.C("OReq", 2, 4, rt(2, "MEcho"), 5)})
	// session-id reuse: the time-out of a closed connection's parked request must not reach the
	// connection that was handed its numeric id (same request id on purpose)
	out = append(out, []hx.T{hx.C("OConnect", 1, false, 3), hx.C("OReq", 1, 1, rt(2, "MNever"), 1), hx.C("OClose", 1),
		hx.C("OConnect", 2, false, 3), hx.C("OReq", 2, 1, rt(2, "MEcho"), 2), hx.C("OAdvance"), hx.C("OReq", 2, 2, rt(0, "MEcho"), 3)})
	// the same across the wrap of the allocator (largest id, then 0 is skipped), keyed back-end
	out = append(out, []hx.T{hx.C("OConnect", 1, false, 0), hx.C("OConnect", 2, false, 1), hx.C("OConnect", 3, true, 2),
		hx.C("OReq", 1, 7, rt(0, hx.C("MSetKey", 1)), 1), hx.C("OReq", 1, 8, rt(1, "MNever"), 2), hx.C("OReq", 2, 8, rt(2, "MNever"), 3),
		hx.C("OReq", 3, 8, rt(2, "MEcho"), 4), hx.C("OClose", 1), hx.C("OClose", 2), hx.C("OConnect", 4, false, 0), hx.C("OConnect", 5, false, 1),
		hx.C("OConnect", 6, false, 2), hx.C("OReq", 4, 8, rt(0, "MEcho"), 5), hx.C("OReq", 5, 8, rt(2, "MNever"), 6), hx.C("OAdvance"),
		hx.C("OReq", 4, 9, rt(2, "MEcho"), 7), hx.C("OReq", 5, 9, rt(2, "MEcho"), 8)})
	// a well-framed packet whose message cannot be decoded ends the connection: nothing of it is answered
	// afterwards, what was answered before stays, the other connection is undisturbed
	for k := int64(0); k <= 4; k++ {
		out = append(out, []hx.T{hx.C("OConnect", 1, false, 1), hx.C("OConnect", 2, false, 2), hx.C("OReq", 1, 5, rt(2, "MEcho"), 1), hx.C("HBadMsg", 1, 6, k),
			hx.C("OReq", 1, 7, rt(0, "MEcho"), 2), hx.C("ONotify", 1, rt(0, "MEcho"), 3), hx.C("OReq", 1, 8, rt(2, "MEcho"), 4), hx.C("OReq", 2, 8, rt(2, "MEcho"), 5), hx.C("OAdvance"),
			hx.C("OReq", 2, 6, rt(0, "MEcho"), 6)})
	}
	out = append(out, []hx.T{hx.C("OConnect", 1, false, 1), hx.C("OReq", 1, 5, rt(2, "MNever"), 1), hx.C("HBadMsg", 1, 5, 1), hx.C("OReq", 1, 6, rt(0, "MEcho"), 2), hx.C("OAdvance")},
		// in the handshake state data packets are ignored, bad ones too
		[]hx.T{hx.C("OConnect", 1, false, 1), hx.C("OHandshake", 1), hx.C("HBadMsg", 1, 6, 0), hx.C("OAck", 1), hx.C("OReq", 1, 7, rt(2, "MEcho"), 1), hx.C("HBadMsg", 1, 8, 3), hx.C("OReq", 1, 9, rt(0, "MEcho"), 2)},
		[]hx.T{hx.C("OProto"), hx.C("OConnect", 1, false, 1), hx.C("OReq", 1, 5, rt(0, "MEcho"), 1), hx.C("HBadMsg", 1, 6, 2), hx.C("OReq", 1, 7, rt(0, "MEcho"), 2)})
	// notifications sent right before the client goes away, while the front-end is busy: the network
	// side has marked the session closed when the service gets to them - each is still handed to its
	// handler exactly once, front-local and forwarded
	for _, pr := range []bool{false, true} {
		var ops []hx.T
		if pr {
			ops = append(ops, hx.C("OProto"))
		}
		ops = append(ops, hx.C("OConnect", 1, false, 1), hx.C("OConnect", 2, false, 2), hx.C("OReq", 1, 1, rt(0, hx.C("MSetKey", 1)), 1),
			hx.C("HGone", 1, 40, []any{hx.Pair{A: rt(0, "MEcho"), B: int64(2)}, hx.Pair{A: rt(2, "MEcho"), B: int64(3)}, hx.Pair{A: rt(1, "MEcho"), B: int64(4)},
				hx.Pair{A: rt(0, "MNote"), B: int64(5)}, hx.Pair{A: rt(2, "MNote"), B: int64(6)}, hx.Pair{A: rt(2, "MEchoLater"), B: int64(7)}}),
			hx.C("OReq", 2, 3, rt(0, "MEcho"), 9), hx.C("ONotify", 2, rt(2, "MEcho"), 10), hx.C("HGone", 2, 30, []any{hx.Pair{A: rt(0, "MEcho"), B: int64(11)}}))
		out = append(out, ops)
	}
	// pipelined burst with a client that does not read: > 9999 responses pending on one
	// connection (front-local, then forwarded); every request still gets exactly one response
	out = append(out, []hx.T{hx.C("OConnect", 1, false, 1), hx.C("HBurst", 1, 1000, 1000, 4000, 11000, 1500),
		hx.C("OReq", 1, 5, rt(2, "MEcho"), 1), hx.C("OReq", 1, 6, rt(0, "MFail"), 2)})
	// the protocol state machine while requests are outstanding: a second Handshake packet, a
	// time-out / relayed reply / asynchronous completion produced before the ack, data packets in
	// the handshake state (ignored by the server), heartbeats anywhere
	out = append(out, []hx.T{hx.C("OConnect", 1, false, 1), hx.C("OReq", 1, 5, rt(2, "MNever"), 1), hx.C("OHandshake", 1), hx.C("OAdvance"),
		hx.C("OReq", 1, 6, rt(0, "MEcho"), 2), hx.C("ONotify", 1, rt(2, "MEcho"), 3), hx.C("OAck", 1), hx.C("OReq", 1, 7, rt(0, "MEcho"), 4)})
	out = append(out, []hx.T{hx.C("OConnect", 1, false, 1), hx.C("OConnect", 2, false, 2), hx.C("OHeartbeat", 1), hx.C("OReq", 1, 5, rt(2, "MEchoLater"), 1),
		hx.C("OReq", 1, 6, rt(0, "MEchoLater"), 2), hx.C("OReq", 1, 7, rt(2, "MEcho"), 3), hx.C("OHandshake", 1), hx.C("OHeartbeat", 1),
		hx.C("OReq", 2, 5, rt(2, "MNever"), 4), hx.C("OHandshake", 2), hx.C("OAck", 1), hx.C("OReq", 1, 8, rt(2, "MUnencLater"), 5), hx.C("OAdvance"),
		hx.C("OClose", 2), hx.C("OHandshake", 1), hx.C("OReq", 1, 9, rt(0, "MEcho"), 6)})
	// route spellings that are not registered as written (Go method name, upper case, capitalised
	// group) for every method shape, as request and as notification, front-local and forwarded,
	// under both serializers
	for _, pr := range []bool{false, true} {
		for _, ty := range []int64{0, 2} {
			ops := []hx.T{hx.C("OConnect", 1, false, 1)}
			if pr {
				ops = append([]hx.T{hx.C("OProto")}, ops...)
			}
			tag := int64(1)
			for base := int64(0); base < 8; base++ {
				for k := int64(0); k < 3; k++ {
					ops = append(ops, hx.C("OReq", 1, 100+tag, rt(ty, hx.C("MMisspelt", base, k)), tag))
					tag++
					if k == 1 {
						ops = append(ops, hx.C("ONotify", 1, rt(ty, hx.C("MMisspelt", base, k)), tag))
						tag++
					}
				}
			}
			out = append(out, ops)
		}
	}
	// protobuf client serializer: every behaviour incl. the all-default result (no payload bytes),
	// front-local, keyed and default-routed back-ends
	for _, ty := range []int64{0, 1, 2, 7} {
		ops := []hx.T{hx.C("OProto"), hx.C("OConnect", 1, false, 1), hx.C("OReq", 1, 900, rt(0, hx.C("MSetKey", 2)), 1)}
		tag := int64(2)
		for i, m := range meths {
			ops = append(ops, hx.C("OReq", 1, int64(10+i), rt(ty, m), tag))
			tag++
			ops = append(ops, hx.C("ONotify", 1, rt(ty, m), tag))
			tag++
		}
		out = append(out, ops)
	}
	out = append(out, []hx.T{hx.C("OConnect", 1, false, 1), hx.C("OReq", 1, 5, rt(0, "MZero"), 1), hx.C("OReq", 1, 6, rt(2, "MZero"), 2), hx.C("ONotify", 1, rt(2, "MZero"), 3)})
	// largest id
	out = append(out, []hx.T{hx.C("OConnect", 1, false, 1), hx.C("OReq", 1, int64(4294967295), rt(2, "MEcho"), 1), hx.C("OReq", 1, int64(4294967295), rt(0, "MFail"), 2)})
	if tier == "thorough" {
		out = append(out,
			[]hx.T{hx.C("OConnect", 1, false, 1), hx.C("HBurst", 1, 1, 1, 8000, 13000, 0), hx.C("OReq", 1, 50000, rt(0, "MEcho"), 50000)},
			[]hx.T{hx.C("OConnect", 1, false, 1), hx.C("OConnect", 2, false, 2), hx.C("HBurst", 1, 1, 1, 2000, 2000, 11000),
				hx.C("OReq", 2, 5, rt(2, "MEcho"), 50000), hx.C("HBurst", 2, 1, 20000, 6000, 12000, 1000)})
	}
	return out
}

func gen(cfg *hx.Config, i int) ([]hx.T, []string) {
	r := cfg.Rng
	tags := map[string]bool{}
	nconn := int64(1 + r.Intn(3))
	n := 2 + r.Intn(14)
	if i%10 == 9 {
		n = 20 + r.Intn(40)
	}
	var ops []hx.T
	if r.Intn(4) == 0 {
		ops = append(ops, hx.C("OProto"))
		tags["serializer-proto"] = true
	}
	connected := map[int64]bool{}
	tag := int64(1)
	mid := func() int64 {
		switch p := r.Intn(20); {
		case p == 0:
			tags["mid-max"] = true
			return 4294967295
		case p == 1:
			return int64(1 + r.Intn(3)) // likely duplicate
		case p == 2:
			return int64(127 + r.Intn(3)) // varint boundary
		}
		return int64(1 + r.Intn(100000))
	}
	route := func() hx.T {
		switch p := r.Intn(100); {
		case p < 6:
			tags["malformed"] = true
			return hx.C("RMalformed", int64(r.Intn(6)))
		case p < 12:
			tags["unknown-type"] = true
			return rt(7, hx.Pick(r, meths))
		case p < 40:
			tags["local"] = true
			return rt(0, hx.Pick(r, meths))
		case p < 52:
			tags["default-route"] = true
			return rt(2, hx.Pick(r, meths))
		}
		if r.Intn(12) == 0 {
			tags["misspelt-route"] = true
			return rt(hx.Pick(r, []int64{0, 0, 1, 2}), hx.C("MMisspelt", int64(r.Intn(8)), int64(r.Intn(3))))
		}
		tags["keyed-route"] = true
		if r.Intn(2) == 0 {
			return rt(1, "MEcho")
		}
		return rt(1, hx.Pick(r, meths))
	}
	// connections are identities (tokens); each is handed a numeric session id slot: 0 = the
	// largest id (the allocator then wraps, skipping 0), -1 just below, 1.. the small ids.
	// A slot freed by a closed connection is recycled half of the time; now and then the slot
	// of a LIVE connection is asked for (no such allocation: ignored).
	nextTok := nconn + 1
	slotOf := map[int64]int64{}
	closedSlots := []int64{}
	usedSlot := map[int64]bool{}
	freshSlot := func() int64 {
		for _, s := range []int64{hx.Pick(r, []int64{0, -1, 1, 2, 3, 4, 5, 6}), 0, 1, 2, 3, 4, 5, 6, 7, 8, 9, 10, 11, 12} {
			if !usedSlot[s] {
				return s
			}
		}
		return 13
	}
	connect := func(c int64) {
		busy := r.Intn(12) == 0
		if busy {
			tags["connect-busy"] = true
		}
		var slot int64
		switch q := r.Intn(20); {
		case q < 10 && len(closedSlots) > 0:
			slot = hx.Pick(r, closedSlots)
			tags["session-id-reused"] = true
		case q == 19 && len(slotOf) > 0:
			for _, v := range slotOf {
				slot = v
			}
			tags["session-id-live-clash"] = true
		default:
			slot = freshSlot()
		}
		if slot == 0 || slot == -1 {
			tags["session-id-wrap"] = true
		}
		live := false
		for t, v := range slotOf {
			if v == slot && connected[t] {
				live = true
			}
		}
		ops = append(ops, hx.C("OConnect", c, busy, slot))
		if !live {
			connected[c] = true
			slotOf[c] = slot
			usedSlot[slot] = true
			for i, v := range closedSlots {
				if v == slot {
					closedSlots = append(closedSlots[:i], closedSlots[i+1:]...)
					break
				}
			}
		}
	}
	closedTok := map[int64]bool{}
	for len(ops) < n {
		c := 1 + r.Int63n(nextTok-1)
		if closedTok[c] && r.Intn(3) > 0 {
			// a new client arrives after one left
			c = nextTok
			nextTok++
		}
		if !connected[c] && !closedTok[c] {
			connect(c)
			continue
		}
		switch p := r.Intn(100); {
		case p < 50:
			ops = append(ops, hx.C("OReq", c, mid(), route(), tag))
			tag++
		case p < 68:
			tags["notify"] = true
			ops = append(ops, hx.C("ONotify", c, route(), tag))
			tag++
		case p < 88:
			k := hx.Pick(r, []int64{0, 1, 1, 2, 2, 3, 9})
			if k == 3 {
				tags["key-wrong-type"] = true
			}
			if k == 9 {
				tags["key-no-instance"] = true
			}
			ty := int64(0)
			switch r.Intn(10) {
			case 0:
				ty = 1 // on a back-end the method only echoes (the back-session is not pushed)
				tags["setkey-on-backend"] = true
			case 1:
				ty = 2
			}
			if r.Intn(8) == 0 {
				tags["setkey-notify"] = true
				ops = append(ops, hx.C("ONotify", c, rt(ty, hx.C("MSetKey", k)), tag))
			} else {
				ops = append(ops, hx.C("OReq", c, mid(), rt(ty, hx.C("MSetKey", k)), tag))
			}
			tag++
		case p < 91:
			tags["advance"] = true
			ops = append(ops, hx.C("OAdvance"))
		case p < 93:
			// the protocol state machine: re-handshake (often right after a forwarded request), ack, heartbeat
			switch r.Intn(4) {
			case 0:
				tags["rehandshake"] = true
				if r.Intn(2) == 0 {
					ops = append(ops, hx.C("OReq", c, mid(), rt(2, hx.Pick(r, []string{"MEcho", "MNever", "MEchoLater", "MFail"})), tag))
					tag++
				}
				ops = append(ops, hx.C("OHandshake", c))
			case 1, 2:
				tags["ack"] = true
				ops = append(ops, hx.C("OAck", c))
			default:
				ops = append(ops, hx.C("OHeartbeat", c))
			}
		case p < 97:
			tags["close"] = true
			if connected[c] && !closedTok[c] {
				// park a request at a back-end handler that never answers before leaving, half of the time
				if r.Intn(2) == 0 {
					ops = append(ops, hx.C("OReq", c, mid(), rt(2, "MNever"), tag))
					tag++
					tags["close-with-parked-request"] = true
				}
				closedTok[c] = true
				connected[c] = false
				closedSlots = append(closedSlots, slotOf[c])
				delete(slotOf, c)
			}
			if connected[c] || closedTok[c] {
				switch r.Intn(6) {
				case 0:
					// a message the server cannot decode ends the connection
					tags["undecodable-message"] = true
					ops = append(ops, hx.C("HBadMsg", c, mid(), int64(r.Intn(5))))
					break
				case 1, 2:
					// the client goes away right after notifications, while the front-end is busy
					tags["notify-then-gone"] = true
					nots := []any{}
					for j := 1 + r.Intn(4); j > 0; j-- {
						nots = append(nots, hx.Pair{A: route(), B: tag})
						tag++
					}
					ops = append(ops, hx.C("HGone", c, int64(25+r.Intn(20)), nots))
				default:
					ops = append(ops, hx.C("OClose", c))
				}
			} else {
				ops = append(ops, hx.C("OClose", c))
			}
		default:
			ops = append(ops, hx.C("OConnect", c, false, freshSlot())) // token already used: ignored
		}
	}
	var tl []string
	for t := range tags {
		tl = append(tl, t)
	}
	sort.Strings(tl)
	return ops, tl
}
