package c02

import (
	"sort"

	"verifh/hx"
)

var meths = []string{"MEcho", "MFail", "MBoom", "MNever", "MNote", "MNoMethod", "MNoGroup", "MBadPayload", "MUnenc"}

func rt(ty int64, m any) hx.T { return hx.C("RT", ty, m) }

// every (type, method) combination once as a request and once as a notification, for an
// unbound and for each bound routing key; the classes behind F3, F4, F12; duplicates of ids.
func fixedCases() [][]hx.T {
	var out [][]hx.T
	types := []int64{0, 1, 2, 7}
	keys := []int64{-1, 0, 1, 2, 3, 9}
	for _, k := range keys {
		for _, ty := range types {
			if ty != 1 && k > 0 {
				continue // the key only matters for chat
			}
			var ops []hx.T
			ops = append(ops, hx.C("OConnect", 1, false))
			tag := int64(1)
			if k >= 0 {
				ops = append(ops, hx.C("OReq", 1, 900, rt(0, hx.C("MSetKey", k)), tag))
				tag++
			}
			for i, m := range meths {
				ops = append(ops, hx.C("OReq", 1, int64(10+i), rt(ty, m), tag))
				tag++
				ops = append(ops, hx.C("ONotify", 1, rt(ty, m), tag))
				tag++
			}
			out = append(out, ops)
		}
	}
	for k := int64(0); k <= 5; k++ {
		out = append(out, []hx.T{hx.C("OConnect", 1, false), hx.C("OReq", 1, 5, hx.C("RMalformed", k), 1),
			hx.C("ONotify", 1, hx.C("RMalformed", k), 2)})
	}
	// connect while the front is busy, forward at once (F12)
	out = append(out, []hx.T{hx.C("OConnect", 1, true), hx.C("OReq", 1, 1, rt(2, "MEcho"), 1), hx.C("OReq", 1, 2, rt(0, "MEcho"), 2)})
	out = append(out, []hx.T{hx.C("OConnect", 1, true), hx.C("OReq", 1, 1, rt(0, hx.C("MSetKey", 2)), 1), hx.C("OReq", 1, 2, rt(1, "MEcho"), 2), hx.C("ONotify", 1, rt(1, "MEcho"), 3)})
	// same id twice, in flight at the same time, to different instances
	out = append(out, []hx.T{hx.C("OConnect", 1, false), hx.C("OReq", 1, 7, rt(0, hx.C("MSetKey", 1)), 1), hx.C("OReq", 1, 7, rt(1, "MEcho"), 2),
		hx.C("OReq", 1, 7, rt(0, hx.C("MSetKey", 2)), 3), hx.C("OReq", 1, 7, rt(1, "MEcho"), 4), hx.C("OReq", 1, 7, rt(2, "MNever"), 5)})
	// close with requests pending at a back-end; other connection unaffected
	out = append(out, []hx.T{hx.C("OConnect", 1, false), hx.C("OConnect", 2, false), hx.C("OReq", 1, 3, rt(2, "MNever"), 1),
		hx.C("OReq", 2, 3, rt(2, "MNever"), 2), hx.C("OReq", 1, 4, rt(2, "MEcho"), 3), hx.C("OClose", 1), hx.C("OReq", 1, 5, rt(0, "MEcho"), 4),
		hx.C("OAdvance"), hx.C("OReq", 2, 4, rt(2, "MEcho"), 5)})
	// largest id
	out = append(out, []hx.T{hx.C("OConnect", 1, false), hx.C("OReq", 1, int64(4294967295), rt(2, "MEcho"), 1), hx.C("OReq", 1, int64(4294967295), rt(0, "MFail"), 2)})
	return out
}

func gen(cfg *hx.Config, i int) ([]hx.T, []string) {
	r := cfg.Rng
	tags := map[string]bool{}
	nconn := int64(1 + r.Intn(3))
	n := 2 + r.Intn(14)
	if i%10 == 9 {
		n = 20 + r.Intn(40)
	}
	var ops []hx.T
	connected := map[int64]bool{}
	tag := int64(1)
	mid := func() int64 {
		switch p := r.Intn(20); {
		case p == 0:
			tags["mid-max"] = true
			return 4294967295
		case p == 1:
			return int64(1 + r.Intn(3)) // likely duplicate
		case p == 2:
			return int64(127 + r.Intn(3)) // varint boundary
		}
		return int64(1 + r.Intn(100000))
	}
	route := func() hx.T {
		switch p := r.Intn(100); {
		case p < 6:
			tags["malformed"] = true
			return hx.C("RMalformed", int64(r.Intn(6)))
		case p < 12:
			tags["unknown-type"] = true
			return rt(7, hx.Pick(r, meths))
		case p < 40:
			tags["local"] = true
			return rt(0, hx.Pick(r, meths))
		case p < 52:
			tags["default-route"] = true
			return rt(2, hx.Pick(r, meths))
		}
		tags["keyed-route"] = true
		if r.Intn(2) == 0 {
			return rt(1, "MEcho")
		}
		return rt(1, hx.Pick(r, meths))
	}
	for len(ops) < n {
		c := 1 + r.Int63n(nconn)
		if !connected[c] {
			busy := r.Intn(12) == 0
			if busy {
				tags["connect-busy"] = true
			}
			ops = append(ops, hx.C("OConnect", c, busy))
			connected[c] = true
			continue
		}
		switch p := r.Intn(100); {
		case p < 50:
			ops = append(ops, hx.C("OReq", c, mid(), route(), tag))
			tag++
		case p < 68:
			tags["notify"] = true
			ops = append(ops, hx.C("ONotify", c, route(), tag))
			tag++
		case p < 88:
			k := hx.Pick(r, []int64{0, 1, 1, 2, 2, 3, 9})
			if k == 3 {
				tags["key-wrong-type"] = true
			}
			if k == 9 {
				tags["key-no-instance"] = true
			}
			ty := int64(0)
			switch r.Intn(10) {
			case 0:
				ty = 1 // on a back-end the method only echoes (the back-session is not pushed)
				tags["setkey-on-backend"] = true
			case 1:
				ty = 2
			}
			if r.Intn(8) == 0 {
				tags["setkey-notify"] = true
				ops = append(ops, hx.C("ONotify", c, rt(ty, hx.C("MSetKey", k)), tag))
			} else {
				ops = append(ops, hx.C("OReq", c, mid(), rt(ty, hx.C("MSetKey", k)), tag))
			}
			tag++
		case p < 93:
			tags["advance"] = true
			ops = append(ops, hx.C("OAdvance"))
		case p < 97:
			tags["close"] = true
			ops = append(ops, hx.C("OClose", c))
		default:
			ops = append(ops, hx.C("OConnect", c, false)) // already connected: ignored
		}
	}
	var tl []string
	for t := range tags {
		tl = append(tl, t)
	}
	sort.Strings(tl)
	return ops, tl
}
