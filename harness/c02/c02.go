// Package c02 drives the shared in-process node (harness/e2e) with raw pomelo clients:
// per case a list of client actions over several connections; observables are, per
// connection, the multiset of (id, error flag, payload class) responses received until
// quiescence, and the handler invocation log (instance, tag).
package c02

import (
	"fmt"
	"sort"
	"strings"
	"time"

	"verifh/e2e"
	"verifh/hx"
)

var typeNames = map[int64]string{0: "gate", 1: "chat", 2: "room", 7: "ghost"}

// key value -> content of the session's routing key
func keyName(v int64) string {
	switch v {
	case 0:
		return ""
	case 1, 2:
		return fmt.Sprintf("chat-%d", v)
	case 3:
		return "room-1" // exists, but is not a chat
	}
	return fmt.Sprintf("chat-%d", v) // no such instance
}

// Go names of the harness methods (registered lower-cased); index = MMisspelt's base
var baseMethods = []string{"Echo", "Fail", "Boom", "Never", "Note", "Unenc", "Zero", "EchoLater"}

// JSON-mode method -> protobuf-mode method serving the same behaviour class
var protoMethod = map[string]string{"echo": "pecho", "fail": "pfail", "boom": "pboom", "never": "pnever", "note": "pnote",
	"unenc": "punenc", "encpanic": "punenc", "echolater": "pecholater", "unenclater": "punenclater",
	"encpaniclater": "punenclater", "zero": "pzero", "setkey": "psetkey", "big": "pbig", "nosuch": "nosuch"}

func routeAndPayload(r hx.T, tag int64, proto bool) (string, []byte) {
	good := e2e.EncodeArg(proto, map[string]any{"T": tag})
	name := func(m string) string { // registered method name for the serializer in use
		if proto {
			return protoMethod[m]
		}
		return m
	}
	switch r.Name {
	case "RMalformed":
		switch r.Int(0) {
		case 0:
			return "", good
		case 1:
			return "gate", good
		case 2:
			return "gate.h", good
		case 3:
			return "chat.h", good
		case 4:
			return "gate.h." + name("echo") + ".x", good
		}
		return "chat.h." + name("echo") + ".x.y", good
	case "RT":
		ty, ok := typeNames[r.Int(0)]
		if !ok {
			ty = fmt.Sprintf("ghost%d", r.Int(0))
		}
		m := hx.AsTerm(r.Args[1])
		switch m.Name {
		case "MSetKey":
			return ty + ".h." + name("setkey"), e2e.EncodeArg(proto, map[string]any{"T": tag, "Key": keyName(m.Int(0))})
		case "MEcho":
			return ty + ".h." + name("echo"), good
		case "MFail":
			return ty + ".h." + name("fail"), good
		case "MBoom":
			return ty + ".h." + name("boom"), good
		case "MNever":
			return ty + ".h." + name("never"), good
		case "MNote":
			return ty + ".h." + name("note"), good
		case "MNoMethod":
			return ty + ".h.nosuch", good
		case "MNoGroup":
			return ty + ".g." + name("echo"), good
		case "MUnenc":
			return ty + ".h." + name("unenc"), good
		case "MEncPanic":
			return ty + ".h." + name("encpanic"), good
		case "MEchoLater":
			return ty + ".h." + name("echolater"), good
		case "MUnencLater":
			return ty + ".h." + name("unenclater"), good
		case "MEncPanicLater":
			return ty + ".h." + name("encpaniclater"), good
		case "MZero":
			return ty + ".h." + name("zero"), good
		case "MBadPayload":
			if proto {
				return ty + ".h.pecho", []byte{0x0a, 0x05, 'a'} // length 5 announced, 1 byte there
			}
			return ty + ".h.echo", []byte(`{"T":`)
		case "MMisspelt":
			// a spelling of an existing method's route that is not registered as written
			base := baseMethods[int(((m.Int(0)%int64(len(baseMethods)))+int64(len(baseMethods)))%int64(len(baseMethods)))]
			goName := base
			if proto {
				goName = "P" + base
			}
			switch ((m.Int(1) % 3) + 3) % 3 {
			case 1:
				return ty + ".h." + goName, good // the Go method name
			case 2:
				return ty + ".h." + strings.ToUpper(goName), good
			}
			return ty + ".H." + strings.ToLower(goName), good // capitalised group
		}
	}
	panic("c02: bad route term " + r.Name)
}

type conn struct {
	id     int64
	cl     *e2e.Client
	closed bool
	kept   bool   // the server answered on after a message it cannot decode
	slot   int64  // the op's numeric-id slot
	abs    uint32 // the session id the front was made to allocate
}

// numeric session id of a slot: slot 0 is the largest id (the next allocation wraps and skips
// 0), positive slots are the small ids after the wrap, negative ones lie just below the top
func absId(slot int64) uint32 {
	if slot >= 1 {
		return uint32(slot)
	}
	return uint32(int64(4294967295) + slot)
}

// unwrap removes the H wrapper of ordinary client operations
func unwrap(o hx.T) hx.T {
	if o.Name == "H" {
		return o.Term(0)
	}
	return o
}

// Wrap puts ordinary client operations into the H constructor of Corr.hop
func Wrap(ops []hx.T) []hx.T {
	out := make([]hx.T, len(ops))
	for i, o := range ops {
		if o.Name == "HBurst" || o.Name == "H" || o.Name == "HBadMsg" || o.Name == "HGone" {
			out[i] = o
		} else {
			out[i] = hx.C("H", o)
		}
	}
	return out
}

func payloadClass(ev e2e.Event, proto bool) any {
	if len(ev.Data) == 0 || (!proto && string(ev.Data) == "{}") {
		return "PNone" // no content (an all-default result is "{}" under JSON, zero bytes under protobuf)
	}
	if r, ok := e2e.DecodeReply(proto, ev.Data); ok && r.Kind == "echo" && e2e.InstOf(r.Svc) >= 0 {
		return hx.C("PReply", e2e.InstOf(r.Svc), r.T)
	}
	return "POther"
}

// Exec runs one case.
func Exec(n *e2e.Node, ops []hx.T) (obs any, nontrivial bool, xtags []string, err error) {
	conns := map[int64]*conn{}
	var order []int64
	open := func() []*e2e.Client {
		var l []*e2e.Client
		for _, id := range order {
			if c := conns[id]; !c.closed {
				l = append(l, c.cl)
			}
		}
		return l
	}
	n.TakeLog()
	type watch struct {
		stop, done chan struct{}
		max, cap   int
	}
	var watches []*watch
	defer func() {
		// no session of this case may survive into the next one (ids are reused on purpose)
		for _, c := range conns {
			if !c.closed {
				c.cl.NetId = c.abs
				if e := n.CloseAndWait(c.cl); e != nil && err == nil {
					err = e
				}
			}
		}
		if e := n.Settle(); e != nil && err == nil {
			err = e
		}
	}()
	// the client serializer is a configuration of the whole case
	proto := false
	for _, o := range ops {
		if unwrap(o).Name == "OProto" {
			proto = true
		}
	}
	if proto {
		n.SetProto(true)
		xtags = append(xtags, "serializer-proto")
		defer n.SetProto(false)
	}
	var lastAbs uint32
	for _, o := range ops {
		o = unwrap(o)
		switch o.Name {
		case "OConnect":
			id, slot := o.Int(0), o.Int(2)
			if conns[id] != nil {
				continue
			}
			live := false
			for _, c := range conns {
				if !c.closed && c.slot == slot {
					live = true // the allocator never hands out the id of a live connection
				}
			}
			if live {
				continue
			}
			abs := absId(slot)
			if !(abs == 1 && lastAbs == 4294967295) { // else: let the allocator wrap and skip 0 itself
				if e := n.SetNextSessionId(abs); e != nil {
					return nil, false, nil, e
				}
			}
			lastAbs = abs
			if o.Bool(1) {
				n.BusyFront(25 * time.Millisecond)
			}
			cl, e := e2e.Dial(n.Addr)
			if e != nil {
				return nil, false, nil, e
			}
			conns[id] = &conn{id: id, cl: cl, slot: slot, abs: abs}
			order = append(order, id)
			if !o.Bool(1) {
				if e := n.Sentinel(cl); e != nil {
					return nil, false, nil, e
				}
				if cl.NetId != abs {
					return nil, false, nil, fmt.Errorf("c02: connection got session id %d, wanted %d", cl.NetId, abs)
				}
			}
		case "HBurst":
			c := conns[o.Int(0)]
			if c == nil || c.closed || c.cl.NotReady {
				continue
			}
			mid0, tag0, pad, nl, nf := o.Int(1), o.Int(2), o.Int(3), o.Int(4), o.Int(5)
			if e := n.Sentinel(c.cl); e != nil {
				return nil, false, nil, e
			}
			sess, e := n.ClientSessionOf(c.cl.NetId)
			if e != nil {
				return nil, false, nil, e
			}
			w := &watch{stop: make(chan struct{}), done: make(chan struct{})}
			watches = append(watches, w)
			go func() {
				w.max, w.cap = n.WatchSendQueue(sess, w.stop)
				close(w.done)
			}()
			c.cl.Stall(1500 * time.Millisecond)
			for i := int64(0); i < nl+nf; i++ {
				route := "gate.h.big"
				if i >= nl {
					route = "room.h.big"
				}
				if proto {
					route = strings.Replace(route, ".big", ".pbig", 1)
				}
				pl := e2e.EncodeArg(proto, map[string]any{"T": tag0 + i, "Pad": pad})
				if e := c.cl.Request(uint64(mid0+i), route, pl); e != nil {
					return nil, false, nil, e
				}
			}
			// let the client resume reading and swallow the backlog before anything else is asked of
			// this connection: the driver's own sentinel must not depend on a full send queue
			stallEnd := time.Now().Add(1500 * time.Millisecond)
			for idle := 0; idle < 3 && time.Now().Before(stallEnd.Add(10*time.Second)); {
				before := c.cl.Count()
				time.Sleep(100 * time.Millisecond)
				l, _, ok := n.SendQueueLen(sess)
				if time.Now().After(stallEnd) && c.cl.Count() == before && (!ok || l == 0) {
					idle++
				} else {
					idle = 0
				}
			}
		case "OReq":
			c := conns[o.Int(0)]
			if c == nil || c.closed {
				continue
			}
			rt, pl := routeAndPayload(o.Term(2), o.Int(3), proto)
			if e := c.cl.Request(hx.U64(o.Args[1]), rt, pl); e != nil {
				return nil, false, nil, e
			}
		case "ONotify":
			c := conns[o.Int(0)]
			if c == nil || c.closed {
				continue
			}
			rt, pl := routeAndPayload(o.Term(1), o.Int(2), proto)
			if e := c.cl.Notify(rt, pl); e != nil {
				return nil, false, nil, e
			}
		case "OProto":
		case "OHandshake":
			c := conns[o.Int(0)]
			if c == nil || c.closed || c.cl.NotReady {
				continue
			}
			if c.cl.NetId == 0 {
				if e := n.Sentinel(c.cl); e != nil {
					return nil, false, nil, e
				}
			}
			if e := c.cl.Rehandshake(); e != nil {
				return nil, false, nil, e
			}
		case "OAck":
			c := conns[o.Int(0)]
			if c == nil || c.closed {
				continue
			}
			if e := c.cl.Ack(); e != nil {
				return nil, false, nil, e
			}
		case "OHeartbeat":
			c := conns[o.Int(0)]
			if c == nil || c.closed {
				continue
			}
			if e := c.cl.Heartbeat(); e != nil {
				return nil, false, nil, e
			}
		case "OAdvance":
			if e := n.Advance(open()); e != nil {
				return nil, false, nil, e
			}
		case "OClose":
			c := conns[o.Int(0)]
			if c == nil || c.closed {
				continue
			}
			if e := n.Drain(open()); e != nil {
				return nil, false, nil, e
			}
			if e := n.CloseAndWait(c.cl); e != nil {
				return nil, false, nil, e
			}
			c.closed = true
		case "HBadMsg":
			// a well-framed packet with an undecodable message: the server must end the connection
			c := conns[o.Int(0)]
			if c == nil || c.closed {
				continue
			}
			if c.cl.NotReady {
				// in the handshake state the server ignores data packets altogether
				if e := c.cl.BadMessage(hx.U64(o.Args[1]), o.Int(2)); e != nil {
					return nil, false, nil, e
				}
				continue
			}
			if e := n.Drain(open()); e != nil {
				return nil, false, nil, e
			}
			if e := c.cl.BadMessage(hx.U64(o.Args[1]), o.Int(2)); e != nil {
				return nil, false, nil, e
			}
			// either the connection ends or the sentinel behind the bad message is answered
			if e := n.Sentinel(c.cl); e != nil {
				return nil, false, nil, e
			}
			if c.cl.Closed() || c.cl.WaitClosed(20*time.Millisecond) {
				if e := n.CloseAndWait(c.cl); e != nil {
					return nil, false, nil, e
				}
				c.closed = true
			} else {
				c.kept = true // the server kept a connection it has to end: reported as an impossible response
			}
		case "HGone":
			// notifications, then the client goes away without waiting, while the front-ends are busy
			c := conns[o.Int(0)]
			if c == nil || c.closed {
				continue
			}
			if e := n.Drain(open()); e != nil {
				return nil, false, nil, e
			}
			if c.cl.NetId == 0 {
				c.cl.NetId = c.abs
			}
			n.BusyFront(time.Duration(o.Int(1)) * time.Millisecond)
			for _, x := range o.List(2) {
				pr := x.(hx.Pair)
				rt, pl := routeAndPayload(hx.AsTerm(pr.A), pr.B.(int64), proto)
				if e := c.cl.Notify(rt, pl); e != nil {
					return nil, false, nil, e
				}
			}
			if e := n.CloseAndWait(c.cl); e != nil {
				return nil, false, nil, e
			}
			c.closed = true
		default:
			return nil, false, nil, fmt.Errorf("c02: unknown op %s", o.Name)
		}
	}
	// a connection still in the handshake state acknowledges now (the final drain needs sentinels;
	// the ack itself changes nothing the server owes)
	for _, c := range conns {
		if !c.closed && c.cl.NotReady {
			if e := n.Drain(open()); e != nil {
				return nil, false, nil, e
			}
			if e := c.cl.Ack(); e != nil {
				return nil, false, nil, e
			}
		}
	}
	// quiescence: everything in flight delivered, every timeout crossed, every byte read
	if e := n.Advance(open()); e != nil {
		return nil, false, nil, e
	}
	for _, w := range watches {
		close(w.stop)
		<-w.done
		if w.cap > 0 && w.max >= w.cap {
			xtags = append(xtags, "send-queue-filled")
		} else {
			xtags = append(xtags, fmt.Sprintf("send-queue-max-%dk", w.max/1000))
		}
	}
	perConn := []any{}
	sort.Slice(order, func(i, j int) bool { return order[i] < order[j] })
	for _, id := range order {
		rs := []any{}
		type rk struct {
			mid uint64
			err bool
			p   string
		}
		evs := conns[id].cl.Events()
		var keep []e2e.Event
		for _, ev := range evs {
			if ev.Push || (ev.Mid >= e2e.SentinelLo && ev.Mid < e2e.SentinelHi) {
				continue
			}
			keep = append(keep, ev)
		}
		sort.SliceStable(keep, func(i, j int) bool {
			a, b := keep[i], keep[j]
			if a.Mid != b.Mid {
				return a.Mid < b.Mid
			}
			if a.Err != b.Err {
				return !a.Err
			}
			return string(a.Data) < string(b.Data)
		})
		for _, ev := range keep {
			rs = append(rs, hx.C("Resp", ev.Mid, ev.Err, payloadClass(ev, proto)))
			nontrivial = true
		}
		if conns[id].kept {
			// (no model ever answers under request id 0: C02_never_id_zero)
			rs = append(rs, hx.C("Resp", uint64(0), true, "PNone"))
		}
		perConn = append(perConn, hx.Pair{A: id, B: rs})
	}
	hl := []any{}
	log := n.TakeLog()
	sort.SliceStable(log, func(i, j int) bool {
		if log[i].T != log[j].T {
			return log[i].T < log[j].T
		}
		return log[i].Inst < log[j].Inst
	})
	for _, iv := range log {
		hl = append(hl, hx.Pair{A: iv.Inst, B: iv.T})
	}
	return hx.Pair{A: perConn, B: hl}, nontrivial, xtags, nil
}

func Run(cfg *hx.Config) error {
	n, err := e2e.Boot(cfg.Scratch)
	if err != nil {
		return err
	}
	nbroken := 0
	emit := func(kind string, ops []hx.T, tags []string) error {
		ops = Wrap(ops)
		obs, nt, xt, err := Exec(n, ops)
		tags = append(append([]string{}, tags...), xt...)
		note := ""
		if err != nil {
			// the implementation stopped answering (a sentinel or barrier timed out): emit an
			// observation no model produces (a connection listed twice) so that the case is
			// reported and shrunk like any other; give up when it keeps happening
			nbroken++
			note = err.Error()
			obs = hx.Pair{A: []any{hx.Pair{A: int64(0), B: []any{}}, hx.Pair{A: int64(0), B: []any{}}}, B: []any{}}
		}
		cfg.Emit(hx.Case{Kind: kind, Ops: ops, Obs: obs, Nontrivial: nt, Tags: tags, Note: note})
		return nil
	}
	if cfg.In != "" {
		cs, err := hx.ReadCases(cfg.In)
		if err != nil {
			return err
		}
		for _, c := range cs {
			if err := emit("replay", hx.Terms(c.Ops), c.Tags); err != nil {
				return err
			}
		}
		return nil
	}
	for _, ops := range fixedCases(cfg.Tier) {
		if nbroken >= 4 {
			break
		}
		if err := emit("fixed", ops, nil); err != nil {
			return err
		}
	}
	for i := 0; i < cfg.N && nbroken < 4; i++ {
		// (a case in which the implementation stopped answering costs a time-out; after a few
		// of them the run ends early - what was emitted is reported and shrunk as usual)
		ops, tags := gen(cfg, i)
		if err := emit("random", ops, tags); err != nil {
			return err
		}
	}
	return nil
}
