// Package c02 drives the shared in-process node (harness/e2e) with raw pomelo clients:
// per case a list of client actions over several connections; observables are, per
// connection, the multiset of (id, error flag, payload class) responses received until
// quiescence, and the handler invocation log (instance, tag).
package c02

import (
	"encoding/json"
	"fmt"
	"sort"
	"time"

	"verifh/e2e"
	"verifh/hx"
)

var typeNames = map[int64]string{0: "gate", 1: "chat", 2: "room", 7: "ghost"}

// key value -> content of the session's routing key
func keyName(v int64) string {
	switch v {
	case 0:
		return ""
	case 1, 2:
		return fmt.Sprintf("chat-%d", v)
	case 3:
		return "room-1" // exists, but is not a chat
	}
	return fmt.Sprintf("chat-%d", v) // no such instance
}

func routeAndPayload(r hx.T, tag int64) (string, []byte) {
	good, _ := json.Marshal(map[string]any{"T": tag})
	switch r.Name {
	case "RMalformed":
		switch r.Int(0) {
		case 0:
			return "", good
		case 1:
			return "gate", good
		case 2:
			return "gate.h", good
		case 3:
			return "chat.h", good
		case 4:
			return "gate.h.echo.x", good
		}
		return "chat.h.echo.x.y", good
	case "RT":
		ty, ok := typeNames[r.Int(0)]
		if !ok {
			ty = fmt.Sprintf("ghost%d", r.Int(0))
		}
		m := hx.AsTerm(r.Args[1])
		switch m.Name {
		case "MSetKey":
			pl, _ := json.Marshal(map[string]any{"T": tag, "Key": keyName(m.Int(0))})
			return ty + ".h.setkey", pl
		case "MEcho":
			return ty + ".h.echo", good
		case "MFail":
			return ty + ".h.fail", good
		case "MBoom":
			return ty + ".h.boom", good
		case "MNever":
			return ty + ".h.never", good
		case "MNote":
			return ty + ".h.note", good
		case "MNoMethod":
			return ty + ".h.nosuch", good
		case "MNoGroup":
			return ty + ".g.echo", good
		case "MUnenc":
			return ty + ".h.unenc", good
		case "MBadPayload":
			return ty + ".h.echo", []byte(`{"T":`)
		}
	}
	panic("c02: bad route term " + r.Name)
}

type conn struct {
	id     int64
	cl     *e2e.Client
	closed bool
}

func payloadClass(ev e2e.Event) any {
	if len(ev.Data) == 0 {
		return "PNone"
	}
	var r e2e.Reply
	if json.Unmarshal(ev.Data, &r) == nil && r.Kind == "echo" && e2e.InstOf(r.Svc) >= 0 {
		return hx.C("PReply", e2e.InstOf(r.Svc), r.T)
	}
	return "POther"
}

// Exec runs one case.
func Exec(n *e2e.Node, ops []hx.T) (obs any, nontrivial bool, err error) {
	conns := map[int64]*conn{}
	var order []int64
	open := func() []*e2e.Client {
		var l []*e2e.Client
		for _, id := range order {
			if c := conns[id]; !c.closed {
				l = append(l, c.cl)
			}
		}
		return l
	}
	n.TakeLog()
	defer func() {
		for _, c := range conns {
			if !c.closed {
				c.cl.Close()
			}
		}
		if err == nil {
			err = n.Settle()
		}
	}()
	for _, o := range ops {
		switch o.Name {
		case "OConnect":
			id := o.Int(0)
			if conns[id] != nil {
				continue
			}
			if o.Bool(1) {
				n.BusyFront(25 * time.Millisecond)
			}
			cl, e := e2e.Dial(n.Addr)
			if e != nil {
				return nil, false, e
			}
			conns[id] = &conn{id: id, cl: cl}
			order = append(order, id)
			if !o.Bool(1) {
				if e := n.Sentinel(cl); e != nil {
					return nil, false, e
				}
			}
		case "OReq":
			c := conns[o.Int(0)]
			if c == nil || c.closed {
				continue
			}
			rt, pl := routeAndPayload(o.Term(2), o.Int(3))
			if e := c.cl.Request(hx.U64(o.Args[1]), rt, pl); e != nil {
				return nil, false, e
			}
		case "ONotify":
			c := conns[o.Int(0)]
			if c == nil || c.closed {
				continue
			}
			rt, pl := routeAndPayload(o.Term(1), o.Int(2))
			if e := c.cl.Notify(rt, pl); e != nil {
				return nil, false, e
			}
		case "OAdvance":
			if e := n.Advance(open()); e != nil {
				return nil, false, e
			}
		case "OClose":
			c := conns[o.Int(0)]
			if c == nil || c.closed {
				continue
			}
			if e := n.Drain(open()); e != nil {
				return nil, false, e
			}
			if e := n.CloseAndWait(c.cl); e != nil {
				return nil, false, e
			}
			c.closed = true
		default:
			return nil, false, fmt.Errorf("c02: unknown op %s", o.Name)
		}
	}
	// quiescence: everything in flight delivered, every timeout crossed, every byte read
	if e := n.Advance(open()); e != nil {
		return nil, false, e
	}
	perConn := []any{}
	sort.Slice(order, func(i, j int) bool { return order[i] < order[j] })
	for _, id := range order {
		rs := []any{}
		type rk struct {
			mid uint64
			err bool
			p   string
		}
		evs := conns[id].cl.Events()
		var keep []e2e.Event
		for _, ev := range evs {
			if ev.Push || (ev.Mid >= e2e.SentinelLo && ev.Mid < e2e.SentinelHi) {
				continue
			}
			keep = append(keep, ev)
		}
		sort.SliceStable(keep, func(i, j int) bool {
			a, b := keep[i], keep[j]
			if a.Mid != b.Mid {
				return a.Mid < b.Mid
			}
			if a.Err != b.Err {
				return !a.Err
			}
			return string(a.Data) < string(b.Data)
		})
		for _, ev := range keep {
			rs = append(rs, hx.C("Resp", ev.Mid, ev.Err, payloadClass(ev)))
			nontrivial = true
		}
		perConn = append(perConn, hx.Pair{A: id, B: rs})
	}
	hl := []any{}
	log := n.TakeLog()
	sort.SliceStable(log, func(i, j int) bool {
		if log[i].T != log[j].T {
			return log[i].T < log[j].T
		}
		return log[i].Inst < log[j].Inst
	})
	for _, iv := range log {
		hl = append(hl, hx.Pair{A: iv.Inst, B: iv.T})
	}
	return hx.Pair{A: perConn, B: hl}, nontrivial, nil
}

func Run(cfg *hx.Config) error {
	n, err := e2e.Boot(cfg.Scratch)
	if err != nil {
		return err
	}
	nbroken := 0
	emit := func(kind string, ops []hx.T, tags []string) error {
		obs, nt, err := Exec(n, ops)
		note := ""
		if err != nil {
			// the implementation stopped answering (a sentinel or barrier timed out): emit an
			// observation no model produces (a connection listed twice) so that the case is
			// reported and shrunk like any other; give up when it keeps happening
			nbroken++
			if nbroken > 5 {
				return fmt.Errorf("case %d (%s): %v (giving up after %d broken cases)", cfg.Emitted(), kind, err, nbroken)
			}
			note = err.Error()
			obs = hx.Pair{A: []any{hx.Pair{A: int64(0), B: []any{}}, hx.Pair{A: int64(0), B: []any{}}}, B: []any{}}
		}
		cfg.Emit(hx.Case{Kind: kind, Ops: ops, Obs: obs, Nontrivial: nt, Tags: tags, Note: note})
		return nil
	}
	if cfg.In != "" {
		cs, err := hx.ReadCases(cfg.In)
		if err != nil {
			return err
		}
		for _, c := range cs {
			if err := emit("replay", hx.Terms(c.Ops), c.Tags); err != nil {
				return err
			}
		}
		return nil
	}
	for _, ops := range fixedCases() {
		if err := emit("fixed", ops, nil); err != nil {
			return err
		}
	}
	for i := 0; i < cfg.N; i++ {
		ops, tags := gen(cfg, i)
		if err := emit("random", ops, tags); err != nil {
			return err
		}
	}
	return nil
}
