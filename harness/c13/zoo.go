// Code generated once by a throw-away script (grid of method shapes); committed, edit by hand if needed.
//
// The zoo: entry types whose methods cover every combination DefaultFormater.IsValidMethod
// distinguishes (arity 1-5, pointer/non-pointer context and message, context implementing
// IContext or not, func (assignable / not assignable from HandlerCBFunc) / non-func fourth
// parameter, variadic, results, exported/unexported names, value/pointer receivers, name
// collisions under the naming functions).  Every method body reports to act() and then behaves
// as the call's behaviour code says.
package c13

import (
	"reflect"

	api "github.com/dfklegend/cell2/apimapper"
	"github.com/dfklegend/cell2/apimapper/apientry"
	"github.com/dfklegend/cell2/utils/serialize/proto/msgs"
)

type Z01 struct{ api.APIEntry }

func (z *Z01) Join(c *api.DummyContext, m *MsgA, cb apientry.HandlerCBFunc) {
	act(101, m == nil, func() int64 { return tok(m) }, cbA(cb))
}
func (z *Z01) Note(c *api.DummyContext, m *MsgA) {
	act(102, m == nil, func() int64 { return tok(m) }, nil)
}
func (z *Z01) hidden(c *api.DummyContext, m *MsgA, cb apientry.HandlerCBFunc) {
	act(103, m == nil, func() int64 { return tok(m) }, cbA(cb))
}

type Z02 struct{ api.APIEntry }

func (z *Z02) Join(c *ZCtx, m *MsgB, cb func(error, interface{})) {
	act(201, m == nil, func() int64 { return tok(m) }, cbF(cb))
}
func (z *Z02) Push(c *ZCtx, m *msgs.TestHello, cb apientry.HandlerCBFunc) {
	act(202, m == nil, func() int64 { return tok(m) }, cbA(cb))
}
func (z *Z02) Note(c *ZCtx, m *msgs.TestHello) {
	act(203, m == nil, func() int64 { return tok(m) }, nil)
}

type Z03 struct{ api.APIEntry }

func (z *Z03) None()                   { act(301, true, func() int64 { return 0 }, nil) }
func (z *Z03) One(c *api.DummyContext) { act(302, true, func() int64 { return 0 }, nil) }
func (z *Z03) Five(c *api.DummyContext, m *MsgA, cb apientry.HandlerCBFunc, x int) {
	act(303, m == nil, func() int64 { return tok(m) }, cbA(cb))
}

type Z04 struct{ api.APIEntry }

func (z *Z04) A1(c api.DummyContext, m *MsgA, cb apientry.HandlerCBFunc) {
	act(401, m == nil, func() int64 { return tok(m) }, cbA(cb))
}
func (z *Z04) A2(c VCtx, m *MsgA, cb apientry.HandlerCBFunc) {
	act(402, m == nil, func() int64 { return tok(m) }, cbA(cb))
}
func (z *Z04) A3(c api.IContext, m *MsgA, cb apientry.HandlerCBFunc) {
	act(403, m == nil, func() int64 { return tok(m) }, cbA(cb))
}
func (z *Z04) A4(c int, m *MsgA, cb apientry.HandlerCBFunc) {
	act(404, m == nil, func() int64 { return tok(m) }, cbA(cb))
}
func (z *Z04) Ok(c *api.DummyContext, m *MsgA, cb apientry.HandlerCBFunc) {
	act(405, m == nil, func() int64 { return tok(m) }, cbA(cb))
}

type Z05 struct{ api.APIEntry }

func (z *Z05) B1(c *NoCtx, m *MsgA, cb apientry.HandlerCBFunc) {
	act(501, m == nil, func() int64 { return tok(m) }, cbA(cb))
}
func (z *Z05) B2(c *NoCtx, m *MsgA) { act(502, m == nil, func() int64 { return tok(m) }, nil) }
func (z *Z05) Ok2(c *VCtx, m *MsgA) { act(503, m == nil, func() int64 { return tok(m) }, nil) }

type Z06 struct{ api.APIEntry }

func (z *Z06) C1(c *api.DummyContext, m MsgA, cb apientry.HandlerCBFunc) {
	act(601, false, func() int64 { return tok(m) }, cbA(cb))
}
func (z *Z06) C2(c *api.DummyContext, m int, cb apientry.HandlerCBFunc) {
	act(602, false, func() int64 { return tok(m) }, cbA(cb))
}
func (z *Z06) C3(c *api.DummyContext, m string) {
	act(603, false, func() int64 { return tok(m) }, nil)
}
func (z *Z06) C4(c *api.DummyContext, m interface{}, cb apientry.HandlerCBFunc) {
	act(604, m == nil, func() int64 { return tok(m) }, cbA(cb))
}
func (z *Z06) C5(c *api.DummyContext, m MsgA) {
	act(605, false, func() int64 { return tok(m) }, nil)
}
func (z *Z06) Ok(c *api.DummyContext, m **MsgA, cb apientry.HandlerCBFunc) {
	act(606, m == nil, func() int64 { return tok(m) }, cbA(cb))
}
func (z *Z06) Ok2(c *api.DummyContext, m *int, cb func(error, interface{})) {
	act(607, m == nil, func() int64 { return tok(m) }, cbF(cb))
}

type Z07 struct{ api.APIEntry }

func (z *Z07) D1(c *api.DummyContext, m *MsgA, cb int) {
	act(701, m == nil, func() int64 { return tok(m) }, nil)
}
func (z *Z07) D2(c *api.DummyContext, m *MsgA, cb interface{}) {
	act(702, m == nil, func() int64 { return tok(m) }, nil)
}
func (z *Z07) D3(c *api.DummyContext, m *MsgA, cb *MsgA) {
	act(703, m == nil, func() int64 { return tok(m) }, nil)
}
func (z *Z07) D4(c *api.DummyContext, m *MsgA, cb func()) {
	act(704, m == nil, func() int64 { return tok(m) }, nil)
}
func (z *Z07) D5(c *api.DummyContext, m *MsgA, cb OtherCB) {
	act(705, m == nil, func() int64 { return tok(m) }, nil)
}
func (z *Z07) D6(c *api.DummyContext, m *MsgA, cb func(error, interface{})) {
	act(706, m == nil, func() int64 { return tok(m) }, cbF(cb))
}

type Z08 struct{ api.APIEntry }

func (z *Z08) JOIN(c *api.DummyContext, m *MsgA, cb apientry.HandlerCBFunc) {
	act(801, m == nil, func() int64 { return tok(m) }, cbA(cb))
}
func (z *Z08) Join(c *api.DummyContext, m *MsgB, cb apientry.HandlerCBFunc) {
	act(802, m == nil, func() int64 { return tok(m) }, cbA(cb))
}
func (z *Z08) JoIn(c *api.DummyContext, m *MsgA) {
	act(803, m == nil, func() int64 { return tok(m) }, nil)
}
func (z *Z08) join(c *api.DummyContext, m *MsgA, cb apientry.HandlerCBFunc) {
	act(804, m == nil, func() int64 { return tok(m) }, cbA(cb))
}

type Z09 struct{}

func (Z09) Desc() string { return "Z09" }

func (z Z09) Val(c *api.DummyContext, m *MsgA, cb apientry.HandlerCBFunc) {
	act(901, m == nil, func() int64 { return tok(m) }, cbA(cb))
}
func (z *Z09) Ptr(c *api.DummyContext, m *MsgA, cb apientry.HandlerCBFunc) {
	act(902, m == nil, func() int64 { return tok(m) }, cbA(cb))
}
func (z Z09) ValNote(c *api.DummyContext, m *MsgB) {
	act(903, m == nil, func() int64 { return tok(m) }, nil)
}

type zlow struct{ api.APIEntry }

func (z *zlow) Join(c *api.DummyContext, m *MsgA, cb apientry.HandlerCBFunc) {
	act(1001, m == nil, func() int64 { return tok(m) }, cbA(cb))
}
func (z *zlow) Note(c *api.DummyContext, m *MsgA) {
	act(1002, m == nil, func() int64 { return tok(m) }, nil)
}

type Z12 struct{ api.APIEntry }

func (z *Z12) N1(c *api.DummyContext, m *MsgA) {
	act(1101, m == nil, func() int64 { return tok(m) }, nil)
}
func (z *Z12) N2(c *ZCtx, m *MsgB) { act(1102, m == nil, func() int64 { return tok(m) }, nil) }

type Z13 struct{ api.APIEntry }

func (z *Z13) P1(c *api.DummyContext, m *msgs.TestHello, cb apientry.HandlerCBFunc) {
	act(1201, m == nil, func() int64 { return tok(m) }, cbA(cb))
}
func (z *Z13) P2(c *api.DummyContext, m *msgs.TestHello) {
	act(1202, m == nil, func() int64 { return tok(m) }, nil)
}
func (z *Z13) J1(c *api.DummyContext, m *MsgA, cb apientry.HandlerCBFunc) {
	act(1203, m == nil, func() int64 { return tok(m) }, cbA(cb))
}

type Z14 struct{ api.APIEntry }

func (z *Z14) E1(c *api.DummyContext, m *MsgA, cb apientry.HandlerCBFunc, x apientry.HandlerCBFunc) {
	act(1301, m == nil, func() int64 { return tok(m) }, cbA(cb))
}
func (z *Z14) E2(c *api.DummyContext, m *MsgA, cb ...apientry.HandlerCBFunc) {
	act(1302, m == nil, func() int64 { return tok(m) }, nil)
}
func (z *Z14) E3(c *api.DummyContext, m *MsgA, cb apientry.HandlerCBFunc) {
	act(1303, m == nil, func() int64 { return tok(m) }, cbA(cb))
}

type Z15 struct{ api.APIEntry }

func (z *Z15) R1(c *api.DummyContext, m *MsgA, cb apientry.HandlerCBFunc) error {
	act(1401, m == nil, func() int64 { return tok(m) }, cbA(cb))
	return nil
}
func (z *Z15) R2(c *api.DummyContext, m *MsgA) int {
	act(1402, m == nil, func() int64 { return tok(m) }, nil)
	return 0
}

type Z16 struct{ api.APIEntry }

func (z *Z16) X_1(c *VCtx, m *MsgB, cb func(error, interface{})) {
	act(1501, m == nil, func() int64 { return tok(m) }, cbF(cb))
}
func (z *Z16) Y2z(c *VCtx, m *MsgB)    { act(1502, m == nil, func() int64 { return tok(m) }, nil) }
func (z *Z16) notexp(c *VCtx, m *MsgB) { act(1503, m == nil, func() int64 { return tok(m) }, nil) }

type Z17 struct{}

func (Z17) Desc() string { return "Z17" }

func (z *Z17) OnlyPtr(c *api.DummyContext, m *MsgA, cb apientry.HandlerCBFunc) {
	act(1601, m == nil, func() int64 { return tok(m) }, cbA(cb))
}

type Z18 struct{ api.APIEntry }

func (z *Z18) hid1(c *api.DummyContext, m *MsgA, cb apientry.HandlerCBFunc) {
	act(1701, m == nil, func() int64 { return tok(m) }, cbA(cb))
}
func (z *Z18) hid2(c *api.DummyContext, m *MsgA) {
	act(1702, m == nil, func() int64 { return tok(m) }, nil)
}

type Z19 struct{ api.APIEntry }

func (z *Z19) Aa(c *api.DummyContext, m *MsgA, cb apientry.HandlerCBFunc) {
	act(1801, m == nil, func() int64 { return tok(m) }, cbA(cb))
}
func (z *Z19) AA(c *api.DummyContext, m *MsgB) {
	act(1802, m == nil, func() int64 { return tok(m) }, nil)
}
func (z *Z19) aA(c *api.DummyContext, m *MsgA) {
	act(1803, m == nil, func() int64 { return tok(m) }, nil)
}
func (z *Z19) Ab(c *ZCtx, m *msgs.TestHello, cb apientry.HandlerCBFunc) {
	act(1804, m == nil, func() int64 { return tok(m) }, cbA(cb))
}

type Gpi struct{ api.APIEntry }

func (z *Gpi) MPNone(c *api.DummyContext, m *MsgA) {
	act(1901, m == nil, func() int64 { return tok(m) }, nil)
}
func (z *Gpi) MPFit(c *api.DummyContext, m *MsgA, cb apientry.HandlerCBFunc) {
	act(1902, m == nil, func() int64 { return tok(m) }, cbA(cb))
}
func (z *Gpi) MPUnfit(c *api.DummyContext, m *MsgA, cb func()) {
	act(1903, m == nil, func() int64 { return tok(m) }, nil)
}
func (z *Gpi) MPNonf(c *api.DummyContext, m *MsgA, cb int) {
	act(1904, m == nil, func() int64 { return tok(m) }, nil)
}
func (z *Gpi) MVNone(c *api.DummyContext, m MsgA) {
	act(1905, false, func() int64 { return tok(m) }, nil)
}
func (z *Gpi) MVFit(c *api.DummyContext, m MsgA, cb apientry.HandlerCBFunc) {
	act(1906, false, func() int64 { return tok(m) }, cbA(cb))
}
func (z *Gpi) MVUnfit(c *api.DummyContext, m MsgA, cb func()) {
	act(1907, false, func() int64 { return tok(m) }, nil)
}
func (z *Gpi) MVNonf(c *api.DummyContext, m MsgA, cb int) {
	act(1908, false, func() int64 { return tok(m) }, nil)
}

type Gpn struct{ api.APIEntry }

func (z *Gpn) MPNone(c *NoCtx, m *MsgA) { act(2001, m == nil, func() int64 { return tok(m) }, nil) }
func (z *Gpn) MPFit(c *NoCtx, m *MsgA, cb apientry.HandlerCBFunc) {
	act(2002, m == nil, func() int64 { return tok(m) }, cbA(cb))
}
func (z *Gpn) MPUnfit(c *NoCtx, m *MsgA, cb func()) {
	act(2003, m == nil, func() int64 { return tok(m) }, nil)
}
func (z *Gpn) MPNonf(c *NoCtx, m *MsgA, cb int) {
	act(2004, m == nil, func() int64 { return tok(m) }, nil)
}
func (z *Gpn) MVNone(c *NoCtx, m MsgA) { act(2005, false, func() int64 { return tok(m) }, nil) }
func (z *Gpn) MVFit(c *NoCtx, m MsgA, cb apientry.HandlerCBFunc) {
	act(2006, false, func() int64 { return tok(m) }, cbA(cb))
}
func (z *Gpn) MVUnfit(c *NoCtx, m MsgA, cb func()) {
	act(2007, false, func() int64 { return tok(m) }, nil)
}
func (z *Gpn) MVNonf(c *NoCtx, m MsgA, cb int) {
	act(2008, false, func() int64 { return tok(m) }, nil)
}

type Gvi struct{ api.APIEntry }

func (z *Gvi) MPNone(c VCtx, m *MsgA) { act(2101, m == nil, func() int64 { return tok(m) }, nil) }
func (z *Gvi) MPFit(c VCtx, m *MsgA, cb apientry.HandlerCBFunc) {
	act(2102, m == nil, func() int64 { return tok(m) }, cbA(cb))
}
func (z *Gvi) MPUnfit(c VCtx, m *MsgA, cb func()) {
	act(2103, m == nil, func() int64 { return tok(m) }, nil)
}
func (z *Gvi) MPNonf(c VCtx, m *MsgA, cb int) {
	act(2104, m == nil, func() int64 { return tok(m) }, nil)
}
func (z *Gvi) MVNone(c VCtx, m MsgA) { act(2105, false, func() int64 { return tok(m) }, nil) }
func (z *Gvi) MVFit(c VCtx, m MsgA, cb apientry.HandlerCBFunc) {
	act(2106, false, func() int64 { return tok(m) }, cbA(cb))
}
func (z *Gvi) MVUnfit(c VCtx, m MsgA, cb func()) {
	act(2107, false, func() int64 { return tok(m) }, nil)
}
func (z *Gvi) MVNonf(c VCtx, m MsgA, cb int) {
	act(2108, false, func() int64 { return tok(m) }, nil)
}

type Gvn struct{ api.APIEntry }

func (z *Gvn) MPNone(c api.DummyContext, m *MsgA) {
	act(2201, m == nil, func() int64 { return tok(m) }, nil)
}
func (z *Gvn) MPFit(c api.DummyContext, m *MsgA, cb apientry.HandlerCBFunc) {
	act(2202, m == nil, func() int64 { return tok(m) }, cbA(cb))
}
func (z *Gvn) MPUnfit(c api.DummyContext, m *MsgA, cb func()) {
	act(2203, m == nil, func() int64 { return tok(m) }, nil)
}
func (z *Gvn) MPNonf(c api.DummyContext, m *MsgA, cb int) {
	act(2204, m == nil, func() int64 { return tok(m) }, nil)
}
func (z *Gvn) MVNone(c api.DummyContext, m MsgA) {
	act(2205, false, func() int64 { return tok(m) }, nil)
}
func (z *Gvn) MVFit(c api.DummyContext, m MsgA, cb apientry.HandlerCBFunc) {
	act(2206, false, func() int64 { return tok(m) }, cbA(cb))
}
func (z *Gvn) MVUnfit(c api.DummyContext, m MsgA, cb func()) {
	act(2207, false, func() int64 { return tok(m) }, nil)
}
func (z *Gvn) MVNonf(c api.DummyContext, m MsgA, cb int) {
	act(2208, false, func() int64 { return tok(m) }, nil)
}

type Z20 struct{ api.APIEntry }

func (z *Z20) Join(c *VCtx, m *msgs.TestHello, cb apientry.HandlerCBFunc) {
	act(2301, m == nil, func() int64 { return tok(m) }, cbA(cb))
}
func (z *Z20) join(c *VCtx, m *msgs.TestHello, cb apientry.HandlerCBFunc) {
	act(2302, m == nil, func() int64 { return tok(m) }, cbA(cb))
}
func (z *Z20) JoinUs(c *VCtx, m *msgs.TestHello) {
	act(2303, m == nil, func() int64 { return tok(m) }, nil)
}
func (z *Z20) Join2(c *ZCtx, m *MsgB, cb func(error, interface{})) error {
	act(2304, m == nil, func() int64 { return tok(m) }, cbF(cb))
	return nil
}

type Z21 struct{ api.APIEntry }

func (z *Z21) U1(c *api.DummyContext, m *MsgB, cb func()) {
	act(2401, m == nil, func() int64 { return tok(m) }, nil)
}
func (z *Z21) U2(c *api.DummyContext, m *MsgB, cb OtherCB) {
	act(2402, m == nil, func() int64 { return tok(m) }, nil)
}
func (z *Z21) U3(c *api.DummyContext, m *MsgB, cb interface{}) {
	act(2403, m == nil, func() int64 { return tok(m) }, nil)
}
func (z *Z21) N1(c *api.DummyContext, m *MsgB) {
	act(2404, m == nil, func() int64 { return tok(m) }, nil)
}
func (z *Z21) N2(c *api.DummyContext, m *int) {
	act(2405, m == nil, func() int64 { return tok(m) }, nil)
}

type Z22 struct{ api.APIEntry }

func (z *Z22) Two(c *api.DummyContext, m *MsgA, cb apientry.HandlerCBFunc) (int, error) {
	act(2501, m == nil, func() int64 { return tok(m) }, cbA(cb))
	return 0, nil
}
func (z *Z22) Six(c *api.DummyContext, m *MsgA, cb apientry.HandlerCBFunc, x int, y string) {
	act(2502, m == nil, func() int64 { return tok(m) }, cbA(cb))
}
func (z *Z22) CtxOnly(c *ZCtx) { act(2503, true, func() int64 { return 0 }, nil) }

type Z23 struct{ *api.BaseAPIEntry }

func (z *Z23) Func1() { act(2601, true, func() int64 { return 0 }, nil) }
func (z *Z23) Func2(c *api.DummyContext, m *MsgA, cb func(error, interface{})) {
	act(2602, m == nil, func() int64 { return tok(m) }, cbF(cb))
}
func (z *Z23) Func3(c *api.DummyContext, m MsgA, cb func()) {
	act(2603, false, func() int64 { return tok(m) }, nil)
}
func (z *Z23) NotifyFunc2(c *api.DummyContext, m *MsgA) {
	act(2604, m == nil, func() int64 { return tok(m) }, nil)
}

type Z24 struct{}

func (Z24) Desc() string { return "Z24" }

func (z Z24) V1(c *ZCtx, m *MsgB, cb apientry.HandlerCBFunc) {
	act(2701, m == nil, func() int64 { return tok(m) }, cbA(cb))
}
func (z Z24) V2(c *ZCtx, m *MsgB) { act(2702, m == nil, func() int64 { return tok(m) }, nil) }
func (z *Z24) P1(c *ZCtx, m *msgs.TestHello, cb func(error, interface{})) {
	act(2703, m == nil, func() int64 { return tok(m) }, cbF(cb))
}
func (z Z24) v3(c *ZCtx, m *MsgB) { act(2704, m == nil, func() int64 { return tok(m) }, nil) }

type Z25 struct{ api.APIEntry }

func (z *Z25) Zz(c api.IContext, m *MsgA, cb apientry.HandlerCBFunc) {
	act(2801, m == nil, func() int64 { return tok(m) }, cbA(cb))
}
func (z *Z25) Zy(c api.IContext, m *MsgA) {
	act(2802, m == nil, func() int64 { return tok(m) }, nil)
}
func (z *Z25) Zx(c VCtx, m **MsgA, cb func(error, interface{})) {
	act(2803, m == nil, func() int64 { return tok(m) }, cbF(cb))
}
func (z *Z25) Zw(c api.DummyContext, m *int) {
	act(2804, m == nil, func() int64 { return tok(m) }, nil)
}

type lowerOnly struct{ api.APIEntry }

func (z *lowerOnly) Note(c *api.DummyContext, m *MsgA) {
	act(2901, m == nil, func() int64 { return tok(m) }, nil)
}

type Z27 struct{ api.APIEntry }

func (z *Z27) A(c *api.DummyContext, m *MsgA, cb apientry.HandlerCBFunc) {
	act(3001, m == nil, func() int64 { return tok(m) }, cbA(cb))
}
func (z *Z27) B(c *api.DummyContext, m *MsgA) {
	act(3002, m == nil, func() int64 { return tok(m) }, nil)
}
func (z *Z27) C(c *ZCtx, m *MsgB, cb apientry.HandlerCBFunc) {
	act(3003, m == nil, func() int64 { return tok(m) }, cbA(cb))
}
func (z *Z27) D(c *ZCtx, m *MsgB) { act(3004, m == nil, func() int64 { return tok(m) }, nil) }
func (z *Z27) E(c *VCtx, m *msgs.TestHello, cb func(error, interface{})) {
	act(3005, m == nil, func() int64 { return tok(m) }, cbF(cb))
}
func (z *Z27) F(c *VCtx, m *msgs.TestHello) {
	act(3006, m == nil, func() int64 { return tok(m) }, nil)
}

// uid of every zoo method, keyed by "GoTypeName.Method"
var uidByName = map[string]int64{
	"Z01.Join":        101,
	"Z01.Note":        102,
	"Z01.hidden":      103,
	"Z02.Join":        201,
	"Z02.Push":        202,
	"Z02.Note":        203,
	"Z03.None":        301,
	"Z03.One":         302,
	"Z03.Five":        303,
	"Z04.A1":          401,
	"Z04.A2":          402,
	"Z04.A3":          403,
	"Z04.A4":          404,
	"Z04.Ok":          405,
	"Z05.B1":          501,
	"Z05.B2":          502,
	"Z05.Ok2":         503,
	"Z06.C1":          601,
	"Z06.C2":          602,
	"Z06.C3":          603,
	"Z06.C4":          604,
	"Z06.C5":          605,
	"Z06.Ok":          606,
	"Z06.Ok2":         607,
	"Z07.D1":          701,
	"Z07.D2":          702,
	"Z07.D3":          703,
	"Z07.D4":          704,
	"Z07.D5":          705,
	"Z07.D6":          706,
	"Z08.JOIN":        801,
	"Z08.Join":        802,
	"Z08.JoIn":        803,
	"Z08.join":        804,
	"Z09.Val":         901,
	"Z09.Ptr":         902,
	"Z09.ValNote":     903,
	"zlow.Join":       1001,
	"zlow.Note":       1002,
	"Z12.N1":          1101,
	"Z12.N2":          1102,
	"Z13.P1":          1201,
	"Z13.P2":          1202,
	"Z13.J1":          1203,
	"Z14.E1":          1301,
	"Z14.E2":          1302,
	"Z14.E3":          1303,
	"Z15.R1":          1401,
	"Z15.R2":          1402,
	"Z16.X_1":         1501,
	"Z16.Y2z":         1502,
	"Z16.notexp":      1503,
	"Z17.OnlyPtr":     1601,
	"Z18.hid1":        1701,
	"Z18.hid2":        1702,
	"Z19.Aa":          1801,
	"Z19.AA":          1802,
	"Z19.aA":          1803,
	"Z19.Ab":          1804,
	"Gpi.MPNone":      1901,
	"Gpi.MPFit":       1902,
	"Gpi.MPUnfit":     1903,
	"Gpi.MPNonf":      1904,
	"Gpi.MVNone":      1905,
	"Gpi.MVFit":       1906,
	"Gpi.MVUnfit":     1907,
	"Gpi.MVNonf":      1908,
	"Gpn.MPNone":      2001,
	"Gpn.MPFit":       2002,
	"Gpn.MPUnfit":     2003,
	"Gpn.MPNonf":      2004,
	"Gpn.MVNone":      2005,
	"Gpn.MVFit":       2006,
	"Gpn.MVUnfit":     2007,
	"Gpn.MVNonf":      2008,
	"Gvi.MPNone":      2101,
	"Gvi.MPFit":       2102,
	"Gvi.MPUnfit":     2103,
	"Gvi.MPNonf":      2104,
	"Gvi.MVNone":      2105,
	"Gvi.MVFit":       2106,
	"Gvi.MVUnfit":     2107,
	"Gvi.MVNonf":      2108,
	"Gvn.MPNone":      2201,
	"Gvn.MPFit":       2202,
	"Gvn.MPUnfit":     2203,
	"Gvn.MPNonf":      2204,
	"Gvn.MVNone":      2205,
	"Gvn.MVFit":       2206,
	"Gvn.MVUnfit":     2207,
	"Gvn.MVNonf":      2208,
	"Z20.Join":        2301,
	"Z20.join":        2302,
	"Z20.JoinUs":      2303,
	"Z20.Join2":       2304,
	"Z21.U1":          2401,
	"Z21.U2":          2402,
	"Z21.U3":          2403,
	"Z21.N1":          2404,
	"Z21.N2":          2405,
	"Z22.Two":         2501,
	"Z22.Six":         2502,
	"Z22.CtxOnly":     2503,
	"Z23.Func1":       2601,
	"Z23.Func2":       2602,
	"Z23.Func3":       2603,
	"Z23.NotifyFunc2": 2604,
	"Z24.V1":          2701,
	"Z24.V2":          2702,
	"Z24.P1":          2703,
	"Z24.v3":          2704,
	"Z25.Zz":          2801,
	"Z25.Zy":          2802,
	"Z25.Zx":          2803,
	"Z25.Zw":          2804,
	"lowerOnly.Note":  2901,
	"Z27.A":           3001,
	"Z27.B":           3002,
	"Z27.C":           3003,
	"Z27.D":           3004,
	"Z27.E":           3005,
	"Z27.F":           3006,
	// promoted from api.APIEntry / declared on the zoo type
	"Z01.Desc":       199,
	"Z02.Desc":       299,
	"Z03.Desc":       399,
	"Z04.Desc":       499,
	"Z05.Desc":       599,
	"Z06.Desc":       699,
	"Z07.Desc":       799,
	"Z08.Desc":       899,
	"Z09.Desc":       999,
	"zlow.Desc":      1099,
	"Z12.Desc":       1199,
	"Z13.Desc":       1299,
	"Z14.Desc":       1399,
	"Z15.Desc":       1499,
	"Z16.Desc":       1599,
	"Z17.Desc":       1699,
	"Z18.Desc":       1799,
	"Z19.Desc":       1899,
	"Gpi.Desc":       1999,
	"Gpn.Desc":       2099,
	"Gvi.Desc":       2199,
	"Gvn.Desc":       2299,
	"Z20.Desc":       2399,
	"Z21.Desc":       2499,
	"Z22.Desc":       2599,
	"Z23.Desc":       2699,
	"Z24.Desc":       2799,
	"Z25.Desc":       2899,
	"lowerOnly.Desc": 2999,
	"Z27.Desc":       3099,
	// promoted into the unnamed struct type
	".Join": 101, ".Note": 102, ".Desc": 199,
}

// unexported methods are invisible to reflect: their descriptors are stated here
type hiddenMeth struct {
	uid  int64
	name string
	ins  []reflect.Type
}

var hiddenByType = map[string][]hiddenMeth{
	"Z01": {
		{103, "hidden", []reflect.Type{tDummyP, tMsgAP, tCB}},
	},
	"Z08": {
		{804, "join", []reflect.Type{tDummyP, tMsgAP, tCB}},
	},
	"Z16": {
		{1503, "notexp", []reflect.Type{tVCtxP, tMsgBP}},
	},
	"Z18": {
		{1701, "hid1", []reflect.Type{tDummyP, tMsgAP, tCB}},
		{1702, "hid2", []reflect.Type{tDummyP, tMsgAP}},
	},
	"Z19": {
		{1803, "aA", []reflect.Type{tDummyP, tMsgAP}},
	},
	"Z20": {
		{2302, "join", []reflect.Type{tVCtxP, tHelloP, tCB}},
	},
	"Z24": {
		{2704, "v3", []reflect.Type{tZCtxP, tMsgBP}},
	},
}

// the entries that can be registered; index = zoo id
var zoo = []api.IAPIEntry{
	&Z01{},
	&Z02{},
	&Z03{},
	&Z04{},
	&Z05{},
	&Z06{},
	&Z07{},
	&Z08{},
	Z09{},
	&Z09{},
	&zlow{},
	&Z12{},
	&Z13{},
	&Z14{},
	&Z15{},
	&Z16{},
	Z17{},
	&Z17{},
	&Z18{},
	&Z19{},
	&Gpi{},
	&Gpn{},
	&Gvi{},
	&Gvn{},
	&Z20{},
	&Z21{},
	&Z22{},
	&Z23{},
	Z24{},
	&Z24{},
	&Z25{},
	&lowerOnly{},
	&Z27{},
	&struct{ *Z01 }{&Z01{}},
}
