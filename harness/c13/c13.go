// Package c13 drives the real apimapper code (apientry.APICollection: Register / Build /
// HasMethod / GetArgType / Call, apientry.CallWithSerialize, formater.DefaultFormater through
// Build) over the zoo of entry types in zoo.go.
//
// What is sent to the Coq model as operation data is derived here, independently of cell2:
//   - the descriptor of every zoo method, by the harness's own use of package reflect
//     (kind / Implements / AssignableTo of each parameter, reflect's method order), plus the
//     statically listed unexported methods (reflect cannot see them);
//   - what decoding the payload bytes into every pointer message type of the zoo yields, by
//     calling encoding/json and google.golang.org/protobuf directly.
//
// Observed: HasMethod / GetArgType answers, the ordered event trace of every call (zoo method
// invocations with the message value seen, completion-function runs with their error flag) and
// whether a panic escaped the call.
package c13

import (
	stdjson "encoding/json"
	"errors"
	"fmt"
	"io"
	"log"
	"reflect"
	"sort"

	"github.com/sirupsen/logrus"
	gproto "google.golang.org/protobuf/proto"

	as "github.com/dfklegend/cell2/actorex/service"
	api "github.com/dfklegend/cell2/apimapper"
	"github.com/dfklegend/cell2/apimapper/apientry"
	"github.com/dfklegend/cell2/utils/logger"
	"github.com/dfklegend/cell2/utils/logger/proxy"
	"github.com/dfklegend/cell2/utils/serialize"
	cjson "github.com/dfklegend/cell2/utils/serialize/json"
	cproto "github.com/dfklegend/cell2/utils/serialize/proto"
	"github.com/dfklegend/cell2/utils/serialize/proto/msgs"

	"verifh/hx"
)

// ---- types used by the zoo ----

// message types: several typed fields each, so that a value can be wrong in a field the payload
// never mentioned (slices, maps and nested pointers are what a reused value would leak through)
type MsgA struct {
	N int    `json:"n"`
	S string `json:"s"`
	B bool   `json:"b"`
}
type MsgB struct {
	N int            `json:"n"`
	S string         `json:"s"`
	L []int          `json:"l"`
	M map[string]int `json:"m"`
	P *MsgA          `json:"p"`
}

type ZCtx struct{}     // pointer type implements IContext
func (*ZCtx) Reserve() {}
func (*ZCtx) Handle()  {}

type NoCtx struct{} // does not implement IContext

type VCtx struct{}    // value type (and its pointer type) implement IContext
func (VCtx) Reserve() {}
func (VCtx) Handle()  {}

type OtherCB func(error, interface{}) // named func type: a HandlerCBFunc is NOT assignable to it

var (
	tICtx    = reflect.TypeOf((*api.IContext)(nil)).Elem()
	tDummyP  = reflect.TypeOf((*api.DummyContext)(nil))
	tDummyV  = reflect.TypeOf(api.DummyContext{})
	tZCtxP   = reflect.TypeOf((*ZCtx)(nil))
	tNoCtxP  = reflect.TypeOf((*NoCtx)(nil))
	tVCtxV   = reflect.TypeOf(VCtx{})
	tVCtxP   = reflect.TypeOf((*VCtx)(nil))
	tRemoteP = reflect.TypeOf((*as.RemoteContext)(nil))
	tInt     = reflect.TypeOf(int(0))
	tString  = reflect.TypeOf("")
	tAny     = reflect.TypeOf((*interface{})(nil)).Elem()
	tMsgAP   = reflect.TypeOf((*MsgA)(nil))
	tMsgAV   = reflect.TypeOf(MsgA{})
	tMsgAPP  = reflect.TypeOf((**MsgA)(nil))
	tMsgBP   = reflect.TypeOf((*MsgB)(nil))
	tHelloP  = reflect.TypeOf((*msgs.TestHello)(nil))
	tIntP    = reflect.TypeOf((*int)(nil))
	tCB      = reflect.TypeOf(apientry.HandlerCBFunc(nil))
	tFunc2   = reflect.TypeOf((func(error, interface{}))(nil))
	tFunc0   = reflect.TypeOf((func())(nil))
	tOtherCB = reflect.TypeOf(OtherCB(nil))
	tCBSlice = reflect.TypeOf([]apientry.HandlerCBFunc(nil))
)

// type identity tokens
var typeIDs = map[reflect.Type]int64{
	tDummyP: 1, tZCtxP: 2, tNoCtxP: 3, tDummyV: 4, tVCtxV: 5, tICtx: 6, tVCtxP: 7, tInt: 8, tRemoteP: 9,
	tMsgAP: 10, tMsgBP: 11, tHelloP: 12, tMsgAV: 13, tString: 15, tMsgAPP: 16, tIntP: 17, tAny: 18,
	tCB: 20, tFunc2: 21, tFunc0: 22, tOtherCB: 23, tCBSlice: 24,
}

// pointer message types of the zoo (everything a payload may have to be decoded into)
var msgTids = []int64{10, 11, 12, 16, 17}

func tid(t reflect.Type) int64 {
	if id, ok := typeIDs[t]; ok {
		return id
	}
	panic("c13: type without token: " + t.String())
}

// render is the canonical rendering of a message value: every field, nothing else
func render(x any) string {
	switch m := x.(type) {
	case *msgs.TestHello:
		if m == nil {
			return "nil"
		}
		return fmt.Sprintf("hello I=%d S=%q unknown=%x", m.I, m.S, []byte(m.ProtoReflect().GetUnknown()))
	}
	b, err := stdjson.Marshal(x) // struct fields in declaration order, map keys sorted
	if err != nil {
		panic("c13: render: " + err.Error())
	}
	return string(b)
}

// tok is the value token sent to the model: the distinct renderings met while executing one case
// are numbered 1, 2, ... (so equal token <=> equal rendering, exactly); reset per case by Exec
var interned map[string]int64

func tok(x any) int64 {
	if interned == nil {
		return 0 // outside a case execution (generation aids only look at success / failure)
	}
	r := render(x)
	if id, ok := interned[r]; ok {
		return id
	}
	id := int64(len(interned) + 1)
	interned[r] = id
	return id
}

// fresh(tid) = a new zero value to decode into / to pass; value(tid, v) = one carrying v
func fresh(id int64) any {
	switch id {
	case 10:
		return new(MsgA)
	case 11:
		return new(MsgB)
	case 12:
		return new(msgs.TestHello)
	case 16:
		return new(*MsgA)
	case 17:
		return new(int)
	}
	panic(fmt.Sprintf("c13: no message type %d", id))
}

// valueOf builds the message of recipe v for a direct APICollection.Call
func valueOf(id int64, v int64) any {
	switch id {
	case 10:
		return &MsgA{N: int(v), S: fmt.Sprint("s", v), B: v%2 == 0}
	case 11:
		return &MsgB{N: int(v), S: "s", L: []int{int(v), 1}, M: map[string]int{"k": int(v)}, P: &MsgA{N: int(v) + 1}}
	case 12:
		return &msgs.TestHello{I: int32(v), S: "s"}
	case 16:
		p := &MsgA{N: int(v)}
		return &p
	case 17:
		x := int(v)
		return &x
	}
	panic(fmt.Sprintf("c13: no message type %d", id))
}

// decodeTable is the harness's own oracle: what THIS payload decodes to, into a FRESH value of
// every message type, as a value token (serializer.Unmarshal(bytes, new(T)) done independently).
func decodeTable(ser string, data []byte, inUse map[int64]bool) []any {
	out := []any{}
	if ser == "SNil" {
		return out
	}
	for _, id := range msgTids {
		if inUse != nil && !inUse[id] {
			continue // no registered method takes this type: it cannot be decoded into
		}
		x := fresh(id)
		var err error
		if ser == "SJson" {
			err = stdjson.Unmarshal(data, x)
		} else if pm, ok := x.(gproto.Message); ok {
			err = gproto.Unmarshal(data, pm)
		} else {
			err = errors.New("not a proto message")
		}
		if err == nil { // types that are not listed do not decode (DBad)
			out = append(out, hx.Pair{A: id, B: hx.C("DOk", tok(x))})
		}
	}
	return out
}

// payload bytes travel in the op as [length; 7-byte big-endian chunks...] (opaque to the model)
func packBytes(b []byte) []int64 {
	out := []int64{int64(len(b))}
	for i := 0; i < len(b); i += 7 {
		var x int64
		for j := i; j < i+7 && j < len(b); j++ {
			x = x<<8 | int64(b[j])
		}
		out = append(out, x)
	}
	return out
}

func unpackBytes(p []int64) []byte {
	if len(p) == 0 {
		return nil
	}
	n := int(p[0])
	b := make([]byte, 0, n)
	for i := 0; i < n; i += 7 {
		k := n - i
		if k > 7 {
			k = 7
		}
		x := p[1+i/7]
		for j := k - 1; j >= 0; j-- {
			b = append(b, byte(x>>(8*uint(j))))
		}
	}
	return b
}

// ---- descriptors, by reflection ----

// bytesOf writes a string (or a payload) for the case file: (B [x67; x2e; ...]), one Coq.Init.Byte
// constructor per byte
func bytesOf(s string) hx.T {
	l := make([]any, len(s))
	for i := 0; i < len(s); i++ {
		l[i] = fmt.Sprintf("x%02x", s[i])
	}
	return hx.C("B", l)
}

// rawOf reads bytes back: the B form, a plain list of byte values, or (payloads of hand-written
// corpus lines) the packed form [length; 7-byte big-endian chunks...]
func rawOf(a any, packed bool) []byte {
	if t, ok := a.(hx.T); ok && t.Name == "B" {
		l := t.Args[0].([]any)
		b := make([]byte, len(l))
		for i, x := range l {
			var v int
			fmt.Sscanf(hx.AsTerm(x).Name, "x%02x", &v)
			b[i] = byte(v)
		}
		return b
	}
	if packed {
		return unpackBytes(hx.Ints(a))
	}
	l := a.([]any)
	b := make([]byte, len(l))
	for i, x := range l {
		b[i] = byte(x.(int64))
	}
	return b
}

func strOf(a any) string { return string(rawOf(a, false)) }

func paramDesc(t reflect.Type) hx.T {
	return hx.C("P", t.Kind() == reflect.Ptr, t.Implements(tICtx), t.Kind() == reflect.Func,
		tCB.AssignableTo(t), tid(t))
}

type methDesc struct {
	uid      int64
	name     string
	exported bool
	ins      []reflect.Type
}

func (m methDesc) term() hx.T {
	ps := []any{}
	for _, t := range m.ins {
		ps = append(ps, paramDesc(t))
	}
	return hx.C("M", m.uid, bytesOf(m.name), m.exported, ps)
}

func goTypeName(e api.IAPIEntry) string {
	t := reflect.TypeOf(e)
	if t.Kind() == reflect.Ptr {
		t = t.Elem()
	}
	return t.Name()
}

func methodsOf(zid int) []methDesc {
	e := zoo[zid]
	t := reflect.TypeOf(e)
	tn := goTypeName(e)
	var ms []methDesc
	for i := 0; i < t.NumMethod(); i++ {
		m := t.Method(i)
		uid, ok := uidByName[tn+"."+m.Name]
		if !ok {
			panic("c13: no uid for " + tn + "." + m.Name)
		}
		d := methDesc{uid: uid, name: m.Name, exported: m.PkgPath == ""}
		for j := 1; j < m.Type.NumIn(); j++ {
			d.ins = append(d.ins, m.Type.In(j))
		}
		ms = append(ms, d)
	}
	for _, h := range hiddenByType[tn] {
		ms = append(ms, methDesc{uid: h.uid, name: h.name, exported: false, ins: h.ins})
	}
	return ms
}

func describe(zid int) hx.T {
	ms := []any{}
	for _, m := range methodsOf(zid) {
		ms = append(ms, m.term())
	}
	return hx.C("E", zid, bytesOf(goTypeName(zoo[zid])), ms)
}

// ---- naming options ----

type nameFn struct {
	term any // "None" | Some(...)
	fn   func(string) string
}

func nfOfTerm(a any) nameFn {
	if s, ok := a.(string); ok && s == "None" {
		return nameFn{term: "None"}
	}
	inner := hx.AsTerm(a).Args[0]
	t := hx.AsTerm(inner)
	var f func(string) string
	switch t.Name {
	case "nf_lower":
		f = asciiMap('A', 'Z', 'a'-'A') // the harness's own naming function: byte-wise, as the model's nf_lower
	case "nf_upper":
		f = asciiMap('a', 'z', -('a' - 'A'))
	case "nf_camel":
		f = apientry.ToLowerCamelCase
	case "nf_const":
		k := strOf(t.Args[0])
		f = func(string) string { return k }
	case "nf_prefix":
		k := strOf(t.Args[0])
		f = func(s string) string { return k + s }
	default:
		panic("c13: unknown naming function " + t.Name)
	}
	return nameFn{term: hx.C("Some", inner), fn: f}
}

func asciiMap(lo, hi byte, d int) func(string) string {
	return func(s string) string {
		b := []byte(s)
		for i, c := range b {
			if lo <= c && c <= hi {
				b[i] = byte(int(c) + d)
			}
		}
		return string(b)
	}
}

func (n nameFn) apply(s string) string {
	if n.fn == nil {
		return s
	}
	return n.fn(s)
}

// ---- running zoo methods ----

// completer(err, bad): run the completion function with an error / with a result (one that
// protoactor can serialise, or - bad - one it cannot)
type completer func(err bool, bad bool)

var errZoo = errors.New("zoo error")

func resultOf(bad bool) interface{} {
	if bad {
		return "a result that is not a proto message"
	}
	return &msgs.TestHello{I: 77}
}

func cbA(cb apientry.HandlerCBFunc) completer {
	cbPresent = cb != nil
	return func(e bool, bad bool) {
		if e {
			cb(errZoo, nil)
		} else {
			cb(nil, resultOf(bad))
		}
	}
}

func cbF(cb func(error, interface{})) completer {
	cbPresent = cb != nil
	return func(e bool, bad bool) {
		if e {
			cb(errZoo, nil)
		} else {
			cb(nil, resultOf(bad))
		}
	}
}

var (
	curBeh    string
	curPanic  int64 // the kind of panic value of BPanicWith
	events    []any
	cbPresent bool        // set by cbA / cbF: the method being entered was handed a non-nil completion function
	stored    []completer // completion functions kept by handlers (BDefer...), oldest first; per case
	firing    bool        // a kept completion function is being run (OFire)
	fired     []any       // what the recorders saw while firing
)

// keep stores the completion function the handler was given (if it was given one)
func keep(comp completer, present bool) {
	if comp != nil && present {
		stored = append(stored, comp)
	}
}

// recorder is the completion function the harness passes for the call at position pos
func recorder(pos int64) apientry.HandlerCBFunc {
	return func(e error, _ interface{}) {
		if firing {
			fired = append(fired, hx.C("FCall", pos, e != nil))
		} else {
			events = append(events, hx.C("EvComplete", e != nil))
		}
	}
}

// ---- panic values (BPanicWith k) ----
type QuotaError struct{ Limit int }

func (q *QuotaError) Error() string { return fmt.Sprintf("quota %d exceeded", q.Limit) } // nil receiver: panics

type plainError struct{ msg string }

func (p plainError) Error() string { return p.msg }

type badStringer struct{ m map[string]int }

func (b badStringer) String() string { b.m["x"]++; return "never" } // nil map write: panics
func (b badStringer) Error() string  { return b.String() }

var panicKinds = 10

// panicWith panics with the k-th kind of value
func panicWith(k int64) {
	switch k {
	case 0:
		panic("a string")
	case 1:
		panic(errors.New("an error"))
	case 2:
		var m map[string]int
		m["x"] = 1 // runtime error: assignment to entry in nil map
	case 3:
		panic(plainError{"custom error"})
	case 4:
		var q *QuotaError
		var err error = q // typed nil in an error: err != nil, err.Error() panics
		panic(err)
	case 5:
		panic(badStringer{}) // String() and Error() panic
	case 6:
		panic(nil)
	case 7:
		panic([]func(){func() {}}) // not comparable, not printable as a plain value
	case 8:
		var a []int
		_ = a[3] // runtime error: index out of range
	case 9:
		panic(fmt.Errorf("wrapped: %w", &QuotaError{Limit: 3}))
	default:
		panic(k)
	}
}

func complete(c completer, e bool) {
	if c != nil {
		c(e, false)
	}
}

func setBeh(a any) {
	t := hx.AsTerm(a)
	curBeh = t.Name
	if t.Name == "BPanicWith" {
		curPanic = t.Int(0)
	}
}

// act is the body of every zoo method.
func act(uid int64, isNil bool, get func() int64, comp completer) {
	present := cbPresent
	cbPresent = false
	var seen any = "None"
	if !isNil {
		seen = hx.C("Some", get())
	}
	events = append(events, hx.C("EvInvoke", uid, seen))
	switch curBeh {
	case "BOk":
		complete(comp, false)
	case "BErr":
		complete(comp, true)
	case "BPanic":
		panic("zoo panic")
	case "BPanicWith":
		panicWith(curPanic)
		panic("unreachable")
	case "BOkPanic":
		complete(comp, false)
		panic("zoo panic after completion")
	case "BNever":
	case "BTwice":
		complete(comp, false)
		complete(comp, false)
	case "BOkBad":
		if comp != nil {
			comp(false, true)
		}
	case "BDefer":
		keep(comp, present)
	case "BOkDefer":
		complete(comp, false)
		keep(comp, present)
	case "BDeferPanic":
		keep(comp, present)
		panic("zoo panic after keeping the completion function")
	default:
		panic("c13: behaviour " + curBeh)
	}
}

func ctxOf(a any) api.IContext {
	t := hx.AsTerm(a)
	if t.Name == "CNil" {
		return nil
	}
	switch t.Int(0) {
	case 1:
		return &api.DummyContext{}
	case 2:
		return &ZCtx{}
	case 7:
		return &VCtx{}
	case 9:
		return as.NewRemoteContext()
	}
	panic("c13: no context value of that type")
}

func serOf(s string) serialize.Serializer {
	switch s {
	case "SJson":
		return cjson.GetDefaultSerializer()
	case "SProto":
		return cproto.GetDefaultSerializer()
	}
	return nil
}

func silence() {
	log.SetOutput(io.Discard)
	logger.SetLogLevel(logrus.PanicLevel)
	if p := proxy.GetLogs().GetLog("exception"); p != nil {
		p.SetLogLevel(logrus.PanicLevel)
	}
}

// guarded runs one call and reports (events, escaped panic?)
func guarded(f func()) (tr []any, esc bool) {
	events = []any{}
	defer func() {
		if r := recover(); r != nil {
			esc = true
		}
		tr = events
	}()
	f()
	return
}

// Exec runs one op list against fresh real collections (and, for ODispatch, a fresh real service
// with a recording peer).  It returns the ops as they have to be shown to the model (descriptors,
// decode tables and the dispatcher's context re-derived here) and the observations.
func Exec(ops []hx.T) (norm []hx.T, obs []any, nontrivial bool, seenTags map[string]bool) {
	cols := map[int64]*apientry.APICollection{}
	col := func(k int64) *apientry.APICollection {
		if cols[k] == nil {
			cols[k] = apientry.NewCollection()
		}
		return cols[k]
	}
	var w *world
	defer func() {
		if w != nil {
			w.close()
		}
	}()
	seenTags = map[string]bool{}
	interned = map[string]int64{}
	defer func() { interned = nil }()
	inUse := map[int64]bool{} // message types some registered method (of any shape) takes as second parameter
	note := func(tr []any, esc bool, withCB bool) {
		inv, ok, bad := 0, 0, 0
		for _, e := range tr {
			t := e.(hx.T)
			switch {
			case t.Name == "EvInvoke":
				inv++
			case t.Bool(0):
				bad++
			default:
				ok++
			}
		}
		seenTags[fmt.Sprintf("obs:cb=%v,invoked=%d,completed-ok=%d,completed-err=%d", withCB, inv, ok, bad)] = true
		if esc {
			seenTags["obs:escaped-panic"] = true
		}
	}
	stored, fired, firing, cbPresent = nil, nil, false, false
	disps := map[string]as.IAPIDispatcher{} // one dispatcher per distinct collection list, reused
	for pos, o := range ops {
		switch o.Name {
		case "OReg":
			k := o.Int(0)
			zid := int(o.Term(1).Int(0))
			ot := o.Term(2)
			group := strOf(ot.Args[0])
			nf := nfOfTerm(ot.Args[1])
			var opts []apientry.Option
			if group != "" {
				opts = append(opts, apientry.WithGroupName(group))
			}
			if nf.fn != nil {
				opts = append(opts, apientry.WithNameFunc(nf.fn))
			}
			col(k).Register(zoo[zid], opts...)
			for _, m := range methodsOf(zid) {
				if len(m.ins) >= 2 {
					if id, ok := typeIDs[m.ins[1]]; ok {
						inUse[id] = true
					}
				}
			}
			norm = append(norm, hx.C("OReg", k, describe(zid), hx.C("O", bytesOf(group), nf.term)))
			obs = append(obs, "BUnit")
		case "OBuild":
			col(o.Int(0)).Build()
			norm = append(norm, o)
			obs = append(obs, "BUnit")
		case "OHas":
			b := col(o.Int(0)).HasMethod(strOf(o.Args[1]))
			nontrivial = nontrivial || b
			seenTags[fmt.Sprintf("obs:has=%v", b)] = true
			norm = append(norm, o)
			obs = append(obs, hx.C("BBool", b))
		case "OArgT":
			t := col(o.Int(0)).GetArgType(strOf(o.Args[1]))
			var r any = "None"
			if t != nil {
				r = hx.C("Some", tid(t))
			}
			norm = append(norm, o)
			obs = append(obs, hx.C("BArg", r))
		case "OCallSer":
			k, ser, route := o.Int(0), o.Str(1), strOf(o.Args[2])
			data := rawOf(o.Args[3], true)
			ctx, withCB := ctxOf(o.Args[5]), o.Bool(6)
			setBeh(o.Args[7])
			var cb apientry.HandlerCBFunc
			if withCB {
				cb = recorder(int64(pos))
			}
			c := col(k)
			tr, esc := guarded(func() { apientry.CallWithSerialize(c, ctx, route, data, cb, serOf(ser)) })
			nontrivial = nontrivial || len(tr) > 0
			note(tr, esc, withCB)
			norm = append(norm, hx.C("OCallSer", k, ser, bytesOf(route), bytesOf(string(data)), decodeTable(ser, data, inUse), o.Args[5], withCB, o.Args[7]))
			obs = append(obs, hx.C("BCall", tr, esc))
		case "OCall":
			k, route := o.Int(0), strOf(o.Args[1])
			var arg any
			argTerm := o.Args[2]
			if at := hx.AsTerm(argTerm); at.Name == "AVal" {
				arg = valueOf(at.Int(0), at.Int(1))
				argTerm = hx.C("AVal", at.Int(0), at.Int(1), tok(valueOf(at.Int(0), at.Int(1)))) // token of an identical, untouched value
			}
			ctx, withCB := ctxOf(o.Args[3]), o.Bool(4)
			setBeh(o.Args[5])
			var cb apientry.HandlerCBFunc
			if withCB {
				cb = recorder(int64(pos))
			}
			c := col(k)
			tr, esc := guarded(func() { c.Call(ctx, route, arg, cb) })
			nontrivial = nontrivial || len(tr) > 0
			note(tr, esc, withCB)
			norm = append(norm, hx.C("OCall", k, o.Args[1], argTerm, o.Args[3], withCB, o.Args[5]))
			obs = append(obs, hx.C("BCall", tr, esc))
		case "ODispatch":
			ks, rid, route := o.Ints(0), o.Int(1), strOf(o.Args[2])
			data := rawOf(o.Args[3], true)
			setBeh(o.Args[7])
			if w == nil {
				w = newWorld()
			}
			var cs []*apientry.APICollection
			for _, k := range ks {
				cs = append(cs, col(k))
			}
			events = []any{}
			key := fmt.Sprint(ks)
			if disps[key] == nil {
				disps[key] = as.NewDispatcher(cs...)
			}
			rsps, snap, ok := w.request(disps[key], int32(rid), route, data)
			inv := events
			events = nil
			rl := []any{}
			for _, r := range rsps {
				if int64(r.ReqId) != rid {
					panic(fmt.Sprintf("c13: response for request id %d while %d was outstanding", r.ReqId, rid))
				}
				rl = append(rl, classify(r))
			}
			esc := snap.restarted || !ok
			if !ok {
				seenTags["obs:dispatch-hang"] = true
			}
			nontrivial = nontrivial || len(inv) > 0 || len(rl) > 0
			rs := ""
			for _, x := range rl {
				switch t := x.(type) {
				case string:
					rs += "N"
				case hx.T:
					if t.Bool(0) {
						rs += "E"
					} else {
						rs += "K"
					}
				}
			}
			seenTags[fmt.Sprintf("obs:dispatch request=%v,invoked=%d,responses=[%s],fell=%v", rid != 0, len(inv), rs, snap.fell)] = true
			if esc {
				seenTags["obs:escaped-panic"] = true
			}
			rawok := gproto.Unmarshal(data, &msgs.TestHello{}) == nil
			norm = append(norm, hx.C("ODispatch", o.Args[0], rid, bytesOf(route), bytesOf(string(data)), decodeTable("SProto", data, inUse), rawok,
				hx.C("CTyp", int64(9)), o.Args[7]))
			obs = append(obs, hx.C("BDisp", inv, rl, snap.fell, esc))
		case "OFire":
			n, kd := o.Int(0), hx.AsTerm(o.Args[1]).Name
			fired = nil
			esc := false
			if n >= 0 && n < int64(len(stored)) {
				comp := stored[n]
				run := func() {
					firing = true
					defer func() { firing = false }()
					comp(kd == "FErr", kd == "FBad")
				}
				if w == nil {
					func() {
						defer func() {
							if r := recover(); r != nil {
								esc = true
							}
						}()
						run()
					}()
				} else {
					// on the service goroutine, like a handler finishing its work later
					rsps, panicked, ok := w.fire(run)
					esc = panicked || !ok
					for _, r := range rsps {
						fired = append(fired, hx.C("FRsp", int64(r.ReqId), classify(r)))
					}
				}
			}
			d := fired
			if d == nil {
				d = []any{}
			}
			nontrivial = nontrivial || len(d) > 0
			seenTags[fmt.Sprintf("obs:fire delivered=%d escaped=%v", len(d), esc)] = true
			norm = append(norm, o)
			obs = append(obs, hx.C("BFire", d, esc))
		default:
			panic("c13: unknown op " + o.Name)
		}
	}
	return
}

func sortedTags(tags map[string]bool) []string {
	var tl []string
	for t := range tags {
		tl = append(tl, t)
	}
	sort.Strings(tl)
	return tl
}

func Run(cfg *hx.Config) error {
	silence()
	emit := func(kind string, ops []hx.T, tags []string) {
		norm, obs, nt, seen := Exec(ops)
		for _, t := range tags {
			seen[t] = true
		}
		cfg.Emit(hx.Case{Kind: kind, Ops: norm, Obs: obs, Nontrivial: nt, Tags: sortedTags(seen)})
	}
	if cfg.In != "" {
		cs, err := hx.ReadCases(cfg.In)
		if err != nil {
			return err
		}
		for _, c := range cs {
			kind := c.Kind
			if kind == "" {
				kind = "replay"
			}
			emit(kind, hx.Terms(c.Ops), c.Tags)
		}
		return nil
	}
	thorough := cfg.Tier == "thorough"
	enumerateExposure(thorough, emit)
	enumerateBehaviours(thorough, emit)
	enumerateDispatch(thorough, emit)
	enumerateSequences(thorough, emit)
	enumerateRejections(thorough, emit)
	enumerateOverlap(thorough, emit)
	enumeratePanics(thorough, emit)
	enumerateDots(thorough, emit)
	for i := 0; i < cfg.N; i++ {
		if i%3 == 2 {
			ops, tags := genDispatch(cfg)
			emit("random-dispatch", ops, tags)
			continue
		}
		ops, tags := genRandom(cfg, i)
		emit("random", ops, tags)
	}
	return nil
}
