// Entries whose type and method names start with a NON-ASCII letter (seed C13-11: a naming function
// that re-encodes the first byte of such a name).  Go exports an identifier whose first rune is an
// upper-case letter of any script, apientry.isExported uses unicode.IsUpper, and
// apientry.ToLowerCamelCase is byte-wise (ASCII only): such names pass through it unchanged.
package c13

import (
	api "github.com/dfklegend/cell2/apimapper"
	"github.com/dfklegend/cell2/apimapper/apientry"
)

type Économie struct{ api.APIEntry }

func (z *Économie) Échange(c *api.DummyContext, m *MsgA, cb apientry.HandlerCBFunc) {
	act(5001, m == nil, func() int64 { return tok(m) }, cbA(cb))
}
func (z *Économie) Ωmega(c *api.DummyContext, m *MsgA) {
	act(5002, m == nil, func() int64 { return tok(m) }, nil)
}
func (z *Économie) Zap(c *api.DummyContext, m *MsgA, cb apientry.HandlerCBFunc) {
	act(5003, m == nil, func() int64 { return tok(m) }, cbA(cb))
}

// first rune is a lower-case non-ASCII letter: not an exported name, the entry is refused
type écu struct{ api.APIEntry }

func (z *écu) Note(c *api.DummyContext, m *MsgA) {
	act(5101, m == nil, func() int64 { return tok(m) }, nil)
}

func init() {
	for name, uid := range map[string]int64{
		"Économie.Échange": 5001, "Économie.Ωmega": 5002, "Économie.Zap": 5003, "Économie.Desc": 5099,
		"écu.Note": 5101, "écu.Desc": 5199,
	} {
		uidByName[name] = uid
	}
	unicodeZoo[len(zoo)], unicodeZoo[len(zoo)+1] = true, true
	zoo = append(zoo, &Économie{}, &écu{})
}

// zoo ids of the entries above: the quick tier runs them under every naming function
var unicodeZoo = map[int]bool{}
