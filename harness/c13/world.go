package c13

import (
	"fmt"
	"io"
	"log/slog"
	"strings"
	"sync"
	"time"

	"github.com/asynkron/protoactor-go/actor"

	as "github.com/dfklegend/cell2/actorex/service"
	messages "github.com/dfklegend/cell2/actorex/service/servicemsgs"
	"github.com/dfklegend/cell2/utils/serialize/proto/msgs"

	"verifh/hx"
)

// The Dispatch layer runs for real: an actorex/service.Service in a local protoactor system,
// with an APIDispatcher over the case's collections, receives hand-made ServiceRequest messages
// from a recording peer actor and answers through its own Service.Response.

const ackTimeout = 10 * time.Second

var helloType = string((&msgs.TestHello{}).ProtoReflect().Descriptor().FullName())

var (
	sysOnce sync.Once
	sys     *actor.ActorSystem
	serial  int
)

func system() *actor.ActorSystem {
	sysOnce.Do(func() {
		sys = actor.NewActorSystem(actor.WithLoggerFactory(func(*actor.ActorSystem) *slog.Logger {
			return slog.New(slog.NewTextHandler(io.Discard, nil))
		}))
	})
	return sys
}

type setDisp struct{ d as.IAPIDispatcher }
type barrier struct{ ack chan snapshot }
type snapshot struct {
	fell      bool
	restarted bool
}
type peerSend struct {
	d   as.IAPIDispatcher
	req *messages.ServiceRequest
	ack chan snapshot
}
type fireMsg struct {
	fn  func()
	ack chan bool // did fn panic
}
type peerSync struct {
	ch chan []*messages.ServiceResponse
}

type world struct {
	svcPID, peerPID *actor.PID
	svc             *svcActor
	// touched on the service goroutine only (read through the barrier's channel)
	fell      bool
	restarted bool
}

type svcActor struct {
	*as.Service
	w *world
}

func (s *svcActor) Receive(ctx actor.Context) {
	switch m := ctx.Message().(type) {
	case *actor.Restarting:
		s.w.restarted = true // a panic left Service.Receive: the supervisor restarts the actor
	case *setDisp:
		s.Service.SetAPIDispatcher(m.d)
		return
	case *fireMsg:
		func() {
			defer func() { m.ack <- recover() != nil }()
			m.fn()
		}()
		return
	case *barrier:
		m.ack <- snapshot{fell: s.w.fell, restarted: s.w.restarted}
		s.w.fell, s.w.restarted = false, false
		return
	}
	s.Service.Receive(ctx)
}

// the type-based receiver a request falls through to when no dispatcher handled it
func (s *svcActor) ReceiveRequest(ctx actor.Context, request *messages.ServiceRequest, rawMsg interface{}) {
	s.w.fell = true
}

type peerActor struct {
	w   *world
	got []*messages.ServiceResponse
}

func (p *peerActor) Receive(ctx actor.Context) {
	switch m := ctx.Message().(type) {
	case *messages.ServiceResponse:
		p.got = append(p.got, m)
	case *peerSend:
		m.req.Sender = ctx.Self()
		ctx.Send(p.w.svcPID, &setDisp{d: m.d})
		ctx.Send(p.w.svcPID, m.req)
		ctx.Send(p.w.svcPID, &barrier{ack: m.ack})
	case *peerSync:
		m.ch <- p.got
		p.got = nil
	}
}

func newWorld() *world {
	w := &world{}
	s := system()
	serial++
	w.peerPID, _ = s.Root.SpawnNamed(actor.PropsFromProducer(func() actor.Actor { return &peerActor{w: w} }),
		fmt.Sprintf("c13-peer-%d", serial))
	props, _ := as.NewServicePropsWithNewScheDisp(func() actor.Actor {
		a := &svcActor{Service: as.NewService(), w: w}
		a.Service.InitReqReceiver(a)
		w.svc = a
		return a
	}, "")
	props.Configure(actor.WithSupervisor(actor.NewRestartingStrategy()))
	w.svcPID, _ = s.Root.SpawnNamed(props, fmt.Sprintf("c13-svc-%d", serial))
	return w
}

func (w *world) close() {
	s := system()
	s.Root.StopFuture(w.svcPID).Wait()
	s.Root.StopFuture(w.peerPID).Wait()
	if w.svc != nil && w.svc.GetRunService() != nil {
		w.svc.GetRunService().Stop()
	}
}

// request sends one ServiceRequest from the peer and returns what came back once the service has
// finished with it.  ok = false: the service did not get through it in time.
func (w *world) request(d as.IAPIDispatcher, rid int32, route string, body []byte) (rsps []*messages.ServiceResponse, snap snapshot, ok bool) {
	ack := make(chan snapshot, 1)
	req := &messages.ServiceRequest{ReqId: rid, Route: route, Type: helloType, Body: body}
	system().Root.Send(w.peerPID, &peerSend{d: d, req: req, ack: ack})
	select {
	case snap = <-ack:
	case <-time.After(ackTimeout):
		return nil, snap, false
	}
	ch := make(chan []*messages.ServiceResponse, 1)
	system().Root.Send(w.peerPID, &peerSync{ch: ch})
	select {
	case rsps = <-ch:
	case <-time.After(ackTimeout):
		return nil, snap, false
	}
	return rsps, snap, true
}

// fire runs fn on the service goroutine and returns the responses the peer received from it
func (w *world) fire(fn func()) (rsps []*messages.ServiceResponse, panicked bool, ok bool) {
	ack := make(chan bool, 1)
	system().Root.Send(w.svcPID, &fireMsg{fn: fn, ack: ack})
	select {
	case panicked = <-ack:
	case <-time.After(ackTimeout):
		return nil, false, false
	}
	ch := make(chan []*messages.ServiceResponse, 1)
	system().Root.Send(w.peerPID, &peerSync{ch: ch})
	select {
	case rsps = <-ch:
	case <-time.After(ackTimeout):
		return nil, panicked, false
	}
	return rsps, panicked, true
}

// classify maps a ServiceResponse to the model's rsp
func classify(r *messages.ServiceResponse) any {
	switch {
	case r.ErrCode == as.CodeSucc:
		return hx.C("RspDone", false)
	case strings.HasPrefix(r.ErrInfo, "no method"):
		return "RspNoMethod"
	}
	return hx.C("RspDone", true)
}
