package c13

import (
	stdjson "encoding/json"
	"fmt"
	"go/token"
	"math/rand"
	"reflect"
	"strings"

	gproto "google.golang.org/protobuf/proto"

	"github.com/dfklegend/cell2/utils/serialize/proto/msgs"

	"verifh/hx"
)

// ---- generator-side bookkeeping (steers generation only; never used as an oracle) ----

type regd struct {
	zid   int
	group string
	nf    nameFn
	ms    []methDesc
}

func (r regd) groupName() string {
	if r.group != "" {
		return r.group
	}
	return r.nf.apply(goTypeName(zoo[r.zid]))
}

func shapeOK(m methDesc) bool {
	if !m.exported || (len(m.ins) != 2 && len(m.ins) != 3) {
		return false
	}
	if m.ins[0].Kind() != reflect.Ptr || !m.ins[0].Implements(tICtx) || m.ins[1].Kind() != reflect.Ptr {
		return false
	}
	return len(m.ins) == 2 || m.ins[2].Kind() == reflect.Func
}

func (r regd) servable() bool {
	tn := goTypeName(zoo[r.zid])
	if tn == "" || !token.IsExported(tn) {
		return false
	}
	for _, m := range r.ms {
		if shapeOK(m) {
			return true
		}
	}
	return false
}

// target guesses which method a route reaches in the tables built from `built`.
func target(built []regd, route string) *methDesc {
	subs := strings.Split(route, ".")
	var g, mn string
	switch len(subs) {
	case 1:
		g, mn = "_", subs[0]
	case 2:
		g, mn = subs[0], subs[1]
	default:
		return nil
	}
	for _, r := range built {
		if r.groupName() != g || !r.servable() {
			continue
		}
		var hit *methDesc
		for i := range r.ms {
			if shapeOK(r.ms[i]) && r.nf.apply(r.ms[i].name) == mn {
				hit = &r.ms[i]
			}
		}
		return hit
	}
	return nil
}

func some(x any) any { return hx.C("Some", x) }

var nfTerms = []any{
	"None", some("nf_lower"), some("nf_upper"), some("nf_camel"),
	some(hx.C("nf_const", bytesOf("x"))), some(hx.C("nf_prefix", bytesOf("p."))), some(hx.C("nf_prefix", bytesOf("q"))),
}

var behs = []string{"BOk", "BErr", "BPanic", "BOkPanic", "BNever", "BTwice", "BOkBad", "BDefer", "BOkDefer", "BDeferPanic", "BPanicWith:4", "BPanicWith:6"}
var fkinds = []string{"FOk", "FErr", "FBad"}

// behTerm turns a behaviour name into its term ("BPanicWith:4" -> (BPanicWith 4))
func behTerm(b string) any {
	if strings.HasPrefix(b, "BPanicWith:") {
		var k int64
		fmt.Sscanf(b[len("BPanicWith:"):], "%d", &k)
		return hx.C("BPanicWith", k)
	}
	return b
}

func mkReg(k int64, zid int, group string, nfTerm any) (hx.T, regd) {
	nf := nfOfTerm(nfTerm)
	op := hx.C("OReg", k, hx.C("E", zid, []int64{}, []any{}), hx.C("O", bytesOf(group), nf.term))
	return op, regd{zid: zid, group: group, nf: nf, ms: methodsOf(zid)}
}

func constructible(id int64) bool {
	for _, x := range msgTids {
		if x == id {
			return true
		}
	}
	return false
}

func msgTidOf(m *methDesc) int64 {
	if m != nil && len(m.ins) >= 2 {
		if id, ok := typeIDs[m.ins[1]]; ok && constructible(id) {
			return id
		}
	}
	return 10
}

func goodPayload(ser string, id int64, v int64) []byte {
	if ser == "SProto" {
		b, _ := gproto.Marshal(&msgs.TestHello{I: int32(v), S: "p"})
		return b
	}
	b, _ := stdjson.Marshal(valueOf(id, v))
	return b
}

func ctxTermFor(m *methDesc) any {
	if m != nil && len(m.ins) >= 1 {
		switch id := typeIDs[m.ins[0]]; id {
		case 1, 2, 7, 9:
			return hx.C("CTyp", id)
		}
	}
	return "CNil"
}

func decodesOK(ser string, data []byte, id int64) bool {
	for _, p := range decodeTable(ser, data, nil) {
		pr := p.(hx.Pair)
		if pr.A.(int64) == id {
			return true
		}
	}
	return false
}

// callSer builds an OCallSer op; unless allowF4, a completion function is withheld when the call
// would be "good route and payload to a notify-shaped method" (F4, kept to dedicated cases).
func callSer(k int64, built []regd, ser, route string, data []byte, ctx any, cb bool, beh string, allowF4 bool) hx.T {
	if cb && !allowF4 && ser != "SNil" {
		if t := target(built, route); t != nil && len(t.ins) == 2 && decodesOK(ser, data, typeIDs[t.ins[1]]) {
			cb = false
		}
	}
	return hx.C("OCallSer", k, ser, bytesOf(route), bytesOf(string(data)), []any{}, ctx, cb, behTerm(beh))
}

func callDirect(k int64, built []regd, route string, arg any, ctx any, cb bool, beh string, allowF4 bool) hx.T {
	if cb && !allowF4 {
		if t := target(built, route); t != nil && len(t.ins) == 2 {
			cb = false
		}
	}
	return hx.C("OCall", k, bytesOf(route), arg, ctx, cb, behTerm(beh))
}

func flipCase(s string, i int) string {
	if len(s) == 0 {
		return s
	}
	i %= len(s)
	c := s[i]
	switch {
	case 'a' <= c && c <= 'z':
		c -= 32
	case 'A' <= c && c <= 'Z':
		c += 32
	default:
		c = 'Q'
	}
	return s[:i] + string(c) + s[i+1:]
}

// candidate routes around one method of a registration: the declared name (also of unexported
// methods) renamed and raw, with mutations
func candidates(r regd, i int) (real string, all []string) {
	seen := map[string]bool{}
	add := func(s string) {
		if !seen[s] {
			seen[s] = true
			all = append(all, s)
		}
	}
	g := r.groupName()
	m := r.ms[i]
	nm := r.nf.apply(m.name)
	real = g + "." + nm
	add(real)
	add(g + "." + m.name)
	add(nm)
	add(flipCase(real, i+len(g)+1))
	add(real + ".")
	add(goTypeName(zoo[r.zid]) + "." + m.name)
	switch i % 4 {
	case 0:
		add("_." + nm)
	case 1:
		add(strings.ToLower(real))
	case 2:
		add("nogroup." + nm)
	default:
		add(real + ".z")
	}
	return
}

func nfName(t any) string {
	if s, ok := t.(string); ok {
		return s
	}
	return hx.AsTerm(hx.AsTerm(t).Args[0]).Name
}

// exposure stream: every zoo entry x every naming function (x every group option in the thorough
// tier), two methods per case: HasMethod for the candidate routes, GetArgType for the real one,
// one call
func enumerateExposure(thorough bool, emit func(string, []hx.T, []string)) {
	groups := []string{"", "grp", "_"}
	chunk := 2 // methods per case
	if !thorough {
		chunk = 4
	}
	for zid := range zoo {
		k := int64(zid % 3)
		for ni, nft := range nfTerms {
			for gi, group := range groups {
				if !thorough && (gi != (zid+ni)%3 || ((zid+ni)%7 >= 4 && !unicodeZoo[zid])) {
					continue // quick: 4 of the 7 naming functions per entry, one group option each
				}
				reg, r := mkReg(k, zid, group, nft)
				built := []regd{r}
				tags := []string{"nf:" + nfName(nft), "group:" + map[string]string{"": "default", "grp": "named", "_": "inner"}[group]}
				for lo := 0; lo < len(r.ms); lo += chunk {
					ops := []hx.T{reg}
					if lo == 0 {
						real, _ := candidates(r, 0)
						ops = append(ops, hx.C("OHas", k, bytesOf(real))) // registered, not built: not exposed
					}
					ops = append(ops, hx.C("OBuild", k))
					if lo == 0 {
						g := r.groupName()
						for _, s := range []string{"", ".", "..", g, g + ".", "." + g, "_", "_."} {
							ops = append(ops, hx.C("OHas", k, bytesOf(s)))
						}
					}
					for i := lo; i < lo+chunk && i < len(r.ms); i++ {
						real, all := candidates(r, i)
						for _, rt := range all {
							ops = append(ops, hx.C("OHas", k, bytesOf(rt)))
						}
						ops = append(ops, hx.C("OArgT", k, bytesOf(real)))
						m := &r.ms[i]
						if len(m.ins) < 2 {
							continue
						}
						ser := []string{"SJson", "SProto"}[(i+zid)%2]
						ops = append(ops, callSer(k, built, ser, real, goodPayload(ser, msgTidOf(m), int64(i+1)), ctxTermFor(m), true,
							behs[(i+ni)%len(behs)], false))
					}
					emit("exposure", ops, tags)
				}
			}
		}
	}
}

// behaviour stream: every zoo entry x serializer x method with a context and a message parameter:
// every behaviour, with and without completion function, matching / nil / foreign context,
// undecodable payload, through CallWithSerialize and through Call (nil / foreign message too).
// Methods that are not handler-shaped get the short list in the quick tier.
func enumerateBehaviours(thorough bool, emit func(string, []hx.T, []string)) {
	k := int64(0)
	for zid := range zoo {
		for _, ser := range []string{"SJson", "SProto"} {
			reg, r := mkReg(k, zid, "g", "None")
			built := []regd{r}
			for i := range r.ms {
				m := &r.ms[i]
				if len(m.ins) < 2 {
					continue
				}
				ops := []hx.T{reg, hx.C("OBuild", k)}
				rt := "g." + m.name
				id := msgTidOf(m)
				full := thorough || (shapeOK(*m) && (ser == "SJson" || id == 12))
				for bi, beh := range behs {
					if !full && bi > 0 {
						break
					}
					v := int64(10*i + bi)
					ops = append(ops, callSer(k, built, ser, rt, goodPayload(ser, id, v), ctxTermFor(m), true, beh, false))
					if thorough || bi%3 == 0 {
						ops = append(ops, callSer(k, built, ser, rt, goodPayload(ser, id, v), ctxTermFor(m), false, beh, false))
					}
					if ser == "SJson" {
						ops = append(ops, callDirect(k, built, rt, hx.C("AVal", id, v, 0), "CNil", true, beh, false))
					}
				}
				if full {
					ops = append(ops, callSer(k, built, ser, rt, goodPayload(ser, id, 5), "CNil", true, "BOk", false))
					ops = append(ops, callSer(k, built, ser, rt, goodPayload(ser, id, 6), hx.C("CTyp", int64(2)), true, "BOk", false))
					ops = append(ops, callSer(k, built, ser, rt, []byte("{"), ctxTermFor(m), true, "BOk", false))
					if ser == "SJson" {
						ops = append(ops, callDirect(k, built, rt, "ANil", ctxTermFor(m), true, "BErr", false))
						ops = append(ops, callDirect(k, built, rt, hx.C("AVal", int64(11), int64(4), 0), ctxTermFor(m), true, "BOk", false))
						ops = append(ops, callDirect(k, built, rt, hx.C("AVal", id, int64(8), 0), hx.C("CTyp", int64(7)), false, "BPanic", false))
					}
				}
				emit("behaviours", ops, []string{"ser:" + ser})
			}
		}
	}
	// F4, in a few small dedicated cases only (each is matched against known_findings.json)
	// (quick: only the direct-Call one; CallWithSerialize and Dispatch are in the corpus every run)
	n, i0 := 2, 1
	if thorough {
		n, i0 = 6, 0
	}
	f4 := [][2]any{{0, "g.Note"}, {11, "g.N2"}, {12, "g.P2"}, {4, "g.Ok2"}, {14, "g.R2"}, {1, "g.Note"}}
	for i := i0; i < n && i < len(f4); i++ {
		zid, rt := f4[i][0].(int), f4[i][1].(string)
		reg, r := mkReg(k, zid, "g", "None")
		built := []regd{r}
		t := target(built, rt)
		if t == nil || len(t.ins) != 2 {
			panic("c13: F4 case does not target a notify-shaped method: " + rt)
		}
		var call hx.T
		if i%2 == 0 {
			ser := "SJson"
			if typeIDs[t.ins[1]] == 12 {
				ser = "SProto"
			}
			call = callSer(k, built, ser, rt, goodPayload(ser, msgTidOf(t), 3), ctxTermFor(t), true, behs[i%len(behs)], true)
		} else {
			call = callDirect(k, built, rt, hx.C("AVal", msgTidOf(t), int64(3), 0), ctxTermFor(t), true, behs[i%len(behs)], true)
		}
		emit("f4", []hx.T{reg, hx.C("OBuild", k), call}, []string{"F4:notify-with-completion-function"})
	}
}

var badJSON = []string{"ddd", "{", `{"n":"str"}`, "[1,2]", `{"n":1e400}`, `"x"`, "nul", `{"n":1}}`, `{"I":3000000000}`, "null", "7"}
var badProto = [][]byte{{0x08}, {0xff, 0xff}, {0x00}, {0x12, 0x05, 'a'}, {0x0a, 0x01, 0x41}, {0x12, 0x01, 0xff}, {0x08, 0x80}}

func genRandom(cfg *hx.Config, idx int) ([]hx.T, []string) {
	r := cfg.Rng
	tags := map[string]bool{}
	var ops []hx.T
	var regs, built []regd
	k := hx.Pick(r, []int64{0, 0, 1, 5})
	badIDs, _ := unservable()
	register := func() {
		zid := r.Intn(len(zoo))
		if r.Intn(6) == 0 { // an entry Build() will refuse, often under a name somebody else wants
			zid = hx.Pick(r, badIDs)
			tags["register:unservable"] = true
		}
		group := ""
		switch p := r.Intn(10); {
		case p < 5:
		case p < 8:
			group = []string{"g", "h", "_", "chat.room", "a."}[r.Intn(5)]
		default:
			group = fmt.Sprintf("grp%d", len(regs))
		}
		nft := nfTerms[0]
		if r.Intn(2) == 0 {
			nft = nfTerms[r.Intn(len(nfTerms))]
		}
		op, rd := mkReg(k, zid, group, nft)
		for _, o := range regs {
			if o.groupName() == rd.groupName() {
				tags["group-collision"] = true
			}
		}
		regs = append(regs, rd)
		ops = append(ops, op)
		tags["nf:"+nfName(nft)] = true
	}
	build := func() {
		ops = append(ops, hx.C("OBuild", k))
		built = append([]regd{}, regs...)
	}
	for i, n := 0, 1+r.Intn(3); i < n; i++ {
		register()
	}
	if r.Intn(10) > 0 {
		build()
	} else {
		tags["no-build"] = true
	}
	alphabet := "abcxyzJOINjoinMPNoteg_.._019\xff"
	route := func() (string, string) {
		rd := regs[r.Intn(len(regs))]
		m := rd.ms[r.Intn(len(rd.ms))]
		if r.Intn(10) < 6 { // mostly aim at handler-shaped methods
			var ok []methDesc
			for _, x := range rd.ms {
				if shapeOK(x) {
					ok = append(ok, x)
				}
			}
			if len(ok) > 0 {
				m = ok[r.Intn(len(ok))]
			}
		}
		real := rd.groupName() + "." + rd.nf.apply(m.name)
		switch p := r.Intn(100); {
		case p < 62:
			if rd.groupName() == "_" && r.Intn(2) == 0 {
				return rd.nf.apply(m.name), "route:inner-bare"
			}
			return real, "route:real"
		case p < 78:
			switch r.Intn(7) {
			case 0:
				return flipCase(real, r.Intn(len(real))), "route:mutated"
			case 1:
				return real + ".x", "route:3-segments"
			case 2:
				return real + ".", "route:3-segments"
			case 3:
				return "zz." + rd.nf.apply(m.name), "route:wrong-group"
			case 4:
				return rd.groupName() + "." + m.name + "x", "route:wrong-method"
			case 5:
				return rd.groupName() + "." + m.name, "route:raw-name"
			default:
				return strings.Replace(real, ".", "", 1), "route:no-dot"
			}
		case p < 90:
			b := make([]byte, r.Intn(9))
			for i := range b {
				b[i] = alphabet[r.Intn(len(alphabet))]
			}
			return string(b), "route:random"
		default:
			return hx.Pick(r, []string{"", ".", "..", "a.b.c", "_", "_.", "g", "g.", ".g"}), "route:special"
		}
	}
	for i, n := 0, 4+r.Intn(12); i < n; i++ {
		if r.Intn(25) == 0 {
			register()
			if r.Intn(2) == 0 {
				build()
				tags["rebuild"] = true
			}
			continue
		}
		if r.Intn(8) == 0 {
			ops = append(ops, hx.C("OFire", int64(r.Intn(5)-1), hx.Pick(r, fkinds)))
			tags["fire"] = true
			continue
		}
		rt, rtag := route()
		tags[rtag] = true
		t := target(built, rt)
		switch {
		case t == nil:
			tags["target:none"] = true
		case len(t.ins) == 2:
			tags["target:notify"] = true
		default:
			tags["target:request"] = true
			if !tCB.AssignableTo(t.ins[2]) {
				tags["target:cb-unfit"] = true
			}
		}
		beh := hx.Pick(r, behs)
		cb := r.Intn(100) < 70
		var ctx any
		switch p := r.Intn(100); {
		case p < 60:
			ctx = ctxTermFor(t)
		case p < 82:
			ctx = "CNil"
		default:
			ctx = hx.C("CTyp", hx.Pick(r, []int64{1, 2, 7}))
			tags["ctx:foreign?"] = true
		}
		v := int64(r.Intn(104) - 3)
		if r.Intn(20) == 0 {
			v = int64(1) << uint(31+r.Intn(10))
		}
		switch p := r.Intn(100); {
		case p < 25:
			ops = append(ops, hx.C("OHas", k, bytesOf(rt)))
		case p < 35:
			ops = append(ops, hx.C("OArgT", k, bytesOf(rt)))
		case p < 80:
			ser := "SJson"
			switch q := r.Intn(100); {
			case q < 50:
			case q < 88:
				ser = "SProto"
			default:
				ser = "SNil"
				tags["ser:nil"] = true
			}
			var data []byte
			switch q := r.Intn(100); {
			case q < 30 && ser != "SProto":
				data = randomObject(r, msgTidOf(t))
				tags["payload:fieldwise"] = true
			case q < 30:
				data = hx.Pick(r, helloParts)
				tags["payload:proto-partial"] = true
			case q < 68:
				data = goodPayload(ser, msgTidOf(t), v)
				tags["payload:encoded"] = true
			case q < 84:
				if ser == "SProto" {
					data = hx.Pick(r, badProto)
				} else {
					data = []byte(hx.Pick(r, badJSON))
				}
				tags["payload:malformed"] = true
			case q < 95:
				data = make([]byte, r.Intn(12))
				for j := range data {
					data[j] = byte(r.Intn(256))
				}
				tags["payload:random"] = true
			default:
				tags["payload:empty"] = true
			}
			ops = append(ops, callSer(k, built, ser, rt, data, ctx, cb, beh, false))
			tags["call:"+ser] = true
		default:
			var arg any = "ANil"
			v %= 1000 // a directly passed message carries v itself: keep it inside every field type
			switch q := r.Intn(100); {
			case q < 60:
				arg = hx.C("AVal", msgTidOf(t), v, 0)
			case q < 80:
				tags["arg:nil"] = true
			default:
				arg = hx.C("AVal", hx.Pick(r, msgTids), v, 0)
				tags["arg:foreign?"] = true
			}
			ops = append(ops, callDirect(k, built, rt, arg, ctx, cb, beh, false))
			tags["call:direct"] = true
		}
		tags["beh:"+beh] = true
	}
	return ops, sortedTags(tags)
}

// ---- the Dispatch layer ----

var protoBodies = [][]byte{nil, {0x08}, {0xff, 0xff}, {0x12, 0x05, 'a'}, {0x08, 0x80}}

func helloBody(v int64) []byte {
	b, _ := gproto.Marshal(&msgs.TestHello{I: int32(v), S: "d"})
	return b
}

// dispTarget: the method a dispatcher over the listed collections would reach (generation aid)
func dispTarget(built map[int64][]regd, ks []int64, route string) *methDesc {
	for _, k := range ks {
		if t := target(built[k], route); t != nil {
			return t
		}
	}
	return nil
}

// dispatch builds an ODispatch op; unless allowF4, a request that would be "good route and
// payload to a notify-shaped method" is turned into a notification (F4 stays in dedicated cases)
func dispatch(built map[int64][]regd, ks []int64, rid int64, route string, body []byte, beh string, allowF4 bool) hx.T {
	if rid != 0 && !allowF4 && route != "" {
		if t := dispTarget(built, ks, route); t != nil && len(t.ins) == 2 && decodesOK("SProto", body, typeIDs[t.ins[1]]) {
			rid = 0
		}
	}
	return hx.C("ODispatch", ks, rid, bytesOf(route), bytesOf(string(body)), []any{}, false, hx.C("CTyp", int64(9)), behTerm(beh))
}

type dispCfg struct {
	name string
	regs []struct {
		k     int64
		zid   int
		group string
		nf    any
	}
	orders [][]int64
}

func dispCfgs() []dispCfg {
	r1, r2, r3 := remoteZoo[0], remoteZoo[1], remoteZoo[2]
	type rg = struct {
		k     int64
		zid   int
		group string
		nf    any
	}
	return []dispCfg{
		{"one", []rg{{0, r1, "g", "None"}}, [][]int64{{0}}},
		{"two", []rg{{0, r1, "g", "None"}, {1, r2, "g", "None"}}, [][]int64{{0, 1}, {1, 0}, {1}, {}, {0, 0}, {2, 0}}},
		{"foreign-first", []rg{{0, r3, "g", "None"}, {1, r1, "g", some("nf_lower")}}, [][]int64{{0, 1}, {1, 0}}},
		{"same-collection", []rg{{0, r3, "", "None"}, {0, r1, "", "None"}, {0, r2, "R01", "None"}}, [][]int64{{0}}},
		{"local-zoo", []rg{{0, 0, "g", "None"}, {1, 12, "g", "None"}, {2, r2, "h", some("nf_camel")}}, [][]int64{{0, 1, 2}, {2, 1, 0}}},
	}
}

// dispatch stream: collections of remote entries x dispatcher order x every route of theirs (and
// unknown / malformed / empty ones) x request / notification x proto bodies x behaviours
func enumerateDispatch(thorough bool, emit func(string, []hx.T, []string)) {
	for _, cfg := range dispCfgs() {
		var pre []hx.T
		built := map[int64][]regd{}
		seenK := map[int64]bool{}
		routes := []string{"", ".", "g", "g.", "a.b.c", "g.Nope", "nog.Join", "Join", "_.Join"}
		seenR := map[string]bool{}
		for _, s := range routes {
			seenR[s] = true
		}
		for _, rg := range cfg.regs {
			op, rd := mkReg(rg.k, rg.zid, rg.group, rg.nf)
			pre = append(pre, op)
			built[rg.k] = append(built[rg.k], rd)
			seenK[rg.k] = true
			for _, m := range rd.ms {
				rt := rd.groupName() + "." + rd.nf.apply(m.name)
				if !seenR[rt] {
					seenR[rt] = true
					routes = append(routes, rt)
				}
			}
		}
		for k := range seenK {
			pre = append(pre, hx.C("OBuild", k))
		}
		sortBuilds(pre)
		for oi, ks := range cfg.orders {
			for ri, rt := range routes {
				ops := append([]hx.T{}, pre...)
				t := dispTarget(built, ks, rt)
				full := t != nil && len(t.ins) == 3 && (thorough || oi < 2)
				for bi, beh := range behs {
					if !full && bi > 0 {
						break
					}
					v := int64(10*ri + bi + 1)
					ops = append(ops, dispatch(built, ks, int64(100+bi), rt, helloBody(v), beh, false))
					if bi%2 == 0 || thorough {
						ops = append(ops, dispatch(built, ks, 0, rt, helloBody(v), beh, false))
					}
				}
				for pi, body := range protoBodies {
					if !thorough && pi%2 == 1 && t == nil {
						continue
					}
					ops = append(ops, dispatch(built, ks, int64(200+pi), rt, body, "BOk", false))
				}
				ops = append(ops, dispatch(built, ks, 0, rt, protoBodies[2], "BOk", false))
				emit("dispatch", ops, []string{"dispatch:" + cfg.name})
			}
		}
	}
	// F4 through Dispatch: a REQUEST addressed to a notify-shaped method (dedicated small cases)
	n := 0
	if thorough {
		n = 3
	}
	f4 := [][2]any{{remoteZoo[0], "g.Note"}, {remoteZoo[1], "g.Quiet"}, {remoteZoo[0], "g.Note"}}
	for i := 0; i < n; i++ {
		op, rd := mkReg(0, f4[i][0].(int), "g", "None")
		built := map[int64][]regd{0: {rd}}
		emit("f4", []hx.T{op, hx.C("OBuild", int64(0)), dispatch(built, []int64{0}, int64(31+i), f4[i][1].(string), helloBody(3), behs[i], true)},
			[]string{"F4:notify-with-completion-function"})
	}
}

// builds last, registrations first (stable)
func sortBuilds(ops []hx.T) {
	var a, b []hx.T
	for _, o := range ops {
		if o.Name == "OBuild" {
			b = append(b, o)
		} else {
			a = append(a, o)
		}
	}
	// deterministic order of the builds
	for i := 0; i < len(b); i++ {
		for j := i + 1; j < len(b); j++ {
			if b[j].Int(0) < b[i].Int(0) {
				b[i], b[j] = b[j], b[i]
			}
		}
	}
	copy(ops, append(a, b...))
}

// random dispatch-flavoured case: 1-3 collections of mostly remote entries, a dispatcher order per
// request, real / mutated / unknown routes, proto / malformed / random bodies
func genDispatch(cfg *hx.Config) ([]hx.T, []string) {
	r := cfg.Rng
	tags := map[string]bool{"dispatch:random": true}
	var ops []hx.T
	regs := map[int64][]regd{}
	built := map[int64][]regd{}
	ncol := int64(1 + r.Intn(3))
	var all []regd
	for i, n := 0, 1+r.Intn(4); i < n; i++ {
		k := r.Int63n(ncol)
		zid := remoteZoo[r.Intn(len(remoteZoo))]
		if r.Intn(5) == 0 {
			zid = r.Intn(len(zoo))
		}
		group := hx.Pick(r, []string{"g", "g", "h", "", "_"})
		nft := nfTerms[0]
		if r.Intn(3) == 0 {
			nft = nfTerms[r.Intn(len(nfTerms))]
		}
		op, rd := mkReg(k, zid, group, nft)
		ops = append(ops, op)
		regs[k] = append(regs[k], rd)
		all = append(all, rd)
	}
	for k := int64(0); k < ncol; k++ {
		if r.Intn(8) > 0 {
			ops = append(ops, hx.C("OBuild", k))
			built[k] = append([]regd{}, regs[k]...)
		} else {
			tags["dispatch:unbuilt-collection"] = true
		}
	}
	for i, n := 0, 3+r.Intn(8); i < n; i++ {
		if r.Intn(7) == 0 {
			ops = append(ops, hx.C("OFire", int64(r.Intn(5)-1), hx.Pick(r, fkinds)))
			tags["fire"] = true
			continue
		}
		var ks []int64
		for j, m := 0, r.Intn(4); j < m; j++ {
			ks = append(ks, r.Int63n(ncol))
		}
		if len(ks) == 0 && r.Intn(4) > 0 {
			ks = []int64{0}
		}
		rd := all[r.Intn(len(all))]
		m := rd.ms[r.Intn(len(rd.ms))]
		rt := rd.groupName() + "." + rd.nf.apply(m.name)
		switch p := r.Intn(100); {
		case p < 65:
			tags["route:real"] = true
		case p < 75:
			rt = flipCase(rt, r.Intn(len(rt)))
			tags["route:mutated"] = true
		case p < 85:
			rt = hx.Pick(r, []string{"g.Nope", "zz.Join", "Join", "g"})
			tags["route:unknown"] = true
		case p < 93:
			rt = hx.Pick(r, []string{"a.b.c", "g.Join.", "..", "g..Join"})
			tags["route:3-segments"] = true
		default:
			rt = ""
			tags["route:empty"] = true
		}
		rid := int64(1 + r.Intn(1000))
		if r.Intn(3) == 0 {
			rid = 0
		}
		var body []byte
		switch p := r.Intn(100); {
		case p < 25:
			body = hx.Pick(r, helloParts)
			tags["payload:proto-partial"] = true
		case p < 65:
			body = helloBody(int64(r.Intn(100) - 2))
			tags["payload:encoded"] = true
		case p < 80:
			body = hx.Pick(r, badProto)
			tags["payload:malformed"] = true
		case p < 92:
			body = make([]byte, r.Intn(10))
			for j := range body {
				body[j] = byte(r.Intn(256))
			}
			tags["payload:random"] = true
		default:
			tags["payload:empty"] = true
		}
		beh := hx.Pick(r, behs)
		tags["beh:"+beh] = true
		ops = append(ops, dispatch(built, ks, rid, rt, body, beh, false))
	}
	return ops, sortedTags(tags)
}

// ---- payload sequences: is a handler given exactly what ITS payload decodes to? ----
// JSON objects are built field by field: omitted / good / wrong-typed / null.  encoding/json
// stores the good fields of an object before it reports a wrong-typed one, so a decode target
// that outlives a rejected payload would show in the next message that omits those fields.

type fieldSpec struct {
	name      string
	good, bad []string
}

var fN = fieldSpec{"n", []string{"3", "-7", "41"}, []string{`"x"`, "true", "[1]", "1.5"}}
var fS = fieldSpec{"s", []string{`"al"`, `"se"`}, []string{"5", "{}"}}
var jsonFields = map[int64][]fieldSpec{
	10: {fN, fS, {"b", []string{"true"}, []string{`"t"`, "1"}}},
	16: {fN, fS, {"b", []string{"true"}, []string{`"t"`, "1"}}},
	11: {fN, fS,
		{"l", []string{"[1,2]", "[9]"}, []string{`"x"`, `[1,"a"]`}},
		{"m", []string{`{"a":1}`, `{"b":2,"c":3}`}, []string{`{"a":"x"}`, "[1]"}},
		{"p", []string{`{"n":9}`, `{"s":"in","b":true}`}, []string{`{"n":"z"}`, "5"}}},
	12: {{"I", []string{"4", "-2"}, []string{`"x"`, "3000000000"}}, {"S", []string{`"bob"`}, []string{"7", "[]"}}},
}

const (
	fOmit = iota
	fGood
	fBad
	fNull
)

// object renders the fields of message type id in the given states (pick varies the sample value)
func object(id int64, states []int, pick int) []byte {
	var parts []string
	for i, f := range jsonFields[id] {
		switch states[i] {
		case fGood:
			parts = append(parts, fmt.Sprintf("%q:%s", f.name, f.good[(pick+i)%len(f.good)]))
		case fBad:
			parts = append(parts, fmt.Sprintf("%q:%s", f.name, f.bad[(pick+i)%len(f.bad)]))
		case fNull:
			parts = append(parts, fmt.Sprintf("%q:null", f.name))
		}
	}
	return []byte("{" + strings.Join(parts, ",") + "}")
}

// protobuf bodies of TestHello: partial, unknown fields, wrong wire type, good field then truncation
var helloParts = [][]byte{
	{0x08, 0x05},                         // I only
	{0x12, 0x03, 's', 'e', 'c'},          // S only
	{0x08, 0x09, 0x12, 0x01, 'z'},        // both
	{},                                   // neither
	{0x78, 0x01},                         // unknown field 15
	{0x0a, 0x01, 0x41},                   // field 1 with the wrong wire type (kept as unknown)
	{0x08, 0x07, 0x12, 0x05, 'a'},        // I, then a truncated S: error after I was stored
	{0x12, 0x02, 'o', 'k', 0x08},         // S, then a truncated I
	{0x08, 0x05, 0x12, 0x02, 0xff, 0xfe}, // I, then invalid UTF-8 in S
}

// routes that take message type id, over the registrations used by the sequence stream
type seqRoute struct {
	route string
	id    int64
}

// sequence stream: per message type, a rejected-but-half-decodable payload followed by valid
// payloads that omit fields - on the same route, on another method, on another entry; JSON and
// protobuf; through CallWithSerialize and through a dispatching service
func enumerateSequences(thorough bool, emit func(string, []hx.T, []string)) {
	k := int64(0)
	// Z01 (MsgA: Join request, Note notify), Z13 (J1: MsgA; P1/P2: TestHello), Z02 (Join: MsgB; Push/Note: TestHello),
	// Z06 (Ok: **MsgA)
	regs := []struct {
		zid   int
		group string
	}{{0, "a"}, {12, "b"}, {1, "c"}, {5, "d"}}
	var pre []hx.T
	var built []regd
	for _, rg := range regs {
		op, rd := mkReg(k, rg.zid, rg.group, "None")
		pre = append(pre, op)
		built = append(built, rd)
	}
	pre = append(pre, hx.C("OBuild", k))
	byType := map[int64][]string{}
	for _, rd := range built {
		for i := range rd.ms {
			if shapeOK(rd.ms[i]) {
				id := typeIDs[rd.ms[i].ins[1]]
				byType[id] = append(byType[id], rd.groupName()+"."+rd.ms[i].name)
			}
		}
	}
	call := func(rt string, ser string, body []byte, bi int) hx.T {
		t := target(built, rt)
		return callSer(k, built, ser, rt, body, ctxTermFor(t), true, behs[bi%2], false) // BOk / BErr
	}
	for _, id := range []int64{10, 11, 12, 16} {
		routes := byType[id]
		fs := jsonFields[id]
		n := len(fs)
		// first payloads: exactly one wrong-typed field, the others good or omitted
		for badAt := 0; badAt < n; badAt++ {
			for mask := 0; mask < 1<<uint(n); mask++ {
				if mask&(1<<uint(badAt)) != 0 {
					continue
				}
				if !thorough && n > 3 && mask != (1<<uint(n))-1-(1<<uint(badAt)) && mask != 1<<uint((badAt+1)%n) {
					continue // quick: all others good / just one other good
				}
				first := make([]int, n)
				for i := range first {
					if mask&(1<<uint(i)) != 0 {
						first[i] = fGood
					}
				}
				first[badAt] = fBad
				ops := append([]hx.T{}, pre...)
				// second payloads: valid, every subset of fields (quick: each single field, none, all)
				for sm := 0; sm < 1<<uint(n); sm++ {
					bits := 0
					for i := 0; i < n; i++ {
						if sm&(1<<uint(i)) != 0 {
							bits++
						}
					}
					if !thorough && bits > 1 && bits < n {
						continue
					}
					second := make([]int, n)
					for i := range second {
						if sm&(1<<uint(i)) != 0 {
							second[i] = fGood
						}
					}
					r1 := routes[(badAt+sm)%len(routes)]
					r2 := routes[(badAt+sm+mask)%len(routes)]
					ops = append(ops, call(r1, "SJson", object(id, first, sm), sm))
					ops = append(ops, call(r2, "SJson", object(id, second, sm+1), sm+1))
				}
				// nulls and an empty object after a rejected payload
				nulls := make([]int, n)
				for i := range nulls {
					nulls[i] = fNull
				}
				ops = append(ops, call(routes[0], "SJson", object(id, first, 1), 0), call(routes[len(routes)-1], "SJson", object(id, nulls, 0), 0),
					call(routes[0], "SJson", object(id, first, 2), 0), call(routes[0], "SJson", []byte("{}"), 0))
				emit("sequence", ops, []string{fmt.Sprintf("sequence:json-type-%d", id)})
			}
		}
	}
	// protobuf: every ordered pair of bodies, through CallWithSerialize(SProto) and through a service
	hr := byType[12]
	ropR, rdR := mkReg(1, remoteZoo[0], "g", "None")
	builtD := map[int64][]regd{1: {rdR}}
	for i, b1 := range helloParts {
		ops := append([]hx.T{}, pre...)
		ops = append(ops, ropR, hx.C("OBuild", int64(1)))
		for j, b2 := range helloParts {
			ops = append(ops, call(hr[(i+j)%len(hr)], "SProto", b1, 0), call(hr[(i+2*j+1)%len(hr)], "SProto", b2, 0))
			if thorough || (i+j)%2 == 0 {
				ops = append(ops, dispatch(builtD, []int64{1}, int64(300+j), "g.Join", b1, "BOk", false),
					dispatch(builtD, []int64{1}, 0, "g.Note", b2, "BOk", false),
					dispatch(builtD, []int64{1}, int64(400+j), "g.Ret", b2, "BOk", false))
			}
		}
		emit("sequence", ops, []string{"sequence:protobuf"})
	}
}

// random field-wise JSON payload for message type id (mostly valid fields, some wrong-typed)
func randomObject(r *rand.Rand, id int64) []byte {
	fs, ok := jsonFields[id]
	if !ok {
		return []byte(hx.Pick(r, []string{"5", `"x"`, "null", "{}"}))
	}
	st := make([]int, len(fs))
	for i := range st {
		switch p := r.Intn(10); {
		case p < 4:
			st[i] = fOmit
		case p < 8:
			st[i] = fGood
		case p < 9:
			st[i] = fBad
		default:
			st[i] = fNull
		}
	}
	return object(id, st, r.Intn(5))
}

// ---- rejected registrations ----
// Every reason Build() can refuse an entry (unnamed type, unexported type name, no handler-shaped
// method - incl. a value whose handlers have pointer receivers -, group name already taken) x a
// valid entry asking for the SAME group name, in every order, interleaved with Build.

func unservable() (ids []int, why map[int]string) {
	why = map[int]string{}
	for zid := range zoo {
		rd := regd{zid: zid, ms: methodsOf(zid)}
		if rd.servable() {
			continue
		}
		tn := goTypeName(zoo[zid])
		switch {
		case tn == "":
			why[zid] = "unnamed-type"
		case tn[0] < 'A' || tn[0] > 'Z':
			why[zid] = "unexported-type"
		case reflect.TypeOf(zoo[zid]).Kind() != reflect.Ptr:
			why[zid] = "value-with-pointer-receivers"
		default:
			why[zid] = "no-handler-shaped-method"
		}
		ids = append(ids, zid)
	}
	return
}

func enumerateRejections(thorough bool, emit func(string, []hx.T, []string)) {
	bads, why := unservable()
	goods := []int{0, 11, 1, remoteZoo[0]} // Z01, Z12 (notify only), Z02, R01
	k := int64(0)
	orders := [][]string{
		{"bad", "good", "build"},
		{"bad", "build", "good", "build"},
		{"bad", "bad", "good", "build"},
		{"good", "bad", "build"},
		{"bad", "good", "build", "bad", "build"},
		{"good", "good2", "bad", "build"},
		{"bad", "good2", "good", "build", "good", "build"},
	}
	for bi, bad := range bads {
		for gi, good := range goods {
			for mode := 0; mode < 3; mode++ {
				for oi, order := range orders {
					if !thorough && !(mode == 0 && oi < 2 && gi < 2) && (bi+gi+mode+oi)%7 != 0 {
						continue
					}
					good2 := goods[(gi+1)%len(goods)]
					// group name / naming function per mode
					name := func(zid int) (string, any) {
						switch mode {
						case 0:
							return "room", "None"
						case 1: // the valid entry keeps its type name, the others ask for exactly that
							if zid == good {
								return "", "None"
							}
							return goTypeName(zoo[good]), "None"
						default: // every name becomes "x"
							return "", some(hx.C("nf_const", bytesOf("x")))
						}
					}
					var ops []hx.T
					var regs, built []regd
					probe := func() {
						seen := map[string]bool{}
						for _, rd := range regs {
							for i := range rd.ms {
								rt := rd.groupName() + "." + rd.nf.apply(rd.ms[i].name)
								if seen[rt] || len(rd.ms[i].ins) < 2 {
									continue
								}
								seen[rt] = true
								ops = append(ops, hx.C("OHas", k, bytesOf(rt)), hx.C("OArgT", k, bytesOf(rt)))
								m := &rd.ms[i]
								if t := target(built, rt); t != nil {
									m = t
								}
								ops = append(ops, callSer(k, built, "SJson", rt, goodPayload("SJson", msgTidOf(m), int64(i+1)), ctxTermFor(m), true, "BOk", false))
							}
						}
					}
					for _, st := range order {
						switch st {
						case "build":
							ops = append(ops, hx.C("OBuild", k))
							built = append([]regd{}, regs...)
							probe()
						default:
							zid := map[string]int{"bad": bad, "good": good, "good2": good2}[st]
							g, nf := name(zid)
							op, rd := mkReg(k, zid, g, nf)
							ops = append(ops, op)
							regs = append(regs, rd)
						}
					}
					emit("rejection", ops, []string{"rejected:" + why[bad], fmt.Sprintf("rejection:mode-%d", mode), "rejection:order-" + strings.Join(order, ",")})
				}
			}
		}
	}
}

// ---- deferred completions overlapping later calls ----
// handlers keep the completion function (BDefer / BOkDefer / BDeferPanic); further calls and
// requests go through the same collection / the same dispatcher; the kept functions are then run
// in every order, repeatedly, with a result / an error / an unserialisable result

func perms(n int) [][]int {
	if n == 1 {
		return [][]int{{0}}
	}
	var out [][]int
	for _, p := range perms(n - 1) {
		for i := 0; i <= len(p); i++ {
			q := append(append(append([]int{}, p[:i]...), n-1), p[i:]...)
			out = append(out, q)
		}
	}
	return out
}

func enumerateOverlap(thorough bool, emit func(string, []hx.T, []string)) {
	deferBehs := []string{"BDefer", "BOkDefer", "BDeferPanic"}
	k := int64(0)
	opA, rdA := mkReg(k, 0, "g", "None")            // Z01: g.Join (MsgA, request)
	opB, rdB := mkReg(k, 1, "h", "None")            // Z02: h.Join (MsgB), h.Push (TestHello)
	opR, rdR := mkReg(1, remoteZoo[0], "g", "None") // R01 behind a dispatcher: g.Join, g.Ret
	opS, rdS := mkReg(2, remoteZoo[1], "s", "None") // R02 in another collection of the same dispatcher
	built := []regd{rdA, rdB}
	builtD := map[int64][]regd{1: {rdR}, 2: {rdS}}
	pre := []hx.T{opA, opB, hx.C("OBuild", k), opR, opS, hx.C("OBuild", int64(1)), hx.C("OBuild", int64(2))}
	directRoutes := []struct {
		rt string
		id int64
	}{{"g.Join", 10}, {"h.Join", 11}, {"h.Push", 12}}
	dispRoutes := []string{"g.Join", "g.Ret", "s.Only2"}
	ks := []int64{1, 2}
	direct := func(i int, beh string) hx.T {
		d := directRoutes[i%len(directRoutes)]
		return callSer(k, built, "SJson", d.rt, goodPayload("SJson", d.id, int64(i+1)), "CNil", true, beh, false)
	}
	disp := func(i int, rid int64, beh string) hx.T {
		return dispatch(builtD, ks, rid, dispRoutes[i%len(dispRoutes)], helloBody(int64(i+1)), beh, false)
	}
	fire := func(n int, kd string) hx.T { return hx.C("OFire", int64(n), kd) }
	for path := 0; path < 3; path++ { // 0 direct, 1 dispatch, 2 mixed
		mk := func(i int, beh string) hx.T {
			if path == 0 || (path == 2 && i%2 == 0) {
				return direct(i, beh)
			}
			return disp(i, int64(11+i), beh)
		}
		for m := 2; m <= 3; m++ {
			var combos [][]string
			if m == 2 {
				for _, a := range deferBehs {
					for _, b := range deferBehs {
						combos = append(combos, []string{a, b})
					}
				}
			} else {
				combos = [][]string{{"BDefer", "BDefer", "BDefer"}, {"BDefer", "BOkDefer", "BDefer"}}
			}
			for ci, combo := range combos {
				for pi, perm := range perms(m) {
					if !thorough && (ci+pi+path)%2 == 1 {
						continue
					}
					ops := append([]hx.T{}, pre...)
					for i, beh := range combo {
						ops = append(ops, mk(i, beh))
						if i == 0 {
							ops = append(ops, mk(5, "BOk")) // a complete call in between
						}
					}
					ops = append(ops, disp(4, 0, "BOk")) // and a notification
					for j, n := range perm {
						ops = append(ops, fire(n, fkinds[(ci+pi+j)%3]))
						if j == 0 {
							ops = append(ops, mk(6, "BErr"), mk(7, "BDefer")) // more traffic, one more kept function
						}
					}
					for j, n := range perm { // everything again, other kinds
						ops = append(ops, fire(n, fkinds[(ci+pi+j+1)%3]))
					}
					ops = append(ops, fire(m, "FOk"), fire(m, "FErr"), fire(m+1, "FOk"), fire(-1, "FOk"))
					emit("overlap", ops, []string{fmt.Sprintf("overlap:path-%d", path), fmt.Sprintf("overlap:kept-%d", m)})
				}
			}
		}
	}
}

// ---- panic values ----
// a handler may panic with anything: a string, an error, a runtime error, an error whose Error()
// itself panics (typed nil in an error), a Stringer whose String() panics, nil, a value that is
// not comparable...  Whatever it is: the call completes exactly once with an error, nothing escapes.
func enumeratePanics(thorough bool, emit func(string, []hx.T, []string)) {
	k := int64(0)
	opA, rdA := mkReg(k, 0, "g", "None")            // Z01: g.Join request, g.Note notify
	opR, rdR := mkReg(1, remoteZoo[0], "g", "None") // R01 behind a dispatcher
	built := []regd{rdA}
	builtD := map[int64][]regd{1: {rdR}}
	pre := []hx.T{opA, hx.C("OBuild", k), opR, hx.C("OBuild", int64(1))}
	for kind := 0; kind < panicKinds+1; kind++ {
		beh := fmt.Sprintf("BPanicWith:%d", kind)
		ops := append([]hx.T{}, pre...)
		for _, cb := range []bool{true, false} {
			ops = append(ops, callSer(k, built, "SJson", "g.Join", goodPayload("SJson", 10, int64(kind)), "CNil", cb, beh, false))
			ops = append(ops, callDirect(k, built, "g.Join", hx.C("AVal", int64(10), int64(kind), 0), hx.C("CTyp", int64(1)), cb, beh, false))
		}
		ops = append(ops, callSer(k, built, "SJson", "g.Note", goodPayload("SJson", 10, 1), "CNil", false, beh, false))
		ops = append(ops, dispatch(builtD, []int64{1}, int64(50+kind), "g.Join", helloBody(int64(kind)), beh, false))
		ops = append(ops, dispatch(builtD, []int64{1}, 0, "g.Join", helloBody(1), beh, false))
		ops = append(ops, dispatch(builtD, []int64{1}, 0, "g.Note", helloBody(2), beh, false))
		ops = append(ops, dispatch(builtD, []int64{1}, int64(70+kind), "g.Ret", helloBody(3), beh, false))
		// the collection and the service still work afterwards
		ops = append(ops, callSer(k, built, "SJson", "g.Join", goodPayload("SJson", 10, 9), "CNil", true, "BOk", false))
		ops = append(ops, dispatch(builtD, []int64{1}, 99, "g.Join", helloBody(4), "BOk", false))
		emit("panics", ops, []string{fmt.Sprintf("panic-value:%d", kind)})
	}
}

// ---- names with dots ----
// group names and (renamed) method names may contain dots and empty segments; a route is
// group.method only if it has exactly ONE dot (inner group: none), whatever names are registered
func enumerateDots(thorough bool, emit func(string, []hx.T, []string)) {
	groups := []string{"chat.room", "a.", ".b", "a..b", ".", "chat.room.x", "chat"}
	nfs := []any{"None", some(hx.C("nf_const", bytesOf("x.y"))), some(hx.C("nf_prefix", bytesOf("p."))), some(hx.C("nf_const", bytesOf("")))}
	zids := []int{0, 11, remoteZoo[0]}
	for zi, zid := range zids {
		for gi, group := range groups {
			for ni, nft := range nfs {
				if !thorough && (zi+gi+ni)%2 == 1 {
					continue
				}
				k := int64(0)
				op, rd := mkReg(k, zid, group, nft)
				op2, rd2 := mkReg(k, 1, "", nft) // group derived from the type name through the naming function
				built := []regd{rd, rd2}
				ops := []hx.T{op, op2, hx.C("OBuild", k)}
				seen := map[string]bool{}
				add := func(rt string) {
					if seen[rt] {
						return
					}
					seen[rt] = true
					ops = append(ops, hx.C("OHas", k, bytesOf(rt)), hx.C("OArgT", k, bytesOf(rt)))
					t := target(built, rt)
					if t == nil { // what should answer it, were the route accepted
						for i := range rd.ms {
							if shapeOK(rd.ms[i]) {
								t = &rd.ms[i]
								break
							}
						}
					}
					ops = append(ops, callSer(k, built, "SJson", rt, goodPayload("SJson", msgTidOf(t), 2), ctxTermFor(t), true, "BOk", false))
				}
				for _, r := range []regd{rd, rd2} {
					g := r.groupName()
					for i := range r.ms {
						if len(r.ms[i].ins) < 2 {
							continue
						}
						nm := r.nf.apply(r.ms[i].name)
						add(g + "." + nm)
						add(g + "." + r.ms[i].name)
						add(nm)
						add(strings.Replace(g, ".", "", 1) + "." + nm)
						if j := strings.LastIndex(g, "."); j >= 0 {
							add(g[:j] + "." + g[j+1:] + nm)
							add(g[j+1:] + "." + nm)
						}
					}
					add(g)
					add(g + ".")
				}
				for _, s := range []string{"", ".", "..", "...", "....", "a.b.c.d.e"} {
					add(s)
				}
				// through a dispatching service as well
				ops = append(ops, dispatch(map[int64][]regd{k: built}, []int64{k}, 7, rd.groupName()+"."+rd.nf.apply("Join"), helloBody(1), "BOk", false))
				emit("dots", ops, []string{"dots:group=" + group, "dots:nf-" + nfName(nft)})
			}
		}
	}
}
