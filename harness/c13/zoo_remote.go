// Entry types whose methods take the context a real actorex/service APIDispatcher passes
// (*service.RemoteContext), for the Dispatch layer.  Hand-written; same conventions as zoo.go.
package c13

import (
	as "github.com/dfklegend/cell2/actorex/service"
	api "github.com/dfklegend/cell2/apimapper"
	"github.com/dfklegend/cell2/apimapper/apientry"
	"github.com/dfklegend/cell2/utils/serialize/proto/msgs"
)

// R01: the ordinary remote entry: proto request, proto notify, a JSON-only message (never
// decodable by the dispatcher's proto serializer), an unassignable func parameter, a result
type R01 struct{ api.APIEntry }

func (z *R01) Join(c *as.RemoteContext, m *msgs.TestHello, cb apientry.HandlerCBFunc) {
	act(4001, m == nil, func() int64 { return tok(m) }, cbA(cb))
}
func (z *R01) Note(c *as.RemoteContext, m *msgs.TestHello) {
	act(4002, m == nil, func() int64 { return tok(m) }, nil)
}
func (z *R01) Json(c *as.RemoteContext, m *MsgA, cb apientry.HandlerCBFunc) {
	act(4003, m == nil, func() int64 { return tok(m) }, cbA(cb))
}
func (z *R01) Unfit(c *as.RemoteContext, m *msgs.TestHello, cb func()) {
	act(4004, m == nil, func() int64 { return tok(m) }, nil)
}
func (z *R01) Ret(c *as.RemoteContext, m *msgs.TestHello, cb func(error, interface{})) error {
	act(4005, m == nil, func() int64 { return tok(m) }, cbF(cb))
	return nil
}

// R02: shares Join / Note with R01 (which collection of a dispatcher answers?) and has its own
type R02 struct{ api.APIEntry }

func (z *R02) Join(c *as.RemoteContext, m *msgs.TestHello, cb apientry.HandlerCBFunc) {
	act(4101, m == nil, func() int64 { return tok(m) }, cbA(cb))
}
func (z *R02) Note(c *as.RemoteContext, m *msgs.TestHello, cb apientry.HandlerCBFunc) { // request-shaped here
	act(4102, m == nil, func() int64 { return tok(m) }, cbA(cb))
}
func (z *R02) Only2(c *as.RemoteContext, m *msgs.TestHello, cb apientry.HandlerCBFunc) {
	act(4103, m == nil, func() int64 { return tok(m) }, cbA(cb))
}
func (z *R02) Quiet(c *as.RemoteContext, m *msgs.TestHello) {
	act(4104, m == nil, func() int64 { return tok(m) }, nil)
}

// R03: handler-shaped, but for another context type: every dispatched call is refused by reflect
type R03 struct{ api.APIEntry }

func (z *R03) Join(c *api.DummyContext, m *msgs.TestHello, cb apientry.HandlerCBFunc) {
	act(4201, m == nil, func() int64 { return tok(m) }, cbA(cb))
}
func (z *R03) Other(c *ZCtx, m *msgs.TestHello) {
	act(4202, m == nil, func() int64 { return tok(m) }, nil)
}
func (z *R03) Mixed(c *as.RemoteContext, m *msgs.TestHello, cb apientry.HandlerCBFunc) {
	act(4203, m == nil, func() int64 { return tok(m) }, cbA(cb))
}

// zoo ids of the remote entries
var remoteZoo []int

func init() {
	for name, uid := range map[string]int64{
		"R01.Join": 4001, "R01.Note": 4002, "R01.Json": 4003, "R01.Unfit": 4004, "R01.Ret": 4005, "R01.Desc": 4099,
		"R02.Join": 4101, "R02.Note": 4102, "R02.Only2": 4103, "R02.Quiet": 4104, "R02.Desc": 4199,
		"R03.Join": 4201, "R03.Other": 4202, "R03.Mixed": 4203, "R03.Desc": 4299,
	} {
		uidByName[name] = uid
	}
	for _, e := range []api.IAPIEntry{&R01{}, &R02{}, &R03{}} {
		remoteZoo = append(remoteZoo, len(zoo))
		zoo = append(zoo, e)
	}
}
