// Package c16 drives the real channel.Service (node/builtin/channel) with a recording
// IPushMessager, and the real impls.ClientSessions.PushMsg with recording sessions.
package c16

import (
	"errors"
	"fmt"
	"sort"
	"sync"

	"github.com/asynkron/protoactor-go/actor"

	as "github.com/dfklegend/cell2/actorex/service"
	"github.com/dfklegend/cell2/apimapper/registry"
	_ "github.com/dfklegend/cell2/node/builtin" // registers the system API (sys.pushmsg ...)
	"github.com/dfklegend/cell2/node/builtin/channel"
	"github.com/dfklegend/cell2/node/builtin/msgs"
	"github.com/dfklegend/cell2/node/client/impls"
	"github.com/dfklegend/cell2/node/service"

	"verifh/hx"
)

type pushRec struct {
	front string
	ids   []int64
}

type recorder struct{ pushes []pushRec }

func (r *recorder) PushMessageById(ns *service.NodeService, serverId string, sessionId uint32, route string, msg any) {
	r.pushes = append(r.pushes, pushRec{serverId, []int64{int64(sessionId)}})
}

func (r *recorder) PushMessageByIds(ns *service.NodeService, serverId string, ids []uint32, route string, msg any) {
	cp := make([]int64, len(ids))
	for i, v := range ids {
		cp[i] = int64(v)
	}
	r.pushes = append(r.pushes, pushRec{serverId, cp})
}

// recording IClientSession for the front-end side
type recSession struct {
	id       uint32
	log      *[]int64
	closed   bool
	failNext bool // writes of the current push fail (the real session: encoder refused the payload, send recovered a panic); the connection stays open
}

func (s *recSession) Reserve()        {}
func (s *recSession) GetId() uint32   { return s.id }
func (s *recSession) SetId(i uint32)  { s.id = i }
func (s *recSession) Close()          { s.closed = true }
func (s *recSession) IsClosed() bool  { return s.closed }
func (s *recSession) Push(route string, v interface{}) error {
	if s.closed { // what the real ClientSession.Push answers once its status is Closed
		return errors.New("closed")
	}
	if s.failNext { // cleared by the driver at the end of the push: every write of THIS push fails
		return errors.New("send error")
	}
	*s.log = append(*s.log, int64(s.id))
	return nil
}
func (s *recSession) ResponseMID(mid uint, v interface{}, e error) error { return nil }

func name(prefix string, n int64) string { return fmt.Sprintf("%s%d", prefix, n) }

// Exec runs one op list against fresh real objects and returns the observations.
func Exec(ops []hx.T) (obs []any, nontrivial bool) {
	rec := &recorder{}
	channel.SetPushImpl(rec)
	svc := channel.NewChannelService(nil)
	frontNum := map[string]int64{}
	// channel tokens >= 1000 are temporary channels: created with AllocTempChannel (the real
	// name is chosen by the service), deleted with FreeTempChannel
	temp := map[int64]*channel.Channel{}
	chName := func(c int64) string {
		if c >= 1000 {
			if t := temp[c]; t != nil {
				return t.GetName()
			}
			return fmt.Sprintf("_temp_never_allocated_%d", c)
		}
		return name("ch", c)
	}
	ensure := func(c int64) {
		if c >= 1000 && temp[c] == nil {
			temp[c] = svc.AllocTempChannel()
		}
	}
	for _, o := range ops {
		switch o.Name {
		case "OAddChannel":
			if o.Int(0) >= 1000 {
				ensure(o.Int(0))
			} else {
				svc.AddChannel(name("ch", o.Int(0)))
			}
			obs = append(obs, "BUnit")
		case "OAdd":
			f := name("front-", o.Int(1))
			frontNum[f] = o.Int(1)
			ensure(o.Int(0))
			svc.AddToChannel(chName(o.Int(0)), f, uint32(o.Int(2)))
			obs = append(obs, "BUnit")
		case "OLeave":
			f := name("front-", o.Int(1))
			frontNum[f] = o.Int(1)
			svc.LeaveFromChannel(chName(o.Int(0)), f, uint32(o.Int(2)))
			obs = append(obs, "BUnit")
		case "ODelete":
			if t := temp[o.Int(0)]; o.Int(0) >= 1000 && t != nil {
				svc.FreeTempChannel(t)
				delete(temp, o.Int(0))
			} else {
				svc.DeleteChannel(chName(o.Int(0)))
			}
			obs = append(obs, "BUnit")
		case "ODirect":
			f := name("front-", o.Int(0))
			frontNum[f] = o.Int(0)
			ids := o.Ints(1)
			rec.pushes = nil
			called := 0
			cb := func(error, interface{}) { called++ }
			if len(ids) == 1 {
				svc.PushMessageById(nil, f, uint32(ids[0]), "route.x", "payload", cb)
			} else {
				u := make([]uint32, len(ids))
				for i, v := range ids {
					u[i] = uint32(v)
				}
				svc.PushMessageByIds(nil, f, u, "route.x", "payload", cb)
			}
			l := []any{}
			for _, p := range rec.pushes {
				l = append(l, hx.Pair{A: frontNum[p.front], B: hx.Norm(p.ids)})
			}
			if called != 1 {
				obs = append(obs, "BNoChan") // completion function must run exactly once
			} else {
				obs = append(obs, hx.C("BPush", l))
			}
			nontrivial = nontrivial || len(ids) > 0
		case "OGet":
			obs = append(obs, hx.C("BBool", svc.GetChannel(chName(o.Int(0))) != nil))
		case "OPush":
			ch := svc.GetChannel(chName(o.Int(0)))
			if ch == nil {
				obs = append(obs, "BNoChan")
				break
			}
			rec.pushes = nil
			ch.PushMessage("route.x", "payload")
			ps := rec.pushes
			sort.SliceStable(ps, func(i, j int) bool { return frontNum[ps[i].front] < frontNum[ps[j].front] })
			l := []any{}
			for _, p := range ps {
				if len(p.ids) > 0 {
					nontrivial = true
				}
				l = append(l, hx.Pair{A: frontNum[p.front], B: hx.Norm(p.ids)})
			}
			obs = append(obs, hx.C("BPush", l))
		case "OFrontSeq":
			live := o.Ints(0)
			var pushes [][2][]int64
			for _, p := range o.List(1) {
				pp := p.(hx.Pair)
				pushes = append(pushes, [2][]int64{hx.Ints(pp.A), hx.Ints(pp.B)})
			}
			ds := []any{}
			for _, d := range frontSeq(live, pushes) {
				ds = append(ds, hx.Norm(d))
			}
			obs = append(obs, hx.C("BDeliverSeq", ds))
			if len(live) > 0 && len(pushes) > 0 {
				nontrivial = true
			}
		case "OFront":
			live, closing, ids := o.Ints(0), o.Ints(1), o.Ints(2)
			obs = append(obs, hx.C("BDeliver", frontDeliver(live, closing, ids)))
			if len(live) > 0 && len(ids) > 0 {
				nontrivial = true
			}
		default:
			panic("c16: unknown op " + o.Name)
		}
	}
	return
}

// frontDeliver builds a real ClientSessions with max(live) sessions added (the real id
// allocator decides their connection ids), removes those whose token is not in `live`,
// and pushes.  Tokens are renamed injectively: token t = the t-th added session; tokens
// beyond that map to ids nobody ever had.
//
// Tokens in `closing` stay registered but are closed at network level (the window between
// ClientSession.Close() and the posted RemoveSession): Push on them fails.
func frontDeliver(live, closing, ids []int64) []int64 {
	cs := impls.NewClientSessions("front-x")
	var log []int64
	max := int64(0)
	isLive := map[int64]bool{}
	isClosing := map[int64]bool{}
	for _, v := range live {
		isLive[v] = true
		if v > max {
			max = v
		}
	}
	for _, v := range closing {
		isClosing[v] = true
		if v > max {
			max = v
		}
	}
	tokToID := map[int64]uint32{}
	idToTok := map[int64]int64{}
	sessions := []*recSession{}
	for t := int64(1); t <= max; t++ {
		s := &recSession{log: &log}
		cs.AddSession(s)
		sessions = append(sessions, s)
		tokToID[t] = s.id
		idToTok[int64(s.id)] = t
	}
	for t, s := range sessions {
		if isClosing[int64(t+1)] {
			s.Close()
		} else if !isLive[int64(t+1)] {
			cs.RemoveSession(s)
		}
	}
	u := make([]uint32, len(ids))
	for i, v := range ids {
		if id, ok := tokToID[v]; ok {
			u[i] = id
		} else {
			u[i] = uint32(1000000 + v)
		}
	}
	// Delivered the way a back-end's multi-id push arrives: as the system call sys.pushmsg,
	// dispatched through the process-wide "__sys__" collection with the context of the receiving
	// front-end service.  Every OFront is its own front-end service in this ONE process (a node may
	// host several), so anything the system entry remembers between calls shows.
	frontNo++
	g := &gate{NodeService: service.NewService()}
	g.AddComponent("sessions", impls.NewSessionsComponent(cs))
	sysOnce.Do(func() { registry.Registry.Build() })
	col := registry.Registry.GetCollection(service.SystemAPI)
	rc := as.NewRemoteContext()
	rc.Update(&actorCtx{a: g})
	answered := false
	col.Call(rc, "sys.pushmsg", &msgs.PushMsg{Ids: u, Route: "r", Data: []byte("x")}, func(err error, ret interface{}) {
		answered = err == nil
	})
	if !answered {
		return []int64{-1} // the system call failed or was not answered: unmatchable
	}
	out := make([]int64, len(log))
	for i, id := range log {
		out[i] = idToTok[id]
	}
	return out
}

// frontSeq: ONE front-end service (real ClientSessions behind the real sys.pushmsg entry) with the
// tokens of `live` registered and open; the pushes are delivered one after the other; before push k
// the connections named in its `failing` list are told to fail their next write once.
func frontSeq(live []int64, pushes [][2][]int64) [][]int64 {
	cs := impls.NewClientSessions("front-seq")
	var log []int64
	max := int64(0)
	isLive := map[int64]bool{}
	for _, v := range live {
		isLive[v] = true
		if v > max {
			max = v
		}
	}
	for _, p := range pushes {
		for _, v := range p[1] {
			if v > max && v < 1000 {
				max = v
			}
		}
	}
	tokToID := map[int64]uint32{}
	idToTok := map[int64]int64{}
	byTok := map[int64]*recSession{}
	var sessions []*recSession
	for t := int64(1); t <= max; t++ {
		s := &recSession{log: &log}
		cs.AddSession(s)
		sessions = append(sessions, s)
		tokToID[t] = s.id
		idToTok[int64(s.id)] = t
		byTok[t] = s
	}
	for t, s := range sessions {
		if !isLive[int64(t+1)] {
			cs.RemoveSession(s)
			delete(byTok, int64(t+1))
		}
	}
	g := &gate{NodeService: service.NewService()}
	g.AddComponent("sessions", impls.NewSessionsComponent(cs))
	sysOnce.Do(func() { registry.Registry.Build() })
	col := registry.Registry.GetCollection(service.SystemAPI)
	var out [][]int64
	for _, p := range pushes {
		for _, t := range p[1] {
			if s := byTok[t]; s != nil {
				s.failNext = true
			}
		}
		u := make([]uint32, len(p[0]))
		for i, v := range p[0] {
			if id, ok := tokToID[v]; ok {
				u[i] = id
			} else {
				u[i] = uint32(1000000 + v)
			}
		}
		log = log[:0]
		rc := as.NewRemoteContext()
		rc.Update(&actorCtx{a: g})
		answered := false
		col.Call(rc, "sys.pushmsg", &msgs.PushMsg{Ids: u, Route: "r", Data: []byte("x")}, func(err error, ret interface{}) {
			answered = err == nil
		})
		d := make([]int64, 0, len(log))
		if !answered {
			d = append(d, -1)
		}
		for _, id := range log {
			d = append(d, idToTok[id])
		}
		out = append(out, d)
		for _, s := range byTok { // the failure is over with this push
			s.failNext = false
		}
	}
	return out
}

// a front-end service: a NodeService with a "sessions" component, as pomelo.ServiceCreateAcceptors builds it
type gate struct {
	*service.NodeService
}

func (g *gate) GetNodeService() *service.NodeService { return g.NodeService }
func (g *gate) Receive(ctx actor.Context)           {}

// the actor context a system call arrives with: only Actor() is used by the system entry
type actorCtx struct {
	actor.Context
	a actor.Actor
}

func (c *actorCtx) Actor() actor.Actor { return c.a }

var (
	frontNo int
	sysOnce sync.Once
)

// ---- generator ----

type shadow map[[2]int64][]int64 // (channel, front) -> ids, only used to aim removals

func gen(cfg *hx.Config, maxLen int) ([]hx.T, []string) {
	r := cfg.Rng
	n := 1 + r.Intn(maxLen)
	nch, nfr, nid := int64(1+r.Intn(3)), int64(1+r.Intn(3)), int64(1+r.Intn(5))
	sh := shadow{}
	var ops []hx.T
	tags := map[string]bool{}
	// connection ids are any uint32: in a third of the histories the two smallest ids of the pool stand for
	// the boundary values 0 and 2^32-1 (seed C16-11: Channel.Add dropping id 0)
	boundary := r.Intn(3) == 0
	idv := func(i int64) int64 {
		if boundary {
			switch i {
			case 1:
				tags["id-zero"] = true
				return 0
			case 2:
				tags["id-max"] = true
				return 4294967295
			}
		}
		return i
	}
	for len(ops) < n {
		c, f := 1+r.Int63n(nch), 1+r.Int63n(nfr)
		if r.Intn(6) == 0 {
			c += 999 // a temporary channel
			tags["temp-channel"] = true
		}
		k := [2]int64{c, f}
		switch p := r.Intn(100); {
		case p < 40:
			i := idv(1 + r.Int63n(nid))
			for _, x := range sh[k] {
				if x == i {
					tags["dup-add"] = true
				}
			}
			sh[k] = append(sh[k], i)
			ops = append(ops, hx.C("OAdd", c, f, i))
		case p < 62:
			g := sh[k]
			var i int64
			if len(g) > 0 && r.Intn(5) > 0 {
				pos := 0
				switch r.Intn(3) {
				case 0:
					pos = 0
					tags["leave-first"] = true
				case 1:
					pos = len(g) - 1
					tags["leave-last"] = true
				default:
					pos = len(g) / 2
					tags["leave-middle"] = true
				}
				i = g[pos]
				for q, x := range g { // mirror "first occurrence" only to keep aiming useful
					if x == i {
						sh[k] = append(append([]int64{}, g[:q]...), g[q+1:]...)
						break
					}
				}
			} else {
				i = idv(1 + r.Int63n(nid+1))
				tags["leave-absent"] = true
			}
			ops = append(ops, hx.C("OLeave", c, f, i))
		case p < 82:
			ops = append(ops, hx.C("OPush", c))
		case p < 87:
			for kk := range sh {
				if kk[0] == c {
					delete(sh, kk)
				}
			}
			tags["delete"] = true
			ops = append(ops, hx.C("ODelete", c))
		case p < 91:
			ops = append(ops, hx.C("OAddChannel", c))
		case p < 94:
			ops = append(ops, hx.C("OGet", c))
		case p < 96:
			ids := []int64{}
			for j := r.Intn(4); j >= 0; j-- {
				ids = append(ids, idv(1+r.Int63n(nid)))
			}
			tags["direct"] = true
			ops = append(ops, hx.C("ODirect", f, ids))
		default:
			nl := r.Intn(6)
			live := []int64{}
			for i := int64(1); i <= int64(nl)+2; i++ {
				if r.Intn(3) > 0 {
					live = append(live, i)
				}
			}
			ids := []int64{}
			for j := r.Intn(8); j > 0; j-- {
				ids = append(ids, 1+r.Int63n(int64(nl)+4))
			}
			if r.Intn(3) == 0 { // a sequence of pushes on one front-end, some writes failing once
				var ps []any
				for k := 2 + r.Intn(4); k > 0; k-- {
					ids := []int64{}
					for j := r.Intn(7); j > 0; j-- {
						ids = append(ids, 1+r.Int63n(int64(nl)+4))
					}
					failing := []int64{}
					for _, v := range ids {
						if r.Intn(4) == 0 {
							failing = append(failing, v)
						}
					}
					ps = append(ps, hx.Pair{A: hx.Norm(ids), B: hx.Norm(failing)})
				}
				tags["front-seq"] = true
				ops = append(ops, hx.C("OFrontSeq", live, ps))
				continue
			}
			tags["front"] = true
			closing := []int64{}
			if r.Intn(2) == 0 {
				for i := int64(1); i <= int64(nl)+3; i++ {
					if r.Intn(4) == 0 {
						closing = append(closing, i)
					}
				}
				if len(closing) > 0 {
					tags["front-closing"] = true
				}
			}
			ops = append(ops, hx.C("OFront", live, closing, ids))
		}
	}
	var tl []string
	for t := range tags {
		tl = append(tl, t)
	}
	sort.Strings(tl)
	return ops, tl
}

// exhaustive small scope: all op sequences of length L over a tiny alphabet
func enumerate(L int, emit func([]hx.T)) {
	alpha := []hx.T{
		hx.C("OAdd", 1, 1, 1), hx.C("OAdd", 1, 1, 2), hx.C("OAdd", 1, 2, 1),
		hx.C("OLeave", 1, 1, 1), hx.C("OLeave", 1, 1, 2), hx.C("ODelete", 1), hx.C("OPush", 1),
	}
	cur := make([]hx.T, L+1)
	var rec func(d int)
	rec = func(d int) {
		if d == L {
			cur[L] = hx.C("OPush", 1)
			emit(append([]hx.T{}, cur...))
			return
		}
		for _, a := range alpha {
			cur[d] = a
			rec(d + 1)
		}
	}
	rec(0)
}

func Run(cfg *hx.Config) error {
	emit := func(kind string, ops []hx.T, tags []string) {
		obs, nt := Exec(ops)
		cfg.Emit(hx.Case{Kind: kind, Ops: ops, Obs: obs, Nontrivial: nt, Tags: tags})
	}
	if cfg.In != "" {
		cs, err := hx.ReadCases(cfg.In)
		if err != nil {
			return err
		}
		for _, c := range cs {
			emit("replay", hx.Terms(c.Ops), c.Tags)
		}
		return nil
	}
	depth := 3
	if cfg.Tier == "thorough" {
		depth = 5
	}
	for L := 0; L <= depth; L++ {
		enumerate(L, func(ops []hx.T) { emit(fmt.Sprintf("exhaustive-%d", L), ops, nil) })
	}
	// how far the tail has to move: a member at position p of n leaves with n-p members behind it
	// (1, 2, 127, 128, 129, 130, 200, ... behind), the broadcast must still list the rest in join order
	shiftN := []int{130, 131, 132, 259}
	if cfg.Tier == "thorough" {
		shiftN = []int{130, 131, 132, 200, 258, 259, 300, 400}
	}
	for _, n := range shiftN {
		seen := map[int]bool{}
		for _, p := range []int{2, 3, n / 3, n - 130, n - 129, n - 128, n - 127, n - 2, n - 1} {
			if p < 2 || p >= n || seen[p] {
				continue
			}
			seen[p] = true
			var ops []hx.T
			for i := 1; i <= n; i++ {
				ops = append(ops, hx.C("OAdd", 1, 1, i))
			}
			ops = append(ops, hx.C("OLeave", 1, 1, p), hx.C("OPush", 1), hx.C("OLeave", 1, 1, p+1), hx.C("OAdd", 1, 1, p), hx.C("OPush", 1))
			emit("shift-distance", ops, []string{"shift-distance", fmt.Sprintf("behind-%d", n-p)})
		}
	}
	// capacity boundaries of the id slice (make(.., 0, 128), doubling): n joins to one group,
	// then removals at the first / middle / last position, pushes in between
	for _, n := range []int{1, 2, 3, 127, 128, 129, 130, 255, 256, 257} {
		for variant := 0; variant < 4; variant++ {
			var ops []hx.T
			for i := 1; i <= n; i++ {
				ops = append(ops, hx.C("OAdd", 1, 1, i))
			}
			pos := []int{1, n, (n + 1) / 2, 1}[variant]
			ops = append(ops, hx.C("OLeave", 1, 1, pos), hx.C("OPush", 1))
			switch variant {
			case 0: // oldest leaves again and again
				ops = append(ops, hx.C("OLeave", 1, 1, 2), hx.C("OPush", 1), hx.C("OLeave", 1, 1, 3), hx.C("OPush", 1))
			case 1:
				ops = append(ops, hx.C("OLeave", 1, 1, 1), hx.C("OPush", 1))
			case 2:
				ops = append(ops, hx.C("OAdd", 1, 1, n+1), hx.C("OLeave", 1, 1, 1), hx.C("OPush", 1))
			default: // first-in-first-out churn: head leaves, a new id joins, head leaves
				for j := 2; j <= 6; j++ {
					ops = append(ops, hx.C("OAdd", 1, 1, n+j), hx.C("OLeave", 1, 1, j))
				}
				ops = append(ops, hx.C("OPush", 1))
			}
			emit("capacity", ops, []string{fmt.Sprintf("capacity-%d", n)})
		}
	}
	for i := 0; i < cfg.N; i++ {
		maxLen := 12
		if i%4 == 3 {
			maxLen = 60
		}
		ops, tags := gen(cfg, maxLen)
		emit("random", ops, tags)
	}
	return nil
}
