package e2e

import (
	"encoding/json"
	"errors"
	"fmt"
	"io"
	"log"
	"log/slog"
	"net"
	"os"
	"path/filepath"
	"reflect"
	"sync"
	"sync/atomic"
	"time"

	"github.com/asynkron/protoactor-go/actor"
	"github.com/sirupsen/logrus"

	as "github.com/dfklegend/cell2/actorex/service"
	messages "github.com/dfklegend/cell2/actorex/service/servicemsgs"
	"github.com/dfklegend/cell2/apimapper/registry"
	"github.com/dfklegend/cell2/baseapp"
	"github.com/dfklegend/cell2/baseapp/interfaces"
	"github.com/dfklegend/cell2/node/app"
	"github.com/dfklegend/cell2/node/builtin/msgs"
	"github.com/dfklegend/cell2/node/client/impls"
	clientcfg "github.com/dfklegend/cell2/node/client/impls/config"
	"github.com/dfklegend/cell2/node/client/impls/pomelo"
	cs "github.com/dfklegend/cell2/node/client/session"
	actormodule "github.com/dfklegend/cell2/node/modules/actor"
	"github.com/dfklegend/cell2/node/route"
	"github.com/dfklegend/cell2/node/service"
	utils "github.com/dfklegend/cell2/nodeutils"
	"github.com/dfklegend/cell2/utils/common"
	"github.com/dfklegend/cell2/utils/logger"
	cjson "github.com/dfklegend/cell2/utils/serialize/json"
	gproto "google.golang.org/protobuf/proto"
)

// Instance numbering used by every model: 0 = the front (gate-1), 1 = chat-1, 2 = chat-2,
// 3 = room-1.
var InstNames = []string{"gate-1", "chat-1", "chat-2", "room-1"}

// FrontNames are the front-ends: gate-1 (front 0, the one every model's instance 0 is) and a
// second front-end of the same type, gate-2 (front 1), with its own acceptor and its own
// connection-id allocator - its connection ids coincide with gate-1's.
var FrontNames = []string{"gate-1", "gate-2"}

// allNames are all services of the node.
var allNames = []string{"gate-1", "chat-1", "chat-2", "room-1", "gate-2"}

// InstOf maps a service name to its number (gate-2 is 4; -1 = none).
func InstOf(name string) int64 {
	for i, n := range allNames {
		if n == name {
			return int64(i)
		}
	}
	return -1
}

// FrontOf maps a front-end's name to its index (-1: not a front-end's name).
func FrontOf(name string) int {
	for i, n := range FrontNames {
		if n == name {
			return i
		}
	}
	return -1
}

func viewKey(front int, id uint32) uint64 { return uint64(front)<<32 | uint64(id) }

const (
	RouteKey    = "chatid"       // session key the chat route function reads
	ForwardMs   = 31 * 1000      // one Advance: past the 30 s forward timeout
	clockStart  = int64(1) << 40 // virtual ms
	waitTimeout = 8 * time.Second
	WaitTimeout = waitTimeout
	// Sentinel request ids live in [SentinelLo, SentinelHi); cases never use them.
	SentinelLo = uint64(4000000000)
	SentinelHi = uint64(4200000000)
)

// Svc is the actor of every harness service: a NodeService plus two driver messages.
type Svc struct {
	*service.NodeService
	node *Node
	name string
}

type barrierMsg struct{ ch chan struct{} }

func (s *Svc) GetNodeService() *service.NodeService { return s.NodeService }

func (s *Svc) ReceiveRequest(ctx actor.Context, request *messages.ServiceRequest, rawMsg interface{}) {
}

func (s *Svc) Receive(ctx actor.Context) {
	switch m := ctx.Message().(type) {
	case *barrierMsg:
		close(m.ch)
		return
	}
	atomic.AddInt64(&s.node.activity, 1)
	s.NodeService.Receive(ctx)
}

type creator struct {
	n     *Node
	front bool
	typ   string
}

func (c *creator) Create(name string) {
	system := actormodule.GetSystem()
	props, ext := service.NewServiceWithDispatcher(func() actor.Actor {
		s := &Svc{NodeService: service.NewService(), node: c.n, name: name}
		s.Service.InitReqReceiver(s)
		s.NodeService.SetOwner(s)
		c.n.mu.Lock()
		c.n.svcs[name] = s
		c.n.mu.Unlock()
		return s
	}, name, c.typ+".remote")
	ext.WithPostFunc(func(s as.IService) {
		ns, _ := s.(service.INodeServiceOwner)
		impls.ServiceCreateCommonComponents(ns.GetNodeService(), app.Node.GetServiceCfg(name))
		if c.front {
			pomelo.ServiceCreateAcceptors(ns.GetNodeService(), name, app.Node.GetServiceCfg(name))
		}
	})
	pid, _ := system.Root.SpawnNamed(props, name)
	service.StartNodeService(system.Root, pid, name, app.Node.GetServiceCfg(name))
}

// Node is the booted in-process node.
type Node struct {
	Addr     string // client TCP address of gate-1
	Addr2    string // client TCP address of gate-2
	mu       sync.Mutex
	svcs     map[string]*Svc
	activity int64
	clock    int64
	nextSent uint64
	proto    bool

	logMu sync.Mutex
	hlog  []Invocation
	ctr   [5]int64 // issue counters, one per instance, touched only by that instance's goroutine

	sessMu sync.Mutex
	bsTab  map[int64]*backHandle
	// what the close handlers saw (FrontSession.ToJson) when a connection was removed, by id:
	// the ClientSessions-wide handler (SetOnCloseHandler) and the per-connection one
	// (AddOnSessionClose, registered by the front-local session handlers)
	closeView    map[uint64]string // by viewKey(front, id)
	closeView2   map[uint64]string
	closeWatched map[uint64]bool
	hooked       map[uint64]bool // connections whose close callback panics (FHook)
}

var (
	bootOnce sync.Once
	theNode  *Node
	bootErr  error
)

// freePorts probes n distinct free localhost ports (all probes are held open together, so the
// kernel cannot hand out the same port twice).
func freePorts(n int) ([]int, error) {
	var ls []net.Listener
	defer func() {
		for _, l := range ls {
			l.Close()
		}
	}()
	var ports []int
	for i := 0; i < n; i++ {
		l, err := net.Listen("tcp", "127.0.0.1:0")
		if err != nil {
			return nil, err
		}
		ls = append(ls, l)
		ports = append(ports, l.Addr().(*net.TCPAddr).Port)
	}
	return ports, nil
}

// Boot boots the node once per process (node boot is expensive) and returns it.
func Boot(scratch string) (*Node, error) {
	bootOnce.Do(func() { theNode, bootErr = boot(scratch) })
	return theNode, bootErr
}

func boot(scratch string) (*Node, error) {
	logger.GetLogProxy("default").SetLogLevel(logrus.PanicLevel)
	logger.GetLogProxy("exception").SetLogLevel(logrus.PanicLevel)
	log.SetOutput(io.Discard)
	slog.SetDefault(slog.New(slog.NewTextHandler(io.Discard, nil)))

	if scratch == "" {
		d, err := os.MkdirTemp("", "e2e-")
		if err != nil {
			return nil, err
		}
		scratch = d
	}
	cfgDir := filepath.Join(scratch, "e2e-config")
	if err := os.MkdirAll(cfgDir, 0o755); err != nil {
		return nil, err
	}
	ports, err := freePorts(3)
	if err != nil {
		return nil, err
	}
	nodePort, cliPort := ports[0], ports[1]
	n := &Node{Addr: fmt.Sprintf("127.0.0.1:%d", cliPort), Addr2: fmt.Sprintf("127.0.0.1:%d", ports[2]), svcs: map[string]*Svc{}, clock: clockStart,
		nextSent: SentinelLo, bsTab: map[int64]*backHandle{}, closeView: map[uint64]string{}, closeView2: map[uint64]string{}, closeWatched: map[uint64]bool{}}
	cluster := "---\nEnable: false\nNodeCtrl: false\nName: e2e\nETCDServer: 127.0.0.1:1\nToken: x\n"
	nodes := fmt.Sprintf(`---
nodes:
  all-1:
    StartMode: e2e
    Address: 127.0.0.1:%d
    Services:
      - gate-1
      - chat-1
      - chat-2
      - room-1
      - gate-2
services:
  gate-1:
    Type: gate
    Frontend: true
    ClientAddress: %s
  chat-1:
    Type: chat
  chat-2:
    Type: chat
  room-1:
    Type: room
  gate-2:
    Type: gate
    Frontend: true
    ClientAddress: %s
`, nodePort, n.Addr, n.Addr2)
	if err := os.WriteFile(filepath.Join(cfgDir, "cluster.yaml"), []byte(cluster), 0o644); err != nil {
		return nil, err
	}
	if err := os.WriteFile(filepath.Join(cfgDir, "nodes.yaml"), []byte(nodes), 0o644); err != nil {
		return nil, err
	}

	common.VerifSetNowMs(n.clock)

	baseapp.LaunchFunc("e2e", func(a interfaces.IApp) {
		utils.NodeAddCommonModules(a)
		utils.NodeAddClusterModules(a)
	})
	utils.NodeInitSystemAPI()
	registerEntries(n)
	registry.Registry.Build()

	service.Factory.Register("gate", &creator{n: n, front: true, typ: "gate"})
	service.Factory.Register("chat", &creator{n: n, typ: "chat"})
	service.Factory.Register("room", &creator{n: n, typ: "room"})

	// The chat route function selects the instance from the session's data; room has no
	// route function of its own (node/app's default route: first working instance).
	route.GetRouteService().Register("chat", func(serviceType string, p route.IRouteParam) string {
		s, _ := p.Get(RouteKey, "").(string)
		return s
	})

	done := make(chan bool, 1)
	nd := app.Node
	nd.Prepare(cfgDir)
	go nd.StartNode("all-1", func(succ bool) { done <- succ })
	select {
	case ok := <-done:
		if !ok {
			return nil, errors.New("e2e: node start failed")
		}
	case <-time.After(30 * time.Second):
		return nil, errors.New("e2e: node start timed out")
	}
	// wait until every service processed its start command and the acceptor listens
	deadline := time.Now().Add(15 * time.Second)
	var readyAt time.Time
	for {
		ready := true
		n.mu.Lock()
		cnt := len(n.svcs)
		n.mu.Unlock()
		if cnt < len(allNames) {
			ready = false
		}
		if ready {
			for _, name := range allNames {
				if n.svc(name) == nil || n.svc(name).Name != name {
					ready = false
				}
			}
		}
		if ready {
			if readyAt.IsZero() {
				readyAt = time.Now()
			}
			c, err := net.DialTimeout("tcp", n.Addr, 200*time.Millisecond)
			if err == nil {
				c.Close()
				break
			}
			if time.Since(readyAt) > 2*time.Second {
				break // the acceptor never came up on this port: handled below
			}
		}
		if time.Now().After(deadline) {
			return nil, errors.New("e2e: services/acceptor not ready")
		}
		time.Sleep(5 * time.Millisecond)
	}
	// the probe connection above created (and closed) a session; let it settle
	if err := n.Settle(); err != nil {
		return nil, err
	}
	for fi := range FrontNames {
		fi := fi
		f := n.FrontN(fi)
		if err := f.Exec(func() {
			if sc, _ := f.GetComponent("sessions").(*impls.SessionsComponent); sc != nil {
				sc.GetSessions().SetOnCloseHandler(func(_ *service.NodeService, fs *cs.FrontSession) {
					n.sessMu.Lock()
					n.closeView[viewKey(fi, fs.GetNetId())] = fs.ToJson()
					n.sessMu.Unlock()
				})
			}
		}); err != nil {
			return nil, err
		}
	}
	// make sure the listener behind each client address really is that front's acceptor (the port
	// could have been taken by another process between the probe and the acceptor's Listen, which
	// only logs); if it is not, start a second acceptor of the same front on a fresh port
	for fi := range FrontNames {
		if err := n.ensureAcceptor(fi); err != nil {
			return nil, err
		}
	}
	if err := n.Settle(); err != nil {
		return nil, err
	}
	return n, nil
}

func (n *Node) addrOf(front int) string {
	if front == 1 {
		return n.Addr2
	}
	return n.Addr
}

func (n *Node) ensureAcceptor(fi int) error {
	for attempt := 0; ; attempt++ {
		if cl, err := Dial(n.addrOf(fi)); err == nil {
			cl.Front = fi
			err = n.Sentinel(cl)
			ok := err == nil && cl.NetId != 0 && cl.sentBy == FrontNames[fi]
			cl.Close()
			if ok {
				return nil
			}
		}
		if attempt >= 3 {
			return errors.New("e2e: no working client acceptor of " + FrontNames[fi])
		}
		ps, err := freePorts(1)
		if err != nil {
			return err
		}
		addr := fmt.Sprintf("127.0.0.1:%d", ps[0])
		f := n.FrontN(fi)
		if err := f.Exec(func() {
			sc, _ := f.GetComponent("sessions").(*impls.SessionsComponent)
			if sc == nil {
				return
			}
			tcp := pomelo.NewTCPComponent(sc.GetSessions())
			f.AddComponent(fmt.Sprintf("tcp-retry-%d", attempt), tcp)
			tcp.Start(addr)
		}); err != nil {
			return err
		}
		if fi == 1 {
			n.Addr2 = addr
		} else {
			n.Addr = addr
		}
		time.Sleep(50 * time.Millisecond)
	}
}

// DialFront connects a client to front-end fi (0 = gate-1, 1 = gate-2).
func (n *Node) DialFront(fi int) (*Client, error) {
	c, err := Dial(n.addrOf(fi))
	if c != nil {
		c.Front = fi
	}
	return c, err
}

func (n *Node) svc(name string) *Svc {
	n.mu.Lock()
	defer n.mu.Unlock()
	return n.svcs[name]
}

// Svc returns the service object of an instance number.
func (n *Node) Svc(inst int64) *Svc { return n.svc(allNames[inst]) }

// Front is gate-1.
func (n *Node) Front() *Svc { return n.svc("gate-1") }

// FrontN is front-end fi.
func (n *Node) FrontN(fi int) *Svc { return n.svc(FrontNames[fi]) }

// Post runs f inside the service's execution context (its scheduler) and waits.
func (s *Svc) Exec(f func()) error {
	ch := make(chan struct{})
	s.NodeService.Post(func() {
		defer close(ch)
		f()
	})
	select {
	case <-ch:
		return nil
	case <-time.After(waitTimeout):
		return fmt.Errorf("e2e: %s did not run a posted closure", s.name)
	}
}

func (s *Svc) mailboxBarrier() error {
	b := &barrierMsg{ch: make(chan struct{})}
	actormodule.GetSystem().Root.Send(app.GetServicePID(s.name), b)
	select {
	case <-b.ch:
		return nil
	case <-time.After(waitTimeout):
		return fmt.Errorf("e2e: %s mailbox barrier timed out", s.name)
	}
}

// Settle waits until the services are quiescent: passes of (mailbox barrier, scheduler
// barrier) over every service are repeated until one complete pass sees no message
// processed and no handler invoked anywhere.  Local protoactor sends enqueue synchronously,
// so anything caused by earlier processing is in some mailbox/scheduler queue in front of
// the next barrier.
func (n *Node) Settle() error {
	for round := 0; round < 10000; round++ {
		a0 := atomic.LoadInt64(&n.activity)
		for _, name := range allNames {
			s := n.svc(name)
			if err := s.mailboxBarrier(); err != nil {
				return err
			}
			if err := s.Exec(func() {}); err != nil {
				return err
			}
		}
		if atomic.LoadInt64(&n.activity) == a0 {
			return nil
		}
	}
	return errors.New("e2e: node never became quiescent")
}

// Sentinel sends a front-local echo with a reserved id on c and waits for its answer:
// everything c sent before has then been processed by the front, and everything the front
// enqueued for c before answering has been received.
func (n *Node) Sentinel(c *Client) error {
	if c.Closed() {
		return nil
	}
	if c.NotReady {
		return n.flushNotReady(c)
	}
	n.mu.Lock()
	mid := n.nextSent
	n.nextSent++
	if n.nextSent >= SentinelHi {
		n.nextSent = SentinelLo
	}
	n.mu.Unlock()
	route, payload := "gate.h.sentinel", []byte(`{}`)
	if n.Proto() {
		route, payload = "gate.h.psentinel", EncodeArg(true, map[string]any{})
	}
	if err := c.Request(mid, route, payload); err != nil {
		if c.WaitClosed(time.Second) {
			return nil
		}
		return err
	}
	ev := c.WaitResponse(mid, waitTimeout)
	if ev == nil {
		if c.Closed() {
			return nil
		}
		return fmt.Errorf("e2e: sentinel %d unanswered", mid)
	}
	if r, ok := DecodeReply(n.Proto(), ev.Data); ok && r.NetId != 0 {
		c.NetId = r.NetId
		c.sentBy = r.Svc
	}
	return nil
}

// SetProto switches the client-facing serializer of the node (process-wide setting of
// node/client/impls/config) between JSON (default) and protobuf.  Call it only while no
// request is outstanding.
func (n *Node) SetProto(on bool) {
	if on {
		clientcfg.PomeloSetProtoSerializer()
	} else {
		clientcfg.PomeloSetSerializer(cjson.GetDefaultSerializer())
	}
	n.mu.Lock()
	n.proto = on
	n.mu.Unlock()
}

// Proto reports whether the client serializer is protobuf.
func (n *Node) Proto() bool {
	n.mu.Lock()
	defer n.mu.Unlock()
	return n.proto
}

// EncodeArg encodes a harness argument for the current client serializer.
func EncodeArg(proto bool, arg map[string]any) []byte {
	b, _ := json.Marshal(arg)
	if !proto {
		return b
	}
	pb, _ := gproto.Marshal(&msgs.Hello1{S: string(b)})
	return pb
}

func unwrapProto(proto bool, data []byte) ([]byte, bool) {
	if !proto {
		return data, true
	}
	var m msgs.Hello1
	if err := gproto.Unmarshal(data, &m); err != nil {
		return nil, false
	}
	return []byte(m.S), true
}

// DecodeReply decodes a response payload.
func DecodeReply(proto bool, data []byte) (Reply, bool) {
	var r Reply
	b, ok := unwrapProto(proto, data)
	if !ok || len(b) == 0 || json.Unmarshal(b, &r) != nil {
		return r, false
	}
	return r, true
}

// DecodePush decodes a push payload; empty reports a message without any content (zero bytes
// under protobuf, "{}" under JSON).
func DecodePush(proto bool, data []byte) (b PushBody, empty, ok bool) {
	raw, ok := unwrapProto(proto, data)
	if !ok {
		return b, false, false
	}
	if len(raw) == 0 || string(raw) == "{}" {
		return b, true, true
	}
	if json.Unmarshal(raw, &b) != nil {
		return b, false, false
	}
	return b, false, true
}

// flushNotReady stands in for the sentinel on a connection that is in the handshake state (the
// server ignores its data packets): everything the client sent before the re-handshake was
// processed when the handshake response arrived; what remains is to wait until the connection's
// send queue is empty and the client has stopped receiving.
func (n *Node) flushNotReady(c *Client) error {
	if c.NetId == 0 {
		return nil
	}
	sess, err := n.ClientSessionOn(c.Front, c.NetId)
	if err != nil {
		return err
	}
	deadline := time.Now().Add(waitTimeout)
	for idle := 0; idle < 3; {
		before := c.Count()
		time.Sleep(time.Millisecond)
		l, _, ok := n.SendQueueLen(sess)
		if (!ok || l == 0) && c.Count() == before {
			idle++
		} else {
			idle = 0
		}
		if time.Now().After(deadline) {
			return fmt.Errorf("e2e: connection %d in handshake state never became quiet", c.NetId)
		}
	}
	return nil
}

// Drain makes the whole system quiescent with respect to the given connections.
func (n *Node) Drain(cs []*Client) error {
	for _, c := range cs {
		if err := n.Sentinel(c); err != nil {
			return err
		}
	}
	if err := n.Settle(); err != nil {
		return err
	}
	for _, c := range cs {
		if err := n.Sentinel(c); err != nil {
			return err
		}
	}
	return nil
}

// Advance moves the virtual clock past every pending forward's deadline, lets the open
// connections send a heartbeat (so the heartbeat check does not see a silent client), and
// runs the expiry scan of every service (what its 1 s timer does when it fires).
func (n *Node) Advance(cs []*Client) error {
	if err := n.Drain(cs); err != nil {
		return err
	}
	n.clock += ForwardMs
	common.VerifSetNowMs(n.clock)
	for _, c := range cs {
		if !c.Closed() {
			c.Heartbeat()
		}
	}
	for _, name := range allNames {
		s := n.svc(name)
		if err := s.Exec(func() { s.VerifCheckExpired() }); err != nil {
			return err
		}
	}
	return n.Drain(cs)
}

// HasSession reports whether the front still holds a session with this connection id.
func (n *Node) HasSession(id uint32) (bool, error) { return n.HasSessionOn(0, id) }

// HasSessionOn is HasSession for front-end fi.
func (n *Node) HasSessionOn(fi int, id uint32) (bool, error) {
	f := n.FrontN(fi)
	has := false
	err := f.Exec(func() {
		sc, _ := f.GetComponent("sessions").(*impls.SessionsComponent)
		if sc == nil {
			return
		}
		// GetSession and VisitSession must agree
		viaVisit := false
		sc.GetSessions().VisitSession(func(fs *cs.FrontSession) {
			if fs.GetNetId() == id {
				viaVisit = true
			}
		})
		has = sc.GetSessions().GetSession(id) != nil
		if has != viaVisit {
			panic("e2e: GetSession and VisitSession disagree")
		}
	})
	return has, err
}

// CloseView returns what the OnClose handlers saw when connection id was removed (ok = false:
// not removed, or the two handlers saw different things).
func (n *Node) CloseView(id uint32) (view string, ok bool) { return n.CloseViewOn(0, id) }

// CloseViewOn is CloseView for front-end fi.
func (n *Node) CloseViewOn(fi int, id uint32) (view string, ok bool) {
	n.sessMu.Lock()
	defer n.sessMu.Unlock()
	v, ok := n.closeView[viewKey(fi, id)]
	if v2, has := n.closeView2[viewKey(fi, id)]; has && v2 != v {
		return "", false
	}
	return v, ok
}

// WaitRemoved waits until the front no longer holds a session with this id.
func (n *Node) WaitRemoved(id uint32) error { return n.WaitRemovedOn(0, id) }

// WaitRemovedOn is WaitRemoved for front-end fi.
func (n *Node) WaitRemovedOn(fi int, id uint32) error {
	deadline := time.Now().Add(waitTimeout)
	for {
		has, err := n.HasSessionOn(fi, id)
		if err != nil {
			return err
		}
		if !has {
			return n.Settle()
		}
		if time.Now().After(deadline) {
			return fmt.Errorf("e2e: session %d never removed", id)
		}
		time.Sleep(200 * time.Microsecond)
	}
}

// CloseAndWait closes the client's socket and waits until the front removed its session.
func (n *Node) CloseAndWait(c *Client) error {
	c.Close()
	c.WaitClosed(waitTimeout)
	if c.NetId == 0 {
		return n.Settle()
	}
	deadline := time.Now().Add(waitTimeout)
	for {
		has, err := n.HasSessionOn(c.Front, c.NetId)
		if err != nil {
			return err
		}
		if !has {
			return n.Settle()
		}
		if time.Now().After(deadline) {
			return fmt.Errorf("e2e: session %d never removed", c.NetId)
		}
		time.Sleep(200 * time.Microsecond)
	}
}

// BusyFront occupies the front-ends' service goroutines for d (real time) and returns at once.
func (n *Node) BusyFront(d time.Duration) {
	for fi := range FrontNames {
		started := make(chan struct{})
		n.FrontN(fi).NodeService.Post(func() {
			close(started)
			time.Sleep(d)
		})
		<-started
	}
}

// SendQueueLen reads len/cap of the outbound queue (ClientSession.chSend) of a connection by
// reflection; ok is false when the session is gone.  Safe from any goroutine (channel length).
func (n *Node) SendQueueLen(sess any) (l, c int, ok bool) {
	v := reflect.ValueOf(sess)
	if v.Kind() != reflect.Ptr || v.IsNil() {
		return 0, 0, false
	}
	f := v.Elem().FieldByName("chSend")
	if !f.IsValid() || f.Kind() != reflect.Chan {
		return 0, 0, false
	}
	return f.Len(), f.Cap(), true
}

// ClientSessionOf returns the pomelonet session object of a connection id (nil if unknown).
func (n *Node) ClientSessionOf(id uint32) (any, error) { return n.ClientSessionOn(0, id) }

// ClientSessionOn is ClientSessionOf for front-end fi.
func (n *Node) ClientSessionOn(fi int, id uint32) (any, error) {
	f := n.FrontN(fi)
	var out any
	err := f.Exec(func() {
		sc, _ := f.GetComponent("sessions").(*impls.SessionsComponent)
		if sc == nil {
			return
		}
		if fs := sc.GetSessions().GetSession(id); fs != nil {
			out = fs.Session
		}
	})
	return out, err
}

// WatchSendQueue samples the outbound queue of a connection until stop is closed and returns
// the largest length seen and the capacity.
func (n *Node) WatchSendQueue(sess any, stop <-chan struct{}) (max, capacity int) {
	for {
		l, c, ok := n.SendQueueLen(sess)
		if ok {
			capacity = c
			if l > max {
				max = l
			}
		}
		select {
		case <-stop:
			return
		case <-time.After(200 * time.Microsecond):
		}
	}
}

// SetNextSessionId positions the front's connection-id allocator: the next connection gets id
// (hook ClientSessions.VerifSetNextId; the allocator wraps at 2^32 and skips 0).
func (n *Node) SetNextSessionId(id uint32) error { return n.SetNextSessionIdOn(0, id) }

// SetNextSessionIdOn is SetNextSessionId for front-end fi.
func (n *Node) SetNextSessionIdOn(fi int, id uint32) error {
	f := n.FrontN(fi)
	return f.Exec(func() {
		if sc, _ := f.GetComponent("sessions").(*impls.SessionsComponent); sc != nil {
			sc.GetSessions().VerifSetNextId(id - 1)
		}
	})
}
