package e2e

import "github.com/dfklegend/cell2/pomelonet/common/conn/packet"

// BadMessage sends a well-framed Data packet whose message cannot be decoded (message.Decode
// fails).  mid is the request id in the message header (kinds with a request header).
//
//	0: request, gzip flag set, body is no zlib stream
//	1: request, compressed-route flag set, route code in no dictionary
//	2: notification, gzip flag set, body is no zlib stream
//	3: request, route length pointing beyond the packet
//	4: invalid message type
func (c *Client) BadMessage(mid uint64, k int64) error {
	varint := func(v uint64) []byte {
		var b []byte
		for {
			x := byte(v & 0x7f)
			v >>= 7
			if v != 0 {
				b = append(b, x|0x80)
			} else {
				return append(b, x)
			}
		}
	}
	route := "gate.h.echo"
	var m []byte
	switch ((k % 5) + 5) % 5 {
	case 0:
		m = append([]byte{0x10}, varint(mid)...)
		m = append(m, byte(len(route)))
		m = append(m, route...)
		m = append(m, "this is no zlib stream"...)
	case 1:
		m = append([]byte{0x01}, varint(mid)...)
		m = append(m, 0xff, 0xfe, '{', '}')
	case 2:
		m = []byte{0x02 | 0x10, byte(len(route))}
		m = append(m, route...)
		m = append(m, "this is no zlib stream"...)
	case 3:
		m = append([]byte{0x00}, varint(mid)...)
		m = append(m, 200, 'g', 'a', 't', 'e')
	default:
		m = []byte{0x08, 0x01, 0x02, 0x03}
	}
	return c.sendPacket(packet.Data, m)
}
