package e2e

import (
	"fmt"
	"time"

	"github.com/dfklegend/cell2/apimapper/apientry"
	"github.com/dfklegend/cell2/node/client/impls"
	cs "github.com/dfklegend/cell2/node/client/session"
	"github.com/dfklegend/cell2/node/service"
)

// FHook (front only): registers THE per-connection close callback of its connection (there is one
// slot per connection: it replaces the recording one of watchClose) - it records its view and then
// PANICS, like user code asserting the type of a key that was never set.
func (h *H) FHook(ctx *impls.HandlerContext, a *Arg, cb apientry.HandlerCBFunc) {
	h.n.logInvocation(ctx, "sentinel", 0)
	s := ctx.ActorContext.Actor().(*Svc)
	id := ctx.Session.GetNetId()
	n := h.n
	fi := FrontOf(s.name)
	n.sessMu.Lock()
	n.closeWatched[viewKey(fi, id)] = true
	if n.hooked == nil {
		n.hooked = map[uint64]bool{}
	}
	n.hooked[viewKey(fi, id)] = true
	n.sessMu.Unlock()
	impls.AddOnSessionOnClose(s.NodeService, id, func(_ *service.NodeService, fs *cs.FrontSession) {
		n.sessMu.Lock()
		n.closeView2[viewKey(fi, fs.GetNetId())] = fs.ToJson()
		n.sessMu.Unlock()
		// HandlerComponent.OnSessionRemove unregisters a callback only AFTER it returned: one that
		// panics would stay registered under its connection id and run again for the next connection
		// given that id (the second front-end's ids are positioned explicitly by the drivers, so they
		// do come back).  It takes itself out first.
		impls.AddOnSessionOnClose(s.NodeService, id, nil)
		var x any
		_ = x.(string) // panics
	})
	apientry.CheckInvokeCBFunc(cb, nil, &SessReply{Kind: "fhook"})
}

// Hooked reports whether connection id of front-end fi has the panicking close callback.
func (n *Node) Hooked(fi int, id uint32) bool {
	n.sessMu.Lock()
	defer n.sessMu.Unlock()
	return n.hooked[viewKey(fi, id)]
}

// AwaitRemoval waits until front-end fi has removed connection id.  For a connection whose close
// callback panics the removal has happened when that callback ran (the panic ends RemoveSession:
// the sessions-wide close handler is then not called, on any version of the code): the view is the
// callback's, and whether the front-end still knows the connection is left to the operations
// that follow.
func (n *Node) AwaitRemoval(fi int, id uint32) error {
	if !n.Hooked(fi, id) {
		return n.WaitRemovedOn(fi, id)
	}
	deadline := time.Now().Add(waitTimeout)
	for {
		n.sessMu.Lock()
		_, ran := n.closeView2[viewKey(fi, id)]
		n.sessMu.Unlock()
		if ran {
			return n.Settle()
		}
		if time.Now().After(deadline) {
			return fmt.Errorf("e2e: close callback of session %d never ran", id)
		}
		time.Sleep(200 * time.Microsecond)
	}
}

// HookedCloseView is the view the panicking close callback recorded.
func (n *Node) HookedCloseView(fi int, id uint32) (string, bool) {
	n.sessMu.Lock()
	defer n.sessMu.Unlock()
	v, ok := n.closeView2[viewKey(fi, id)]
	return v, ok
}

// CloseAndAwait closes the client's socket and waits for AwaitRemoval.
func (n *Node) CloseAndAwait(c *Client) error {
	c.Close()
	c.WaitClosed(waitTimeout)
	if c.NetId == 0 {
		return n.Settle()
	}
	return n.AwaitRemoval(c.Front, c.NetId)
}
