// Package e2e is the shared end-to-end harness of C02, C03 and C10: ONE in-process cell2
// node (front service gate-1 with a TCP acceptor on a probed localhost port, back services
// chat-1, chat-2 of one type and room-1 of a second type), harness API entries, and a raw
// pomelo TCP client written directly on pomelonet's codec packages (independent of
// /repo/pomeloclient).
package e2e

import (
	"encoding/json"
	"errors"
	"fmt"
	"io"
	"net"
	"sync"
	"time"

	"github.com/dfklegend/cell2/pomelonet/common/conn/codec"
	"github.com/dfklegend/cell2/pomelonet/common/conn/message"
	"github.com/dfklegend/cell2/pomelonet/common/conn/packet"
)

// Event is one message the server wrote to a client connection, in arrival order.
type Event struct {
	Push  bool   // true: push, false: response
	Mid   uint64 // response id
	Err   bool   // response error flag
	Route string // push route
	Data  []byte
}

// Client is a raw pomelo TCP client.
type Client struct {
	conn   net.Conn
	penc   *codec.PomeloPacketEncoder
	menc   *message.MessagesEncoder
	wmu    sync.Mutex
	mu     sync.Mutex
	cond   *sync.Cond
	evs    []Event
	hshake bool
	nhs    int // handshake responses received
	// NotReady: the client sent a Handshake packet again and has not acknowledged it yet - the
	// server ignores data packets (so no sentinel can be answered)
	NotReady bool
	closed   bool // read loop ended (server closed / we closed)
	kicked   bool

	NetId  uint32 // learned from the first sentinel answer (0 = unknown)
	Front  int    // index of the front-end it is connected to (FrontNames)
	sentBy string // the service that answered the last sentinel
	// SlowRead makes the read loop pause this long after every data message (a slow client:
	// the server-side send queue fills up)
	SlowRead time.Duration
	stallTo  time.Time // the read loop does not read before this instant (a stalled client)
}

const ioTimeout = 20 * time.Second

// Dial connects and performs handshake + handshake-ack.
func Dial(addr string) (*Client, error) {
	conn, err := net.DialTimeout("tcp", addr, 5*time.Second)
	if err != nil {
		return nil, err
	}
	if tc, ok := conn.(*net.TCPConn); ok {
		tc.SetNoDelay(true)
	}
	c := &Client{conn: conn, penc: codec.NewPomeloPacketEncoder(), menc: message.NewMessagesEncoder(false)}
	c.cond = sync.NewCond(&c.mu)
	go c.readLoop()
	hs, _ := json.Marshal(map[string]any{
		"sys":  map[string]any{"platform": "verif", "libVersion": "0", "clientBuildNumber": "0", "clientVersion": "0"},
		"user": map[string]any{},
	})
	if err := c.sendPacket(packet.Handshake, hs); err != nil {
		conn.Close()
		return nil, err
	}
	if !c.waitFor(func() bool { return c.hshake }, ioTimeout) {
		conn.Close()
		return nil, errors.New("e2e client: no handshake response")
	}
	if err := c.sendPacket(packet.HandshakeAck, nil); err != nil {
		conn.Close()
		return nil, err
	}
	return c, nil
}

func (c *Client) sendPacket(t packet.Type, data []byte) error {
	p, err := c.penc.Encode(t, data)
	if err != nil {
		return err
	}
	c.wmu.Lock()
	defer c.wmu.Unlock()
	c.conn.SetWriteDeadline(time.Now().Add(ioTimeout))
	_, err = c.conn.Write(p)
	return err
}

// Request sends a request frame (mid != 0).
func (c *Client) Request(mid uint64, route string, data []byte) error {
	b, err := c.menc.Encode(&message.Message{Type: message.Request, ID: uint(mid), Route: route, Data: data})
	if err != nil {
		return err
	}
	return c.sendPacket(packet.Data, b)
}

// Notify sends a notify frame.
func (c *Client) Notify(route string, data []byte) error {
	b, err := c.menc.Encode(&message.Message{Type: message.Notify, Route: route, Data: data})
	if err != nil {
		return err
	}
	return c.sendPacket(packet.Data, b)
}

// Rehandshake sends a Handshake packet on the established connection and waits for the
// handshake response: the server has then processed everything sent before and the session is
// back in the handshake state until Ack.
func (c *Client) Rehandshake() error {
	c.mu.Lock()
	before := c.nhs
	c.mu.Unlock()
	hs, _ := json.Marshal(map[string]any{
		"sys":  map[string]any{"platform": "verif", "libVersion": "0", "clientBuildNumber": "0", "clientVersion": "0"},
		"user": map[string]any{},
	})
	if err := c.sendPacket(packet.Handshake, hs); err != nil {
		return err
	}
	if !c.waitFor(func() bool { return c.nhs > before }, ioTimeout) {
		return errors.New("e2e client: no response to the second handshake")
	}
	c.NotReady = true
	return nil
}

// Ack sends a HandshakeAck packet.
func (c *Client) Ack() error {
	err := c.sendPacket(packet.HandshakeAck, nil)
	c.NotReady = false
	return err
}

// Heartbeat sends a heartbeat packet.
func (c *Client) Heartbeat() error { return c.sendPacket(packet.Heartbeat, nil) }

func (c *Client) readLoop() {
	defer func() {
		c.mu.Lock()
		c.closed = true
		c.cond.Broadcast()
		c.mu.Unlock()
	}()
	head := make([]byte, codec.HeadLength)
	for {
		c.mu.Lock()
		wait := time.Until(c.stallTo)
		c.mu.Unlock()
		if wait > 0 {
			time.Sleep(wait)
			continue
		}
		if _, err := io.ReadFull(c.conn, head); err != nil {
			return
		}
		size, typ, err := codec.ParseHeader(head)
		if err != nil {
			return
		}
		body := make([]byte, size)
		if _, err := io.ReadFull(c.conn, body); err != nil {
			return
		}
		switch typ {
		case packet.Handshake:
			c.mu.Lock()
			c.hshake = true
			c.nhs++
			c.cond.Broadcast()
			c.mu.Unlock()
		case packet.Heartbeat:
		case packet.Kick:
			c.mu.Lock()
			c.kicked = true
			c.cond.Broadcast()
			c.mu.Unlock()
		case packet.Data:
			m, err := message.Decode(body)
			if err != nil {
				return
			}
			ev := Event{Data: append([]byte{}, m.Data...)}
			switch m.Type {
			case message.Response:
				ev.Mid, ev.Err = uint64(m.ID), m.Err
			case message.Push:
				ev.Push, ev.Route = true, m.Route
			default:
				continue
			}
			c.mu.Lock()
			c.evs = append(c.evs, ev)
			c.cond.Broadcast()
			slow := c.SlowRead
			c.mu.Unlock()
			if slow > 0 {
				time.Sleep(slow)
			}
		}
	}
}

// waitFor blocks until pred (evaluated under the lock) holds, the connection ends, or the
// timeout passes; it returns pred's final value.
func (c *Client) waitFor(pred func() bool, d time.Duration) bool {
	deadline := time.Now().Add(d)
	t := time.AfterFunc(d, func() {
		c.mu.Lock()
		c.cond.Broadcast()
		c.mu.Unlock()
	})
	defer t.Stop()
	c.mu.Lock()
	defer c.mu.Unlock()
	for !pred() {
		if c.closed || !time.Now().Before(deadline) {
			return pred()
		}
		c.cond.Wait()
	}
	return true
}

// WaitResponse waits for a response with this id; returns it or nil.
func (c *Client) WaitResponse(mid uint64, d time.Duration) *Event {
	var found *Event
	c.waitFor(func() bool {
		for i := range c.evs {
			if !c.evs[i].Push && c.evs[i].Mid == mid {
				found = &c.evs[i]
				return true
			}
		}
		return false
	}, d)
	return found
}

// WaitClosed waits until the server side closed the connection (read loop ended).
func (c *Client) WaitClosed(d time.Duration) bool {
	return c.waitFor(func() bool { return c.closed }, d)
}

// Events returns a copy of everything received so far.
func (c *Client) Events() []Event {
	c.mu.Lock()
	defer c.mu.Unlock()
	return append([]Event{}, c.evs...)
}

// Count is the number of events received so far.
func (c *Client) Count() int {
	c.mu.Lock()
	defer c.mu.Unlock()
	return len(c.evs)
}

// Closed reports whether the read loop has ended.
func (c *Client) Closed() bool {
	c.mu.Lock()
	defer c.mu.Unlock()
	return c.closed
}

// SetSlowRead makes the read loop pause after every data message.
func (c *Client) SetSlowRead(d time.Duration) {
	c.mu.Lock()
	c.SlowRead = d
	c.mu.Unlock()
}

// Stall makes the read loop stop reading for d from now on (it finishes the message it is
// reading; the kernel buffers and then the server's send queue fill up meanwhile).
func (c *Client) Stall(d time.Duration) {
	c.mu.Lock()
	c.stallTo = time.Now().Add(d)
	c.mu.Unlock()
}

// Close closes the socket.
func (c *Client) Close() { c.conn.Close() }

func (c *Client) String() string { return fmt.Sprintf("client(net=%d)", c.NetId) }
