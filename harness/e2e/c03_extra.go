package e2e

// C03 extras (added for the seeded changes C03-9 / C03-10): the Send handler with two more
// dimensions - multi-target pushes naming MANY connection ids (never-added ids before the real
// ones, so that a real connection stands at any position of a list of hundreds), and session
// traffic (Set / Set+PushSession / Bind on the handler's session) around the completion.

import (
	"encoding/json"
	"strconv"
	"strings"
	"sync/atomic"
	"time"

	"github.com/dfklegend/cell2/apimapper/apientry"
	"github.com/dfklegend/cell2/node/app"
	"github.com/dfklegend/cell2/node/builtin/channel"
	"github.com/dfklegend/cell2/node/builtin/msgs"
	"github.com/dfklegend/cell2/node/client/impls"
)

// GhostIdBase: connection ids from here on are never handed out by the harness node's front-ends
// (their allocators count up from 1 and C03 never positions them): "never-added ids".
const GhostIdBase uint32 = 0x70000000

// GhostId is the k-th never-added connection id.
func GhostId(k int) uint32 { return GhostIdBase + uint32(k) }

// XArg is Arg plus the extra dimensions of XSend.
type XArg struct {
	Arg
	// Fill: every multi-target push (Mode 1 / 2) lists Fill never-added connection ids BEFORE Ids
	// (the front-end skips ids it has no session for)
	Fill int
	// Sess = kind + 4*place: what the handler does to its session (the BackSession of a forwarded
	// request, the FrontSession of a front-local one) and when.
	//   kind 0 nothing; 1 Set(k, v) and NO PushSession; 2 Set(k, v) + PushSession(nil);
	//        3 Bind(uid) and no PushSession
	//   place 0 first thing in the issuing turn; 1 between the N1 pushes and the completion;
	//         2 right after the completion, before the N2 pushes
	Sess int
}

// XSend is Send with the extra dimensions of XArg.
func (h *H) XSend(ctx *impls.HandlerContext, a *XArg, cb apientry.HandlerCBFunc) {
	h.doXSend(ctx, a, cb, func(v any) any { return v })
}

// PXSend: the same under the protobuf client serializer.
func (h *H) PXSend(ctx *impls.HandlerContext, m *msgs.Hello1, cb apientry.HandlerCBFunc) {
	a := &XArg{}
	json.Unmarshal([]byte(m.S), a)
	h.doXSend(ctx, a, cb, wrapProto)
}

func (h *H) doXSend(ctx *impls.HandlerContext, a *XArg, cb apientry.HandlerCBFunc, wrap func(any) any) {
	s := h.n.logInvocation(ctx, "send", a.T)
	r := h.reply(ctx, s, "sent", &a.Arg)
	pads := map[int]string{}
	padN := func(q int64) int {
		if len(a.Pads) > 0 {
			return a.Pads[int(q%int64(len(a.Pads)))]
		}
		return a.Pad
	}
	padOf := func(q int64) string {
		n := padN(q)
		if n < 0 {
			n = 0
		}
		p, ok := pads[n]
		if !ok {
			p = strings.Repeat("x", n)
			pads[n] = p
		}
		return p
	}
	ids := make([]uint32, 0, a.Fill+len(a.Ids))
	for k := 0; k < a.Fill; k++ {
		ids = append(ids, GhostId(k))
	}
	ids = append(ids, a.Ids...)
	sess := func(place int) {
		if a.Sess <= 0 || a.Sess/4 != place {
			return
		}
		switch a.Sess % 4 {
		case 1:
			ctx.Session.Set("c03", int(a.T))
		case 2:
			ctx.Session.Set("c03", int(a.T))
			ctx.Session.PushSession(nil)
		case 3:
			ctx.Session.Bind("u" + strconv.FormatInt(a.T, 10))
		}
	}
	ctr := &h.n.ctr[InstOf(s.name)]
	seq := a.Seq0
	body := func() {
		sess(0)
		if a.Kick != 0 {
			if fi := FrontOf(s.name); fi >= 0 {
				if sc, _ := s.GetComponent("sessions").(*impls.SessionsComponent); sc != nil {
					sc.GetSessions().Kick(a.Kick)
				}
			} else {
				h.n.BusyFront(8 * time.Millisecond)
				app.Kick(s.NodeService, r.Front, a.Kick, nil)
			}
		}
		var ch *channel.Channel
		chName := ""
		if a.Mode == 2 {
			svc := s.GetComponent("channel").(*impls.ChannelComponent).GetCS()
			chName = "e2e-" + s.name + "-" + strconv.FormatInt(a.T, 10)
			for _, id := range ids {
				svc.AddToChannel(chName, r.Front, id)
			}
			ch = svc.GetChannel(chName)
			defer svc.DeleteChannel(chName)
		}
		push := func(k int) {
			for i := 0; i < k; i++ {
				*ctr++
				var body any = wrap(&PushBody{Svc: s.name, T: a.T, Seq: seq, Ctr: *ctr, Pad: padOf(seq)})
				if padN(seq) < 0 {
					body = &msgs.Hello1{}
				}
				switch {
				case a.Mode == 1:
					app.PushMessageByIds(s.NodeService, r.Front, ids, "onSeq", body)
				case a.Mode == 2 && ch != nil:
					ch.PushMessage("onSeq", body)
				case a.Mode == 2:
				default:
					app.PushMessageById(s.NodeService, r.Front, r.NetId, "onSeq", body)
				}
				seq++
			}
		}
		push(a.N1)
		sess(1)
		*ctr++
		r.Ctr = *ctr
		r.Pad = strings.Repeat("x", a.RPad)
		apientry.CheckInvokeCBFunc(cb, nil, wrap(r))
		sess(2)
		push(a.N2)
	}
	if a.Later {
		s.NodeService.Post(func() {
			atomic.AddInt64(&h.n.activity, 1)
			body()
		})
		return
	}
	body()
}
