package e2e

import (
	cs "github.com/dfklegend/cell2/node/client/session"
)

// Val is a typed JSON value as the C10 model sees it (see ValTerm / ValOf in c10).
type Val struct {
	Kind string // "int" | "num" | "str" | "bool" | "null" | "list"
	I    int64
	S    string
	B    bool
	L    []*Val
}

// backHandle is a back-session kept alive between driver operations.
type backHandle struct {
	inst int64
	bs   *cs.BackSession
}
