package e2e

import (
	"encoding/json"
	"errors"
	"fmt"
	"math"
	"sort"
	"time"

	"github.com/dfklegend/cell2/apimapper/apientry"
	"github.com/dfklegend/cell2/node/app"
	"github.com/dfklegend/cell2/node/client/impls"
	cs "github.com/dfklegend/cell2/node/client/session"
	"github.com/dfklegend/cell2/node/service"
)

// Val is a typed JSON value as the C10 model sees it:
//
//	int  Go int (what a handler stores locally)      num  float64 (what JSON decoding yields)
//	str  string token   bool   null   list
type Val struct {
	Kind string
	I    int64
	S    string
	B    bool
	L    []*Val
}

// Go converts a Val into the Go value a handler would store.
func (v *Val) Go() any {
	if v == nil {
		return nil
	}
	switch v.Kind {
	case "int":
		return int(v.I)
	case "num":
		return float64(v.I)
	case "str":
		return v.S
	case "bool":
		return v.B
	case "null":
		return nil
	case "list":
		l := make([]any, len(v.L))
		for i, e := range v.L {
			l[i] = e.Go()
		}
		return l
	}
	panic("e2e: bad Val kind " + v.Kind)
}

// ValOf classifies a Go value read back from a session.
func ValOf(x any) *Val {
	switch t := x.(type) {
	case nil:
		return &Val{Kind: "null"}
	case int:
		return &Val{Kind: "int", I: int64(t)}
	case int64:
		return &Val{Kind: "int", I: t}
	case uint32:
		return &Val{Kind: "int", I: int64(t)}
	case float64:
		if t == math.Trunc(t) && math.Abs(t) < 1e18 {
			return &Val{Kind: "num", I: int64(t)}
		}
		return &Val{Kind: "other", S: fmt.Sprint(t)}
	case string:
		return &Val{Kind: "str", S: t}
	case bool:
		return &Val{Kind: "bool", B: t}
	case []any:
		l := make([]*Val, len(t))
		for i, e := range t {
			l[i] = ValOf(e)
		}
		return &Val{Kind: "list", L: l}
	}
	return &Val{Kind: "other", S: fmt.Sprintf("%T", x)}
}

// KV is one entry of a dumped session map.
type KV struct {
	K string
	V *Val
}

// ParseDump decodes a ToJson() string into entries sorted by key.
func ParseDump(s string) ([]KV, error) {
	var m map[string]any
	if err := json.Unmarshal([]byte(s), &m); err != nil {
		return nil, err
	}
	ks := make([]string, 0, len(m))
	for k := range m {
		ks = append(ks, k)
	}
	sort.Strings(ks)
	out := make([]KV, 0, len(ks))
	for _, k := range ks {
		out = append(out, KV{K: k, V: ValOf(m[k])})
	}
	return out, nil
}

// SessReply is what the front-local session handlers answer.
type SessReply struct {
	Kind string
	Has  bool
	V    *Val
	Dump string
}

type absent struct{}

// watchClose registers (once per connection) a per-connection close handler recording its view
func (h *H) watchClose(ctx *impls.HandlerContext) {
	s := ctx.ActorContext.Actor().(*Svc)
	id := ctx.Session.GetNetId()
	n := h.n
	fi := FrontOf(s.name)
	n.sessMu.Lock()
	_, done := n.closeWatched[viewKey(fi, id)]
	n.closeWatched[viewKey(fi, id)] = true
	n.sessMu.Unlock()
	if done {
		return
	}
	impls.AddOnSessionOnClose(s.NodeService, id, func(_ *service.NodeService, fs *cs.FrontSession) {
		n.sessMu.Lock()
		n.closeView2[viewKey(fi, fs.GetNetId())] = fs.ToJson()
		n.sessMu.Unlock()
	})
}

// FSet (front only): fs.Set(K, V) - or fs.Bind for the reserved key _ID with a string.
func (h *H) FSet(ctx *impls.HandlerContext, a *Arg, cb apientry.HandlerCBFunc) {
	h.n.logInvocation(ctx, "sentinel", 0)
	h.watchClose(ctx)
	// the IServerSession API a handler written for both sides would use: no-ops on the front
	ctx.Session.PushSession(func(error) {})
	ctx.Session.QuerySession(func(error) {})
	_ = ctx.Session.IsSessionDataReady()
	if a.K == cs.KeyUId && a.V != nil && a.V.Kind == "str" {
		ctx.Session.Bind(a.V.S)
	} else {
		ctx.Session.Set(a.K, a.V.Go())
	}
	apientry.CheckInvokeCBFunc(cb, nil, &SessReply{Kind: "fset"})
}

// FGet (front only): fs.Get(K, absent).
func (h *H) FGet(ctx *impls.HandlerContext, a *Arg, cb apientry.HandlerCBFunc) {
	h.n.logInvocation(ctx, "sentinel", 0)
	x := ctx.Session.Get(a.K, absent{})
	r := &SessReply{Kind: "fget"}
	if _, no := x.(absent); !no {
		r.Has, r.V = true, ValOf(x)
	}
	apientry.CheckInvokeCBFunc(cb, nil, r)
}

// FDump (front only): fs.ToJson().
func (h *H) FDump(ctx *impls.HandlerContext, a *Arg, cb apientry.HandlerCBFunc) {
	h.n.logInvocation(ctx, "sentinel", 0)
	apientry.CheckInvokeCBFunc(cb, nil, &SessReply{Kind: "fdump", Dump: ctx.Session.ToJson()})
}

// Open (back-ends): reports the envelope the forwarder stamped (through the BackSession
// ProcessForwardMsg built from it) and which instance received the request.
func (h *H) Open(ctx *impls.HandlerContext, a *Arg, cb apientry.HandlerCBFunc) {
	s := h.n.logInvocation(ctx, "open", a.T)
	apientry.CheckInvokeCBFunc(cb, nil, h.reply(ctx, s, "open", a))
}

// Keep (back-ends): ANSWERS FIRST, then keeps the BackSession ProcessForwardMsg built from the
// envelope (ctx.Session) as handle H, so that the driver can go on using it - a handler that
// continues to work with its session after having responded.
func (h *H) Keep(ctx *impls.HandlerContext, a *Arg, cb apientry.HandlerCBFunc) {
	s := h.n.logInvocation(ctx, "keep", a.T)
	apientry.CheckInvokeCBFunc(cb, nil, h.reply(ctx, s, "open", a))
	bs, ok := ctx.Session.(*cs.BackSession)
	if !ok {
		return
	}
	h.n.sessMu.Lock()
	if h.n.bsTab[a.H] == nil {
		h.n.bsTab[a.H] = &backHandle{inst: InstOf(s.name), bs: bs}
	}
	h.n.sessMu.Unlock()
}

// backHandle is a back-session kept alive between driver operations.
type backHandle struct {
	inst int64
	bs   *cs.BackSession
}

// BackNew creates a BackSession for (front gate-1, connection netId) inside instance inst.
func (n *Node) BackNew(h, inst int64, netId uint32) error { return n.BackNewOn(h, inst, 0, netId) }

// BackNewOn creates a BackSession for (front-end fi, connection netId) inside instance inst.
func (n *Node) BackNewOn(h, inst int64, fi int, netId uint32) error {
	s := n.Svc(inst)
	return s.Exec(func() {
		bs := cs.NewBackSession(s.NodeService, FrontNames[fi], netId, "")
		if h%2 == 1 {
			bs = cs.CloneBackSession(bs) // same (front, connection, id), nothing else
		}
		n.sessMu.Lock()
		n.bsTab[h] = &backHandle{inst: inst, bs: bs}
		n.sessMu.Unlock()
	})
}

func (n *Node) handle(h int64) *backHandle {
	n.sessMu.Lock()
	defer n.sessMu.Unlock()
	return n.bsTab[h]
}

// HasBack reports whether handle h exists.
func (n *Node) HasBack(h int64) bool { return n.handle(h) != nil }

// ClearBacks forgets every back-session handle and every recorded close view.
func (n *Node) ClearBacks() {
	n.sessMu.Lock()
	n.bsTab = map[int64]*backHandle{}
	n.closeView = map[uint64]string{}
	n.closeView2 = map[uint64]string{}
	n.closeWatched = map[uint64]bool{}
	n.hooked = map[uint64]bool{}
	n.sessMu.Unlock()
}

// BackNetId is the connection id a handle addresses.
func (n *Node) BackNetId(h int64) uint32 { return n.handle(h).bs.NetId }

// BackFront is the front-end a handle addresses, as the session object says (ServerId).
func (n *Node) BackFront(h int64) string { return n.handle(h).bs.ServerId }

// BackSet runs bs.Set(k, v) (bs.Bind for _ID with a string) in the owning service.
func (n *Node) BackSet(h int64, k string, v *Val) error {
	bh := n.handle(h)
	return n.Svc(bh.inst).Exec(func() {
		if k == cs.KeyUId && v != nil && v.Kind == "str" {
			bh.bs.Bind(v.S)
		} else {
			bh.bs.Set(k, v.Go())
		}
	})
}

// BackGet runs bs.Get(k, absent).
func (n *Node) BackGet(h int64, k string) (has bool, v *Val, err error) {
	bh := n.handle(h)
	err = n.Svc(bh.inst).Exec(func() {
		x := bh.bs.Get(k, absent{})
		if _, no := x.(absent); !no {
			has, v = true, ValOf(x)
		}
	})
	return
}

// BackDump runs bs.ToJson().
func (n *Node) BackDump(h int64) (dump string, err error) {
	bh := n.handle(h)
	err = n.Svc(bh.inst).Exec(func() { dump = bh.bs.ToJson() })
	return
}

func (n *Node) backAsync(h int64, start func(bs *cs.BackSession, cb func(error))) (cbErr error, err error) {
	bh := n.handle(h)
	done := make(chan error, 1)
	if err = n.Svc(bh.inst).Exec(func() { start(bh.bs, func(e error) { done <- e }) }); err != nil {
		return nil, err
	}
	select {
	case cbErr = <-done:
		return cbErr, nil
	case <-time.After(waitTimeout):
		return nil, errors.New("e2e: session callback never ran")
	}
}

// BackPush runs bs.PushSession and waits for its callback.
func (n *Node) BackPush(h int64) (cbErr error, err error) {
	return n.backAsync(h, func(bs *cs.BackSession, cb func(error)) { bs.PushSession(cb) })
}

// BackQuery runs bs.QuerySession and waits for its callback.
func (n *Node) BackQuery(h int64) (cbErr error, err error) {
	return n.backAsync(h, func(bs *cs.BackSession, cb func(error)) { bs.QuerySession(cb) })
}

// ScriptStep is one step of a pipelined back-session script.
type ScriptStep struct {
	Kind string // "set" | "push" | "query" | "kick"
	K    string
	V    *Val
}

// BackScript runs the steps on handle h inside ONE turn of the owning service (nothing is
// awaited between them, so no acknowledgement can be handled before the last step), then
// waits for the callbacks of all pushes / queries.  It returns, in step order, whether each
// push / query callback reported success.
func (n *Node) BackScript(h int64, steps []ScriptStep) (acks []bool, err error) {
	bh := n.handle(h)
	type res struct {
		idx int
		err error
	}
	done := make(chan res, len(steps)+1)
	nacks := 0
	for _, st := range steps {
		if st.Kind == "kick" {
			// everything the script sends must be in the front's mailbox before the front handles the
			// kick: the messages behind it are then handled in the same mailbox run, i.e. between
			// the network-level Close and the posted RemoveSession
			n.BusyFront(8 * time.Millisecond)
			break
		}
	}
	if err = n.Svc(bh.inst).Exec(func() {
		for _, st := range steps {
			switch st.Kind {
			case "set":
				if st.K == cs.KeyUId && st.V != nil && st.V.Kind == "str" {
					bh.bs.Bind(st.V.S)
				} else {
					bh.bs.Set(st.K, st.V.Go())
				}
			case "push":
				i := nacks
				nacks++
				bh.bs.PushSession(func(e error) { done <- res{i, e} })
			case "query":
				i := nacks
				nacks++
				bh.bs.QuerySession(func(e error) { done <- res{i, e} })
			case "kick":
				if h%2 == 0 {
					bh.bs.Kick()
				} else {
					app.Kick(n.Svc(bh.inst).NodeService, bh.bs.ServerId, bh.bs.NetId, nil)
				}
			}
		}
	}); err != nil {
		return nil, err
	}
	acks = make([]bool, nacks)
	for got := 0; got < nacks; got++ {
		select {
		case r := <-done:
			acks[r.idx] = r.err == nil
		case <-time.After(waitTimeout):
			return nil, errors.New("e2e: script callback never ran")
		}
	}
	// the callbacks run before handleResponse returns; let the service finish that turn
	return acks, n.Svc(bh.inst).Exec(func() {})
}
