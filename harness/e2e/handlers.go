package e2e

import (
	"encoding/json"
	"errors"
	"math"
	"strconv"
	"strings"
	"sync/atomic"
	"time"

	api "github.com/dfklegend/cell2/apimapper"
	"github.com/dfklegend/cell2/apimapper/apientry"
	"github.com/dfklegend/cell2/apimapper/registry"
	"github.com/dfklegend/cell2/node/app"
	"github.com/dfklegend/cell2/node/builtin/channel"
	"github.com/dfklegend/cell2/node/builtin/msgs"
	"github.com/dfklegend/cell2/node/client/impls"
	cs "github.com/dfklegend/cell2/node/client/session"
)

func jsonUnmarshal(b []byte, v any) error { return json.Unmarshal(b, v) }

// Arg is the JSON payload of every harness method.
type Arg struct {
	T   int64  // request tag (unique per case), echoed in replies and logged on invocation
	Key string // setkey: value of the routing key
	Uid string // bind
	// push scripts (C03): N1 pushes, then the response, then N2 pushes; Seq0 = first counter
	N1, N2 int
	Seq0   int64
	Pad    int // extra payload bytes per push
	// Send: push number q carries Pads[q % len(Pads)] padding bytes (Pad when Pads is empty),
	// the response RPad bytes - sizes vary within one handler's issue sequence
	Pads []int
	RPad int
	// how Send issues its pushes: 0 PushMessageById to the requester; 1 PushMessageByIds to
	// Ids; 2 broadcast through a channel holding Ids (all on the requester's front)
	Mode int
	Ids  []uint32
	// Later: Send returns without completing and issues its whole sequence (N1 pushes, the
	// completion, N2 pushes) from a closure posted to its service - an asynchronous completion
	Later bool
	// Kick != 0: before anything else Send kicks this connection of the requester's front-end (a
	// front-local handler through the front's ClientSessions, a back-end through app.Kick while the
	// front-end is kept busy, so that the front handles the kick and the pushes that follow it in one
	// go: the kicked connection is closed but its session still registered when they list it)
	Kick uint32
	Ms   int // block: real milliseconds
	// session scripts (C10)
	K string
	V *Val
	H int64 // keep: handle under which the handler keeps its session
}

// Reply is the JSON payload of every successful answer.
type Reply struct {
	Kind  string // "echo" | "sent" | "sess" | ...
	Svc   string // instance that produced the answer
	T     int64
	NetId uint32
	Front string
	Uid   string
	H     int64
	Ctr   int64  // "sent": the issuing instance's issue counter when the response was issued
	Pad   string `json:",omitempty"`
}

// PushBody is the payload of harness pushes.
type PushBody struct {
	Svc string
	T   int64 // tag of the request during which it was issued
	Seq int64 // position within that request's script
	Ctr int64 // the issuing instance's issue counter (strictly increasing per instance)
	Pad string
}

// Invocation is one entry of the handler invocation log.
type Invocation struct {
	Inst   int64
	Method string
	T      int64
	Mid    uint32
}

func (n *Node) logInvocation(ctx *impls.HandlerContext, method string, t int64) *Svc {
	s := ctx.ActorContext.Actor().(*Svc)
	atomic.AddInt64(&n.activity, 1)
	if method == "sentinel" {
		return s
	}
	n.logMu.Lock()
	n.hlog = append(n.hlog, Invocation{Inst: InstOf(s.name), Method: method, T: t, Mid: ctx.ClientReqId})
	n.logMu.Unlock()
	return s
}

// TakeLog returns and clears the invocation log.
func (n *Node) TakeLog() []Invocation {
	n.logMu.Lock()
	defer n.logMu.Unlock()
	l := n.hlog
	n.hlog = nil
	return l
}

// H is the API entry registered (one instance per service type) as group "h" of
// <type>.handler.
type H struct {
	api.APIEntry
	n *Node
}

func registerEntries(n *Node) {
	for _, t := range []string{"gate", "chat", "room"} {
		registry.Registry.AddCollection(t+".handler").
			Register(&H{n: n}, apientry.WithGroupName("h"), apientry.WithNameFunc(strings.ToLower))
		registry.Registry.AddCollection(t + ".remote")
	}
}

func (h *H) reply(ctx *impls.HandlerContext, s *Svc, kind string, a *Arg) *Reply {
	r := &Reply{Kind: kind, Svc: s.name, T: a.T, NetId: ctx.Session.GetNetId(), Uid: ctx.Session.GetID()}
	if bs, ok := ctx.Session.(*cs.BackSession); ok {
		r.Front = bs.ServerId
	} else {
		r.Front = s.name
	}
	return r
}

// Sentinel: front-local echo used by the driver for quiescence; not logged.
func (h *H) Sentinel(ctx *impls.HandlerContext, a *Arg, cb apientry.HandlerCBFunc) {
	s := h.n.logInvocation(ctx, "sentinel", 0)
	apientry.CheckInvokeCBFunc(cb, nil, h.reply(ctx, s, "sentinel", a))
}

// Echo answers with the instance name and the request's tag.
func (h *H) Echo(ctx *impls.HandlerContext, a *Arg, cb apientry.HandlerCBFunc) {
	s := h.n.logInvocation(ctx, "echo", a.T)
	apientry.CheckInvokeCBFunc(cb, nil, h.reply(ctx, s, "echo", a))
}

// Big answers like Echo with a reply padded to about Pad bytes.
func (h *H) Big(ctx *impls.HandlerContext, a *Arg, cb apientry.HandlerCBFunc) {
	s := h.n.logInvocation(ctx, "big", a.T)
	r := h.reply(ctx, s, "echo", a)
	r.Pad = strings.Repeat("x", a.Pad)
	apientry.CheckInvokeCBFunc(cb, nil, r)
}

// Fail completes with an error.
func (h *H) Fail(ctx *impls.HandlerContext, a *Arg, cb apientry.HandlerCBFunc) {
	h.n.logInvocation(ctx, "fail", a.T)
	apientry.CheckInvokeCBFunc(cb, errors.New("harness failure"), nil)
}

// Boom panics before completing.
func (h *H) Boom(ctx *impls.HandlerContext, a *Arg, cb apientry.HandlerCBFunc) {
	h.n.logInvocation(ctx, "boom", a.T)
	panic("harness panic")
}

// Unenc completes successfully with a result the client serializer cannot encode (JSON: +Inf).
func (h *H) Unenc(ctx *impls.HandlerContext, a *Arg, cb apientry.HandlerCBFunc) {
	h.n.logInvocation(ctx, "unenc", a.T)
	apientry.CheckInvokeCBFunc(cb, nil, &struct{ Ratio float64 }{math.Inf(1)})
}

// boomJSON's encoding panics (a user MarshalJSON dereferencing nil), it does not return an error.
type boomJSON struct{ p *int }

func (b *boomJSON) MarshalJSON() ([]byte, error) { return []byte(strconv.Itoa(*b.p)), nil }

// EncPanic completes successfully with a result whose encoding panics.
func (h *H) EncPanic(ctx *impls.HandlerContext, a *Arg, cb apientry.HandlerCBFunc) {
	h.n.logInvocation(ctx, "encpanic", a.T)
	apientry.CheckInvokeCBFunc(cb, nil, &struct{ V *boomJSON }{&boomJSON{}})
}

// EchoLater / UnencLater complete like Echo / Unenc, but in a later turn of the service.
func (h *H) EchoLater(ctx *impls.HandlerContext, a *Arg, cb apientry.HandlerCBFunc) {
	s := h.n.logInvocation(ctx, "echolater", a.T)
	r := h.reply(ctx, s, "echo", a)
	s.NodeService.Post(func() { apientry.CheckInvokeCBFunc(cb, nil, r) })
}

func (h *H) UnencLater(ctx *impls.HandlerContext, a *Arg, cb apientry.HandlerCBFunc) {
	s := h.n.logInvocation(ctx, "unenclater", a.T)
	s.NodeService.Post(func() { apientry.CheckInvokeCBFunc(cb, nil, &struct{ Ratio float64 }{math.Inf(1)}) })
}

// EncPanicLater completes in a later turn with a result whose encoding panics.
func (h *H) EncPanicLater(ctx *impls.HandlerContext, a *Arg, cb apientry.HandlerCBFunc) {
	s := h.n.logInvocation(ctx, "encpaniclater", a.T)
	s.NodeService.Post(func() { apientry.CheckInvokeCBFunc(cb, nil, &struct{ V *boomJSON }{&boomJSON{}}) })
}

// Never returns without ever completing.
func (h *H) Never(ctx *impls.HandlerContext, a *Arg, cb apientry.HandlerCBFunc) {
	h.n.logInvocation(ctx, "never", a.T)
}

// Note is notify-shaped (no completion function).
func (h *H) Note(ctx *impls.HandlerContext, a *Arg) {
	h.n.logInvocation(ctx, "note", a.T)
}

// SetKey (front only) sets the routing key on the caller's front session.
func (h *H) SetKey(ctx *impls.HandlerContext, a *Arg, cb apientry.HandlerCBFunc) {
	s := h.n.logInvocation(ctx, "setkey", a.T)
	ctx.Session.Set(RouteKey, a.Key)
	apientry.CheckInvokeCBFunc(cb, nil, h.reply(ctx, s, "echo", a))
}

// Block (front only) occupies the service goroutine for Ms real milliseconds.
func (h *H) Block(ctx *impls.HandlerContext, a *Arg, cb apientry.HandlerCBFunc) {
	s := h.n.logInvocation(ctx, "block", a.T)
	time.Sleep(time.Duration(a.Ms) * time.Millisecond)
	apientry.CheckInvokeCBFunc(cb, nil, h.reply(ctx, s, "echo", a))
}

// Send issues N1 pushes, the response, then N2 pushes.  Every item (pushes and the response)
// carries the issuing instance, the request tag, its position in the script and the
// instance's issue counter, taken at the moment the item is issued.  Mode selects the API the
// pushes go through: to the requester alone (PushMessageById), to a list of connections of the
// requester's front (PushMessageByIds), or broadcast through a channel holding that list.
func (h *H) Send(ctx *impls.HandlerContext, a *Arg, cb apientry.HandlerCBFunc) {
	h.doSend(ctx, a, cb, func(v any) any { return v })
}

// wrapProto carries a harness payload inside a protobuf message (client serializer = protobuf)
func wrapProto(v any) any {
	b, _ := json.Marshal(v)
	return &msgs.Hello1{S: string(b)}
}

func argOf(m *msgs.Hello1) *Arg {
	a := &Arg{}
	json.Unmarshal([]byte(m.S), a)
	return a
}

// PSend / PSentinel / PSetKey: the same methods for a node whose client serializer is
// protobuf - argument, reply and pushes are msgs.Hello1{S: <the JSON payload>}.
func (h *H) PSend(ctx *impls.HandlerContext, m *msgs.Hello1, cb apientry.HandlerCBFunc) {
	h.doSend(ctx, argOf(m), cb, wrapProto)
}

func (h *H) PSentinel(ctx *impls.HandlerContext, m *msgs.Hello1, cb apientry.HandlerCBFunc) {
	a := argOf(m)
	s := h.n.logInvocation(ctx, "sentinel", 0)
	apientry.CheckInvokeCBFunc(cb, nil, wrapProto(h.reply(ctx, s, "sentinel", a)))
}

func (h *H) PSetKey(ctx *impls.HandlerContext, m *msgs.Hello1, cb apientry.HandlerCBFunc) {
	a := argOf(m)
	s := h.n.logInvocation(ctx, "setkey", a.T)
	ctx.Session.Set(RouteKey, a.Key)
	apientry.CheckInvokeCBFunc(cb, nil, wrapProto(h.reply(ctx, s, "echo", a)))
}

// Zero completes successfully with an all-default result: "{}" under JSON, no bytes under protobuf.
func (h *H) Zero(ctx *impls.HandlerContext, a *Arg, cb apientry.HandlerCBFunc) {
	h.n.logInvocation(ctx, "zero", a.T)
	apientry.CheckInvokeCBFunc(cb, nil, &msgs.Hello1{})
}

// The protobuf-serializer twins of the behaviour methods (argument / reply: msgs.Hello1 carrying
// the JSON payload; an all-default reply is &msgs.Hello1{}).
func (h *H) PEcho(ctx *impls.HandlerContext, m *msgs.Hello1, cb apientry.HandlerCBFunc) {
	a := argOf(m)
	s := h.n.logInvocation(ctx, "echo", a.T)
	apientry.CheckInvokeCBFunc(cb, nil, wrapProto(h.reply(ctx, s, "echo", a)))
}

func (h *H) PBig(ctx *impls.HandlerContext, m *msgs.Hello1, cb apientry.HandlerCBFunc) {
	a := argOf(m)
	s := h.n.logInvocation(ctx, "big", a.T)
	r := h.reply(ctx, s, "echo", a)
	r.Pad = strings.Repeat("x", a.Pad)
	apientry.CheckInvokeCBFunc(cb, nil, wrapProto(r))
}

func (h *H) PZero(ctx *impls.HandlerContext, m *msgs.Hello1, cb apientry.HandlerCBFunc) {
	h.n.logInvocation(ctx, "zero", argOf(m).T)
	apientry.CheckInvokeCBFunc(cb, nil, &msgs.Hello1{})
}

func (h *H) PFail(ctx *impls.HandlerContext, m *msgs.Hello1, cb apientry.HandlerCBFunc) {
	h.n.logInvocation(ctx, "fail", argOf(m).T)
	apientry.CheckInvokeCBFunc(cb, errors.New("harness failure"), nil)
}

func (h *H) PBoom(ctx *impls.HandlerContext, m *msgs.Hello1, cb apientry.HandlerCBFunc) {
	h.n.logInvocation(ctx, "boom", argOf(m).T)
	panic("harness panic")
}

func (h *H) PNever(ctx *impls.HandlerContext, m *msgs.Hello1, cb apientry.HandlerCBFunc) {
	h.n.logInvocation(ctx, "never", argOf(m).T)
}

func (h *H) PNote(ctx *impls.HandlerContext, m *msgs.Hello1) {
	h.n.logInvocation(ctx, "note", argOf(m).T)
}

// PUnenc: a result that is not a proto.Message cannot be encoded.
func (h *H) PUnenc(ctx *impls.HandlerContext, m *msgs.Hello1, cb apientry.HandlerCBFunc) {
	h.n.logInvocation(ctx, "unenc", argOf(m).T)
	apientry.CheckInvokeCBFunc(cb, nil, &struct{ X int }{1})
}

func (h *H) PEchoLater(ctx *impls.HandlerContext, m *msgs.Hello1, cb apientry.HandlerCBFunc) {
	a := argOf(m)
	s := h.n.logInvocation(ctx, "echolater", a.T)
	r := h.reply(ctx, s, "echo", a)
	s.NodeService.Post(func() { apientry.CheckInvokeCBFunc(cb, nil, wrapProto(r)) })
}

func (h *H) PUnencLater(ctx *impls.HandlerContext, m *msgs.Hello1, cb apientry.HandlerCBFunc) {
	s := h.n.logInvocation(ctx, "unenclater", argOf(m).T)
	s.NodeService.Post(func() { apientry.CheckInvokeCBFunc(cb, nil, &struct{ X int }{1}) })
}

func (h *H) doSend(ctx *impls.HandlerContext, a *Arg, cb apientry.HandlerCBFunc, wrap func(any) any) {
	s := h.n.logInvocation(ctx, "send", a.T)
	r := h.reply(ctx, s, "sent", a)
	pads := map[int]string{}
	padN := func(q int64) int {
		if len(a.Pads) > 0 {
			return a.Pads[int(q%int64(len(a.Pads)))]
		}
		return a.Pad
	}
	padOf := func(q int64) string {
		n := padN(q)
		if n < 0 {
			n = 0
		}
		p, ok := pads[n]
		if !ok {
			p = strings.Repeat("x", n)
			pads[n] = p
		}
		return p
	}
	ctr := &h.n.ctr[InstOf(s.name)]
	seq := a.Seq0
	body := func() {
		if a.Kick != 0 {
			if fi := FrontOf(s.name); fi >= 0 {
				if sc, _ := s.GetComponent("sessions").(*impls.SessionsComponent); sc != nil {
					sc.GetSessions().Kick(a.Kick)
				}
			} else {
				h.n.BusyFront(8 * time.Millisecond)
				app.Kick(s.NodeService, r.Front, a.Kick, nil)
			}
		}
		var ch *channel.Channel
		chName := ""
		if a.Mode == 2 {
			svc := s.GetComponent("channel").(*impls.ChannelComponent).GetCS()
			chName = "e2e-" + s.name + "-" + strconv.FormatInt(a.T, 10)
			for _, id := range a.Ids {
				svc.AddToChannel(chName, r.Front, id)
			}
			ch = svc.GetChannel(chName)
			defer svc.DeleteChannel(chName)
		}
		push := func(k int) {
			for i := 0; i < k; i++ {
				*ctr++
				var body any = wrap(&PushBody{Svc: s.name, T: a.T, Seq: seq, Ctr: *ctr, Pad: padOf(seq)})
				if padN(seq) < 0 {
					// a message whose fields all have their default value: zero bytes under protobuf,
					// "{}" under JSON - it identifies nothing, but it has to arrive
					body = &msgs.Hello1{}
				}
				switch {
				case a.Mode == 1:
					app.PushMessageByIds(s.NodeService, r.Front, a.Ids, "onSeq", body)
				case a.Mode == 2 && ch != nil:
					ch.PushMessage("onSeq", body)
				case a.Mode == 2:
				default:
					app.PushMessageById(s.NodeService, r.Front, r.NetId, "onSeq", body)
				}
				seq++
			}
		}
		push(a.N1)
		*ctr++
		r.Ctr = *ctr
		r.Pad = strings.Repeat("x", a.RPad)
		apientry.CheckInvokeCBFunc(cb, nil, wrap(r))
		push(a.N2)
	}
	if a.Later {
		s.NodeService.Post(func() {
			atomic.AddInt64(&h.n.activity, 1)
			body()
		})
		return
	}
	body()
}
