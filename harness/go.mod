module verifh

go 1.21

replace (
	github.com/dfklegend/cell2 => /repo
	github.com/dfklegend/cell2/apimapper => /repo/apimapper
	github.com/dfklegend/cell2/pomelonet => /repo/pomelonet
	github.com/dfklegend/cell2/utils => /repo/utils
)

require (
	github.com/asynkron/protoactor-go v0.0.0-20240308120642-ef91a6abee75
	github.com/dfklegend/cell2 v0.0.0-00010101000000-000000000000
	github.com/dfklegend/cell2/apimapper v0.0.0-00010101000000-000000000000
	github.com/dfklegend/cell2/pomelonet v0.0.0-00010101000000-000000000000
	github.com/dfklegend/cell2/utils v0.0.0-00010101000000-000000000000
	github.com/sirupsen/logrus v1.9.0
)

require (
	github.com/Workiva/go-datastructures v1.1.1 // indirect
	github.com/asynkron/gofun v0.0.0-20220329210725-34fed760f4c2 // indirect
	github.com/beorn7/perks v1.0.1 // indirect
	github.com/cespare/xxhash/v2 v2.2.0 // indirect
	github.com/emirpasic/gods v1.18.1 // indirect
	github.com/fsnotify/fsnotify v1.6.0 // indirect
	github.com/go-logr/logr v1.3.0 // indirect
	github.com/go-logr/stdr v1.2.2 // indirect
	github.com/gogo/protobuf v1.3.2 // indirect
	github.com/golang/protobuf v1.5.3 // indirect
	github.com/google/uuid v1.5.0 // indirect
	github.com/gorilla/websocket v1.5.0 // indirect
	github.com/hashicorp/hcl v1.0.0 // indirect
	github.com/json-iterator/go v1.1.12 // indirect
	github.com/lestrrat-go/file-rotatelogs v2.4.0+incompatible // indirect
	github.com/lestrrat-go/strftime v1.0.6 // indirect
	github.com/lithammer/shortuuid/v4 v4.0.0 // indirect
	github.com/lmittmann/tint v1.0.3 // indirect
	github.com/magiconair/properties v1.8.6 // indirect
	github.com/mitchellh/mapstructure v1.5.0 // indirect
	github.com/modern-go/concurrent v0.0.0-20180306012644-bacd9c7ef1dd // indirect
	github.com/modern-go/reflect2 v1.0.2 // indirect
	github.com/orcaman/concurrent-map v1.0.0 // indirect
	github.com/pelletier/go-toml/v2 v2.0.5 // indirect
	github.com/petermattis/goid v0.0.0-20221215004737-a150e88a970d // indirect
	github.com/pkg/errors v0.9.1 // indirect
	github.com/prometheus/client_golang v1.19.0 // indirect
	github.com/prometheus/client_model v0.5.0 // indirect
	github.com/prometheus/common v0.48.0 // indirect
	github.com/prometheus/procfs v0.12.0 // indirect
	github.com/rifflock/lfshook v0.0.0-20180920164130-b9218ef580f5 // indirect
	github.com/spf13/afero v1.9.2 // indirect
	github.com/spf13/cast v1.5.0 // indirect
	github.com/spf13/jwalterweatherman v1.1.0 // indirect
	github.com/spf13/pflag v1.0.5 // indirect
	github.com/spf13/viper v1.14.0 // indirect
	github.com/subosito/gotenv v1.4.1 // indirect
	github.com/twmb/murmur3 v1.1.8 // indirect
	go.opentelemetry.io/otel v1.21.0 // indirect
	go.opentelemetry.io/otel/exporters/prometheus v0.44.0 // indirect
	go.opentelemetry.io/otel/metric v1.21.0 // indirect
	go.opentelemetry.io/otel/sdk v1.21.0 // indirect
	go.opentelemetry.io/otel/sdk/metric v1.21.0 // indirect
	go.opentelemetry.io/otel/trace v1.21.0 // indirect
	golang.org/x/exp v0.0.0-20231110203233-9a3e6036ecaa // indirect
	golang.org/x/net v0.20.0 // indirect
	golang.org/x/sys v0.16.0 // indirect
	golang.org/x/text v0.14.0 // indirect
	google.golang.org/genproto/googleapis/rpc v0.0.0-20231002182017-d307bd883b97 // indirect
	google.golang.org/grpc v1.60.1 // indirect
	google.golang.org/protobuf v1.33.0 // indirect
	gopkg.in/ini.v1 v1.67.0 // indirect
	gopkg.in/yaml.v3 v3.0.1 // indirect
)
