// Package c01 drives the real actorex/service.Service (embedded in a node-level
// NodeService) inside a local protoactor actor system: every operation is delivered as a
// message through the service's own mailbox, executes in the service context and is
// acknowledged on a channel before the next one.  A scripted peer - itself a real
// service.Service - receives the requests and answers on command through the real
// Service.Response (or with a hand-made ServiceResponse for ids it never saw and for raw
// field combinations: KRaw).  The callback's two arguments are recorded in full (classify):
// which error, whether a message came with it, its dynamic type and every field.  Time is
// the virtual clock common.VerifSetNowMs.
package c01

import (
	"bytes"
	"errors"
	"fmt"
	"io"
	"log"
	"log/slog"
	"runtime"
	"strconv"
	"strings"
	"sync"
	"time"

	"github.com/asynkron/protoactor-go/actor"
	"github.com/asynkron/protoactor-go/remote"
	"github.com/sirupsen/logrus"

	as "github.com/dfklegend/cell2/actorex/service"
	messages "github.com/dfklegend/cell2/actorex/service/servicemsgs"
	api "github.com/dfklegend/cell2/apimapper"
	"github.com/dfklegend/cell2/apimapper/apientry"
	"github.com/dfklegend/cell2/node/app"
	"github.com/dfklegend/cell2/node/builtin/msgs"
	appdefine "github.com/dfklegend/cell2/nodectrl/define"
	"github.com/dfklegend/cell2/node/cluster"
	"github.com/dfklegend/cell2/node/route"
	ns "github.com/dfklegend/cell2/node/service"
	protoser "github.com/dfklegend/cell2/utils/serialize/proto"
	"github.com/dfklegend/cell2/utils/common"
	"github.com/dfklegend/cell2/utils/logger"

	"verifh/hx"
)

const (
	clock0      = int64(1000000)
	ackTimeout  = 10 * time.Second
	localAddr   = "h:0" // address of the in-process actor system = host:port of the one cluster member
	noSuchRoute = "ghost.remote.method"
	noSuchParam = "c01-no-such-service"
	typeDefault = "peer"  // service type resolved by node/app's default route (first working service)
	typeFunc    = "peerx" // service type resolved by a route function registered in route.TheRouteService
	noMethodErr = int64(-1)
	span        = maxReqID + 1 // key = incarnation*span + request id
)

// a message the proto serializer rejects ("msg must be proto.Message")
type unserialisable struct{ X int }

func gid() int64 {
	var buf [64]byte
	n := runtime.Stack(buf[:], false)
	f := bytes.Fields(buf[:n])
	if len(f) < 2 {
		return -1
	}
	v, err := strconv.ParseInt(string(f[1]), 10, 64)
	if err != nil {
		return -1
	}
	return v
}

// ---- messages of the driver

type opMsg struct {
	what string // "op" | "begin-real" | "probe" | "collect"
	op   hx.T
	ack  chan *result
}

type barrier struct{ ack chan *result }

type result struct {
	evs    []any
	evInc  []int   // incarnation each event belongs to
	pend   []int64 // keys (incarnation, id) of every pending request of every incarnation
	arms   []bool  // timer flag of every incarnation
	lens   []int   // number of pending requests of every incarnation
	got    int64
	onLoop bool
}

// crashMsg is a user message whose handler panics: the supervisor restarts the actor
type crashMsg struct{}

type peerCmd struct {
	what  string // "resp" | "resp-notify" | "resp-nosender" | "sync"
	id    int64
	want  int64 // "resp": tag of the request the peer is asked to answer (-1: whichever it holds under id)
	kind  hx.T  // the answer (KAns | KRaw)
	ghost int64 // set by the peer: tag of the request object it did answer, -1 if none (hand-made)
	ack   chan *result
	seen  chan [][2]int64
}

// ---- the requesting service

// One hsvc per incarnation of the actor: the producer builds a fresh one (fresh
// service.Service: empty Handlers, nextId 0, no timer) every time the supervisor restarts it.
type hsvc struct {
	*ns.NodeService
	w   *world
	idx int // incarnation number
}

func (h *hsvc) Receive(ctx actor.Context) {
	w := h.w
	switch m := ctx.Message().(type) {
	case *actor.Started:
		h.NodeService.Receive(ctx)
		if h.idx == 0 {
			w.loopGid = gid()
		} else {
			w.checkLoop() // a later incarnation must run on the same goroutine
		}
	case *crashMsg:
		w.checkLoop()
		w.acting = h
		w.rec("ECrash")
		panic("c01: a handler of the requesting service panics")
	case *opMsg:
		w.checkLoop()
		w.handle(m)
	case *barrier:
		w.checkLoop()
		m.ack <- w.collect()
	case *messages.ServiceResponse:
		w.checkLoop()
		w.got++
		h.NodeService.Receive(ctx)
	default:
		h.NodeService.Receive(ctx)
	}
}

// ---- the scripted peer

// RemoteEntry is the peer's API (group "remote"), reached through APIDispatcher.Dispatch
// when a request carries a route.
type RemoteEntry struct {
	api.APIEntry
	p *peerSvc
}

// Park is request-shaped: the completion function is kept until the driver says how to answer.
func (e *RemoteEntry) Park(ctx *as.RemoteContext, msg *messages.TestHello, cb apientry.HandlerCBFunc) error {
	if cb != nil {
		e.p.parkedByTag[int64(msg.I)] = cb
	}
	e.p.apiCalls++
	return nil
}

// Note is notify-shaped.
func (e *RemoteEntry) Note(ctx *as.RemoteContext, msg *messages.TestHello) error {
	e.p.apiCalls++
	return nil
}

// SysEntry answers the built-in routes sys.querysession / sys.kick (app.QuerySession, app.Kick);
// registered with a lower-casing name function.
type SysEntry struct {
	api.APIEntry
	p *peerSvc
}

func (e *SysEntry) Querysession(ctx *as.RemoteContext, msg *msgs.QuerySession, cb apientry.HandlerCBFunc) error {
	if cb != nil {
		e.p.parkedByTag[int64(msg.SessionId)] = cb
	}
	e.p.apiCalls++
	return nil
}

func (e *SysEntry) Kick(ctx *as.RemoteContext, msg *msgs.Kick, cb apientry.HandlerCBFunc) error {
	if cb != nil {
		e.p.parkedByTag[int64(msg.SessionId)] = cb
	}
	e.p.apiCalls++
	return nil
}

type OtherEntry struct{ api.APIEntry }

func (e *OtherEntry) Ping(ctx *as.RemoteContext, msg *messages.TestHello) error { return nil }

type peerSvc struct {
	*as.Service
	w           *world
	// everything the peer holds is kept by the TAG of the request (its payload), not by request
	// id: a restarted requester uses the same ids again
	reqs        map[int64]*messages.ServiceRequest // requests that reached ReceiveRequest
	parkedByTag map[int64]apientry.HandlerCBFunc   // API completions not yet used
	held        map[int64]*messages.ServiceRequest // requests whose processing is deferred (no such method)
	idOf        map[int64]int32                    // request id each tagged request came with
	latest      map[int32]int64                    // the last tagged request received under a request id
	released    map[*messages.ServiceRequest]bool
	lastNote    *messages.ServiceRequest
	seen        [][2]int64
	apiCalls    int
}

func bodyTag(req *messages.ServiceRequest) int64 {
	if m, err := remote.Deserialize(req.Body, req.Type, as.DefaultSerializeId); err == nil {
		switch h := m.(type) {
		case *messages.TestHello:
			return int64(h.I)
		case *msgs.QuerySession:
			return int64(h.SessionId)
		case *msgs.Kick:
			return int64(h.SessionId)
		}
	}
	return -2
}

func (p *peerSvc) Receive(ctx actor.Context) {
	switch m := ctx.Message().(type) {
	case *peerCmd:
		p.command(ctx, m)
		return
	case *messages.ServiceRequest:
		if p.released[m] {
			delete(p.released, m)
			p.Service.Receive(ctx) // the deferred processing: Dispatch answers "no method"
			return
		}
		tag := bodyTag(m)
		if m.Sender != nil {
			p.seen = append(p.seen, [2]int64{int64(m.ReqId), tag})
		}
		if m.ReqId == as.NotifyReqID {
			p.lastNote = m
		} else {
			if m.Sender != nil && tag >= 0 {
				p.idOf[tag] = m.ReqId
				p.latest[m.ReqId] = tag
			}
			if strings.HasSuffix(m.Route, ".NoSuch") {
				p.held[tag] = m
				return
			}
		}
		p.Service.Receive(ctx)
		if m.ReqId == as.NotifyReqID {
			delete(p.parkedByTag, tag) // a completion parked by a notification is never used
		}
		return
	}
	p.Service.Receive(ctx)
}

func (p *peerSvc) ReceiveRequest(ctx actor.Context, request *messages.ServiceRequest, rawMsg interface{}) {
	if request.ReqId != as.NotifyReqID {
		p.reqs[bodyTag(request)] = request
	}
}

func (p *peerSvc) command(ctx actor.Context, c *peerCmd) {
	switch c.what {
	case "sync":
		s := p.seen
		p.seen = nil
		c.seen <- s
		return
	case "fwd-barrier":
		ctx.Send(p.w.svcPID, &barrier{ack: c.ack})
		return
	case "resp":
		deferred, ghost := p.respond(ctx, int32(c.id), c.want, c.kind)
		c.ghost = ghost
		if deferred {
			// the answer is produced by the deferred request, which is behind us in the mailbox
			ctx.Send(ctx.Self(), &peerCmd{what: "fwd-barrier", ack: c.ack})
			return
		}
	case "resp-notify":
		if p.lastNote != nil {
			p.Response(p.lastNote, as.CodeSucc, "", &messages.TestHello{I: 7})
		}
	case "resp-nosender":
		p.Response(&messages.ServiceRequest{Sender: nil, ReqId: int32(c.id)}, as.CodeSucc, "", &messages.TestHello{I: 7})
	}
	ctx.Send(p.w.svcPID, &barrier{ack: c.ack})
}

// ---- the value of a reply: kinds (what the peer answers), wires (response fields), classes
// (what the callback is told).  Mirrors Model.v: ty, body, wire, pmsg, kind, val, cls.

const (
	typeHello   = "servicemsgs.TestHello"
	typeEmpty   = "servicemsgs.EmptyArg"
	typeUnknown = "c01.NoSuchType"
)

// infoText maps an error text number to the text: 0 is the EMPTY text, -1 stands for the
// dispatcher's own "no method: <route>".
func infoText(e int64) string {
	if e == 0 {
		return ""
	}
	return fmt.Sprintf("E:%d", e)
}

// strOf maps a string number to the string, injectively: 0 is the EMPTY string; the others
// are short ascii / multi-byte utf-8 / longer than 127 bytes (two-byte length prefix).
func strOf(s int64) string {
	if s == 0 {
		return ""
	}
	t := fmt.Sprintf("s%d", s)
	switch s % 4 {
	case 2:
		t += " h\u00e9llo w\u00f6rld \u2713"
	case 3:
		t += " " + strings.Repeat("y", 300)
	}
	return t
}

func strIdx(t string) (int64, bool) {
	if t == "" {
		return 0, true
	}
	if t[0] != 's' {
		return 0, false
	}
	end := 1
	for end < len(t) && (t[end] == '-' && end == 1 || t[end] >= '0' && t[end] <= '9') {
		end++
	}
	v, err := strconv.ParseInt(t[1:end], 10, 64)
	if err != nil || v == 0 || strOf(v) != t {
		return 0, false
	}
	return v, true
}

// msgOf: what the peer hands to Service.Response
func msgOf(m hx.T) interface{} {
	switch m.Name {
	case "MNil":
		return nil
	case "MTypedNil":
		return (*messages.TestHello)(nil)
	case "MHello":
		return &messages.TestHello{I: int32(m.Int(0)), S: strOf(m.Int(1))}
	case "MEmpty":
		return &messages.EmptyArg{}
	}
	panic("c01: unknown pmsg " + m.Name)
}

// handMade builds the ServiceResponse for kind k without going through the peer's Service:
// for KRaw exactly the given fields, for KAns (ids the peer holds no request for) what
// ResponseEx is specified to produce.
func handMade(id int32, k hx.T) *messages.ServiceResponse {
	res := &messages.ServiceResponse{ReqId: id}
	switch k.Name {
	case "KAns":
		if code := k.Int(0); code != 0 {
			res.ErrCode, res.ErrInfo = int32(code), infoText(k.Int(1))
		} else if m := msgOf(k.Term(2)); m != nil {
			b, tn, err := remote.Serialize(m, as.DefaultSerializeId)
			if err != nil {
				panic(err)
			}
			res.Type, res.Body = tn, b
		}
	case "KRaw":
		w := k.Term(0)
		res.ErrCode, res.ErrInfo = int32(w.Int(0)), infoText(w.Int(1))
		switch t := w.Term(2).Name; t {
		case "TyNone":
		case "TyHello":
			res.Type = typeHello
		case "TyEmpty":
			res.Type = typeEmpty
		case "TyUnknown":
			res.Type = typeUnknown
		default:
			panic("c01: unknown ty " + t)
		}
		switch b := w.Term(3); b.Name {
		case "BFields":
			bs, _, err := remote.Serialize(&messages.TestHello{I: int32(b.Int(0)), S: strOf(b.Int(1))}, as.DefaultSerializeId)
			if err != nil {
				panic(err)
			}
			res.Body = bs // zero bytes when both fields have their default value
		case "BJunk":
			res.Body = []byte{0xff, 0xff, 0xff}
		default:
			panic("c01: unknown body " + b.Name)
		}
	default:
		panic("c01: unknown kind " + k.Name)
	}
	return res
}

// respond answers with kind k under request id `id`.  WHICH request the peer answers: the one
// tagged `want` if it holds that request and it came under this id, else the last request it
// received under this id, else none.  A KAns for a request it holds goes through the real path:
//   - a held request to a missing method, answered (error, "no method"): released to Dispatch,
//     whose error reply goes through Service.Response (deferred: the reply is still to come);
//   - a parked API completion (first use): invoked with (error | nil, message), the reply goes
//     through the dispatcher's closure and Service.Response;
//   - a request that reached ReceiveRequest: Service.Response(req, code, text, message);
// and the ghost returned is that request's tag.  Otherwise (no such request, KRaw) a hand-made
// ServiceResponse with exactly those fields is sent and the ghost is -1.
func (p *peerSvc) respond(ctx actor.Context, id int32, want int64, k hx.T) (deferred bool, ghost int64) {
	if k.Name == "KAns" {
		t := int64(-1)
		if rid, ok := p.idOf[want]; ok && want >= 0 && rid == id {
			t = want
		} else if lt, ok := p.latest[id]; ok {
			t = lt
		}
		code, info, m := k.Int(0), k.Int(1), k.Term(2)
		if t >= 0 {
			if req := p.held[t]; req != nil && code != 0 && info == noMethodErr {
				delete(p.held, t)
				p.released[req] = true
				ctx.Send(ctx.Self(), req)
				return true, t
			}
			if cb := p.parkedByTag[t]; cb != nil {
				delete(p.parkedByTag, t)
				if code != 0 {
					cb(errors.New(infoText(info)), msgOf(m))
				} else {
					cb(nil, msgOf(m))
				}
				return false, t
			}
			if req := p.reqs[t]; req != nil {
				p.Response(req, int32(code), infoText(info), msgOf(m))
				return false, t
			}
		}
	}
	ctx.Send(p.w.svcPID, handMade(id, k))
	return false, -1
}

// ---- one world per case

var (
	sysOnce sync.Once
	sys     *actor.ActorSystem
	serial  int
)

func system() *actor.ActorSystem {
	sysOnce.Do(func() {
		logger.GetLogProxy("default").SetLogLevel(logrus.PanicLevel)
		logger.GetLogProxy("exception").SetLogLevel(logrus.PanicLevel)
		log.SetOutput(io.Discard)
		sys = actor.NewActorSystem(actor.WithLoggerFactory(func(*actor.ActorSystem) *slog.Logger {
			return slog.New(slog.NewTextHandler(io.Discard, nil))
		}))
		// PIDs built by node/app from the cluster view (host:port of the member) are local
		sys.ProcessRegistry.Address = localAddr
		// service type "peerx" is routed by a registered route function reading the parameter
		route.GetRouteService().Register(typeFunc, func(serviceType string, p route.IRouteParam) string {
			if p == nil {
				return ""
			}
			v, _ := p.Get("target", "").(string)
			return v
		})
	})
	return sys
}

type world struct {
	svc     *hsvc
	peer    *peerSvc
	svcPID  *actor.PID
	peerPID *actor.PID
	peerName string
	clock   int64
	via     int64 // how requests reach the peer (op Via)
	crashes int64 // restarts so far = number of the live incarnation (driver side)
	// free-running timers: until the first TickReal the real 1 s timers are never detached, so
	// that what fires there is exactly what the code armed (see freeRunning)
	free bool

	// touched only on the service goroutine
	incs    []*hsvc // every incarnation so far; svc is the last one
	acting  *hsvc   // the incarnation whose code is running (set by Do, scans and callbacks)
	loopGid int64
	evs     []any
	evInc   []int
	onLoop  bool
	got     int64
	nextTag int64
	issued  map[int64]bool
}

func newWorld() *world {
	w := &world{clock: clock0, onLoop: true, issued: map[int64]bool{}}
	common.VerifSetNowMs(w.clock)
	s := system()
	serial++
	w.peerName = fmt.Sprintf("c01-peer-%d", serial)
	entry := &RemoteEntry{}
	sysEntry := &SysEntry{}
	pprops, pext := as.NewServicePropsWithNewScheDisp(func() actor.Actor {
		p := &peerSvc{Service: as.NewService(), w: w,
			reqs:        map[int64]*messages.ServiceRequest{},
			parkedByTag: map[int64]apientry.HandlerCBFunc{},
			held:        map[int64]*messages.ServiceRequest{},
			idOf:        map[int64]int32{},
			latest:      map[int32]int64{},
			released:    map[*messages.ServiceRequest]bool{}}
		p.Service.InitReqReceiver(p)
		entry.p = p
		sysEntry.p = p
		w.peer = p
		return p
	}, "")
	// two collections (and a nil), so that Dispatch has to walk past one that lacks the method
	ser := protoser.GetDefaultSerializer()
	other := apientry.NewCollection()
	other.Register(&OtherEntry{}, apientry.WithGroupName("other"),
		apientry.WithSerializer(ser), apientry.WithSerializeRet(false)).Build()
	col := apientry.NewCollection()
	col.Register(entry, apientry.WithGroupName("remote"),
		apientry.WithSerializer(ser), apientry.WithSerializeRet(false)).
		Register(sysEntry, apientry.WithGroupName("sys"), apientry.WithNameFunc(strings.ToLower),
			apientry.WithSerializer(ser), apientry.WithSerializeRet(false)).Build()
	pext.WithDispatcher(as.NewDispatcher(other, nil, col))
	w.peerPID, _ = s.Root.SpawnNamed(pprops, w.peerName)
	// the cluster view of node/app: one working member on the local address offering the peer
	// under both service types
	app.Node.GetCluster().UpdateClusterTopology([]*cluster.Member{{
		Id: "c01@n1", Host: "h", Port: 0, State: int(appdefine.Working),
		Services: []string{typeDefault + "." + w.peerName, typeFunc + "." + w.peerName},
	}})
	sprops, _ := as.NewServicePropsWithNewScheDisp(func() actor.Actor {
		h := &hsvc{NodeService: ns.NewService(), w: w, idx: len(w.incs)}
		w.incs = append(w.incs, h)
		w.svc = h
		return h
	}, "")
	sprops.Configure(actor.WithSenderMiddleware(w.senderMiddleware))
	w.svcPID, _ = s.Root.SpawnNamed(sprops, fmt.Sprintf("c01-svc-%d", serial))
	return w
}

func (w *world) close() {
	s := system()
	s.Root.StopFuture(w.svcPID).Wait()
	s.Root.StopFuture(w.peerPID).Wait()
	if w.svc != nil {
		w.svc.GetRunService().Stop()
	}
	if w.peer != nil {
		w.peer.GetRunService().Stop()
	}
}

// records every ServiceRequest the service hands to the transport, at the instant of the send
func (w *world) senderMiddleware(next actor.SenderFunc) actor.SenderFunc {
	return func(c actor.SenderContext, target *actor.PID, env *actor.MessageEnvelope) {
		if req, ok := env.Message.(*messages.ServiceRequest); ok {
			w.checkLoop()
			tag := bodyTag(req)
			id := int64(req.ReqId)
			if id != 0 && !w.issued[tag] && w.acting.isPending(id) {
				// the wait is in the table (of the incarnation that sends) while the request is being sent
				w.issued[tag] = true
				w.rec(hx.C("EIssue", tag, w.acting.key(id), w.clock))
			}
			w.rec(hx.C("ESent", w.acting.key(id), tag))
		}
		next(c, target, env)
	}
}

func (h *hsvc) isPending(id int64) bool {
	for _, p := range h.VerifPendingIds() {
		if int64(p) == id {
			return true
		}
	}
	return false
}

// key names a request id of an incarnation: incarnation * (MaxReqId+1) + id; 0 stays 0 (notification)
func (h *hsvc) key(id int64) int64 {
	if id == 0 {
		return 0
	}
	return int64(h.idx)*span + id
}

// respKey: the key a response with wire id `id` addresses when incarnation cur processes it;
// ids no request can carry (outside 1..MaxReqId) get an injective negative code
func respKey(cur, id int64) int64 {
	switch {
	case id >= 1 && id <= maxReqID:
		return cur*span + id
	case id <= 0:
		return 2*id - 1
	}
	return -2 * id
}

func (w *world) rec(e any) {
	w.evs = append(w.evs, e)
	idx := 0
	if w.acting != nil {
		idx = w.acting.idx
	}
	w.evInc = append(w.evInc, idx)
}

func (w *world) checkLoop() {
	if gid() != w.loopGid {
		w.onLoop = false
	}
}

func (w *world) collect() *result {
	r := &result{evs: w.evs, evInc: w.evInc, got: w.got, onLoop: w.onLoop}
	for _, h := range w.incs {
		if !w.free {
			h.VerifDetachTimer()
		}
		r.arms = append(r.arms, h.VerifTimerArmed())
		r.lens = append(r.lens, h.VerifPendingLen())
		for _, id := range h.VerifPendingIds() {
			r.pend = append(r.pend, h.key(int64(id)))
		}
	}
	w.evs, w.evInc, w.got, w.onLoop = nil, nil, 0, true
	return r
}

// classify turns the two arguments of a callback into a cls term.  Everything about the pair
// is looked at: which error, whether a message came along, its dynamic type, every field.
func classify(err error, msg interface{}) any {
	if err == nil {
		switch h := msg.(type) {
		case nil:
			return "RNil"
		case *messages.TestHello:
			if h == nil {
				return "ROther"
			}
			if s, ok := strIdx(h.S); ok {
				return hx.C("RReply", hx.C("VHello", int64(h.I), s))
			}
		case *messages.EmptyArg:
			if h != nil {
				return hx.C("RReply", "VEmpty")
			}
		}
		return "ROther"
	}
	var c any
	switch text := err.Error(); {
	case err == as.ErrTimeout:
		c = "RTimeout"
	case err == app.ErrorNoService:
		c = "RNoService"
	case strings.HasPrefix(text, "no method"):
		c = hx.C("RErr", noMethodErr)
	case text == "":
		c = hx.C("RErr", int64(0))
	case strings.HasPrefix(text, "E:"):
		v, e := strconv.ParseInt(text[2:], 10, 64)
		if e != nil || v == 0 || infoText(v) != text {
			return "ROther"
		}
		c = hx.C("RErr", v)
	case strings.HasPrefix(text, "response deserialize failed") || strings.HasPrefix(text, "proto:"):
		// local decode error; the message that came with it (if any) is part of the class
		return hx.C("RBad", msg != nil)
	default:
		return "ROther"
	}
	if msg != nil {
		return "ROther"
	}
	return c
}

// the callback of a request issued by incarnation h: what it does, it does through h (the
// closure captured its service, as user code does)
func (w *world) callback(h *hsvc, tag int64, prog []hx.T) func(error, interface{}) {
	return func(err error, msg interface{}) {
		w.checkLoop()
		w.acting = h
		w.rec(hx.C("ECb", tag, classify(err, msg)))
		for _, a := range prog {
			w.execAct(h, a)
		}
	}
}

// How a request / notification reaches the peer, by the current Via value:
//   0  Service.Request / Service.Notify with the peer's PID (no route: ReceiveRequest)
//   1  app.Request / app.Notify, service type resolved by node/app's default route;
//      API methods remote.Park (request-shaped) / remote.Note (notify-shaped)
//   2  app.Request / app.Notify, service type resolved by a registered route function from a
//      map parameter; request to a missing method (the dispatcher answers "no method" when the
//      driver releases it), notification to the request-shaped method
//   3  as 2; request to the NOTIFY-shaped method (never answered by the peer), notification to
//      the missing method (the dispatcher's error reply is suppressed)
//   4  app.QuerySession (built-in route sys.querysession); 5  app.Kick (sys.kick); the tag
//      travels as the session id; notifications as 0
func (w *world) target() map[string]interface{} {
	return map[string]interface{}{"target": w.peerName}
}

func (w *world) sendRequest(sv *hsvc, msg interface{}, cb func(error, interface{})) {
	if h, ok := msg.(*messages.TestHello); ok && w.via >= 4 {
		if w.via == 4 {
			app.QuerySession(sv.NodeService, w.peerName, uint32(h.I), cb)
		} else {
			app.Kick(sv.NodeService, w.peerName, uint32(h.I), cb)
		}
		return
	}
	switch w.via {
	case 1:
		app.Request(sv.NodeService, typeDefault+".remote.Park", nil, msg, cb)
	case 2:
		app.Request(sv.NodeService, typeFunc+".remote.NoSuch", w.target(), msg, cb)
	case 3:
		app.Request(sv.NodeService, typeFunc+".remote.Note", w.target(), msg, cb)
	default:
		sv.Request(w.peerPID, msg, cb)
	}
}

func (w *world) sendNotify(sv *hsvc, msg interface{}) {
	switch w.via {
	case 1:
		app.Notify(sv.NodeService, typeDefault+".remote.Note", nil, msg)
	case 2:
		app.Notify(sv.NodeService, typeFunc+".remote.Park", w.target(), msg)
	case 3:
		app.Notify(sv.NodeService, typeFunc+".remote.NoSuch", w.target(), msg)
	default:
		sv.Notify(w.peerPID, msg)
	}
}

// a route and parameter for which routing finds no target
func (w *world) noTarget() (string, interface{}) {
	switch w.via {
	case 1:
		return "malformed-route", nil // not serviceType.registry.method
	case 2:
		return typeFunc + ".remote.Park", map[string]interface{}{"target": ""} // route function yields nothing
	case 3:
		return typeFunc + ".remote.Park", map[string]interface{}{"target": noSuchParam} // unknown service
	default:
		return noSuchRoute, noSuchParam // string parameter naming an unknown service
	}
}

func (w *world) execAct(sv *hsvc, a hx.T) {
	switch a.Name {
	case "AReq", "AUnser":
		tag := w.nextTag
		w.nextTag++
		var msg interface{} = &messages.TestHello{I: int32(tag)}
		if a.Name == "AUnser" {
			msg = &unserialisable{X: int(tag)}
		}
		w.sendRequest(sv, msg, w.callback(sv, tag, hx.Terms(a.Args[0])))
		if !w.issued[tag] {
			// nothing was sent while the wait was in the table: look for it now
			id := int64(sv.VerifNextId())
			if sv.isPending(id) {
				w.issued[tag] = true
				w.rec(hx.C("EIssue", tag, sv.key(id), w.clock))
			}
		}
	case "ANotify":
		w.sendNotify(sv, &messages.TestHello{I: -1})
	case "ANoRoute":
		tag := w.nextTag
		w.nextTag++
		w.rec(hx.C("ENoRoute", tag))
		switch w.via {
		case 4:
			app.QuerySession(sv.NodeService, noSuchParam, uint32(tag), w.callback(sv, tag, hx.Terms(a.Args[0])))
		case 5:
			app.Kick(sv.NodeService, noSuchParam, uint32(tag), w.callback(sv, tag, hx.Terms(a.Args[0])))
		default:
			r, p := w.noTarget()
			app.Request(sv.NodeService, r, p, &messages.TestHello{I: int32(tag)},
				w.callback(sv, tag, hx.Terms(a.Args[0])))
		}
	case "ARep":
		// bulk: the action, n times
		inner := a.Term(1)
		for i := int64(0); i < a.Int(0); i++ {
			w.execAct(sv, inner)
		}
	case "ANotifyNR":
		r, p := w.noTarget()
		app.Notify(sv.NodeService, r, p, &messages.TestHello{I: -1})
	default:
		panic("c01: unknown act " + a.Name)
	}
}

// handle runs on the service goroutine (in the Receive of the live incarnation)
func (w *world) handle(m *opMsg) {
	switch m.what {
	case "begin-real":
		r := &result{}
		for _, h := range w.incs {
			if !w.free {
				h.VerifReattachTimer()
			}
			r.arms = append(r.arms, h.VerifTimerArmed())
			r.lens = append(r.lens, h.VerifPendingLen())
		}
		m.ack <- r
		return
	case "probe":
		r := &result{}
		for _, h := range w.incs {
			r.arms = append(r.arms, h.VerifTimerArmed())
		}
		m.ack <- r
		return
	case "collect":
		m.ack <- w.collect()
		return
	}
	o := m.op
	w.acting = w.svc
	switch o.Name {
	case "Do":
		w.rec("EDo")
		w.execAct(w.svc, o.Term(0))
	case "Tick":
		// the scan of every incarnation whose timer is armed, oldest first: a dead
		// incarnation's timer lives on in the shared run service until its table is empty
		for _, h := range append([]*hsvc{}, w.incs...) {
			w.acting = h
			if h.VerifTimerArmed() {
				w.rec(hx.C("ETick", w.clock))
				h.VerifCheckExpired()
			} else {
				w.rec("EIdle")
			}
		}
	case "Advance":
		w.rec("EIdle")
		if dt := o.Int(0); dt >= 0 {
			if w.free {
				// the clock moves after this operation's observation was taken: whatever the
				// free-running timers do then belongs to the TickReal that follows
				r := w.collect()
				w.clock += dt
				common.VerifSetNowMs(w.clock)
				m.ack <- r
				return
			}
			w.clock += dt
			common.VerifSetNowMs(w.clock)
		}
	case "Via":
		w.rec("EIdle")
		if v := o.Int(0); v >= 0 && v <= 5 {
			w.via = v
		} else {
			w.via = 0
		}
	case "SetNext":
		w.rec("EIdle")
		total := 0
		for _, h := range w.incs {
			total += h.VerifPendingLen()
		}
		if v := o.Int(0); v >= 0 && v <= int64(as.MaxReqId) && total == 0 {
			w.svc.VerifSetNextId(int32(v))
		}
	default:
		panic("c01: unknown op " + o.Name)
	}
	m.ack <- w.collect()
}

func wait(ch chan *result) *result {
	select {
	case r := <-ch:
		return r
	case <-time.After(ackTimeout):
		return nil
	}
}

func (w *world) toSvc(what string, op hx.T) *result {
	ack := make(chan *result, 1)
	system().Root.Send(w.svcPID, &opMsg{what: what, op: op, ack: ack})
	return wait(ack)
}

func (w *world) toPeer(what string, id int64, kind hx.T) *result {
	r, _ := w.toPeerResp(what, id, -1, kind)
	return r
}

// toPeerResp also returns the peer's ghost: the tag of the request object it answered (-1: none)
func (w *world) toPeerResp(what string, id, want int64, kind hx.T) (*result, int64) {
	ack := make(chan *result, 1)
	c := &peerCmd{what: what, id: id, want: want, kind: kind, ghost: -1, ack: ack}
	system().Root.Send(w.peerPID, c)
	r := wait(ack)
	if r == nil {
		return nil, -1
	}
	return r, c.ghost // written by the peer before the barrier that produced r was sent
}

func (w *world) peerSeen() ([][2]int64, bool) {
	ch := make(chan [][2]int64, 1)
	system().Root.Send(w.peerPID, &peerCmd{what: "sync", seen: ch})
	select {
	case s := <-ch:
		return s, true
	case <-time.After(ackTimeout):
		return nil, false
	}
}

// crash makes a handler of the requesting service panic and waits until the supervisor has
// restarted the actor (the next message is processed by the new incarnation).
func (w *world) crash() *result {
	before := w.crashes
	system().Root.Send(w.svcPID, &crashMsg{})
	r := w.toSvc("collect", hx.T{})
	if r == nil {
		return nil
	}
	w.crashes++
	if len(r.arms) != int(before)+2 {
		// no new incarnation was built (or more than one): an impossible observation
		r.evs = append(r.evs, "EDo")
	}
	return r
}

// tickReal lets the real 1s timers run the scans (instead of VerifCheckExpired) until every
// incarnation's timer has disarmed itself, or for 3.5 s, which is at least two firings each.
// The model's TickReal is two passes over all incarnations; the markers are reconstructed
// per incarnation from its state before (armed? anything pending?) and the callbacks are
// attributed to the incarnation that issued the request.
func (w *world) tickReal() *result {
	b := w.toSvc("begin-real", hx.T{})
	if b == nil {
		return nil
	}
	anyArmed := func(arms []bool) bool {
		for _, a := range arms {
			if a {
				return true
			}
		}
		return false
	}
	if anyArmed(b.arms) {
		deadline := time.Now().Add(3500 * time.Millisecond)
		for time.Now().Before(deadline) {
			time.Sleep(20 * time.Millisecond)
			p := w.toSvc("probe", hx.T{})
			if p == nil {
				return nil
			}
			if !anyArmed(p.arms) {
				break
			}
		}
	}
	w.free = false // from here on the driver fires the scans itself again (collect detaches)
	r := w.toSvc("collect", hx.T{})
	if r == nil {
		return nil
	}
	tick := hx.C("ETick", w.clock)
	var first, second []any
	for j, armed := range b.arms {
		switch {
		case !armed:
			first, second = append(first, "EIdle"), append(second, "EIdle")
		case b.lens[j] == 0:
			first, second = append(first, tick), append(second, "EIdle")
		default:
			first = append(first, tick)
			for i, e := range r.evs {
				if r.evInc[i] == j {
					first = append(first, e)
				}
			}
			second = append(second, tick)
		}
	}
	r.evs = append(first, second...)
	return r
}

// freeRunning: histories of the shape  (Do | Crash | Via)* ; Advance ; TickReal ; ...  are run
// with the real timers untouched up to and including that TickReal - no detach, no reattach -,
// so that a timer the code cancelled, lost or never armed is seen as such.  No response is
// processed before the TickReal, hence every armed timer has a non-empty table and a firing
// before the clock moves changes nothing.
func freeRunning(ops []hx.T) bool {
	for i, o := range ops {
		switch o.Name {
		case "Do", "Crash", "Via":
		case "Advance":
			return i+1 < len(ops) && ops[i+1].Name == "TickReal"
		default:
			return false
		}
	}
	return false
}

// Exec runs one op list against a fresh service/peer pair and returns one Obs per op.
func Exec(ops []hx.T) (obs []any, nontrivial bool) {
	w := newWorld()
	w.free = freeRunning(ops)
	defer w.close()
	for _, o := range ops {
		var r *result
		switch o.Name {
		case "Resp":
			// Resp id (K ghost answer): the ghost of the op is a wish, the ghost of the event is
			// what the peer did
			k := o.Term(1)
			var ghost int64
			r, ghost = w.toPeerResp("resp", o.Int(0), k.Int(0), k.Term(1))
			if r != nil {
				r.evs = append([]any{hx.C("EResp", respKey(w.crashes, o.Int(0)), hx.C("K", ghost, k.Args[1]))}, r.evs...)
			}
		case "RespNotify":
			r = w.toPeer("resp-notify", 0, hx.T{})
			if r != nil {
				r.evs = append([]any{"EIdle"}, r.evs...)
			}
		case "RespNoSender":
			r = w.toPeer("resp-nosender", o.Int(0), hx.T{})
			if r != nil {
				r.evs = append([]any{"EIdle"}, r.evs...)
			}
		case "DirectNotify":
			// a sender-less notification from outside any service, then a barrier through the peer
			var m interface{} = &messages.TestHello{I: -1}
			if o.Int(0) != 0 {
				m = &unserialisable{}
			}
			as.DirectSendNotify(system().Root, w.peerPID, "remote.Note", m)
			r = w.toPeer("fwd-barrier", 0, hx.T{})
			if r != nil {
				r.evs = append([]any{"EIdle"}, r.evs...)
			}
		case "TickReal":
			r = w.tickReal()
		case "Crash":
			r = w.crash()
		default:
			r = w.toSvc("op", o)
		}
		if r == nil {
			break // hang: the observation list stays short, which no model run matches
		}
		seen, ok := w.peerSeen()
		if !ok {
			break
		}
		peer := []any{}
		for _, s := range seen {
			peer = append(peer, hx.Pair{A: s[0], B: s[1]})
		}
		for _, e := range r.evs {
			if t, ok := e.(hx.T); ok && t.Name == "ECb" {
				if c, ok := t.Args[1].(string); !ok || c != "RNoService" {
					nontrivial = true
				}
			}
		}
		arms := []any{}
		for _, a := range r.arms {
			arms = append(arms, a)
		}
		obs = append(obs, hx.C("Obs", r.evs, hx.Norm(r.pend), arms, r.got, peer, r.onLoop))
	}
	return
}
