// Package c01 drives the real actorex/service.Service (embedded in a node-level
// NodeService) inside a local protoactor actor system: every operation is delivered as a
// message through the service's own mailbox, executes in the service context and is
// acknowledged on a channel before the next one.  A scripted peer - itself a real
// service.Service - receives the requests and answers on command through the real
// Service.Response (or with a hand-made ServiceResponse for ids it never saw / bodies that
// cannot be decoded).  Time is the virtual clock common.VerifSetNowMs.
package c01

import (
	"bytes"
	"fmt"
	"io"
	"log"
	"log/slog"
	"runtime"
	"strconv"
	"strings"
	"sync"
	"time"

	"github.com/asynkron/protoactor-go/actor"
	"github.com/asynkron/protoactor-go/remote"
	"github.com/sirupsen/logrus"

	as "github.com/dfklegend/cell2/actorex/service"
	messages "github.com/dfklegend/cell2/actorex/service/servicemsgs"
	"github.com/dfklegend/cell2/node/app"
	ns "github.com/dfklegend/cell2/node/service"
	"github.com/dfklegend/cell2/utils/common"
	"github.com/dfklegend/cell2/utils/logger"

	"verifh/hx"
)

const (
	clock0      = int64(1000000)
	ackTimeout  = 10 * time.Second
	noSuchRoute = "ghost.remote.method"
	noSuchParam = "c01-no-such-service"
)

// a message the proto serializer rejects ("msg must be proto.Message")
type unserialisable struct{ X int }

func gid() int64 {
	var buf [64]byte
	n := runtime.Stack(buf[:], false)
	f := bytes.Fields(buf[:n])
	if len(f) < 2 {
		return -1
	}
	v, err := strconv.ParseInt(string(f[1]), 10, 64)
	if err != nil {
		return -1
	}
	return v
}

// ---- messages of the driver

type opMsg struct {
	what string // "op" | "begin-real" | "probe" | "collect"
	op   hx.T
	ack  chan *result
}

type barrier struct{ ack chan *result }

type result struct {
	evs    []any
	pend   []int64
	armed  bool
	got    int64
	onLoop bool
}

type peerCmd struct {
	what string // "resp" | "resp-notify" | "resp-nosender" | "sync"
	id   int64
	kind hx.T
	ack  chan *result
	seen chan [][2]int64
}

// ---- the requesting service

type hsvc struct {
	*ns.NodeService
	w *world
}

func (h *hsvc) Receive(ctx actor.Context) {
	w := h.w
	switch m := ctx.Message().(type) {
	case *actor.Started:
		h.NodeService.Receive(ctx)
		w.loopGid = gid()
	case *opMsg:
		w.checkLoop()
		w.handle(m)
	case *barrier:
		w.checkLoop()
		m.ack <- w.collect()
	case *messages.ServiceResponse:
		w.checkLoop()
		w.got++
		h.NodeService.Receive(ctx)
	default:
		h.NodeService.Receive(ctx)
	}
}

// ---- the scripted peer

type peerSvc struct {
	*as.Service
	w        *world
	reqs     map[int32]*messages.ServiceRequest
	lastNote *messages.ServiceRequest
	seen     [][2]int64
}

func (p *peerSvc) Receive(ctx actor.Context) {
	switch m := ctx.Message().(type) {
	case *peerCmd:
		p.command(ctx, m)
		return
	}
	p.Service.Receive(ctx)
}

func (p *peerSvc) ReceiveRequest(ctx actor.Context, request *messages.ServiceRequest, rawMsg interface{}) {
	tag := int64(-2)
	if h, ok := rawMsg.(*messages.TestHello); ok {
		tag = int64(h.I)
	}
	p.seen = append(p.seen, [2]int64{int64(request.ReqId), tag})
	if request.ReqId == as.NotifyReqID {
		p.lastNote = request
	} else {
		p.reqs[request.ReqId] = request
	}
}

func (p *peerSvc) command(ctx actor.Context, c *peerCmd) {
	switch c.what {
	case "sync":
		s := p.seen
		p.seen = nil
		c.seen <- s
		return
	case "resp":
		p.respond(ctx, int32(c.id), c.kind)
	case "resp-notify":
		if p.lastNote != nil {
			p.Response(p.lastNote, as.CodeSucc, "", &messages.TestHello{I: 7})
		}
	case "resp-nosender":
		p.Response(&messages.ServiceRequest{Sender: nil, ReqId: int32(c.id)}, as.CodeSucc, "", &messages.TestHello{I: 7})
	}
	ctx.Send(p.w.svcPID, &barrier{ack: c.ack})
}

// respond answers request id: through the real Service.Response when the peer holds that
// request and the reply can be produced by it, otherwise with a hand-made ServiceResponse.
func (p *peerSvc) respond(ctx actor.Context, id int32, k hx.T) {
	req := p.reqs[id]
	switch k.Name {
	case "KOk":
		if req != nil {
			p.Response(req, as.CodeSucc, "", &messages.TestHello{I: int32(k.Int(0))})
			return
		}
		b, tn, _ := remote.Serialize(&messages.TestHello{I: int32(k.Int(0))}, as.DefaultSerializeId)
		ctx.Send(p.w.svcPID, &messages.ServiceResponse{ReqId: id, Type: tn, Body: b})
	case "KNil":
		if req != nil {
			p.Response(req, as.CodeSucc, "", nil)
			return
		}
		ctx.Send(p.w.svcPID, &messages.ServiceResponse{ReqId: id})
	case "KErr":
		info := fmt.Sprintf("E:%d", k.Int(0))
		if req != nil {
			p.Response(req, as.CodeErrString, info, nil)
			return
		}
		ctx.Send(p.w.svcPID, &messages.ServiceResponse{ReqId: id, ErrCode: as.CodeErrString, ErrInfo: info})
	case "KBad":
		if k.Int(0) == 0 {
			ctx.Send(p.w.svcPID, &messages.ServiceResponse{ReqId: id, Type: "c01.NoSuchType", Body: []byte{8, 1}})
		} else {
			ctx.Send(p.w.svcPID, &messages.ServiceResponse{ReqId: id, Type: "servicemsgs.TestHello", Body: []byte{0xff, 0xff, 0xff}})
		}
	default:
		panic("c01: unknown kind " + k.Name)
	}
}

// ---- one world per case

var (
	sysOnce sync.Once
	sys     *actor.ActorSystem
	serial  int
)

func system() *actor.ActorSystem {
	sysOnce.Do(func() {
		logger.GetLogProxy("default").SetLogLevel(logrus.PanicLevel)
		logger.GetLogProxy("exception").SetLogLevel(logrus.PanicLevel)
		log.SetOutput(io.Discard)
		sys = actor.NewActorSystem(actor.WithLoggerFactory(func(*actor.ActorSystem) *slog.Logger {
			return slog.New(slog.NewTextHandler(io.Discard, nil))
		}))
	})
	return sys
}

type world struct {
	svc     *hsvc
	peer    *peerSvc
	svcPID  *actor.PID
	peerPID *actor.PID
	clock   int64

	// touched only on the service goroutine
	loopGid int64
	evs     []any
	onLoop  bool
	got     int64
	nextTag int64
	issued  map[int64]bool
}

func newWorld() *world {
	w := &world{clock: clock0, onLoop: true, issued: map[int64]bool{}}
	common.VerifSetNowMs(w.clock)
	s := system()
	serial++
	pprops, _ := as.NewServicePropsWithNewScheDisp(func() actor.Actor {
		p := &peerSvc{Service: as.NewService(), w: w, reqs: map[int32]*messages.ServiceRequest{}}
		p.Service.InitReqReceiver(p)
		w.peer = p
		return p
	}, "")
	w.peerPID, _ = s.Root.SpawnNamed(pprops, fmt.Sprintf("c01-peer-%d", serial))
	sprops, _ := as.NewServicePropsWithNewScheDisp(func() actor.Actor {
		h := &hsvc{NodeService: ns.NewService(), w: w}
		w.svc = h
		return h
	}, "")
	sprops.Configure(actor.WithSenderMiddleware(w.senderMiddleware))
	w.svcPID, _ = s.Root.SpawnNamed(sprops, fmt.Sprintf("c01-svc-%d", serial))
	return w
}

func (w *world) close() {
	s := system()
	s.Root.StopFuture(w.svcPID).Wait()
	s.Root.StopFuture(w.peerPID).Wait()
	if w.svc != nil {
		w.svc.GetRunService().Stop()
	}
	if w.peer != nil {
		w.peer.GetRunService().Stop()
	}
}

// records every ServiceRequest the service hands to the transport, at the instant of the send
func (w *world) senderMiddleware(next actor.SenderFunc) actor.SenderFunc {
	return func(c actor.SenderContext, target *actor.PID, env *actor.MessageEnvelope) {
		if req, ok := env.Message.(*messages.ServiceRequest); ok {
			w.checkLoop()
			tag := int64(-2)
			if m, err := remote.Deserialize(req.Body, req.Type, as.DefaultSerializeId); err == nil {
				if h, ok := m.(*messages.TestHello); ok {
					tag = int64(h.I)
				}
			}
			id := int64(req.ReqId)
			if id != 0 && !w.issued[tag] && w.isPending(id) {
				// the wait is in the table while the request is being sent
				w.issued[tag] = true
				w.rec(hx.C("EIssue", tag, id, w.clock))
			}
			w.rec(hx.C("ESent", id, tag))
		}
		next(c, target, env)
	}
}

func (w *world) isPending(id int64) bool {
	for _, p := range w.svc.VerifPendingIds() {
		if int64(p) == id {
			return true
		}
	}
	return false
}

func (w *world) rec(e any) { w.evs = append(w.evs, e) }

func (w *world) checkLoop() {
	if gid() != w.loopGid {
		w.onLoop = false
	}
}

func (w *world) collect() *result {
	w.svc.VerifDetachTimer()
	r := &result{evs: w.evs, armed: w.svc.VerifTimerArmed(), got: w.got, onLoop: w.onLoop}
	for _, id := range w.svc.VerifPendingIds() {
		r.pend = append(r.pend, int64(id))
	}
	w.evs, w.got, w.onLoop = nil, 0, true
	return r
}

func classify(err error, msg interface{}) any {
	switch {
	case err == as.ErrTimeout:
		return "RTimeout"
	case err == app.ErrorNoService:
		return "RNoService"
	case err != nil && strings.HasPrefix(err.Error(), "E:"):
		if v, e := strconv.ParseInt(err.Error()[2:], 10, 64); e == nil {
			return hx.C("RErr", v)
		}
		return "RBad"
	case err != nil:
		return "RBad"
	case msg == nil:
		return "RNil"
	}
	if h, ok := msg.(*messages.TestHello); ok {
		return hx.C("RReply", int64(h.I))
	}
	return "RBad"
}

func (w *world) callback(tag int64, prog []hx.T) func(error, interface{}) {
	return func(err error, msg interface{}) {
		w.checkLoop()
		w.rec(hx.C("ECb", tag, classify(err, msg)))
		for _, a := range prog {
			w.execAct(a)
		}
	}
}

func (w *world) execAct(a hx.T) {
	switch a.Name {
	case "AReq", "AUnser":
		tag := w.nextTag
		w.nextTag++
		var msg interface{} = &messages.TestHello{I: int32(tag)}
		if a.Name == "AUnser" {
			msg = &unserialisable{X: int(tag)}
		}
		w.svc.Request(w.peerPID, msg, w.callback(tag, hx.Terms(a.Args[0])))
		if !w.issued[tag] {
			// nothing was sent while the wait was in the table: look for it now
			id := int64(w.svc.VerifNextId())
			if w.isPending(id) {
				w.issued[tag] = true
				w.rec(hx.C("EIssue", tag, id, w.clock))
			}
		}
	case "ANotify":
		w.svc.Notify(w.peerPID, &messages.TestHello{I: -1})
	case "ANoRoute":
		tag := w.nextTag
		w.nextTag++
		w.rec(hx.C("ENoRoute", tag))
		app.Request(w.svc.NodeService, noSuchRoute, noSuchParam, &messages.TestHello{I: int32(tag)},
			w.callback(tag, hx.Terms(a.Args[0])))
	default:
		panic("c01: unknown act " + a.Name)
	}
}

// handle runs on the service goroutine
func (w *world) handle(m *opMsg) {
	switch m.what {
	case "begin-real":
		w.svc.VerifReattachTimer()
		m.ack <- &result{armed: w.svc.VerifTimerArmed(), pend: make([]int64, w.svc.VerifPendingLen())}
		return
	case "probe":
		m.ack <- &result{armed: w.svc.VerifTimerArmed()}
		return
	case "collect":
		m.ack <- w.collect()
		return
	}
	o := m.op
	switch o.Name {
	case "Do":
		w.rec("EDo")
		w.execAct(o.Term(0))
	case "Tick":
		if w.svc.VerifTimerArmed() {
			w.rec(hx.C("ETick", w.clock))
			w.svc.VerifCheckExpired()
		} else {
			w.rec("EIdle")
		}
	case "Advance":
		w.rec("EIdle")
		if dt := o.Int(0); dt >= 0 {
			w.clock += dt
			common.VerifSetNowMs(w.clock)
		}
	case "SetNext":
		w.rec("EIdle")
		if v := o.Int(0); v >= 0 && v <= int64(as.MaxReqId) && w.svc.VerifPendingLen() == 0 {
			w.svc.VerifSetNextId(int32(v))
		}
	default:
		panic("c01: unknown op " + o.Name)
	}
	m.ack <- w.collect()
}

func wait(ch chan *result) *result {
	select {
	case r := <-ch:
		return r
	case <-time.After(ackTimeout):
		return nil
	}
}

func (w *world) toSvc(what string, op hx.T) *result {
	ack := make(chan *result, 1)
	system().Root.Send(w.svcPID, &opMsg{what: what, op: op, ack: ack})
	return wait(ack)
}

func (w *world) toPeer(what string, id int64, kind hx.T) *result {
	ack := make(chan *result, 1)
	system().Root.Send(w.peerPID, &peerCmd{what: what, id: id, kind: kind, ack: ack})
	return wait(ack)
}

func (w *world) peerSeen() ([][2]int64, bool) {
	ch := make(chan [][2]int64, 1)
	system().Root.Send(w.peerPID, &peerCmd{what: "sync", seen: ch})
	select {
	case s := <-ch:
		return s, true
	case <-time.After(ackTimeout):
		return nil, false
	}
}

// tickReal lets the service's real 1s timer run the scan (instead of VerifCheckExpired)
// until it disarms itself, or for 3.5 s, which is at least two firings.
func (w *world) tickReal() *result {
	b := w.toSvc("begin-real", hx.T{})
	if b == nil {
		return nil
	}
	if !b.armed {
		r := w.toSvc("collect", hx.T{})
		if r != nil {
			r.evs = append([]any{"EIdle", "EIdle"}, r.evs...)
		}
		return r
	}
	deadline := time.Now().Add(3500 * time.Millisecond)
	for time.Now().Before(deadline) {
		time.Sleep(20 * time.Millisecond)
		p := w.toSvc("probe", hx.T{})
		if p == nil {
			return nil
		}
		if !p.armed {
			break
		}
	}
	r := w.toSvc("collect", hx.T{})
	if r == nil {
		return nil
	}
	tick := hx.C("ETick", w.clock)
	if len(b.pend) == 0 {
		r.evs = append([]any{tick, "EIdle"}, r.evs...)
	} else {
		r.evs = append(append([]any{tick}, r.evs...), tick)
	}
	return r
}

// Exec runs one op list against a fresh service/peer pair and returns one Obs per op.
func Exec(ops []hx.T) (obs []any, nontrivial bool) {
	w := newWorld()
	defer w.close()
	for _, o := range ops {
		var r *result
		switch o.Name {
		case "Resp":
			r = w.toPeer("resp", o.Int(0), o.Term(1))
			if r != nil {
				r.evs = append([]any{hx.C("EResp", o.Int(0), o.Args[1])}, r.evs...)
			}
		case "RespNotify":
			r = w.toPeer("resp-notify", 0, hx.T{})
			if r != nil {
				r.evs = append([]any{"EIdle"}, r.evs...)
			}
		case "RespNoSender":
			r = w.toPeer("resp-nosender", o.Int(0), hx.T{})
			if r != nil {
				r.evs = append([]any{"EIdle"}, r.evs...)
			}
		case "TickReal":
			r = w.tickReal()
		default:
			r = w.toSvc("op", o)
		}
		if r == nil {
			break // hang: the observation list stays short, which no model run matches
		}
		seen, ok := w.peerSeen()
		if !ok {
			break
		}
		peer := []any{}
		for _, s := range seen {
			peer = append(peer, hx.Pair{A: s[0], B: s[1]})
		}
		for _, e := range r.evs {
			if t, ok := e.(hx.T); ok && t.Name == "ECb" {
				if c, ok := t.Args[1].(string); !ok || c != "RNoService" {
					nontrivial = true
				}
			}
		}
		obs = append(obs, hx.C("Obs", r.evs, hx.Norm(r.pend), r.armed, r.got, peer, r.onLoop))
	}
	return
}
