package c01

import (
	"math/rand"
	"sort"

	"verifh/hx"
)

const (
	maxReqID = int64(0x7FFFFFF0)
	timeout  = int64(30000)
)

// shadow of the pending table, used only to aim responses and clock steps (late,
// duplicate, unknown ids; deadlines exactly equal to now).  It is not an oracle.
type shEntry struct {
	dl   int64
	prog []hx.T
	via  int64
	tag  int64 // the request's tag (issue order)
	sent bool  // it reached the peer (not an unserialisable one)
}

// one incarnation of the requesting actor: its own table, allocator and timer flag
type shInc struct {
	pend  map[int64]shEntry
	next  int64
	armed bool
}

type shadow struct {
	*shInc          // the live incarnation
	old    []*shInc // the replaced ones: their tables are still scanned by their own timers
	done   []int64  // ids completed so far (live or replaced incarnations)
	clock  int64
	via    int64
	ntags  int64 // tags handed out so far (requests with a callback, in issue order)
	// what the peer holds: request id and incarnation of every tagged request it received, and the
	// last one received under each id
	sentId  map[int64]int64
	sentInc map[int64]int
	latest  map[int64]int64
}

func newInc() *shInc { return &shInc{pend: map[int64]shEntry{}} }

func newShadow() *shadow {
	return &shadow{shInc: newInc(), clock: clock0, sentId: map[int64]int64{}, sentInc: map[int64]int{}, latest: map[int64]int64{}}
}

func (s *shadow) incIndex(in *shInc) int {
	for i, o := range s.old {
		if o == in {
			return i
		}
	}
	return len(s.old)
}

// hijack: would a response under request id `id`, the peer answering the request tagged `ghost`
// (or, ghost < 0, the last one it received under that id), complete a request of the live
// incarnation although the peer answers one of a replaced incarnation?  That is finding F24.
func (s *shadow) hijack(id, ghost int64) bool {
	e, ok := s.pend[id]
	if !ok {
		return false
	}
	t, have := ghost, false
	if rid, ok := s.sentId[ghost]; ok && ghost >= 0 && rid == id {
		have = true
	} else if lt, ok := s.latest[id]; ok {
		t, have = lt, true
	}
	return have && t != e.tag && s.sentInc[t] < len(s.old)
}

// user actions run on the incarnation whose code issues them (a callback acts on the
// incarnation that issued its request)
func (s *shadow) exec(in *shInc, a hx.T) {
	switch a.Name {
	case "AReq", "AUnser":
		if in.next >= maxReqID {
			in.next = 0
		}
		in.next++
		in.pend[in.next] = shEntry{s.clock + timeout, hx.Terms(a.Args[0]), s.via, s.ntags, a.Name == "AReq"}
		if a.Name == "AReq" {
			s.sentId[s.ntags], s.sentInc[s.ntags], s.latest[in.next] = in.next, s.incIndex(in), s.ntags
		}
		s.ntags++
		in.armed = true
	case "ANoRoute":
		s.ntags++
		for _, x := range hx.Terms(a.Args[0]) {
			s.exec(in, x)
		}
	case "ARep":
		for i := int64(0); i < a.Int(0); i++ {
			s.exec(in, a.Term(1))
		}
	}
}

func (s *shadow) fire(in *shInc, id int64) {
	e, ok := in.pend[id]
	if !ok {
		return
	}
	for _, x := range e.prog {
		s.exec(in, x)
	}
	delete(in.pend, id)
	s.done = append(s.done, id)
}

func (s *shadow) all() []*shInc { return append(append([]*shInc{}, s.old...), s.shInc) }

func (s *shadow) tick() {
	for _, in := range s.all() {
		if !in.armed {
			continue
		}
		if len(in.pend) == 0 {
			in.armed = false
			continue
		}
		for _, id := range idsOf(in) {
			if in.pend[id].dl < s.clock {
				s.fire(in, id)
			}
		}
	}
}

func idsOf(in *shInc) []int64 {
	ids := make([]int64, 0, len(in.pend))
	for id := range in.pend {
		ids = append(ids, id)
	}
	sort.Slice(ids, func(i, j int) bool { return ids[i] < ids[j] })
	return ids
}

// ids pending in the live incarnation
func (s *shadow) ids() []int64 { return idsOf(s.shInc) }

// ids pending in replaced incarnations (a response carrying one goes to the live incarnation)
func (s *shadow) oldIds() []int64 {
	var ids []int64
	for _, in := range s.old {
		ids = append(ids, idsOf(in)...)
	}
	return ids
}

// a request pending in a replaced incarnation: its id and, if the peer has it, its tag
func (s *shadow) pickOld(r *rand.Rand) (id, ghost int64) {
	type cand struct{ id, ghost int64 }
	var cs []cand
	for _, in := range s.old {
		for _, i := range idsOf(in) {
			g := int64(-1)
			if e := in.pend[i]; e.sent {
				g = e.tag
			}
			cs = append(cs, cand{i, g})
		}
	}
	c := hx.Pick(r, cs)
	return c.id, c.ghost
}

func (s *shadow) deadlines() []int64 {
	var ds []int64
	for _, in := range s.all() {
		for _, id := range idsOf(in) {
			ds = append(ds, in.pend[id].dl)
		}
	}
	return ds
}

func (s *shadow) total() int { return len(s.deadlines()) }

func (s *shadow) apply(o hx.T) {
	switch o.Name {
	case "Do":
		s.exec(s.shInc, o.Term(0))
	case "Resp":
		s.fire(s.shInc, o.Int(0))
	case "Tick":
		s.tick()
	case "TickReal":
		s.tick()
		s.tick()
	case "Advance":
		if o.Int(0) >= 0 {
			s.clock += o.Int(0)
		}
	case "SetNext":
		if v := o.Int(0); v >= 0 && v <= maxReqID && s.total() == 0 {
			s.next = v
		}
	case "Via":
		s.via = 0
		if v := o.Int(0); v >= 0 && v <= 5 {
			s.via = v
		}
	case "Crash":
		s.old = append(s.old, s.shInc)
		s.shInc = newInc()
	}
}

func list(xs ...hx.T) []any {
	r := make([]any, len(xs))
	for i, x := range xs {
		r[i] = x
	}
	return r
}

func tick() hx.T  { return hx.C("Tick", []any{}) }
func crash() hx.T { return hx.T{Name: "Crash"} }

func genProg(r *rand.Rand, depth int, tags map[string]bool) []any {
	if depth == 0 || r.Intn(100) < 60 {
		return []any{}
	}
	tags["reentrant"] = true
	n := 1 + r.Intn(3)
	out := []any{}
	for i := 0; i < n; i++ {
		out = append(out, genAct(r, depth-1, tags))
	}
	return out
}

func genAct(r *rand.Rand, depth int, tags map[string]bool) hx.T {
	switch p := r.Intn(100); {
	case p < 4 && depth == 2:
		// a bulk of requests with one callback programme (only as a top-level action)
		tags["bulk"] = true
		n := int64(2 + r.Intn(30))
		return hx.C("ARep", n, hx.C("AReq", genProg(r, 1, tags)))
	case p < 66:
		return hx.C("AReq", genProg(r, depth, tags))
	case p < 76:
		tags["unser"] = true
		return hx.C("AUnser", genProg(r, depth, tags))
	case p < 85:
		tags["notify"] = true
		return hx.T{Name: "ANotify"}
	case p < 89:
		tags["notify-noroute"] = true
		return hx.T{Name: "ANotifyNR"}
	default:
		tags["noroute"] = true
		return hx.C("ANoRoute", genProg(r, depth, tags))
	}
}

// ---- kinds of responses (Model.v: kind / pmsg / wire)

const (
	maxI32 = int64(2147483647)
	minI32 = int64(-2147483648)
)

// Resp id (K ghost answer): ghost = tag of the request the peer is asked to answer (-1: whichever
// request it holds under that id, if any)
func respOp(id, ghost int64, answer any) hx.T {
	return hx.C("Resp", id, hx.C("K", ghost, answer))
}

func ans(code, info int64, m any) hx.T { return hx.C("KAns", code, info, m) }
func hello(i, s int64) hx.T            { return hx.C("MHello", i, s) }
func okHello(i, s int64) hx.T          { return ans(0, 0, hello(i, s)) }
func remoteErr(e int64) hx.T           { return ans(999, e, "MNil") }
func raw(code, info int64, t string, b any) hx.T {
	return hx.C("KRaw", hx.C("Wire", code, info, t, b))
}
func fields(i, s int64) hx.T { return hx.C("BFields", i, s) }

var (
	noMethod    = ans(999, -1, "MNil") // a held request to a missing method: the dispatcher answers itself
	unknownType = raw(0, 0, "TyUnknown", fields(8, 0))
	corruptBody = raw(0, 0, "TyHello", "BJunk")
	errCodes    = []int64{999, 1, -1, 1000, maxI32, minI32}
	tyNames     = []string{"TyNone", "TyHello", "TyEmpty", "TyUnknown"}
)

// field values: the proto3 default (which is not encoded at all) a third of the time
func genI(r *rand.Rand) int64 {
	switch p := r.Intn(100); {
	case p < 34:
		return 0
	case p < 60:
		return hx.Pick(r, []int64{1, -1, 127, 128, maxI32, minI32})
	}
	return int64(r.Intn(1000)) + 2
}

func genS(r *rand.Rand) int64 {
	if r.Intn(100) < 60 {
		return 0
	}
	return 1 + int64(r.Intn(7))
}

func genMsg(r *rand.Rand, tags map[string]bool) any {
	switch p := r.Intn(100); {
	case p < 12:
		tags["reply-nil"] = true
		return "MNil"
	case p < 20:
		tags["reply-typed-nil"] = true
		return "MTypedNil"
	case p < 28:
		tags["reply-empty-message-type"] = true
		return "MEmpty"
	}
	i, s := genI(r), genS(r)
	if i == 0 && s == 0 {
		tags["reply-all-default"] = true
	}
	if s != 0 {
		tags["reply-string"] = true
	}
	return hello(i, s)
}

func genBody(r *rand.Rand) any {
	switch p := r.Intn(100); {
	case p < 40:
		return fields(0, 0)
	case p < 75:
		return fields(genI(r), genS(r))
	}
	return "BJunk"
}

func genKind(r *rand.Rand, tags map[string]bool) any {
	switch p := r.Intn(100); {
	case p < 58: // Response(req, CodeSucc, <ignored text>, msg)
		info := int64(0)
		if r.Intn(8) == 0 {
			tags["ok-with-errinfo"] = true
			info = 1 + int64(r.Intn(49))
		}
		return ans(0, info, genMsg(r, tags))
	case p < 78: // Response(req, code, text, <ignored msg>)
		tags["remote-err"] = true
		info := 1 + int64(r.Intn(49))
		if r.Intn(5) == 0 {
			tags["err-empty-text"] = true
			info = 0
		}
		var m any = "MNil"
		if r.Intn(10) < 3 {
			tags["err-with-msg"] = true
			m = genMsg(r, map[string]bool{})
		}
		return ans(hx.Pick(r, errCodes), info, m)
	}
	// a hand-made ServiceResponse: every combination of fields
	tags["raw"] = true
	code := int64(0)
	if r.Intn(10) < 3 {
		code = hx.Pick(r, errCodes)
	}
	info := int64(0)
	if r.Intn(3) == 0 {
		info = 1 + int64(r.Intn(49))
	}
	t, b := hx.Pick(r, tyNames), genBody(r)
	f, isFields := b.(hx.T)
	empty := isFields && f.Int(0) == 0 && f.Int(1) == 0
	switch {
	case code != 0 && (t != "TyNone" || !empty):
		tags["err-with-body"] = true
	case code != 0:
	case t == "TyUnknown" || (t != "TyNone" && !isFields):
		tags["undecodable"] = true
	case t == "TyNone" && !empty:
		tags["body-without-type"] = true
	case t != "TyNone" && empty:
		tags["typed-empty-body"] = true
	}
	return raw(code, info, t, b)
}

func tagList(tags map[string]bool) []string {
	var tl []string
	for t := range tags {
		tl = append(tl, t)
	}
	sort.Strings(tl)
	return tl
}

// random history
func gen(r *rand.Rand, maxLen int) ([]hx.T, []string) {
	tags := map[string]bool{}
	sh := newShadow()
	var ops []hx.T
	skipped := 0
	push := func(o hx.T) {
		if o.Name == "Resp" && sh.hijack(o.Int(0), o.Term(1).Int(0)) {
			// finding F24 (the monitor fails on it, by design): keep such histories few and
			// short - the corpus has the minimal one
			if len(ops) > 10 || r.Intn(4) > 0 {
				if skipped++; skipped < 50 {
					return
				}
			}
			tags["restart-id-reuse"] = true
		}
		ops = append(ops, o)
		sh.apply(o)
	}
	if r.Intn(4) == 0 {
		tags["wrap"] = true
		push(hx.C("SetNext", maxReqID-int64(r.Intn(4))))
	}
	setVia := func() {
		v := int64(r.Intn(6))
		tags[[]string{"via-direct", "via-default-route", "via-route-func-nomethod", "via-route-func-silent",
			"via-querysession", "via-kick"}[v]] = true
		push(hx.C("Via", v))
	}
	if r.Intn(10) < 7 {
		setVia()
	}
	n := 1 + r.Intn(maxLen)
	many := r.Intn(5) == 0
	restarty := r.Intn(3) == 0 // a third of the histories restart the requester more eagerly
	crashes := 0
	for len(ops) < n {
		p := r.Intn(100)
		if many && len(ops) < n/2 {
			p = r.Intn(40)
		}
		switch {
		case p < 34:
			push(hx.C("Do", genAct(r, 2, tags)))
		case p < 54: // response for a pending id
			ids := sh.ids()
			if len(ids) == 0 {
				continue
			}
			id := hx.Pick(r, ids)
			ghost := int64(-1)
			if e := sh.pend[id]; e.sent && r.Intn(10) < 6 {
				ghost = e.tag // name the request the peer answers
			}
			if sh.pend[id].via == 2 && r.Intn(3) > 0 {
				// let the peer's dispatcher answer "no method" itself
				tags["dispatch-no-method"] = true
				push(respOp(id, ghost, noMethod))
			} else {
				push(respOp(id, ghost, genKind(r, tags)))
			}
		case p < 60: // duplicate / late: an id already completed
			if len(sh.done) == 0 {
				continue
			}
			id := sh.done[len(sh.done)-1]
			if r.Intn(2) == 0 {
				id = hx.Pick(r, sh.done)
				tags["late"] = true
			} else {
				tags["dup"] = true
			}
			if _, again := sh.pend[id]; again {
				continue
			}
			push(respOp(id, -1, genKind(r, tags)))
		case p < 64: // unknown id
			id := int64(r.Intn(40))
			if r.Intn(3) == 0 {
				id = sh.next + 1 + int64(r.Intn(3))
			}
			if _, ok := sh.pend[id]; ok {
				continue
			}
			tags["unknown"] = true
			push(respOp(id, -1, genKind(r, tags)))
		case p < 76:
			dt := int64(r.Intn(2000))
			dls := sh.deadlines()
			if len(dls) > 0 && r.Intn(2) == 0 {
				// land exactly on, one before or one after some deadline (of any incarnation)
				d := hx.Pick(r, dls) - sh.clock + int64(r.Intn(3)) - 1
				if d >= 0 {
					dt = d
					tags["boundary"] = true
				}
			}
			if r.Intn(8) == 0 {
				dt = timeout + 1 + int64(r.Intn(5))
			}
			push(hx.C("Advance", dt))
		case p < 88:
			before := len(sh.done)
			push(tick())
			if len(sh.done) > before {
				tags["timeout"] = true
			}
			if len(sh.done) > before+1 {
				tags["multi-timeout"] = true
			}
		case p < 93 && crashes < 3 && (restarty || r.Intn(4) == 0):
			// a handler of the requesting service panics: restart with whatever is outstanding
			crashes++
			tags["restart"] = true
			if sh.total() > 0 {
				tags["restart-outstanding"] = true
			}
			push(hx.T{Name: "Crash"})
		case p < 95 && len(sh.oldIds()) > 0:
			// the peer answers a request of a replaced incarnation: the live one processes it
			id, ghost := sh.pickOld(r)
			if _, both := sh.pend[id]; both {
				// ... and has a request of its own under that id: answering the OLD request is
				// finding F24 (see push); else the peer answers the one it received last
				if r.Intn(2) == 0 {
					ghost = -1
				}
				tags["restart-same-id"] = true
			} else {
				tags["resp-after-restart"] = true
			}
			push(respOp(id, ghost, genKind(r, tags)))
		case p < 96:
			tags["resp-notify"] = true
			push(hx.T{Name: "RespNotify"})
		case p < 97:
			tags["direct-notify"] = true
			push(hx.C("DirectNotify", int64(r.Intn(2))))
		case p < 98:
			setVia()
		default:
			tags["resp-nosender"] = true
			push(hx.C("RespNoSender", int64(r.Intn(6))))
		}
	}
	if r.Intn(10) < 6 {
		// complete the history: a scan after every deadline, until nothing is left
		tags["complete"] = true
		for i := 0; i < 4 && (sh.total() > 0 || i == 0); i++ {
			push(hx.C("Advance", timeout+1))
			push(tick())
		}
		push(tick())
	}
	if many {
		tags["many"] = true
	}
	return ops, tagList(tags)
}

// deadline boundary: strict <
func boundaryCases() [][]hx.T {
	req := hx.C("Do", hx.C("AReq", []any{}))
	reqRe := hx.C("Do", hx.C("AReq", list(hx.C("AReq", []any{}), hx.T{Name: "ANotify"})))
	unser := hx.C("Do", hx.C("AUnser", []any{}))
	adv := func(d int64) hx.T { return hx.C("Advance", d) }
	ok := func(id int64) hx.T { return respOp(id, -1, okHello(id%1000+1, 0)) }
	return [][]hx.T{
		{req, adv(timeout), tick(), adv(1), tick(), tick()},
		{req, adv(timeout - 1), tick(), adv(1), tick(), adv(1), tick(), tick()},
		{req, adv(5), req, adv(timeout - 5), tick(), adv(1), tick(), adv(5), tick(), tick()},
		{req, adv(timeout + 1), ok(1), tick(), tick()},
		{req, adv(timeout + 1), tick(), ok(1), tick()},
		{reqRe, adv(timeout + 1), tick(), adv(timeout), tick(), adv(1), tick(), tick()},
		{unser, adv(timeout), tick(), adv(1), tick(), tick()},
		{unser, req, ok(2), adv(timeout + 1), tick(), tick()},
		{hx.C("SetNext", maxReqID-1), req, req, req, ok(maxReqID), ok(1), ok(2), ok(maxReqID), tick()},
		{hx.C("SetNext", maxReqID), req, hx.C("SetNext", 7), ok(1), hx.C("SetNext", maxReqID-1), req, req},
		{hx.C("Do", hx.T{Name: "ANotify"}), hx.T{Name: "RespNotify"}, hx.C("RespNoSender", 1), req, hx.C("RespNoSender", 1), tick()},
		{hx.C("Do", hx.C("ANoRoute", list(hx.C("AReq", []any{}), hx.C("ANoRoute", list(hx.C("AUnser", []any{})))))),
			ok(1), respOp(2, -1, unknownType), adv(timeout + 1), tick(), tick()},
		{req, req, req, respOp(2, -1, unknownType), respOp(1, -1, corruptBody), respOp(3, -1, remoteErr(4)),
			respOp(3, -1, ans(0, 0, "MNil")), tick()},
	}
}

// the value delivered to the callback, exhaustively over the field boundaries: every answer
// (code 0 / CodeErrString / negative) x (empty / non-empty error text) x (nil, typed nil,
// all-default, only-string, only-int, both, empty message type) through each way of producing
// it (Service.Response of a received request; the API completion closure; QuerySession), and
// every hand-made response (code) x (text) x (type) x (empty / string-only / int-only / both /
// junk body).  Each history: one request per kind, the answers in order, then a duplicate of the
// first answer with ANOTHER kind (discarded), then the completing suffix.
func valueKinds() (answers, raws []hx.T) {
	msgs := []any{"MNil", "MTypedNil", hello(0, 0), hello(0, 1), hello(5, 0), hello(-1, 2), hello(minI32, 3), "MEmpty"}
	for _, code := range []int64{0, 999, -1} {
		for _, info := range []int64{0, 3} {
			for _, m := range msgs {
				answers = append(answers, ans(code, info, m))
			}
			for _, t := range tyNames {
				for _, b := range []any{fields(0, 0), fields(0, 1), fields(5, 0), fields(-1, 2), "BJunk"} {
					raws = append(raws, raw(code, info, t, b))
				}
			}
		}
	}
	return
}

func valueCases() [][]hx.T {
	req := hx.C("Do", hx.C("AReq", []any{}))
	answers, raws := valueKinds()
	var out [][]hx.T
	pack := func(via int64, ks []hx.T, other hx.T) {
		const per = 6
		for i := 0; i < len(ks); i += per {
			chunk := ks[i:min(i+per, len(ks))]
			ops := []hx.T{hx.C("Via", via)}
			for range chunk {
				ops = append(ops, req)
			}
			for j, k := range chunk {
				ops = append(ops, respOp(int64(j+1), -1, k))
			}
			ops = append(ops, respOp(1, -1, other), hx.C("Advance", timeout+1), tick(), tick())
			out = append(out, ops)
		}
	}
	for _, via := range []int64{0, 1, 4} {
		pack(via, answers, raws[len(out)%len(raws)])
	}
	pack(0, raws, okHello(9, 0))
	return out
}

// MANY outstanding requests: n requests issued in bulk (ARep n a = the action a, n times) that
// all expire in ONE scan, whose timeout callbacks issue follow-up requests (retries) from inside
// the scan - at every position of it, or only at some (two bulks with different programmes) -,
// then replies for the first / last follow-up and a later expiry for the rest.  n runs over
// 1, 2, 100, 1023, 1024 (quick) plus 1025, 3000 and mixed 1020+5 / 2000+50 (thorough).
func bulkCases(tier string) [][]hx.T {
	retry := hx.C("AReq", list(hx.C("AReq", []any{})))
	retryMore := hx.C("AReq", list(hx.C("AReq", []any{}), hx.T{Name: "ANotify"}, hx.C("ANoRoute", list(hx.C("AReq", []any{})))))
	plain := hx.C("AReq", []any{})
	bulk := func(n int64, a hx.T) hx.T { return hx.C("Do", hx.C("ARep", n, a)) }
	adv := hx.C("Advance", timeout+1)
	var out [][]hx.T
	one := func(n int64) {
		// n requests with a retry each; ids 1..n, the retries get n+1..2n in scan order
		out = append(out, []hx.T{bulk(n, retry), adv, tick(), respOp(n+1, -1, okHello(0, 0)), respOp(2*n, -1, remoteErr(3)),
			respOp(1, -1, okHello(1, 0)), adv, tick(), tick()})
	}
	sizes := []int64{1, 2, 100, 1023, 1024}
	if tier == "thorough" {
		sizes = append(sizes, 1025, 3000)
	}
	for _, n := range sizes {
		one(n)
	}
	// retries only at some positions of a big scan; a second scan big enough on its own
	mixed := func(n, k int64) {
		out = append(out, []hx.T{bulk(n, plain), bulk(k, retryMore), bulk(3, plain), adv, tick(),
			respOp(n+k+4, -1, okHello(7, 1)), adv, tick(), tick()})
	}
	mixed(60, 5)
	if tier == "thorough" {
		mixed(1020, 5)
		mixed(2000, 50)
		out = append(out, []hx.T{bulk(1100, retry), adv, tick(), adv, tick(), crash(), bulk(1100, retry), adv, tick(), adv, tick(), tick()})
	}
	return out
}

// restarts of the requesting actor (a handler panics, the supervisor restarts it, the producer
// builds a fresh Service): requests outstanding at the restart, replies that arrive after it
// (for the live incarnation: unknown, or - ids start again at 1 - a request of its own),
// retries issued from the timeout callbacks of a replaced incarnation, restarts in a row, at
// the deadline boundary, at the allocator's wrap, through every way of reaching the peer.
func restartCases() [][]hx.T {
	req := hx.C("Do", hx.C("AReq", []any{}))
	reqRe := hx.C("Do", hx.C("AReq", list(hx.C("AReq", []any{}), hx.T{Name: "ANotify"})))
	reqNR := hx.C("Do", hx.C("AReq", list(hx.C("ANoRoute", list(hx.C("AReq", []any{}))))))
	unser := hx.C("Do", hx.C("AUnser", []any{}))
	note := hx.C("Do", hx.T{Name: "ANotify"})
	adv := func(d int64) hx.T { return hx.C("Advance", d) }
	resp := func(id int64, k any) hx.T { return respOp(id, -1, k) }
	out := [][]hx.T{
		{req, req, crash(), adv(timeout + 1), tick(), tick()},
		{req, crash(), tick(), adv(timeout), tick(), adv(1), tick(), tick()},
		{reqRe, crash(), adv(timeout + 1), tick(), resp(2, okHello(7, 0)), adv(timeout + 1), tick(), tick()},
		{req, req, crash(), req, resp(1, okHello(5, 1)), resp(1, okHello(5, 1)), resp(2, okHello(6, 0)), adv(timeout + 1), tick(), tick()},
		{req, crash(), req, crash(), req, resp(1, remoteErr(4)), adv(timeout + 1), tick(), tick()},
		{crash(), req, resp(1, okHello(0, 0)), tick(), tick()},
		{crash(), crash(), crash(), tick()},
		{unser, crash(), unser, adv(timeout + 1), tick(), tick()},
		{reqNR, crash(), adv(timeout + 1), tick(), adv(timeout + 1), tick(), tick()},
		{hx.C("SetNext", maxReqID-1), req, req, crash(), req, resp(maxReqID, okHello(1, 0)), resp(1, okHello(2, 0)),
			resp(1, okHello(3, 0)), adv(timeout + 1), tick(), tick()},
		{req, adv(5), crash(), req, adv(timeout - 5), tick(), adv(1), tick(), adv(5), tick(), tick()},
		{req, crash(), hx.C("SetNext", 7), req, adv(timeout + 1), tick(), hx.C("SetNext", 7), req, tick()},
		{req, note, crash(), hx.T{Name: "RespNotify"}, hx.C("RespNoSender", 1), resp(1, corruptBody), adv(timeout + 1), tick(), tick()},
	}
	for v := int64(0); v <= 5; v++ {
		out = append(out, []hx.T{hx.C("Via", v), req, note, crash(), req, note, resp(1, okHello(11, 0)), resp(1, noMethod),
			hx.C("Via", (v+2)%6), req, crash(), resp(2, okHello(12, 2)), adv(timeout + 1), tick(), tick()})
	}
	return out
}

// the routed branch of app.Request / app.Notify and the peer's API dispatcher
func routedCases() [][]hx.T {
	req := hx.C("Do", hx.C("AReq", []any{}))
	reqRe := hx.C("Do", hx.C("AReq", list(hx.C("AReq", []any{}), hx.T{Name: "ANotify"}, hx.T{Name: "ANotifyNR"}, hx.C("ANoRoute", []any{}))))
	note := hx.C("Do", hx.T{Name: "ANotify"})
	noteNR := hx.C("Do", hx.T{Name: "ANotifyNR"})
	nr := hx.C("Do", hx.C("ANoRoute", list(hx.C("AReq", []any{}))))
	unser := hx.C("Do", hx.C("AUnser", []any{}))
	resp := func(id int64, k any) hx.T { return respOp(id, -1, k) }
	var out [][]hx.T
	for v := int64(0); v <= 5; v++ {
		out = append(out,
			[]hx.T{hx.C("Via", v), req, reqRe, note, noteNR, nr, unser,
				resp(1, okHello(11, 0)), resp(1, okHello(11, 0)), resp(2, noMethod), resp(3, ans(0, 0, "MNil")),
				resp(4, remoteErr(7)), hx.C("DirectNotify", 0), hx.T{Name: "RespNotify"}, hx.C("DirectNotify", 1),
				hx.C("RespNoSender", 3), hx.C("Advance", timeout+1), tick(), tick()},
			[]hx.T{hx.C("Via", v), req, hx.C("Via", (v+1)%6), req, hx.C("Via", (v+3)%6), req, note,
				resp(3, noMethod), resp(2, noMethod), resp(1, noMethod),
				resp(2, corruptBody), hx.C("Advance", timeout+1), tick(), tick()},
		)
	}
	return out
}

func realTimerCases(tier string) [][]hx.T {
	req := hx.C("Do", hx.C("AReq", []any{}))
	reqRe := hx.C("Do", hx.C("AReq", list(hx.C("AReq", []any{}))))
	real := hx.C("TickReal", []any{})
	reqNote := hx.C("Do", hx.C("AReq", list(hx.T{Name: "ANotify"}, hx.C("ANoRoute", []any{}))))
	cs := [][]hx.T{
		{req, reqNote, hx.C("Advance", timeout+1), real, tick()},
		// the REAL timer of a replaced incarnation is what completes the requests it left behind
		{req, reqNote, crash(), crash(), req, hx.C("Advance", timeout+1), real, tick()},
	}
	if tier == "thorough" {
		cs = append(cs,
			[]hx.T{reqRe, crash(), hx.C("Advance", timeout+1), real, hx.C("Advance", timeout+1), real, tick()},
			[]hx.T{req, reqRe, hx.C("Advance", timeout+1), real, tick()},
			[]hx.T{hx.C("Do", hx.C("AUnser", []any{})), hx.C("Advance", timeout+1), real},
			[]hx.T{real, req, respOp(1, -1, ans(0, 0, "MNil")), real, real},
		)
	}
	return cs
}

// exhaustive small scope: all op sequences of length L over a small alphabet, followed by
// a completing suffix
func enumerate(L int, emit func([]hx.T)) {
	alpha := []hx.T{
		hx.C("Do", hx.C("AReq", []any{})),
		hx.C("Do", hx.C("AReq", list(hx.C("AReq", []any{})))),
		hx.C("Do", hx.T{Name: "ANotify"}),
		respOp(1, -1, okHello(0, 0)), // the all-default reply: zero bytes on the wire
		respOp(2, -1, remoteErr(3)),
		hx.C("Advance", timeout),
		hx.C("Advance", 1),
		tick(),
		crash(),
	}
	suffix := []hx.T{hx.C("Advance", timeout+1), tick(), tick()}
	cur := make([]hx.T, L)
	count := int64(0)
	var rec func(d int)
	rec = func(d int) {
		if d == L {
			// the way requests reach the peer rotates through the six variants
			count++
			emit(append(append([]hx.T{hx.C("Via", count%6)}, cur...), suffix...))
			return
		}
		for _, a := range alpha {
			cur[d] = a
			rec(d + 1)
		}
	}
	rec(0)
}
