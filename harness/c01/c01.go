package c01

import (
	"fmt"

	"verifh/hx"
)

func Run(cfg *hx.Config) error {
	emit := func(kind string, ops []hx.T, tags []string) {
		obs, nt := Exec(ops)
		cfg.Emit(hx.Case{Kind: kind, Ops: ops, Obs: obs, Nontrivial: nt, Tags: tags})
	}
	if cfg.In != "" {
		cs, err := hx.ReadCases(cfg.In)
		if err != nil {
			return err
		}
		for _, c := range cs {
			emit("replay", hx.Terms(c.Ops), c.Tags)
		}
		return nil
	}
	for _, ops := range boundaryCases() {
		emit("boundary", ops, []string{"boundary-fixed"})
	}
	for _, ops := range valueCases() {
		emit("value", ops, []string{"value-fixed"})
	}
	for _, ops := range bulkCases(cfg.Tier) {
		emit("bulk", ops, []string{"bulk-fixed"})
	}
	for _, ops := range restartCases() {
		emit("restart", ops, []string{"restart-fixed"})
	}
	for _, ops := range routedCases() {
		emit("routed", ops, []string{"routed-fixed"})
	}
	for _, ops := range realTimerCases(cfg.Tier) {
		emit("realtimer", ops, []string{"realtimer"})
	}
	depth := 3
	if cfg.Tier == "thorough" {
		depth = 4
	}
	for L := 0; L <= depth; L++ {
		enumerate(L, func(ops []hx.T) { emit(fmt.Sprintf("exhaustive-%d", L), ops, nil) })
	}
	for i := 0; i < cfg.N; i++ {
		maxLen := 14
		if i%4 == 3 {
			maxLen = 70
		}
		ops, tags := gen(cfg.Rng, maxLen)
		emit("random", ops, tags)
	}
	return nil
}
