package main

import (
	"verifh/c15"
	"verifh/hx"
)

func main() { hx.Main(c15.Run) }
