package main

import (
	"verifh/c16"
	"verifh/hx"
)

func main() { hx.Main(c16.Run) }
