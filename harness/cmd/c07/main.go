package main

import (
	"verifh/c07"
	"verifh/hx"
)

func main() { hx.Main(c07.Run) }
