package main

import (
	"verifh/c14"
	"verifh/hx"
)

func main() { hx.Main(c14.Run) }
