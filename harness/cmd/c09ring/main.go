package main

import (
	"verifh/c09ring"
	"verifh/hx"
)

func main() { hx.Main(c09ring.Run) }
