package main

import (
	"verifh/c11"
	"verifh/hx"
)

func main() { hx.Main(c11.Run) }
