package main

import (
	"verifh/c09disp"
	"verifh/hx"
)

func main() { hx.Main(c09disp.Run) }
