package main

import (
	"verifh/c03"
	"verifh/hx"
)

func main() { hx.Main(c03.Run) }
