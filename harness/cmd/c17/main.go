package main

import (
	"verifh/c17"
	"verifh/hx"
)

func main() { hx.Main(c17.Run) }
