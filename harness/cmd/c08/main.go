package main

import (
	"verifh/c08"
	"verifh/hx"
)

func main() { hx.Main(c08.Run) }
