package main

import (
	"verifh/c13"
	"verifh/hx"
)

func main() { hx.Main(c13.Run) }
