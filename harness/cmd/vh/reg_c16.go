package main

import "verifh/c16"

func init() { drivers["C16"] = c16.Run }
