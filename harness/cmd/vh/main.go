// vh - verification harness driver: runs the real cell2 code on generated or replayed
// operation sequences and writes the projected observables as JSONL cases.
package main

import (
	"flag"
	"fmt"
	"os"

	"verifh/hx"
)

type driver func(cfg *hx.Config) error

var drivers = map[string]driver{}

func main() {
	if len(os.Args) < 2 {
		fmt.Fprintln(os.Stderr, "usage: vh <property> [flags]")
		os.Exit(2)
	}
	prop := os.Args[1]
	fs := flag.NewFlagSet(prop, flag.ExitOnError)
	cfg := &hx.Config{}
	fs.Int64Var(&cfg.Seed, "seed", 1, "PRNG seed")
	fs.IntVar(&cfg.N, "n", 300, "number of generated cases")
	fs.StringVar(&cfg.Tier, "tier", "quick", "quick|thorough")
	fs.StringVar(&cfg.In, "in", "", "replay ops from this JSONL instead of generating")
	fs.StringVar(&cfg.Out, "out", "cases.jsonl", "output JSONL")
	fs.StringVar(&cfg.Scratch, "scratch", "", "scratch directory")
	fs.Parse(os.Args[2:])
	d, ok := drivers[prop]
	if !ok {
		fmt.Fprintf(os.Stderr, "vh: unknown property %q\n", prop)
		os.Exit(2)
	}
	if err := cfg.Open(); err != nil {
		fmt.Fprintln(os.Stderr, "vh:", err)
		os.Exit(2)
	}
	err := d(cfg)
	cfg.Close()
	if err != nil {
		fmt.Fprintln(os.Stderr, "vh:", err)
		os.Exit(3)
	}
	fmt.Printf("vh %s: %d cases\n", prop, cfg.Emitted())
}
