package main

import (
	"verifh/c01"
	"verifh/hx"
)

func main() { hx.Main(c01.Run) }
