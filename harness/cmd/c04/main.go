package main

import (
	"verifh/c04"
	"verifh/hx"
)

func main() { hx.Main(c04.Run) }
