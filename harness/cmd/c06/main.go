package main

import (
	"verifh/c06"
	"verifh/hx"
)

func main() { hx.Main(c06.Run) }
