package main

import (
	"verifh/c05"
	"verifh/hx"
)

func main() { hx.Main(c05.Run) }
