package main

import (
	"verifh/c12"
	"verifh/hx"
)

func main() { hx.Main(c12.Run) }
