package main

import (
	"verifh/c02"
	"verifh/hx"
)

func main() { hx.Main(c02.Run) }
