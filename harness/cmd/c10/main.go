package main

import (
	"verifh/c10"
	"verifh/hx"
)

func main() { hx.Main(c10.Run) }
