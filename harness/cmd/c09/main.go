package main

import (
	"verifh/c09"
	"verifh/hx"
)

func main() { hx.Main(c09.Run) }
