package c03

import (
	"sort"

	"verifh/hx"
)

func zlist(l []int64) []any {
	out := []any{}
	for _, v := range l {
		out = append(out, v)
	}
	return out
}

// full form: per-push padding pattern (cyclic), response padding, mode, targets
func sendSz(c, ty, n1, n2, tag int64, pads []int64, rpad, mode int64, targets ...int64) hx.T {
	return hx.C("OSend", c, ty, n1, n2, tag, zlist(pads), rpad, mode, zlist(targets), false, int64(0), int64(0), int64(0))
}

// the same request whose multi-target pushes name k never-added connection ids before the targets
func filled(o hx.T, k int64) hx.T {
	o.Args = append([]any{}, o.Args...)
	o.Args[11] = k
	return o
}

// session traffic: kind 1 Set without PushSession, 2 Set + PushSession, 3 Bind without
// PushSession; place 0 first thing, 1 just before the completion, 2 right after it
func sessing(o hx.T, kind, place int64) hx.T {
	o.Args = append([]any{}, o.Args...)
	o.Args[12] = kind + 4*place
	return o
}

// id-list lengths around anything a front-end could slice a broadcast by (the listed
// connections stand at positions fill, fill+1, ...)
var fills = []int64{1, 2, 15, 16, 31, 32, 63, 64, 99, 126, 127, 128, 129, 130, 199, 255, 256, 299, 511, 512, 1023, 1024}

// rooms: one request per id-list length, the requester LAST in a list of fill+1 ids (and a second
// connection behind it), pushes before and after the response
func rooms(ty, mode int64, fs []int64, proto bool) []hx.T {
	var ops []hx.T
	if proto {
		ops = append(ops, hx.C("OProto"))
	}
	ops = append(ops, hx.C("OConn", 1, 0), hx.C("OConn", 2, 0))
	if ty == 1 {
		ops = append(ops, hx.C("OKey", 1, 1), hx.C("OKey", 2, 1))
	}
	for j, f := range fs {
		if j%2 == 0 {
			ops = append(ops, filled(sendTo(1, ty, 2, 1, int64(j+1), 0, mode, 1), f))
		} else {
			ops = append(ops, filled(sendTo(2, ty, 1, 2, int64(j+1), 0, mode, 1, 2, 9), f-1))
		}
	}
	return ops
}

// every way of touching the session around the completion, pushes before and after it
func sessions(ty int64, proto bool) []hx.T {
	var ops []hx.T
	if proto {
		ops = append(ops, hx.C("OProto"))
	}
	ops = append(ops, hx.C("OConn", 1, 0))
	if ty == 1 {
		ops = append(ops, hx.C("OKey", 1, 2))
	}
	tag := int64(1)
	for kind := int64(1); kind <= 3; kind++ {
		for place := int64(0); place <= 2; place++ {
			o := sessing(send(1, ty, 2, 3, tag, 0), kind, place)
			if (kind+place)%3 == 0 {
				o = later(o)
			}
			ops = append(ops, o)
			tag++
		}
	}
	return ops
}

// the same request completing asynchronously: the handler returns, the whole sequence (pushes,
// completion, pushes) is issued in a later turn of its service
func later(o hx.T) hx.T {
	o.Args = append([]any{}, o.Args...)
	o.Args[9] = true
	return o
}

// the same request whose handler first kicks connection k
func kicking(o hx.T, k int64) hx.T {
	o.Args = append([]any{}, o.Args...)
	o.Args[10] = k
	return o
}

func padList(pad int64) []int64 {
	if pad == 0 {
		return nil
	}
	return []int64{pad}
}

func send(c, ty, n1, n2, tag, pad int64) hx.T { return sendSz(c, ty, n1, n2, tag, padList(pad), 0, 0) }

// multi-target: mode 1 PushMessageByIds, mode 2 channel broadcast
func sendTo(c, ty, n1, n2, tag, pad, mode int64, targets ...int64) hx.T {
	return sendSz(c, ty, n1, n2, tag, padList(pad), 0, mode, targets...)
}

// sizes around the thresholds a writer / codec could treat differently: tiny, just below and
// at 4 KiB (encoded), a few KiB, beyond 64 KiB
var sizes = []int64{-1, -1, 0, 0, 0, 1, 7, 100, 900, 3900, 4020, 4040, 4096, 5000, 6000, 9000, 20000, 66000, 70000}

// a client that does not read while ty's handler first fills the socket buffers (bulk pushes of
// 3000 B) and then issues a sequence mixing tiny and big messages: the packets of that
// sequence sit in the connection's send queue together before the writer gets to them
func stalledMixed(ty int64, pads []int64, rpad int64, stallMs int64) []hx.T {
	ops := []hx.T{hx.C("OConn", 1, 0)}
	if ty == 1 {
		ops = append(ops, hx.C("OKey", 1, 1))
	}
	return append(ops, hx.C("OStall", 1, stallMs), send(1, ty, 2500, 0, 1, 3000), sendSz(1, ty, 40, 12, 2, pads, rpad, 0),
		sendSz(1, ty, 3, 3, 3, []int64{0, 6000, 0}, 0, 0), sendSz(1, ty, 3, 0, 4, nil, 6000, 0))
}

// a client that does not read for stallMs while ty's handler issues n pushes of ~pad bytes and
// then the response: kernel buffers, then the 9999-slot send queue of the connection fill up
func stalled(ty, n, pad, stallMs int64) []hx.T {
	ops := []hx.T{hx.C("OConn", 1, 0)}
	if ty == 1 {
		ops = append(ops, hx.C("OKey", 1, 1))
	}
	return append(ops, hx.C("OStall", 1, stallMs), send(1, ty, n, 3, 1, pad), send(1, 0, 2, 2, 2, 0))
}

// burst: room-1, the front, chat-1 and chat-2 all pushing to the same connection at once
func burst(n int64, slow int64, pad int64) []hx.T {
	return []hx.T{hx.C("OConn", 1, slow), send(1, 2, n, 3, 1, pad), send(1, 0, n, 3, 2, pad), hx.C("OKey", 1, 1), send(1, 1, n, 3, 3, pad),
		hx.C("OKey", 1, 2), send(1, 1, n, 3, 4, pad), send(1, 2, 5, n/2, 5, pad), send(1, 0, 5, 5, 6, pad)}
}

// n real connections, then the last, the first and the 129th push to all of them (in connection
// order) around their response
func realRoom(n int64) []hx.T {
	var ops []hx.T
	var all []int64
	for c := int64(1); c <= n; c++ {
		ops = append(ops, hx.C("OConn", c, 0))
		all = append(all, c)
	}
	return append(ops, sendTo(n, 0, 1, 1, 1, 0, 1, all...), sendTo(n, 2, 1, 1, 2, 0, 2, all...), sendTo(1, 2, 1, 0, 3, 0, 1, all...), sendTo(129, 0, 1, 0, 4, 0, 2, all...))
}

func fixedCases(tier string) [][]hx.T {
	out := [][]hx.T{
		// F8: front-local push then response
		{hx.C("OConn", 1, 0), send(1, 0, 1, 0, 1, 0)},
		{hx.C("OConn", 1, 0), send(1, 0, 3, 2, 1, 0), send(1, 0, 0, 2, 2, 0)},
		// back-end: pushes, response, pushes
		{hx.C("OConn", 1, 0), send(1, 2, 3, 2, 1, 0), send(1, 2, 2, 0, 2, 0)},
		{hx.C("OConn", 1, 0), hx.C("OKey", 1, 1), send(1, 1, 4, 1, 1, 0), hx.C("OKey", 1, 2), send(1, 1, 4, 1, 2, 0), send(1, 2, 4, 1, 3, 0), send(1, 0, 4, 1, 4, 0)},
		// two clients, same issuers
		{hx.C("OConn", 1, 0), hx.C("OConn", 2, 0), send(1, 2, 50, 5, 1, 0), send(2, 2, 50, 5, 2, 0), send(1, 0, 50, 5, 3, 0), send(2, 0, 50, 5, 4, 0)},
		// no target: the front answers an error
		{hx.C("OConn", 1, 0), send(1, 1, 2, 2, 1, 0), send(1, 0, 1, 1, 2, 0)},
		// broadcasts: front-local and back-end, via PushMessageByIds and via a channel, to the
		// requester, to the requester and others, to others only, with duplicates and unknown ids
		{hx.C("OConn", 1, 0), sendTo(1, 0, 3, 2, 1, 0, 1, 1)},
		{hx.C("OConn", 1, 0), sendTo(1, 0, 3, 2, 1, 0, 2, 1)},
		{hx.C("OConn", 1, 0), hx.C("OConn", 2, 0), hx.C("OConn", 3, 0), sendTo(1, 0, 4, 2, 1, 0, 1, 1, 2, 3), sendTo(2, 0, 4, 2, 2, 0, 2, 3, 2, 1),
			sendTo(3, 2, 4, 2, 3, 0, 1, 1, 2, 3), sendTo(1, 2, 4, 2, 4, 0, 2, 1, 2, 3), send(2, 0, 2, 1, 5, 0), send(2, 2, 2, 1, 6, 0)},
		{hx.C("OConn", 1, 0), hx.C("OConn", 2, 0), sendTo(1, 0, 3, 1, 1, 0, 1, 2), sendTo(1, 2, 3, 1, 2, 0, 2, 2, 2, 9), sendTo(2, 0, 2, 2, 3, 0, 2, 1, 1, 2)},
		{hx.C("OConn", 1, 0), hx.C("OConn", 2, 0), hx.C("OKey", 1, 1), hx.C("OKey", 2, 2), sendTo(1, 1, 200, 5, 1, 0, 2, 1, 2), sendTo(2, 1, 200, 5, 2, 0, 1, 2, 1),
			sendTo(1, 0, 200, 5, 3, 0, 2, 1, 2), sendTo(2, 0, 200, 5, 4, 50, 1, 1, 2)},
		// pushes without content (wire length 0 under the protobuf client serializer) among others,
		// front-local and forwarded, single- and multi-target, under both serializers
		{hx.C("OProto"), hx.C("OConn", 1, 0), sendSz(1, 0, 4, 1, 1, []int64{5, -1, 0, -1}, 0, 0), sendSz(1, 2, 4, 1, 2, []int64{-1, 3}, 0, 0)},
		{hx.C("OConn", 1, 0), sendSz(1, 0, 4, 1, 1, []int64{5, -1, 0, -1}, 0, 0), sendSz(1, 2, 4, 1, 2, []int64{-1, 3}, 0, 0)},
		{hx.C("OProto"), hx.C("OConn", 1, 0), hx.C("OConn", 2, 0), hx.C("OKey", 1, 2), sendSz(1, 1, 6, 2, 1, []int64{-1, 0, 6000}, 5000, 1, 1, 2),
			sendSz(2, 0, 5, 0, 2, []int64{-1}, 0, 2, 1, 2), sendSz(2, 2, 3, 3, 3, nil, 70000, 0)},
		// asynchronous completion: the handler returns, then - in one later turn of its service - pushes,
		// completes, pushes again: front-local and forwarded, both serializers, mixed with synchronous ones
		{hx.C("OConn", 1, 0), later(send(1, 0, 2, 2, 1, 0))},
		{hx.C("OConn", 1, 0), later(send(1, 0, 3, 3, 1, 0)), later(send(1, 0, 0, 2, 2, 0)), send(1, 0, 1, 1, 3, 0), later(send(1, 0, 0, 40, 4, 0))},
		{hx.C("OConn", 1, 0), later(send(1, 2, 3, 3, 1, 0)), later(send(1, 2, 0, 2, 2, 0)), send(1, 2, 1, 1, 3, 0), hx.C("OKey", 1, 2), later(send(1, 1, 2, 2, 4, 0))},
		{hx.C("OProto"), hx.C("OConn", 1, 0), hx.C("OConn", 2, 0), later(sendSz(1, 0, 4, 4, 1, []int64{0, 6000, -1, 7}, 5000, 1, 1, 2)), later(sendSz(2, 0, 3, 3, 2, []int64{-1, 0}, 0, 2, 2, 1)),
			later(sendSz(2, 2, 3, 3, 3, nil, 70000, 0)), later(send(1, 0, 0, 3, 4, 0))},
		// a handler kicks a connection and pushes to a list naming it BEFORE live ones, in the same turn
		// (the kicked one is closed, its session still registered): every live one gets every push -
		// front-local and through sys.pushmsg, by ids and through a channel, at once and from a later turn
		{hx.C("OConn", 1, 0), hx.C("OConn", 2, 0), hx.C("OConn", 3, 0), send(2, 0, 1, 1, 1, 0), kicking(sendTo(1, 0, 2, 2, 2, 0, 1, 2, 1, 3), 2), send(3, 0, 1, 1, 3, 0), send(2, 0, 1, 1, 4, 0)},
		{hx.C("OConn", 1, 0), hx.C("OConn", 2, 0), hx.C("OConn", 3, 0), send(2, 2, 1, 1, 1, 0), kicking(sendTo(1, 2, 2, 2, 2, 0, 1, 2, 1, 3), 2), send(3, 2, 1, 1, 3, 0), sendTo(1, 2, 1, 1, 4, 0, 1, 2, 3, 1)},
		{hx.C("OConn", 1, 0), hx.C("OConn", 2, 0), hx.C("OConn", 3, 0), kicking(sendTo(1, 0, 2, 2, 1, 0, 2, 3, 2, 1), 3), kicking(later(sendTo(1, 2, 2, 2, 2, 0, 2, 2, 1, 3)), 2), send(1, 0, 1, 1, 3, 0)},
		{hx.C("OProto"), hx.C("OConn", 1, 0), hx.C("OConn", 2, 0), hx.C("OConn", 3, 0), hx.C("OKey", 3, 1), kicking(later(sendTo(3, 1, 3, 1, 1, 0, 1, 1, 2, 3)), 1), kicking(sendTo(3, 0, 2, 2, 2, 0, 1, 2, 2, 3), 2),
			kicking(send(3, 0, 1, 1, 3, 0), 3), kicking(send(3, 2, 1, 1, 4, 0), 7)},
		// ROOMS (C03-9): multi-target pushes naming 2 .. 300 ids (never-added ones first, the real
		// connections at the END of the list: positions 1, 126, 127, 128, 129, 199, 299), followed by
		// the response and later pushes - front-local and forwarded, by ids and through a channel
		rooms(0, 1, []int64{1, 126, 127, 128, 129, 199, 299}, false),
		rooms(2, 1, []int64{1, 126, 127, 128, 129, 199, 299}, false),
		rooms(0, 2, []int64{127, 128, 129, 299}, false),
		rooms(2, 2, []int64{127, 128, 129, 299}, true),
		rooms(1, 1, []int64{63, 64, 255, 256, 512, 1024}, true),
		{hx.C("OConn", 1, 0), hx.C("OConn", 2, 0), hx.C("OConn", 3, 0), filled(sendTo(1, 2, 3, 2, 1, 0, 1, 1, 2, 3, 1), 126), filled(sendTo(2, 0, 3, 2, 2, 0, 2, 3, 2, 1), 127),
			filled(later(sendTo(3, 2, 2, 2, 3, 0, 2, 1, 2, 3)), 128), send(1, 2, 1, 1, 4, 0), send(3, 0, 1, 1, 5, 0)},
		// a room of 130 REAL connections on one front-end: the last ones say something (front-local,
		// forwarded), everybody gets it before the speaker's response
		realRoom(130),
		// SESSION TRAFFIC (C03-10): the handler touches its session - Set without PushSession, Set +
		// PushSession, Bind - first thing, just before or right after completing, with pushes before
		// and after the completion; another client's handler on the same service pushing to the first
		sessions(2, false),
		sessions(1, true),
		sessions(0, false),
		{hx.C("OConn", 1, 0), hx.C("OConn", 2, 0), sessing(send(1, 2, 0, 0, 1, 0), 1, 0), sendTo(2, 2, 2, 1, 2, 0, 1, 1, 2), sessing(send(1, 2, 1, 0, 3, 0), 3, 1), sendTo(2, 2, 2, 1, 4, 0, 2, 1),
			sessing(send(2, 2, 0, 0, 5, 0), 2, 0), sendTo(1, 2, 2, 1, 6, 0, 1, 2, 1)},
		// sizes varying WITHIN one issue sequence (C03-4: a big packet overtaking queued small ones)
		{hx.C("OConn", 1, 0), sendSz(1, 0, 3, 0, 1, []int64{0, 6000, 0}, 0, 0), sendSz(1, 0, 3, 0, 2, nil, 6000, 0)},
		{hx.C("OConn", 1, 0), sendSz(1, 2, 3, 0, 1, []int64{0, 6000, 0}, 0, 0), sendSz(1, 2, 3, 0, 2, nil, 6000, 0)},
		{hx.C("OConn", 1, 0), hx.C("OConn", 2, 0), sendSz(1, 0, 12, 6, 1, []int64{0, 4096, 7, 70000, 0, 4020}, 5000, 1, 1, 2),
			sendSz(2, 2, 12, 6, 2, []int64{9000, 0, 0, 66000, 1}, 0, 2, 2, 1), sendSz(1, 2, 8, 2, 3, []int64{0, 6000}, 70000, 0)},
		stalledMixed(2, []int64{0, 6000, 7, 0, 70000, 100, 4096, 0}, 5000, 500),
		stalledMixed(0, []int64{0, 6000, 7, 0, 70000, 100, 4096, 0}, 5000, 500),
		// a stalled client: the connection's send queue (9999 slots) fills, the producer blocks
		stalled(2, 35000, 1000, 1200),
		stalled(0, 35000, 1000, 1200),
		// bursts large enough to trigger the mailbox smoothing pause and to fill the task queues
		burst(3000, 0, 0),
		burst(3000, 0, 300),
	}
	if tier == "thorough" {
		out = append(out, burst(3000, 20, 0), burst(12000, 0, 0), burst(6000, 5, 64), burst(3000, 0, 4000),
			stalledMixed(1, []int64{0, 0, 20000, 0, 4040, 66000}, 0, 900), stalledMixed(2, []int64{5000, 0}, 70000, 700),
			stalled(1, 40000, 1000, 2500), stalled(2, 30000, 2000, 1500), stalled(0, 40000, 800, 2000))
	}
	return out
}

func gen(cfg *hx.Config, i int) ([]hx.T, []string) {
	r := cfg.Rng
	tags := map[string]bool{}
	nconn := int64(1 + r.Intn(3))
	n := 2 + r.Intn(10)
	big := i%25 == 24
	var ops []hx.T
	if r.Intn(5) < 2 {
		ops = append(ops, hx.C("OProto"))
	}
	conn := map[int64]bool{}
	gone := map[int64]bool{} // kicked (most probably): what is sent on it afterwards is ignored
	stalls := false
	tag := int64(1)
	for len(ops) < n {
		c := 1 + r.Int63n(nconn)
		if gone[c] && r.Intn(4) != 0 {
			n-- // (keeps the loop finite when everybody is gone)
			continue
		}
		if !conn[c] {
			slow := int64(0)
			if r.Intn(15) == 0 {
				slow = int64(1 + r.Intn(20))
				tags["slow-reader"] = true
			}
			ops = append(ops, hx.C("OConn", c, slow))
			conn[c] = true
			continue
		}
		switch p := r.Intn(100); {
		case p < 3:
			tags["stall"] = true
			stalls = true
			ops = append(ops, hx.C("OStall", c, int64(20+r.Intn(120))))
		case p < 22:
			v := hx.Pick(r, []int64{1, 1, 2, 2, 0})
			ops = append(ops, hx.C("OKey", c, v))
		default:
			ty := hx.Pick(r, []int64{0, 0, 1, 1, 1, 2, 2})
			n1, n2 := int64(r.Intn(6)), int64(r.Intn(4))
			if r.Intn(6) == 0 {
				n1 = int64(20 + r.Intn(200))
				tags["medium"] = true
			}
			if big && r.Intn(2) == 0 {
				n1 = int64(1000 + r.Intn(2500))
				tags["burst"] = true
			}
			pad := int64(0)
			if r.Intn(8) == 0 {
				pad = int64(r.Intn(2000))
				tags["padded"] = true
			}
			switch ty {
			case 0:
				tags["front-local"] = true
			case 1:
				tags["keyed-backend"] = true
			case 2:
				tags["default-backend"] = true
			}
			mode := int64(0)
			var targets []int64
			if r.Intn(3) == 0 {
				mode = int64(1 + r.Intn(2))
				for j := r.Intn(4); j > 0; j-- {
					targets = append(targets, 1+r.Int63n(nconn+1))
				}
				if r.Intn(2) == 0 {
					targets = append(targets, c)
				}
				if mode == 1 {
					tags["push-by-ids"] = true
				} else {
					tags["channel-broadcast"] = true
				}
				if n1 > 400 {
					n1 = 400
				}
			}
			pads := padList(pad)
			rpad := int64(0)
			if r.Intn(3) == 0 && n1 <= 400 {
				// sizes vary within the sequence, the response's too
				tags["mixed-sizes"] = true
				pads = nil
				for j := 2 + r.Intn(5); j > 0; j-- {
					pads = append(pads, hx.Pick(r, sizes))
				}
				if r.Intn(2) == 0 {
					if rpad = hx.Pick(r, sizes); rpad < 0 {
						rpad = 0
					}
				}
				if n1 > 60 {
					n1 = 60
				}
			}
			o := sendSz(c, ty, n1, n2, tag, pads, rpad, mode, targets...)
			if mode != 0 && r.Intn(3) == 0 {
				// a big room: never-added ids before the targets, the targets at positions fill..
				tags["many-ids"] = true
				o = filled(o, hx.Pick(r, fills))
			}
			if r.Intn(4) == 0 {
				kind, place := int64(1+r.Intn(3)), int64(r.Intn(3))
				tags[[]string{"", "sess-set", "sess-set-push", "sess-bind"}[kind]] = true
				o = sessing(o, kind, place)
			}
			if r.Intn(4) == 0 {
				tags["completes-later"] = true
				o = later(o)
			}
			if nconn > 1 && !stalls && r.Intn(8) == 0 {
				// the handler kicks another connection first; mostly that one is listed before the live targets
				k := 1 + r.Int63n(nconn)
				if conn[k] && k != c && !gone[k] {
					tags["kick"] = true
					if mode == 0 && r.Intn(2) == 0 {
						mode = int64(1 + r.Intn(2))
						targets = []int64{c}
						if k3 := 1 + r.Int63n(nconn); k3 != k {
							targets = append(targets, k3)
						}
					}
					if mode != 0 && r.Intn(4) != 0 {
						tags["kicked-listed-first"] = true
						targets = append([]int64{k}, targets...)
					}
					o.Args[7], o.Args[8] = mode, zlist(targets)
					o = kicking(o, k)
					if ty != 1 {
						gone[k] = true
					}
				}
			}
			ops = append(ops, o)
			tag++
		}
	}
	var tl []string
	for t := range tags {
		tl = append(tl, t)
	}
	sort.Strings(tl)
	return ops, tl
}
