// Package c03 measures per-client ordering on the shared in-process node (harness/e2e): a raw
// client pipelines requests whose handlers (on chat-1, chat-2, room-1 and on the front itself)
// issue N1 pushes, the response, N2 pushes, every item carrying its issuer, the request tag,
// its position and the issuer's issue counter; the observable is, per connection, the sequence
// in which the items ARRIVED (runs of consecutive pushes are run-length encoded).
package c03

import (
	"encoding/json"
	"fmt"
	"sort"
	"time"

	"verifh/e2e"
	"verifh/hx"
)

var typeNames = map[int64]string{0: "gate", 1: "chat", 2: "room"}

func keyName(v int64) string {
	switch v {
	case 0:
		return ""
	case 1, 2:
		return fmt.Sprintf("chat-%d", v)
	}
	return fmt.Sprintf("chat-%d", v)
}

type conn struct {
	id int64
	cl *e2e.Client
}

// Exec runs one case.
func Exec(n *e2e.Node, ops []hx.T) (obs any, nontrivial bool, err error) {
	conns := map[int64]*conn{}
	var order []int64
	all := func() []*e2e.Client {
		var l []*e2e.Client
		for _, id := range order {
			l = append(l, conns[id].cl)
		}
		return l
	}
	defer func() {
		for _, c := range conns {
			c.cl.Close()
		}
		if e := n.Settle(); err == nil {
			err = e
		}
	}()
	mid := uint64(100)
	for _, o := range ops {
		switch o.Name {
		case "OConn":
			id := o.Int(0)
			if conns[id] != nil {
				continue
			}
			cl, e := e2e.Dial(n.Addr)
			if e != nil {
				return nil, false, e
			}
			if e := n.Sentinel(cl); e != nil {
				return nil, false, e
			}
			cl.SetSlowRead(time.Duration(o.Int(1)) * time.Microsecond)
			conns[id] = &conn{id: id, cl: cl}
			order = append(order, id)
		case "OKey":
			c := conns[o.Int(0)]
			if c == nil {
				continue
			}
			mid++
			pl, _ := json.Marshal(map[string]any{"T": -1, "Key": keyName(o.Int(1))})
			if e := c.cl.Request(mid, "gate.h.setkey", pl); e != nil {
				return nil, false, e
			}
			if c.cl.WaitResponse(mid, e2e.WaitTimeout*4) == nil {
				return nil, false, fmt.Errorf("c03: setkey unanswered")
			}
		case "OSend":
			c := conns[o.Int(0)]
			if c == nil {
				continue
			}
			ty, ok := typeNames[o.Int(1)]
			if !ok {
				ty = "ghost"
			}
			mid++
			pl, _ := json.Marshal(map[string]any{"T": o.Int(4), "N1": o.Int(2), "N2": o.Int(3), "Pad": o.Int(5)})
			if e := c.cl.Request(mid, ty+".h.send", pl); e != nil {
				return nil, false, e
			}
		default:
			return nil, false, fmt.Errorf("c03: unknown op %s", o.Name)
		}
	}
	if e := n.Drain(all()); e != nil {
		return nil, false, e
	}
	perConn := []any{}
	sort.Slice(order, func(i, j int) bool { return order[i] < order[j] })
	for _, id := range order {
		evs := []any{}
		var run *hx.T // current EPush run
		flush := func() {
			if run != nil {
				evs = append(evs, *run)
				run = nil
			}
		}
		for _, ev := range conns[id].cl.Events() {
			if ev.Push {
				var b e2e.PushBody
				if ev.Route != "onSeq" || json.Unmarshal(ev.Data, &b) != nil {
					flush()
					evs = append(evs, "EOther")
					continue
				}
				inst := e2e.InstOf(b.Svc)
				if run != nil && run.Int(0) == inst && run.Int(1) == b.T &&
					run.Int(2)+run.Int(4) == b.Seq && run.Int(3)+run.Int(4) == b.Ctr {
					run.Args[4] = run.Int(4) + 1
					continue
				}
				flush()
				t := hx.C("EPush", inst, b.T, b.Seq, b.Ctr, 1)
				run = &t
				nontrivial = true
				continue
			}
			if ev.Mid >= e2e.SentinelLo && ev.Mid < e2e.SentinelHi {
				continue
			}
			flush()
			var r e2e.Reply
			switch {
			case ev.Err:
				evs = append(evs, "EErr")
			case json.Unmarshal(ev.Data, &r) == nil && r.Kind == "sent":
				evs = append(evs, hx.C("EResp", e2e.InstOf(r.Svc), r.T, r.Ctr))
			case json.Unmarshal(ev.Data, &r) == nil && r.Kind == "echo" && r.T == -1:
				// answer of a routing-key request: not part of the observation
			default:
				evs = append(evs, "EOther")
			}
		}
		flush()
		perConn = append(perConn, hx.Pair{A: id, B: evs})
	}
	return perConn, nontrivial, nil
}

func Run(cfg *hx.Config) error {
	n, err := e2e.Boot(cfg.Scratch)
	if err != nil {
		return err
	}
	nbroken := 0
	emit := func(kind string, ops []hx.T, tags []string) error {
		obs, nt, err := Exec(n, ops)
		note := ""
		if err != nil {
			nbroken++
			if nbroken > 5 {
				return fmt.Errorf("case %d (%s): %v (giving up after %d broken cases)", cfg.Emitted(), kind, err, nbroken)
			}
			note = err.Error()
			obs = []any{hx.Pair{A: int64(0), B: []any{"EOther"}}, hx.Pair{A: int64(0), B: []any{"EOther"}}}
		}
		cfg.Emit(hx.Case{Kind: kind, Ops: ops, Obs: obs, Nontrivial: nt, Tags: tags, Note: note})
		return nil
	}
	if cfg.In != "" {
		cs, err := hx.ReadCases(cfg.In)
		if err != nil {
			return err
		}
		for _, c := range cs {
			if err := emit("replay", hx.Terms(c.Ops), c.Tags); err != nil {
				return err
			}
		}
		return nil
	}
	for _, ops := range fixedCases(cfg.Tier) {
		if err := emit("fixed", ops, nil); err != nil {
			return err
		}
	}
	for i := 0; i < cfg.N; i++ {
		ops, tags := gen(cfg, i)
		if err := emit("random", ops, tags); err != nil {
			return err
		}
	}
	return nil
}
