// Package c03 measures per-client ordering on the shared in-process node (harness/e2e): a raw
// client pipelines requests whose handlers (on chat-1, chat-2, room-1 and on the front itself)
// issue N1 pushes, the response, N2 pushes, every item carrying its issuer, the request tag,
// its position and the issuer's issue counter; the observable is, per connection, the sequence
// in which the items ARRIVED (runs of consecutive pushes are run-length encoded).
package c03

import (
	"fmt"
	"sort"
	"time"

	"verifh/e2e"
	"verifh/hx"
)

var typeNames = map[int64]string{0: "gate", 1: "chat", 2: "room"}

func keyName(v int64) string {
	switch v {
	case 0:
		return ""
	case 1, 2:
		return fmt.Sprintf("chat-%d", v)
	}
	return fmt.Sprintf("chat-%d", v)
}

type conn struct {
	id   int64
	cl   *e2e.Client
	dead bool // closed by the server (kicked): nothing more is sent on it
}

// Exec runs one case.  xtags reports what the run actually exercised (whether the send queue
// of a stalled connection filled up).
func Exec(n *e2e.Node, ops []hx.T) (obs any, nontrivial bool, xtags []string, err error) {
	conns := map[int64]*conn{}
	var order []int64
	all := func() []*e2e.Client {
		var l []*e2e.Client
		for _, id := range order {
			if !conns[id].dead {
				l = append(l, conns[id].cl)
			}
		}
		return l
	}
	type watch struct {
		stop chan struct{}
		max  int
		cap  int
		done chan struct{}
	}
	var watches []*watch
	defer func() {
		for _, c := range conns {
			c.cl.Close()
		}
		if e := n.Settle(); err == nil {
			err = e
		}
	}()
	netIds := func(targets []int64) []uint32 {
		ids := []uint32{}
		for _, t := range targets {
			if c := conns[t]; c != nil {
				ids = append(ids, c.cl.NetId)
			} else {
				// a token no connection of the case has (yet): an id the front-end never handed out
				ids = append(ids, e2e.GhostId(1<<20+int(t&0xfffff)))
			}
		}
		return ids
	}
	mid := uint64(100)
	// the client serializer is a configuration of the whole case
	proto := false
	for _, o := range ops {
		if o.Name == "OProto" {
			proto = true
		}
	}
	if proto {
		n.SetProto(true)
		xtags = append(xtags, "serializer-proto")
		defer n.SetProto(false)
	}
	for _, o := range ops {
		switch o.Name {
		case "OConn":
			id := o.Int(0)
			if conns[id] != nil {
				continue
			}
			cl, e := e2e.Dial(n.Addr)
			if e != nil {
				return nil, false, nil, e
			}
			if e := n.Sentinel(cl); e != nil {
				return nil, false, nil, e
			}
			cl.SetSlowRead(time.Duration(o.Int(1)) * time.Microsecond)
			conns[id] = &conn{id: id, cl: cl}
			order = append(order, id)
		case "OProto":
		case "OStall":
			c := conns[o.Int(0)]
			if c == nil || c.dead {
				continue
			}
			sess, e := n.ClientSessionOf(c.cl.NetId)
			if e != nil {
				return nil, false, nil, e
			}
			w := &watch{stop: make(chan struct{}), done: make(chan struct{})}
			watches = append(watches, w)
			go func() {
				w.max, w.cap = n.WatchSendQueue(sess, w.stop)
				close(w.done)
			}()
			c.cl.Stall(time.Duration(o.Int(1)) * time.Millisecond)
		case "OKey":
			c := conns[o.Int(0)]
			if c == nil || c.dead {
				continue
			}
			mid++
			pl := e2e.EncodeArg(proto, map[string]any{"T": -1, "Key": keyName(o.Int(1))})
			route := "gate.h.setkey"
			if proto {
				route = "gate.h.psetkey"
			}
			if e := c.cl.Request(mid, route, pl); e != nil {
				return nil, false, nil, e
			}
			if c.cl.WaitResponse(mid, e2e.WaitTimeout*4) == nil {
				return nil, false, nil, fmt.Errorf("c03: setkey unanswered")
			}
		case "OSend":
			c := conns[o.Int(0)]
			if c == nil || c.dead {
				continue
			}
			ty, ok := typeNames[o.Int(1)]
			if !ok {
				ty = "ghost"
			}
			arg := map[string]any{"T": o.Int(4), "N1": o.Int(2), "N2": o.Int(3), "Pads": o.Ints(5),
				"RPad": o.Int(6), "Mode": o.Int(7), "Ids": netIds(o.Ints(8)), "Later": o.Bool(9)}
			// a handler that kicks another connection: everything issued so far has arrived before
			// (what the kicked connection got is then its whole observation), and the case goes on
			// when the front-end has removed it - if the handler ran at all
			var victim *conn
			if k := conns[o.Int(10)]; o.Int(10) != 0 && k != nil && !k.dead && k != c {
				victim = k
				if e := n.Drain(all()); e != nil {
					return nil, false, nil, e
				}
				arg["Kick"] = k.cl.NetId
			}
			mid++
			method := ".h.send"
			if proto {
				method = ".h.psend"
			}
			// many-target id lists / session traffic: the extended handler (harness/e2e/c03_extra.go)
			if len(o.Args) >= 13 && (o.Int(11) != 0 || o.Int(12) != 0) {
				arg["Fill"], arg["Sess"] = o.Int(11), o.Int(12)
				method = ".h.xsend"
				if proto {
					method = ".h.pxsend"
				}
				if o.Int(11) > 0 && o.Int(7) != 0 {
					switch k := int(o.Int(11)) + len(o.Ints(8)); {
					case k < 127:
						xtags = append(xtags, "ids-2..126")
					case k > 130:
						xtags = append(xtags, "ids-131..1028")
					default:
						xtags = append(xtags, fmt.Sprintf("ids-%d", k))
					}
				}
			}
			if e := c.cl.Request(mid, ty+method, e2e.EncodeArg(proto, arg)); e != nil {
				return nil, false, nil, e
			}
			if victim != nil {
				victim.dead = true
				rest := all()
				victim.dead = false
				if e := n.Drain(rest); e != nil {
					return nil, false, nil, e
				}
				has, e := n.HasSession(victim.cl.NetId)
				if e != nil {
					return nil, false, nil, e
				}
				if !has {
					victim.dead = true
					victim.cl.WaitClosed(e2e.WaitTimeout)
					xtags = append(xtags, "kicked")
				}
			}
		default:
			return nil, false, nil, fmt.Errorf("c03: unknown op %s", o.Name)
		}
	}
	if e := n.Drain(all()); e != nil {
		return nil, false, nil, e
	}
	for _, w := range watches {
		close(w.stop)
		<-w.done
		if w.cap > 0 && w.max >= w.cap {
			xtags = append(xtags, "send-queue-filled")
		} else {
			xtags = append(xtags, fmt.Sprintf("send-queue-max-%dk", w.max/1000))
		}
	}
	perConn := []any{}
	sort.Slice(order, func(i, j int) bool { return order[i] < order[j] })
	for _, id := range order {
		evs := []any{}
		var run *hx.T // current EPush run
		flush := func() {
			if run != nil {
				evs = append(evs, *run)
				run = nil
			}
		}
		for _, ev := range conns[id].cl.Events() {
			if ev.Push {
				b, empty, ok := e2e.DecodePush(proto, ev.Data)
				if ev.Route != "onSeq" || !ok {
					flush()
					evs = append(evs, "EOther")
					continue
				}
				if empty {
					flush()
					evs = append(evs, "EEmpty")
					continue
				}
				inst := e2e.InstOf(b.Svc)
				if run != nil && run.Int(0) == inst && run.Int(1) == b.T && run.Int(5) == int64(len(b.Pad)) &&
					run.Int(2)+run.Int(4) == b.Seq && run.Int(3)+run.Int(4) == b.Ctr {
					run.Args[4] = run.Int(4) + 1
					continue
				}
				flush()
				t := hx.C("EPush", inst, b.T, b.Seq, b.Ctr, 1, len(b.Pad))
				run = &t
				nontrivial = true
				continue
			}
			if ev.Mid >= e2e.SentinelLo && ev.Mid < e2e.SentinelHi {
				continue
			}
			flush()
			r, rok := e2e.DecodeReply(proto, ev.Data)
			switch {
			case ev.Err:
				evs = append(evs, "EErr")
			case rok && r.Kind == "sent":
				evs = append(evs, hx.C("EResp", e2e.InstOf(r.Svc), r.T, r.Ctr, len(r.Pad)))
			case rok && r.Kind == "echo" && r.T == -1:
				// answer of a routing-key request: not part of the observation
			default:
				evs = append(evs, "EOther")
			}
		}
		flush()
		perConn = append(perConn, hx.Pair{A: id, B: evs})
	}
	return perConn, nontrivial, xtags, nil
}

func Run(cfg *hx.Config) error {
	n, err := e2e.Boot(cfg.Scratch)
	if err != nil {
		return err
	}
	nbroken := 0
	emit := func(kind string, ops []hx.T, tags []string) error {
		obs, nt, xt, err := Exec(n, ops)
		tags = append(append([]string{}, tags...), xt...)
		note := ""
		if err != nil {
			nbroken++
			note = err.Error()
			obs = []any{hx.Pair{A: int64(0), B: []any{"EOther"}}, hx.Pair{A: int64(0), B: []any{"EOther"}}}
		}
		cfg.Emit(hx.Case{Kind: kind, Ops: ops, Obs: obs, Nontrivial: nt, Tags: tags, Note: note})
		return nil
	}
	if cfg.In != "" {
		cs, err := hx.ReadCases(cfg.In)
		if err != nil {
			return err
		}
		for _, c := range cs {
			if err := emit("replay", hx.Terms(c.Ops), c.Tags); err != nil {
				return err
			}
		}
		return nil
	}
	for _, ops := range fixedCases(cfg.Tier) {
		if nbroken >= 4 {
			break
		}
		if err := emit("fixed", ops, nil); err != nil {
			return err
		}
	}
	for i := 0; i < cfg.N && nbroken < 4; i++ {
		// (a case in which the implementation stopped answering costs a time-out; after a few
		// of them the run ends early - what was emitted is reported and shrunk as usual)
		ops, tags := gen(cfg, i)
		if err := emit("random", ops, tags); err != nil {
			return err
		}
	}
	return nil
}
