package c09

import (
	"fmt"
	"math/rand"
	"runtime"
	"sort"
	"strings"
	"time"

	"verifh/hx"
)

const maxSteps = 600 // hard cap on a schedule (executions are normally <= ~150 steps)

// ---------------------------------------------------------------- choosers

func replayChooser(sched []sid) chooser {
	return func(e *exec, k int) (sid, bool) {
		if k >= len(sched) {
			return sid{}, false
		}
		return sched[k], true
	}
}

// withProbe makes quiescence part of the observation: when the inner chooser stops and no
// thread is enabled, every thread (each poster, the consumer, each pause goroutine and one
// pause index beyond) is named once more.  The real threads cannot step; the model has to
// agree (enabled = false for each), i.e. the model's state is quiescent too - which is what
// the no-lost-wake-up theorem talks about.
func withProbe(inner chooser) chooser {
	var probes []sid
	stopped := false
	return func(e *exec, k int) (sid, bool) {
		if !stopped {
			if s, ok := inner(e, k); ok {
				return s, true
			}
			stopped = true
			if e.anyEnabled() {
				return sid{}, false
			}
			e.probing = true
			for _, th := range e.threads() {
				probes = append(probes, e.sidOfThread(th))
			}
			probes = append(probes, sid{'T', int64(len(e.pauses))})
		}
		if len(probes) == 0 {
			return sid{}, false
		}
		s := probes[0]
		probes = probes[1:]
		return s, true
	}
}

// fair round-robin: every enabled thread gets one step per round, until nobody is enabled
type roundRobin struct{ pos int }

func (r *roundRobin) next(e *exec) (sid, bool) {
	ths := e.threads()
	for n := 0; n < len(ths); n++ {
		th := ths[(r.pos+n)%len(ths)]
		if e.enabled(th) {
			r.pos = (r.pos + n + 1) % len(ths)
			return e.sidOfThread(th), true
		}
	}
	return sid{}, false
}

// postersFirst: every poster runs to the end of its programme, then fair round-robin until
// nobody can step (no cap on the length of the schedule)
func postersFirst() chooser {
	rr := &roundRobin{}
	return func(e *exec, k int) (sid, bool) {
		for _, th := range e.posters {
			if e.enabled(th) {
				return e.sidOfThread(th), true
			}
		}
		return rr.next(e)
	}
}

type policy struct {
	stick     float64 // weight multiplier of the thread that ran last
	race      float64 // multiplier of threads standing in a race window
	lazy      int     // poster with weight 0.15 (-1: none)
	eager     byte    // 'C': consumer x3, 'P': posters x3, 0: none
	pDisabled float64 // probability of emitting an entry that cannot step
	phase     int     // length of the random phase
	suffix    bool    // extend by the fair suffix until quiescent
}

func randomChooser(r *rand.Rand, p policy) chooser {
	var last *thread
	rr := &roundRobin{}
	return func(e *exec, k int) (sid, bool) {
		if k >= maxSteps {
			return sid{}, false
		}
		if k >= p.phase {
			if !p.suffix {
				return sid{}, false
			}
			return rr.next(e)
		}
		if p.pDisabled > 0 && r.Float64() < p.pDisabled {
			var dis []sid
			for _, th := range e.threads() {
				if !e.enabled(th) {
					dis = append(dis, e.sidOfThread(th))
				}
			}
			dis = append(dis, sid{'T', int64(len(e.pauses) + r.Intn(2))}, sid{'P', int64(len(e.posters) + r.Intn(2))})
			return dis[r.Intn(len(dis))], true
		}
		var ths []*thread
		var ws []float64
		total := 0.0
		cp := e.consumer.point
		inTail := in(cp, "E1", "E2", "E3", "E4", "E5")
		unpausing := false
		for _, t := range e.pauses {
			if t.point == "T2" {
				unpausing = true
			}
		}
		for _, th := range e.threads() {
			if !e.enabled(th) {
				continue
			}
			w := 1.0
			if th == last {
				w *= p.stick
			}
			switch th.kind {
			case 'P':
				if th.idx == p.lazy {
					w *= 0.15
				}
				if p.eager == 'P' {
					w *= 3
				}
				if inTail && in(th.point, "U1", "U2", "Y1", "Y2", "Y3", "S1", "S2") {
					w *= p.race
				}
			case 'C':
				if p.eager == 'C' {
					w *= 3
				}
				if inTail {
					for _, q := range e.posters {
						if in(q.point, "U2", "Y2", "Y3", "S1", "S2") {
							w *= p.race
							break
						}
					}
				}
			case 'T':
				if th.point == "T2" {
					for _, o := range e.threads() {
						if o != th && in(o.point, "S1", "S2", "E4", "E5") {
							w *= p.race
							break
						}
					}
				}
			}
			if unpausing && th.kind != 'T' && in(th.point, "S1", "S2", "E4", "E5") {
				w *= p.race
			}
			ths = append(ths, th)
			ws = append(ws, w)
			total += w
		}
		if len(ths) == 0 {
			return sid{}, false // quiescent
		}
		x := r.Float64() * total
		pick := ths[len(ths)-1]
		for i, w := range ws {
			if x < w {
				pick = ths[i]
				break
			}
			x -= w
		}
		last = pick
		return e.sidOfThread(pick), true
	}
}

// ---------------------------------------------------------------- random configurations

func genConfig(r *rand.Rand) (config, []string) {
	var c config
	tags := []string{}
	np := 1 + r.Intn(3)
	if r.Intn(12) == 0 {
		np = 4
	}
	suspends := 0
	for i := 0; i < np; i++ {
		n := r.Intn(4)
		if r.Intn(4) == 0 {
			n = 1 + r.Intn(5)
		}
		var prog []pmsg
		for k := 0; k < n; k++ {
			z := int64(i*10 + k)
			switch x := r.Intn(100); {
			case x < 7: // a MessageBatch: one call posts its parts and then itself
				np := 1 + r.Intn(3)
				b := pmsg{kind: 'B', z: z}
				for q := 0; q < np; q++ {
					b.parts = append(b.parts, int64(i*10+k)*100+int64(q)+1000)
				}
				prog = append(prog, b)
				tags = append(tags, "cfg-batch")
			case x < 62:
				prog = append(prog, pmsg{kind: 'U', z: z})
			case x < 78:
				prog = append(prog, pmsg{kind: 'O', z: z})
			case x < 90:
				prog = append(prog, pmsg{kind: 'S'})
				suspends++
			default:
				prog = append(prog, pmsg{kind: 'R'})
			}
		}
		c.progs = append(c.progs, prog)
	}
	if suspends > 0 {
		tags = append(tags, "cfg-suspend")
		if r.Intn(5) > 0 { // usually somebody resumes later
			i := r.Intn(np)
			c.progs[i] = append(c.progs[i], pmsg{kind: 'R'})
			if r.Intn(2) == 0 {
				c.progs[i] = append(c.progs[i], pmsg{kind: 'U', z: int64(i*10 + 9)})
			}
		}
	}
	switch r.Intn(6) {
	case 0: // never over budget
	case 1:
		c.oracle = []bool{true}
	case 2:
		for i := 0; i < 40; i++ {
			c.oracle = append(c.oracle, r.Intn(10) == 0)
		}
	case 3:
		for i := 0; i < 24; i++ {
			c.oracle = append(c.oracle, r.Intn(5) < 2)
		}
	case 4:
		for i := r.Intn(4); i > 0; i-- {
			c.oracle = append(c.oracle, false)
		}
		c.oracle = append(c.oracle, true, r.Intn(2) == 0, r.Intn(2) == 0)
	default:
		for i := 0; i < 12; i++ {
			c.oracle = append(c.oracle, r.Intn(4) == 0)
		}
	}
	for _, b := range c.oracle {
		if b {
			tags = append(tags, "cfg-oracle-true")
			break
		}
	}
	c.throughput = 99
	if r.Intn(3) == 0 {
		c.throughput = r.Intn(4)
		tags = append(tags, "cfg-small-throughput")
	}
	return c, tags
}

func genPolicy(r *rand.Rand, np int) (policy, string) {
	p := policy{stick: 1, race: 1, lazy: -1, phase: 20 + r.Intn(140), suffix: r.Intn(10) > 0}
	name := "uniform"
	switch r.Intn(5) {
	case 0:
	case 1:
		p.stick = float64(2 + r.Intn(10))
		name = "sticky"
	case 2, 3:
		p.race = float64(3 + r.Intn(8))
		p.stick = float64(1 + r.Intn(2))
		name = "race"
	default:
		p.lazy = r.Intn(np)
		p.race = float64(1 + r.Intn(5))
		name = "lazy-poster"
	}
	switch r.Intn(4) {
	case 0:
		p.eager = 'C'
	case 1:
		p.eager = 'P'
	}
	if r.Intn(6) == 0 {
		p.pDisabled = 0.04
	}
	return p, name
}

// ---------------------------------------------------------------- exhaustive DFS (stateless re-execution)

type dfsSpec struct {
	name        string
	cfg         config
	preempt     int // max number of preemptions (-1: unbounded = every schedule)
	branchDepth int // beyond this depth no more branching (fair round-robin to the end)
	cap         int // max executions
}

// dfs enumerates the schedules of spec depth-first.  A schedule ends when no thread can
// step.  Choice k of a run is an index into the candidates available at step k.
func dfs(spec dfsSpec, emit func(res result, complete bool)) (runs int, complete bool) {
	var path []int
	for {
		var widths []int
		rr := &roundRobin{}
		budget := spec.preempt
		var last *thread
		choose := func(e *exec, k int) (sid, bool) {
			if k >= maxSteps {
				return sid{}, false
			}
			if k >= spec.branchDepth {
				return rr.next(e)
			}
			var cands []*thread
			lastEnabled := last != nil && e.enabled(last)
			if lastEnabled {
				cands = append(cands, last) // continuing is always the first alternative
			}
			if !(lastEnabled && budget == 0) {
				for _, th := range e.threads() {
					if th != last && e.enabled(th) {
						cands = append(cands, th)
					}
				}
			}
			if len(cands) == 0 {
				return sid{}, false
			}
			idx := 0
			if k < len(path) {
				idx = path[k]
			}
			widths = append(widths, len(cands))
			if k >= len(path) {
				path = append(path, 0)
			}
			pick := cands[idx]
			if lastEnabled && pick != last && budget > 0 {
				budget--
			}
			last = pick
			return e.sidOfThread(pick), true
		}
		res := execute(spec.cfg, withProbe(choose))
		runs++
		path = path[:len(widths)]
		// next path: deepest choice with an untried alternative
		k := len(path) - 1
		for k >= 0 && path[k]+1 >= widths[k] {
			k--
		}
		done := k < 0
		emit(res, done)
		if done {
			return runs, true
		}
		path = path[:k+1]
		path[k]++
		if runs >= spec.cap {
			return runs, false
		}
	}
}

func u(z int64) pmsg { return pmsg{kind: 'U', z: z} }

var (
	mS = pmsg{kind: 'S'}
	mR = pmsg{kind: 'R'}
)

func o(z int64) pmsg { return pmsg{kind: 'O', z: z} }

func bt(z int64, parts ...int64) pmsg { return pmsg{kind: 'B', z: z, parts: parts} }

func dfsSpecs(tier string) []dfsSpec {
	T, F := true, false
	if tier != "thorough" {
		return []dfsSpec{
			{"1x1", config{[][]pmsg{{u(1)}}, nil, 99}, -1, 60, 50},
			{"1x2", config{[][]pmsg{{u(1), u(2)}}, nil, 99}, 3, 60, 400},
			{"2x1", config{[][]pmsg{{u(1)}, {u(11)}}, nil, 99}, 2, 60, 5000},
			{"1x2+pause", config{[][]pmsg{{u(1), u(2)}}, []bool{F, F, T}, 99}, 2, 60, 5000},
			{"2x1-sys", config{[][]pmsg{{o(1)}, {u(11)}}, nil, 99}, 2, 60, 5000},
			{"suspend-resume", config{[][]pmsg{{mS, u(1)}, {mR}}, nil, 99}, 1, 60, 200},
			{"1x3-throughput0", config{[][]pmsg{{u(1), u(2), u(3)}}, nil, 0}, 1, 60, 300},
			{"batch+late", config{[][]pmsg{{bt(3, 1, 2)}, {u(11)}}, nil, 99}, 2, 80, 3000},
			{"2x2-throughput1", config{[][]pmsg{{u(1), u(2)}, {u(11), u(12)}}, nil, 1}, 1, 60, 600},
		}
	}
	return []dfsSpec{
		{"1x1", config{[][]pmsg{{u(1)}}, nil, 99}, -1, 80, 1000},
		{"1x2", config{[][]pmsg{{u(1), u(2)}}, nil, 99}, -1, 80, 60000},
		{"1xsys", config{[][]pmsg{{o(1), u(2)}}, nil, 99}, -1, 80, 30000},
		{"2x1", config{[][]pmsg{{u(1)}, {u(11)}}, nil, 99}, 3, 80, 30000},
		{"2x1-sys", config{[][]pmsg{{o(1)}, {u(11)}}, nil, 99}, 3, 80, 30000},
		{"2xsys", config{[][]pmsg{{o(1)}, {o(11)}}, nil, 99}, 3, 80, 30000},
		{"1x2+pause", config{[][]pmsg{{u(1), u(2)}}, []bool{F, F, T}, 99}, 3, 80, 20000},
		{"1x1+pause-first", config{[][]pmsg{{u(1), u(2)}}, []bool{T}, 99}, 3, 80, 20000},
		{"2x1+pause", config{[][]pmsg{{u(1)}, {u(11)}}, []bool{F, T}, 99}, 2, 80, 20000},
		{"suspend-resume", config{[][]pmsg{{mS, u(1)}, {mR}}, nil, 99}, 3, 80, 30000},
		{"suspend-user", config{[][]pmsg{{mS, mR}, {u(11)}}, nil, 99}, 3, 80, 30000},
		{"2x2", config{[][]pmsg{{u(1), u(2)}, {u(11), u(12)}}, nil, 99}, 2, 100, 40000},
		{"2x2+sys+pause", config{[][]pmsg{{u(1), o(2)}, {u(11), u(12)}}, []bool{F, F, F, T}, 99}, 2, 100, 30000},
		{"1x3-throughput0", config{[][]pmsg{{u(1), u(2), u(3)}}, nil, 0}, 3, 80, 20000},
		{"batch+late", config{[][]pmsg{{bt(3, 1, 2)}, {u(11)}}, nil, 99}, 3, 100, 30000},
		{"batch-then-post", config{[][]pmsg{{bt(2, 1), u(4)}}, nil, 99}, -1, 100, 30000},
		{"2x2-throughput1", config{[][]pmsg{{u(1), u(2)}, {u(11), u(12)}}, nil, 1}, 2, 100, 20000},
		{"1x4+sys-throughput2", config{[][]pmsg{{u(1), o(2), u(3), u(4)}}, nil, 2}, 2, 100, 20000},
	}
}

// ---------------------------------------------------------------- entry point

func tagList(m map[string]bool, extra ...string) []string {
	var l []string
	for t := range m {
		l = append(l, t)
	}
	l = append(l, extra...)
	sort.Strings(l)
	return l
}

func Run(cfg *hx.Config) error {
	g0 := runtime.NumGoroutine()
	emit := func(kind string, c config, res result, extra ...string) {
		cs := hx.Case{Kind: kind, Ops: opsTerm(c, res.sched), Obs: res.obs,
			Nontrivial: res.nontrivial, Tags: tagList(res.tags, extra...)}
		if kind == "replay" { // which real step each enabled entry executed: thread@point
			cs.Note = strings.Join(res.trace, " ")
		}
		cfg.Emit(cs)
	}
	leak := func() error {
		for i := 0; i < 200 && runtime.NumGoroutine() > g0; i++ {
			time.Sleep(time.Millisecond)
		}
		if n := runtime.NumGoroutine(); n > g0 {
			return fmt.Errorf("c09: %d goroutines left behind", n-g0)
		}
		return nil
	}
	if cfg.In != "" {
		cs, err := hx.ReadCases(cfg.In)
		if err != nil {
			return err
		}
		for _, c := range cs {
			conf, sched := opsOf(hx.AsTerm(c.Ops))
			res := execute(conf, replayChooser(sched))
			emit("replay", conf, res)
		}
		return leak()
	}
	for _, spec := range dfsSpecs(cfg.Tier) {
		t0 := time.Now()
		runs, complete := dfs(spec, func(res result, done bool) {
			emit("dfs-"+spec.name, spec.cfg, res, "dfs")
		})
		fmt.Printf("c09 dfs %-18s preempt=%d runs=%d complete=%v %.1fs\n", spec.name, spec.preempt, runs, complete,
			time.Since(t0).Seconds())
	}
	r := cfg.Rng
	// backlogs: every poster posts everything before the consumer takes its first step, so ONE
	// run handles more messages than the dispatcher's Throughput() (99, as the service dispatcher
	// answers; and small values)
	nb := 2
	if cfg.Tier == "thorough" {
		nb = 12
	}
	for i := 0; i < nb; i++ {
		var conf config
		conf.throughput = 99
		n := 101 + r.Intn(40)
		if i%2 == 1 {
			conf.throughput = 3 + r.Intn(10)
			n = 3*conf.throughput + r.Intn(20)
		}
		np := 1 + i%2
		for p := 0; p < np; p++ {
			var prog []pmsg
			for k := 0; k < n/np+1; k++ {
				if r.Intn(15) == 0 {
					prog = append(prog, pmsg{kind: 'O', z: int64(p*1000 + k)})
				} else {
					prog = append(prog, pmsg{kind: 'U', z: int64(p*1000 + k)})
				}
			}
			conf.progs = append(conf.progs, prog)
		}
		res := execute(conf, withProbe(postersFirst()))
		emit("backlog", conf, res, "backlog-over-throughput")
	}
	for i := 0; i < cfg.N; i++ {
		conf, ctags := genConfig(r)
		pol, pname := genPolicy(r, len(conf.progs))
		res := execute(conf, withProbe(randomChooser(r, pol)))
		emit("random-"+pname, conf, res, ctags...)
	}
	return leak()
}
