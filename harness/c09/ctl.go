// Package c09 drives the REAL actorex/mailbox.SmoothFrameMailbox under a controlling
// scheduler: every verifPoint of the mailbox parks the calling goroutine, and the
// controller releases exactly one logical thread per schedule entry.  An execution is a
// deterministic function of (programmes, cost oracle, schedule) - the same data the Coq
// interleaving model C09/Model.v consumes - and the shared words of the mailbox are
// snapshotted after every step.
package c09

import (
	"fmt"
	"runtime"
	"sync"
	"sync/atomic"
	"time"

	"github.com/asynkron/protoactor-go/actor"
	"github.com/dfklegend/cell2/actorex/mailbox"

	"verifh/hx"
)

// ---------------------------------------------------------------- data

// sid is a schedule entry: SP i (poster i), SC (consumer), ST j (j-th pause goroutine).
type sid struct {
	kind byte // 'P', 'C', 'T'
	idx  int64
}

func (s sid) term() any {
	switch s.kind {
	case 'P':
		return hx.C("SP", s.idx)
	case 'T':
		return hx.C("ST", s.idx)
	}
	return "SC"
}

func sidOf(t hx.T) sid {
	switch t.Name {
	case "SP":
		return sid{'P', t.Int(0)}
	case "ST":
		return sid{'T', t.Int(0)}
	case "SC":
		return sid{'C', 0}
	}
	panic("c09: bad schedule entry " + t.Name)
}

// pmsg is one entry of a poster's programme.
type pmsg struct {
	kind  byte // 'U' user, 'S' suspend, 'R' resume, 'O' other system message, 'B' a MessageBatch
	z     int64
	parts []int64 // 'B': payloads of the batch's parts (z = payload of the batch message itself)
}

func (p pmsg) term() any {
	switch p.kind {
	case 'B':
		return hx.C("XBatch", hx.Norm(p.parts), p.z)
	case 'U':
		return hx.C("X", hx.C("PUser", p.z))
	case 'S':
		return hx.C("X", hx.C("PSys", "SSuspend"))
	case 'R':
		return hx.C("X", hx.C("PSys", "SResume"))
	}
	return hx.C("X", hx.C("PSys", hx.C("SOther", p.z)))
}

func pmsgOf(t hx.T) pmsg {
	switch t.Name {
	case "X":
		return pmsgOf(t.Term(0))
	case "XBatch":
		return pmsg{kind: 'B', z: t.Int(1), parts: t.Ints(0)}
	case "PUser":
		return pmsg{kind: 'U', z: t.Int(0)}
	case "PSys":
		s := t.Term(0)
		switch s.Name {
		case "SSuspend":
			return pmsg{kind: 'S'}
		case "SResume":
			return pmsg{kind: 'R'}
		case "SOther":
			return pmsg{kind: 'O', z: s.Int(0)}
		}
	}
	panic("c09: bad programme entry " + t.Name)
}

type config struct {
	progs  [][]pmsg
	oracle []bool
	// what the dispatcher answers to Throughput().  The mailbox only resets a counter with it
	// (the yield it once guarded is commented out), so the model does not depend on it; cases
	// use the service dispatcher's 99 and small values, so that "more messages in one run than
	// the throughput" is reached by short schedules too.
	throughput int
}

func opsTerm(c config, sched []sid) hx.T {
	progs := make([]any, len(c.progs))
	for i, p := range c.progs {
		l := make([]any, len(p))
		for k, m := range p {
			l[k] = m.term()
		}
		progs[i] = l
	}
	orc := make([]any, len(c.oracle))
	for i, b := range c.oracle {
		orc[i] = b
	}
	sc := make([]any, len(sched))
	for i, s := range sched {
		sc[i] = s.term()
	}
	return hx.C("mkOps", progs, orc, sc, int64(c.throughput))
}

func opsOf(t hx.T) (config, []sid) {
	if t.Name != "mkOps" || (len(t.Args) != 3 && len(t.Args) != 4) {
		panic("c09: ops is not mkOps progs oracle sched throughput")
	}
	var c config
	c.throughput = 99 // histories recorded before the field existed
	if len(t.Args) == 4 {
		c.throughput = int(t.Int(3))
	}
	for _, p := range t.List(0) {
		var prog []pmsg
		for _, m := range p.([]any) {
			prog = append(prog, pmsgOf(hx.AsTerm(m)))
		}
		c.progs = append(c.progs, prog)
	}
	for _, b := range t.List(1) {
		c.oracle = append(c.oracle, b.(bool))
	}
	var sched []sid
	for _, s := range t.List(2) {
		sched = append(sched, sidOf(hx.AsTerm(s)))
	}
	return c, sched
}

// ---------------------------------------------------------------- messages, invoker, dispatcher

type userMsg struct{ poster, payload int64 }

// batchMsg is an actor.MessageBatch: PostUserMessage posts its parts one by one, then the batch itself
type batchMsg struct {
	poster, payload int64
	parts           []interface{}
}

func (b *batchMsg) GetMessages() []interface{} { return b.parts }
type otherMsg struct{ poster, z int64 }

// recording actor.MessageInvoker (only ever called on the consumer goroutine)
type invoker struct {
	deliveredU []any // Pair{poster, payload}
	invokedS   []any // Pair{poster, SOther z}
	failure    string
}

func (v *invoker) InvokeUserMessage(msg interface{}) {
	switch u := msg.(type) {
	case *userMsg:
		v.deliveredU = append(v.deliveredU, hx.Pair{A: u.poster, B: u.payload})
	case *batchMsg:
		v.deliveredU = append(v.deliveredU, hx.Pair{A: u.poster, B: u.payload})
	default:
		v.deliveredU = append(v.deliveredU, hx.Pair{A: int64(-1), B: int64(-1)})
	}
}

func (v *invoker) InvokeSystemMessage(msg interface{}) {
	switch o := msg.(type) {
	case *otherMsg:
		v.invokedS = append(v.invokedS, hx.Pair{A: o.poster, B: hx.C("SOther", o.z)})
	case *userMsg: // a user message on the system path would be a defect; make it visible
		v.invokedS = append(v.invokedS, hx.Pair{A: int64(-1), B: hx.C("SOther", o.payload)})
	default:
		v.invokedS = append(v.invokedS, hx.Pair{A: int64(-1), B: hx.C("SOther", int64(-1))})
	}
}

func (v *invoker) EscalateFailure(reason interface{}, message interface{}) {
	v.failure = fmt.Sprint(reason)
}

// single-consumer dispatcher: Schedule only queues; the consumer thread takes one task at
// a time (as actorex/disp/schedisp.go does with its channel + run-service goroutine).
type dispatcher struct {
	mu         sync.Mutex
	q          []func()
	throughput int
}

func (d *dispatcher) Schedule(fn func()) {
	d.mu.Lock()
	d.q = append(d.q, fn)
	d.mu.Unlock()
}

func (d *dispatcher) Throughput() int { return d.throughput }

func (d *dispatcher) size() int {
	d.mu.Lock()
	defer d.mu.Unlock()
	return len(d.q)
}

func (d *dispatcher) pop() func() {
	d.mu.Lock()
	defer d.mu.Unlock()
	if len(d.q) == 0 {
		return nil
	}
	fn := d.q[0]
	d.q = d.q[1:]
	return fn
}

// ---------------------------------------------------------------- threads and controller

const (
	tsRunning = iota
	tsParked  // blocked inside verifPoint at th.point
	tsIdle    // consumer only: between tasks
	tsDone    // poster: programme finished; pause goroutine: returned
)

type thread struct {
	kind    byte // 'P', 'C', 'T'
	idx     int  // -1 until the controller has numbered a pause goroutine
	release chan struct{}
	state   int
	point   string
}

func (t *thread) String() string {
	return fmt.Sprintf("%c%d@%s/%d", t.kind, t.idx, t.point, t.state)
}

const (
	evPark = iota
	evDone
	evIdle
)

type event struct {
	th    *thread
	kind  int
	point string
}

type exec struct {
	m        *mailbox.SmoothFrameMailbox
	mu       sync.Mutex
	free     bool // under mu: controller gone, every point is a no-op
	byGid    map[int64]*thread
	posters  []*thread
	consumer *thread
	pauses   []*thread
	events   chan event
	disp     *dispatcher
	inv      *invoker
	oracle   []bool
	clock    int64
	begin    int64
	maxCost  int64
	alive    atomic.Int32 // pause goroutines between T1 and TEnd
	tags     map[string]bool
	trace    []string // thread@point per executed step (diagnostics)
	timer    *time.Timer
	probing  bool // the schedule proper is over; remaining entries probe quiescence
}

var cur atomic.Pointer[exec]
var installOnce sync.Once

func goid() int64 {
	var buf [64]byte
	n := runtime.Stack(buf[:], false)
	var id int64
	for _, c := range buf[len("goroutine "):n] {
		if c < '0' || c > '9' {
			break
		}
		id = id*10 + int64(c-'0')
	}
	return id
}

// hook is the controller installed into the mailbox package; it runs on the goroutine
// that reached the point.
func hook(m *mailbox.SmoothFrameMailbox, name string) {
	e := cur.Load()
	if e == nil || e.m != m {
		return
	}
	switch name {
	case "T1":
		e.alive.Add(1)
	case "TEnd":
		defer e.alive.Add(-1)
	}
	e.mu.Lock()
	if e.free {
		e.mu.Unlock()
		return
	}
	gid := goid()
	th := e.byGid[gid]
	if th == nil {
		if name != "T1" {
			e.mu.Unlock()
			panic(fmt.Sprintf("c09: point %s reached by an unknown goroutine", name))
		}
		th = &thread{kind: 'T', idx: -1, release: make(chan struct{}, 1)}
		e.byGid[gid] = th
	}
	e.mu.Unlock()
	if name == "TEnd" {
		e.events <- event{th, evDone, name}
		return
	}
	e.events <- event{th, evPark, name}
	<-th.release
}

func (e *exec) register(th *thread) {
	e.mu.Lock()
	e.byGid[goid()] = th
	e.mu.Unlock()
}

func (e *exec) isFree() bool {
	e.mu.Lock()
	defer e.mu.Unlock()
	return e.free
}

func (e *exec) send(ev event) {
	if !e.isFree() {
		e.events <- ev
	}
}

func (e *exec) apply(ev event) {
	th := ev.th
	switch ev.kind {
	case evPark:
		th.state, th.point = tsParked, ev.point
		if th.kind == 'T' && th.idx < 0 {
			th.idx = len(e.pauses)
			e.pauses = append(e.pauses, th)
		}
	case evDone:
		th.state, th.point = tsDone, ""
	case evIdle:
		th.state, th.point = tsIdle, ""
	}
}

func (e *exec) wait() event {
	select { // fast path
	case ev := <-e.events:
		e.apply(ev)
		return ev
	default:
	}
	if !e.timer.Stop() {
		select {
		case <-e.timer.C:
		default:
		}
	}
	e.timer.Reset(20 * time.Second)
	select {
	case ev := <-e.events:
		e.apply(ev)
		return ev
	case <-e.timer.C:
		panic(fmt.Sprintf("c09: controller timed out; threads %v %v %v; trace %v", e.posters, e.consumer, e.pauses, e.trace))
	}
}

func (e *exec) lookup(s sid) *thread {
	i := s.idx
	if i < 0 { // Z.to_nat of a negative number is 0 in the model
		i = 0
	}
	switch s.kind {
	case 'P':
		if i < int64(len(e.posters)) {
			return e.posters[i]
		}
	case 'T':
		if i < int64(len(e.pauses)) {
			return e.pauses[i]
		}
	case 'C':
		return e.consumer
	}
	return nil
}

func (e *exec) enabled(th *thread) bool {
	if th == nil {
		return false
	}
	switch th.state {
	case tsParked:
		return true
	case tsIdle:
		return e.disp.size() > 0
	}
	return false
}

func (e *exec) threads() []*thread {
	l := append([]*thread{}, e.posters...)
	l = append(l, e.consumer)
	return append(l, e.pauses...)
}

func (e *exec) sidOfThread(th *thread) sid {
	return sid{th.kind, int64(th.idx)}
}

func (e *exec) anyEnabled() bool {
	for _, th := range e.threads() {
		if e.enabled(th) {
			return true
		}
	}
	return false
}

func in(p string, set ...string) bool {
	for _, s := range set {
		if p == s {
			return true
		}
	}
	return false
}

// noteRaces tags the interesting windows, judged by where the REAL threads are parked.
func (e *exec) noteRaces(th *thread) {
	cp := e.consumer.point
	switch th.kind {
	case 'P':
		if in(th.point, "U1", "U2", "Y1", "Y2", "Y3") && in(cp, "E2", "E3", "E4", "E5") {
			e.tags["race-post-vs-tail"] = true
		}
		if in(th.point, "S1", "S2") && in(cp, "E1", "E2", "E3", "E4", "E5") {
			e.tags["race-sched-vs-tail"] = true
		}
	case 'C':
		if th.point == "R2" {
			for _, p := range e.posters {
				if p.point == "Y2" {
					e.tags["sys-pop-while-unlinked"] = true
				}
			}
		}
		if th.point == "S3" {
			e.tags["tail-reschedules"] = true
		}
		if th.point == "BP" {
			e.tags["pause"] = true
		}
	}
	if in(th.point, "S1", "S2") {
		for _, p := range e.pauses {
			if p != th && p.point == "T2" {
				e.tags["race-sched-vs-unpause"] = true
			}
		}
	}
	if th.kind == 'T' && th.point == "T2" {
		for _, o := range e.threads() {
			if o != th && in(o.point, "S1", "S2") {
				e.tags["race-unpause-vs-sched"] = true
			}
		}
	}
}

// step releases the thread named by s for exactly one atomic step; false = it could not step.
func (e *exec) step(s sid) bool {
	th := e.lookup(s)
	if !e.enabled(th) {
		if e.probing {
			e.tags["quiescence-probed"] = true
		} else {
			e.tags["disabled-entry"] = true
		}
		return false
	}
	e.noteRaces(th)
	at := th.point
	if th.state == tsIdle {
		at = "C0"
		e.begin = e.clock // run() reads beginTime before the next point
	}
	if at == "R1" { // the cost check: cost > maxProcessCost must be exactly the oracle bit
		b := false
		if len(e.oracle) > 0 {
			b, e.oracle = e.oracle[0], e.oracle[1:]
		}
		if b {
			e.clock = e.begin + e.maxCost + 1
		} else {
			e.clock = e.begin + e.maxCost
		}
		mailbox.VerifSetNowNano(e.clock)
	}
	_, _, _, pausedBefore, _ := mailbox.VerifSnapshot(e.m)
	nBefore := len(e.pauses)
	e.trace = append(e.trace, fmt.Sprintf("%c%d@%s", th.kind, th.idx, at))
	th.state = tsRunning
	th.release <- struct{}{}
	for th.state == tsRunning {
		e.wait()
	}
	if at == "BP" {
		// a successful CAS 0->1 spawned a pause goroutine: wait until it has registered
		_, _, _, pausedAfter, _ := mailbox.VerifSnapshot(e.m)
		for !pausedBefore && pausedAfter && len(e.pauses) == nBefore {
			e.wait()
		}
	}
	return true
}

func (e *exec) snap() any {
	u, s, r, p, su := mailbox.VerifSnapshot(e.m)
	if su {
		e.tags["suspended"] = true
	}
	return hx.C("mkSnap", int64(u), int64(s), r, p, su, int64(e.disp.size()),
		mailbox.VerifUserQueueLen(e.m), int64(len(e.pauses)))
}

// chooser yields the next schedule entry (ok=false: stop).  It may inspect the
// controller's view of the threads.
type chooser func(e *exec, k int) (sid, bool)

type result struct {
	sched      []sid
	obs        hx.T
	tags       map[string]bool
	nontrivial bool
	quiescent  bool
	trace      []string
}

// execute runs one controlled execution of the real mailbox.
func execute(c config, choose chooser) result {
	installOnce.Do(func() { mailbox.VerifSetController(hook) })
	mb := mailbox.Producer(0)().(*mailbox.SmoothFrameMailbox)
	e := &exec{
		m: mb, byGid: map[int64]*thread{}, events: make(chan event, 1024),
		disp: &dispatcher{throughput: c.throughput}, inv: &invoker{}, oracle: append([]bool{}, c.oracle...),
		clock: 1_000_000_000, maxCost: mailbox.VerifMaxProcessCost(mb), tags: map[string]bool{},
	}
	e.begin = e.clock
	e.timer = time.NewTimer(time.Hour)
	defer e.timer.Stop()
	mailbox.VerifSetNowNano(e.clock)
	mb.RegisterHandlers(e.inv, e.disp)
	mb.Start()
	cur.Store(e)

	// posters
	var wg sync.WaitGroup
	for i, prog := range c.progs {
		th := &thread{kind: 'P', idx: i, release: make(chan struct{}, 1), state: tsRunning}
		e.posters = append(e.posters, th)
		wg.Add(1)
		go func(i int64, prog []pmsg) {
			defer wg.Done()
			e.register(th)
			for _, pm := range prog {
				switch pm.kind {
				case 'B': // ONE call: the mailbox posts every part, then the batch itself
					b := &batchMsg{poster: i, payload: pm.z}
					for _, p := range pm.parts {
						b.parts = append(b.parts, &userMsg{i, p})
					}
					mb.PostUserMessage(b)
				case 'U':
					mb.PostUserMessage(&userMsg{i, pm.z})
				case 'S':
					mb.PostSystemMessage(&actor.SuspendMailbox{})
				case 'R':
					mb.PostSystemMessage(&actor.ResumeMailbox{})
				default:
					mb.PostSystemMessage(&otherMsg{i, pm.z})
				}
			}
			e.send(event{th, evDone, ""})
		}(int64(i), prog)
	}
	// consumer
	var postersDone atomic.Bool
	consumerGone := make(chan struct{})
	e.consumer = &thread{kind: 'C', release: make(chan struct{}, 1), state: tsRunning}
	go func() {
		defer close(consumerGone)
		th := e.consumer
		e.register(th)
		e.send(event{th, evIdle, ""})
		for {
			<-th.release // C0 (or closed: the controller is gone)
			if e.isFree() {
				break
			}
			fn := e.disp.pop()
			if fn == nil {
				panic("c09: consumer released without a task")
			}
			fn()
			e.send(event{th, evIdle, ""})
		}
		// free-running drain so that no goroutine is left behind
		for {
			if fn := e.disp.pop(); fn != nil {
				fn()
				continue
			}
			_, _, _, paused, _ := mailbox.VerifSnapshot(mb)
			if postersDone.Load() && !paused && e.alive.Load() == 0 {
				if e.disp.size() == 0 {
					return
				}
				continue
			}
			time.Sleep(20 * time.Microsecond)
		}
	}()
	// every thread runs to its first point
	for n := 0; n < len(c.progs)+1; n++ {
		e.wait()
	}

	var res result
	var snaps, enabled []any
	for k := 0; ; k++ {
		s, ok := choose(e, k)
		if !ok {
			break
		}
		res.sched = append(res.sched, s)
		enabled = append(enabled, e.step(s))
		snaps = append(snaps, e.snap())
	}
	res.quiescent = !e.anyEnabled()
	if res.quiescent {
		e.tags["quiescent"] = true
		if u, s, _, _, su := mailbox.VerifSnapshot(mb); s == 0 && (u == 0 || su) {
			e.tags["quiescent-drained"] = true
		} else {
			e.tags["QUIESCENT-NOT-DRAINED"] = true
		}
	} else {
		e.tags["truncated"] = true
	}
	if len(e.pauses) > 0 {
		e.tags["pause-goroutine"] = true
	}
	ctlU := append([]any{}, e.inv.deliveredU...)
	ctlS := append([]any{}, e.inv.invokedS...)
	res.nontrivial = len(ctlU)+len(ctlS) > 0 || e.tags["suspended"]
	res.tags, res.trace = e.tags, e.trace
	// let everything run to completion without control
	e.mu.Lock()
	e.free = true
	for _, th := range e.byGid {
		close(th.release)
	}
	e.mu.Unlock()
	wg.Wait()
	postersDone.Store(true)
	<-consumerGone
	cur.Store(nil)
	mailbox.VerifForget(mb)
	if e.inv.failure != "" {
		panic("c09: the mailbox escalated a failure: " + e.inv.failure)
	}
	// observation = what was seen up to the end of the schedule; the free-running epilogue
	// is not part of the case
	res.obs = hx.C("mkObs", snaps, enabled, ctlU, ctlS)
	return res
}
