package c05

import (
	"fmt"
	"io"
	"net"
	"os"
	"runtime"
	"strconv"
	"strings"
	"sync"
	"sync/atomic"
	"time"

	"github.com/sirupsen/logrus"

	"github.com/dfklegend/cell2/node/builtin/msgs"
	"github.com/dfklegend/cell2/node/client/impls"
	"github.com/dfklegend/cell2/node/client/impls/pomelo"
	cs "github.com/dfklegend/cell2/node/client/session"
	"github.com/dfklegend/cell2/node/service"
	"github.com/dfklegend/cell2/pomelonet/common/conn/codec"
	"github.com/dfklegend/cell2/pomelonet/common/conn/message"
	"github.com/dfklegend/cell2/pomelonet/common/conn/packet"
	pi "github.com/dfklegend/cell2/pomelonet/interfaces"
	"github.com/dfklegend/cell2/pomelonet/server/session"
	"github.com/dfklegend/cell2/utils/common"
	"github.com/dfklegend/cell2/utils/logger"
	"github.com/dfklegend/cell2/utils/sche"

	"verifh/hx"
)

const (
	clockBase = int64(1000000) // virtual ms at the start of every case
	// every wait of a case is bounded: the first one that expires marks the case as hung, the
	// rest of the case is skipped and the case is emitted with hang = true - an observation
	// the model cannot produce, so it is reported (and shrunk) like any other disagreement
	watchdog     = 2 * time.Second
	teardownWait = 300 * time.Millisecond
	routeOfData  = "gate.h.m"
)

var initOnce sync.Once

func initGlobals() {
	initOnce.Do(func() {
		logger.GetLogProxy("default").SetLogLevel(logrus.PanicLevel)
		logger.GetLogProxy("exception").SetLogLevel(logrus.PanicLevel)
		// the real ticker of heartbeat() never fires during a case; ticks are placed by the
		// harness through VerifHeartbeatTick (the tick body) - see runRealTicker for the
		// cases that exercise the ticker itself.
		session.DefaultHeartbeatTime = time.Hour
	})
}

// sessProxy is what ClientSessions sees as the session: it forwards everything to the
// real *session.ClientSession and counts the pushes the front issued to it.
type sessProxy struct {
	k    *hconn
	real pi.IClientSession
}

func (p *sessProxy) Reserve()       {}
func (p *sessProxy) GetId() uint32  { return p.real.GetId() }
func (p *sessProxy) SetId(i uint32) { p.real.SetId(i) }
func (p *sessProxy) Close()         { p.real.Close() }
func (p *sessProxy) IsClosed() bool { return p.real.IsClosed() }
func (p *sessProxy) Push(route string, v interface{}) error {
	err := p.real.Push(route, v)
	if err == nil && atomic.LoadInt32(&p.k.closeCb) == 0 {
		atomic.AddInt32(&p.k.expW, 1)
	}
	atomic.AddInt32(&p.k.pushCalls, 1) // pushes that RETURNED (a parked push has not)
	return err
}
func (p *sessProxy) ResponseMID(mid uint, v interface{}, e error) error {
	return p.real.ResponseMID(mid, v, e)
}

// connImpl is the IClientSessionImpl handed to one ClientSession: counts the callbacks and
// forwards them to the real pomelo.SessionsImpl.
type connImpl struct {
	k    *hconn
	next pi.IClientSessionImpl
}

func (i *connImpl) OnSessionCreate(s pi.IClientSession) {
	i.k.proxy = &sessProxy{k: i.k, real: s}
	atomic.AddInt32(&i.k.created, 1)
	i.next.OnSessionCreate(i.k.proxy)
}
func (i *connImpl) OnSessionClose(s pi.IClientSession) {
	i.next.OnSessionClose(i.k.proxy)
	atomic.AddInt32(&i.k.closeCb, 1)
}
func (i *connImpl) ProcessMessage(s pi.IClientSession, m *message.Message) {
	i.next.ProcessMessage(i.k.proxy, m)
	atomic.AddInt32(&i.k.posted, 1)
}

type hconn struct {
	tok   int64
	sc    *srvConn
	dec   *holdDecoder
	sess  *session.ClientSession
	proxy *sessProxy

	created, closeCb, posted int32 // callbacks of the session (atomic)
	pushCalls, expW          int32 // pushes issued by the front; writes expected from the write loop
	rExited                  bool  // the read goroutine is known to be gone
	clientClosed             bool

	hbJob, floodJob *async // a heartbeat tick / a flood of pushes issued on its own goroutine

	tcp    bool     // OTcp scenario: real socket, no in-memory connection, nothing held
	client net.Conn // its client end
	tcpEOF int32    // the client end saw the server close
}

type world struct {
	conns  map[int64]*hconn
	order  []int64
	sch    *sche.Sche
	cs     *impls.ClientSessions
	simpl  *pomelo.SessionsImpl
	hlog   []any
	now    int64
	hang   bool
	enc    *codec.PomeloPacketEncoder
	menc   *message.MessagesEncoder
	tcpNew chan *hconn
	base   census // session goroutines leaked by EARLIER (broken) cases: not ours

	gateCh   chan struct{} // non-nil and open: OnSessionCreate of accepted connections waits here
	gateMu   sync.Mutex
	clients  []io.Closer // client ends of the socket connections of this case
	entered  int32       // OnSessionCreate calls that arrived at the gate
	panicked int32       // a call into the implementation panicked on a harness goroutine
	nextTok  int64

	asyncs   []*async // everything started on its own goroutine because it may park in a push
	ownerJob *async   // a PushMsg of the owning service that has not returned yet
}

// async: something that calls Push and may therefore park on a full send queue; the harness
// waits until it has returned or is parked (census: goroutine in pushToSend, "chan send")
type async struct{ done int32 }

func (a *async) busy() bool { return a != nil && atomic.LoadInt32(&a.done) == 0 }

func (w *world) spawn(f func()) *async {
	a := &async{}
	w.asyncs = append(w.asyncs, a)
	go func() {
		defer atomic.StoreInt32(&a.done, 1)
		w.guard(f)
	}()
	return a
}

// guard runs code of the implementation that the harness calls on one of its own goroutines
// (kick, Close, heartbeat tick, PushMsg, front steps): a panic in there is an observation -
// the case is emitted with hang = true, which the model cannot produce - not a harness crash.
func (w *world) guard(f func()) {
	defer func() {
		if e := recover(); e != nil {
			atomic.StoreInt32(&w.panicked, 1)
		}
	}()
	f()
}

func (w *world) pendingAsync() int {
	n := 0
	for _, a := range w.asyncs {
		if a.busy() {
			n++
		}
	}
	return n
}

// ---- recording ISessionsHandler ----
// The session-level close callbacks are registered with, kept by and fired from the REAL
// impls.HandlerComponent (AddOnSessionClose / OnSessionRemove).
type recHandler struct {
	w  *world
	hc *impls.HandlerComponent
}

func tokOf(fs *cs.FrontSession) int64 {
	if p, ok := fs.Session.(*sessProxy); ok {
		return p.k.tok
	}
	return -1
}

func msgNo(m *msgs.ClientMsg) int64 {
	n, err := strconv.ParseInt(string(m.Data), 10, 64)
	if err != nil {
		return -1
	}
	return n
}

func (h *recHandler) Process(fs *cs.FrontSession, m *msgs.ClientMsg) {
	if fs == nil {
		h.w.hlog = append(h.w.hlog, hx.C("HMsgNil", msgNo(m)))
		return
	}
	h.w.hlog = append(h.w.hlog, hx.C("HMsg", tokOf(fs), int64(fs.GetNetId()), msgNo(m)))
}
func (h *recHandler) OnSessionAdd(fs *cs.FrontSession) {
	h.w.hlog = append(h.w.hlog, hx.C("HAdd", tokOf(fs), int64(fs.GetNetId())))
	h.hc.OnSessionAdd(fs)
	h.hc.AddOnSessionClose(fs.GetNetId(), func(ns *service.NodeService, fs2 *cs.FrontSession) {
		h.w.hlog = append(h.w.hlog, hx.C("HOnClose", tokOf(fs2), int64(fs2.GetNetId())))
	})
}
func (h *recHandler) OnSessionRemove(fs *cs.FrontSession) {
	gone := h.w.cs.GetSession(fs.GetNetId()) == nil
	h.w.hlog = append(h.w.hlog, hx.C("HRemove", tokOf(fs), int64(fs.GetNetId()), gone))
	h.hc.OnSessionRemove(fs)
}

func newWorld() *world {
	initGlobals()
	w := &world{conns: map[int64]*hconn{}, now: clockBase, base: takeCensus()}
	w.base.starting = 0
	common.VerifSetNowMs(w.now)
	w.sch = sche.NewSche()
	w.cs = impls.NewClientSessions("front-c05")
	hc := impls.NewHandler(nil)
	hc.Init((*service.NodeService)(nil)) // OnSessionRemove hands GetNodeService() to the callback
	w.cs.SetHandler(&recHandler{w, hc})
	w.cs.SetOnCloseHandler(func(ns *service.NodeService, fs *cs.FrontSession) {
		w.hlog = append(w.hlog, hx.C("HCloseCb", tokOf(fs), int64(fs.GetNetId())))
	})
	w.simpl = pomelo.NewSessionsImpl(w.sch, w.cs)
	w.enc = codec.NewPomeloPacketEncoder()
	w.menc = message.NewMessagesEncoder(false)
	return w
}

// ---- goroutine census: how many goroutines are inside the session's three loops ----
var stackBuf = make([]byte, 1<<20)

type census struct{ read, write, hb, starting, sendBlocked int }

func (c census) total() int { return c.read + c.write + c.hb + c.starting }

func pos(n int) int {
	if n < 0 {
		return 0
	}
	return n
}

// census of THIS case: goroutines that earlier cases could not get rid of are not counted
func (w *world) census() census {
	c := takeCensus()
	return census{pos(c.read - w.base.read), pos(c.write - w.base.write), pos(c.hb - w.base.hb), c.starting,
		pos(c.sendBlocked - w.base.sendBlocked)}
}

func takeCensus() census {
	var n int
	for {
		n = runtime.Stack(stackBuf, true)
		if n < len(stackBuf) {
			break
		}
		stackBuf = make([]byte, 2*len(stackBuf))
	}
	var c census
	for _, g := range strings.Split(string(stackBuf[:n]), "\n\n") {
		if strings.Contains(g, "session.(*ClientSession).Handle.") {
			// `go s.read()` etc. not yet running (compiler wrapper frame): census not final
			c.starting++
			continue
		}
		if strings.Contains(g, "session.(*ClientSession).pushToSend") {
			// a sender parked on the full send queue: "goroutine N [chan send...]:"
			if nl := strings.IndexByte(g, '\n'); nl > 0 && strings.Contains(g[:nl], "[chan send") {
				c.sendBlocked++
			}
		}
		if strings.Contains(g, "session.(*ClientSession).read(") {
			c.read++
		}
		if strings.Contains(g, "session.(*ClientSession).write(") {
			c.write++
		}
		if strings.Contains(g, "session.(*ClientSession).heartbeat(") {
			c.hb++
		}
	}
	return c
}

// ---- quiescence ----
func (w *world) stable() bool {
	parked, unresolved := 0, 0
	for _, t := range w.order {
		k := w.conns[t]
		if k == nil || k.rExited || k.tcp {
			continue
		}
		k.sc.mu.Lock()
		rb := k.sc.rBlocked
		k.sc.mu.Unlock()
		if k.dec.isHeld() || rb {
			parked++
		} else {
			unresolved++
		}
	}
	if unresolved > 0 {
		// in transit, or gone: gone iff the census shows only the parked readers
		if cen := w.census(); cen.starting > 0 || cen.read != parked {
			return false
		}
		for _, t := range w.order {
			k := w.conns[t]
			if k == nil || k.rExited || k.tcp {
				continue
			}
			k.sc.mu.Lock()
			rb := k.sc.rBlocked
			k.sc.mu.Unlock()
			if !(k.dec.isHeld() || rb) {
				k.rExited = true
			}
		}
		return false // re-evaluate once more with the new knowledge
	}
	if n := w.pendingAsync(); n > 0 {
		// every pusher has returned or is parked on a full queue
		if w.census().sendBlocked != n || w.pendingAsync() != n {
			return false
		}
	}
	for _, t := range w.order {
		k := w.conns[t]
		if k == nil || atomic.LoadInt32(&k.closeCb) > 0 || k.tcp {
			continue
		}
		k.sc.mu.Lock()
		seen, failed, parked := k.sc.wHb+k.sc.wPush, k.sc.wFailed, k.sc.wBlocked
		k.sc.mu.Unlock()
		if parked {
			continue // the write loop sits in a Write the client does not take
		}
		if seen < int(atomic.LoadInt32(&k.expW)) {
			return false // the write loop still has work queued
		}
		if failed > 0 {
			return false // a write of the loop failed: its deferred Close is on the way
		}
	}
	return true
}

func (w *world) waitFor(cond func() bool) {
	if atomic.LoadInt32(&w.panicked) != 0 {
		w.hang = true
	}
	if w.hang {
		return // the case is already lost: do not pay for another watchdog
	}
	deadline := time.Now().Add(watchdog)
	for i := 0; ; i++ {
		if cond() {
			return
		}
		if time.Now().After(deadline) {
			w.hang = true
			if os.Getenv("C05_DEBUG") != "" {
				buf := make([]byte, 4096)
				fmt.Fprintf(os.Stderr, "c05: watchdog expired at\n%s\n", buf[:runtime.Stack(buf, false)])
			}
			return
		}
		if i < 50 {
			runtime.Gosched()
		} else {
			time.Sleep(20 * time.Microsecond)
		}
	}
}

func (w *world) settle() { w.waitFor(w.stable) }

// ---- packets ----
func (w *world) bytesOf(p hx.T) (b []byte, thenClose bool) {
	mk := func(t packet.Type, body []byte) []byte {
		out, err := w.enc.Encode(t, body)
		if err != nil {
			panic(err)
		}
		return out
	}
	switch p.Name {
	case "PHandshake":
		return mk(packet.Handshake, []byte(`{"sys":{"platform":"verif","libVersion":"1"},"user":{}}`)), false
	case "PHandshakeBad":
		return mk(packet.Handshake, []byte(`{"sys":`)), false
	case "PAck":
		return mk(packet.HandshakeAck, nil), false
	case "PData":
		body, err := w.menc.Encode(&message.Message{Type: message.Notify, Route: routeOfData,
			Data: []byte(strconv.FormatInt(p.Int(0), 10))})
		if err != nil {
			panic(err)
		}
		return mk(packet.Data, body), false
	case "PDataBad":
		return mk(packet.Data, []byte{0x00, 0x01}), false // request flag, id, then nothing: message.Decode fails
	case "PHeartbeat":
		return mk(packet.Heartbeat, nil), false
	case "POther":
		return mk(packet.Kick, []byte("x")), false // a valid packet type the server ignores
	case "PBadType":
		return []byte{0x09, 0, 0, 1, 0x41}, false // header type out of range
	case "PTruncEof":
		return []byte{byte(packet.Data), 0, 0, 10, 1, 2, 3}, true // 10 announced, 3 sent, then close
	case "PDecErr":
		return mk(packet.Heartbeat, decErrMarker), false
	}
	panic("c05: unknown packet class " + p.Name)
}

// ---- operations ----
func (w *world) connect(tok int64) { w.connectWith(tok, 0) }

// connectWith: ticker > 0 starts this session's heartbeat() with a real ticker of that period
// (DefaultHeartbeatTime is read once, when heartbeat() starts).
func (w *world) connectWith(tok int64, ticker time.Duration) {
	if _, ok := w.conns[tok]; ok {
		return
	}
	if ticker > 0 {
		session.DefaultHeartbeatTime = ticker
		defer func() {
			// heartbeat() has created its ticker once it is parked in its select
			w.waitFor(func() bool { c := w.census(); return c.starting == 0 && c.hb > 0 })
			time.Sleep(2 * time.Millisecond)
			session.DefaultHeartbeatTime = time.Hour
		}()
	}
	k := &hconn{tok: tok, sc: newSrvConn(), dec: newHoldDecoder()}
	cfg := session.NewSessionConfig(nil)
	cfg.Decoder = k.dec
	cfg.Impl = &connImpl{k: k, next: w.simpl}
	w.conns[tok] = k
	w.order = append(w.order, tok)
	// what pomelo.StartAcceptor does for every accepted connection:
	k.sess = session.NewClientSession(k.sc, cfg)
	k.sess.Handle()
}

func (w *world) idOf(tok int64) (uint32, bool) {
	k, ok := w.conns[tok]
	if !ok {
		return 0, false
	}
	id := k.sess.GetId()
	return id, id != 0
}

func (w *world) heartbeat(k *hconn) {
	if k.hbJob.busy() {
		return // the previous tick is still parked in its send
	}
	k.hbJob = w.spawn(func() {
		before := k.sess.GetStatus()
		k.sess.VerifHeartbeatTick()
		if before == session.StatusWorking && atomic.LoadInt32(&k.closeCb) == 0 {
			atomic.AddInt32(&k.expW, 1)
		}
	})
}

func (w *world) flood(k *hconn, n int64) {
	if k.floodJob.busy() || n <= 0 {
		return
	}
	k.floodJob = w.spawn(func() {
		for i := int64(0); i < n; i++ {
			k.proxy.Push("push.r", []byte("p"))
		}
	})
}

// doKick: a user-supplied kick handler ("tell the client first, then kick") reduced to the kick
type doKick struct{}

func (doKick) HandleKick(ns *service.NodeService, sessions *impls.ClientSessions, netId uint32) {
	sessions.DoKick(netId)
}

func pushOf(ids ...uint32) *msgs.PushMsg {
	return &msgs.PushMsg{Ids: ids, Route: "push.r", Data: []byte("p")}
}

func (w *world) frontOne() bool {
	select {
	case t := <-w.sch.GetChanTask():
		if t != nil {
			w.sch.DoTask(t)
		}
		return true
	default:
		return false
	}
}

// simple = an op that may also run inside ORace (on its own goroutine)
func (w *world) simple(o hx.T) {
	switch o.Name {
	case "ORelease":
		if k, ok := w.conns[o.Int(0)]; ok {
			k.dec.free()
		}
	case "OClientClose":
		if k, ok := w.conns[o.Int(0)]; ok {
			k.clientClosed = true
			k.sc.clientClose()
		}
	case "OKick":
		if id, ok := w.idOf(o.Int(0)); ok && !w.ownerJob.busy() {
			// connections with an even token are kicked through a customised kick handler
			// (ClientSessions.SetKickHandler -> HandleKick -> DoKick), the others by default
			if o.Int(0)%2 == 0 {
				w.cs.SetKickHandler(doKick{})
			} else {
				w.cs.SetKickHandler(nil)
			}
			w.guard(func() { w.cs.Kick(id) })
		}
	case "OCloseExt":
		if k, ok := w.conns[o.Int(0)]; ok {
			w.guard(k.sess.Close)
		}
	case "OCloseErr":
		if k, ok := w.conns[o.Int(0)]; ok && !k.tcp {
			k.sc.mu.Lock()
			k.sc.closeErr = true
			k.sc.mu.Unlock()
		}
	case "OHeartbeat":
		if k, ok := w.conns[o.Int(0)]; ok {
			w.heartbeat(k)
		}
	case "OWfail":
		if k, ok := w.conns[o.Int(0)]; ok {
			k.sc.setWfail()
		}
	case "OWstall":
		if k, ok := w.conns[o.Int(0)]; ok {
			k.sc.setWstall()
		}
	default:
		panic("c05: op not allowed here: " + o.Name)
	}
}

func (w *world) exec(o hx.T) {
	switch o.Name {
	case "OConnect":
		w.connect(o.Int(0))
	case "OSend":
		if k, ok := w.conns[o.Int(0)]; ok && !k.clientClosed {
			b, thenClose := w.bytesOf(o.Term(1))
			k.sc.clientWrite(b)
			if thenClose {
				k.clientClosed = true
				k.sc.clientClose()
			}
		}
	case "OTick":
		d := o.Int(0)
		if d < 0 {
			d = 0
		}
		w.now += d
		common.VerifSetNowMs(w.now)
	case "OPush":
		var ids []uint32
		for _, t := range o.Ints(0) {
			if id, ok := w.idOf(t); ok {
				ids = append(ids, id)
			}
		}
		if !w.ownerJob.busy() {
			// the owning service's goroutine: it may park inside session.Push
			m := pushOf(ids...)
			w.ownerJob = w.spawn(func() { w.cs.PushMsg(m) })
		}
	case "OFront":
		if !w.ownerJob.busy() {
			w.frontOne()
		}
	case "ODrain":
		for !w.ownerJob.busy() && w.frontOne() {
		}
	case "OSetNext":
		if !w.ownerJob.busy() {
			w.cs.VerifSetNextId(uint32(o.Int(0)))
		}
	case "OFlood":
		if k, ok := w.conns[o.Int(0)]; ok {
			w.flood(k, o.Int(1))
		}
	case "OBurst":
		w.burst(o.Int(0))
		return
	case "ORealTicker":
		w.realTicker(o.Int(0))
		return
	case "OTcp":
		w.netScenario(0, o.Int(0), o.Int(1))
		return
	case "ONet":
		w.netScenario(int(o.Int(0)), o.Int(1), o.Int(2))
		return
	case "ORace", "ORaceRel":
		subs := hx.Terms(o.Args[len(o.Args)-1])
		if o.Name == "ORaceRel" {
			subs = append([]hx.T{hx.C("ORelease", o.Int(0))}, subs...)
		}
		var wg sync.WaitGroup
		start := make(chan struct{})
		for _, s := range subs {
			wg.Add(1)
			go func(s hx.T) {
				defer wg.Done()
				<-start
				w.simple(s)
			}(s)
		}
		close(start)
		wg.Wait()
	default:
		w.simple(o)
	}
	w.settle()
}

// realTicker: the scenario of Model.rt_script with heartbeat() ticking for real (2 ms) and
// the harness WAITING for the ticker to notice the expiry instead of placing the tick.
func (w *world) realTicker(k int64) {
	if k > 20 {
		k = 20
	}
	if k < 0 {
		k = 0
	}
	w.connectWith(1, 2*time.Millisecond)
	w.settle()
	kc := w.conns[1]
	// with the ticker running, heartbeat packets are written all the time: the write loop is
	// never "behind" in the sense of stable(); give it an unreachable head start
	do := func(o hx.T) { w.exec(o) }
	do(hx.C("OSend", 1, "PHandshake"))
	do(hx.C("ORelease", 1))
	do(hx.C("OSend", 1, "PAck"))
	do(hx.C("ORelease", 1))
	for m := int64(1); m <= k; m++ {
		do(hx.C("OSend", 1, hx.C("PData", m)))
		do(hx.C("ORelease", 1))
	}
	if k%2 == 1 {
		do(hx.C("OSend", 1, hx.C("PData", 100)))
	}
	do(hx.C("ODrain"))
	// let a few real ticks pass while nothing is due: the session must stay open
	time.Sleep(6 * time.Millisecond)
	do(hx.C("OTick", 20000))
	w.waitFor(func() bool { return atomic.LoadInt32(&kc.closeCb) > 0 })
	w.settle()
	do(hx.C("ORelease", 1))
	do(hx.C("ODrain"))
}

// finish measures the end state, then tears everything down (not observed) and reports
// whether the goroutine count came back to the baseline.
func (w *world) observe() (fins []any, alive, blocked int64) {
	// closed sessions: write loop and heartbeat must go away, the reader too unless the
	// harness itself still holds it in the decoder
	want := func() int {
		n := 0
		for _, t := range w.order {
			k := w.conns[t]
			if k == nil {
				continue
			}
			if atomic.LoadInt32(&k.closeCb) > 0 {
				if !k.tcp && k.dec.isHeld() {
					n++
				}
			} else {
				n += 2
				if !k.rExited {
					n++
				}
			}
		}
		return n
	}
	var last census
	w.waitFor(func() bool { last = w.census(); return last.total() == want() })
	if w.hang {
		last = w.census()
	}
	alive = int64(last.total())
	blocked = int64(last.sendBlocked)
	for _, t := range w.order {
		k := w.conns[t]
		if k == nil {
			// dialled, accepted by the kernel, never became a session
			fins = append(fins, hx.C("CFin", t, int64(0), int64(0), int64(0), int64(0), false))
			continue
		}
		if k.tcp {
			// conn.Close() calls cannot be counted on a real socket: what IS measured is that
			// the peer saw the connection close
			n := int64(atomic.LoadInt32(&k.closeCb))
			fins = append(fins, hx.C("CFin", t, n, n, int64(atomic.LoadInt32(&k.pushCalls)), int64(0),
				atomic.LoadInt32(&k.tcpEOF) == 1 && n > 0))
			continue
		}
		k.sc.mu.Lock()
		fins = append(fins, hx.C("CFin", t, int64(atomic.LoadInt32(&k.closeCb)), int64(k.sc.closeCalls),
			int64(atomic.LoadInt32(&k.pushCalls)), int64(k.sc.sentPush), k.sc.peerEOF))
		k.sc.mu.Unlock()
	}
	return
}

func (w *world) teardown() (clean bool) {
	if w.gateCh != nil {
		w.openGate()
	}
	for _, cl := range w.clients {
		cl.Close()
	}
	for _, t := range w.order {
		k := w.conns[t]
		if k == nil {
			continue
		}
		k.sess.Close()
		if k.tcp {
			tcpImps.Delete(pi.IClientSession(k.sess))
			continue
		}
		k.sc.clientClose()
	}
	deadline := time.Now().Add(teardownWait)
	for {
		for _, t := range w.order {
			if k := w.conns[t]; k != nil && !k.tcp {
				k.dec.free()
			}
		}
		for !w.ownerJob.busy() && w.frontOne() {
		}
		if c := w.census(); c.total() == 0 && c.sendBlocked == 0 && w.pendingAsync() == 0 {
			clean = true
			break
		}
		if time.Now().After(deadline) {
			break
		}
		time.Sleep(50 * time.Microsecond)
	}
	common.VerifSetNowMs(0)
	return
}

// Exec runs one fault sequence on fresh real objects.
// obs = Obs hlog [CFin ...] alive hang leak
// hung: a watchdog expired or the case could not be torn down (time was lost on it).
func Exec(ops []hx.T) (obs any, nontrivial bool, hung bool) {
	for _, o := range ops {
		if o.Name == "ONet" {
			if t := int(o.Int(0)); t >= 0 && t <= 3 {
				startNet(t) // the acceptors' own goroutines live for the whole process
			}
		}
		if o.Name == "OTcp" || o.Name == "OBurst" {
			startNet(0) // the acceptor's own goroutines live for the whole process
		}
	}
	base := runtime.NumGoroutine()
	w := newWorld()
	for _, o := range ops {
		if w.hang {
			break // the rest of the sequence would only wait for more watchdogs
		}
		w.exec(o)
	}
	fins, alive, blocked := w.observe()
	hlog := append([]any{}, w.hlog...)
	hang := w.hang || atomic.LoadInt32(&w.panicked) != 0
	w.hang = false
	clean := w.teardown()
	leak := !clean
	if clean {
		// every goroutine the case started is gone again
		d := time.Now().Add(teardownWait)
		for runtime.NumGoroutine() > base && time.Now().Before(d) {
			time.Sleep(50 * time.Microsecond)
		}
		leak = runtime.NumGoroutine() > base
	}
	for _, e := range hlog {
		if e.(hx.T).Name == "HRemove" {
			nontrivial = true
		}
	}
	return hx.C("Obs", hlog, fins, alive, blocked, hang, leak), nontrivial, hang || leak
}
