package c05

import (
	"crypto/tls"
	"net"
	"path/filepath"
	"reflect"
	"runtime"
	"strings"
	"sync"
	"sync/atomic"
	"time"

	"github.com/gorilla/websocket"

	"github.com/dfklegend/cell2/node/client/impls/pomelo"
	"github.com/dfklegend/cell2/pomelonet/common/conn/message"
	pi "github.com/dfklegend/cell2/pomelonet/interfaces"
	"github.com/dfklegend/cell2/pomelonet/server/acceptor"
	"github.com/dfklegend/cell2/pomelonet/server/session"

	"verifh/hx"
)

// Connections over REAL sockets.  The transport is a dimension of every such connection:
//   0 TCP        acceptor.NewTCPAcceptor(addr)              tcpPlayerConn over *net.TCPConn
//   1 TCP + TLS  acceptor.NewTCPAcceptor(addr, crt, key)    tcpPlayerConn over *tls.Conn
//   2 websocket  acceptor.NewWSAcceptor(addr)               WSConn over gorilla
//   3 wss        acceptor.NewWSAcceptor(addr, crt, key)     WSConn over gorilla over TLS
// each accepted by the real acceptor, handed to NewClientSession/Handle by the real
// pomelo.StartAcceptor.  Nothing is held; the harness only waits for the callbacks.
// One acceptor per transport and process (StartAcceptor's goroutines never end); their
// SessionConfig.Impl dispatches to the world that is current.  The certificates are the
// repository's own fixtures (pomelonet/server/acceptor/fixtures).

type netAcc struct {
	once sync.Once
	acc  acceptor.Acceptor
}

var (
	nets    [4]netAcc
	tcpMu   sync.Mutex
	tcpCur  *world
	tcpImps sync.Map // pi.IClientSession -> *connImpl
)

type tcpDispatch struct{}

func (tcpDispatch) OnSessionCreate(s pi.IClientSession) {
	tcpMu.Lock()
	w := tcpCur
	tcpMu.Unlock()
	// the owning service is busy: scheduler.Post inside OnSessionCreate would block
	atomic.AddInt32(&w.entered, 1)
	w.gateMu.Lock()
	g := w.gateCh
	w.gateMu.Unlock()
	if g != nil {
		<-g
	}
	k := &hconn{tcp: true, rExited: true}
	k.sess = s.(*session.ClientSession)
	ci := &connImpl{k: k, next: w.simpl}
	tcpImps.Store(s, ci)
	ci.OnSessionCreate(s)
	w.tcpNew <- k
}
func (tcpDispatch) OnSessionClose(s pi.IClientSession) {
	if ci, ok := tcpImps.Load(s); ok {
		ci.(*connImpl).OnSessionClose(s)
	}
}
func (tcpDispatch) ProcessMessage(s pi.IClientSession, m *message.Message) {
	if ci, ok := tcpImps.Load(s); ok {
		ci.(*connImpl).ProcessMessage(s, m)
	}
}

// fixtures: next to the acceptor's source file in the repository the harness was built against
func fixtureDir() string {
	f := runtime.FuncForPC(reflect.ValueOf(acceptor.NewTCPAcceptor).Pointer())
	file, _ := f.FileLine(f.Entry())
	return filepath.Join(filepath.Dir(file), "fixtures")
}

func startNet(t int) {
	n := &nets[t]
	n.once.Do(func() {
		initGlobals()
		crt, key := filepath.Join(fixtureDir(), "server.crt"), filepath.Join(fixtureDir(), "server.key")
		switch t {
		case 0:
			n.acc = acceptor.NewTCPAcceptor("127.0.0.1:0")
		case 1:
			n.acc = acceptor.NewTCPAcceptor("127.0.0.1:0", crt, key)
		case 2:
			n.acc = acceptor.NewWSAcceptor("127.0.0.1:0")
		default:
			n.acc = acceptor.NewWSAcceptor("127.0.0.1:0", crt, key)
		}
		cfg := session.NewSessionConfig(nil)
		cfg.Impl = tcpDispatch{}
		pomelo.StartAcceptor(n.acc, cfg)
		for i := 0; n.acc.GetAddr() == "" && i < 5000; i++ {
			time.Sleep(time.Millisecond)
		}
	})
}

func netAddr(t int) string { return nets[t].acc.GetAddr() }

// netClient: the client end of one connection, over any of the transports
type netClient struct {
	t   int
	raw *net.TCPConn    // the socket itself (below TLS / websocket)
	c   net.Conn        // what pomelo bytes are written to (TCP, TLS)
	ws  *websocket.Conn // websocket transports
	got int64           // bytes / messages received
	eof int32           // the server's close has been seen (or the client closed itself)
}

func dialNet(t int, stalled bool) (*netClient, error) {
	x := &netClient{t: t}
	dial := func(network, addr string) (net.Conn, error) {
		c, err := net.DialTimeout(network, addr, watchdog)
		if err != nil {
			return nil, err
		}
		x.raw = c.(*net.TCPConn)
		return c, nil
	}
	tcfg := &tls.Config{InsecureSkipVerify: true}
	switch t {
	case 0:
		c, err := dial("tcp", netAddr(t))
		if err != nil {
			return nil, err
		}
		x.c = c
	case 1:
		c, err := dial("tcp", netAddr(t))
		if err != nil {
			return nil, err
		}
		tc := tls.Client(c, tcfg)
		c.SetDeadline(time.Now().Add(watchdog))
		if err := tc.Handshake(); err != nil {
			c.Close()
			return nil, err
		}
		c.SetDeadline(time.Time{})
		x.c = tc
	default:
		d := websocket.Dialer{NetDial: dial, TLSClientConfig: tcfg, HandshakeTimeout: watchdog}
		scheme := "ws://"
		if t == 3 {
			scheme = "wss://"
		}
		wc, _, err := d.Dial(scheme+netAddr(t)+"/", nil)
		if err != nil {
			return nil, err
		}
		x.ws = wc
	}
	return x, nil
}

// send: one pomelo packet (websocket: one binary message per packet)
func (x *netClient) send(b []byte) {
	if x.ws != nil {
		x.ws.WriteMessage(websocket.BinaryMessage, b)
		return
	}
	x.c.Write(b)
}

// readOne blocks for the next chunk / message from the server
func (x *netClient) readOne() error {
	if x.ws != nil {
		_, m, err := x.ws.ReadMessage()
		atomic.AddInt64(&x.got, int64(len(m)))
		return err
	}
	buf := make([]byte, 256<<10)
	m, err := x.c.Read(buf)
	atomic.AddInt64(&x.got, int64(m))
	return err
}

// reader: the client takes whatever the server writes, until the server closes
func (x *netClient) reader() {
	go func() {
		for {
			if err := x.readOne(); err != nil {
				atomic.StoreInt32(&x.eof, 1)
				return
			}
		}
	}()
}

// closePolite: FIN (TLS: close_notify first; websocket: close frame first)
func (x *netClient) closePolite() {
	if x.ws != nil {
		x.ws.WriteControl(websocket.CloseMessage, websocket.FormatCloseMessage(websocket.CloseNormalClosure, ""),
			time.Now().Add(time.Second))
		x.ws.Close()
	} else {
		x.c.Close()
	}
	atomic.StoreInt32(&x.eof, 1)
}

// abort: the peer is gone with a RST, below TLS / websocket (crash, kill, NAT reset)
func (x *netClient) abort() {
	x.raw.SetLinger(0)
	x.raw.Close()
	atomic.StoreInt32(&x.eof, 1)
}

func (x *netClient) Close() error { return x.raw.Close() }

// writerParked: the session's write goroutine sits in the socket write ("IO wait")
func writerParked() bool {
	var n int
	for {
		n = runtime.Stack(stackBuf, true)
		if n < len(stackBuf) {
			break
		}
		stackBuf = make([]byte, 2*len(stackBuf))
	}
	for _, g := range strings.Split(string(stackBuf[:n]), "\n\n") {
		if strings.Contains(g, "session.(*ClientSession).write(") {
			if nl := strings.IndexByte(g, '\n'); nl > 0 && strings.Contains(g[:nl], "[IO wait") {
				return true
			}
		}
	}
	return false
}

// netScenario: Model.net_script over transport t.
func (w *world) netScenario(t int, v, n int64) {
	if t < 0 || t > 3 {
		t = 0
	}
	if n > 20 {
		n = 20
	}
	if n < 0 {
		n = 0
	}
	startNet(t)
	w.tcpNew = make(chan *hconn, 1024)
	tcpMu.Lock()
	tcpCur = w
	tcpMu.Unlock()
	w.order = append(w.order, 1)
	stalled := v == 9 || v == 10
	cl, err := dialNet(t, stalled)
	if err != nil {
		w.hang = true
		return
	}
	w.clients = append(w.clients, cl)
	var k *hconn
	select {
	case k = <-w.tcpNew:
	case <-time.After(watchdog):
		w.hang = true
		return
	}
	k.tok = 1
	w.conns[1] = k
	if !stalled {
		cl.reader()
	}
	wr := func(p any) {
		b, _ := w.bytesOf(hx.AsTerm(p))
		cl.send(b)
	}
	drain := func() {
		for w.frontOne() {
		}
	}
	closed := func() bool { return atomic.LoadInt32(&k.closeCb) > 0 }
	id := func() uint32 { return k.sess.GetId() }
	if v == 5 {
		wr("PHandshakeBad")
	} else {
		wr("PHandshake")
		if stalled {
			cl.readOne() // the handshake response; from now on this client reads nothing
		}
		w.waitFor(func() bool { return atomic.LoadInt64(&cl.got) > 0 })
		wr("PAck")
		w.waitFor(func() bool { return k.sess.GetStatus() == session.StatusWorking })
		for m := int64(1); m <= n; m++ {
			wr(hx.C("PData", m))
			w.waitFor(func() bool { return int64(atomic.LoadInt32(&k.posted)) >= m })
		}
		drain()
		switch v {
		case 0:
			cl.closePolite()
		case 1:
			cl.send([]byte{0x09, 0, 0, 1, 0x41})
		case 2:
			wr("PTruncEof")
			cl.closePolite()
		case 3:
			w.guard(func() { w.cs.Kick(id()) })
		case 4:
			wr("PDataBad")
		case 6:
			cl.abort()
		case 7:
			w.exec(hx.C("OTick", 20000))
			w.heartbeat(k)
		case 8:
			// a frame longer than its header announces (websocket: one message; on a byte stream
			// the surplus is the next, illegal, header)
			b, _ := w.bytesOf(hx.AsTerm("PHeartbeat"))
			cl.send(append(b, 0x09, 0, 0, 1, 0x41))
		case 9, 10:
			// fill the socket until the session's write goroutine is parked in the kernel
			chunk := make([]byte, 64<<10)
			for i := 0; i < 4000 && !writerParked(); i++ {
				k.sess.Push("push.fill", chunk)
				if i%8 == 7 {
					time.Sleep(time.Millisecond)
				}
			}
			w.waitFor(writerParked)
			// two pushes of the owning service: they queue up behind the parked writer
			for i := 0; i < 2; i++ {
				w.guard(func() { w.cs.PushMsg(pushOf(id())) })
			}
			if v == 9 {
				w.guard(func() { w.cs.Kick(id()) })
			} else {
				w.exec(hx.C("OTick", 20000))
				w.heartbeat(k)
			}
		default:
			cl.closePolite()
		}
	}
	w.waitFor(func() bool { return w.pendingAsync() == 0 })
	w.waitFor(closed)
	if stalled {
		// now the client looks again: behind what was in flight it must find the connection closed
		cl.reader()
	}
	// the peer sees the server's close (or closed itself)
	w.waitFor(func() bool { return atomic.LoadInt32(&cl.eof) == 1 })
	if atomic.LoadInt32(&cl.eof) == 1 {
		atomic.StoreInt32(&k.tcpEOF, 1)
	}
	drain()
}

func (w *world) openGate() {
	w.gateMu.Lock()
	if w.gateCh != nil {
		close(w.gateCh)
		w.gateCh = nil
	}
	w.gateMu.Unlock()
}

// burst: Model.burst_script on the real acceptor.  The owning service is busy (the first
// OnSessionCreate parks StartAcceptor's loop), n clients connect one after the other (so the
// k-th accepted connection is the k-th client), connChan fills up, the accept loop parks;
// then the service catches up.  Every client then talks (its message carries its own number:
// the session it arrives on must be the one created k-th) and closes.
func (w *world) burst(n int64) {
	if n > 400 {
		n = 400
	}
	if n < 0 {
		n = 0
	}
	startNet(0)
	w.tcpNew = make(chan *hconn, 1024)
	w.gateCh = make(chan struct{})
	tcpMu.Lock()
	tcpCur = w
	tcpMu.Unlock()
	type cli struct {
		c   net.Conn
		got int64
		eof int32
	}
	clis := make([]*cli, 0, n)
	for i := int64(1); i <= n; i++ {
		w.order = append(w.order, i)
		c, err := net.Dial("tcp", netAddr(0))
		if err != nil {
			w.hang = true
			return
		}
		x := &cli{c: c}
		clis = append(clis, x)
		w.clients = append(w.clients, c)
		go func() {
			buf := make([]byte, 4096)
			for {
				m, err := x.c.Read(buf)
				atomic.AddInt64(&x.got, int64(m))
				if err != nil {
					atomic.StoreInt32(&x.eof, 1)
					return
				}
			}
		}()
	}
	if n > 0 {
		// the hand-over queue is as full as it gets; give the accept loop the time to take the
		// next connection (and park on the full queue)
		fill := int(n - 1)
		if fill > 99 {
			fill = 99
		}
		w.waitFor(func() bool {
			return atomic.LoadInt32(&w.entered) >= 1 && len(nets[0].acc.GetConnChan()) >= fill
		})
		time.Sleep(30 * time.Millisecond)
	}
	w.openGate()
	for i := int64(1); i <= n && !w.hang; i++ {
		select {
		case k := <-w.tcpNew:
			k.tok = i
			k.client = clis[i-1].c
			w.conns[i] = k
		case <-time.After(watchdog):
			w.hang = true
		}
	}
	drain := func() {
		for w.frontOne() {
		}
	}
	drain()
	wr := func(c net.Conn, p any) {
		b, _ := w.bytesOf(hx.AsTerm(p))
		c.Write(b)
	}
	for i := int64(1); i <= n && !w.hang; i++ {
		k, x := w.conns[i], clis[i-1]
		wr(x.c, "PHandshake")
		w.waitFor(func() bool { return atomic.LoadInt64(&x.got) > 0 })
		wr(x.c, "PAck")
		w.waitFor(func() bool { return k.sess.GetStatus() == session.StatusWorking })
		wr(x.c, hx.C("PData", i))
		w.waitFor(func() bool { return atomic.LoadInt32(&k.posted) >= 1 })
	}
	drain()
	for i := int64(1); i <= n && !w.hang; i++ {
		k, x := w.conns[i], clis[i-1]
		x.c.Close()
		w.waitFor(func() bool { return atomic.LoadInt32(&k.closeCb) > 0 })
		atomic.StoreInt32(&k.tcpEOF, 1) // the client closed this one itself
	}
	drain()
}
