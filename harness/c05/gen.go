package c05

import (
	"fmt"
	"math/rand"
	"sort"

	"verifh/hx"
)

// ---- building blocks of fault sequences ----
func op(name string, args ...any) hx.T { return hx.C(name, args...) }

func send(c int64, p any) hx.T { return op("OSend", c, p) }
func rel(c int64) hx.T         { return op("ORelease", c) }
func data(m int64) hx.T        { return hx.C("PData", m) }

// stage = how far connection c got before the end cause(s) strike
type stage struct {
	name string
	ops  func(c int64) []hx.T
	held bool // the reader is parked with a packet read but not yet processed
}

func toWorking(c int64) []hx.T {
	return []hx.T{op("OConnect", c), send(c, "PHandshake"), rel(c), send(c, "PAck"), rel(c)}
}

var stages = []stage{
	{"start-undrained", func(c int64) []hx.T { return []hx.T{op("OConnect", c)} }, false},
	{"start", func(c int64) []hx.T { return []hx.T{op("OConnect", c), op("ODrain")} }, false},
	{"handshake-inflight", func(c int64) []hx.T { return []hx.T{op("OConnect", c), op("ODrain"), send(c, "PHandshake")} }, true},
	{"handshake-done", func(c int64) []hx.T {
		return []hx.T{op("OConnect", c), send(c, "PHandshake"), rel(c), send(c, data(50)), rel(c), op("ODrain")}
	}, false},
	{"ack-inflight", func(c int64) []hx.T {
		return []hx.T{op("OConnect", c), send(c, "PHandshake"), rel(c), op("ODrain"), send(c, "PAck")}
	}, true},
	{"working", func(c int64) []hx.T { return append(toWorking(c), op("ODrain")) }, false},
	{"working-msgs", func(c int64) []hx.T {
		return append(toWorking(c), send(c, data(51)), rel(c), send(c, "PHeartbeat"), rel(c), send(c, data(52)), rel(c), op("ODrain"), op("OPush", []int64{c}))
	}, false},
	{"msg-inflight", func(c int64) []hx.T {
		return append(toWorking(c), send(c, data(51)), rel(c), op("ODrain"), send(c, data(52)), send(c, data(53)))
	}, true},
	{"msg-inflight-undrained", func(c int64) []hx.T {
		return append(toWorking(c), send(c, data(51)), rel(c), send(c, data(52)))
	}, true},
}

// cause = one way of ending connection c
type cause struct {
	name   string
	ops    func(c int64) []hx.T
	simple []string // the same cause as a single op that can take part in a race ("" = none)
}

var causes = []cause{
	{"client-close", func(c int64) []hx.T { return []hx.T{op("OClientClose", c)} }, []string{"OClientClose"}},
	{"kick", func(c int64) []hx.T { return []hx.T{op("OKick", c)} }, []string{"OKick"}},
	{"close-ext", func(c int64) []hx.T { return []hx.T{op("OCloseExt", c)} }, []string{"OCloseExt"}},
	{"heartbeat-expiry", func(c int64) []hx.T { return []hx.T{op("OTick", 20000), op("OHeartbeat", c)} }, []string{"OTick", "OHeartbeat"}},
	{"write-failure-push", func(c int64) []hx.T { return []hx.T{op("OWfail", c), op("OPush", []int64{c})} }, nil},
	{"write-failure-heartbeat", func(c int64) []hx.T { return []hx.T{op("OWfail", c), op("OHeartbeat", c)} }, nil},
	{"bad-header", func(c int64) []hx.T { return []hx.T{send(c, "PBadType"), rel(c)} }, nil},
	{"truncated-eof", func(c int64) []hx.T { return []hx.T{send(c, "PTruncEof"), rel(c)} }, nil},
	{"bad-handshake-json", func(c int64) []hx.T { return []hx.T{send(c, "PHandshakeBad"), rel(c), rel(c)} }, nil},
	{"undecodable-message", func(c int64) []hx.T { return []hx.T{send(c, "PDataBad"), rel(c), rel(c)} }, nil},
	{"decoder-error", func(c int64) []hx.T { return []hx.T{send(c, "PDecErr"), rel(c), rel(c)} }, nil},
	{"handshake-write-failure", func(c int64) []hx.T { return []hx.T{op("OWfail", c), send(c, "PHandshake"), rel(c), rel(c)} }, nil},
}

// after the end: let every reader finish, drain, then poke the dead connection
func epilogue(c int64, sends int) []hx.T {
	var out []hx.T
	for i := 0; i < sends; i++ {
		out = append(out, rel(c))
	}
	out = append(out, op("ODrain"))
	return out
}

func pokes(c int64) []hx.T {
	return []hx.T{op("OPush", []int64{c}), send(c, data(90)), rel(c), op("OKick", c), op("OHeartbeat", c),
		op("OCloseExt", c), op("ODrain")}
}

func countSends(ops []hx.T, c int64) int {
	n := 0
	for _, o := range ops {
		if o.Name == "OSend" && o.Int(0) == c {
			n++
		}
	}
	return n
}

func withEpilogue(ops []hx.T, c int64, poke bool) []hx.T {
	ops = append(ops, epilogue(c, countSends(ops, c)+1)...)
	if poke {
		ops = append(ops, pokes(c)...)
		ops = append(ops, epilogue(c, 2)...)
	}
	return ops
}

// a second connection that must not notice anything
func bystanderBefore() []hx.T {
	return append(toWorking(2), send(2, data(70)), rel(2), op("ODrain"))
}
func bystanderAfter() []hx.T {
	return []hx.T{op("OPush", []int64{1, 2}), send(2, data(71)), rel(2), op("ODrain"), op("OClientClose", 2), rel(2), op("ODrain")}
}

type emitFn func(kind string, ops []hx.T, tags []string)

func enumerate(emit emitFn, thorough bool) {
	// every cause x every stage, with and without a bystander and post-mortem pokes
	for _, st := range stages {
		for _, ca := range causes {
			for v := 0; v < 2; v++ {
				var ops []hx.T
				tags := []string{"stage:" + st.name, "cause:" + ca.name}
				if v == 1 {
					ops = append(ops, bystanderBefore()...)
					tags = append(tags, "bystander")
				}
				ops = append(ops, st.ops(1)...)
				ops = append(ops, ca.ops(1)...)
				ops = withEpilogue(ops, 1, true)
				if v == 1 {
					ops = append(ops, bystanderAfter()...)
				}
				emit("single", ops, tags)
			}
			// the same without the final flush: whatever is still parked stays parked
			ops := append(st.ops(1), ca.ops(1)...)
			emit("single-unflushed", append(ops, op("ODrain")), []string{"stage:" + st.name, "cause:" + ca.name, "unflushed"})
		}
	}
	// ordered pairs of causes, one right after the other
	for _, st := range stages {
		for _, a := range causes {
			for _, b := range causes {
				ops := append(st.ops(1), a.ops(1)...)
				ops = append(ops, b.ops(1)...)
				ops = withEpilogue(ops, 1, thorough)
				emit("pair", ops, []string{"stage:" + st.name, "cause:" + a.name, "cause:" + b.name, "pair"})
			}
		}
	}
	// thorough: ordered triples of causes at four representative stages
	if thorough {
		for _, st := range stages {
			switch st.name {
			case "start", "handshake-done", "working", "msg-inflight":
			default:
				continue
			}
			for _, a := range causes {
				for _, b := range causes {
					for _, c3 := range causes {
						ops := append(st.ops(1), a.ops(1)...)
						ops = append(ops, b.ops(1)...)
						ops = append(ops, c3.ops(1)...)
						emit("triple", withEpilogue(ops, 1, false),
							[]string{"stage:" + st.name, "cause:" + a.name, "cause:" + b.name, "cause:" + c3.name, "triple"})
					}
				}
			}
		}
	}
	// concurrent closers (real races between goroutines), with a parked reader released
	// in the same instant where the stage has one
	var simple []cause
	for _, ca := range causes {
		if ca.simple != nil {
			simple = append(simple, ca)
		}
	}
	for _, st := range stages {
		for mask := 1; mask < 1<<len(simple); mask++ {
			var set []any
			pre := []hx.T{}
			tags := []string{"stage:" + st.name, "race"}
			for i, ca := range simple {
				if mask&(1<<i) == 0 {
					continue
				}
				tags = append(tags, "cause:"+ca.name)
				if ca.simple[0] == "OTick" {
					pre = append(pre, op("OTick", 20000))
					set = append(set, op("OHeartbeat", 1))
				} else {
					set = append(set, op(ca.simple[0], 1))
				}
			}
			ops := append(st.ops(1), pre...)
			ops = append(ops, op("ORace", set))
			emit("race", withEpilogue(ops, 1, false), tags)
			if st.held {
				ops := append(st.ops(1), pre...)
				ops = append(ops, op("ORaceRel", 1, set))
				emit("race-release", withEpilogue(ops, 1, false), append(tags, "race-release"))
			}
		}
	}
	// heartbeat limit boundaries
	for _, d := range []int64{0, 1, 19999, 20000, 20001, 40000} {
		for _, refresh := range []bool{false, true} {
			ops := append(toWorking(1), op("ODrain"))
			if refresh {
				ops = append(ops, op("OTick", 7), send(1, "PHeartbeat"), rel(1))
			}
			ops = append(ops, op("OTick", d), op("OHeartbeat", 1), op("OTick", 19999), op("OHeartbeat", 1), op("ODrain"),
				op("OTick", 1), op("OHeartbeat", 1), op("ODrain"))
			emit("heartbeat-boundary", ops, []string{"heartbeat-boundary"})
		}
	}
	// id allocation: counter just below the wrap; an id handed out twice while still live
	for _, nx := range []int64{4294967293, 4294967294, 4294967295, 0, 1} {
		ops := []hx.T{op("OSetNext", nx)}
		for c := int64(1); c <= 4; c++ {
			ops = append(ops, toWorking(c)...)
		}
		ops = append(ops, op("ODrain"))
		for c := int64(1); c <= 4; c++ {
			ops = append(ops, send(c, data(c)), rel(c))
		}
		ops = append(ops, op("OPush", []int64{1, 2, 3, 4}), op("OKick", 2), op("ODrain"), op("OPush", []int64{1, 2, 3, 4}))
		for c := int64(1); c <= 4; c++ {
			ops = append(ops, op("OClientClose", c), rel(c))
		}
		emit("ids-wrap", append(ops, op("ODrain")), []string{"ids-wrap"})
	}
	{
		ops := append(toWorking(1), op("ODrain"), op("OSetNext", 1))
		ops = append(ops, toWorking(2)...)
		ops = append(ops, op("ODrain"), send(1, data(1)), rel(1), send(2, data(2)), rel(2), op("ODrain"),
			op("OClientClose", 1), op("ODrain"), op("OClientClose", 2), op("ODrain"))
		emit("ids-alias", ops, []string{"ids-alias"})
	}
	// heartbeat() with its real ticker
	nrt := int64(2)
	if thorough {
		nrt = 8
	}
	for k := int64(0); k < nrt; k++ {
		emit("real-ticker", []hx.T{op("ORealTicker", k)}, []string{"real-ticker"})
	}
	// the send queue at capacity: the client stops reading, the writer sits in conn.Write with one
	// entry, a goroutine issues 10026 pushes (9999 fill the queue, the 10001st parks), optionally
	// a heartbeat send and the owning service (PushMsg to 1 and to a bystander) park too; then
	// every end cause; afterwards the dead session is pushed to again
	for v := 0; v < 4; v++ {
		for _, ca := range causes {
			ops := append(toWorking(2), op("ODrain"))
			ops = append(ops, toWorking(1)...)
			ops = append(ops, op("ODrain"), op("OWstall", 1), op("OFlood", 1, 10026))
			tags := []string{"queue-full", "cause:" + ca.name}
			if v&1 != 0 {
				ops = append(ops, op("OHeartbeat", 1))
				tags = append(tags, "heartbeat-parked")
			}
			if v&2 != 0 {
				ops = append(ops, op("OPush", []int64{1, 2}))
				tags = append(tags, "service-parked")
			}
			ops = append(ops, ca.ops(1)...)
			ops = withEpilogue(ops, 1, false)
			ops = append(ops, op("OPush", []int64{1, 2}), op("ODrain"), op("OClientClose", 2), rel(2), op("ODrain"))
			emit("queue-full", ops, tags)
		}
	}
	// exactly at the boundary: 9999 / 10000 / 10001 pushes, then kick / nothing
	for _, n := range []int64{9999, 10000, 10001, 10002} {
		for _, end := range []bool{false, true} {
			ops := append(toWorking(1), op("ODrain"), op("OWstall", 1), op("OFlood", 1, n))
			if end {
				ops = append(ops, op("OKick", 1), op("ODrain"))
			}
			emit("queue-boundary", ops, []string{"queue-boundary"})
		}
	}
	// connChan at capacity: n clients connect to the real acceptor (pomelo.StartAcceptor wiring)
	// while the owning service is busy; 1 + 99 fit, the 101st parks the accept loop
	burst := []int64{1, 5, 99, 100, 101, 130}
	if thorough {
		burst = append(burst, 2, 98, 102, 200, 250)
	}
	for _, n := range burst {
		emit("accept-burst", []hx.T{op("OBurst", n)}, []string{"accept-burst"})
	}
	// REAL sockets through the real acceptors and pomelo.StartAcceptor: every transport (TCP, TCP+TLS,
	// websocket, websocket over TLS) x every end cause that can be placed on a socket (polite
	// close, illegal header, truncated frame, kick, undecodable message, bad handshake JSON, RST
	// abort, heartbeat expiry, over-long frame, stalled peer + kick, stalled peer + heartbeat expiry)
	for t := int64(0); t <= 3; t++ {
		for v := int64(0); v <= 10; v++ {
			for _, k := range []int64{0, 3} {
				if (v == 5 || (!thorough && t > 0 && v != 6 && v < 9)) && k > 0 {
					continue
				}
				emit("net", []hx.T{op("ONet", t, v, k)},
					[]string{"net", fmt.Sprintf("transport-%d", t), fmt.Sprintf("net-cause-%d", v)})
			}
		}
	}
	emit("net", []hx.T{op("OTcp", 0, 2)}, []string{"net", "transport-0", "net-cause-0"})
	// conn.Close() returns an error (what tls.Conn.Close does when the peer is gone): every
	// cause at every stage once more, on the in-memory connection
	for _, st := range stages {
		for _, ca := range causes {
			ops := append([]hx.T{}, st.ops(1)...)
			ops = append(ops, op("OCloseErr", 1))
			ops = append(ops, ca.ops(1)...)
			emit("close-error", withEpilogue(ops, 1, false), []string{"stage:" + st.name, "cause:" + ca.name, "close-error"})
		}
	}
}

// ---- random fault sequences over up to three connections ----
func random(r *rand.Rand, maxLen int) ([]hx.T, []string) {
	nc := int64(1 + r.Intn(3))
	n := 3 + r.Intn(maxLen)
	tags := map[string]bool{}
	var ops []hx.T
	msg := int64(100)
	stage := map[int64]int{} // shadow only to bias towards protocol-conforming prefixes
	pkts := []any{"PHandshake", "PHandshakeBad", "PAck", "PDataBad", "PHeartbeat", "POther", "PBadType", "PTruncEof", "PDecErr"}
	for len(ops) < n {
		c := 1 + r.Int63n(nc)
		switch p := r.Intn(100); {
		case p < 12:
			ops = append(ops, op("OConnect", c))
		case p < 40:
			var pk any
			switch {
			case r.Intn(10) < 6 && stage[c] == 0:
				pk, stage[c] = "PHandshake", 1
			case r.Intn(10) < 6 && stage[c] == 1:
				pk, stage[c] = "PAck", 2
			case r.Intn(10) < 7:
				msg++
				pk = data(msg)
			default:
				pk = hx.Pick(r, pkts)
				tags["malformed-or-odd"] = true
			}
			ops = append(ops, send(c, pk))
			if r.Intn(4) > 0 {
				ops = append(ops, rel(c))
			}
		case p < 55:
			ops = append(ops, rel(c))
		case p < 63:
			ops = append(ops, op("ODrain"))
		case p < 68:
			ops = append(ops, op("OFront"))
		case p < 72:
			ops = append(ops, op("OKick", c))
			tags["kick"] = true
		case p < 75:
			ops = append(ops, op("OCloseExt", c))
		case p < 79:
			ops = append(ops, op("OClientClose", c))
			tags["client-close"] = true
		case p < 84:
			ops = append(ops, op("OTick", hx.Pick(r, []int64{1, 5000, 10000, 19999, 20000, 20001})))
		case p < 90:
			ops = append(ops, op("OHeartbeat", c))
			tags["heartbeat"] = true
		case p < 92:
			ops = append(ops, op("OWfail", c))
			tags["wfail"] = true
		case p < 93:
			ops = append(ops, op("OCloseErr", c))
			tags["close-error"] = true
		default:
			var l []int64
			for k := r.Intn(4); k >= 0; k-- {
				l = append(l, 1+r.Int63n(nc+1))
			}
			ops = append(ops, op("OPush", l))
			tags["push"] = true
		}
	}
	if r.Intn(10) < 7 {
		for c := int64(1); c <= nc; c++ {
			if r.Intn(3) > 0 {
				ops = append(ops, op("OClientClose", c))
			}
		}
		for c := int64(1); c <= nc; c++ {
			for i := countSends(ops, c); i >= 0; i-- {
				ops = append(ops, rel(c))
			}
		}
		ops = append(ops, op("ODrain"))
		tags["flushed"] = true
	}
	var tl []string
	for t := range tags {
		tl = append(tl, t)
	}
	sort.Strings(tl)
	return ops, tl
}

// maxHung: after this many cases that ran into a watchdog (or could not be torn down) the
// run stops generating and reports what it has - on badly broken code every further case
// would only cost another watchdog, and the hung cases are already concrete failures.
const maxHung = 6

func Run(cfg *hx.Config) error {
	hungCases, stopped := 0, false
	replay := cfg.In != ""
	emit := func(kind string, ops []hx.T, tags []string) {
		if stopped {
			return
		}
		obs, nt, hung := Exec(ops)
		cfg.Emit(hx.Case{Kind: kind, Ops: ops, Obs: obs, Nontrivial: nt, Tags: tags})
		if hung {
			hungCases++
			if !replay && hungCases >= maxHung {
				stopped = true
				fmt.Printf("c05: %d cases hung or leaked - generation stopped after %d cases\n", hungCases, cfg.Emitted())
			}
		}
	}
	if replay {
		cs, err := hx.ReadCases(cfg.In)
		if err != nil {
			return err
		}
		for _, c := range cs {
			emit("replay", hx.Terms(c.Ops), c.Tags)
		}
		return nil
	}
	thorough := cfg.Tier == "thorough"
	if cfg.N > 0 {
		enumerate(emit, thorough)
	}
	for i := 0; i < cfg.N && !stopped; i++ {
		maxLen := 14
		if i%4 == 3 {
			maxLen = 60
		}
		ops, tags := random(cfg.Rng, maxLen)
		emit(fmt.Sprintf("random-%d", maxLen), ops, tags)
	}
	return nil
}
