// Package c05 drives the REAL pomelonet ClientSession (read / write / heartbeat goroutines,
// Close latch) over an in-memory duplex connection, and one level up the REAL
// impls.ClientSessions fed by the REAL pomelo.SessionsImpl through a sche.Sche that the
// harness drains itself (the harness goroutine plays the owning service goroutine).
//
// This file: the in-memory connection (TCP-like: buffered, a client close delivers the
// bytes already sent and then EOF), the framing of tcp_acceptor.go's GetNextMessage, the
// blocking packet decoder and the instrumentation the harness waits on.
package c05

import (
	"errors"
	"io"
	"io/ioutil"
	"net"
	"sync"
	"sync/atomic"
	"time"

	"github.com/dfklegend/cell2/pomelonet/common/conn/codec"
	"github.com/dfklegend/cell2/pomelonet/common/conn/packet"
	"github.com/dfklegend/cell2/pomelonet/constants"
)

var errClosedConn = errors.New("c05: use of closed connection")
var errInjectedWrite = errors.New("c05: injected write failure")
var errInjectedDecode = errors.New("c05: injected packet decode failure")

// decErrMarker is the body of the packet for which the decoder wrapper reports an error
// (class PDecErr): with the shipped acceptors the packet decoder cannot fail after
// GetNextMessage validated the header, so this exit of read() is reached by injection.
var decErrMarker = []byte("\x00C05-DECODE-ERROR")

// srvConn is the server end (acceptor.PlayerConn) of one in-memory connection.
type srvConn struct {
	mu   sync.Mutex
	cond *sync.Cond

	in           []byte // client -> server bytes not yet read
	clientClosed bool   // client closed its end: EOF after `in` is drained
	closed       bool   // server called Close()
	wfail        bool   // Write fails from now on
	closeErr     bool   // Close() reports an error (it still closes: tls.Conn.Close with a peer that is gone)
	wstall       bool   // Write blocks until the connection is closed (or made to fail): the client does not read
	wBlocked     bool   // the write loop is parked inside such a Write

	// instrumentation (under mu)
	rBlocked   bool // the read goroutine is parked inside Read waiting for bytes
	closeCalls int  // number of Close() calls by the session
	wHb, wPush int  // packets the write loop handed to Write (heartbeat / data), ok or not
	wFailed    int  // Write calls of the write loop (heartbeat / data packets) that returned an error
	sentPush   int  // data packets written successfully (the client receives them)
	sentHb     int
	sentHs     int
	peerEOF    bool // client side would now read EOF (server closed)
}

func newSrvConn() *srvConn {
	c := &srvConn{}
	c.cond = sync.NewCond(&c.mu)
	return c
}

// ---- client side ----
func (c *srvConn) clientWrite(b []byte) {
	c.mu.Lock()
	if !c.clientClosed && !c.closed {
		c.in = append(c.in, b...)
	}
	c.rBlocked = false // the waker clears it; the reader sets it again only when it parks again
	c.cond.Broadcast()
	c.mu.Unlock()
}

func (c *srvConn) clientClose() {
	c.mu.Lock()
	c.clientClosed = true
	c.rBlocked = false
	c.wBlocked = false
	c.cond.Broadcast()
	c.mu.Unlock()
}

// ---- net.Conn (server side) ----
func (c *srvConn) Read(b []byte) (int, error) {
	c.mu.Lock()
	defer c.mu.Unlock()
	for {
		if c.closed {
			return 0, errClosedConn
		}
		if len(c.in) > 0 {
			n := copy(b, c.in)
			c.in = c.in[n:]
			return n, nil
		}
		if c.clientClosed {
			return 0, io.EOF
		}
		c.rBlocked = true
		c.cond.Wait()
	}
}

func (c *srvConn) Write(b []byte) (int, error) {
	c.mu.Lock()
	defer c.mu.Unlock()
	typ := byte(0)
	if len(b) > 0 {
		typ = b[0]
	}
	switch packet.Type(typ) {
	case packet.Heartbeat:
		c.wHb++
	case packet.Data:
		c.wPush++
	}
	fromLoop := packet.Type(typ) == packet.Heartbeat || packet.Type(typ) == packet.Data
	for c.wstall && !c.closed && !c.wfail && !c.clientClosed {
		if fromLoop {
			c.wBlocked = true
		} else {
			c.rBlocked = true // the reader, writing the handshake response itself
		}
		c.cond.Wait()
	}
	if fromLoop {
		c.wBlocked = false
	} else {
		c.rBlocked = false
	}
	if c.closed || c.wfail || (c.wstall && c.clientClosed) {
		// closed here; injected failure; or the client, which had stopped reading, went away
		if fromLoop {
			c.wFailed++
		}
		if c.closed {
			return 0, errClosedConn
		}
		return 0, errInjectedWrite
	}
	switch packet.Type(typ) {
	case packet.Heartbeat:
		c.sentHb++
	case packet.Data:
		c.sentPush++
	case packet.Handshake:
		c.sentHs++
	}
	return len(b), nil
}

// setWfail makes Write fail from now on (a Write parked by wstall fails at once).
func (c *srvConn) setWfail() {
	c.mu.Lock()
	c.wfail = true
	c.wBlocked = false // the waker clears it (see rBlocked)
	c.rBlocked = false
	c.cond.Broadcast()
	c.mu.Unlock()
}

func (c *srvConn) setWstall() {
	c.mu.Lock()
	c.wstall = true
	c.mu.Unlock()
}

func (c *srvConn) Close() error {
	c.mu.Lock()
	c.closeCalls++
	c.closed = true
	c.peerEOF = true
	c.rBlocked = false
	c.wBlocked = false
	c.cond.Broadcast()
	ce := c.closeErr
	c.mu.Unlock()
	if ce {
		return errors.New("c05: failed to send closeNotify alert (but connection was closed anyway)")
	}
	return nil
}

type memAddr struct{}

func (memAddr) Network() string { return "mem" }
func (memAddr) String() string  { return "mem" }

func (c *srvConn) LocalAddr() net.Addr                { return memAddr{} }
func (c *srvConn) RemoteAddr() net.Addr               { return memAddr{} }
func (c *srvConn) SetDeadline(t time.Time) error      { return nil }
func (c *srvConn) SetReadDeadline(t time.Time) error  { return nil }
func (c *srvConn) SetWriteDeadline(t time.Time) error { return nil }

// GetNextMessage: the framing of acceptor.tcpPlayerConn.GetNextMessage (tcp_acceptor.go),
// statement for statement, over this connection.
func (c *srvConn) GetNextMessage() (b []byte, err error) {
	header, err := ioutil.ReadAll(io.LimitReader(c, codec.HeadLength))
	if err != nil {
		return nil, err
	}
	if len(header) == 0 {
		return nil, constants.ErrConnectionClosed
	}
	msgSize, _, err := codec.ParseHeader(header)
	if err != nil {
		return nil, err
	}
	msgData, err := ioutil.ReadAll(io.LimitReader(c, int64(msgSize)))
	if err != nil {
		return nil, err
	}
	if len(msgData) < msgSize {
		return nil, constants.ErrReceivedMsgSmallerThanExpected
	}
	return append(header, msgData...), nil
}

// holdDecoder wraps the real packet decoder: every Decode call parks the read goroutine
// ("bytes read, nothing processed yet") until the harness releases it.
type holdDecoder struct {
	inner   codec.PacketDecoder
	held    int32 // 1 while the reader is parked here
	release chan struct{}
}

func newHoldDecoder() *holdDecoder {
	return &holdDecoder{inner: codec.NewPomeloPacketDecoder(), release: make(chan struct{}, 1)}
}

func (d *holdDecoder) Decode(data []byte) ([]*packet.Packet, error) {
	atomic.StoreInt32(&d.held, 1)
	<-d.release // the releaser clears `held` before sending, so a stale 1 is never observed
	if len(data) >= codec.HeadLength && string(data[codec.HeadLength:]) == string(decErrMarker) {
		return nil, errInjectedDecode
	}
	return d.inner.Decode(data)
}

func (d *holdDecoder) isHeld() bool { return atomic.LoadInt32(&d.held) == 1 }

// free releases the parked reader (no-op when nobody is parked).
func (d *holdDecoder) free() bool {
	if !atomic.CompareAndSwapInt32(&d.held, 1, 0) {
		return false
	}
	d.release <- struct{}{}
	return true
}
