package c05

import (
	"fmt"
	"testing"
	"verifh/hx"
)

func TestDbg(t *testing.T) {
	cs, _ := hx.ReadCases("/tmp/c05w/one.jsonl")
	w := newWorld()
	for _, o := range hx.Terms(cs[0].Ops) {
		w.exec(o)
		k := w.conns[1]
		fmt.Println(o.Name, "hang", w.hang, "held", k.dec.isHeld(), "rb", k.sc.rBlocked, "census", takeCensus(), "status", k.sess.GetStatus(), "rExited", k.rExited)
		w.hang = false
	}
}
