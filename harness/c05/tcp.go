package c05

import (
	"net"
	"sync"
	"sync/atomic"
	"time"

	"github.com/dfklegend/cell2/node/client/impls/pomelo"
	"github.com/dfklegend/cell2/pomelonet/common/conn/message"
	pi "github.com/dfklegend/cell2/pomelonet/interfaces"
	"github.com/dfklegend/cell2/pomelonet/server/acceptor"
	"github.com/dfklegend/cell2/pomelonet/server/session"

	"verifh/hx"
)

// The OTcp scenarios: a REAL TCP socket accepted by the real acceptor.TCPAcceptor, handed to
// NewClientSession/Handle by the real pomelo.StartAcceptor, read by the real
// tcpPlayerConn.GetNextMessage.  Nothing is held; the harness only waits for the callbacks.
// One acceptor per process (StartAcceptor's goroutines never end); its SessionConfig.Impl
// dispatches to the world that is current.

var (
	tcpOnce sync.Once
	tcpAcc  *acceptor.TCPAcceptor
	tcpMu   sync.Mutex
	tcpCur  *world
	tcpImps sync.Map // pi.IClientSession -> *connImpl
)

type tcpDispatch struct{}

func (tcpDispatch) OnSessionCreate(s pi.IClientSession) {
	tcpMu.Lock()
	w := tcpCur
	tcpMu.Unlock()
	// the owning service is busy: scheduler.Post inside OnSessionCreate would block
	atomic.AddInt32(&w.entered, 1)
	w.gateMu.Lock()
	g := w.gateCh
	w.gateMu.Unlock()
	if g != nil {
		<-g
	}
	k := &hconn{tcp: true, rExited: true}
	k.sess = s.(*session.ClientSession)
	ci := &connImpl{k: k, next: w.simpl}
	tcpImps.Store(s, ci)
	ci.OnSessionCreate(s)
	w.tcpNew <- k
}
func (tcpDispatch) OnSessionClose(s pi.IClientSession) {
	if ci, ok := tcpImps.Load(s); ok {
		ci.(*connImpl).OnSessionClose(s)
	}
}
func (tcpDispatch) ProcessMessage(s pi.IClientSession, m *message.Message) {
	if ci, ok := tcpImps.Load(s); ok {
		ci.(*connImpl).ProcessMessage(s, m)
	}
}

func startTcp() {
	tcpOnce.Do(func() {
		initGlobals()
		tcpAcc = acceptor.NewTCPAcceptor("127.0.0.1:0")
		cfg := session.NewSessionConfig(nil)
		cfg.Impl = tcpDispatch{}
		pomelo.StartAcceptor(tcpAcc, cfg)
		for i := 0; tcpAcc.GetAddr() == "" && i < 5000; i++ {
			time.Sleep(time.Millisecond)
		}
	})
}

func (w *world) tcp(v, n int64) {
	if n > 20 {
		n = 20
	}
	if n < 0 {
		n = 0
	}
	startTcp()
	w.tcpNew = make(chan *hconn, 1024)
	tcpMu.Lock()
	tcpCur = w
	tcpMu.Unlock()
	cl, err := net.Dial("tcp", tcpAcc.GetAddr())
	if err != nil {
		w.hang = true
		return
	}
	var k *hconn
	select {
	case k = <-w.tcpNew:
	case <-time.After(watchdog):
		w.hang = true
		cl.Close()
		return
	}
	k.tok = 1
	w.conns[1] = k
	w.order = append(w.order, 1)
	k.client = cl
	w.clients = append(w.clients, cl)
	var got int64
	go func() { // the client reads whatever the server writes, until the server closes
		buf := make([]byte, 4096)
		for {
			m, err := cl.Read(buf)
			atomic.AddInt64(&got, int64(m))
			if err != nil {
				atomic.StoreInt32(&k.tcpEOF, 1)
				return
			}
		}
	}()
	wr := func(p any) {
		b, _ := w.bytesOf(hx.AsTerm(p))
		cl.Write(b)
	}
	drain := func() {
		for w.frontOne() {
		}
	}
	closed := func() bool { return atomic.LoadInt32(&k.closeCb) > 0 }
	if v == 5 {
		wr("PHandshakeBad")
	} else {
		wr("PHandshake")
		w.waitFor(func() bool { return atomic.LoadInt64(&got) > 0 })
		wr("PAck")
		w.waitFor(func() bool { return k.sess.GetStatus() == session.StatusWorking })
		for m := int64(1); m <= n; m++ {
			wr(hx.C("PData", m))
			w.waitFor(func() bool { return int64(atomic.LoadInt32(&k.posted)) >= m })
		}
		drain()
		switch v {
		case 0:
			cl.Close()
		case 1:
			wr("PBadType")
		case 2:
			wr("PTruncEof")
			cl.Close()
		case 3:
			w.cs.Kick(k.sess.GetId())
		default:
			wr("PDataBad")
		}
	}
	w.waitFor(closed)
	// the peer sees the server's close (or closed itself)
	w.waitFor(func() bool { return atomic.LoadInt32(&k.tcpEOF) == 1 })
	drain()
}

func (w *world) openGate() {
	w.gateMu.Lock()
	if w.gateCh != nil {
		close(w.gateCh)
		w.gateCh = nil
	}
	w.gateMu.Unlock()
}

// burst: Model.burst_script on the real acceptor.  The owning service is busy (the first
// OnSessionCreate parks StartAcceptor's loop), n clients connect one after the other (so the
// k-th accepted connection is the k-th client), connChan fills up, the accept loop parks;
// then the service catches up.  Every client then talks (its message carries its own number:
// the session it arrives on must be the one created k-th) and closes.
func (w *world) burst(n int64) {
	if n > 400 {
		n = 400
	}
	if n < 0 {
		n = 0
	}
	startTcp()
	w.tcpNew = make(chan *hconn, 1024)
	w.gateCh = make(chan struct{})
	tcpMu.Lock()
	tcpCur = w
	tcpMu.Unlock()
	type cli struct {
		c   net.Conn
		got int64
		eof int32
	}
	clis := make([]*cli, 0, n)
	for i := int64(1); i <= n; i++ {
		w.order = append(w.order, i)
		c, err := net.Dial("tcp", tcpAcc.GetAddr())
		if err != nil {
			w.hang = true
			return
		}
		x := &cli{c: c}
		clis = append(clis, x)
		w.clients = append(w.clients, c)
		go func() {
			buf := make([]byte, 4096)
			for {
				m, err := x.c.Read(buf)
				atomic.AddInt64(&x.got, int64(m))
				if err != nil {
					atomic.StoreInt32(&x.eof, 1)
					return
				}
			}
		}()
	}
	if n > 0 {
		// the hand-over queue is as full as it gets; give the accept loop the time to take the
		// next connection (and park on the full queue)
		fill := int(n - 1)
		if fill > 99 {
			fill = 99
		}
		w.waitFor(func() bool {
			return atomic.LoadInt32(&w.entered) >= 1 && len(tcpAcc.GetConnChan()) >= fill
		})
		time.Sleep(30 * time.Millisecond)
	}
	w.openGate()
	for i := int64(1); i <= n && !w.hang; i++ {
		select {
		case k := <-w.tcpNew:
			k.tok = i
			k.client = clis[i-1].c
			w.conns[i] = k
		case <-time.After(watchdog):
			w.hang = true
		}
	}
	drain := func() {
		for w.frontOne() {
		}
	}
	drain()
	wr := func(c net.Conn, p any) {
		b, _ := w.bytesOf(hx.AsTerm(p))
		c.Write(b)
	}
	for i := int64(1); i <= n && !w.hang; i++ {
		k, x := w.conns[i], clis[i-1]
		wr(x.c, "PHandshake")
		w.waitFor(func() bool { return atomic.LoadInt64(&x.got) > 0 })
		wr(x.c, "PAck")
		w.waitFor(func() bool { return k.sess.GetStatus() == session.StatusWorking })
		wr(x.c, hx.C("PData", i))
		w.waitFor(func() bool { return atomic.LoadInt32(&k.posted) >= 1 })
	}
	drain()
	for i := int64(1); i <= n && !w.hang; i++ {
		k, x := w.conns[i], clis[i-1]
		x.c.Close()
		w.waitFor(func() bool { return atomic.LoadInt32(&k.closeCb) > 0 })
		atomic.StoreInt32(&k.tcpEOF, 1) // the client closed this one itself
	}
	drain()
}
