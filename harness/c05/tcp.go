package c05

import (
	"net"
	"sync"
	"sync/atomic"
	"time"

	"github.com/dfklegend/cell2/node/client/impls/pomelo"
	"github.com/dfklegend/cell2/pomelonet/common/conn/message"
	pi "github.com/dfklegend/cell2/pomelonet/interfaces"
	"github.com/dfklegend/cell2/pomelonet/server/acceptor"
	"github.com/dfklegend/cell2/pomelonet/server/session"

	"verifh/hx"
)

// The OTcp scenarios: a REAL TCP socket accepted by the real acceptor.TCPAcceptor, handed to
// NewClientSession/Handle by the real pomelo.StartAcceptor, read by the real
// tcpPlayerConn.GetNextMessage.  Nothing is held; the harness only waits for the callbacks.
// One acceptor per process (StartAcceptor's goroutines never end); its SessionConfig.Impl
// dispatches to the world that is current.

var (
	tcpOnce sync.Once
	tcpAcc  *acceptor.TCPAcceptor
	tcpMu   sync.Mutex
	tcpCur  *world
	tcpImps sync.Map // pi.IClientSession -> *connImpl
)

type tcpDispatch struct{}

func (tcpDispatch) OnSessionCreate(s pi.IClientSession) {
	tcpMu.Lock()
	w := tcpCur
	tcpMu.Unlock()
	k := &hconn{tok: 1, tcp: true, rExited: true}
	k.sess = s.(*session.ClientSession)
	ci := &connImpl{k: k, next: w.simpl}
	tcpImps.Store(s, ci)
	ci.OnSessionCreate(s)
	w.tcpNew <- k
}
func (tcpDispatch) OnSessionClose(s pi.IClientSession) {
	if ci, ok := tcpImps.Load(s); ok {
		ci.(*connImpl).OnSessionClose(s)
	}
}
func (tcpDispatch) ProcessMessage(s pi.IClientSession, m *message.Message) {
	if ci, ok := tcpImps.Load(s); ok {
		ci.(*connImpl).ProcessMessage(s, m)
	}
}

func startTcp() {
	tcpOnce.Do(func() {
		initGlobals()
		tcpAcc = acceptor.NewTCPAcceptor("127.0.0.1:0")
		cfg := session.NewSessionConfig(nil)
		cfg.Impl = tcpDispatch{}
		pomelo.StartAcceptor(tcpAcc, cfg)
		for i := 0; tcpAcc.GetAddr() == "" && i < 5000; i++ {
			time.Sleep(time.Millisecond)
		}
	})
}

func (w *world) tcp(v, n int64) {
	if n > 20 {
		n = 20
	}
	if n < 0 {
		n = 0
	}
	startTcp()
	w.tcpNew = make(chan *hconn, 1)
	tcpMu.Lock()
	tcpCur = w
	tcpMu.Unlock()
	cl, err := net.Dial("tcp", tcpAcc.GetAddr())
	if err != nil {
		w.hang = true
		return
	}
	var k *hconn
	select {
	case k = <-w.tcpNew:
	case <-time.After(watchdog):
		w.hang = true
		cl.Close()
		return
	}
	w.conns[1] = k
	w.order = append(w.order, 1)
	k.client = cl
	var got int64
	go func() { // the client reads whatever the server writes, until the server closes
		buf := make([]byte, 4096)
		for {
			m, err := cl.Read(buf)
			atomic.AddInt64(&got, int64(m))
			if err != nil {
				atomic.StoreInt32(&k.tcpEOF, 1)
				return
			}
		}
	}()
	wr := func(p any) {
		b, _ := w.bytesOf(hx.AsTerm(p))
		cl.Write(b)
	}
	drain := func() {
		for w.frontOne() {
		}
	}
	closed := func() bool { return atomic.LoadInt32(&k.closeCb) > 0 }
	if v == 5 {
		wr("PHandshakeBad")
	} else {
		wr("PHandshake")
		w.waitFor(func() bool { return atomic.LoadInt64(&got) > 0 })
		wr("PAck")
		w.waitFor(func() bool { return k.sess.GetStatus() == session.StatusWorking })
		for m := int64(1); m <= n; m++ {
			wr(hx.C("PData", m))
			w.waitFor(func() bool { return int64(atomic.LoadInt32(&k.posted)) >= m })
		}
		drain()
		switch v {
		case 0:
			cl.Close()
		case 1:
			wr("PBadType")
		case 2:
			wr("PTruncEof")
			cl.Close()
		case 3:
			w.cs.Kick(k.sess.GetId())
		default:
			wr("PDataBad")
		}
	}
	w.waitFor(closed)
	// the peer sees the server's close (or closed itself)
	w.waitFor(func() bool { return atomic.LoadInt32(&k.tcpEOF) == 1 })
	drain()
}
