package c17

// Probe centres 6 and 7: user implementations of event.ILocalEventCenter (a real
// LocalEventCenter's queue, no listeners) that are registered at the global centre directly.
// The global centre works on the interface, and GetId() is the call it makes on the centre
// object between looking a name's list up and storing / deleting the centre: a probe can hold
// its own Subscribe / Unsubscribe exactly there (OPark) while the other centres of the case
// act, and let it continue later (ORelease) - statement-level interleavings inside
// GlobalEventCenter.Subscribe / Unsubscribe without any hook in the code under test.

import (
	"sync"

	"github.com/dfklegend/cell2/utils/event"

	"verifh/hx"
)

type probe struct {
	*event.LocalEventCenter
	mu     sync.Mutex
	armed  bool
	in     chan struct{} // closed when the armed GetId() call is reached
	resume chan struct{} // the armed GetId() call returns when this is closed
	done   chan struct{} // closed when the held call has returned
	held   bool
	hn     int64
	hb     bool
}

func (p *probe) GetId() uint64 {
	p.mu.Lock()
	if p.armed {
		p.armed = false
		in, resume := p.in, p.resume
		p.mu.Unlock()
		close(in)
		<-resume
	} else {
		p.mu.Unlock()
	}
	return p.LocalEventCenter.GetId()
}

func isProbe(c int64) bool { return c >= 6 && c <= 7 }

func (w *world) probe(c int64) *probe {
	p := w.probes[c]
	if p == nil {
		p = &probe{LocalEventCenter: event.NewLocalEventCenter(true)}
		w.probes[c] = p
	}
	return p
}

// probing (Model.probing): some probe is registered or has a call held
func (w *world) probing() bool {
	if len(w.preg) > 0 {
		return true
	}
	for _, p := range w.probes {
		if p.held {
			return true
		}
	}
	return false
}

func (w *world) plens() []int64 {
	out := []int64{0, 0}
	for c := int64(6); c <= 7; c++ {
		if p := w.probes[c]; p != nil {
			out[c-6] = int64(len(p.GetChanEvent()))
		}
	}
	return out
}

func (w *world) globalCall(p *probe, n int64, b bool) {
	if b {
		event.GetGlobalEC().Subscribe(w.name(n), p)
	} else {
		event.GetGlobalEC().Unsubscribe(w.name(n), p)
	}
}

func (w *world) setReg(c, n int64, b bool) {
	if b {
		w.preg[[2]int64{c, n}] = true
	} else {
		delete(w.preg, [2]int64{c, n})
	}
}

func (w *world) probeOp(o hx.T) {
	switch o.Name {
	case "OReg":
		c, n, b := o.Int(0), o.Int(1), o.Bool(2)
		if !isProbe(c) || w.probe(c).held {
			w.emit("VNop")
			return
		}
		w.globalCall(w.probe(c), n, b)
		w.setReg(c, n, b)
		if b {
			w.emit(hx.C("VReg", c, n))
		} else {
			w.emit(hx.C("VUnreg", c, n))
		}
	case "OPark":
		c, n, b := o.Int(0), o.Int(1), o.Bool(2)
		if !isProbe(c) || w.probe(c).held {
			w.emit("VNop")
			return
		}
		p := w.probe(c)
		p.mu.Lock()
		p.armed, p.in, p.resume, p.done = true, make(chan struct{}), make(chan struct{}), make(chan struct{})
		p.mu.Unlock()
		done := p.done
		go func() { // the probe's own goroutine
			defer close(done)
			w.globalCall(p, n, b)
		}()
		select {
		case <-p.in: // held inside the global centre
			w.tag("call-held-in-global-centre")
		case <-done: // the call made no call on the centre object (name unknown to the global centre)
			p.mu.Lock()
			p.armed = false
			p.mu.Unlock()
		}
		p.held, p.hn, p.hb = true, n, b
		w.emit(hx.C("VPark", c, n, b))
	case "ORelease":
		c := o.Int(0)
		if !isProbe(c) || !w.probe(c).held {
			w.emit("VNop")
			return
		}
		p := w.probe(c)
		w.releaseProbe(p)
		w.setReg(c, p.hn, p.hb)
		w.emit(hx.C("VDone", c))
	}
}

func (w *world) releaseProbe(p *probe) {
	if !p.held {
		return
	}
	select {
	case <-p.resume:
	default:
		close(p.resume)
	}
	<-p.done
	p.held = false
}
