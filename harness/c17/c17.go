// Package c17 drives the real event centres of cell2 (utils/event: LocalEventCenter in
// direct and channel mode, the GlobalEventCenter singleton; utils/event/light: EventCenter)
// with scripted listeners.  A listener is a closure that, when the real code invokes it,
// logs the invocation and then interprets its *program* (a list of re-entrant actions taken
// from the op data): subscribe, unsubscribe (self / other / by callback), clear, publish,
// global publish, stop the run service.  The goroutine executing a case (the driver) owns the
// centres 0-3, 10, 11 of that case: it is the one that drains their event channels (ODrain).
// Centres 4 and 5 are the EventCenter of a real runservice.StandardRunService each (svc.go):
// they are owned by the service's loop goroutine from Start() until that loop has ended, and
// every listener invocation records the goroutine it runs on.  A watchdog turns a case that
// stops making progress (lock cycle, send on a full channel) into the observable VDeadlock
// instead of hanging the harness; the stuck goroutine is abandoned.
//
// The trace written as the case's obs is the flat list of events of Coq's C17.Model.ev.
package c17

import (
	"fmt"
	"io"
	"log"
	"runtime"
	"strings"
	"sync"
	"sync/atomic"
	"time"

	"github.com/sirupsen/logrus"

	"github.com/dfklegend/cell2/utils/event"
	"github.com/dfklegend/cell2/utils/event/light"
	"github.com/dfklegend/cell2/utils/logger"

	"verifh/hx"
)

const (
	depthMax   = 2    // Model.DEPTH: listeners nested deeper do not run their program
	budget     = 300  // Model.BUDGET: nor do listeners invoked after this many trace events
	repMax     = 1200 // Model.REPMAX
	drainMax   = 50
	nLocal     = 6                      // Model.local_centres: 0-3 driver, 4-5 run services
	stallAfter = 400 * time.Millisecond // without progress AND with the case goroutine parked
)

var runNonce = time.Now().UnixNano() // the global centre is a process-wide singleton: unique names

type lst struct {
	tok        int64
	c, n       int64
	nbound     int
	realID     uint64
	code, recv int64
	pid        int64
	alive      bool
}

type recvObj struct{ k int64 }

type world struct {
	caseNo    int
	locals    map[int64]*event.LocalEventCenter
	lights    map[int64]*light.EventCenter
	chanMode  map[int64]bool
	progs     map[int64][]hx.T
	listeners map[int64]*lst
	order     []*lst
	recvs     map[int64]*recvObj
	names     map[string]int64
	nextTok   int64
	npub      int64
	stack     []frame // what the running goroutine is inside of (innermost last)
	depth     int

	svcs      map[int64]*service
	probes    map[int64]*probe
	preg      map[[2]int64]bool // (probe, name) registered at the global centre by this case
	driverGid string
	starting  *service // the service whose loop goroutine id is not known yet
	closing   bool     // the case is over: nothing is logged or interpreted any more
	tags      map[string]bool

	mu        sync.Mutex
	log       []any
	abandoned bool
	beat      int64
}

func newWorld(caseNo int) *world {
	w := &world{
		caseNo:    caseNo,
		locals:    map[int64]*event.LocalEventCenter{},
		lights:    map[int64]*light.EventCenter{},
		chanMode:  map[int64]bool{0: false, 1: true, 2: true, 3: true, 4: true, 5: true},
		svcs:      map[int64]*service{4: {c: 4}, 5: {c: 5}},
		tags:      map[string]bool{},
		probes:    map[int64]*probe{},
		preg:      map[[2]int64]bool{},
		progs:     map[int64][]hx.T{},
		listeners: map[int64]*lst{},
		recvs:     map[int64]*recvObj{},
		names:     map[string]int64{},
		nextTok:   1,
		npub:      1,
	}
	for c := int64(0); c <= 3; c++ {
		w.locals[c] = event.NewLocalEventCenter(w.chanMode[c])
	}
	for c := int64(10); c <= 11; c++ {
		w.lights[c] = light.NewEventCenter()
	}
	return w
}

func (w *world) name(n int64) string {
	s := fmt.Sprintf("c17-%d-%d-e%d", runNonce, w.caseNo, n)
	w.mu.Lock()
	w.names[s] = n
	w.mu.Unlock()
	return s
}

// nameTok: the token of an event name seen in a received event (-1: not one of ours)
func (w *world) nameTok(s string) int64 {
	w.mu.Lock()
	defer w.mu.Unlock()
	if n, ok := w.names[s]; ok {
		return n
	}
	return -1
}

func (w *world) tag(t string) {
	w.mu.Lock()
	w.tags[t] = true
	w.mu.Unlock()
}

// lc returns local centre c; the run service of centre 4 / 5 is created on first use
func (w *world) lc(c int64) *event.LocalEventCenter {
	if isSvc(c) {
		return w.service(c).svc.GetEventCenter()
	}
	return w.locals[c]
}

func (w *world) emit(e any) {
	atomic.AddInt64(&w.beat, 1)
	w.mu.Lock()
	if w.closing {
		w.mu.Unlock()
		return
	}
	if w.abandoned {
		w.mu.Unlock()
		runtime.Goexit() // the watchdog gave up on this goroutine; stop touching anything
	}
	w.log = append(w.log, e)
	w.mu.Unlock()
}

func ifaces(a []int64, spare int) []interface{} {
	// spare capacity on purpose: a callee that appends to this slice in place would
	// write into memory shared with other invocations
	out := make([]interface{}, len(a), len(a)+spare)
	for i, v := range a {
		out[i] = v
	}
	return out
}

func ints(a []interface{}) []int64 {
	out := make([]int64, len(a))
	for i, v := range a {
		if x, ok := v.(int64); ok {
			out[i] = x
		} else {
			out[i] = -1
		}
	}
	return out
}

func same(a, b []int64) bool {
	if len(a) != len(b) {
		return false
	}
	for i := range a {
		if a[i] != b[i] {
			return false
		}
	}
	return true
}

// frame: the running goroutine is inside a publication issued by the driver code (pub) or
// inside a listener (otherwise)
type frame struct {
	pub bool
	p   int64
}

// onInvoke is what every scripted callback does.
func (w *world) onInvoke(l *lst, args []interface{}) {
	if l == nil || w.closing {
		return // dummy callbacks used only for their code pointer / case is over
	}
	// a panic of the code under test below a listener (it would kill the process: the event
	// selector has no recover) ends the case with the "call did not return" event
	defer w.recovered()
	g := w.gtok()
	entry := ints(args)
	p := int64(0)
	if n := len(w.stack); n > 0 && w.stack[n-1].pub {
		p = w.stack[n-1].p
	} else {
		// not called from a Publish / DoEvent of the driver code
		p = w.unsolicited(l, entry)
	}
	w.emit(hx.C("VInv", p, l.tok, entry, g))
	w.stack = append(w.stack, frame{})
	w.depth++
	if w.depth <= depthMax && len(w.log) < budget {
		for _, a := range w.progs[l.pid] { // program looked up at invocation time
			w.act(l, a)
		}
	}
	w.depth--
	w.stack = w.stack[:len(w.stack)-1]
	w.emit(hx.C("VRet", l.tok, same(entry, ints(args))))
}

func (w *world) recovered() {
	if r := recover(); r != nil {
		w.mu.Lock()
		if !w.closing && !w.abandoned {
			w.log = append(w.log, "VDeadlock")
			w.tags["panic"] = true
		}
		w.closing = true
		w.mu.Unlock()
	}
}

// Four function literals = four code pointers (light.Subscribe de-duplicates by code pointer).
func (w *world) mkCB(code int64, l *lst) func(args ...interface{}) {
	switch ((code % 4) + 4) % 4 {
	case 0:
		return func(args ...interface{}) { w.onInvoke(l, args) }
	case 1:
		return func(args ...interface{}) { w.onInvoke(l, args[0:]) }
	case 2:
		return func(args ...interface{}) { w.onInvoke(l, args[:len(args)]) }
	default:
		return func(args ...interface{}) { w.onInvoke(l, args[0:len(args)]) }
	}
}

func (w *world) recv(k int64) *recvObj {
	r := w.recvs[k]
	if r == nil {
		r = &recvObj{k}
		w.recvs[k] = r
	}
	return r
}

func isLocal(c int64) bool { return c >= 0 && c <= nLocal-1 }
func isDrv(c int64) bool   { return c >= 0 && c <= 3 }
func isSvc(c int64) bool   { return c >= 4 && c <= 5 }
func isLight(c int64) bool { return c >= 10 && c <= 11 }

// listeners of (c, n) that light's FindId / FindIdWithReceiver would match (Model.cb_match)
func (w *world) cbMatches(c, n, how, code int64) []*lst {
	code = ((code % 4) + 4) % 4
	var out []*lst
	for _, l := range w.order {
		if !l.alive || l.c != c || l.n != n {
			continue
		}
		var m bool
		if how < 2 || l.recv == 0 {
			m = l.code == code
		} else {
			m = l.code == code && l.recv == how
		}
		if m {
			out = append(out, l)
		}
	}
	return out
}

func (w *world) unsub(c, n, tok int64) {
	if !w.mine(c) || (!isLocal(c) && !isLight(c)) {
		w.emit("VNop")
		return
	}
	w.emit(hx.C("VUnsub", c, n, tok))
	l := w.listeners[tok]
	id := uint64(1)<<60 + uint64(tok) // an id nobody has
	if l != nil && l.c == c {
		id = l.realID
	}
	if isLocal(c) {
		w.lc(c).Unsubscribe(w.name(n), id)
	} else {
		w.lights[c].UnsubscribeById(w.name(n), id)
	}
	if l != nil && l.c == c && l.n == n {
		l.alive = false
	}
}

func (w *world) dispatchLogged(c, n int64, args []int64, f func()) {
	p := w.npub
	w.npub++
	w.emit(hx.C("VBegin", p, c, n, args))
	w.stack = append(w.stack, frame{true, p})
	f()
	w.stack = w.stack[:len(w.stack)-1]
	w.emit(hx.C("VEnd", p))
}

func clamp(k, lo, hi int64) int64 {
	if k > hi {
		k = hi
	}
	if k < lo {
		k = lo
	}
	return k
}

// act performs one action; self is the listener whose callback is running (nil: the owner).
func (w *world) act(self *lst, a hx.T) {
	atomic.AddInt64(&w.beat, 1)
	switch a.Name {
	case "ASub":
		c, n, how, code, bound, pid := a.Int(0), a.Int(1), a.Int(2), a.Int(3), a.Ints(4), a.Int(5)
		if !w.mine(c) || (!isLocal(c) && !isLight(c)) {
			w.emit("VNop")
			return
		}
		l := &lst{c: c, n: n, code: ((code % 4) + 4) % 4, pid: pid, nbound: len(bound)}
		cb := w.mkCB(code, l)
		b := ifaces(bound, 4)
		var id uint64
		g := false
		if isLocal(c) {
			if how == 0 {
				id = w.lc(c).Subscribe(w.name(n), cb, b...)
			} else {
				g = true
				id = w.lc(c).GSubscribe(w.name(n), cb, b...)
			}
		} else {
			switch {
			case how == 0:
				id = w.lights[c].Subscribe(w.name(n), cb, b...)
			case how == 1:
				id = w.lights[c].SubscribeNoCheck(w.name(n), cb, b...)
			default:
				l.recv = how
				id = w.lights[c].SubscribeWithReceiver(w.name(n), w.recv(how), cb, b...)
			}
		}
		if id == 0 {
			w.emit("VSubFail")
			return
		}
		l.tok, l.realID, l.alive = w.nextTok, id, true
		w.nextTok++
		w.listeners[l.tok] = l
		w.order = append(w.order, l)
		w.emit(hx.C("VSub", l.tok, c, n, g, bound))
	case "AUnsub":
		w.unsub(a.Int(0), a.Int(1), a.Int(2))
	case "AUnsubSelf":
		if self == nil {
			w.emit("VNop")
			return
		}
		w.unsub(self.c, self.n, self.tok)
	case "AUnsubCb":
		c, n, how, code := a.Int(0), a.Int(1), a.Int(2), a.Int(3)
		if !w.mine(c) || !isLight(c) {
			w.emit("VNop")
			return
		}
		ms := w.cbMatches(c, n, how, code)
		if len(ms) > 1 {
			// which one light.FindId returns depends on map order: the driver does not issue
			// an unsubscribe-by-callback whose target is ambiguous
			w.emit("VAmbig")
			return
		}
		tok := int64(0)
		if len(ms) == 1 {
			tok = ms[0].tok
		}
		w.emit(hx.C("VUnsubCb", c, n, tok))
		if how < 2 {
			w.lights[c].Unsubscribe(w.name(n), w.mkCB(code, nil))
		} else {
			w.lights[c].UnsubscribeWithReceiver(w.name(n), w.recv(how), w.mkCB(code, nil))
		}
		if len(ms) == 1 {
			ms[0].alive = false
		}
	case "AClear":
		c := a.Int(0)
		if !w.mine(c) || (!isLocal(c) && !isLight(c)) {
			w.emit("VNop")
			return
		}
		w.emit(hx.C("VClear", c))
		if isLocal(c) {
			w.lc(c).Clear()
		} else {
			w.lights[c].Clear()
		}
		for _, l := range w.order {
			if l.c == c {
				l.alive = false
			}
		}
	case "APub":
		c, n, args := a.Int(0), a.Int(1), a.Ints(2)
		switch {
		case isLight(c) && w.mine(c):
			w.dispatchLogged(c, n, args, func() { w.lights[c].Publish(w.name(n), ifaces(args, 0)...) })
		case isLocal(c) && w.chanMode[c]:
			// a send: from any goroutine
			w.emit(hx.C("VEnq", c, n, args))
			if w.anyStopped() {
				w.tag("publish-after-stop")
			}
			w.lc(c).Publish(w.name(n), ifaces(args, 0)...) // blocks when the queue is full
			if s := w.svcOf(c); s != nil {
				s.enq++
			}
		case isLocal(c) && w.mine(c):
			w.dispatchLogged(c, n, args, func() { w.lc(c).Publish(w.name(n), ifaces(args, 0)...) })
		default:
			w.emit("VNop")
		}
	case "AGPub":
		n, args, k := a.Int(0), a.Ints(1), clamp(a.Int(2), 0, repMax)
		before := w.qlens()
		for i := int64(0); i < k; i++ {
			event.GetGlobalEC().Publish(w.name(n), ifaces(args, 0)...)
		}
		qlens := w.qlens()
		for c, s := range w.svcs {
			if s.svc != nil {
				s.enq += qlens[c] - before[c]
			}
		}
		if w.anyStopped() {
			w.tag("publish-after-stop")
		}
		w.emit(hx.C("VGPub", n, args, k, qlens))
		if w.probing() {
			w.emit(hx.C("VProbe", n, args, k, w.plens()))
		}
	case "AStop":
		w.stop(a.Int(0))
	default:
		panic("c17: unknown action " + a.Name)
	}
}

func (w *world) op(o hx.T) {
	w.emit("VOp")
	switch o.Name {
	case "ODef":
		w.progs[o.Int(0)] = hx.Terms(o.Args[1])
	case "OAct":
		w.act(nil, o.Term(0))
	case "ODrain":
		c, k := o.Int(0), clamp(o.Int(1), 0, drainMax)
		if !isDrv(c) {
			w.emit("VNop")
			return
		}
		lc := w.locals[c]
		for i := int64(0); i < k; i++ {
			select {
			case e := <-lc.GetChanEvent():
				n := w.nameTok(e.EventName)
				args := ints(e.Args)
				w.emit(hx.C("VDeq", c, n, args))
				w.dispatchLogged(c, n, args, func() { lc.DoEvent(e) })
			default:
				return
			}
		}
	case "ODiscard":
		c, k := o.Int(0), clamp(o.Int(1), 0, repMax)
		if !isDrv(c) {
			w.emit("VNop")
			return
		}
		// maximal runs (count, (name, args)) of the received events (Model.rle)
		type run struct {
			k    int64
			n    int64
			args []int64
		}
		var runs []run
	recv:
		for i := int64(0); i < k; i++ {
			select {
			case e := <-w.locals[c].GetChanEvent():
				n := w.nameTok(e.EventName)
				a := ints(e.Args)
				if m := len(runs); m > 0 && runs[m-1].n == n && same(runs[m-1].args, a) {
					runs[m-1].k++
				} else {
					runs = append(runs, run{1, n, a})
				}
			default:
				break recv
			}
		}
		items := []any{}
		for _, x := range runs {
			items = append(items, hx.Pair{A: x.k, B: hx.Pair{A: x.n, B: hx.Norm(x.args)}})
		}
		w.emit(hx.C("VDrop", c, items))
	case "OSetChan":
		c, b := o.Int(0), o.Bool(1)
		if !isDrv(c) {
			w.emit("VNop")
			return
		}
		w.locals[c].SetLocalUseChan(b)
		w.chanMode[c] = b
	case "OReg", "OPark", "ORelease":
		w.probeOp(o)
	case "OStart":
		w.start(o.Int(0))
	case "ORun":
		c := o.Int(0)
		if s := w.svcOf(c); s != nil && s.alive {
			w.runLoop(s)
		} else {
			w.emit("VNop")
		}
	case "OOwn":
		c, a := o.Int(0), o.Term(1)
		if s := w.svcOf(c); s != nil && s.alive {
			s.ctl.do(func() { w.act(nil, a) })
		} else {
			w.emit("VNop")
		}
	default:
		panic("c17: unknown op " + o.Name)
	}
}

// goid of the calling goroutine, from the first line of its stack ("goroutine 12 [running]:")
func goid() string {
	buf := make([]byte, 64)
	buf = buf[:runtime.Stack(buf, false)]
	f := strings.Fields(string(buf))
	if len(f) >= 2 {
		return f[1]
	}
	return ""
}

// parked reports whether goroutine id is blocked (on a lock, a channel, ...) rather than
// merely not scheduled: only then is "no progress" a deadlock and not a slow machine.
func parked(id string) bool {
	buf := make([]byte, 1<<20)
	for {
		n := runtime.Stack(buf, true)
		if n < len(buf) {
			buf = buf[:n]
			break
		}
		buf = make([]byte, 2*len(buf))
	}
	head := "goroutine " + id + " ["
	i := strings.Index(string(buf), head)
	if i < 0 {
		return false
	}
	rest := string(buf[i+len(head):])
	j := strings.IndexAny(rest, "],")
	if j < 0 {
		return false
	}
	switch st := rest[:j]; {
	case st == "running", st == "runnable", st == "syscall", strings.Contains(st, "GC"):
		return false
	default:
		return true
	}
}

// Exec runs one history on fresh real centres under the watchdog.
func Exec(caseNo int, ops []hx.T) ([]any, []string) {
	w := newWorld(caseNo)
	done := make(chan struct{})
	gid := make(chan string, 1)
	go func() {
		defer close(done)
		defer w.recovered()
		w.driverGid = goid()
		gid <- w.driverGid
		for _, o := range ops {
			w.op(o)
		}
	}()
	id := <-gid
	last, lastChange := int64(-1), time.Now()
	tick := time.NewTicker(5 * time.Millisecond)
	defer tick.Stop()
	for {
		select {
		case <-done:
			w.mu.Lock()
			w.closing = true
			out := w.log
			w.mu.Unlock()
			w.shutdown()
			return out, w.tagList()
		case <-tick.C:
			b := atomic.LoadInt64(&w.beat)
			if b != last {
				last, lastChange = b, time.Now()
			} else if time.Since(lastChange) > stallAfter {
				if !parked(id) || w.loopRunning() {
					lastChange = time.Now()
					continue
				}
				w.mu.Lock()
				w.abandoned = true
				out := append(append([]any{}, w.log...), "VDeadlock")
				w.mu.Unlock()
				w.unblock()
				return out, w.tagList()
			}
		}
	}
}

func silence() {
	logger.SetLogLevel(logrus.PanicLevel)
	logger.GetLogProxy("exception").SetLogLevel(logrus.PanicLevel) // sche.Post on a stopped scheduler
	log.SetOutput(io.Discard)
}
