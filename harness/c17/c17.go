// Package c17 drives the real event centres of cell2 (utils/event: LocalEventCenter in
// direct and channel mode, the GlobalEventCenter singleton; utils/event/light: EventCenter)
// with scripted listeners.  A listener is a closure that, when the real code invokes it,
// logs the invocation and then interprets its *program* (a list of re-entrant actions taken
// from the op data): subscribe, unsubscribe (self / other / by callback), clear, publish,
// global publish.  The goroutine executing a case is the owner of every centre of that case:
// it is the one that drains the centres' event channels (ODrain).  A watchdog turns a case
// that stops making progress (lock cycle, send on a full channel) into the observable
// VDeadlock instead of hanging the harness; the stuck goroutine is abandoned.
//
// The trace written as the case's obs is the flat list of events of Coq's C17.Model.ev.
package c17

import (
	"fmt"
	"io"
	"log"
	"runtime"
	"strings"
	"sync"
	"sync/atomic"
	"time"

	"github.com/sirupsen/logrus"

	"github.com/dfklegend/cell2/utils/event"
	"github.com/dfklegend/cell2/utils/event/light"
	"github.com/dfklegend/cell2/utils/logger"

	"verifh/hx"
)

const (
	depthMax   = 2    // Model.DEPTH: listeners nested deeper do not run their program
	budget     = 300  // Model.BUDGET: nor do listeners invoked after this many trace events
	repMax     = 1200 // Model.REPMAX
	drainMax   = 50
	nLocal     = 4                      // Model.local_centres
	stallAfter = 400 * time.Millisecond // without progress AND with the case goroutine parked
)

var runNonce = time.Now().UnixNano() // the global centre is a process-wide singleton: unique names

type lst struct {
	tok        int64
	c, n       int64
	realID     uint64
	code, recv int64
	pid        int64
	alive      bool
}

type recvObj struct{ k int64 }

type world struct {
	caseNo    int
	locals    map[int64]*event.LocalEventCenter
	lights    map[int64]*light.EventCenter
	chanMode  map[int64]bool
	progs     map[int64][]hx.T
	listeners map[int64]*lst
	order     []*lst
	recvs     map[int64]*recvObj
	names     map[string]int64
	nextTok   int64
	npub      int64
	pubStack  []int64
	depth     int

	mu        sync.Mutex
	log       []any
	abandoned bool
	beat      int64
}

func newWorld(caseNo int) *world {
	w := &world{
		caseNo:    caseNo,
		locals:    map[int64]*event.LocalEventCenter{},
		lights:    map[int64]*light.EventCenter{},
		chanMode:  map[int64]bool{0: false, 1: true, 2: true, 3: true},
		progs:     map[int64][]hx.T{},
		listeners: map[int64]*lst{},
		recvs:     map[int64]*recvObj{},
		names:     map[string]int64{},
		nextTok:   1,
		npub:      1,
	}
	for c := int64(0); c <= nLocal-1; c++ {
		w.locals[c] = event.NewLocalEventCenter(w.chanMode[c])
	}
	for c := int64(10); c <= 11; c++ {
		w.lights[c] = light.NewEventCenter()
	}
	return w
}

func (w *world) name(n int64) string {
	s := fmt.Sprintf("c17-%d-%d-e%d", runNonce, w.caseNo, n)
	w.names[s] = n
	return s
}

func (w *world) emit(e any) {
	atomic.AddInt64(&w.beat, 1)
	w.mu.Lock()
	if w.abandoned {
		w.mu.Unlock()
		runtime.Goexit() // the watchdog gave up on this goroutine; stop touching anything
	}
	w.log = append(w.log, e)
	w.mu.Unlock()
}

func ifaces(a []int64, spare int) []interface{} {
	// spare capacity on purpose: a callee that appends to this slice in place would
	// write into memory shared with other invocations
	out := make([]interface{}, len(a), len(a)+spare)
	for i, v := range a {
		out[i] = v
	}
	return out
}

func ints(a []interface{}) []int64 {
	out := make([]int64, len(a))
	for i, v := range a {
		if x, ok := v.(int64); ok {
			out[i] = x
		} else {
			out[i] = -1
		}
	}
	return out
}

func same(a, b []int64) bool {
	if len(a) != len(b) {
		return false
	}
	for i := range a {
		if a[i] != b[i] {
			return false
		}
	}
	return true
}

// onInvoke is what every scripted callback does.
func (w *world) onInvoke(l *lst, args []interface{}) {
	if l == nil {
		return // dummy callbacks used only for their code pointer
	}
	p := int64(0)
	if len(w.pubStack) > 0 {
		p = w.pubStack[len(w.pubStack)-1]
	}
	entry := ints(args)
	w.emit(hx.C("VInv", p, l.tok, entry))
	w.depth++
	if w.depth <= depthMax && len(w.log) < budget {
		for _, a := range w.progs[l.pid] { // program looked up at invocation time
			w.act(l, a)
		}
	}
	w.depth--
	w.emit(hx.C("VRet", l.tok, same(entry, ints(args))))
}

// Four function literals = four code pointers (light.Subscribe de-duplicates by code pointer).
func (w *world) mkCB(code int64, l *lst) func(args ...interface{}) {
	switch ((code % 4) + 4) % 4 {
	case 0:
		return func(args ...interface{}) { w.onInvoke(l, args) }
	case 1:
		return func(args ...interface{}) { w.onInvoke(l, args[0:]) }
	case 2:
		return func(args ...interface{}) { w.onInvoke(l, args[:len(args)]) }
	default:
		return func(args ...interface{}) { w.onInvoke(l, args[0:len(args)]) }
	}
}

func (w *world) recv(k int64) *recvObj {
	r := w.recvs[k]
	if r == nil {
		r = &recvObj{k}
		w.recvs[k] = r
	}
	return r
}

func isLocal(c int64) bool { return c >= 0 && c <= nLocal-1 }
func isLight(c int64) bool { return c >= 10 && c <= 11 }

// listeners of (c, n) that light's FindId / FindIdWithReceiver would match (Model.cb_match)
func (w *world) cbMatches(c, n, how, code int64) []*lst {
	code = ((code % 4) + 4) % 4
	var out []*lst
	for _, l := range w.order {
		if !l.alive || l.c != c || l.n != n {
			continue
		}
		var m bool
		if how < 2 || l.recv == 0 {
			m = l.code == code
		} else {
			m = l.code == code && l.recv == how
		}
		if m {
			out = append(out, l)
		}
	}
	return out
}

func (w *world) unsub(c, n, tok int64) {
	if !isLocal(c) && !isLight(c) {
		w.emit("VNop")
		return
	}
	w.emit(hx.C("VUnsub", c, n, tok))
	l := w.listeners[tok]
	id := uint64(1)<<60 + uint64(tok) // an id nobody has
	if l != nil && l.c == c {
		id = l.realID
	}
	if isLocal(c) {
		w.locals[c].Unsubscribe(w.name(n), id)
	} else {
		w.lights[c].UnsubscribeById(w.name(n), id)
	}
	if l != nil && l.c == c && l.n == n {
		l.alive = false
	}
}

func (w *world) dispatchLogged(c, n int64, args []int64, f func()) {
	p := w.npub
	w.npub++
	w.emit(hx.C("VBegin", p, c, n, args))
	w.pubStack = append(w.pubStack, p)
	f()
	w.pubStack = w.pubStack[:len(w.pubStack)-1]
	w.emit(hx.C("VEnd", p))
}

func clamp(k, lo, hi int64) int64 {
	if k > hi {
		k = hi
	}
	if k < lo {
		k = lo
	}
	return k
}

// act performs one action; self is the listener whose callback is running (nil: the owner).
func (w *world) act(self *lst, a hx.T) {
	atomic.AddInt64(&w.beat, 1)
	switch a.Name {
	case "ASub":
		c, n, how, code, bound, pid := a.Int(0), a.Int(1), a.Int(2), a.Int(3), a.Ints(4), a.Int(5)
		if !isLocal(c) && !isLight(c) {
			w.emit("VNop")
			return
		}
		l := &lst{c: c, n: n, code: ((code % 4) + 4) % 4, pid: pid}
		cb := w.mkCB(code, l)
		b := ifaces(bound, 4)
		var id uint64
		g := false
		if isLocal(c) {
			if how == 0 {
				id = w.locals[c].Subscribe(w.name(n), cb, b...)
			} else {
				g = true
				id = w.locals[c].GSubscribe(w.name(n), cb, b...)
			}
		} else {
			switch {
			case how == 0:
				id = w.lights[c].Subscribe(w.name(n), cb, b...)
			case how == 1:
				id = w.lights[c].SubscribeNoCheck(w.name(n), cb, b...)
			default:
				l.recv = how
				id = w.lights[c].SubscribeWithReceiver(w.name(n), w.recv(how), cb, b...)
			}
		}
		if id == 0 {
			w.emit("VSubFail")
			return
		}
		l.tok, l.realID, l.alive = w.nextTok, id, true
		w.nextTok++
		w.listeners[l.tok] = l
		w.order = append(w.order, l)
		w.emit(hx.C("VSub", l.tok, c, n, g, bound))
	case "AUnsub":
		w.unsub(a.Int(0), a.Int(1), a.Int(2))
	case "AUnsubSelf":
		if self == nil {
			w.emit("VNop")
			return
		}
		w.unsub(self.c, self.n, self.tok)
	case "AUnsubCb":
		c, n, how, code := a.Int(0), a.Int(1), a.Int(2), a.Int(3)
		if !isLight(c) {
			w.emit("VNop")
			return
		}
		ms := w.cbMatches(c, n, how, code)
		if len(ms) > 1 {
			// which one light.FindId returns depends on map order: the driver does not issue
			// an unsubscribe-by-callback whose target is ambiguous
			w.emit("VAmbig")
			return
		}
		tok := int64(0)
		if len(ms) == 1 {
			tok = ms[0].tok
		}
		w.emit(hx.C("VUnsubCb", c, n, tok))
		if how < 2 {
			w.lights[c].Unsubscribe(w.name(n), w.mkCB(code, nil))
		} else {
			w.lights[c].UnsubscribeWithReceiver(w.name(n), w.recv(how), w.mkCB(code, nil))
		}
		if len(ms) == 1 {
			ms[0].alive = false
		}
	case "AClear":
		c := a.Int(0)
		if !isLocal(c) && !isLight(c) {
			w.emit("VNop")
			return
		}
		w.emit(hx.C("VClear", c))
		if isLocal(c) {
			w.locals[c].Clear()
		} else {
			w.lights[c].Clear()
		}
		for _, l := range w.order {
			if l.c == c {
				l.alive = false
			}
		}
	case "APub":
		c, n, args := a.Int(0), a.Int(1), a.Ints(2)
		switch {
		case isLight(c):
			w.dispatchLogged(c, n, args, func() { w.lights[c].Publish(w.name(n), ifaces(args, 0)...) })
		case isLocal(c) && w.chanMode[c]:
			w.emit(hx.C("VEnq", c, n, args))
			w.locals[c].Publish(w.name(n), ifaces(args, 0)...) // blocks when the queue is full
		case isLocal(c):
			w.dispatchLogged(c, n, args, func() { w.locals[c].Publish(w.name(n), ifaces(args, 0)...) })
		default:
			w.emit("VNop")
		}
	case "AGPub":
		n, args, k := a.Int(0), a.Ints(1), clamp(a.Int(2), 0, repMax)
		for i := int64(0); i < k; i++ {
			event.GetGlobalEC().Publish(w.name(n), ifaces(args, 0)...)
		}
		qlens := []int64{}
		for c := int64(0); c <= nLocal-1; c++ {
			qlens = append(qlens, int64(len(w.locals[c].GetChanEvent())))
		}
		w.emit(hx.C("VGPub", n, args, k, qlens))
	default:
		panic("c17: unknown action " + a.Name)
	}
}

func (w *world) op(o hx.T) {
	w.emit("VOp")
	switch o.Name {
	case "ODef":
		w.progs[o.Int(0)] = hx.Terms(o.Args[1])
	case "OAct":
		w.act(nil, o.Term(0))
	case "ODrain":
		c, k := o.Int(0), clamp(o.Int(1), 0, drainMax)
		if !isLocal(c) {
			w.emit("VNop")
			return
		}
		lc := w.locals[c]
		for i := int64(0); i < k; i++ {
			select {
			case e := <-lc.GetChanEvent():
				n, ok := w.names[e.EventName]
				if !ok {
					n = -1
				}
				args := ints(e.Args)
				w.emit(hx.C("VDeq", c, n, args))
				w.dispatchLogged(c, n, args, func() { lc.DoEvent(e) })
			default:
				return
			}
		}
	case "ODiscard":
		c, k := o.Int(0), clamp(o.Int(1), 0, repMax)
		if !isLocal(c) {
			w.emit("VNop")
			return
		}
		// maximal runs (count, (name, args)) of the received events (Model.rle)
		type run struct {
			k    int64
			n    int64
			args []int64
		}
		var runs []run
	recv:
		for i := int64(0); i < k; i++ {
			select {
			case e := <-w.locals[c].GetChanEvent():
				n, ok := w.names[e.EventName]
				if !ok {
					n = -1
				}
				a := ints(e.Args)
				if m := len(runs); m > 0 && runs[m-1].n == n && same(runs[m-1].args, a) {
					runs[m-1].k++
				} else {
					runs = append(runs, run{1, n, a})
				}
			default:
				break recv
			}
		}
		items := []any{}
		for _, x := range runs {
			items = append(items, hx.Pair{A: x.k, B: hx.Pair{A: x.n, B: hx.Norm(x.args)}})
		}
		w.emit(hx.C("VDrop", c, items))
	case "OSetChan":
		c, b := o.Int(0), o.Bool(1)
		if !isLocal(c) {
			w.emit("VNop")
			return
		}
		w.locals[c].SetLocalUseChan(b)
		w.chanMode[c] = b
	default:
		panic("c17: unknown op " + o.Name)
	}
}

// goid of the calling goroutine, from the first line of its stack ("goroutine 12 [running]:")
func goid() string {
	buf := make([]byte, 64)
	buf = buf[:runtime.Stack(buf, false)]
	f := strings.Fields(string(buf))
	if len(f) >= 2 {
		return f[1]
	}
	return ""
}

// parked reports whether goroutine id is blocked (on a lock, a channel, ...) rather than
// merely not scheduled: only then is "no progress" a deadlock and not a slow machine.
func parked(id string) bool {
	buf := make([]byte, 1<<20)
	for {
		n := runtime.Stack(buf, true)
		if n < len(buf) {
			buf = buf[:n]
			break
		}
		buf = make([]byte, 2*len(buf))
	}
	head := "goroutine " + id + " ["
	i := strings.Index(string(buf), head)
	if i < 0 {
		return false
	}
	rest := string(buf[i+len(head):])
	j := strings.IndexAny(rest, "],")
	if j < 0 {
		return false
	}
	switch st := rest[:j]; {
	case st == "running", st == "runnable", st == "syscall", strings.Contains(st, "GC"):
		return false
	default:
		return true
	}
}

// Exec runs one history on fresh real centres under the watchdog.
func Exec(caseNo int, ops []hx.T) []any {
	w := newWorld(caseNo)
	done := make(chan struct{})
	gid := make(chan string, 1)
	go func() {
		defer close(done)
		gid <- goid()
		for _, o := range ops {
			w.op(o)
		}
	}()
	id := <-gid
	last, lastChange := int64(-1), time.Now()
	tick := time.NewTicker(5 * time.Millisecond)
	defer tick.Stop()
	for {
		select {
		case <-done:
			return w.log
		case <-tick.C:
			b := atomic.LoadInt64(&w.beat)
			if b != last {
				last, lastChange = b, time.Now()
			} else if time.Since(lastChange) > stallAfter {
				if !parked(id) {
					lastChange = time.Now()
					continue
				}
				w.mu.Lock()
				w.abandoned = true
				out := append(append([]any{}, w.log...), "VDeadlock")
				w.mu.Unlock()
				return out
			}
		}
	}
}

func silence() {
	logger.SetLogLevel(logrus.PanicLevel)
	log.SetOutput(io.Discard)
}
