package c17

// Run services.  Centres 4 and 5 of a case are the EventCenter of a real
// runservice.StandardRunService.  The service's loop goroutine - the one that runs the
// "event" selector installed by StandardRunService.Start() and therefore the one that must
// invoke every listener of the centre - is the owner of the centre from Start() until the
// loop has ended; the driver code never receives from that centre's channel and never calls
// DoEvent on it.
//
// To make histories deterministic the driver keeps a started loop busy inside a scheduler
// task (a "controller") whenever the driver itself acts: events published meanwhile stay in
// the centre's queue, exactly as with any long-running task or listener.  ORun releases the
// task and lets the loop run until its queue is empty (then it is parked again) or, after
// Stop(), until it has ended.  OOwn hands an action to the parked task, which performs it on
// the loop goroutine.  Stop() is called by whoever performs AStop: the driver (a foreign
// goroutine, loop busy, events possibly still queued), the busy task, or a listener.
//
// What the loop does between two releases is observed, not assumed: every scripted listener
// reports the goroutine it runs on; the number of events the loop has received is
// (events put into the channel) - len(channel), both exact because only one goroutine of a
// case runs at any time.  An invocation that does not come from a Publish / DoEvent call of
// the driver code itself belongs to the event most recently received from the queue:
// VDeq / VBegin are logged from what the listener sees (its name, the arguments behind its
// bound ones); events received without any invocation are logged as VSkip (a count).

import (
	"fmt"
	"runtime"
	"sort"
	"strings"
	"time"

	"github.com/dfklegend/cell2/utils/event"
	"github.com/dfklegend/cell2/utils/runservice"

	"verifh/hx"
)

type service struct {
	c       int64
	name    string
	svc     *runservice.StandardRunService
	alive   bool   // Start() was called and the loop has not been seen to end
	stopped bool   // Stop() has returned
	inStop  bool   // Stop() is running (it must not be entered twice: close of closed channel)
	gid     string // goroutine id of the loop ("" not known yet)
	ctl     *controller
	enq     int64 // events put into the centre's channel so far
	rcv     int64 // of which accounted for as received
	openPub int64 // publication logged for the event the loop is dispatching (0: none)
	skipAcc int64 // events received without any invocation, not yet logged
}

// controller: the scheduler task that keeps the loop busy; it performs what it is handed
type controller struct {
	entered chan string // the task started: goroutine id of the loop
	cmds    chan func()
	release chan struct{}
}

func newController() *controller {
	return &controller{entered: make(chan string, 1), cmds: make(chan func()), release: make(chan struct{})}
}

func (ct *controller) task() {
	ct.entered <- goid()
	for {
		select {
		case f := <-ct.cmds:
			f()
		case <-ct.release:
			return
		}
	}
}

// do runs f on the loop goroutine and waits for it (also when f dies by Goexit)
func (ct *controller) do(f func()) {
	done := make(chan struct{})
	ct.cmds <- func() {
		defer close(done)
		f()
	}
	<-done
}

// service returns the run service of centre c (4 or 5), creating the real one on first use.
// The map w.svcs itself is filled once in newWorld and never written again (the watchdog
// goroutine reads it).
func (w *world) service(c int64) *service {
	s := w.svcs[c]
	if s.svc == nil {
		s.name = fmt.Sprintf("c17-%d-%d-svc%d", runNonce, w.caseNo, c)
		s.svc = runservice.NewStandardRunService(s.name)
	}
	return s
}

// svcOf: the service of centre c if c is a service centre whose service exists, else nil
func (w *world) svcOf(c int64) *service {
	if !isSvc(c) {
		return nil
	}
	if s := w.svcs[c]; s.svc != nil {
		return s
	}
	return nil
}

// lcIf: local centre c if it exists already
func (w *world) lcIf(c int64) *event.LocalEventCenter {
	if isDrv(c) {
		return w.locals[c]
	}
	if s := w.svcOf(c); s != nil {
		return s.svc.GetEventCenter()
	}
	return nil
}

// ---------------------------------------------------------------- goroutines

// gtok: token of the calling goroutine: 0 driver, 4 / 5 loop of that service, -1 any other
func (w *world) gtok() int64 {
	id := goid()
	if id == w.driverGid {
		return 0
	}
	for c, s := range w.svcs {
		if s.gid != "" && s.gid == id {
			return c
		}
	}
	if s := w.starting; s != nil && s.gid == "" {
		// the loop may deliver before its first task runs: recognise it by its stack
		buf := make([]byte, 1<<16)
		buf = buf[:runtime.Stack(buf, false)]
		if strings.Contains(string(buf), "runservice.(*RunService).loop") {
			s.gid = id
			return s.c
		}
	}
	return -1
}

// owner of centre c (Model.owner)
func (w *world) owner(c int64) int64 {
	if s := w.svcOf(c); s != nil && s.alive {
		return c
	}
	return 0
}

func (w *world) mine(c int64) bool { return w.gtok() == w.owner(c) }

func (w *world) anyStopped() bool {
	for _, s := range w.svcs {
		if s.stopped {
			return true
		}
	}
	return false
}

// qlens: pending events of local centres 0..5 (a service that was never touched has none)
func (w *world) qlens() []int64 {
	out := make([]int64, nLocal)
	for c := int64(0); c < nLocal; c++ {
		if l := w.lcIf(c); l != nil {
			out[c] = int64(len(l.GetChanEvent()))
		}
	}
	return out
}

// ---------------------------------------------------------------- what the loop received

func (w *world) sync(s *service) int64 {
	cur := s.enq - int64(len(s.svc.GetEventCenter().GetChanEvent()))
	r := cur - s.rcv
	if r < 0 {
		r = 0
	}
	s.rcv = cur
	return r
}

func (w *world) closeOpen(s *service) {
	if s.openPub != 0 {
		w.emit(hx.C("VEnd", s.openPub))
		s.openPub = 0
	}
}

func (w *world) flushSkip(s *service) {
	if s.skipAcc > 0 && !s.stopped {
		w.tag("event-without-listener")
		w.emit(hx.C("VSkip", s.c, s.skipAcc))
	}
	s.skipAcc = 0
}

// unsolicited: listener l was invoked, but not by a Publish / DoEvent call of the driver code.
// Returns the publication the invocation belongs to (0: none that we know of).
func (w *world) unsolicited(l *lst, entry []int64) int64 {
	s := w.svcOf(l.c)
	if s == nil {
		return 0
	}
	if r := w.sync(s); r >= 1 {
		// the centre's queue was received from: this is the dispatch of the newest event
		w.closeOpen(s)
		s.skipAcc += r - 1
		w.flushSkip(s)
		var args []int64
		if l.nbound <= len(entry) {
			args = entry[l.nbound:]
		}
		p := w.npub
		w.npub++
		w.emit(hx.C("VDeq", l.c, l.n, args))
		w.emit(hx.C("VBegin", p, l.c, l.n, args))
		s.openPub = p
		return p
	}
	if len(w.stack) == 0 {
		return s.openPub // the next listener of the same dispatch
	}
	return 0
}

// ---------------------------------------------------------------- life cycle

func (w *world) start(c int64) {
	if !isSvc(c) {
		w.emit("VNop")
		return
	}
	s := w.service(c)
	if s.alive || s.stopped {
		w.emit("VNop")
		return
	}
	w.emit(hx.C("VStart", c))
	w.tag("service-start")
	if len(s.svc.GetEventCenter().GetChanEvent()) > 0 {
		w.tag("start-with-backlog")
	}
	w.starting = s
	s.alive = true
	s.svc.Start()
	w.runLoop(s)
}

// stop: StandardRunService.Stop() of service c, called on the goroutine that performs the action
func (w *world) stop(c int64) {
	s := w.svcOf(c)
	if s == nil || !s.alive || s.stopped || s.inStop {
		w.emit("VNop")
		return
	}
	switch g := w.gtok(); {
	case len(w.stack) > 0:
		w.tag("stop-in-listener")
	case g == c:
		w.tag("stop-by-own-task")
	default:
		w.tag("stop-foreign")
	}
	if len(s.svc.GetEventCenter().GetChanEvent()) > 0 {
		w.tag("stop-with-events-pending")
	}
	s.inStop = true
	s.svc.Stop()
	s.inStop = false
	if len(w.stack) == 0 {
		// whatever was received during the call has been dispatched by now
		s.skipAcc += w.sync(s)
		w.closeOpen(s)
		w.flushSkip(s)
	}
	s.stopped = true
	for _, l := range w.order {
		if l.c == c {
			l.alive = false
		}
	}
	w.emit(hx.C("VStop", c))
}

const pollEvery = 20 * time.Microsecond

// runLoop releases the loop of s and returns when it is parked again with an empty queue, or
// has ended.
func (w *world) runLoop(s *service) {
	for {
		if s.ctl != nil {
			close(s.ctl.release)
			s.ctl = nil
		}
		if s.stopped {
			for !s.svc.IsStopped() {
				time.Sleep(pollEvery)
			}
			w.loopEnded(s)
			return
		}
		ct := newController()
		s.svc.GetScheduler().Post(ct.task) // (a listener may stop the service meanwhile: Post recovers)
		entered := false
		for !entered {
			select {
			case id := <-ct.entered:
				entered = true
				if s.gid == "" {
					s.gid = id
				}
				if s.gid != id {
					s.gid = id // cannot happen: one loop goroutine per service
					w.tag("loop-goroutine-changed")
				}
			default:
				if s.svc.IsStopped() {
					w.loopEnded(s)
					return
				}
				time.Sleep(pollEvery)
			}
		}
		s.ctl = ct
		if w.starting == s {
			w.starting = nil
		}
		if s.stopped {
			continue // a listener stopped the service: let the loop go
		}
		if len(s.svc.GetEventCenter().GetChanEvent()) == 0 {
			// idle: account for everything the loop received
			s.skipAcc += w.sync(s)
			w.closeOpen(s)
			w.flushSkip(s)
			return
		}
	}
}

func (w *world) loopEnded(s *service) {
	w.closeOpen(s)
	s.skipAcc = 0
	w.emit(hx.C("VLoopEnd", s.c))
	w.tag("loop-ended")
	s.alive = false
	s.ctl = nil
	if w.starting == s {
		w.starting = nil
	}
	// what is left in the queue is never received by anybody
	drainChan(s)
	s.rcv = s.enq
}

func drainChan(s *service) {
	ch := s.svc.GetEventCenter().GetChanEvent()
	for {
		select {
		case <-ch:
		default:
			return
		}
	}
}

// ---------------------------------------------------------------- end of a case

// loopRunning: some loop goroutine of this case is not blocked (the watchdog must wait)
func (w *world) loopRunning() bool {
	for _, s := range w.svcs {
		if s.svc != nil && s.alive && s.gid != "" && !parked(s.gid) && goroutineExists(s.gid) {
			return true
		}
	}
	return false
}

func goroutineExists(id string) bool {
	buf := make([]byte, 1<<20)
	for {
		n := runtime.Stack(buf, true)
		if n < len(buf) {
			buf = buf[:n]
			break
		}
		buf = make([]byte, 2*len(buf))
	}
	return strings.Contains(string(buf), "goroutine "+id+" [")
}

// shutdown releases what a finished case still holds (w.closing is set: nothing is logged)
func (w *world) shutdown() {
	for _, p := range w.probes {
		w.releaseProbe(p)
	}
	for _, s := range w.svcs {
		if s.svc == nil {
			continue
		}
		if s.alive {
			if !s.stopped {
				func() {
					defer func() { recover() }()
					s.svc.Stop()
				}()
			}
			if s.ctl != nil {
				close(s.ctl.release)
				s.ctl = nil
			}
		} else if !s.stopped {
			runservice.GetScheMgr().DelSche(s.name)
		}
	}
}

// unblock: the case was abandoned by the watchdog (all its goroutines are blocked); make room
// in every queue so that a goroutine stuck in a send gets to its next emit (where it exits),
// then let the loops go
func (w *world) unblock() {
	type held struct {
		svc *runservice.StandardRunService
		ct  *controller
		run bool
	}
	var hs []held
	for _, s := range w.svcs {
		if s.svc != nil {
			hs = append(hs, held{s.svc, s.ctl, s.alive && !s.stopped})
		}
	}
	for c := int64(0); c < nLocal; c++ {
		l := w.lcIf(c)
		if l == nil {
			continue
		}
		ch := l.GetChanEvent()
	drain:
		for {
			select {
			case <-ch:
			default:
				break drain
			}
		}
	}
	for _, p := range w.probes {
		if p.held {
			func() {
				defer func() { recover() }()
				close(p.resume)
			}()
		}
	}
	go func() {
		time.Sleep(50 * time.Millisecond)
		for _, h := range hs {
			if h.run {
				func() {
					defer func() { recover() }()
					h.svc.Stop()
				}()
			}
			if h.ct != nil {
				func() {
					defer func() { recover() }()
					close(h.ct.release)
				}()
			}
		}
	}()
}

func (w *world) tagList() []string {
	w.mu.Lock()
	defer w.mu.Unlock()
	var out []string
	for t := range w.tags {
		out = append(out, t)
	}
	sort.Strings(out)
	return out
}
