package c17

import (
	"fmt"
	"math/rand"
	"reflect"
	"sort"
	"sync"

	"verifh/hx"
)

// ---------------------------------------------------------------- generators

type genCtx struct {
	r       *rand.Rand
	centres []int64 // centres this history concentrates on
	names   int64
	subs    int64 // subscriptions issued so far (top level) - aims unsubscribes
}

func (g *genCtx) centre() int64 {
	if g.r.Intn(25) == 0 {
		return hx.Pick(g.r, []int64{0, 1, 2, 3, 10, 11, 5, -1})
	}
	return hx.Pick(g.r, g.centres)
}
func (g *genCtx) nameTok() int64 { return 1 + g.r.Int63n(g.names) }
func (g *genCtx) args() []int64 {
	n := g.r.Intn(3)
	out := make([]int64, n)
	for i := range out {
		out[i] = g.r.Int63n(10)
	}
	return out
}
func (g *genCtx) how(c int64) int64 {
	if isLight(c) {
		return hx.Pick(g.r, []int64{0, 0, 1, 1, 2, 3})
	}
	return hx.Pick(g.r, []int64{0, 0, 1})
}
func (g *genCtx) tok() int64 {
	hi := g.subs + 3
	return 1 + g.r.Int63n(hi)
}

// action generates one action; inProg = it will run inside a listener
func (g *genCtx) action(inProg bool) hx.T {
	c := g.centre()
	switch p := g.r.Intn(100); {
	case p < 26:
		return hx.C("ASub", c, g.nameTok(), g.how(c), g.r.Int63n(4), g.args(), g.r.Int63n(6))
	case p < 40:
		return hx.C("AUnsub", c, g.nameTok(), g.tok())
	case p < 50:
		if inProg {
			return hx.C("AUnsubSelf")
		}
		return hx.C("AUnsub", c, g.nameTok(), g.tok())
	case p < 56:
		return hx.C("AUnsubCb", c, g.nameTok(), g.how(c), g.r.Int63n(4))
	case p < 59:
		return hx.C("AClear", c)
	case p < 90:
		return hx.C("APub", c, g.nameTok(), g.args())
	default:
		return hx.C("AGPub", g.nameTok(), g.args(), 1)
	}
}

func (g *genCtx) prog() []hx.T {
	n := g.r.Intn(4)
	out := make([]hx.T, n)
	for i := range out {
		out[i] = g.action(true)
	}
	return out
}

func genRandom(r *rand.Rand, maxLen int) []hx.T {
	g := &genCtx{r: r, names: int64(1 + r.Intn(2))}
	switch r.Intn(5) {
	case 0:
		g.centres = []int64{0}
	case 1:
		g.centres = []int64{10}
	case 2:
		g.centres = []int64{1, 2}
	case 3:
		g.centres = []int64{0, 1, 10}
	default:
		g.centres = []int64{0, 1, 2, 3, 10, 11}
	}
	var ops []hx.T
	for pid := int64(1); pid <= 5; pid++ {
		if r.Intn(5) > 0 {
			ops = append(ops, hx.C("ODef", pid, g.prog()))
		}
	}
	n := 3 + r.Intn(maxLen)
	for len(ops) < n+5 {
		switch p := r.Intn(100); {
		case p < 30:
			c := g.centre()
			g.subs++
			ops = append(ops, hx.C("OAct", hx.C("ASub", c, g.nameTok(), g.how(c), r.Int63n(4), g.args(), r.Int63n(6))))
		case p < 55:
			ops = append(ops, hx.C("OAct", hx.C("APub", g.centre(), g.nameTok(), g.args())))
		case p < 67:
			ops = append(ops, hx.C("ODrain", g.centre(), 1+r.Int63n(4)))
		case p < 75:
			ops = append(ops, hx.C("OAct", hx.C("AGPub", g.nameTok(), g.args(), 1+r.Int63n(2))))
		case p < 77:
			ops = append(ops, hx.C("OSetChan", g.centre(), r.Intn(2) == 0))
		case p < 78:
			ops = append(ops, hx.C("ODiscard", g.centre(), 1+r.Int63n(3)))
		case p < 80:
			ops = append(ops, hx.C("ODef", 1+r.Int63n(5), g.prog()))
		default:
			ops = append(ops, hx.C("OAct", g.action(false)))
		}
	}
	return ops
}

// boundary injector: the 999-slot event channel at 998 / 999 / 1000 / overfull
func genBoundary(r *rand.Rand, variant int) []hx.T {
	fill := []int64{997, 998, 999, 1000, 1200}[variant%5]
	c := int64(1 + variant%2)
	ops := []hx.T{
		hx.C("ODef", 1, []hx.T{hx.C("APub", c, 1, []int64{7})}),
		hx.C("OAct", hx.C("ASub", c, 1, 1, 0, []int64{4}, int64(variant%2))),
		hx.C("OAct", hx.C("ASub", 3-c, 1, 1, 0, []int64{5}, 0)),
		hx.C("OAct", hx.C("AGPub", 1, []int64{1}, fill)),
		hx.C("OAct", hx.C("AGPub", 1, []int64{2}, 1)),
		hx.C("OAct", hx.C("AGPub", 1, []int64{3}, 1)),
		hx.C("ODrain", c, 2),
		hx.C("OAct", hx.C("AGPub", 1, []int64{4}, 3)),
		hx.C("OAct", hx.C("AUnsub", 3-c, 1, 2)),
		hx.C("OAct", hx.C("AGPub", 1, []int64{5}, 1)),
		hx.C("ODrain", 3-c, 1),
	}
	if variant >= 5 {
		// a channel-mode Publish by the owner on a (nearly) full queue: blocks for ever
		ops = append(ops, hx.C("OAct", hx.C("APub", c, 1, []int64{6})), hx.C("OAct", hx.C("APub", c, 1, []int64{6})),
			hx.C("ODrain", c, 1))
	}
	return ops
}

// Global fan-out under full queues: 2-4 local centres GSubscribe the same 1-3 shared names;
// some of them are filled to 997..1000 pending events through a private name (one compact
// AGPub), shared names are published before / at / after the fill level, full centres are
// partially drained in between, and at the end every queue is read back completely (ODrain
// for the short ones, one ODiscard for the long ones).  A centre whose own queue has room
// must receive every publication exactly once whatever the other queues hold; Go's Range order
// over the subscribed centres differs per name and per call, hence several names and rounds.
func genFill(r *rand.Rand) []hx.T {
	all := []int64{0, 1, 2, 3}
	r.Shuffle(len(all), func(i, j int) { all[i], all[j] = all[j], all[i] })
	cs := all[:2+r.Intn(3)]
	ns := int64(1 + r.Intn(3))
	var ops []hx.T
	if r.Intn(3) == 0 {
		// a listener that publishes globally again when it is invoked
		ops = append(ops, hx.C("ODef", 1, []hx.T{hx.C("AGPub", 1+r.Int63n(ns), []int64{77}, 1)}))
	}
	for _, c := range cs {
		for n := int64(1); n <= ns; n++ {
			pid := int64(0)
			if r.Intn(6) == 0 {
				pid = 1
			}
			ops = append(ops, hx.C("OAct", hx.C("ASub", c, n, 1, 0, []int64{c*10 + n}, pid)))
		}
		ops = append(ops, hx.C("OAct", hx.C("ASub", c, 20+c, 1, 0, []int64{}, 0)))
	}
	round := func(tag int64) (total int64) {
		for n := int64(1); n <= ns; n++ {
			k := int64(1)
			if r.Intn(5) == 0 {
				k = 2 + r.Int63n(2)
			}
			total += k
			ops = append(ops, hx.C("OAct", hx.C("AGPub", n, []int64{tag, n}, k)))
		}
		return
	}
	queued := round(0) // before anybody is full: every centre now holds this many events
	nf := 1 + r.Intn(len(cs))
	if nf == len(cs) && r.Intn(3) > 0 {
		nf--
	}
	if nf == 0 {
		nf = 1
	}
	full := cs[:nf]
	for _, c := range full {
		level := hx.Pick(r, []int64{996, 997, 998, 998, 999, 999, 999, 1000})
		ops = append(ops, hx.C("OAct", hx.C("AGPub", 20+c, []int64{c}, level-queued)))
		if r.Intn(2) == 0 {
			ops = append(ops, hx.C("OAct", hx.C("AGPub", 20+c, []int64{c, 1}, 1+r.Int63n(3))))
		}
	}
	rounds := 2 + r.Intn(4)
	for i := 0; i < rounds; i++ {
		round(int64(i + 1))
		if r.Intn(2) == 0 {
			// the owner of a full centre handles a few events: it has room again
			ops = append(ops, hx.C("ODrain", hx.Pick(r, full), 1+r.Int63n(3)))
		}
		if r.Intn(6) == 0 {
			c := hx.Pick(r, cs)
			ops = append(ops, hx.C("OAct", hx.C("AUnsub", c, 1+r.Int63n(ns), 1+r.Int63n(int64(len(cs))*(ns+1)))))
		}
	}
	isFull := map[int64]bool{}
	for _, c := range full {
		isFull[c] = true
	}
	for _, c := range cs {
		if isFull[c] || r.Intn(3) == 0 {
			ops = append(ops, hx.C("ODiscard", c, 1200))
		} else {
			ops = append(ops, hx.C("ODrain", c, 50), hx.C("ODiscard", c, 1200))
		}
	}
	round(9) // everybody has room again
	for _, c := range cs {
		ops = append(ops, hx.C("ODiscard", c, 1200))
	}
	return ops
}

// exhaustive small scope over one centre: every op sequence of length L over the alphabet,
// followed by a publication.  Programs: 1 unsubscribe self, 2 clear, 3 subscribe another
// listener, 4 unsubscribe listener 1, 5 publish again (nested), 6 unsubscribe listener 2.
func enumerate(c int64, L int, emit func([]hx.T)) {
	how := int64(0)
	if isLight(c) {
		how = 1
	}
	defs := []hx.T{
		hx.C("ODef", 1, []hx.T{hx.C("AUnsubSelf")}),
		hx.C("ODef", 2, []hx.T{hx.C("AClear", c)}),
		hx.C("ODef", 3, []hx.T{hx.C("ASub", c, 1, how, 3, []int64{8}, 0)}),
		hx.C("ODef", 4, []hx.T{hx.C("AUnsub", c, 1, 1)}),
		hx.C("ODef", 5, []hx.T{hx.C("APub", c, 1, []int64{9})}),
		hx.C("ODef", 6, []hx.T{hx.C("AUnsub", c, 1, 2)}),
	}
	var alpha []hx.T
	for pid := int64(0); pid <= 6; pid++ {
		alpha = append(alpha, hx.C("OAct", hx.C("ASub", c, 1, how, pid, []int64{pid}, pid)))
	}
	alpha = append(alpha,
		hx.C("OAct", hx.C("AUnsub", c, 1, 1)),
		hx.C("OAct", hx.C("AClear", c)),
		hx.C("OAct", hx.C("APub", c, 1, []int64{1})),
		hx.C("OAct", hx.C("APub", c, 2, []int64{2})))
	cur := make([]hx.T, L)
	var rec func(d int)
	rec = func(d int) {
		if d == L {
			ops := append(append([]hx.T{}, defs...), cur...)
			ops = append(ops, hx.C("OAct", hx.C("APub", c, 1, []int64{3})))
			emit(ops)
			return
		}
		for _, a := range alpha {
			cur[d] = a
			rec(d + 1)
		}
	}
	rec(0)
}

// ---------------------------------------------------------------- run services

// exhaustive small scope over the life cycle of one run service (centre 4): every sequence of
// length L over the alphabet below, after a prefix (a global subscription; started or not) and
// followed by: a global publication, the loop runs, another publication, a subscription, a send.
// Listener programs: 1 stops the service from inside the listener, 2 publishes again to the
// service's own centre.
func enumerateSvc(started bool, L int, emit func([]hx.T)) {
	const c = int64(4)
	pre := []hx.T{
		hx.C("ODef", 1, []hx.T{hx.C("AStop", c)}),
		hx.C("ODef", 2, []hx.T{hx.C("APub", c, 1, []int64{9})}),
		hx.C("OAct", hx.C("ASub", c, 1, 1, 0, []int64{1}, 0)),
	}
	if started {
		pre = append(pre, hx.C("OStart", c))
	}
	alpha := []hx.T{
		hx.C("OStart", c),
		hx.C("ORun", c),
		hx.C("OAct", hx.C("AGPub", 1, []int64{2}, 1)),
		hx.C("OAct", hx.C("AStop", c)),                           // Stop() from a foreign goroutine
		hx.C("OOwn", c, hx.C("AStop", c)),                        // Stop() from the loop (busy task)
		hx.C("OOwn", c, hx.C("ASub", c, 1, 1, 1, []int64{5}, 1)), // the loop subscribes a listener that stops the service
		hx.C("OAct", hx.C("ASub", c, 1, 0, 2, []int64{6}, 2)),    // the driver subscribes (applies while there is no loop) a re-publisher
		hx.C("OOwn", c, hx.C("APub", c, 1, []int64{7})),          // the loop sends to its own queue
		hx.C("OAct", hx.C("APub", c, 2, []int64{3})),             // foreign send, nobody listens
		hx.C("OOwn", c, hx.C("AClear", c)),
		hx.C("OOwn", c, hx.C("AUnsub", c, 1, 1)),
	}
	post := []hx.T{
		hx.C("OAct", hx.C("AGPub", 1, []int64{3}, 1)),
		hx.C("ORun", c),
		hx.C("OAct", hx.C("AGPub", 1, []int64{4}, 1)),
		hx.C("OAct", hx.C("ASub", c, 1, 1, 3, []int64{8}, 0)),
		hx.C("OAct", hx.C("APub", c, 1, []int64{5})),
	}
	cur := make([]hx.T, L)
	var rec func(d int)
	rec = func(d int) {
		if d == L {
			ops := append(append(append([]hx.T{}, pre...), cur...), post...)
			emit(ops)
			return
		}
		for _, a := range alpha {
			cur[d] = a
			rec(d + 1)
		}
	}
	rec(0)
}

// teardown: the life of a run service with events in flight.  1-3 listeners on a run service
// (subscribed before or after Start, by the driver while there is no loop or by the loop
// itself), normal deliveries, then publications that stay queued because the loop is busy,
// Stop() from the driver / from the busy task / from a listener / from the other service's
// loop, more publications before and after the loop has ended, late subscriptions, a second
// Start.
func genTeardown(r *rand.Rand) []hx.T {
	c := int64(4 + r.Intn(2))
	other := 9 - c
	names := int64(1 + r.Intn(2))
	var ops []hx.T
	progs := [][]hx.T{
		{hx.C("AStop", c)},
		{hx.C("APub", c, 1, []int64{9})},
		{hx.C("AGPub", 1, []int64{8}, 1)},
		{hx.C("AUnsubSelf")},
		{hx.C("ASub", c, 1, 1, 2, []int64{7}, 0)},
		{hx.C("AStop", other)},
	}
	for pid := int64(1); pid <= 3; pid++ {
		ops = append(ops, hx.C("ODef", pid, hx.Pick(r, progs)))
	}
	startFirst := r.Intn(2) == 0
	act := func(a hx.T) hx.T { return hx.C("OAct", a) }
	if startFirst {
		// while the loop exists only the loop goroutine subscribes
		ops = append(ops, hx.C("OStart", c))
		act = func(a hx.T) hx.T { return hx.C("OOwn", c, a) }
	}
	nl := 1 + r.Intn(3)
	for i := 0; i < nl; i++ {
		how := int64(1)
		if r.Intn(4) == 0 {
			how = 0
		}
		pid := int64(0)
		if r.Intn(3) == 0 {
			pid = 1 + r.Int63n(3)
		}
		ops = append(ops, act(hx.C("ASub", c, 1+r.Int63n(names), how, r.Int63n(4), []int64{int64(i + 1)}, pid)))
	}
	if r.Intn(3) == 0 {
		// another centre subscribed to the same names: it must be served whatever this service does
		oc := hx.Pick(r, []int64{1, 2, other})
		ops = append(ops, hx.C("OAct", hx.C("ASub", oc, 1, 1, 0, []int64{50}, 0)))
	}
	pub := func(tag int64) hx.T {
		switch r.Intn(6) {
		case 0:
			return hx.C("OAct", hx.C("APub", c, 1+r.Int63n(names), []int64{tag})) // foreign send
		case 1:
			return hx.C("OOwn", c, hx.C("APub", c, 1+r.Int63n(names), []int64{tag})) // the loop's own send
		case 2:
			return hx.C("OAct", hx.C("AGPub", 1+r.Int63n(names+1), []int64{tag}, 1)) // maybe nobody listens
		default:
			return hx.C("OAct", hx.C("AGPub", 1+r.Int63n(names), []int64{tag}, 1+r.Int63n(2)))
		}
	}
	if !startFirst {
		for i := r.Intn(3); i > 0; i-- {
			ops = append(ops, pub(10)) // backlog before Start
		}
		ops = append(ops, hx.C("OStart", c))
	}
	for i := r.Intn(3); i > 0; i-- {
		ops = append(ops, pub(20))
	}
	if r.Intn(4) > 0 {
		ops = append(ops, hx.C("ORun", c))
	}
	for i := r.Intn(4); i > 0; i-- {
		ops = append(ops, pub(30)) // pending at Stop
	}
	switch r.Intn(5) {
	case 0, 1:
		ops = append(ops, hx.C("OAct", hx.C("AStop", c)))
	case 2:
		ops = append(ops, hx.C("OOwn", c, hx.C("AStop", c)))
	case 3:
		// a listener stops the service when the loop gets to it
		pid := 1 + r.Int63n(3)
		ops = append(ops, hx.C("ODef", pid, []hx.T{hx.C("AStop", c)}),
			hx.C("OOwn", c, hx.C("ASub", c, 1, 1, 3, []int64{60}, pid)))
	default:
		if r.Intn(2) == 0 {
			// stopped by the loop of the other service
			ops = append(ops, hx.C("OStart", other), hx.C("OOwn", other, hx.C("AStop", c)))
		}
	}
	for i := r.Intn(3); i > 0; i-- {
		ops = append(ops, pub(40)) // after Stop(), loop still busy
	}
	if r.Intn(3) == 0 {
		ops = append(ops, hx.C("OOwn", c, hx.C("ASub", c, 1, 1, 0, []int64{70}, 0)))
	}
	ops = append(ops, hx.C("ORun", c))
	for i := 1 + r.Intn(3); i > 0; i-- {
		ops = append(ops, pub(50)) // loop gone (if it was stopped)
	}
	tail := []hx.T{
		hx.C("OAct", hx.C("ASub", c, 1, 1, 1, []int64{80}, 0)),
		hx.C("OStart", c),
		hx.C("ORun", c),
		hx.C("OAct", hx.C("AStop", c)),
		hx.C("OOwn", c, hx.C("APub", c, 1, []int64{90})),
		hx.C("OAct", hx.C("AClear", c)),
	}
	r.Shuffle(len(tail), func(i, j int) { tail[i], tail[j] = tail[j], tail[i] })
	ops = append(ops, tail[:r.Intn(len(tail)+1)]...)
	if r.Intn(2) == 0 {
		ops = append(ops, hx.C("ODrain", hx.Pick(r, []int64{1, 2, c}), 3))
	}
	return ops
}

// random histories over two run services, a driver-owned channel centre, a direct centre and a
// light centre: any action from the driver or from a loop goroutine, listener programs that
// stop services, life-cycle operations anywhere.
func genSvcRandom(r *rand.Rand, maxLen int) []hx.T {
	g := &genCtx{r: r, names: int64(1 + r.Intn(2))}
	two := false
	switch r.Intn(4) {
	case 0:
		g.centres = []int64{4}
	case 1:
		g.centres, two = []int64{4, 5}, true
	case 2:
		g.centres = []int64{4, 1}
	default:
		g.centres, two = []int64{4, 5, 1, 0, 10}, true
	}
	svc := func() int64 {
		if r.Intn(20) == 0 {
			return hx.Pick(r, []int64{0, 3, 6, 10})
		}
		if two && r.Intn(3) == 0 {
			return 5
		}
		return 4
	}
	prog := func() []hx.T {
		n := r.Intn(4)
		out := make([]hx.T, n)
		for i := range out {
			if r.Intn(8) == 0 {
				out[i] = hx.C("AStop", svc())
			} else {
				out[i] = g.action(true)
			}
		}
		return out
	}
	var ops []hx.T
	for pid := int64(1); pid <= 5; pid++ {
		if r.Intn(5) > 0 {
			ops = append(ops, hx.C("ODef", pid, prog()))
		}
	}
	n := 4 + r.Intn(maxLen)
	for len(ops) < n+5 {
		switch p := r.Intn(100); {
		case p < 8:
			ops = append(ops, hx.C("OStart", svc()))
		case p < 22:
			ops = append(ops, hx.C("ORun", svc()))
		case p < 27:
			if r.Intn(2) == 0 {
				ops = append(ops, hx.C("OAct", hx.C("AStop", svc())))
			} else {
				ops = append(ops, hx.C("OOwn", svc(), hx.C("AStop", svc())))
			}
		case p < 45:
			c := g.centre()
			g.subs++
			a := hx.C("ASub", c, g.nameTok(), g.how(c), r.Int63n(4), g.args(), r.Int63n(6))
			if isSvc(c) && r.Intn(3) > 0 {
				ops = append(ops, hx.C("OOwn", c, a))
			} else {
				ops = append(ops, hx.C("OAct", a))
			}
		case p < 60:
			ops = append(ops, hx.C("OAct", hx.C("AGPub", g.nameTok(), g.args(), 1+r.Int63n(2))))
		case p < 70:
			ops = append(ops, hx.C("OAct", hx.C("APub", g.centre(), g.nameTok(), g.args())))
		case p < 85:
			ops = append(ops, hx.C("OOwn", svc(), g.action(false)))
		case p < 90:
			ops = append(ops, hx.C("ODrain", g.centre(), 1+r.Int63n(3)))
		case p < 92:
			ops = append(ops, hx.C("ODef", 1+r.Int63n(5), prog()))
		default:
			ops = append(ops, hx.C("OAct", g.action(false)))
		}
	}
	return ops
}

// ---------------------------------------------------------------- probes

// exhaustive small scope over the registration of two probe centres and one ordinary centre
// for one name, with the calls of probe 6 optionally held inside the global centre: every
// sequence of length L over the alphabet, followed by: the held call returns, a publication,
// 6 unsubscribes, a publication.
func enumerateProbe(L int, emit func([]hx.T)) {
	alpha := []hx.T{
		hx.C("OReg", 6, 1, true), hx.C("OReg", 6, 1, false),
		hx.C("OReg", 7, 1, true), hx.C("OReg", 7, 1, false),
		hx.C("OPark", 6, 1, true), hx.C("OPark", 6, 1, false),
		hx.C("ORelease", 6),
		hx.C("OAct", hx.C("AGPub", 1, []int64{2}, 1)),
		hx.C("OAct", hx.C("ASub", 1, 1, 1, 0, []int64{1}, 0)),
		hx.C("OAct", hx.C("AUnsub", 1, 1, 1)),
		hx.C("OAct", hx.C("AClear", 1)),
	}
	post := []hx.T{
		hx.C("ORelease", 6),
		hx.C("OAct", hx.C("AGPub", 1, []int64{3}, 1)),
		hx.C("OReg", 6, 1, false),
		hx.C("OAct", hx.C("AGPub", 1, []int64{4}, 1)),
	}
	cur := make([]hx.T, L)
	var rec func(d int)
	rec = func(d int) {
		if d == L {
			emit(append(append([]hx.T{}, cur...), post...))
			return
		}
		for _, a := range alpha {
			cur[d] = a
			rec(d + 1)
		}
	}
	rec(0)
}

// random: two probes, two names, two ordinary channel centres and a run service registering and
// leaving, calls of either probe held across any of it, publications (also up to the queue cap)
func genProbeRandom(r *rand.Rand) []hx.T {
	var ops []hx.T
	names := int64(1 + r.Intn(2))
	pc := func() int64 {
		if r.Intn(15) == 0 {
			return hx.Pick(r, []int64{1, 5, 8})
		}
		return 6 + r.Int63n(2)
	}
	subs := int64(0)
	n := 5 + r.Intn(16)
	for len(ops) < n {
		nm := 1 + r.Int63n(names)
		switch p := r.Intn(100); {
		case p < 18:
			ops = append(ops, hx.C("OReg", pc(), nm, r.Intn(3) > 0))
		case p < 34:
			ops = append(ops, hx.C("OPark", pc(), nm, r.Intn(3) > 0))
		case p < 50:
			ops = append(ops, hx.C("ORelease", pc()))
		case p < 70:
			k := int64(1 + r.Intn(2))
			if r.Intn(12) == 0 {
				k = 997 + r.Int63n(4)
			}
			ops = append(ops, hx.C("OAct", hx.C("AGPub", nm, []int64{int64(len(ops))}, k)))
		case p < 82:
			subs++
			ops = append(ops, hx.C("OAct", hx.C("ASub", hx.Pick(r, []int64{1, 2, 4}), nm, 1, 0, []int64{subs}, 0)))
		case p < 92:
			ops = append(ops, hx.C("OAct", hx.C("AUnsub", hx.Pick(r, []int64{1, 2, 4}), nm, 1+r.Int63n(subs+1))))
		case p < 96:
			ops = append(ops, hx.C("OAct", hx.C("AClear", hx.Pick(r, []int64{1, 2}))))
		default:
			ops = append(ops, hx.C("ODiscard", hx.Pick(r, []int64{1, 2}), 1200))
		}
	}
	ops = append(ops, hx.C("ORelease", 6), hx.C("ORelease", 7))
	for nm := int64(1); nm <= names; nm++ {
		ops = append(ops, hx.C("OAct", hx.C("AGPub", nm, []int64{99}, 1)))
	}
	return ops
}

// ---------------------------------------------------------------- tags / non-triviality

func tagsOf(trace []any) (tags []string, nontrivial bool) {
	set := map[string]bool{}
	depth := 0
	for _, e := range trace {
		name := ""
		var t hx.T
		switch v := e.(type) {
		case string:
			name = v
		case hx.T:
			name, t = v.Name, v
		}
		in := depth > 0
		switch name {
		case "VInv":
			nontrivial = true
			switch g := t.Int(3); {
			case g >= 4:
				set["invoked-on-loop-goroutine"] = true
			case g != 0:
				set["invoked-on-unknown-goroutine"] = true
			}
			depth++
			if depth >= 2 {
				set["nested-invocation"] = true
			}
			if len(t.Args[2].([]any)) > 0 {
				set["args"] = true
			}
		case "VRet":
			depth--
			if !t.Bool(1) {
				set["args-changed"] = true
			}
		case "VSub":
			if in {
				set["sub-in-listener"] = true
			}
			if t.Bool(3) {
				set["gsub"] = true
			}
			if isLight(t.Int(1)) {
				set["light"] = true
			}
		case "VSubFail":
			set["sub-refused"] = true
		case "VUnsub":
			if in {
				set["unsub-in-listener"] = true
			}
		case "VUnsubCb":
			set["unsub-by-callback"] = true
		case "VAmbig":
			set["ambiguous-callback"] = true
		case "VClear":
			if in {
				set["clear-in-listener"] = true
			} else {
				set["clear"] = true
			}
		case "VBegin":
			if in {
				set["publish-in-listener"] = true
			}
		case "VEnq":
			set["chan-publish"] = true
		case "VGPub":
			set["global-publish"] = true
			nfull, nroom := 0, 0
			for _, q := range t.Args[3].([]any) {
				if q.(int64) >= 999 {
					set["queue-full"] = true
					nfull++
				} else if q.(int64) > 0 {
					nroom++
				}
			}
			if nfull > 0 && nroom > 0 {
				set["full-and-served-centres"] = true
			}
		case "VDrop":
			set["bulk-receive"] = true
			if len(t.Args[1].([]any)) > 0 {
				nontrivial = true
			}
		case "VDeadlock":
			set["blocked"] = true
		case "VProbe":
			set["probe-queues-observed"] = true
			for _, q := range t.Args[3].([]any) {
				if q.(int64) > 0 {
					nontrivial = true
				}
			}
		case "VDone":
			set["held-call-returned"] = true
		case "VStop":
			nontrivial = true
			set["service-stop"] = true
		case "VSkip":
			nontrivial = true
		case "VDeq":
			set["drain"] = true
			if isSvc(t.Int(0)) {
				set["loop-delivery"] = true
			}
		}
	}
	for t := range set {
		tags = append(tags, t)
	}
	sort.Strings(tags)
	return
}

// ---------------------------------------------------------------- entry point

type job struct {
	kind string
	ops  []hx.T
}

func checkCodePointers() error {
	w := newWorld(-1)
	seen := map[uintptr]bool{}
	for k := int64(0); k < 4; k++ {
		seen[reflect.ValueOf(w.mkCB(k, nil)).Pointer()] = true
	}
	if len(seen) != 4 || reflect.ValueOf(w.mkCB(1, nil)).Pointer() != reflect.ValueOf(w.mkCB(5, nil)).Pointer() {
		return fmt.Errorf("c17: the four scripted callbacks do not have four distinct code pointers")
	}
	return nil
}

func Run(cfg *hx.Config) error {
	silence()
	if err := checkCodePointers(); err != nil {
		return err
	}
	var jobs []job
	if cfg.In != "" {
		cs, err := hx.ReadCases(cfg.In)
		if err != nil {
			return err
		}
		for _, c := range cs {
			jobs = append(jobs, job{"replay", hx.Terms(c.Ops)})
		}
	} else {
		depth := 2
		if cfg.Tier == "thorough" {
			depth = 3
		}
		for _, c := range []int64{0, 10} {
			for L := 0; L <= depth; L++ {
				k := fmt.Sprintf("exhaustive-%d", L)
				enumerate(c, L, func(ops []hx.T) { jobs = append(jobs, job{k, ops}) })
			}
		}
		for _, started := range []bool{false, true} {
			for L := 0; L <= depth; L++ {
				k := fmt.Sprintf("service-exhaustive-%d", L)
				enumerateSvc(started, L, func(ops []hx.T) { jobs = append(jobs, job{k, ops}) })
			}
		}
		for L := 0; L <= depth+1; L++ {
			k := fmt.Sprintf("probe-exhaustive-%d", L)
			enumerateProbe(L, func(ops []hx.T) { jobs = append(jobs, job{k, ops}) })
		}
		nb := 7
		if cfg.Tier == "thorough" {
			nb = 10
		}
		for v := 0; v < nb; v++ {
			jobs = append(jobs, job{"boundary", genBoundary(cfg.Rng, v)})
		}
		nfill := 60
		if cfg.Tier == "thorough" {
			nfill = 600
		}
		for v := 0; v < nfill; v++ {
			jobs = append(jobs, job{"global-fill", genFill(cfg.Rng)})
		}
		for v := 0; v < 2*nfill; v++ {
			jobs = append(jobs, job{"teardown", genTeardown(cfg.Rng)})
		}
		for v := 0; v < 2*nfill; v++ {
			jobs = append(jobs, job{"probe-random", genProbeRandom(cfg.Rng)})
		}
		for i := 0; i < cfg.N; i++ {
			maxLen := 10
			if i%4 == 3 {
				maxLen = 40
			}
			if i%3 == 2 {
				jobs = append(jobs, job{"service-random", genSvcRandom(cfg.Rng, maxLen)})
			} else {
				jobs = append(jobs, job{"random", genRandom(cfg.Rng, maxLen)})
			}
		}
	}
	// the histories are fixed now; execute them on a small pool (cases are independent: fresh
	// centres, names unique per case) so that watchdog waits overlap
	results := make([][]any, len(jobs))
	extra := make([][]string, len(jobs))
	var wg sync.WaitGroup
	next := make(chan int)
	for k := 0; k < 8; k++ {
		wg.Add(1)
		go func() {
			defer wg.Done()
			for i := range next {
				results[i], extra[i] = Exec(i, jobs[i].ops)
			}
		}()
	}
	for i := range jobs {
		next <- i
	}
	close(next)
	wg.Wait()
	for i, j := range jobs {
		tags, nt := tagsOf(results[i])
		tags = append(tags, extra[i]...)
		sort.Strings(tags)
		cfg.Emit(hx.Case{Kind: j.kind, Ops: j.ops, Obs: results[i], Nontrivial: nt, Tags: tags})
	}
	return nil
}
