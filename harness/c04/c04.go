package c04

import (
	"context"
	"encoding/json"
	"fmt"
	"math/rand"
	"os"
	"os/exec"
	"path/filepath"
	"sort"
	"time"

	"verifh/hx"
)

// ---- script generator ----

type gshadow struct { // only used to aim operations; the harness never trusts it
	nchan  int
	closed map[int64]bool
	qlen   map[int64]int
	cap    map[int64]int
	regd   map[int64]bool
	adds   int
	nextV  int64
}

func genScript(r *rand.Rand, maxLen int) ([]hx.T, []string) {
	g := &gshadow{closed: map[int64]bool{}, qlen: map[int64]int{}, cap: map[int64]int{}, regd: map[int64]bool{}, nextV: 100}
	tags := map[string]bool{}
	var ops []hx.T
	newChan := func() {
		g.nchan++
		c := int64(g.nchan)
		if r.Intn(4) == 0 {
			g.cap[c] = 999
			tags["sche"] = true
			ops = append(ops, hx.C("ONewSche"))
		} else {
			n := []int{1, 1, 2, 3, 8}[r.Intn(5)]
			g.cap[c] = n
			ops = append(ops, hx.C("ONewChan", n))
		}
	}
	add := func(c int64) {
		if g.regd[c] {
			tags["double-registration"] = true
		}
		g.regd[c] = true
		g.adds++
		ops = append(ops, hx.C("OAdd", c))
	}
	anyChan := func() int64 {
		if g.nchan == 0 {
			return 1
		}
		return 1 + r.Int63n(int64(g.nchan))
	}
	for i, n := 0, 1+r.Intn(3); i < n; i++ {
		newChan()
		if r.Intn(5) > 0 {
			add(int64(g.nchan))
		}
	}
	n := 4 + r.Intn(maxLen)
	for len(ops) < n {
		switch p := r.Intn(100); {
		case p < 34:
			c := anyChan()
			if g.closed[c] {
				tags["send-on-closed"] = true
			} else if g.qlen[c] >= g.cap[c] {
				tags["send-on-full"] = true
			} else {
				g.qlen[c]++
			}
			g.nextV++
			ops = append(ops, hx.C("OSend", c, g.nextV))
		case p < 70:
			ops = append(ops, hx.C("OHandle", -1))
			if g.adds > 0 {
				tags["add-while-running"] = true
			}
		case p < 79:
			add(anyChan())
		case p < 85:
			newChan()
		case p < 93:
			c := anyChan()
			if g.closed[c] {
				tags["double-close"] = true
			} else if g.qlen[c] > 0 {
				tags["close-with-pending"] = true
			}
			if g.regd[c] {
				tags["close-registered"] = true
			}
			g.closed[c] = true
			ops = append(ops, hx.C("OClose", c))
		case p < 96:
			// a burst of registrations: fills the wake-up channel (capacity 10)
			k := 9 + r.Intn(5)
			for j := 0; j < k; j++ {
				add(anyChan())
			}
			tags["add-burst"] = true
		default:
			tags["bad-id"] = true
			switch r.Intn(4) {
			case 0:
				ops = append(ops, hx.C("OAdd", []int64{0, -1, int64(g.nchan) + 1}[r.Intn(3)]))
			case 1:
				ops = append(ops, hx.C("OSend", []int64{0, -3, int64(g.nchan) + 2}[r.Intn(3)], 1))
			case 2:
				ops = append(ops, hx.C("OClose", []int64{0, int64(g.nchan) + 1}[r.Intn(2)]))
			default:
				ops = append(ops, hx.C("ONewChan", []int64{0, -1, 1000}[r.Intn(3)]))
			}
		}
	}
	// let the consumer run until nothing is left
	for i := 0; i < 14+g.adds+int(g.nextV-100); i++ {
		ops = append(ops, hx.C("OHandle", -1))
		if i > 6 && r.Intn(3) == 0 {
			break
		}
	}
	var tl []string
	for t := range tags {
		tl = append(tl, t)
	}
	sort.Strings(tl)
	return ops, tl
}

// hand-written boundary histories
func boundary() [][]hx.T {
	h := func(k int64) hx.T { return hx.C("OHandle", k) }
	rep := func(o hx.T, n int) []hx.T {
		var l []hx.T
		for i := 0; i < n; i++ {
			l = append(l, o)
		}
		return l
	}
	cat := func(ls ...[]hx.T) []hx.T {
		var l []hx.T
		for _, x := range ls {
			l = append(l, x...)
		}
		return l
	}
	return [][]hx.T{
		{h(-1)},
		rep(h(-1), 3),
		// full user channel, then drain
		cat([]hx.T{hx.C("ONewChan", 1), hx.C("OAdd", 1), hx.C("OSend", 1, 5), hx.C("OSend", 1, 6)}, rep(h(-1), 4)),
		// values buffered in a closed channel are delivered before the dead notification
		cat([]hx.T{hx.C("ONewChan", 3), hx.C("OAdd", 1), hx.C("OSend", 1, 5), hx.C("OSend", 1, 6), hx.C("OClose", 1)}, rep(h(-1), 6)),
		// a dead selector is dropped; the one registered after it keeps its own handler
		cat([]hx.T{hx.C("ONewChan", 2), hx.C("ONewChan", 2), hx.C("ONewChan", 2), hx.C("OAdd", 1), hx.C("OAdd", 2), hx.C("OAdd", 3)},
			rep(h(-1), 4), []hx.T{hx.C("OClose", 1)}, rep(h(-1), 2),
			[]hx.T{hx.C("OSend", 2, 7), hx.C("OSend", 3, 8)}, rep(h(-1), 3),
			[]hx.T{hx.C("OClose", 2), hx.C("OSend", 3, 9)}, rep(h(-1), 4)),
		// the same channel registered twice; then closed: both selectors get their notification
		cat([]hx.T{hx.C("ONewChan", 4), hx.C("OAdd", 1), hx.C("OAdd", 1), hx.C("OSend", 1, 1), hx.C("OSend", 1, 2), hx.C("OSend", 1, 3)},
			rep(h(-1), 6), []hx.T{hx.C("OClose", 1)}, rep(h(-1), 4)),
		// a scheduler: Post, Stop with a pending task, Post after Stop
		cat([]hx.T{hx.C("ONewSche"), hx.C("OAdd", 1), hx.C("OSend", 1, 11), hx.C("OSend", 1, 12)}, rep(h(-1), 3),
			[]hx.T{hx.C("OSend", 1, 13), hx.C("OClose", 1), hx.C("OSend", 1, 14), hx.C("OClose", 1)}, rep(h(-1), 4)),
		// registration after the channel was closed
		cat([]hx.T{hx.C("ONewChan", 2), hx.C("OSend", 1, 4), hx.C("OClose", 1), hx.C("OAdd", 1)}, rep(h(-1), 5)),
		// unregistered channel: its values stay queued
		cat([]hx.T{hx.C("ONewChan", 2), hx.C("OSend", 1, 4)}, rep(h(-1), 2), []hx.T{hx.C("OAdd", 1)}, rep(h(-1), 3)),
		// the wake-up channel at its capacity: 9, 10 and 11 registrations without the consumer running
		cat([]hx.T{hx.C("ONewChan", 2)}, rep(hx.C("OAdd", 1), 9), []hx.T{hx.C("OSend", 1, 1)}, rep(h(-1), 14)),
		cat([]hx.T{hx.C("ONewChan", 2)}, rep(hx.C("OAdd", 1), 10), []hx.T{hx.C("OSend", 1, 1)}, rep(h(-1), 14)),
		cat([]hx.T{hx.C("ONewChan", 2)}, rep(hx.C("OAdd", 1), 11), []hx.T{hx.C("OSend", 1, 1)}, rep(h(-1), 14)),
		// the selector layout of a service (disp, scheduler, close, timer, event), one item each
		cat([]hx.T{hx.C("ONewChan", 9), hx.C("OAdd", 1), hx.C("ONewSche"), hx.C("OAdd", 2), hx.C("ONewChan", 1), hx.C("OAdd", 3),
			hx.C("ONewChan", 999), hx.C("OAdd", 4), hx.C("ONewChan", 999), hx.C("OAdd", 5)}, rep(h(-1), 7),
			[]hx.T{hx.C("OSend", 1, 0), hx.C("OSend", 2, 5), hx.C("OSend", 4, 4), hx.C("OSend", 5, 6)}, rep(h(-1), 5),
			[]hx.T{hx.C("OClose", 3)}, rep(h(-1), 2)),
	}
}

// exhaustive small scope: every sequence of length L over a 6-op alphabet on two channels
func enumerate(L int, emit func([]hx.T)) {
	alpha := []hx.T{
		hx.C("OAdd", 1), hx.C("OAdd", 2), hx.C("OSend", 1, 7), hx.C("OSend", 2, 8), hx.C("OClose", 1), hx.C("OHandle", -1),
	}
	cur := make([]hx.T, L)
	var rec func(d int)
	rec = func(d int) {
		if d == L {
			ops := append([]hx.T{hx.C("ONewChan", 1), hx.C("ONewChan", 2)}, cur...)
			for i := 0; i < 3; i++ {
				ops = append(ops, hx.C("OHandle", -1))
			}
			emit(ops)
			return
		}
		for _, a := range alpha {
			cur[d] = a
			rec(d + 1)
		}
	}
	rec(0)
}

// ---- stress configurations ----

func genStress(r *rand.Rand, i int, thorough bool) (hx.T, []string) {
	pick := func(lo, hi int) int64 { return int64(lo + r.Intn(hi-lo+1)) }
	scale := 1
	if thorough && i%3 == 0 {
		scale = 3
	}
	cfg := []int64{
		pick(1, 3), pick(5, 30*scale), pick(0, 20), // peers, requests, notifications
		pick(0, 40*scale), 0, // responses, timeouts
		pick(1, 4), pick(3, 25), // timer producers, timers each
		8, pick(5, 40*scale), // posters
		pick(1, 3), pick(5, 60), pick(5, 60), // publishers, local, global
		pick(1, 6), pick(0, 12*scale), // connections, messages each
	}
	tags := []string{"stress"}
	if i%3 == 0 {
		cfg[4] = pick(1, 12)
		tags = append(tags, "stress-timeouts")
	}
	if i%5 == 4 { // a lopsided mix: one or two kinds only
		keep := r.Intn(5)
		for j := range cfg {
			cfg[j] = 0
		}
		switch keep {
		case 0:
			cfg[0], cfg[1], cfg[2] = 3, 60, 40
		case 1:
			cfg[5], cfg[6] = 4, 40
		case 2:
			cfg[7], cfg[8] = 8, 60
		case 3:
			cfg[9], cfg[10], cfg[11] = 3, 100, 100
		default:
			cfg[12], cfg[13] = 8, 20
		}
		tags = append(tags, "stress-lopsided")
	}
	// mode, then the overflow amounts [local, global, post, timer, session messages, requests]
	// ... and the rounds of boundary work (timers already due, work produced from inside handlers)
	// ... and the number of further actors spawned from the same props
	// ... whether the event centre is in direct mode, and the teardown variant
	// ... and the rounds of timers cancelled in one service's queue while a second service arms its own
	cfg = append(cfg, 0, 0, 0, 0, 0, 0, 0, pick(1, 12), 0, 0, 0, pick(1, 4))
	tags = append(tags, "two-services")
	if i%3 == 1 {
		cfg[23] = 1
		tags = append(tags, "direct-mode")
	}
	if i%4 == 1 {
		cfg[24] = int64(1 + i/4%2)
		tags = append(tags, fmt.Sprintf("teardown-%d", cfg[24]))
	}
	tags = append(tags, "edge")
	over := func(lo, hi int) int64 { return 999 + pick(lo, hi) } // queues hold 999
	switch i % 8 {
	case 1, 5: // every bounded queue of the service overflows while the service is busy
		if i%16 == 5 {
			cfg[16] = over(1, 300)
			tags = append(tags, "overflow-global")
		} else {
			cfg[15] = over(1, 300)
			tags = append(tags, "overflow-local")
		}
		cfg[17], cfg[18], cfg[19], cfg[20] = over(1, 200), over(1, 150), pick(5, 60), pick(200, 1300)
		tags = append(tags, "overflow")
	case 2: // one queue only, far beyond its capacity
		j := 15 + r.Intn(4)
		cfg[j] = 999 + pick(300, 1200)
		tags = append(tags, "overflow", "overflow-single")
	case 3:
		cfg[14] = 1
		tags = append(tags, "restart")
	case 4, 6, 7:
		// 2, 9, 10, 11, 12, 30 actors from ONE props share the dispatcher (queue of 9 batches) and the
		// run service; while the loop is held every actor gets a request (and some extra ones first)
		sib := []int64{10, 1, 29, 9, 11, 8}[(i/8*3+map[int]int{4: 0, 6: 1, 7: 2}[i%8])%6]
		cfg[14], cfg[22] = 2, sib
		cfg[20] = sib + 1 + pick(0, 60)
		tags = append(tags, "many-actors", fmt.Sprintf("actors-%d", sib+1))
		if i%8 == 6 { // together with the other overflows
			cfg[15], cfg[17], cfg[18] = over(1, 100), over(1, 100), over(1, 50)
			tags = append(tags, "overflow")
		}
	}
	if i%16 == 11 { // restarted service, then an overflow
		cfg[15], cfg[17] = over(1, 100), over(1, 100)
		tags = append(tags, "overflow")
	}
	return hx.C("OStress", r.Int63n(1<<30), cfg), tags
}

// ---- entry point ----

// A measurement runs in a child process (this binary, replaying the one OStress op): when a
// service's code does run on two goroutines its unsynchronised state can take the whole Go
// runtime down ("fatal error: concurrent map writes" cannot be recovered) - that must become
// an observation (EPanic), not the end of the harness.
const childEnv = "C04_STRESS_CHILD"

var scratchDir string

func stressIsolated(o hx.T) any {
	if os.Getenv(childEnv) != "" {
		return runStress(o.Int(0), o.Ints(1))
	}
	self, err := os.Executable()
	if err != nil {
		panic(err)
	}
	dir, err := os.MkdirTemp(scratchDir, "c04-stress-")
	if err != nil {
		panic(err)
	}
	defer os.RemoveAll(dir)
	in, out := filepath.Join(dir, "in.jsonl"), filepath.Join(dir, "out.jsonl")
	b, _ := json.Marshal(map[string]any{"ops": []any{o}})
	if err := os.WriteFile(in, append(b, '\n'), 0o644); err != nil {
		panic(err)
	}
	ctx, cancel := context.WithTimeout(context.Background(), 60*time.Second)
	defer cancel()
	cmd := exec.CommandContext(ctx, self, "C04", "--in", in, "--out", out, "--scratch", dir)
	cmd.Env = append(os.Environ(), childEnv+"=1")
	cmd.Dir = dir
	runErr := cmd.Run()
	if ctx.Err() != nil {
		return "EStuck"
	}
	if runErr == nil {
		if cs, err := readObs(out); err == nil && len(cs) == 1 {
			return cs[0]
		}
	}
	return "EPanic"
}

// readObs returns the event of the single observation of each case in a harness output file
func readObs(path string) ([]any, error) {
	f, err := os.Open(path)
	if err != nil {
		return nil, err
	}
	defer f.Close()
	var res []any
	dec := json.NewDecoder(f)
	dec.UseNumber()
	for dec.More() {
		var c struct {
			Obs any `json:"obs"`
		}
		if err := dec.Decode(&c); err != nil {
			return nil, err
		}
		obs, ok := hx.FromJSON(c.Obs).([]any)
		if !ok || len(obs) != 1 {
			return nil, fmt.Errorf("unexpected child output")
		}
		res = append(res, hx.AsTerm(obs[0]).Args[0])
	}
	return res, nil
}

func Run(cfg *hx.Config) error {
	quiet()
	scratchDir = cfg.Scratch
	emit := func(kind string, ops []hx.T, tags []string) {
		out, obs, nt := execScript(ops)
		cfg.Emit(hx.Case{Kind: kind, Ops: out, Obs: obs, Nontrivial: nt, Tags: tags})
	}
	if cfg.In != "" {
		cs, err := hx.ReadCases(cfg.In)
		if err != nil {
			return err
		}
		for _, c := range cs {
			emit("replay", hx.Terms(c.Ops), c.Tags)
		}
		return nil
	}
	thorough := cfg.Tier == "thorough"
	for i, b := range boundary() {
		emit(fmt.Sprintf("boundary-%d", i), b, []string{"boundary"})
	}
	depth := 3
	if thorough {
		depth = 5
	}
	for L := 0; L <= depth; L++ {
		enumerate(L, func(ops []hx.T) { emit(fmt.Sprintf("exhaustive-%d", L), ops, nil) })
	}
	for i := 0; i < cfg.N; i++ {
		maxLen := 14
		if i%4 == 3 {
			maxLen = 70
		}
		ops, tags := genScript(cfg.Rng, maxLen)
		emit("random", ops, tags)
	}
	nStress := 16
	if thorough {
		nStress = 150
	}
	for i := 0; i < nStress; i++ {
		op, tags := genStress(cfg.Rng, i, thorough)
		emit("stress", []hx.T{op}, tags)
	}
	return nil
}
