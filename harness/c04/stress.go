package c04

// Measurement: a real node-level service (NodeService on its own StandardRunService, in a
// local protoactor system) whose every entry point is instrumented.  Each entry records
// the goroutine it runs on (id parsed from runtime.Stack, and whether that goroutine's
// stack bottoms out in runservice.(*RunService).loop) and moves an atomic in-flight
// counter, while concurrent producers of every kind named by the property are active:
//
//   kind 0 request      other services (each on its own run service) call Request on the service
//   kind 1 notification ... and Notify
//   kind 2 response     the service Requests an echo peer; callback on the response
//   kind 3 timeout      the service Requests a peer that never answers; the virtual clock
//                       (common.VerifSetNowMs) is moved 31 s ahead and the service's own 1 s
//                       expiry timer delivers ErrTimeout
//   kind 4 timer        TimerMgr.After from producer goroutines
//   kind 5 posted       Service.Post from poster goroutines (+ the closures that issue 2 and 3)
//   kind 6 local event  EventCenter.Publish (useChan) from publisher goroutines
//   kind 7 global event event.GetGlobalEC().Publish from the same publishers
//   kind 8/9/10         pomelo.SessionsImpl OnSessionCreate / OnSessionClose / ProcessMessage
//                       called from "network" goroutines with a fake session
//
// The reference goroutine is obtained independently of all of these: a selector added to
// the service's MultiSelector reports the goroutine that runs HandleOnce.

import (
	"bytes"
	"fmt"
	"io"
	"log"
	"log/slog"
	"math/rand"
	"runtime"
	"strconv"
	"sync"
	"sync/atomic"
	"time"

	"github.com/asynkron/protoactor-go/actor"
	"github.com/sirupsen/logrus"

	as "github.com/dfklegend/cell2/actorex/service"
	messages "github.com/dfklegend/cell2/actorex/service/servicemsgs"
	"github.com/dfklegend/cell2/node/builtin/msgs"
	"github.com/dfklegend/cell2/node/client/impls"
	"github.com/dfklegend/cell2/node/client/impls/pomelo"
	cs "github.com/dfklegend/cell2/node/client/session"
	ns "github.com/dfklegend/cell2/node/service"
	"github.com/dfklegend/cell2/pomelonet/common/conn/message"
	"github.com/dfklegend/cell2/utils/common"
	"github.com/dfklegend/cell2/utils/event"
	"github.com/dfklegend/cell2/utils/logger"
	"github.com/dfklegend/cell2/utils/sche"
	"github.com/dfklegend/cell2/utils/timer"

	"reflect"

	"verifh/hx"
)

const (
	kRequest = iota
	kNotify
	kResponse
	kTimeout
	kTimer
	kPost
	kLocalEvent
	kGlobalEvent
	kSessAdd
	kSessRemove
	kSessMsg
	nKinds
)

const (
	clock0        = int64(1000000)
	stressTimeout = 12 * time.Second
)

var stackPool = sync.Pool{New: func() any { b := make([]byte, 64<<10); return &b }}

var loopFrame = []byte("runservice.(*RunService).loop")

// where returns the current goroutine's id and whether it is a RunService loop goroutine.
func where() (int64, bool) {
	bp := stackPool.Get().(*[]byte)
	defer stackPool.Put(bp)
	n := runtime.Stack(*bp, false)
	b := (*bp)[:n]
	f := bytes.Fields(b[:min(n, 64)])
	id := int64(-1)
	if len(f) >= 2 {
		if v, err := strconv.ParseInt(string(f[1]), 10, 64); err == nil {
			id = v
		}
	}
	return id, bytes.Contains(b, loopFrame)
}

type probe struct {
	loopGid  atomic.Int64             // 0 until the reference goroutine is known
	offLoop  [nKinds + 1]atomic.Int64 // per kind; last slot: any other entry (Started, setup ...)
	inflight atomic.Int32
	quiet    atomic.Bool // teardown: what runs is still checked but no longer counted
	other    *probe      // the probe of the second instrumented service (its timers), folded into the report
	maxIn    atomic.Int32
	exec     [nKinds]atomic.Int64
	prod     [nKinds]atomic.Int64
}

// enter is called first thing at an entry point; the returned func is deferred.
func (p *probe) enter(kind int) func() {
	id, inLoop := where()
	if ref := p.loopGid.Load(); !inLoop || (ref != 0 && id != ref) {
		slot := kind
		if slot < 0 {
			slot = nKinds
		}
		p.offLoop[slot].Add(1)
	}
	n := p.inflight.Add(1)
	for {
		m := p.maxIn.Load()
		if n <= m || p.maxIn.CompareAndSwap(m, n) {
			break
		}
	}
	// stay "inside" for a moment and offer the processor to whoever might overlap
	runtime.Gosched()
	for t0 := time.Now(); time.Since(t0) < 15*time.Microsecond; {
	}
	return func() {
		p.inflight.Add(-1)
		if kind >= 0 && !p.quiet.Load() {
			p.exec[kind].Add(1)
		}
	}
}

// check is enter for a piece that is only observed (goroutine, overlap), never counted
func (p *probe) check(kind int) func() {
	done := p.enter(-1)
	if ref := p.loopGid.Load(); kind >= 0 {
		if id, inLoop := where(); !inLoop || (ref != 0 && id != ref) {
			p.offLoop[kind].Add(1)
		}
	}
	return done
}

// ---- the instrumented service

type setupMsg struct{ ack chan struct{} }

// pingMsg is answered with the actor instance that currently serves the PID
type pingMsg struct{ ack chan *hsvc }

// crashMsg makes the handler panic: the root supervisor restarts the actor (protoactor calls
// the props' producer again for the new incarnation)
type crashMsg struct{}

type hsvc struct {
	*ns.NodeService
	p          *probe
	direct     bool // the event centre is in direct mode: the measurement publishes no local events
	localName  string
	globalName string
}

func (h *hsvc) Receive(ctx actor.Context) {
	switch m := ctx.Message().(type) {
	case *messages.ServiceRequest, *messages.ServiceResponse:
		// instrumented at ReceiveRequest / in the response callback
		h.NodeService.Receive(ctx)
	case *pingMsg:
		func() { defer h.p.enter(-1)() }()
		m.ack <- h
	case *crashMsg:
		defer h.p.enter(-1)()
		panic("c04: injected handler fault")
	case *setupMsg:
		func() {
			defer h.p.enter(-1)()
			ec := h.GetRunService().GetEventCenter()
			if h.direct {
				ec.SetLocalUseChan(false)
			}
			ec.Subscribe(h.localName, func(args ...interface{}) { defer h.p.enter(kLocalEvent)() })
			ec.GSubscribe(h.globalName, func(args ...interface{}) { defer h.p.enter(kGlobalEvent)() })
			// a listener that itself produces work for its own service
			ec.Subscribe(h.localName+"-nest", func(args ...interface{}) {
				defer h.p.enter(kLocalEvent)()
				h.fromInside()
			})
		}()
		close(m.ack)
	default:
		func() {
			defer h.p.enter(-1)()
			h.NodeService.Receive(ctx)
		}()
	}
}

// boundary delays of a timer: already due (zero, negative, a deadline long past), the
// smallest positive delay, an ordinary one
var edgeDelays = []time.Duration{0, -1, -3 * time.Second, 1, time.Millisecond}

const edgeRepeats = 3 // firings of the repeating timer of a round before it cancels itself

const nestMark = 77 // a request carrying this value makes its handler produce more work

// fromInside is called in the middle of a piece of work of the service (posted closure,
// timer callback, event listener, request handler): it arms timers that are already due,
// posts to its own scheduler and publishes on its own event centre.  Each of those is a
// new piece of work: it must start only after the current one has ended (a start before
// that shows as a second piece in flight).
func (h *hsvc) fromInside() {
	p, rs := h.p, h.GetRunService()
	p.prod[kTimer].Add(2)
	rs.GetTimerMgr().After(0, func(args ...interface{}) { defer p.enter(kTimer)() })
	rs.GetTimerMgr().AddTimer(-1, func(args ...interface{}) { defer p.enter(kTimer)() })
	p.prod[kPost].Add(1)
	h.Post(func() { defer p.enter(kPost)() })
	if !h.direct {
		p.prod[kLocalEvent].Add(1)
		rs.GetEventCenter().Publish(h.localName, 0)
	}
}

const (
	insideTimers = 2 // what one fromInside call produces
	insidePosts  = 1
	insideLocals = 1
)

func (h *hsvc) ReceiveRequest(ctx actor.Context, request *messages.ServiceRequest, rawMsg interface{}) {
	if request.ReqId == as.NotifyReqID {
		defer h.p.enter(kNotify)()
		return
	}
	defer h.p.enter(kRequest)()
	if m, ok := rawMsg.(*messages.TestHello); ok && m.I == nestMark {
		h.fromInside()
	}
	h.Response(request, as.CodeSucc, "", &messages.TestHello{I: 1})
}

// a peer: answers (echo) or swallows (black hole) requests; can be made to call the service
type peerSvc struct {
	*as.Service
	answer bool
}

func (p *peerSvc) Receive(ctx actor.Context) {
	if m, ok := ctx.Message().(*setupMsg); ok {
		close(m.ack) // Started has been processed: the peer may Request now
		return
	}
	p.Service.Receive(ctx)
}

func (p *peerSvc) ReceiveRequest(ctx actor.Context, request *messages.ServiceRequest, rawMsg interface{}) {
	if p.answer {
		p.Response(request, as.CodeSucc, "", &messages.TestHello{I: 2})
	}
}

// session handler installed into the real ClientSessions
type sessHandler struct{ p *probe }

func (s *sessHandler) Process(fs *cs.FrontSession, msg *msgs.ClientMsg) { defer s.p.enter(kSessMsg)() }
func (s *sessHandler) OnSessionAdd(fs *cs.FrontSession)                 { defer s.p.enter(kSessAdd)() }
func (s *sessHandler) OnSessionRemove(fs *cs.FrontSession)              { defer s.p.enter(kSessRemove)() }

// a custom kick handler: user code of the service, reached through ClientSessions.Kick
type kickHandler struct{ p *probe }

func (k *kickHandler) HandleKick(n *ns.NodeService, sessions *impls.ClientSessions, netId uint32) {
	defer k.p.check(kSessMsg)()
}

// client message types: clients send Request and Notify, but Response and Push decode as well
// and are forwarded to the service like the others
var msgTypes = []message.Type{message.Request, message.Notify, message.Response, message.Push}

// registered waits (bounded) until the service has given the connection its id
func registered(fs *fakeSession) {
	for t0 := time.Now(); fs.GetId() == 0 && time.Since(t0) < 100*time.Millisecond; {
		time.Sleep(50 * time.Microsecond)
	}
}

type fakeSession struct {
	id     atomic.Uint32
	closed atomic.Bool
}

func (f *fakeSession) Reserve()                                           {}
func (f *fakeSession) GetId() uint32                                      { return f.id.Load() }
func (f *fakeSession) SetId(i uint32)                                     { f.id.Store(i) }
func (f *fakeSession) Push(route string, v interface{}) error             { return nil }
func (f *fakeSession) ResponseMID(mid uint, v interface{}, e error) error { return nil }
func (f *fakeSession) Close()                                             { f.closed.Store(true) }
func (f *fakeSession) IsClosed() bool                                     { return f.closed.Load() }

// ---- actor system (one per process)

var (
	sysOnce sync.Once
	sys     *actor.ActorSystem
	serial  int
)

var quietOnce sync.Once

// quiet silences cell2's loggers (recovered panics of Post-after-Stop etc. are expected)
func quiet() {
	quietOnce.Do(func() {
		logger.GetLogProxy("default").SetLogLevel(logrus.PanicLevel)
		logger.GetLogProxy("exception").SetLogLevel(logrus.PanicLevel)
		log.SetOutput(io.Discard)
	})
}

func system() *actor.ActorSystem {
	sysOnce.Do(func() {
		quiet()
		sys = actor.NewActorSystem(actor.WithLoggerFactory(func(*actor.ActorSystem) *slog.Logger {
			return slog.New(slog.NewTextHandler(io.Discard, nil))
		}))
	})
	return sys
}

func cfgn(cfg []int64, i int) int {
	if i >= len(cfg) || cfg[i] < 0 {
		return 0
	}
	return int(cfg[i])
}

// runStress executes one measurement and returns the EStress term.
//
//	cfg = [peers, reqPerPeer, notifyPerPeer, responses, timeouts, timerProducers, perTimerProducer,
//	       posters, perPoster, publishers, localPerPublisher, globalPerPublisher, conns, msgsPerConn,
//	       mode, ovLocal, ovGlobal, ovPost, ovTimer, ovSessMsg, ovRequest, edgeRounds, siblings, direct, teardown, xsvcRounds]
//
// mode 1: before anything else the service actor is crashed once (a message whose handler
// panics) and restarted by its supervisor.  mode 2: the same props is spawned a second time;
// both actors are served by the one run service of the props and both receive requests.
//
// siblings: that many more actors are spawned from the same props (mode 2 = at least one).  All
// of them share the dispatcher (queue of 9 mailbox batches) and the run service; in the overflow
// phase every actor gets a request while the loop is held, so with 11 actors or more posters
// must block in scheDisp.Schedule.  (With 10 actors or more the harness never lets a message
// arrive at a mailbox while the dispatcher queue can be full and that mailbox may just be
// ending a batch: there the UNCHANGED code re-schedules from the loop goroutine and can lock
// itself up - a liveness matter, not this property.)
//
// direct: the service's event centre is in direct mode (SetLocalUseChan(false)): local Publish is
// then a synchronous call made by the service itself, so no local events are produced; global
// events - published by foreign goroutines and by other services - must still arrive through
// the channel and run on the loop.
//
// teardown (1: the service stops its run service from inside a handler and keeps working for a
// while, 2: a foreign goroutine stops it): comes last.  While connections close, send messages
// and open on their network goroutines, timers are armed and expire, closures are posted, events
// are published and requests arrive, the run service is stopped.  From then on work may be
// dropped (the property says where a piece runs, not that it must run) - but whatever still
// runs must run on the loop goroutine, one piece at a time.  Teardown work is not counted.
//
// xsvcRounds: a SECOND instrumented service (the echo peer: its own run service, timer manager and
// loop goroutine, its own probe) is involved: per round, 8 timers of the service expire while
// the service is held busy and are cancelled while they sit in its timer queue (half by the
// service itself, half by a foreign goroutine); in that window the second service arms 16
// timers of its own (8 from a foreign goroutine, 8 from its own loop); then the first service
// is released.  Every callback is observed with (owning service, goroutine): a callback of one
// service on the other's loop goroutine counts as off-loop for the timer kind.
//
// edgeRounds: that many rounds of "boundary" work run concurrently with everything else: timers
// with delay 0 / negative / 1ns / 1ms, one-shot and repeating, armed from a foreign goroutine;
// and from inside a posted closure, a timer callback, an event listener and a request handler
// of the service itself, each of which also posts to and publishes on its own service.  The
// ordinary and the overflow timer producers use the same boundary delays.
//
// ov*: an overflow phase comes first.  The service is held inside a posted closure; foreign
// goroutines then produce that many items of the kind - more than the bounded queue holds
// (event queue, scheduler queue, timer queue: 999; requests pile up in the mailbox).  On a
// full queue producers must block (GlobalEventCenter.Publish drops instead), nothing may run
// anywhere but on the held loop goroutine; then the service is released and everything
// accepted must be executed.
func runStress(seed int64, cfg []int64) any {
	nPeers, reqPer, notPer := cfgn(cfg, 0), cfgn(cfg, 1), cfgn(cfg, 2)
	nResp, nTimeout := cfgn(cfg, 3), cfgn(cfg, 4)
	nTimerProd, perTimer := cfgn(cfg, 5), cfgn(cfg, 6)
	nPosters, perPoster := cfgn(cfg, 7), cfgn(cfg, 8)
	nPub, perLocal, perGlobal := cfgn(cfg, 9), cfgn(cfg, 10), cfgn(cfg, 11)
	nConn, perConn := cfgn(cfg, 12), cfgn(cfg, 13)
	mode := cfgn(cfg, 14)
	ovLocal, ovGlobal, ovPost := cfgn(cfg, 15), cfgn(cfg, 16), cfgn(cfg, 17)
	ovTimer, ovSess, ovReq := cfgn(cfg, 18), cfgn(cfg, 19), cfgn(cfg, 20)
	edgeRounds := cfgn(cfg, 21)
	siblings := cfgn(cfg, 22)
	direct, teardown := cfgn(cfg, 23) > 0, cfgn(cfg, 24)
	xsvcRounds := cfgn(cfg, 25)
	if direct {
		perLocal, ovLocal = 0, 0
	}
	if mode == 2 && siblings == 0 {
		siblings = 1
	}
	if ovLocal > 0 {
		ovGlobal = 0 // one queue: a deterministic drop count needs it to hold one kind only
	}

	s := system()
	serial++
	tag := fmt.Sprintf("c04-%d-%d", serial, seed)
	p := &probe{}
	common.VerifSetNowMs(clock0)
	defer common.VerifSetNowMs(clock0)

	var instMu sync.Mutex
	incarnations := 0
	sprops, _ := as.NewServicePropsWithNewScheDisp(func() actor.Actor {
		h := &hsvc{NodeService: ns.NewService(), p: p, direct: direct, localName: tag + "-local", globalName: tag + "-global"}
		h.NodeService.Service.InitReqReceiver(h)
		instMu.Lock()
		incarnations++
		instMu.Unlock()
		return h
	}, "")
	svcPID, err := s.Root.SpawnNamed(sprops, tag+"-svc")
	if err != nil {
		panic(err)
	}
	ping := func(pid *actor.PID) *hsvc {
		m := &pingMsg{ack: make(chan *hsvc, 1)}
		s.Root.Send(pid, m)
		select {
		case h := <-m.ack:
			return h
		case <-time.After(5 * time.Second):
			return nil
		}
	}
	svc := ping(svcPID)
	if svc == nil {
		panic("c04: service did not start")
	}
	svcTargets := []*actor.PID{svcPID}
	var peerPIDs []*actor.PID
	var peers []*peerSvc
	spawnPeer := func(name string, answer bool) (*actor.PID, *peerSvc) {
		var ps *peerSvc
		pp, _ := as.NewServicePropsWithNewScheDisp(func() actor.Actor {
			x := &peerSvc{Service: as.NewService(), answer: answer}
			x.Service.InitReqReceiver(x)
			ps = x
			return x
		}, "")
		pid, err := s.Root.SpawnNamed(pp, name)
		if err != nil {
			panic(err)
		}
		m := &setupMsg{ack: make(chan struct{})}
		s.Root.Send(pid, m)
		select {
		case <-m.ack:
		case <-time.After(5 * time.Second):
			panic("c04: peer did not start")
		}
		return pid, ps
	}
	echoPID, echo := spawnPeer(tag+"-echo", true)
	holePID, hole := spawnPeer(tag+"-hole", false)
	for i := 0; i < nPeers; i++ {
		pid, ps := spawnPeer(fmt.Sprintf("%s-peer%d", tag, i), true)
		peerPIDs, peers = append(peerPIDs, pid), append(peers, ps)
	}
	rs := svc.GetRunService()
	tornDown := false
	stopAll := func() {
		pids := append([]*actor.PID{echoPID, holePID}, peerPIDs...)
		if !tornDown {
			pids = append(pids, svcTargets...) // a stopped service cannot process its Stop message any more
		}
		for _, pid := range pids {
			s.Root.StopFuture(pid).Wait()
		}
		if !tornDown {
			rs.Stop()
		}
		echo.GetRunService().Stop()
		hole.GetRunService().Stop()
		for _, ps := range peers {
			ps.GetRunService().Stop()
		}
	}
	defer stopAll()

	switch mode {
	case 1:
		// a handler fault: the supervisor restarts the actor, the producer runs again
		s.Root.Send(svcPID, &crashMsg{})
		for t0 := time.Now(); ; time.Sleep(time.Millisecond) {
			instMu.Lock()
			n := incarnations
			instMu.Unlock()
			if n >= 2 {
				break
			}
			if time.Since(t0) > 5*time.Second {
				return stressTerm(false, p)
			}
		}
		if svc = ping(svcPID); svc == nil {
			return stressTerm(false, p)
		}
	}
	for i := 0; i < siblings; i++ {
		pid, err := s.Root.SpawnNamed(sprops, fmt.Sprintf("%s-sib%d", tag, i))
		if err != nil {
			panic(err)
		}
		svcTargets = append(svcTargets, pid)
		if ping(pid) == nil {
			return stressTerm(false, p)
		}
	}
	// targets of traffic that may arrive at any time: at most 9 mailboxes, so the dispatcher
	// queue always has room for their batches
	freeTargets := svcTargets
	if len(freeTargets) > 9 {
		freeTargets = freeTargets[:9]
	}

	// reference goroutine: the one that runs HandleOnce of the service's selector
	gidCh := make(chan int64, 1)
	tok := make(chan int, 1)
	rs.GetSelector().AddSelector("c04-ref", sche.NewFuncSelector(reflect.ValueOf(tok),
		func(v reflect.Value, recvOk bool) {
			id, _ := where()
			gidCh <- id
		}))
	tok <- 1
	select {
	case id := <-gidCh:
		p.loopGid.Store(id)
	case <-time.After(5 * time.Second):
		return stressTerm(false, p)
	}

	setup := &setupMsg{ack: make(chan struct{})}
	s.Root.Send(svcPID, setup)
	select {
	case <-setup.ack:
	case <-time.After(5 * time.Second):
		return stressTerm(false, p)
	}
	sessions := impls.NewClientSessions(tag + "-front")
	sessions.SetHandler(&sessHandler{p})
	sessions.SetKickHandler(&kickHandler{p})
	impl := pomelo.NewSessionsImpl(rs.GetScheduler(), sessions)

	tm := rs.GetTimerMgr()
	ec := rs.GetEventCenter()
	// events GlobalEventCenter.Publish will drop on the full queue while the service is held
	globalDropped := int64(0)
	if ovGlobal > sche.QueueSize {
		globalDropped = int64(ovGlobal - sche.QueueSize) // chanEvent has the same capacity, 999
	}
	caughtUp := func() bool {
		for k := 0; k < nKinds; k++ {
			want := p.prod[k].Load()
			if k == kGlobalEvent {
				want -= globalDropped
			}
			if p.exec[k].Load() < want {
				return false
			}
		}
		return true
	}
	waitCaughtUp := func(deadline <-chan time.Time) bool {
		for !caughtUp() {
			select {
			case <-deadline:
				return false
			case <-time.After(2 * time.Millisecond):
			}
		}
		return true
	}

	if ovLocal+ovGlobal+ovPost+ovTimer+ovSess+ovReq > 0 {
		gate, inside := make(chan struct{}), make(chan struct{})
		svc.Post(func() {
			defer p.enter(-1)()
			close(inside)
			<-gate // the service is busy: nothing else of it may run meanwhile
		})
		select {
		case <-inside:
		case <-time.After(5 * time.Second):
			return stressTerm(false, p)
		}
		var owg sync.WaitGroup
		burst := func(n, workers int, f func(i int)) {
			for w := 0; w < workers; w++ {
				lo, hi := n*w/workers, n*(w+1)/workers
				owg.Add(1)
				go func() {
					defer owg.Done()
					for i := lo; i < hi; i++ {
						f(i)
					}
				}()
			}
		}
		burst(ovLocal, 2, func(i int) {
			ec.Publish(svc.localName, i)
			p.prod[kLocalEvent].Add(1)
		})
		burst(ovGlobal, 1, func(i int) {
			event.GetGlobalEC().Publish(svc.globalName, i)
			p.prod[kGlobalEvent].Add(1)
		})
		burst(ovPost, 2, func(i int) {
			svc.Post(func() { defer p.enter(kPost)() })
			p.prod[kPost].Add(1)
		})
		burst(ovTimer, 1, func(i int) {
			// armed while the service is busy, most of them already due
			p.prod[kTimer].Add(1)
			tm.After(edgeDelays[i%len(edgeDelays)], func(args ...interface{}) { defer p.enter(kTimer)() })
		})
		if ovSess > 0 {
			fs := &fakeSession{}
			burst(ovSess+2, 1, func(j int) {
				switch {
				case j == 0:
					impl.OnSessionCreate(fs)
					p.prod[kSessAdd].Add(1)
				case j == ovSess+1:
					impl.OnSessionClose(fs)
					p.prod[kSessRemove].Add(1)
				default:
					impl.ProcessMessage(fs, &message.Message{Type: msgTypes[j%len(msgTypes)], ID: uint(j), Route: "x.y.z"})
					p.prod[kSessMsg].Add(1)
				}
			})
		}
		burst(ovReq, 1, func(i int) {
			// the last len(svcTargets) requests go one to each actor, the others before them to
			// the first nine: the sender (one goroutine) blocks in Schedule at the tenth batch
			target := freeTargets[i%len(freeTargets)]
			if rest := ovReq - i; rest <= len(svcTargets) {
				target = svcTargets[len(svcTargets)-rest]
			}
			echo.Post(func() { echo.Request(target, &messages.TestHello{I: 6}, func(error, interface{}) {}) })
			p.prod[kRequest].Add(1)
		})
		// hold until every producer is done or blocked on its full queue (no progress for 40 ms)
		total := func() (n int64) {
			for k := 0; k < nKinds; k++ {
				n += p.prod[k].Load()
			}
			return
		}
		last, since := total(), time.Now()
		for t0 := time.Now(); time.Since(t0) < 5*time.Second; time.Sleep(5 * time.Millisecond) {
			if n := total(); n != last {
				last, since = n, time.Now()
			} else if time.Since(since) > 40*time.Millisecond && time.Since(t0) > 60*time.Millisecond {
				break
			}
		}
		close(gate)
		ovDone := make(chan struct{})
		go func() { owg.Wait(); close(ovDone) }()
		dl := time.After(stressTimeout)
		select {
		case <-ovDone:
		case <-dl:
			return stressTerm(false, p) // a producer is still blocked after the release
		}
		if !waitCaughtUp(dl) {
			return stressTerm(p.maxIn.Load() <= 1, p)
		}
	}

	if xsvcRounds > 0 {
		pB := &probe{}
		p.other = pB
		gidB, tokB := make(chan int64, 1), make(chan int, 1)
		echo.GetRunService().GetSelector().AddSelector("c04-ref", sche.NewFuncSelector(reflect.ValueOf(tokB),
			func(v reflect.Value, recvOk bool) {
				id, _ := where()
				gidB <- id
			}))
		tokB <- 1
		select {
		case id := <-gidB:
			pB.loopGid.Store(id)
		case <-time.After(5 * time.Second):
			return stressTerm(false, p)
		}
		tmB := echo.GetRunService().GetTimerMgr()
		const k = 8
		for round := 0; round < xsvcRounds; round++ {
			inside, cancelNow, cancelled, gate := make(chan struct{}), make(chan struct{}), make(chan struct{}), make(chan struct{})
			ids := make([]timer.IdType, k)
			svc.Post(func() {
				defer p.enter(-1)()
				close(inside)
				<-cancelNow
				for i := 0; i < k; i += 2 { // the service cancels its own expired timers while busy
					tm.Cancel(ids[i])
				}
				close(cancelled)
				<-gate
			})
			select {
			case <-inside:
			case <-time.After(5 * time.Second):
				return stressTerm(false, p)
			}
			for i := range ids { // they expire at once and wait in the held service's timer queue
				ids[i] = tm.After(edgeDelays[i%4], func(args ...interface{}) { defer p.check(kTimer)() })
			}
			time.Sleep(3 * time.Millisecond)
			close(cancelNow)
			<-cancelled
			for i := 1; i < k; i += 2 {
				tm.Cancel(ids[i])
			}
			// the other service arms its timers now
			pB.prod[kTimer].Add(2 * k)
			for i := 0; i < k; i++ {
				tmB.After(time.Millisecond, func(args ...interface{}) { defer pB.enter(kTimer)() })
			}
			armed := make(chan struct{})
			echo.Post(func() {
				for i := 0; i < k; i++ {
					tmB.After(time.Millisecond, func(args ...interface{}) { defer pB.enter(kTimer)() })
				}
				close(armed)
			})
			select {
			case <-armed:
			case <-time.After(5 * time.Second):
				return stressTerm(false, p)
			}
			close(gate)
			for t0 := time.Now(); pB.exec[kTimer].Load() < pB.prod[kTimer].Load() && time.Since(t0) < 5*time.Second; {
				time.Sleep(200 * time.Microsecond)
			}
		}
	}

	// requests that will time out go first, then the clock jumps; everything issued
	// afterwards has its deadline 30 s after the jump
	cbFor := func() func(error, interface{}) {
		return func(err error, _ interface{}) {
			if err == as.ErrTimeout {
				defer p.enter(kTimeout)()
			} else {
				defer p.enter(kResponse)()
			}
		}
	}
	issue := func(pid *actor.PID) {
		svc.Post(func() {
			defer p.enter(kPost)()
			svc.Request(pid, &messages.TestHello{I: 3}, cbFor())
		})
		p.prod[kPost].Add(1)
	}
	for i := 0; i < nTimeout; i++ {
		issue(holePID)
		p.prod[kTimeout].Add(1)
	}
	if nTimeout > 0 {
		reg := make(chan struct{})
		svc.Post(func() { defer p.enter(-1)(); close(reg) })
		select {
		case <-reg:
		case <-time.After(5 * time.Second):
			return stressTerm(false, p)
		}
		common.VerifSetNowMs(clock0 + 31000)
	}

	// with timeouts pending the expiry scan fires about 1 s after the first request:
	// producers pace themselves so that they are still active then
	span := time.Duration(0)
	if nTimeout > 0 {
		span = 1150 * time.Millisecond
	}
	var wg sync.WaitGroup
	var seedMu sync.Mutex
	master := rand.New(rand.NewSource(seed))
	producer := func(items int, f func(r *rand.Rand, i int)) {
		seedMu.Lock()
		r := rand.New(rand.NewSource(master.Int63()))
		seedMu.Unlock()
		wg.Add(1)
		go func() {
			defer wg.Done()
			gap := time.Duration(0)
			if items > 0 {
				gap = span / time.Duration(items)
			}
			for i := 0; i < items; i++ {
				f(r, i)
				if gap > 0 {
					time.Sleep(gap/2 + time.Duration(r.Int63n(int64(gap))))
				} else if r.Intn(4) == 0 {
					runtime.Gosched()
				}
			}
		}()
	}

	for i := range peers {
		ps := peers[i]
		producer(reqPer+notPer, func(r *rand.Rand, j int) {
			if j < reqPer {
				target := freeTargets[j%len(freeTargets)]
				ps.Post(func() { ps.Request(target, &messages.TestHello{I: 4}, func(error, interface{}) {}) })
				p.prod[kRequest].Add(1)
			} else {
				target := freeTargets[j%len(freeTargets)]
				ps.Post(func() { ps.Notify(target, &messages.TestHello{I: 5}) })
				p.prod[kNotify].Add(1)
			}
		})
	}
	producer(nResp, func(r *rand.Rand, j int) {
		issue(echoPID)
		p.prod[kResponse].Add(1)
	})
	for i := 0; i < nTimerProd; i++ {
		producer(perTimer, func(r *rand.Rand, j int) {
			d := time.Duration(1+r.Intn(8)) * time.Millisecond
			if r.Intn(3) == 0 {
				d = edgeDelays[r.Intn(len(edgeDelays))]
			}
			p.prod[kTimer].Add(1)
			if r.Intn(4) == 0 {
				tm.AddTimer(0, func(args ...interface{}) { defer p.enter(kTimer)() }) // period 0: fires once
			} else {
				tm.After(d, func(args ...interface{}) { defer p.enter(kTimer)() })
			}
		})
	}
	timerCB := func(args ...interface{}) { defer p.enter(kTimer)() }
	// (a) foreign goroutine: every boundary delay, one-shot and repeating
	producer(edgeRounds, func(r *rand.Rand, j int) {
		p.prod[kTimer].Add(int64(len(edgeDelays)) + 1 + edgeRepeats)
		for _, d := range edgeDelays {
			tm.After(d, timerCB)
		}
		tm.AddTimer(0, timerCB)
		var id atomic.Uint64
		fired := 0 // only touched by the callback
		id.Store(uint64(tm.AddTimer(time.Millisecond, func(args ...interface{}) {
			defer p.enter(kTimer)()
			if fired++; fired == edgeRepeats {
				for id.Load() == 0 {
					runtime.Gosched()
				}
				tm.Cancel(timer.IdType(id.Load()))
			}
		})))
	})
	// (b) from inside a posted closure, (c) from inside a timer callback,
	// (d) from inside an event listener, (e) from inside a request handler
	producer(edgeRounds, func(r *rand.Rand, j int) {
		p.prod[kPost].Add(1)
		svc.Post(func() {
			defer p.enter(kPost)()
			svc.fromInside()
			p.prod[kGlobalEvent].Add(1)
			event.GetGlobalEC().Publish(svc.globalName, 0)
		})
	})
	producer(edgeRounds, func(r *rand.Rand, j int) {
		p.prod[kTimer].Add(1)
		tm.After(edgeDelays[j%len(edgeDelays)], func(args ...interface{}) {
			defer p.enter(kTimer)()
			svc.fromInside()
		})
	})
	if !direct {
		producer(edgeRounds, func(r *rand.Rand, j int) {
			p.prod[kLocalEvent].Add(1)
			ec.Publish(svc.localName+"-nest", j)
		})
	}
	producer(edgeRounds, func(r *rand.Rand, j int) {
		p.prod[kRequest].Add(1)
		echo.Post(func() { echo.Request(svcPID, &messages.TestHello{I: nestMark}, func(error, interface{}) {}) })
	})

	for i := 0; i < nPosters; i++ {
		producer(perPoster, func(r *rand.Rand, j int) {
			svc.Post(func() { defer p.enter(kPost)() })
			p.prod[kPost].Add(1)
		})
	}
	for i := 0; i < nPub; i++ {
		producer(perLocal, func(r *rand.Rand, j int) {
			ec.Publish(svc.localName, j)
			p.prod[kLocalEvent].Add(1)
		})
		producer(perGlobal, func(r *rand.Rand, j int) {
			p.prod[kGlobalEvent].Add(1)
			switch {
			case j%3 == 1 && len(peers) > 0: // published by another service, on its goroutine
				peers[j%len(peers)].Post(func() { event.GetGlobalEC().Publish(svc.globalName, j) })
			case j%3 == 2:
				echo.Post(func() { event.GetGlobalEC().Publish(svc.globalName, j) })
			default: // by a foreign goroutine
				event.GetGlobalEC().Publish(svc.globalName, j)
			}
		})
	}
	for i := 0; i < nConn; i++ {
		fs := &fakeSession{}
		producer(perConn+2, func(r *rand.Rand, j int) {
			switch {
			case j == 0:
				impl.OnSessionCreate(fs)
				p.prod[kSessAdd].Add(1)
			case j == perConn+1:
				impl.OnSessionClose(fs)
				p.prod[kSessRemove].Add(1)
			default:
				registered(fs)
				impl.ProcessMessage(fs, &message.Message{Type: msgTypes[j%len(msgTypes)], ID: uint(j), Route: "x.y.z"})
				p.prod[kSessMsg].Add(1)
			}
		})
	}

	produced := make(chan struct{})
	go func() { wg.Wait(); close(produced) }()
	deadline := time.After(stressTimeout)
	select {
	case <-produced:
	case <-deadline:
		return stressTerm(false, p) // a producer is stuck
	}
	waitCaughtUp(deadline)
	// a little grace: anything executed twice or late would show up as exec > prod
	time.Sleep(5 * time.Millisecond)

	if teardown > 0 && caughtUp() {
		// three connections that exist when the service goes down
		conns := []*fakeSession{{}, {}, {}}
		for _, fs := range conns {
			impl.OnSessionCreate(fs)
			p.prod[kSessAdd].Add(1)
		}
		if !waitCaughtUp(deadline) {
			return stressTerm(p.maxIn.Load() <= 1, p)
		}
		p.quiet.Store(true)
		tornDown = true
		stopped := make(chan struct{})
		var twg sync.WaitGroup
		// every producer works from before the stop until some time after it
		during := func(f func(i int, afterStop bool)) {
			twg.Add(1)
			go func() {
				defer twg.Done()
				var end time.Time
				for i := 0; ; i++ {
					after := false
					select {
					case <-stopped:
						after = true
						if end.IsZero() {
							end = time.Now().Add(25 * time.Millisecond)
						}
					default:
					}
					if after && time.Now().After(end) || i > 400 {
						return
					}
					f(i, after)
					time.Sleep(150 * time.Microsecond)
				}
			}()
		}
		for _, fs := range conns { // network goroutines: messages, then the connection drops
			fs := fs
			closed := false
			during(func(i int, after bool) {
				switch {
				case closed:
				case after && i%3 == 0:
					impl.OnSessionClose(fs)
					closed = true
				default:
					impl.ProcessMessage(fs, &message.Message{Type: msgTypes[i%len(msgTypes)], ID: uint(i + 1), Route: "x.y.z"})
				}
			})
		}
		during(func(i int, after bool) { // new connections keep arriving, some close at once
			if i%8 == 0 {
				fs := &fakeSession{}
				impl.OnSessionCreate(fs)
				if i%16 == 0 {
					impl.OnSessionClose(fs)
				}
			}
		})
		during(func(i int, after bool) { svc.Post(func() { defer p.enter(kPost)() }) })
		during(func(i int, after bool) {
			tm.After(edgeDelays[i%len(edgeDelays)], func(args ...interface{}) { defer p.enter(kTimer)() })
			if i%10 == 0 {
				tm.After(8*time.Millisecond, func(args ...interface{}) { defer p.enter(kTimer)() })
			}
		})
		during(func(i int, after bool) {
			if !direct && i%4 == 0 { // at most 100: the queue is not drained any more
				ec.Publish(svc.localName, i)
			}
			event.GetGlobalEC().Publish(svc.globalName, i)
		})
		during(func(i int, after bool) {
			if i%20 == 0 {
				echo.Post(func() { echo.Request(svcPID, &messages.TestHello{I: 8}, func(error, interface{}) {}) })
			}
		})
		time.Sleep(5 * time.Millisecond)
		if teardown == 1 {
			// as actorex/service.Service.onStop does: stopped by the service itself, which then goes on
			svc.Post(func() {
				defer p.enter(kPost)()
				rs.Stop()
				close(stopped)
				for t0 := time.Now(); time.Since(t0) < 15*time.Millisecond; {
					runtime.Gosched()
				}
			})
		} else {
			rs.Stop()
			close(stopped)
		}
		tdDone := make(chan struct{})
		go func() { twg.Wait(); close(tdDone) }()
		select {
		case <-tdDone:
		case <-time.After(5 * time.Second):
			return stressTerm(false, p)
		}
		time.Sleep(20 * time.Millisecond) // late timers, the loop's last pieces
	}
	return stressTerm(p.maxIn.Load() <= 1, p)
}

func stressTerm(one bool, p *probe) any {
	var off, prod, exec []int64
	for k := 0; k <= nKinds; k++ {
		n := p.offLoop[k].Load()
		if o := p.other; o != nil && k == kTimer {
			for j := 0; j <= nKinds; j++ {
				n += o.offLoop[j].Load()
			}
		}
		if n > 0 {
			off = append(off, 1)
		} else {
			off = append(off, 0)
		}
	}
	for k := 0; k < nKinds; k++ {
		a, b := p.prod[k].Load(), p.exec[k].Load()
		if o := p.other; o != nil {
			a, b = a+o.prod[k].Load(), b+o.exec[k].Load()
		}
		prod, exec = append(prod, a), append(exec, b)
	}
	if o := p.other; o != nil && o.maxIn.Load() > 1 {
		one = false
	}
	return hx.C("EStress", off, one, prod, exec)
}
