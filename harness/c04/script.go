// Package c04 ties property C04 ("all code of one service runs on a single goroutine,
// one piece at a time") to the Go code in two ways:
//
//   - script.go  drives the REAL sche.MultiSelector (and real sche.Sche schedulers
//     registered on it) step by step from one goroutine: channels are created, registered
//     with AddSelector, fed, closed, and HandleOnce is called once per OHandle.  After
//     every operation the selector's bookkeeping (dirty, selectors, cases, runnings,
//     channel lengths) is read white-box through reflect/unsafe and reported together
//     with what happened (which handler ran, with which value, from which channel).
//   - stress.go  measures a running service: see there.
package c04

import (
	"fmt"
	"reflect"
	"time"
	"unsafe"

	"github.com/dfklegend/cell2/utils/sche"

	"verifh/hx"
)

const (
	maxCap      = 999
	callTimeout = 2 * time.Second
)

// calls that never return are deterministic here (a blocked AddSelector); after three of
// them the watchdog stops waiting the full two seconds so that a broken build still gets
// its verdict in reasonable time
var stuckSeen int

func watchdog() time.Duration {
	if stuckSeen >= 3 {
		return 200 * time.Millisecond
	}
	return callTimeout
}

type item struct{ c, v int64 }

type hchan struct {
	plain  chan item
	sc     *sche.Sche
	cap    int
	closed bool
}

func (h *hchan) rv() reflect.Value {
	if h.sc != nil {
		return reflect.ValueOf(h.sc.GetChanTask())
	}
	return reflect.ValueOf(h.plain)
}

func (h *hchan) length() int {
	if h.sc != nil {
		return len(h.sc.GetChanTask())
	}
	return len(h.plain)
}

type ran struct {
	k, c, v int64
	ok      bool
}

type sworld struct {
	ms      *sche.MultiSelector
	chans   []*hchan // index = channel id; chans[0] == nil stands for chanDirt
	selChan []int64  // channel id of selector k
	chanPtr map[uintptr]int64
	last    *ran
	posted  *item
}

func newSWorld() *sworld {
	w := &sworld{ms: sche.NewMultiSelector(), chans: []*hchan{nil}, selChan: []int64{0}, chanPtr: map[uintptr]int64{}}
	w.chanPtr[w.field("chanDirt").Pointer()] = 0
	return w
}

func (w *sworld) field(name string) reflect.Value {
	f := reflect.ValueOf(w.ms).Elem().FieldByName(name)
	if !f.IsValid() {
		panic("c04: sche.MultiSelector has no field " + name + " (white-box snapshot needs updating)")
	}
	return f
}

type snapshot struct {
	dirty    bool
	selChan  []int64
	selOpen  []bool
	cases    []int64
	runnings []int64
	lens     []int64
}

// snap reads the real bookkeeping.  Pointers are mapped back to the ids the script uses:
// a channel is identified by the address of its runtime channel object, a *SelectorData
// by its position in MultiSelector.selectors.
func (w *sworld) snap() snapshot {
	var s snapshot
	s.dirty = w.field("dirty").Bool()
	sels := w.field("selectors")
	selPtr := map[uintptr]int64{}
	for i := 0; i < sels.Len(); i++ {
		p := sels.Index(i)
		selPtr[p.Pointer()] = int64(i)
		d := p.Elem()
		s.selOpen = append(s.selOpen, d.FieldByName("open").Bool())
		cs := *(*sche.IChanSelector)(unsafe.Pointer(d.FieldByName("selector").UnsafeAddr()))
		s.selChan = append(s.selChan, w.chanID(cs.GetChannel().Pointer()))
	}
	cases := *(*[]reflect.SelectCase)(unsafe.Pointer(w.field("cases").UnsafeAddr()))
	for _, c := range cases {
		s.cases = append(s.cases, w.chanID(c.Chan.Pointer()))
	}
	run := w.field("runnings")
	for i := 0; i < run.Len(); i++ {
		id, ok := selPtr[run.Index(i).Pointer()]
		if !ok {
			id = -1
		}
		s.runnings = append(s.runnings, id)
	}
	s.lens = append(s.lens, int64(w.field("chanDirt").Len()))
	for _, h := range w.chans[1:] {
		s.lens = append(s.lens, int64(h.length()))
	}
	return s
}

func (w *sworld) chanID(p uintptr) int64 {
	if id, ok := w.chanPtr[p]; ok {
		return id
	}
	return -1
}

func (s snapshot) term() hx.T {
	sels := []any{}
	for i := range s.selChan {
		sels = append(sels, hx.Pair{A: s.selChan[i], B: s.selOpen[i]})
	}
	return hx.C("Snap", s.dirty, sels, hx.Norm(s.cases), hx.Norm(s.runnings), hx.Norm(s.lens))
}

// wouldBlock: would reflect.Select inside the next HandleOnce find no ready case?  Decided
// from the real bookkeeping: the cases HandleOnce will use are the current ones, or - when
// dirty - one per open selector.
func (w *sworld) wouldBlock(s snapshot) bool {
	var cs []int64
	if s.dirty {
		for i, c := range s.selChan {
			if s.selOpen[i] {
				cs = append(cs, c)
			}
		}
	} else {
		cs = s.cases
	}
	if len(cs) == 0 {
		return false // HandleOnce sleeps 10ms and returns
	}
	for _, c := range cs {
		if c == 0 {
			if s.lens[0] > 0 {
				return false
			}
			continue
		}
		if c > 0 && int(c) < len(w.chans) {
			if h := w.chans[c]; h.closed || h.length() > 0 {
				return false
			}
		}
	}
	return true
}

func (w *sworld) validUser(c int64) bool { return c > 0 && int(c) < len(w.chans) }

// within runs f on its own goroutine and reports how it ended.
const (
	returned = iota
	stuckCall
	panicked
)

func within(f func()) int {
	done := make(chan int, 1)
	go func() {
		defer func() {
			if recover() != nil {
				done <- panicked
			}
		}()
		f()
		done <- returned
	}()
	select {
	case r := <-done:
		return r
	case <-time.After(watchdog()):
		stuckSeen++
		return stuckCall
	}
}

// record decodes whatever a handler was given: a value is identified by the channel it was
// SENT on, so a handler that is run for another selector's channel shows up as such.
func (w *sworld) record(k, c int64, sc *sche.Sche, v reflect.Value, recvOk bool) {
	if !recvOk {
		w.last = &ran{k: k, c: c, ok: false}
		return
	}
	switch x := v.Interface().(type) {
	case item:
		w.last = &ran{k: k, c: x.c, v: x.v, ok: true}
	case *sche.RunTask:
		w.posted = nil
		if sc == nil {
			sc = sche.NewSche() // foreign task: run it anyway to learn where it came from
		}
		sc.DoTask(x)
		if w.posted != nil {
			w.last = &ran{k: k, c: w.posted.c, v: w.posted.v, ok: true}
		} else {
			w.last = &ran{k: k, c: -1, ok: true}
		}
	default:
		w.last = &ran{k: k, c: -1, ok: true}
	}
}

func (w *sworld) register(c int64) int {
	k := int64(len(w.selChan))
	h := w.chans[c]
	// for a scheduler this is the handler runservice.RunService.addSchedulerSelector installs
	// (return on !recvOk, else scheduler.DoTask(task)), plus the recording
	sc := h.sc
	fn := func(v reflect.Value, recvOk bool) { w.record(k, c, sc, v, recvOk) }
	w.selChan = append(w.selChan, c)
	return within(func() { w.ms.AddSelector(fmt.Sprintf("s%d", k), sche.NewFuncSelector(h.rv(), fn)) })
}

func (w *sworld) send(c, v int64) {
	h := w.chans[c]
	if h.sc != nil {
		h.sc.Post(func() { w.posted = &item{c, v} }) // recovers a send on a closed channel itself
		return
	}
	defer func() { recover() }() // send on closed channel
	h.plain <- item{c, v}
}

// execScript runs one script on fresh objects.  It returns the ops (OHandle annotated with
// the selector whose handler ran) and one observation per executed op; a call that does
// not return ends the case with EStuck.
func execScript(ops []hx.T) (outOps []hx.T, obs []any, nontrivial bool) {
	w := newSWorld()
	for _, o := range ops {
		var ev any = "EUnit"
		emit := o
		end := returned
		switch o.Name {
		case "ONewChan":
			n := o.Int(0)
			if n < 1 || n > maxCap {
				ev = "EBad"
				break
			}
			h := &hchan{plain: make(chan item, n), cap: int(n)}
			w.chanPtr[h.rv().Pointer()] = int64(len(w.chans))
			w.chans = append(w.chans, h)
		case "ONewSche":
			h := &hchan{sc: sche.NewSche(), cap: sche.QueueSize}
			w.chanPtr[h.rv().Pointer()] = int64(len(w.chans))
			w.chans = append(w.chans, h)
		case "OAdd":
			c := o.Int(0)
			if !w.validUser(c) {
				ev = "EBad"
				break
			}
			end = w.register(c)
		case "OSend":
			c, v := o.Int(0), o.Int(1)
			if !w.validUser(c) {
				ev = "EBad"
				break
			}
			h := w.chans[c]
			if !h.closed && h.length() >= h.cap {
				ev = "EFull"
				break
			}
			before := h.length()
			if end = within(func() { w.send(c, v) }); end != returned {
				break
			}
			ev = hx.C("ESent", h.length() == before+1)
		case "OClose":
			c := o.Int(0)
			if !w.validUser(c) {
				ev = "EBad"
				break
			}
			h := w.chans[c]
			if h.closed {
				ev = hx.C("EClosed", false)
				break
			}
			if h.sc != nil {
				h.sc.Stop()
			} else {
				close(h.plain)
			}
			h.closed = true
			ev = hx.C("EClosed", true)
		case "OHandle":
			s := w.snap()
			if w.wouldBlock(s) {
				ev = "EIdle"
				emit = hx.C("OHandle", -1)
				break
			}
			w.last = nil
			if end = within(func() { w.ms.HandleOnce() }); end != returned {
				break
			}
			switch {
			case w.last != nil:
				r := w.last
				ev = hx.C("ERan", r.k, r.c, r.v, r.ok)
				emit = hx.C("OHandle", r.k)
				if r.k > 0 {
					nontrivial = true
				}
			case w.ms.LastDoChannelName == "__dirt__" && int64(w.field("chanDirt").Len()) == s.lens[0]-1:
				// the built-in wake-up selector: its handler does nothing; the token is the literal 1
				ev = hx.C("ERan", 0, 0, 1, true)
				emit = hx.C("OHandle", 0)
			default:
				ev = "ESleep"
				emit = hx.C("OHandle", -1)
			}
		case "OStress":
			ev = stressIsolated(o)
			nontrivial = true
		default:
			panic("c04: unknown op " + o.Name)
		}
		outOps = append(outOps, emit)
		if end != returned {
			// the selector may be left locked: the case ends here
			what := "EStuck"
			if end == panicked {
				what = "EPanic"
			}
			obs = append(obs, hx.C("Ob", what, hx.C("Snap", false, []any{}, []any{}, []any{}, []any{})))
			return
		}
		obs = append(obs, hx.C("Ob", ev, w.snap().term()))
	}
	return
}
