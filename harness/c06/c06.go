// Package c06 drives the real pomelo wire codec: message.Encode/Decode, the packet
// encoder/decoder, ParseHeader, SetDictionary and zlib (as the oracle the model consumes).
package c06

import (
	"os"
	"fmt"
	"strings"
	"errors"
	"net"
	"sync"
	"time"
	"sort"

	"github.com/gorilla/websocket"

	"github.com/dfklegend/cell2/pomelonet/common/conn/codec"
	"github.com/dfklegend/cell2/pomelonet/common/conn/message"
	"github.com/dfklegend/cell2/pomelonet/common/conn/packet"
	"github.com/dfklegend/cell2/pomelonet/constants"
	"github.com/dfklegend/cell2/pomelonet/server/acceptor"
	"github.com/dfklegend/cell2/utils/compression"

	"verifh/hx"
)

func errTerm(err error) any {
	switch {
	case errors.Is(err, message.ErrWrongMessageType):
		return hx.C("RErr", "EWrongType")
	case errors.Is(err, message.ErrInvalidMessage):
		return hx.C("RErr", "EInvalid")
	case errors.Is(err, message.ErrRouteInfoNotFound):
		return hx.C("RErr", "ERouteNotFound")
	case errors.Is(err, packet.ErrWrongPomeloPacketType):
		return hx.C("RErr", "EPktType")
	case errors.Is(err, codec.ErrPacketSizeExcced):
		return hx.C("RErr", "EPktSize")
	case errors.Is(err, packet.ErrInvalidPomeloHeader):
		return hx.C("RErr", "EPktHeader")
	}
	return hx.C("RErr", "EInflate") // every other error comes out of zlib
}

func exact(b []int64) []byte { // cap == len, so Go's bounds checks fire exactly at len
	r := make([]byte, len(b))
	for i, v := range b {
		r[i] = byte(v)
	}
	return r
}

func ints(b []byte) []int64 {
	r := make([]int64, len(b))
	for i, v := range b {
		r[i] = int64(v)
	}
	return r
}

func setDict(es []any) error {
	if wedged {
		return errors.New("wedged")
	}
	done := make(chan error, 1)
	go func() { done <- setDict0(es) }()
	select {
	case err := <-done:
		return err
	case <-time.After(10 * time.Second):
		wedged = true
		fmt.Println("c06: SetDictionary did not return within 10s")
		return errors.New("wedged")
	}
}

func setDict0(es []any) error {
	message.VerifResetDictionary()
	d := map[string]uint16{}
	for _, e := range es {
		p := e.(hx.Pair)
		d[string(exact(hx.Ints(p.A)))] = uint16(p.B.(int64))
	}
	return message.SetDictionary(d)
}

func msgTerm(m *message.Message) hx.T {
	return hx.C("mkMsg", int64(m.Type), uint64(m.ID), ints([]byte(m.Route)), ints(m.Data), m.Err)
}

// The server keeps ONE packet decoder / encoder / message encoder for all its sessions
// (pomelonet/server/session.NewSessionConfig), so the harness does too: a value returned by one
// call must stay what it was when later calls are made on the same objects.
var (
	pktDec  = codec.NewPomeloPacketDecoder()
	pktEnc  = codec.NewPomeloPacketEncoder()
	msgEncs = map[bool]message.Encoder{false: message.NewMessagesEncoder(false), true: message.NewMessagesEncoder(true)}
)

// late is a result that is rendered only after ALL ops of the case have run: the property says
// decoding "returns the same packets and the same message", and a returned value that a later
// call overwrites (a reused scratch buffer) is not the same any more.
type late func() any

func guard(f func() any) (out any) {
	defer func() {
		if r := recover(); r != nil {
			out = "RPanic"
		}
	}()
	return f()
}

// wedged: an earlier call never returned (the codec's process-wide dictionary lock is held for
// ever, a decoder loops): nothing of this process can be trusted to return any more.
var wedged bool

// execWatched runs one op under a watchdog: "never loop" is part of the property, so a call that
// does not return is an observation (RPanic: no model result matches it), not a harness hang.
func execWatched(o hx.T) any {
	if wedged {
		return "RPanic"
	}
	limit := 10 * time.Second
	if strings.HasPrefix(o.Name, "OBig") || o.Name == "OSweep" {
		limit = 120 * time.Second
	}
	done := make(chan any, 1)
	go func() { done <- ExecOp(o) }()
	select {
	case r := <-done:
		return r
	case <-time.After(limit):
		wedged = true
		fmt.Printf("c06: %s did not return within %v\n", o.Name, limit)
		return "RPanic"
	}
}

// ExecOp runs one op on the real code.
func ExecOp(o hx.T) any {
	switch o.Name {
	case "OEncMsg":
		if err := setDict(o.List(0)); err != nil {
			if wedged {
				return "RPanic"
			}
			panic("c06: bad dictionary in OEncMsg: " + err.Error())
		}
		mt := o.Term(3)
		m := &message.Message{Type: message.Type(mt.Int(0)), ID: uint(hx.U64(mt.Args[1])), Route: string(exact(mt.Ints(2))), Data: exact(mt.Ints(3)), Err: mt.Bool(4)}
		enc := msgEncs[o.Bool(1)]
		return guard(func() any {
			b, err := enc.Encode(m)
			if err != nil {
				return errTerm(err)
			}
			return late(func() any { return hx.C("RBytes", ints(b)) })
		})
	case "ODecMsg":
		if err := setDict(o.List(0)); err != nil {
			if wedged {
				return "RPanic"
			}
			panic("c06: bad dictionary in ODecMsg: " + err.Error())
		}
		data := exact(o.Ints(2))
		return guard(func() any {
			m, err := message.Decode(data)
			if err != nil {
				return errTerm(err)
			}
			return late(func() any { return hx.C("RMsg", msgTerm(m)) })
		})
	case "OEncPkt":
		return guard(func() any {
			b, err := pktEnc.Encode(packet.Type(o.Int(0)), exact(o.Ints(1)))
			if err != nil {
				return errTerm(err)
			}
			return late(func() any { return hx.C("RBytes", ints(b)) })
		})
	case "OPktHeader":
		return guard(func() any {
			b, err := pktEnc.Encode(packet.Type(o.Int(0)), make([]byte, o.Int(1)))
			if err != nil {
				return errTerm(err)
			}
			if int64(len(b)) != o.Int(1)+4 {
				return hx.C("RBytes", []int64{-1})
			}
			return hx.C("RBytes", ints(b[:4]))
		})
	case "ODecPkts":
		return guard(func() any {
			ps, err := pktDec.Decode(exact(o.Ints(0)))
			if err != nil {
				return errTerm(err)
			}
			return late(func() any {
				l := []any{}
				for _, p := range ps {
					if p.Length != len(p.Data) {
						return "RPanic" // Length field must describe Data
					}
					l = append(l, hx.Pair{A: int64(p.Type), B: hx.Norm(ints(p.Data))})
				}
				return hx.C("RPkts", l)
			})
		})
	case "OParseHeader":
		return guard(func() any {
			size, typ, err := codec.ParseHeader(exact(o.Ints(0)))
			if err != nil {
				return errTerm(err)
			}
			return hx.C("RHdr", int64(size), int64(typ))
		})
	case "OSetDict":
		err := setDict(o.List(0))
		if err != nil {
			return hx.C("RDict", false, []any{})
		}
		d := message.GetDictionary()
		type rc struct {
			r string
			c uint16
		}
		var l []rc
		for r, c := range d {
			l = append(l, rc{r, c})
		}
		sort.Slice(l, func(i, j int) bool { return l[i].c < l[j].c })
		out := []any{}
		for _, e := range l {
			out = append(out, hx.Pair{A: hx.Norm(ints([]byte(e.r))), B: int64(e.c)})
		}
		return hx.C("RDict", true, out)
	case "OFramed":
		return framed(o.List(0))
	case "OWsFramed":
		return wsFramed(o.List(0))
	case "OBigFrame":
		return bigFrame(o.Bool(0), o.Int(1), o.Int(2))
	case "OBigMsg":
		return bigMsg(o.Bool(0), o.Int(1), o.Int(2))
	case "OSweep":
		return hx.C("RSweep", sweep(int(o.Int(0))))
	}
	panic("c06: unknown op " + o.Name)
}

var (
	accOnce sync.Once
	acc     *acceptor.TCPAcceptor
)

// framed: a real TCP connection accepted by the real TCPAcceptor; the peer writes the
// chunks one by one (with a pause, so that each chunk is its own segment / Read), then
// closes; the server side calls GetNextMessage until it fails.
func framed(chunks []any) any {
	bs := [][]byte{}
	for _, ch := range chunks {
		bs = append(bs, exact(hx.Ints(ch)))
	}
	return guard(func() any {
		ms, end := framedRaw(bs, 3*time.Millisecond)
		l := []any{}
		for _, m := range ms {
			l = append(l, hx.Norm(ints(m)))
		}
		return hx.C("RFrames", l, end)
	})
}

func framedRaw(chunks [][]byte, pause time.Duration) ([][]byte, any) {
	accOnce.Do(func() {
		acc = acceptor.NewTCPAcceptor("127.0.0.1:0")
		go acc.ListenAndServe()
		for i := 0; i < 2000 && acc.GetAddr() == ""; i++ {
			time.Sleep(time.Millisecond)
		}
	})
	c, err := net.Dial("tcp", acc.GetAddr())
	if err != nil {
		panic("c06: dial: " + err.Error())
	}
	if tc, ok := c.(*net.TCPConn); ok {
		tc.SetNoDelay(true)
	}
	pc := <-acc.GetConnChan()
	go func() {
		for _, b := range chunks {
			if len(b) > 0 {
				c.Write(b)
				time.Sleep(pause)
			}
		}
		c.Close()
	}()
	ms := [][]byte{}
	for {
		pc.SetReadDeadline(time.Now().Add(5 * time.Second))
		b, err := pc.GetNextMessage()
		if err != nil {
			pc.Close()
			var end any
			switch {
			case errors.Is(err, constants.ErrConnectionClosed):
				end = "FClosed"
			case errors.Is(err, constants.ErrReceivedMsgSmallerThanExpected):
				end = "FShortBody"
			case errors.Is(err, packet.ErrInvalidPomeloHeader):
				end = hx.C("FBad", "EPktHeader")
			case errors.Is(err, packet.ErrWrongPomeloPacketType):
				end = hx.C("FBad", "EPktType")
			case errors.Is(err, codec.ErrPacketSizeExcced):
				end = hx.C("FBad", "EPktSize")
			default:
				end = "FFuel" // timeout or an error the model does not know
			}
			return ms, end
		}
		ms = append(ms, b)
	}
}

// bigFrame: one packet of type t with a body of n bytes (a fixed pattern), encoded by the real
// encoder, sent over a live websocket (ws) or TCP connection to the real acceptor and read with
// GetNextMessage.  Only a summary is compared (handed up intact: yes/no), so that bodies up to
// the 16 MiB limit can be driven without printing them.
func bigFrame(ws bool, t, n int64) any {
	return guard(func() any {
		body := make([]byte, n)
		for i := range body {
			body[i] = byte(i*7 + 3)
		}
		b, err := pktEnc.Encode(packet.Type(t), body)
		if err != nil {
			return errTerm(err)
		}
		var got [][]byte
		if ws {
			got, _ = wsFramedRaw([][]byte{b})
		} else {
			got, _ = framedRaw([][]byte{b}, 0)
		}
		return hx.C("RBig", len(got) == 1 && string(got[0]) == string(b))
	})
}

// bigMsg: a request (id 300, route "a.b.c" spelled out) with a payload of n bytes - kind 0: a
// run of equal bytes, kind 1: a 251-periodic ramp, both highly compressible - through the whole
// wire path: message Encode (compression as given), packet Encode, packet Decode, message Decode.
// Only a summary is compared (every carried field came back: yes/no), so that payloads far above
// the 16 MiB packet limit (they deflate to a few KiB) can be driven.
func bigMsg(compress bool, kind, n int64) any {
	return guard(func() any {
		message.VerifResetDictionary()
		data := make([]byte, n)
		for i := range data {
			if kind == 0 {
				data[i] = 0x41
			} else {
				data[i] = byte(i % 251)
			}
		}
		m := &message.Message{Type: message.Request, ID: 300, Route: "a.b.c", Data: data}
		b, err := msgEncs[compress].Encode(m)
		if err != nil {
			return errTerm(err)
		}
		p, err := pktEnc.Encode(packet.Data, b)
		if err != nil {
			return errTerm(err)
		}
		ps, err := pktDec.Decode(p)
		if err != nil {
			return errTerm(err)
		}
		if len(ps) != 1 || ps[0].Type != packet.Data {
			return hx.C("RBig", false)
		}
		d, err := message.Decode(ps[0].Data)
		if err != nil {
			return errTerm(err)
		}
		return hx.C("RBig", d.Type == message.Request && d.ID == 300 && d.Route == "a.b.c" && !d.Err && string(d.Data) == string(data))
	})
}

var (
	wsOnce sync.Once
	wsAcc  *acceptor.WSAcceptor
)

// wsFramed: a real websocket connection upgraded by the real WSAcceptor; the peer sends the
// messages one by one (a small write buffer, so that larger ones travel as several
// continuation frames; every third one as a text message), then closes; the server side
// calls WSConn.GetNextMessage until it fails.
func wsFramed(msgs []any) any {
	bs := [][]byte{}
	for _, m := range msgs {
		bs = append(bs, exact(hx.Ints(m)))
	}
	return guard(func() any {
		ms, end := wsFramedRaw(bs)
		l := []any{}
		for _, m := range ms {
			l = append(l, hx.Norm(ints(m)))
		}
		return hx.C("RWs", l, end)
	})
}

func wsFramedRaw(msgs [][]byte) ([][]byte, any) {
	wsOnce.Do(func() {
		wsAcc = acceptor.NewWSAcceptor("127.0.0.1:0")
		go wsAcc.ListenAndServe()
		for i := 0; i < 2000 && wsAcc.GetAddr() == ""; i++ {
			time.Sleep(time.Millisecond)
		}
	})
	wb := 64
	if len(msgs) == 1 && len(msgs[0]) > 1<<20 {
		wb = 1 << 16
	}
	d := websocket.Dialer{WriteBufferSize: wb, HandshakeTimeout: 3 * time.Second}
	c, _, err := d.Dial("ws://"+wsAcc.GetAddr()+"/", nil)
	if err != nil {
		panic("c06: ws dial: " + err.Error())
	}
	pc := <-wsAcc.GetConnChan()
	go func() {
		for i, m := range msgs {
			typ := websocket.BinaryMessage
			if i%3 == 2 {
				typ = websocket.TextMessage
			}
			c.WriteMessage(typ, m)
		}
		c.WriteControl(websocket.CloseMessage, websocket.FormatCloseMessage(websocket.CloseNormalClosure, ""), time.Now().Add(time.Second))
		time.Sleep(2 * time.Millisecond)
		c.Close()
	}()
	ms := [][]byte{}
	for {
		pc.SetReadDeadline(time.Now().Add(5 * time.Second))
		b, err := pc.GetNextMessage()
		if err != nil {
			pc.Close()
			var ne net.Error
			var end any
			switch {
			case errors.Is(err, constants.ErrReceivedMsgSmallerThanExpected):
				end = hx.C("Some", "WShort")
			case errors.Is(err, constants.ErrReceivedMsgBiggerThanExpected):
				end = hx.C("Some", "WBig")
			case errors.Is(err, packet.ErrInvalidPomeloHeader):
				end = hx.C("Some", hx.C("WBad", "EPktHeader"))
			case errors.Is(err, packet.ErrWrongPomeloPacketType):
				end = hx.C("Some", hx.C("WBad", "EPktType"))
			case errors.Is(err, codec.ErrPacketSizeExcced):
				end = hx.C("Some", hx.C("WBad", "EPktSize"))
			case errors.As(err, &ne) && ne.Timeout():
				end = hx.C("Some", hx.C("WBad", "EFuel")) // nothing arrived: not a behaviour of the model
			default:
				end = "None" // the peer's close frame / end of stream
			}
			return ms, end
		}
		ms = append(ms, b)
	}
}

// sweep feeds every byte string of length <= k to the three decoders and counts panics.
func sweep(k int) int64 {
	message.VerifResetDictionary()
	message.SetDictionary(map[string]uint16{"a.b.c": 1, "x": 258})
	var panics int64
	dec := codec.NewPomeloPacketDecoder()
	try := func(b []byte) {
		defer func() {
			if r := recover(); r != nil {
				panics++
			}
		}()
		message.Decode(b)
		dec.Decode(b)
		codec.ParseHeader(b)
	}
	buf := make([]byte, k)
	var rec func(d, n int)
	rec = func(d, n int) {
		if d == n {
			c := make([]byte, n)
			copy(c, buf[:n])
			try(c)
			return
		}
		for v := 0; v < 256; v++ {
			buf[d] = byte(v)
			rec(d+1, n)
		}
	}
	for n := 0; n <= k; n++ {
		rec(0, n)
	}
	return panics
}

// inflTable asks the real zlib what InflateData returns for every suffix of data.
func inflTable(data []byte) []any {
	out := []any{}
	if len(data) == 0 || data[0]&0x10 == 0 {
		return out
	}
	for o := 1; o <= len(data); o++ {
		r, err := compression.InflateData(data[o:])
		if err != nil {
			out = append(out, hx.Pair{A: int64(o), B: "None"})
		} else {
			out = append(out, hx.Pair{A: int64(o), B: hx.C("Some", ints(r))})
		}
	}
	return out
}

// ---------------------------------------------------------------- generators

var dicts = [][]any{
	{},
	{hx.Pair{A: hx.Norm(ints([]byte("a.b.c"))), B: int64(1)}, hx.Pair{A: hx.Norm(ints([]byte("chat.room.say"))), B: int64(258)}, hx.Pair{A: hx.Norm(ints([]byte(""))), B: int64(65535)}},
}

func randBytes(cfg *hx.Config, n int) []byte {
	b := make([]byte, n)
	for i := range b {
		switch cfg.Rng.Intn(4) {
		case 0:
			b[i] = byte(cfg.Rng.Intn(4))
		case 1:
			b[i] = byte(0x78 + cfg.Rng.Intn(16))
		default:
			b[i] = byte(cfg.Rng.Intn(256))
		}
	}
	return b
}

func randID(cfg *hx.Config) uint64 {
	r := cfg.Rng
	switch r.Intn(8) {
	case 0:
		return 0
	case 1:
		return uint64(r.Intn(300))
	case 2: // around 7-bit group boundaries
		return (uint64(1) << uint(7*(1+r.Intn(9)))) - uint64(r.Intn(2))
	case 3:
		return ^uint64(0) - uint64(r.Intn(2))
	case 4:
		return uint64(1)<<63 + uint64(r.Intn(3))
	default:
		return r.Uint64() >> uint(r.Intn(64))
	}
}

func randRoute(cfg *hx.Config) []byte {
	r := cfg.Rng
	switch r.Intn(10) {
	case 0:
		return []byte("a.b.c")
	case 1:
		return []byte("chat.room.say")
	case 2:
		return []byte{}
	case 3:
		return randBytes(cfg, 255)
	case 4:
		return randBytes(cfg, 254)
	default:
		return randBytes(cfg, r.Intn(24))
	}
}

func randPayload(cfg *hx.Config) []byte {
	r := cfg.Rng
	switch r.Intn(8) {
	case 0:
		return []byte{}
	case 6, 7: // a payload that is itself a complete zlib stream (must travel untouched)
		inner := randBytes(cfg, r.Intn(30))
		if r.Intn(2) == 0 {
			inner = []byte("hello pomelo hello pomelo hello pomelo hello pomelo")
		}
		d, err := compression.DeflateData(inner)
		if err != nil {
			panic(err)
		}
		return d
	case 1: // compressible
		n := 20 + r.Intn(300)
		b := make([]byte, n)
		for i := range b {
			b[i] = byte('a' + (i/7)%3)
		}
		return b
	default:
		return randBytes(cfg, r.Intn(40))
	}
}

func encMsgOp(cfg *hx.Config, tags map[string]bool) (hx.T, []byte) {
	r := cfg.Rng
	es := dicts[r.Intn(len(dicts))]
	typ := int64(r.Intn(4))
	if r.Intn(25) == 0 {
		typ = int64(4 + r.Intn(252))
		tags["enc-bad-type"] = true
	}
	route := randRoute(cfg)
	if r.Intn(30) == 0 {
		route = randBytes(cfg, 256+r.Intn(50)) // beyond the protocol limit: model predicts the truncation
		tags["route>255"] = true
	}
	data := randPayload(cfg)
	compress := r.Intn(2) == 0
	defl := []byte{}
	if compress {
		d, err := compression.DeflateData(data)
		if err != nil {
			panic(err)
		}
		defl = d
		if len(d) < len(data) {
			tags["gzip-used"] = true
		}
	}
	if compression.IsCompressed(data) {
		tags["payload-is-zlib-stream"] = true
	}
	id := randID(cfg)
	m := hx.C("mkMsg", typ, id, ints(route), ints(data), r.Intn(3) == 0)
	op := hx.C("OEncMsg", es, compress, ints(defl), m)
	// also produce the bytes for the decode stream
	var enc []byte
	res := execWatched(op)
	if l, ok := res.(late); ok {
		res = l()
	}
	if out, ok := res.(hx.T); ok && out.Name == "RBytes" {
		enc = exact(out.Ints(0))
	}
	return op, enc
}

func decMsgOp(es []any, data []byte) hx.T {
	setDict(es)
	return hx.C("ODecMsg", es, inflTable(data), ints(data))
}

func corrupt(cfg *hx.Config, b []byte, tags map[string]bool) []byte {
	r := cfg.Rng
	c := append([]byte{}, b...)
	if len(c) == 0 {
		return c
	}
	switch r.Intn(5) {
	case 0:
		tags["truncate"] = true
		return c[:r.Intn(len(c))]
	case 1:
		tags["flip-flag"] = true
		c[0] ^= byte(1 << uint(r.Intn(8)))
	case 2:
		tags["flip-byte"] = true
		c[r.Intn(len(c))] ^= byte(1 + r.Intn(255))
	case 3:
		tags["unterminated-id"] = true
		for i := 1; i < len(c) && i < 12; i++ {
			c[i] |= 0x80
		}
	default:
		tags["extend"] = true
		c = append(c, randBytes(cfg, 1+r.Intn(4))...)
	}
	return c
}

func pktStream(cfg *hx.Config, tags map[string]bool) []byte {
	r := cfg.Rng
	var out []byte
	for n := r.Intn(4); n >= 0; n-- {
		body := randBytes(cfg, r.Intn(12))
		b, _ := codec.NewPomeloPacketEncoder().Encode(packet.Type(1+r.Intn(5)), body)
		out = append(out, b...)
	}
	switch r.Intn(6) {
	case 0:
		tags["pkt-partial-tail"] = true
		b, _ := codec.NewPomeloPacketEncoder().Encode(packet.Data, randBytes(cfg, 6+r.Intn(6)))
		out = append(out, b[:1+r.Intn(len(b)-1)]...)
	case 1:
		tags["pkt-bad-type"] = true
		out = append(out, byte(6+r.Intn(200)), 0, 0, 1, 9)
	case 2:
		tags["pkt-corrupt"] = true
		out = corrupt(cfg, out, map[string]bool{})
	case 3:
		tags["pkt-length-lie"] = true
		if len(out) >= 4 {
			out[1+r.Intn(3)] ^= byte(1 + r.Intn(255))
		}
	}
	return out
}

func tagList(m map[string]bool) []string {
	var l []string
	for t := range m {
		l = append(l, t)
	}
	sort.Strings(l)
	return l
}

func emit(cfg *hx.Config, kind string, ops []hx.T, tags map[string]bool) {
	obs := make([]any, len(ops))
	nt := false
	for i, o := range ops {
		obs[i] = execWatched(o)
	}
	for i := range obs {
		if l, ok := obs[i].(late); ok {
			obs[i] = guard(l)
		}
		if t, ok := obs[i].(hx.T); ok && (t.Name == "RMsg" || t.Name == "RBytes" || t.Name == "RPkts" || t.Name == "RHdr" || t.Name == "RDict" || t.Name == "RFrames") {
			nt = true
		}
	}
	cfg.Emit(hx.Case{Kind: kind, Ops: ops, Obs: obs, Nontrivial: nt, Tags: tagList(tags)})
	if wedged {
		// the case that wedged the process has been emitted (its observation is unmatchable);
		// nothing after it would be meaningful
		wedgedCases++
		if wedgedCases >= 3 {
			cfg.Close()
			os.Exit(0)
		}
	}
}

var wedgedCases int

func Run(cfg *hx.Config) error {
	if cfg.In != "" {
		cs, err := hx.ReadCases(cfg.In)
		if err != nil {
			return err
		}
		for _, c := range cs {
			emit(cfg, "replay", hx.Terms(c.Ops), nil)
		}
		return nil
	}
	r := cfg.Rng
	// exhaustive: every byte string of length <= 1, and (quick) a stride of the 2-byte ones,
	// through the message decoder with model comparison
	for n := 0; n <= 1; n++ {
		for v := 0; v < 256; v++ {
			b := []byte{}
			if n == 1 {
				b = []byte{byte(v)}
			} else if v > 0 {
				break
			}
			emit(cfg, "exhaustive-1", []hx.T{decMsgOp(dicts[1], b), hx.C("ODecPkts", ints(b)), hx.C("OParseHeader", ints(b))}, nil)
		}
	}
	stride := 37
	if cfg.Tier == "thorough" {
		stride = 1
	}
	for v := 0; v < 65536; v += stride {
		b := []byte{byte(v >> 8), byte(v)}
		emit(cfg, "exhaustive-2", []hx.T{decMsgOp(dicts[1], b)}, nil)
	}
	// exhaustive no-panic sweep (monitor-level: only the panic count is compared)
	k := 2
	if cfg.Tier == "thorough" {
		k = 3
	}
	emit(cfg, "sweep", []hx.T{hx.C("OSweep", k)}, map[string]bool{"sweep": true})
	// 16 MiB boundary
	for _, n := range []int64{0, 1, 255, 256, 65535, 65536, 1<<24 - 1, 1 << 24, 1<<24 + 1} {
		emit(cfg, "pkt-boundary", []hx.T{hx.C("OPktHeader", int64(4), n), hx.C("OPktHeader", int64(0), n), hx.C("OPktHeader", int64(6), n)}, map[string]bool{"pkt-boundary": true})
	}
	// dictionary
	for i := 0; i < 12; i++ {
		es := []any{}
		seen := map[string]bool{}
		for j := r.Intn(5); j >= 0; j-- {
			rt := string(randBytes(cfg, 1+r.Intn(3)))
			if seen[rt] || rt != string([]byte(rt)) || len(rt) != len(trim(rt)) {
				continue
			}
			seen[rt] = true
			es = append(es, hx.Pair{A: hx.Norm(ints([]byte(rt))), B: int64(r.Intn(4))})
		}
		emit(cfg, "dict", []hx.T{hx.C("OSetDict", es)}, map[string]bool{"dict": true})
	}
	// TCP framing: a packet stream cut at every offset of its first packets (incl. inside
	// headers), and random cuts
	nfr := 40
	if cfg.Tier == "thorough" {
		nfr = 400
	}
	for i := 0; i < nfr; i++ {
		tags := map[string]bool{"framed": true}
		st := pktStream(cfg, tags)
		var chunks [][]byte
		if i < 14 && len(st) > i {
			chunks = [][]byte{st[:i], st[i:]}
			if i >= 1 && i <= 3 {
				tags["cut-inside-header"] = true
			}
		} else {
			rest := st
			for len(rest) > 0 && len(chunks) < 4 {
				k := 1 + r.Intn(len(rest))
				chunks = append(chunks, rest[:k])
				rest = rest[k:]
			}
			if len(rest) > 0 {
				chunks = append(chunks, rest)
			}
		}
		cl := []any{}
		for _, ch := range chunks {
			cl = append(cl, hx.Norm(ints(ch)))
		}
		emit(cfg, "framed", []hx.T{hx.C("OFramed", cl)}, tags)
	}
	// packets up to the 16 MiB limit over both transports (summary comparison)
	bigs := []int64{0, 65535, 65536, 1<<24 - 2, 1<<24 - 1}
	if cfg.Tier == "thorough" {
		bigs = []int64{0, 1, 4095, 4096, 65535, 65536, 1 << 20, 1<<24 - 5, 1<<24 - 4, 1<<24 - 3, 1<<24 - 2, 1<<24 - 1, 1 << 24}
	}
	for _, n := range bigs {
		emit(cfg, "big-frame", []hx.T{hx.C("OBigFrame", true, int64(4), n), hx.C("OBigFrame", false, int64(4), n)}, map[string]bool{"big-frame": true})
	}
	// payloads around and far above 16 MiB with compression on (the packet limit applies to the
	// deflated body, not to the payload), and just below the limit with compression off
	bm := [][3]int64{{1, 0, 1 << 24}, {1, 1, 1<<24 + 1}, {1, 0, 20 << 20}, {0, 1, 1<<24 - 10}, {0, 0, 1<<24 - 9}}
	if cfg.Tier == "thorough" {
		bm = append(bm, [3]int64{1, 1, 1<<24 - 1}, [3]int64{1, 0, 1<<24 + 1}, [3]int64{1, 1, 40 << 20}, [3]int64{1, 0, 64 << 20}, [3]int64{0, 0, 1<<24 - 64}, [3]int64{0, 1, 1 << 24})
	}
	for _, c := range bm {
		emit(cfg, "big-msg", []hx.T{hx.C("OBigMsg", c[0] == 1, c[1], c[2])}, map[string]bool{"big-msg": true})
	}
	// results of earlier calls must survive later calls on the same decoder / encoder objects
	nre := 20
	if cfg.Tier == "thorough" {
		nre = 200
	}
	for i := 0; i < nre; i++ {
		tags := map[string]bool{"held-results": true}
		var ops []hx.T
		for n := 2 + r.Intn(3); n > 0; n-- {
			switch r.Intn(3) {
			case 0:
				ops = append(ops, hx.C("ODecPkts", ints(pktStream(cfg, map[string]bool{}))))
			case 1:
				op, enc := encMsgOp(cfg, tags)
				ops = append(ops, op)
				if enc != nil {
					ops = append(ops, decMsgOp(op.List(0), enc))
				}
			default:
				ops = append(ops, hx.C("OEncPkt", int64(1+r.Intn(5)), ints(randBytes(cfg, r.Intn(24)))))
			}
		}
		emit(cfg, "held-results", ops, tags)
	}
	// websocket framing: one packet per message; a message that is short, long, headerless or
	// of a bad type ends the input
	nws := 30
	if cfg.Tier == "thorough" {
		nws = 300
	}
	for i := 0; i < nws; i++ {
		tags := map[string]bool{"ws-framed": true}
		ml := []any{}
		for n := r.Intn(5); n >= 0; n-- {
			sz := r.Intn(12)
			if r.Intn(8) == 0 {
				sz = 60 + r.Intn(3000) // several continuation frames
				tags["ws-fragmented"] = true
			}
			b, _ := codec.NewPomeloPacketEncoder().Encode(packet.Type(1+r.Intn(5)), randBytes(cfg, sz))
			ml = append(ml, hx.Norm(ints(b)))
		}
		var bad []byte
		switch i % 7 {
		case 0:
			tags["ws-short-body"] = true
			b, _ := codec.NewPomeloPacketEncoder().Encode(packet.Data, randBytes(cfg, 2+r.Intn(6)))
			bad = b[:4+r.Intn(len(b)-4)]
		case 1:
			tags["ws-long-body"] = true
			b, _ := codec.NewPomeloPacketEncoder().Encode(packet.Data, randBytes(cfg, r.Intn(6)))
			bad = append(b, randBytes(cfg, 1+r.Intn(4))...)
		case 2:
			tags["ws-no-header"] = true
			bad = randBytes(cfg, r.Intn(4))
		case 3:
			tags["ws-bad-type"] = true
			bad = []byte{byte(6 + r.Intn(200)), 0, 0, 1, 9}
		case 4:
			tags["ws-two-packets-in-one"] = true
			b, _ := codec.NewPomeloPacketEncoder().Encode(packet.Data, randBytes(cfg, r.Intn(6)))
			bad = append(append([]byte{}, b...), b...)
		}
		if bad != nil {
			at := r.Intn(len(ml) + 1)
			ml = append(ml[:at:at], append([]any{hx.Norm(ints(bad))}, ml[at:]...)...)
		}
		emit(cfg, "ws-framed", []hx.T{hx.C("OWsFramed", ml)}, tags)
	}
	for i := 0; i < cfg.N; i++ {
		tags := map[string]bool{}
		var ops []hx.T
		switch i % 4 {
		case 0, 1: // valid encode, decode of the result, decode of a corruption of it
			op, enc := encMsgOp(cfg, tags)
			ops = append(ops, op)
			es := op.List(0)
			if enc != nil {
				ops = append(ops, decMsgOp(es, enc))
				ops = append(ops, decMsgOp(es, corrupt(cfg, enc, tags)))
				// framed as a packet
				if len(enc) < 200 {
					ops = append(ops, hx.C("OEncPkt", int64(4), ints(enc)))
				}
			}
		case 2: // malformed stream
			b := randBytes(cfg, r.Intn(16))
			if len(b) > 0 && r.Intn(2) == 0 {
				b[0] &= 0x3F
			}
			tags["random-bytes"] = true
			ops = append(ops, decMsgOp(dicts[r.Intn(2)], b), hx.C("ODecPkts", ints(b)), hx.C("OParseHeader", ints(randBytes(cfg, 3+r.Intn(3)))))
		default: // packet streams
			s := pktStream(cfg, tags)
			ops = append(ops, hx.C("ODecPkts", ints(s)))
			ops = append(ops, hx.C("OEncPkt", int64(r.Intn(8)), ints(randBytes(cfg, r.Intn(20)))))
		}
		emit(cfg, "random", ops, tags)
	}
	return nil
}

func trim(s string) string {
	i, j := 0, len(s)
	for i < j && isSpace(s[i]) {
		i++
	}
	for j > i && isSpace(s[j-1]) {
		j--
	}
	return s[i:j]
}

func isSpace(c byte) bool {
	return c == ' ' || c == '\t' || c == '\n' || c == '\v' || c == '\f' || c == '\r' || c == 0x85 || c == 0xA0 || c >= 0x80
}
