// Package c09ring drives the two real queues under the actor mailbox:
// actorex/queue/goring (user mailbox ring buffer) and actorex/queue/mpsc (system mailbox),
// sequentially op by op (differential against the Coq models) and under concurrent
// producers (stress observables: per-producer order kept, nothing lost).
package c09ring

import (
	"fmt"
	"runtime"
	"sort"
	"sync"
	"sync/atomic"

	"github.com/dfklegend/cell2/actorex/queue/goring"
	"github.com/dfklegend/cell2/actorex/queue/mpsc"

	"verifh/hx"
)

func opt(v interface{}) any {
	if v == nil {
		return "None"
	}
	if x, ok := v.(int64); ok {
		return hx.C("Some", x)
	}
	return hx.C("Some", int64(-999999)) // foreign value: can never agree
}

func stressOK(np, nv int64) bool { return np >= 1 && np <= 16 && nv >= 0 && nv <= 20000 }

// consumer-side bookkeeping shared by both stress runs
type tally struct {
	last    []int64
	count   []int64
	orderOK bool
}

func newTally(np int64) *tally {
	t := &tally{last: make([]int64, np), count: make([]int64, np), orderOK: true}
	for i := range t.last {
		t.last[i] = -1
	}
	return t
}

func (t *tally) see(v interface{}) {
	x, ok := v.(int64)
	if !ok {
		t.orderOK = false
		return
	}
	p, i := x>>32, x&0xffffffff
	if p < 0 || p >= int64(len(t.last)) {
		t.orderOK = false
		return
	}
	if i <= t.last[p] {
		t.orderOK = false
	}
	t.last[p] = i
	t.count[p]++
}

func (t *tally) complete(nv int64) bool {
	for _, c := range t.count {
		if c != nv {
			return false
		}
	}
	return true
}

func producers(np, nv int64, push func(interface{})) *int32 {
	var wg sync.WaitGroup
	var done int32
	for p := int64(0); p < np; p++ {
		wg.Add(1)
		go func(p int64) {
			defer wg.Done()
			for i := int64(0); i < nv; i++ {
				push(p<<32 | i)
				if i%37 == p {
					runtime.Gosched()
				}
			}
		}(p)
	}
	go func() { wg.Wait(); atomic.StoreInt32(&done, 1) }()
	return &done
}

// np producers x nv values, one consumer.  The consumer stops when it sees the queue empty
// AFTER all producers had returned (the done flag is read before the Pop).
func stressMpsc(np, nv int64) (bool, bool) {
	q := mpsc.New()
	t := newTally(np)
	done := producers(np, nv, q.Push)
	for {
		d := atomic.LoadInt32(done) == 1
		v := q.Pop()
		if v == nil {
			if d {
				break
			}
			runtime.Gosched()
			continue
		}
		t.see(v)
	}
	return t.orderOK, t.complete(nv)
}

func stressRing(np, nv, n0 int64) (bool, bool) {
	q := goring.New(n0)
	t := newTally(np)
	done := producers(np, nv, q.Push)
	for it := 0; ; it++ {
		d := atomic.LoadInt32(done) == 1
		if it%3 == 2 {
			vs, ok := q.PopMany(5)
			if ok {
				for _, v := range vs {
					t.see(v)
				}
				continue
			}
		} else {
			v, ok := q.Pop()
			if ok {
				t.see(v)
				continue
			}
		}
		if d {
			break
		}
		runtime.Gosched()
	}
	return t.orderOK, t.complete(nv)
}

// Exec runs one op list against fresh real queues and returns the observations.
func Exec(ops []hx.T) (obs []any, nontrivial bool, tags []string) {
	q := goring.New(10)
	m := mpsc.New()
	tg := map[string]bool{}
	// shadow of capacity/head only to label the distribution (never compared)
	shCap, shHead := int64(10), int64(0)
	one := func(o hx.T) (b any, panicked bool) {
		defer func() {
			if r := recover(); r != nil {
				b, panicked = "BPanic", true
			}
		}()
		switch o.Name {
		case "ONew":
			n := o.Int(0)
			if n < 1 {
				tg["skip"] = true
				return "BSkip", false
			}
			q = goring.New(n)
			shCap, shHead = n, 0
			return "BUnit", false
		case "OPush":
			if q.Length() == shCap-1 {
				tg[fmt.Sprintf("grow@%d", shCap)] = true
				if shHead != 0 {
					tg["grow-wrapped"] = true
				}
				shCap, shHead = shCap*2, 0
			}
			q.Push(o.Int(0))
			return "BUnit", false
		case "OPop":
			v, ok := q.Pop()
			if ok {
				nontrivial = true
				shHead = (shHead + 1) % shCap
			} else {
				tg["pop-empty"] = true
			}
			return hx.C("BPop", opt(v), ok), false
		case "OPopMany":
			k := o.Int(0)
			if k < 0 {
				tg["skip"] = true
				return "BSkip", false
			}
			l := q.Length()
			switch {
			case l == 0:
				tg["popmany-empty"] = true
			case k == 0:
				tg["popmany-0"] = true
			case k > l:
				tg["popmany>len"] = true
			case k == l:
				tg["popmany=len"] = true
			default:
				tg["popmany<len"] = true
			}
			vs, ok := q.PopMany(k)
			out := make([]any, len(vs))
			for i, v := range vs {
				out[i] = opt(v)
			}
			if len(vs) > 0 {
				nontrivial = true
				shHead = (shHead + int64(len(vs))) % shCap
			}
			return hx.C("BMany", out, ok), false
		case "OLen":
			return hx.C("BLen", q.Length()), false
		case "OStress":
			np, nv, n0 := o.Int(0), o.Int(1), o.Int(2)
			if !stressOK(np, nv) || n0 < 1 {
				tg["skip"] = true
				return "BSkip", false
			}
			a, b := stressRing(np, nv, n0)
			nontrivial = true
			tg["stress-ring"] = true
			return hx.C("BStress", a, b), false
		case "MNew":
			m = mpsc.New()
			return "BUnit", false
		case "MPush":
			m.Push(o.Int(0))
			return "BUnit", false
		case "MPop":
			v := m.Pop()
			if v != nil {
				nontrivial = true
				tg["mpsc-pop"] = true
			} else {
				tg["mpsc-pop-empty"] = true
			}
			return hx.C("BMPop", opt(v)), false
		case "MEmpty":
			return hx.C("BEmpty", m.Empty()), false
		case "MStress":
			np, nv := o.Int(0), o.Int(1)
			if !stressOK(np, nv) {
				tg["skip"] = true
				return "BSkip", false
			}
			a, b := stressMpsc(np, nv)
			nontrivial = true
			tg["stress-mpsc"] = true
			return hx.C("BStress", a, b), false
		}
		panic("c09ring: unknown op " + o.Name)
	}
	for _, o := range ops {
		switch o.Name {
		case "ONew", "OPush", "OPop", "OPopMany", "OLen", "OStress", "MNew", "MPush", "MPop", "MEmpty", "MStress":
		default:
			panic("c09ring: unknown op " + o.Name)
		}
		b, p := one(o)
		obs = append(obs, b)
		if p {
			// a panic inside Push/Pop leaves the mutex held: nothing more can be observed
			tg["panic"] = true
			break
		}
	}
	for t := range tg {
		tags = append(tags, t)
	}
	sort.Strings(tags)
	return
}

// ---- generators ----

type builder struct {
	ops  []hx.T
	next int64
}

func (b *builder) push()          { b.next++; b.ops = append(b.ops, hx.C("OPush", b.next)) }
func (b *builder) mpush()         { b.next++; b.ops = append(b.ops, hx.C("MPush", b.next)) }
func (b *builder) add(o hx.T)     { b.ops = append(b.ops, o) }
func (b *builder) pop()           { b.add(hx.C("OPop")) }
func (b *builder) popMany(k int64) { b.add(hx.C("OPopMany", k)) }

// every sequence of length L over {Push, Pop, PopMany 2} from capacity n0, then observe the rest
func enumRing(n0 int64, L int, emit func([]hx.T)) {
	cur := make([]int, L)
	var rec func(d int)
	rec = func(d int) {
		if d == L {
			b := &builder{}
			b.add(hx.C("ONew", n0))
			for _, a := range cur {
				switch a {
				case 0:
					b.push()
				case 1:
					b.pop()
				default:
					b.popMany(2)
				}
			}
			b.add(hx.C("OLen"))
			b.popMany(1000)
			b.pop()
			emit(b.ops)
			return
		}
		for a := 0; a < 3; a++ {
			cur[d] = a
			rec(d + 1)
		}
	}
	rec(0)
}

func enumMpsc(L int, emit func([]hx.T)) {
	cur := make([]int, L)
	var rec func(d int)
	rec = func(d int) {
		if d == L {
			b := &builder{}
			n := 0
			for _, a := range cur {
				switch a {
				case 0:
					b.mpush()
					n++
				case 1:
					b.add(hx.C("MPop"))
				default:
					b.add(hx.C("MEmpty"))
				}
			}
			for i := 0; i <= n; i++ {
				b.add(hx.C("MPop"))
			}
			b.add(hx.C("MEmpty"))
			emit(b.ops)
			return
		}
		for a := 0; a < 3; a++ {
			cur[d] = a
			rec(d + 1)
		}
	}
	rec(0)
}

// fill to exactly `total` items starting from capacity n0 with the head rotated by `rot`,
// then drain in the given mode
func boundaryCase(n0, rot, total int64, mode int) []hx.T {
	b := &builder{}
	b.add(hx.C("ONew", n0))
	for i := int64(0); i < rot; i++ {
		b.push()
		b.pop()
	}
	for i := int64(0); i < total; i++ {
		b.push()
	}
	b.add(hx.C("OLen"))
	switch mode {
	case 0: // one by one, one more than there is
		for i := int64(0); i <= total; i++ {
			b.pop()
		}
	case 1:
		b.popMany(total)
	case 2:
		b.popMany(total + 1)
	case 3:
		b.popMany(0)
		b.popMany(total - 1)
		b.add(hx.C("OLen"))
		b.popMany(1)
	case 4: // drain half, refill over the next boundary with a wrapped head, drain all
		b.popMany(total / 2)
		for i := int64(0); i < total+2; i++ {
			b.push()
		}
		b.add(hx.C("OLen"))
		b.popMany(3 * total)
	default: // pop 1, push 1 repeatedly at the boundary (head walks round the full buffer)
		for i := int64(0); i < 2*total+3; i++ {
			b.pop()
			b.push()
		}
		b.add(hx.C("OLen"))
		b.popMany(total + 5)
	}
	b.add(hx.C("OLen"))
	b.pop()
	b.popMany(3)
	return b.ops
}

func genRing(cfg *hx.Config, maxLen int) []hx.T {
	r := cfg.Rng
	b := &builder{}
	sizes := []int64{1, 2, 3, 10, 10}
	n0 := hx.Pick(r, sizes)
	if r.Intn(6) == 0 {
		n0 = 4 + r.Int63n(6)
	}
	if r.Intn(8) > 0 { // sometimes use the default queue (New(10)) without an ONew
		b.add(hx.C("ONew", n0))
	}
	n := 5 + r.Intn(maxLen)
	filling := true
	shadow := int64(0)
	for len(b.ops) < n {
		if r.Intn(12) == 0 {
			filling = !filling
		}
		pPush := 35
		if filling {
			pPush = 72
		}
		switch p := r.Intn(100); {
		case p < pPush:
			b.push()
			shadow++
		case p < pPush+(100-pPush)*55/100:
			b.pop()
			if shadow > 0 {
				shadow--
			}
		case p < pPush+(100-pPush)*85/100:
			var k int64
			switch r.Intn(7) {
			case 0:
				k = 0
			case 1:
				k = 1
			case 2:
				k = shadow
			case 3:
				k = shadow + 1
			case 4:
				k = shadow - 1
				if k < 0 {
					k = 0
				}
			case 5:
				k = 1000000
			default:
				k = r.Int63n(8)
			}
			b.popMany(k)
			if k > shadow {
				k = shadow
			}
			shadow -= k
		case p < 98:
			b.add(hx.C("OLen"))
		default:
			b.add(hx.C("ONew", hx.Pick(r, sizes)))
			shadow = 0
		}
	}
	b.add(hx.C("OLen"))
	b.popMany(shadow + 2)
	b.pop()
	return b.ops
}

func genMpsc(cfg *hx.Config, maxLen int) []hx.T {
	r := cfg.Rng
	b := &builder{}
	n := 3 + r.Intn(maxLen)
	pushed := 0
	for len(b.ops) < n {
		switch p := r.Intn(100); {
		case p < 48:
			b.mpush()
			pushed++
		case p < 85:
			b.add(hx.C("MPop"))
		case p < 97:
			b.add(hx.C("MEmpty"))
		case p < 99:
			b.add(hx.C("MNew"))
		default: // both queues in one case: they must not interfere
			b.push()
			b.pop()
		}
	}
	for i := 0; i < pushed/2+2; i++ {
		b.add(hx.C("MPop"))
	}
	b.add(hx.C("MEmpty"))
	return b.ops
}

func Run(cfg *hx.Config) error {
	emit := func(kind string, ops []hx.T) {
		obs, nt, tags := Exec(ops)
		cfg.Emit(hx.Case{Kind: kind, Ops: ops, Obs: obs, Nontrivial: nt, Tags: tags})
	}
	if cfg.In != "" {
		cs, err := hx.ReadCases(cfg.In)
		if err != nil {
			return err
		}
		for _, c := range cs {
			emit("replay", hx.Terms(c.Ops))
		}
		return nil
	}
	thorough := cfg.Tier == "thorough"

	// 1. exhaustive small scope
	depth, mdepth := 5, 4
	if thorough {
		depth, mdepth = 7, 6
	}
	for _, n0 := range []int64{1, 2, 3} {
		for L := 0; L <= depth; L++ {
			enumRing(n0, L, func(ops []hx.T) { emit(fmt.Sprintf("exhaustive-ring-%d", n0), ops) })
		}
	}
	for L := 0; L <= mdepth; L++ {
		enumMpsc(L, func(ops []hx.T) { emit("exhaustive-mpsc", ops) })
	}

	// 2. growth boundaries: totals n0*2^j + {-2..+1} (9/10, 19/20, 39/40, 79/80 for n0 = 10),
	//    head rotated, six drain shapes
	maxJ := 2
	if thorough {
		maxJ = 4
	}
	idx := 0
	for _, n0 := range []int64{1, 2, 3, 10} {
		rots := []int64{0, 1, n0 / 2, n0 - 1}
		seenRot := map[int64]bool{}
		for _, rot := range rots {
			if seenRot[rot] {
				continue
			}
			seenRot[rot] = true
			for j := 0; j <= maxJ; j++ {
				for d := int64(-2); d <= 1; d++ {
					total := n0<<uint(j) + d
					if total < 1 {
						continue
					}
					if thorough {
						for mode := 0; mode < 6; mode++ {
							emit("boundary", boundaryCase(n0, rot, total, mode))
						}
					} else {
						emit("boundary", boundaryCase(n0, rot, total, idx%6))
						idx++
					}
				}
			}
		}
	}
	// the mailbox's own configuration across 9/10 .. 79/80 in every tier
	for _, total := range []int64{9, 10, 19, 20, 39, 40, 79, 80} {
		emit("boundary", boundaryCase(10, 3, total, int(total)%6))
	}

	// 3. outside the preconditions: must be skipped identically
	emit("malformed", []hx.T{hx.C("ONew", 0), hx.C("OPush", 1), hx.C("OPopMany", -1), hx.C("OPop"),
		hx.C("ONew", -3), hx.C("OLen"), hx.C("MStress", 0, 5), hx.C("OStress", 2, 5, 0), hx.C("MStress", 17, 1)})

	// 4. random
	for i := 0; i < cfg.N; i++ {
		switch {
		case i%4 == 3:
			emit("random-mpsc", genMpsc(cfg, 60))
		case i%8 == 0:
			emit("random-ring", genRing(cfg, 220))
		default:
			emit("random-ring", genRing(cfg, 60))
		}
	}

	// 5. concurrent stress (observables are booleans; the values never reach Coq)
	type sc struct{ np, nv, n0 int64 }
	ms := []sc{{1, 1000, 0}, {2, 500, 0}, {4, 500, 0}, {8, 300, 0}}
	rs := []sc{{1, 500, 1}, {3, 400, 1}, {4, 500, 2}, {8, 300, 10}}
	if thorough {
		for rep := 0; rep < 6; rep++ {
			ms = append(ms, sc{16, 2000, 0}, sc{8, 5000, 0}, sc{3, 20000, 0})
			rs = append(rs, sc{16, 2000, 1}, sc{8, 5000, 3}, sc{3, 20000, 10})
		}
	}
	for _, s := range ms {
		emit("stress", []hx.T{hx.C("MStress", s.np, s.nv)})
	}
	for _, s := range rs {
		emit("stress", []hx.T{hx.C("OStress", s.np, s.nv, s.n0)})
	}
	return nil
}
