package c08

import (
	"fmt"
	"math/rand"
	"sort"

	"verifh/hx"
)

// ---------------------------------------------------------------- term builders

func svc(t, n int64) hx.T { return hx.C("Svc", t, n) }
func bad(v int64) hx.T    { return hx.C("SBad", v) }

func nd(id int64, alive bool, state, addr int64, svcs ...hx.T) hx.T {
	return hx.C("Nd", id, alive, state, addr, hx.Norm(svcs))
}

func put(k int64, n hx.T) hx.T { return hx.C("EPut", k, n) }
func del(k int64) hx.T         { return hx.C("EDel", k) }

func batch(evs []hx.T) hx.T { return hx.C("OBatch", hx.Norm(evs)) }

type tagset map[string]bool

func (t tagset) list() []string {
	var l []string
	for k := range t {
		l = append(l, k)
	}
	sort.Strings(l)
	return l
}

// ---------------------------------------------------------------- random records / events

const nNodes = 4 // node ids 0..3

// names a node usually gives its services (distinct between nodes), so that most names are
// unique in the directory; the rest of the time a random name, which makes duplicates
var ownNames = [][]int64{{1, 4}, {2, 5}, {3, 6}, {7, 4}}

func randSvcs(r *rand.Rand, id int64, tags tagset) []hx.T {
	var out []hx.T
	for n := r.Intn(4); n > 0; n-- {
		switch p := r.Intn(100); {
		case p < 12:
			tags["bad-svc"] = true
			out = append(out, bad(int64(r.Intn(len(badNames)))))
		case p < 75:
			out = append(out, svc(1+r.Int63n(3), hx.Pick(r, ownNames[id%nNodes])))
		default:
			tags["random-name"] = true
			out = append(out, svc(1+r.Int63n(3), 1+r.Int63n(6)))
		}
	}
	return out
}

func randState(r *rand.Rand, tags tagset) int64 {
	s := hx.Pick(r, []int64{0, 1, 1, 1, 1, 2, 3})
	if s != 1 {
		tags["nonworking"] = true
	}
	return s
}

func randNode(r *rand.Rand, id int64, tags tagset) hx.T {
	addr := 10 + id
	if r.Intn(4) == 0 {
		addr = 20 + id
	}
	return nd(id, true, randState(r, tags), addr, randSvcs(r, id, tags)...)
}

// a random event list over the 4 node ids.  `known` shadows which keys currently exist only to
// aim the tags and the choice "delete something that exists / that does not".
func randEvents(r *rand.Rand, n int, selfID int64, known map[int64]bool, tags tagset, nonconf bool) []hx.T {
	var evs []hx.T
	for len(evs) < n {
		k := r.Int63n(nNodes)
		switch p := r.Intn(100); {
		case p < 45:
			rec := randNode(r, k, tags)
			if nonconf && r.Intn(3) == 0 {
				tags["nonconforming"] = true
				if r.Intn(2) == 0 { // record of another node under this key
					rec = randNode(r, (k+1+r.Int63n(nNodes-1))%nNodes, tags)
				} else { // a record that says it is dead
					rec.Args[1] = false
				}
			}
			if k == selfID {
				tags["self-put"] = true
			} else if known[k] {
				tags["re-register"] = true
			}
			known[k] = true
			evs = append(evs, put(k, rec))
		case p < 78:
			if k == selfID {
				tags["self-del"] = true
			} else if !known[k] {
				tags["del-unknown"] = true
			}
			delete(known, k)
			evs = append(evs, del(k))
		case p < 88:
			if len(evs) > 0 {
				tags["duplicate-event"] = true
				evs = append(evs, evs[len(evs)-1])
			}
		case p < 94:
			tags["junk"] = true
			evs = append(evs, hx.C("EJunk", k, int64(r.Intn(2))))
		default: // registration immediately followed by expiry (the F9 shape when k is unknown)
			if !known[k] && k != selfID {
				tags["put-del-unknown"] = true
			}
			delete(known, k)
			evs = append(evs, put(k, randNode(r, k, tags)), del(k))
		}
	}
	return evs
}

func lnode(n hx.T) hx.T { return hx.C("LNode", n) }

func lnodes(ns ...hx.T) []any {
	out := []any{}
	for _, n := range ns {
		out = append(out, lnode(n))
	}
	return out
}

func withState(n hx.T, s int64) hx.T {
	return hx.C("Nd", n.Args[0], n.Args[1], s, n.Args[3], n.Args[4])
}

func randStart(r *rand.Rand, tags tagset) (hx.T, hx.T, map[int64]bool) {
	selfID := int64(0)
	if r.Intn(4) == 0 {
		selfID = r.Int63n(nNodes)
	}
	addr := 10 + selfID
	switch p := r.Intn(40); {
	case p == 0:
		tags["addr-nonhost"] = true
		addr = -1
	case p == 1:
		tags["start-fails"] = true
		addr = -2
	}
	self := nd(selfID, true, randState(r, tags), addr, randSvcs(r, selfID, tags)...)
	known := map[int64]bool{}
	listing := []any{}
	for n := r.Intn(4); n > 0; n-- {
		id := r.Int63n(nNodes)
		if r.Intn(3) == 0 {
			id = selfID
		}
		rec := randNode(r, id, tags)
		if id == selfID {
			tags["listing-self"] = true // a stale record of the node itself
		}
		if r.Intn(10) == 0 {
			tags["listing-dead"] = true
			rec.Args[1] = false
		}
		if known[id] {
			tags["listing-dup"] = true
		}
		known[id] = true
		listing = append(listing, lnode(rec))
		if r.Intn(60) == 0 {
			tags["start-fails"] = true
			listing = append(listing, hx.Pick(r, []string{"LJunk", "LFail"}))
		}
	}
	return hx.C("OStart", self, listing), self, known
}

// splits: bit i of mask set = cut after event i
func splitBy(evs []hx.T, mask uint64) []hx.T {
	var ops []hx.T
	cur := []hx.T{}
	for i, e := range evs {
		cur = append(cur, e)
		if i == len(evs)-1 || mask&(1<<uint(i)) != 0 {
			ops = append(ops, batch(cur))
			cur = []hx.T{}
		}
	}
	return ops
}

func randSplit(r *rand.Rand, evs []hx.T, tags tagset) []hx.T {
	cutP := hx.Pick(r, []int{15, 50, 85})
	var ops []hx.T
	cur := []hx.T{}
	for i, e := range evs {
		cur = append(cur, e)
		if i == len(evs)-1 || r.Intn(100) < cutP {
			ops = append(ops, batch(cur))
			cur = []hx.T{}
			if r.Intn(10) == 0 {
				tags["empty-batch"] = true
				ops = append(ops, batch(nil))
			}
		}
	}
	return ops
}

// ---------------------------------------------------------------- small-scope exhaustive

// every event list of length <= L over the alphabet, in EVERY batching
func exhaustive(alpha []hx.T, L int, start hx.T, emit func(kind string, ops []hx.T, tags []string)) {
	cur := make([]hx.T, 0, L)
	var rec func()
	rec = func() {
		if n := len(cur); n > 0 {
			for mask := uint64(0); mask < 1<<uint(n-1); mask++ {
				ops := append([]hx.T{start}, splitBy(cur, mask)...)
				emit(fmt.Sprintf("exhaustive-%d", n), ops, nil)
			}
		}
		if len(cur) == L {
			return
		}
		for _, a := range alpha {
			cur = append(cur, a)
			rec()
			cur = cur[:len(cur)-1]
		}
	}
	rec()
}

// ---------------------------------------------------------------- stress inputs

func mb(id, state, addr int64, svcs ...hx.T) hx.T { return hx.C("Mb", id, state, addr, hx.Norm(svcs)) }

func randView(r *rand.Rand, tags tagset) []hx.T {
	var ms []hx.T
	for id := int64(0); id < nNodes; id++ {
		if r.Intn(4) == 0 {
			continue
		}
		ms = append(ms, mb(id, randState(r, tags), 10+id+10*int64(r.Intn(2)), randSvcs(r, id, tags)...))
	}
	return ms
}

// ---------------------------------------------------------------- driver

// one random provider life: watch segments interleaved with the node's own state changes (each
// followed by what etcd then delivers: DELETE self after the lease revoke, PUT self with the new
// state), ends of the watch stream, queries of the package-level getters
func randLife(r *rand.Rand, tags tagset, nonconf bool, long bool) []hx.T {
	start, self, known := randStart(r, tags)
	selfID := self.Int(0)
	ops := []hx.T{start}
	var pending []hx.T // events about the node itself that the next response starts with
	for seg := 1 + r.Intn(3); seg > 0; seg-- {
		n := 1 + r.Intn(8)
		if long {
			n = 6 + r.Intn(14)
		}
		evs := append(pending, randEvents(r, n, selfID, known, tags, nonconf)...)
		pending = nil
		ops = append(ops, randSplit(r, evs, tags)...)
		switch r.Intn(7) {
		case 0, 1:
			st := randState(r, tags)
			tags["self-state"] = true
			self = withState(self, st)
			ops = append(ops, hx.C("OSelfState", st))
			if r.Intn(4) > 0 {
				tags["self-state-echo"] = true
				pending = []hx.T{del(selfID), put(selfID, self)}
			}
		case 2:
			tags["rewatch-closed"] = true
			ops = append(ops, hx.C("ORewatch", 0))
		case 3:
			tags["rewatch-error"] = true
			ops = append(ops, hx.C("ORewatch", int64(1+r.Intn(2))))
		case 4:
			ops = append(ops, hx.C("OQuery"))
		case 5:
			tags["lease-lost"] = true
			ops = append(ops, hx.C("OLeaseLost", int64(r.Intn(3))))
			if r.Intn(2) == 0 { // what etcd delivers: expiry of the node's key, then its new registration
				pending = []hx.T{del(selfID), put(selfID, self)}
			}
		}
	}
	if len(pending) > 0 {
		ops = append(ops, batch(pending))
	}
	ops = append(ops, hx.C("OQuery"))
	if r.Intn(8) == 0 {
		tags["shutdown"] = true
		ops = append(ops, hx.C("OShutdown"), batch([]hx.T{del(1)}), hx.C("OQuery"))
	}
	return ops
}

func generate(cfg *hx.Config, emit func(kind string, ops []hx.T, tags []string)) {
	r := cfg.Rng
	thorough := cfg.Tier == "thorough"

	self := nd(0, true, 1, 10, svc(1, 1))
	n1 := nd(1, true, 1, 11, svc(1, 2), svc(2, 5))
	n1b := nd(1, true, 2, 21, svc(1, 2), bad(1))
	n2 := nd(2, true, 1, 12, svc(2, 3), svc(3, 2))
	selfb := nd(0, true, 3, 20, svc(2, 4))
	stale := nd(0, true, 2, 30, svc(3, 6))
	dead := func(n hx.T) hx.T { return hx.C("Nd", n.Args[0], false, n.Args[2], n.Args[3], n.Args[4]) }
	alpha7 := []hx.T{put(1, n1), put(1, n1b), del(1), del(0), put(2, n2), put(0, selfb), del(2)}

	// 1. exhaustive: all lists x all batchings over a small alphabet, self = node 0
	if thorough {
		exhaustive(alpha7, 4, hx.C("OStart", self, []any{}), emit)
		exhaustive(alpha7, 3, hx.C("OStart", self, lnodes(n1, stale, n2)), emit)
	} else {
		exhaustive(alpha7[:5], 3, hx.C("OStart", self, []any{}), emit)
		exhaustive(alpha7[:4], 2, hx.C("OStart", self, lnodes(n1)), emit)
	}

	// 2. systematic initial listings: the node's own (stale) record first / last / alone, dead
	// records, duplicate ids, each followed by every event of the alphabet and by the
	// delete-then-register pair about the node itself
	listings := [][]any{
		{}, lnodes(n1), lnodes(stale), lnodes(n1, stale), lnodes(stale, n1), lnodes(stale, selfb),
		lnodes(n1, n1b), lnodes(n1b, n1), lnodes(dead(n1)), lnodes(dead(stale)), lnodes(dead(n1), n1),
		lnodes(n2, n1, stale, n1b, dead(n2)),
	}
	follow := [][]hx.T{{}}
	for _, e := range alpha7 {
		follow = append(follow, []hx.T{e})
	}
	follow = append(follow, []hx.T{del(0), put(0, selfb)}, []hx.T{put(0, stale), del(0)}, []hx.T{del(1), put(1, n1b)})
	for _, l := range listings {
		for _, f := range follow {
			ops := []hx.T{hx.C("OStart", self, l)}
			if len(f) > 0 {
				ops = append(ops, batch(f))
			}
			emit("listing-systematic", append(ops, hx.C("OQuery")), []string{"listing-systematic"})
			if thorough && len(f) == 2 {
				emit("listing-systematic", []hx.T{hx.C("OStart", self, l), batch(f[:1]), batch(f[1:]), hx.C("OQuery")},
					[]string{"listing-systematic"})
			}
		}
	}

	// 3. systematic self state changes: new state, then the events etcd delivers about the node
	// itself (lease revoked -> DELETE, registered again -> PUT) in one response or in two, with a
	// stale echo of the OLD state as well, before / after another node registers
	for _, st := range []int64{0, 2, 3} {
		cur := withState(self, st)
		for variant := 0; variant < 6; variant++ {
			ops := []hx.T{hx.C("OStart", self, lnodes(stale, n2))}
			if variant%2 == 1 {
				ops = append(ops, batch([]hx.T{put(1, n1)}))
			}
			ops = append(ops, hx.C("OSelfState", st))
			switch variant / 2 {
			case 0:
				ops = append(ops, batch([]hx.T{del(0), put(0, cur)}))
			case 1:
				ops = append(ops, batch([]hx.T{del(0)}), batch([]hx.T{put(0, cur), del(2)}))
			default: // the echo still carries the old state: the node's own record must win
				ops = append(ops, batch([]hx.T{put(0, self), del(0), put(1, n1b)}))
			}
			ops = append(ops, hx.C("OLeaseLost", int64(variant%3)), hx.C("OSelfState", int64(1)), hx.C("ORewatch", int64(variant%3)), batch([]hx.T{put(0, self), del(2)}), hx.C("OQuery"))
			emit("self-state-systematic", ops, []string{"self-state", "self-state-echo"})
		}
	}

	// 4. random histories
	maxAll := 4
	if thorough {
		maxAll = 6
	}
	for i := 0; i < cfg.N; i++ {
		tags := tagset{}
		nonconf := i%10 == 9
		switch {
		case i%5 == 0: // every batching of one random list
			start, self, known := randStart(r, tags)
			evs := randEvents(r, 2+r.Intn(maxAll-1), self.Int(0), known, tags, false)
			if len(evs) > maxAll+1 {
				evs = evs[:maxAll+1]
			}
			tl := tags.list()
			for mask := uint64(0); mask < 1<<uint(len(evs)-1); mask++ {
				emit("all-batchings", append([]hx.T{start}, splitBy(evs, mask)...), tl)
			}
		default:
			ops := randLife(r, tags, nonconf, i%4 == 3)
			if r.Intn(8) == 0 { // a second provider life in the same case
				tags["restart"] = true
				ops = append(ops, randLife(r, tags, false, false)...)
			}
			kind := "random"
			if nonconf {
				kind = "random-nonconforming"
			}
			emit(kind, ops, tags.list())
		}
	}

	// 5. malformed stream: batches before any provider exists, only junk, only empties, start
	// failures (undecodable listing entry, address that is no host:port)
	emit("malformed", []hx.T{batch([]hx.T{put(1, n1)}), hx.C("OSelfState", 2), hx.C("ORewatch", 0), hx.C("OShutdown"), hx.C("OQuery"),
		hx.C("OStart", self, []any{}), batch(nil), batch(nil)}, []string{"empty-batch"})
	emit("malformed", []hx.T{hx.C("OStart", self, lnodes(n1)), batch([]hx.T{hx.C("EJunk", 1, 0), hx.C("EJunk", 1, 1)}),
		batch([]hx.T{hx.C("EJunk", 0, 0)})}, []string{"junk"})
	emit("malformed", []hx.T{hx.C("OStart", self, []any{lnode(n1), "LJunk"}), batch([]hx.T{put(2, n2)}), hx.C("OQuery"),
		hx.C("OStart", self, []any{"LFail"}), hx.C("OLeaseLost", 0), hx.C("OStart", nd(0, true, 1, -2), []any{}), hx.C("OStart", nd(0, true, 1, -1, svc(1, 1)), lnodes(n1)), batch([]hx.T{del(1)})},
		[]string{"start-fails", "addr-nonhost"})

	// 5b. scripted lives: start-up, re-watch / re-listing, shutdown under an explicit schedule
	generateBoot(cfg, emit)

	// 6. etcd.Node round trips and the self cluster (cluster disabled)
	nDirect := 8
	if thorough {
		nDirect = 60
	}
	for i := 0; i < nDirect; i++ {
		tags := tagset{}
		rec := randNode(r, r.Int63n(nNodes), tags)
		if r.Intn(4) == 0 {
			rec.Args[1] = false
		}
		var svcs []any
		for n := r.Intn(5); n > 0; n-- {
			svcs = append(svcs, hx.Pair{A: 1 + r.Int63n(6), B: r.Int63n(4)})
		}
		addr := 10 + r.Int63n(4)
		if r.Intn(4) == 0 {
			addr = -1 - r.Int63n(3)
		}
		emit("direct", []hx.T{hx.C("ONode", rec), hx.C("OSelfCluster", r.Int63n(nNodes), addr, svcs), hx.C("OQuery")}, []string{"node-roundtrip", "self-cluster"})
	}

	// 7. reader-atomicity measurement (not a proof): updater alternating two complete views
	nStress := 3
	if thorough {
		nStress = 12
	}
	for i := 0; i < nStress; i++ {
		tags := tagset{"stress-measurement": true}
		a, b := randView(r, tags), randView(r, tags)
		emit("stress-measurement", []hx.T{hx.C("OStress", hx.Norm(a), hx.Norm(b))}, tags.list())
	}
}

// ---------------------------------------------------------------- scripted lives (boot.go)

func amut(m hx.T) hx.T       { return hx.C("AMut", m) }
func mput(n hx.T) hx.T       { return amut(hx.C("MPut", n)) }
func mdel(k int64) hx.T      { return amut(hx.C("MDel", k)) }
func deliver(n int64) hx.T   { return hx.C("ADeliver", n) }
func watchFail(v int64) hx.T { return hx.C("AWatchFail", v) }

var (
	aGetEval  = hx.C("AGetEval")
	aGetResp  = hx.C("AGetResp")
	aGetFail  = hx.C("AGetFail")
	aWatch    = hx.C("AWatch")
	aCompact  = hx.C("ACompact")
	aShutdown = hx.C("AShutdown")
)

func bootOp(self hx.T, member bool, acts []hx.T) hx.T {
	return hx.C("OBoot", self, member, hx.Norm(acts))
}

func cat(parts ...[]hx.T) []hx.T {
	var out []hx.T
	for _, p := range parts {
		out = append(out, p...)
	}
	return out
}

// all ways to put the mutations `seq` (in this order) into `slots` consecutive slots
func distribute(seq []hx.T, slots int, f func(parts [][]hx.T)) {
	parts := make([][]hx.T, slots)
	var rec func(i, from int)
	rec = func(i, from int) {
		if i == len(seq) {
			cp := make([][]hx.T, slots)
			for k := range parts {
				cp[k] = append([]hx.T{}, parts[k]...)
			}
			f(cp)
			return
		}
		for s := from; s < slots; s++ {
			parts[s] = append(parts[s], seq[i])
			rec(i+1, s)
			parts[s] = parts[s][:len(parts[s])-1]
		}
	}
	rec(0, 0)
}

// every sequence over alpha of length <= L
func sequences(alpha []hx.T, L int, f func(seq []hx.T)) {
	cur := []hx.T{}
	var rec func()
	rec = func() {
		f(append([]hx.T{}, cur...))
		if len(cur) == L {
			return
		}
		for _, a := range alpha {
			cur = append(cur, a)
			rec()
			cur = cur[:len(cur)-1]
		}
	}
	rec()
}

// the start-up skeleton.  The early AWatch / ADeliver are no-ops for a provider that lists first and
// watches afterwards; they are what lets a provider that watches first meet its events early.
//
//	AWatch  <s0>  AGetEval  <s1>  ADeliver  AGetResp  <s2>  AWatch  <s3>  ADeliver 1  ADeliver 9
func startupScript(parts [][]hx.T) []hx.T {
	return cat([]hx.T{aWatch}, parts[0], []hx.T{aGetEval}, parts[1], []hx.T{deliver(9), aGetResp}, parts[2],
		[]hx.T{aWatch}, parts[3], []hx.T{deliver(1), deliver(9)})
}

func randMut(r *rand.Rand, selfID int64, tags tagset) hx.T {
	k := r.Int63n(nNodes)
	if r.Intn(100) < 62 {
		if k == selfID {
			tags["self-put"] = true
		}
		return mput(randNode(r, k, tags))
	}
	if k == selfID {
		tags["self-del"] = true
	}
	return mdel(k)
}

// a random schedule: any action at any time (what is not possible is a no-op)
func randScript(r *rand.Rand, selfID int64, tags tagset) []hx.T {
	var acts []hx.T
	n := 6 + r.Intn(20)
	if r.Intn(10) < 7 { // most lives get started early
		for i := r.Intn(3); i > 0; i-- {
			acts = append(acts, randMut(r, selfID, tags))
		}
		acts = append(acts, aGetEval)
		if r.Intn(3) == 0 {
			acts = append(acts, randMut(r, selfID, tags))
		}
		acts = append(acts, aGetResp)
	}
	for len(acts) < n {
		switch p := r.Intn(100); {
		case p < 30:
			acts = append(acts, randMut(r, selfID, tags))
		case p < 38:
			acts = append(acts, aGetEval)
		case p < 48:
			acts = append(acts, aGetResp)
		case p < 50:
			tags["get-fail"] = true
			acts = append(acts, aGetFail)
		case p < 64:
			acts = append(acts, aWatch)
		case p < 86:
			acts = append(acts, deliver(hx.Pick(r, []int64{1, 1, 2, 3, 9, 0})))
		case p < 92:
			tags["watch-fail"] = true
			acts = append(acts, watchFail(int64(r.Intn(3))))
		case p < 95:
			tags["compaction"] = true
			acts = append(acts, aCompact)
		case p < 98:
			// the stream ends, the key space moves on, is compacted, the provider has to list again
			tags["compaction"] = true
			tags["watch-fail"] = true
			acts = append(acts, watchFail(int64(r.Intn(2))), randMut(r, selfID, tags), mdel(r.Int63n(nNodes)), aCompact, aWatch, aGetEval)
			if r.Intn(2) == 0 {
				acts = append(acts, randMut(r, selfID, tags))
			}
			acts = append(acts, aGetResp, aWatch, deliver(9))
		default:
			tags["shutdown-in-flight"] = true
			acts = append(acts, aShutdown)
		}
	}
	return acts
}

func generateBoot(cfg *hx.Config, emit func(kind string, ops []hx.T, tags []string)) {
	r := cfg.Rng
	thorough := cfg.Tier == "thorough"
	self := nd(0, true, 1, 10, svc(1, 1))
	n1 := nd(1, true, 0, 11, svc(1, 2), svc(2, 5))
	n1b := nd(1, true, 1, 21, svc(1, 2), svc(2, 5)) // re-registration: state and address changed
	n2 := nd(2, true, 1, 12, svc(2, 3))
	stale := nd(0, true, 2, 30, svc(3, 6)) // an old registration of the node itself
	query := hx.C("OQuery")

	// 1. start-up, exhaustive in the small: every sequence of <= L mutations in EVERY position relative to
	// the evaluation of the listing, its delivery, the registration of the watch and the deliveries
	alpha := []hx.T{mput(n1), mput(n1b), mdel(1), mput(n2)}
	L := 2
	if thorough {
		L = 3
	}
	sequences(alpha, L, func(seq []hx.T) {
		distribute(seq, 4, func(parts [][]hx.T) {
			emit("boot-startup-exhaustive", []hx.T{bootOp(self, true, startupScript(parts)), query}, []string{"boot-startup"})
		})
	})
	// the same with records of the node itself in the key space (a stale registration before the listing,
	// its expiry / the echo of the own registration afterwards), and for a client (StartClient)
	alphaSelf := []hx.T{mput(stale), mdel(0), mput(n1), mput(self)}
	Ls := 2
	sequences(alphaSelf, Ls, func(seq []hx.T) {
		if len(seq) == 0 {
			return
		}
		distribute(seq, 4, func(parts [][]hx.T) {
			if !thorough && len(seq) == 2 && len(parts[0])+len(parts[3]) == 0 {
				return // quick: keep the combinations that touch the listing or the open watch
			}
			emit("boot-startup-exhaustive", []hx.T{bootOp(self, true, startupScript(parts)), query}, []string{"boot-startup", "listing-self"})
		})
	})
	Lc := 1
	if thorough {
		Lc = 2
	}
	sequences([]hx.T{mput(n1), mput(n1b), mdel(1), mput(stale), mdel(0)}, Lc, func(seq []hx.T) {
		distribute(seq, 4, func(parts [][]hx.T) {
			emit("boot-startup-exhaustive", []hx.T{bootOp(self, false, startupScript(parts)), query}, []string{"boot-startup", "client-mode"})
		})
	})

	// 2. the watch stream ends; what happens to the key space until the next watch is registered; with
	// and without a compaction in between (then the provider has to list again); a fragment delivered
	// before the failure; a failing re-listing
	started := []hx.T{mput(n1), aGetEval, aGetResp, aWatch}
	opt := func(on bool, a ...hx.T) []hx.T {
		if on {
			return a
		}
		return nil
	}
	gaps := [][]hx.T{nil, {mdel(1), mput(n1)}, {mdel(1), mdel(2)}} // nothing / node 1 expires and comes back / both others expire
	for v := int64(0); v < 2; v++ {
		for mask := 0; mask < 16; mask++ {
			before, compact, afterC, relistGap := mask&1 != 0, mask&2 != 0, mask&4 != 0, mask&8 != 0
			if !thorough && !compact && (afterC || relistGap) {
				continue
			}
			for gk, gap := range gaps {
				acts := cat(started, opt(before, mput(n2), mput(n1b), deliver(1)), []hx.T{watchFail(v)},
					gap, opt(compact, aCompact), opt(afterC, mput(n2)),
					[]hx.T{aWatch, aGetEval}, opt(relistGap, mput(n1)), []hx.T{aGetResp, aWatch, deliver(9), mdel(2), deliver(9)})
				tags := []string{"boot-rewatch", "watch-fail"}
				if compact {
					tags = append(tags, "compaction")
				}
				for _, member := range []bool{true, false} {
					if !member && !thorough && (mask+gk)%3 != 0 {
						continue
					}
					emit("boot-rewatch-systematic", []hx.T{bootOp(self, member, acts), query}, tags)
				}
			}
		}
	}
	emit("boot-rewatch-systematic", []hx.T{bootOp(self, true, cat(started, []hx.T{mput(n2), watchFail(1), mdel(1), aCompact, mput(n1b),
		aWatch, aGetFail, mdel(2), aGetEval, aGetFail, aGetEval, mput(n2), aGetResp, aWatch, deliver(9)})), query},
		[]string{"boot-rewatch", "compaction", "get-fail"})
	emit("boot-rewatch-systematic", []hx.T{bootOp(self, true, []hx.T{mput(n1), aGetEval, aGetFail, aGetEval, aGetResp, aWatch}), query},
		[]string{"get-fail", "start-fails"})

	// 3. Shutdown while events are in flight, while the listing is fetched again, before the watch exists
	emit("boot-shutdown-systematic", []hx.T{bootOp(self, true, cat(started, []hx.T{mput(n2), mput(n1b), aShutdown, deliver(1), mdel(2),
		deliver(9), watchFail(0), mput(n2), aWatch, deliver(9)})), query}, []string{"shutdown-in-flight"})
	emit("boot-shutdown-systematic", []hx.T{bootOp(self, true, cat(started, []hx.T{watchFail(1), mput(n2), mdel(1), aCompact, mput(n1), aWatch,
		aShutdown, aGetEval, mput(n1b), aGetResp, aWatch, deliver(9)})), query}, []string{"shutdown-in-flight", "compaction"})
	emit("boot-shutdown-systematic", []hx.T{bootOp(self, true, []hx.T{mput(n1), aGetEval, aGetResp, aShutdown, aWatch, mput(n2), deliver(9),
		aShutdown}), query}, []string{"shutdown-in-flight"})
	emit("boot-shutdown-systematic", []hx.T{bootOp(self, false, cat(started, []hx.T{mput(n2), aShutdown, deliver(9), watchFail(2), aWatch})), query},
		[]string{"shutdown-in-flight", "client-mode"})
	emit("boot-shutdown-systematic", []hx.T{bootOp(self, true, []hx.T{mput(n1), aShutdown, aGetEval, aShutdown, aGetResp, aShutdown, aShutdown})},
		[]string{"shutdown-in-flight"})

	// 4. random schedules
	nRand := cfg.N
	if !thorough && nRand > 140 {
		nRand = 140
	}
	for i := 0; i < nRand; i++ {
		tags := tagset{"boot-random": true}
		selfID := int64(0)
		if r.Intn(5) == 0 {
			selfID = r.Int63n(nNodes)
		}
		me := nd(selfID, true, randState(r, tags), 10+selfID, randSvcs(r, selfID, tags)...)
		member := r.Intn(5) != 0
		if !member {
			tags["client-mode"] = true
		}
		ops := []hx.T{bootOp(me, member, randScript(r, selfID, tags)), query}
		if r.Intn(6) == 0 { // followed by an ordinary life: the scripted one must have ended cleanly
			tags["restart"] = true
			ops = append(ops, randLife(r, tags, false, false)...)
		}
		emit("boot-random", ops, tags.list())
	}
	emit("malformed", []hx.T{bootOp(nd(0, true, 1, -2), true, []hx.T{aGetEval, aGetResp}), bootOp(self, true, nil),
		bootOp(nd(0, true, 1, -1, svc(1, 1)), true, []hx.T{aGetEval, aGetResp, aWatch, mput(n1), deliver(1)}), query}, []string{"start-fails", "addr-nonhost"})
}
