package c08

import (
	"fmt"
	"math/rand"
	"sort"

	"verifh/hx"
)

// ---------------------------------------------------------------- term builders

func svc(t, n int64) hx.T { return hx.C("Svc", t, n) }
func bad(v int64) hx.T    { return hx.C("SBad", v) }

func nd(id int64, alive bool, state, addr int64, svcs ...hx.T) hx.T {
	return hx.C("Nd", id, alive, state, addr, hx.Norm(svcs))
}

func put(k int64, n hx.T) hx.T { return hx.C("EPut", k, n) }
func del(k int64) hx.T         { return hx.C("EDel", k) }

func batch(evs []hx.T) hx.T { return hx.C("OBatch", hx.Norm(evs)) }

type tagset map[string]bool

func (t tagset) list() []string {
	var l []string
	for k := range t {
		l = append(l, k)
	}
	sort.Strings(l)
	return l
}

// ---------------------------------------------------------------- random records / events

const nNodes = 4 // node ids 0..3

// names a node usually gives its services (distinct between nodes), so that most names are
// unique in the directory; the rest of the time a random name, which makes duplicates
var ownNames = [][]int64{{1, 4}, {2, 5}, {3, 6}, {7, 4}}

func randSvcs(r *rand.Rand, id int64, tags tagset) []hx.T {
	var out []hx.T
	for n := r.Intn(4); n > 0; n-- {
		switch p := r.Intn(100); {
		case p < 12:
			tags["bad-svc"] = true
			out = append(out, bad(int64(r.Intn(len(badNames)))))
		case p < 75:
			out = append(out, svc(1+r.Int63n(3), hx.Pick(r, ownNames[id%nNodes])))
		default:
			tags["random-name"] = true
			out = append(out, svc(1+r.Int63n(3), 1+r.Int63n(6)))
		}
	}
	return out
}

func randState(r *rand.Rand, tags tagset) int64 {
	s := hx.Pick(r, []int64{0, 1, 1, 1, 1, 2, 3})
	if s != 1 {
		tags["nonworking"] = true
	}
	return s
}

func randNode(r *rand.Rand, id int64, tags tagset) hx.T {
	addr := 10 + id
	if r.Intn(4) == 0 {
		addr = 20 + id
	}
	return nd(id, true, randState(r, tags), addr, randSvcs(r, id, tags)...)
}

// a random event list over the 4 node ids.  `known` shadows which keys currently exist only to
// aim the tags and the choice "delete something that exists / that does not".
func randEvents(r *rand.Rand, n int, selfID int64, known map[int64]bool, tags tagset, nonconf bool) []hx.T {
	var evs []hx.T
	for len(evs) < n {
		k := r.Int63n(nNodes)
		switch p := r.Intn(100); {
		case p < 45:
			rec := randNode(r, k, tags)
			if nonconf && r.Intn(3) == 0 {
				tags["nonconforming"] = true
				if r.Intn(2) == 0 { // record of another node under this key
					rec = randNode(r, (k+1+r.Int63n(nNodes-1))%nNodes, tags)
				} else { // a record that says it is dead
					rec.Args[1] = false
				}
			}
			if k == selfID {
				tags["self-put"] = true
			} else if known[k] {
				tags["re-register"] = true
			}
			known[k] = true
			evs = append(evs, put(k, rec))
		case p < 78:
			if k == selfID {
				tags["self-del"] = true
			} else if !known[k] {
				tags["del-unknown"] = true
			}
			delete(known, k)
			evs = append(evs, del(k))
		case p < 88:
			if len(evs) > 0 {
				tags["duplicate-event"] = true
				evs = append(evs, evs[len(evs)-1])
			}
		case p < 94:
			tags["junk"] = true
			evs = append(evs, hx.C("EJunk", k, int64(r.Intn(2))))
		default: // registration immediately followed by expiry (the F9 shape when k is unknown)
			if !known[k] && k != selfID {
				tags["put-del-unknown"] = true
			}
			delete(known, k)
			evs = append(evs, put(k, randNode(r, k, tags)), del(k))
		}
	}
	return evs
}

func randStart(r *rand.Rand, tags tagset) (hx.T, int64, map[int64]bool) {
	selfID := int64(0)
	if r.Intn(4) == 0 {
		selfID = r.Int63n(nNodes)
	}
	self := nd(selfID, true, randState(r, tags), 10+selfID, randSvcs(r, selfID, tags)...)
	known := map[int64]bool{}
	var listing []hx.T
	for n := r.Intn(4); n > 0; n-- {
		id := r.Int63n(nNodes)
		rec := randNode(r, id, tags)
		if id == selfID {
			tags["listing-self"] = true // a stale record of the node itself
		}
		if r.Intn(12) == 0 {
			tags["listing-dead"] = true
			rec.Args[1] = false
		}
		if known[id] {
			tags["listing-dup"] = true
		}
		known[id] = true
		listing = append(listing, rec)
	}
	return hx.C("OStart", self, hx.Norm(listing)), selfID, known
}

// splits: bit i of mask set = cut after event i
func splitBy(evs []hx.T, mask uint64) []hx.T {
	var ops []hx.T
	cur := []hx.T{}
	for i, e := range evs {
		cur = append(cur, e)
		if i == len(evs)-1 || mask&(1<<uint(i)) != 0 {
			ops = append(ops, batch(cur))
			cur = []hx.T{}
		}
	}
	return ops
}

func randSplit(r *rand.Rand, evs []hx.T, tags tagset) []hx.T {
	cutP := hx.Pick(r, []int{15, 50, 85})
	var ops []hx.T
	cur := []hx.T{}
	for i, e := range evs {
		cur = append(cur, e)
		if i == len(evs)-1 || r.Intn(100) < cutP {
			ops = append(ops, batch(cur))
			cur = []hx.T{}
			if r.Intn(10) == 0 {
				tags["empty-batch"] = true
				ops = append(ops, batch(nil))
			}
		}
	}
	return ops
}

// ---------------------------------------------------------------- small-scope exhaustive

// every event list of length <= L over the alphabet, in EVERY batching
func exhaustive(alpha []hx.T, L int, start hx.T, emit func(kind string, ops []hx.T, tags []string)) {
	cur := make([]hx.T, 0, L)
	var rec func()
	rec = func() {
		if n := len(cur); n > 0 {
			for mask := uint64(0); mask < 1<<uint(n-1); mask++ {
				ops := append([]hx.T{start}, splitBy(cur, mask)...)
				emit(fmt.Sprintf("exhaustive-%d", n), ops, nil)
			}
		}
		if len(cur) == L {
			return
		}
		for _, a := range alpha {
			cur = append(cur, a)
			rec()
			cur = cur[:len(cur)-1]
		}
	}
	rec()
}

// ---------------------------------------------------------------- stress inputs

func mb(id, state, addr int64, svcs ...hx.T) hx.T { return hx.C("Mb", id, state, addr, hx.Norm(svcs)) }

func randView(r *rand.Rand, tags tagset) []hx.T {
	var ms []hx.T
	for id := int64(0); id < nNodes; id++ {
		if r.Intn(4) == 0 {
			continue
		}
		ms = append(ms, mb(id, randState(r, tags), 10+id+10*int64(r.Intn(2)), randSvcs(r, id, tags)...))
	}
	return ms
}

// ---------------------------------------------------------------- driver

func generate(cfg *hx.Config, emit func(kind string, ops []hx.T, tags []string)) {
	r := cfg.Rng
	thorough := cfg.Tier == "thorough"

	// 1. exhaustive: all lists x all batchings over a small alphabet, self = node 0
	self := nd(0, true, 1, 10, svc(1, 1))
	n1 := nd(1, true, 1, 11, svc(1, 2), svc(2, 5))
	n1b := nd(1, true, 2, 21, svc(1, 2), bad(1))
	n2 := nd(2, true, 1, 12, svc(2, 3), svc(3, 2))
	selfb := nd(0, true, 3, 20, svc(2, 4))
	alpha := []hx.T{put(1, n1), put(1, n1b), del(1), del(0), put(2, n2)}
	if thorough {
		alpha = append(alpha, put(0, selfb), del(2))
		exhaustive(alpha, 4, hx.C("OStart", self, []any{}), emit)
		exhaustive(alpha, 3, hx.C("OStart", self, []any{n1, n2}), emit)
	} else {
		exhaustive(alpha, 3, hx.C("OStart", self, []any{}), emit)
		exhaustive(alpha[:4], 2, hx.C("OStart", self, []any{n1}), emit)
	}

	// 2. random histories
	maxAll := 4
	if thorough {
		maxAll = 6
	}
	for i := 0; i < cfg.N; i++ {
		tags := tagset{}
		start, selfID, known := randStart(r, tags)
		nonconf := i%10 == 9
		switch {
		case i%5 == 0: // every batching of one random list
			evs := randEvents(r, 2+r.Intn(maxAll-1), selfID, known, tags, false)
			if len(evs) > maxAll+1 {
				evs = evs[:maxAll+1]
			}
			tl := tags.list()
			for mask := uint64(0); mask < 1<<uint(len(evs)-1); mask++ {
				emit("all-batchings", append([]hx.T{start}, splitBy(evs, mask)...), tl)
			}
		default:
			n := 1 + r.Intn(12)
			if i%4 == 3 {
				n = 10 + r.Intn(30)
			}
			evs := randEvents(r, n, selfID, known, tags, nonconf)
			ops := append([]hx.T{start}, randSplit(r, evs, tags)...)
			if r.Intn(8) == 0 { // a second provider life in the same case
				tags["restart"] = true
				start2, self2, known2 := randStart(r, tags)
				evs2 := randEvents(r, 1+r.Intn(6), self2, known2, tags, false)
				ops = append(append(ops, start2), randSplit(r, evs2, tags)...)
			}
			kind := "random"
			if nonconf {
				kind = "random-nonconforming"
			}
			emit(kind, ops, tags.list())
		}
	}

	// 3. malformed stream: batches before any provider exists, only junk, only empties
	emit("malformed", []hx.T{batch([]hx.T{put(1, n1)}), hx.C("OStart", self, []any{}), batch(nil), batch(nil)}, []string{"empty-batch"})
	emit("malformed", []hx.T{hx.C("OStart", self, []any{n1}), batch([]hx.T{hx.C("EJunk", 1, 0), hx.C("EJunk", 1, 1)}),
		batch([]hx.T{hx.C("EJunk", 0, 0)})}, []string{"junk"})

	// 4. reader-atomicity measurement (not a proof): updater alternating two complete views
	nStress := 3
	if thorough {
		nStress = 12
	}
	for i := 0; i < nStress; i++ {
		tags := tagset{"stress-measurement": true}
		a, b := randView(r, tags), randView(r, tags)
		emit("stress-measurement", []hx.T{hx.C("OStress", hx.Norm(a), hx.Norm(b))}, tags.list())
	}
}
