// Package c08 drives the real etcd membership fold (Provider._keepWatching ->
// handleWatchResponse -> updateNodesWithChanges -> publishClusterTopologyEvent, reached through
// the verif-tagged exports VerifNewProvider / VerifFeed) on generated watch responses, hands
// every published member list to the real app.Cluster (ClusterServices.MakeMembers) and asks
// the real getters.  Reader atomicity is measured (not proved) by a stress run.
package c08

import (
	"fmt"
	"sort"
	"strconv"
	"strings"

	"github.com/sirupsen/logrus"
	"go.etcd.io/etcd/api/v3/mvccpb"
	clientv3 "go.etcd.io/etcd/client/v3"

	"github.com/dfklegend/cell2/node/app"
	"github.com/dfklegend/cell2/node/cluster"
	"github.com/dfklegend/cell2/node/cluster/clusterproviders/etcd"
	"github.com/dfklegend/cell2/utils/logger"

	"verifh/hx"
)

const clusterName = "ut"

var (
	probeTypes = []int64{0, 1, 2, 3, 4}
	probeNames = []int64{0, 1, 2, 3, 4, 5, 6, 7}
)

// ---------------------------------------------------------------- tokens <-> Go values

func memberID(k int64) string { return fmt.Sprintf("n%d", k) }
func nodeID(k int64) string   { return fmt.Sprintf("%s@n%d", clusterName, k) }
func host(a int64) string     { return fmt.Sprintf("h%d", a) }
func port(a int64) int        { return int(1000 + a) }
func typeName(t int64) string { return fmt.Sprintf("t%d", t) }
func svcName(n int64) string  { return fmt.Sprintf("s%d", n) }

var badNames = []string{"", "nodot", ".s1", "t1.", "t1.s1.x"}

func svcString(s hx.T) string {
	switch s.Name {
	case "Svc":
		return typeName(s.Int(0)) + "." + svcName(s.Int(1))
	case "SBad":
		v := s.Int(0)
		if v >= 0 && int(v) < len(badNames) {
			return badNames[v]
		}
		return fmt.Sprintf("junk%d", v)
	}
	panic("c08: bad svc term " + s.Name)
}

func svcStrings(l []any) []string {
	out := make([]string, len(l))
	for i, s := range l {
		out[i] = svcString(hx.AsTerm(s))
	}
	return out
}

// inverse projections; anything unexpected becomes a negative sentinel so that it can never
// compare equal to a model value
func numAfter(s, prefix string) int64 {
	if !strings.HasPrefix(s, prefix) {
		return -900
	}
	n, err := strconv.ParseInt(s[len(prefix):], 10, 64)
	if err != nil {
		return -901
	}
	return n
}

func svcTerm(s string) hx.T {
	for v, b := range badNames {
		if s == b {
			return hx.C("SBad", int64(v))
		}
	}
	if strings.HasPrefix(s, "junk") {
		return hx.C("SBad", numAfter(s, "junk"))
	}
	parts := strings.Split(s, ".")
	if len(parts) == 2 {
		return hx.C("Svc", numAfter(parts[0], "t"), numAfter(parts[1], "s"))
	}
	return hx.C("SBad", int64(-902))
}

func addrTok(h string, p int) int64 {
	a := numAfter(h, "h")
	if a >= 0 && port(a) != p {
		return -903
	}
	return a
}

type nodeRec struct {
	id, state, addr int64
	alive           bool
	svcs            []any
}

func parseNode(t hx.T) nodeRec {
	if t.Name != "Nd" {
		panic("c08: bad node term " + t.Name)
	}
	return nodeRec{id: t.Int(0), alive: t.Bool(1), state: t.Int(2), addr: t.Int(3), svcs: t.List(4)}
}

// the JSON value a node registers (the real Node.Serialize)
func (n nodeRec) json() []byte {
	nd := etcd.NewNode(nodeID(n.id), host(n.addr), port(n.addr), svcStrings(n.svcs))
	nd.SetState(int(n.state))
	nd.SetAlive(n.alive)
	b, err := nd.Serialize()
	if err != nil {
		panic(err)
	}
	return b
}

func memberFromTerm(t hx.T) *cluster.Member {
	if t.Name != "Mb" {
		panic("c08: bad member term " + t.Name)
	}
	return &cluster.Member{Id: nodeID(t.Int(0)), State: int(t.Int(1)), Host: host(t.Int(2)),
		Port: int32(port(t.Int(2))), Services: svcStrings(t.List(3))}
}

func memberTerm(m *cluster.Member) hx.T {
	sv := make([]any, len(m.Services))
	for i, s := range m.Services {
		sv[i] = svcTerm(s)
	}
	return hx.C("Mb", numAfter(m.Id, clusterName+"@n"), int64(m.State), addrTok(m.Host, int(m.Port)), sv)
}

func itemTerm(it *app.ServiceItem) hx.T {
	var pid any = "None"
	if it.PID != nil {
		a := int64(-904)
		if hp := strings.Split(it.PID.Address, ":"); len(hp) == 2 {
			if p, err := strconv.Atoi(hp[1]); err == nil {
				a = addrTok(hp[0], p)
			}
		}
		if it.PID.Id != it.Name {
			a = -905
		}
		pid = hx.C("Some", a)
	}
	return hx.C("It", numAfter(it.Name, "s"), numAfter(it.ClusterNodeID, clusterName+"@n"), int64(it.State), pid)
}

func listTerm(l *app.ServiceList) any {
	if l == nil {
		return "None"
	}
	items := make([]any, len(l.Items))
	for i, it := range l.Items {
		items[i] = itemTerm(it)
	}
	return hx.C("Some", items)
}

func memberLess(a, b *cluster.Member) bool {
	if a.Id != b.Id {
		return a.Id < b.Id
	}
	if a.State != b.State {
		return a.State < b.State
	}
	if a.Host != b.Host {
		return a.Host < b.Host
	}
	if a.Port != b.Port {
		return a.Port < b.Port
	}
	return strings.Join(a.Services, "\x00") < strings.Join(b.Services, "\x00")
}

// queryAll asks the real getters of the real app.Cluster
func queryAll(c *app.Cluster) hx.T {
	types, work, names := []any{}, []any{}, []any{}
	for _, t := range probeTypes {
		types = append(types, hx.Pair{A: t, B: listTerm(c.GetServiceList(typeName(t)))})
		work = append(work, hx.Pair{A: t, B: listTerm(c.GetWorkServiceList(typeName(t)))})
	}
	for _, n := range probeNames {
		var a any = "None"
		if it := c.GetService(svcName(n)); it != nil {
			a = hx.C("Some", itemTerm(it))
		}
		names = append(names, hx.Pair{A: n, B: a})
	}
	wn := []int64{}
	for _, s := range c.GetWorkServiceNames() {
		wn = append(wn, numAfter(s, "s"))
	}
	sort.Slice(wn, func(i, j int) bool { return wn[i] < wn[j] })
	mm := c.GetMembers()
	ml := make([]*cluster.Member, 0, len(mm))
	for _, m := range mm {
		ml = append(ml, m)
	}
	sort.SliceStable(ml, func(i, j int) bool { return memberLess(ml[i], ml[j]) })
	mt := make([]any, len(ml))
	for i, m := range ml {
		mt[i] = memberTerm(m)
	}
	return hx.C("Ans", types, work, names, hx.Norm(wn), mt)
}

// ---------------------------------------------------------------- recording ICluster

// recorder is the ICluster the provider talks to.  Every published list is put into a
// canonical order (the provider's order is that of a Go map), recorded, handed to the real
// app.Cluster.UpdateClusterTopology, and the real getters are queried right away - on the
// goroutine that runs _keepWatching, i.e. before the next response is handled.
type recorder struct {
	self nodeRec
	c    *app.Cluster
	pubs []hx.T // BPub terms in publication order
	big  bool   // some publication had >= 2 members
}

func (r *recorder) GetAddress() string    { return fmt.Sprintf("%s:%d", host(r.self.addr), port(r.self.addr)) }
func (r *recorder) GetName() string       { return clusterName }
func (r *recorder) GetID() string         { return memberID(r.self.id) }
func (r *recorder) GetState() int         { return int(r.self.state) }
func (r *recorder) GetServices() []string { return svcStrings(r.self.svcs) }

func (r *recorder) UpdateClusterTopology(ms []*cluster.Member) {
	sorted := append([]*cluster.Member{}, ms...)
	sort.SliceStable(sorted, func(i, j int) bool { return memberLess(sorted[i], sorted[j]) })
	mt := make([]any, len(sorted))
	for i, m := range sorted {
		mt[i] = memberTerm(m)
	}
	if len(sorted) >= 2 {
		r.big = true
	}
	r.c.UpdateClusterTopology(sorted)
	r.pubs = append(r.pubs, hx.C("BPub", mt, queryAll(r.c)))
}

// ---------------------------------------------------------------- executing a case

func watchResponse(p *etcd.Provider, evs []any) clientv3.WatchResponse {
	resp := clientv3.WatchResponse{}
	for _, e := range evs {
		ev := hx.AsTerm(e)
		key := []byte(p.VerifKey(nodeID(ev.Int(0))))
		switch ev.Name {
		case "EPut":
			resp.Events = append(resp.Events, &clientv3.Event{Type: mvccpb.PUT,
				Kv: &mvccpb.KeyValue{Key: key, Value: parseNode(ev.Term(1)).json()}})
		case "EDel":
			resp.Events = append(resp.Events, &clientv3.Event{Type: mvccpb.DELETE, Kv: &mvccpb.KeyValue{Key: key}})
		case "EJunk":
			if ev.Int(1) == 0 {
				resp.Events = append(resp.Events, &clientv3.Event{Type: mvccpb.PUT,
					Kv: &mvccpb.KeyValue{Key: key, Value: []byte("{not json")}})
			} else {
				resp.Events = append(resp.Events, &clientv3.Event{Type: mvccpb.Event_EventType(7),
					Kv: &mvccpb.KeyValue{Key: key}})
			}
		default:
			panic("c08: unknown event " + ev.Name)
		}
	}
	return resp
}

// Exec runs one op list and returns one observation per op.  Consecutive OBatch ops are fed
// to ONE run of the real _keepWatching (one injected watch channel); its publications are
// attributed in order to the non-empty responses.
func Exec(ops []hx.T) (obs []any, nontrivial bool) {
	var p *etcd.Provider
	var rec *recorder
	i := 0
	for i < len(ops) {
		o := ops[i]
		switch o.Name {
		case "OStart":
			rec = &recorder{self: parseNode(o.Term(0)), c: app.NewCluster()}
			var listing [][]byte
			for _, n := range o.List(1) {
				listing = append(listing, parseNode(hx.AsTerm(n)).json())
			}
			var err error
			p, err = etcd.VerifNewProvider(rec, listing)
			if err != nil {
				panic(err)
			}
			obs = append(obs, takePubs(rec, 1)...)
			i++
		case "OBatch":
			j := i
			for j < len(ops) && ops[j].Name == "OBatch" {
				j++
			}
			if p == nil {
				for ; i < j; i++ {
					obs = append(obs, "BNone")
				}
				break
			}
			var resps []clientv3.WatchResponse
			for k := i; k < j; k++ {
				resps = append(resps, watchResponse(p, ops[k].List(0)))
			}
			if err := p.VerifFeed(resps); err != nil {
				panic(err)
			}
			for k := i; k < j; k++ {
				if len(ops[k].List(0)) == 0 {
					obs = append(obs, "BNone")
				} else if len(rec.pubs) > 0 {
					obs = append(obs, takePubs(rec, 1)...)
					nontrivial = nontrivial || rec.big
				} else {
					obs = append(obs, "BNone")
				}
			}
			// publications nobody asked for (e.g. for an empty response) make the
			// observation list longer than the op list, which the comparison rejects
			obs = append(obs, takePubs(rec, len(rec.pubs))...)
			i = j
		case "OStress":
			ok, differ := stress(hx.Terms(o.Args[0]), hx.Terms(o.Args[1]))
			obs = append(obs, hx.C("BStress", ok))
			nontrivial = nontrivial || differ
			i++
		default:
			panic("c08: unknown op " + o.Name)
		}
	}
	return
}

func takePubs(r *recorder, n int) []any {
	out := []any{}
	for k := 0; k < n && k < len(r.pubs); k++ {
		out = append(out, r.pubs[k])
	}
	r.pubs = r.pubs[len(out):]
	for len(out) < n {
		out = append(out, "BNone")
	}
	return out
}

func init() {
	logger.SetLogLevel(logrus.PanicLevel)
}

// ---------------------------------------------------------------- entry point

func Run(cfg *hx.Config) error {
	emit := func(kind string, ops []hx.T, tags []string) {
		obs, nt := Exec(ops)
		cfg.Emit(hx.Case{Kind: kind, Ops: ops, Obs: obs, Nontrivial: nt, Tags: tags})
	}
	if cfg.In != "" {
		cs, err := hx.ReadCases(cfg.In)
		if err != nil {
			return err
		}
		for _, c := range cs {
			kind := c.Kind
			if kind == "" {
				kind = "replay"
			}
			emit(kind, hx.Terms(c.Ops), c.Tags)
		}
		return nil
	}
	generate(cfg, emit)
	return nil
}
