// Package c08 drives the real etcd provider (StartMember / StartClient, the watch loop with
// handleWatchResponse -> updateNodesWithChanges -> publishClusterTopologyEvent, the keep-alive loop,
// listAgain, Shutdown) on an injected etcd client (fake.go; hook VerifNewProviderWithClient), hands
// every published member list to the real app.Cluster (ClusterServices.MakeMembers) and asks the
// real getters.  Ordinary lives (OStart ...) are fed generated watch responses; scripted lives
// (OBoot, boot.go) run on a key space with revisions under an explicit schedule of every request
// and response.  Reader atomicity is measured (not proved) by a stress run.
package c08

import (
	"fmt"
	"sort"
	"strconv"
	"strings"
	"sync"
	"time"

	"github.com/asynkron/protoactor-go/actor"
	"github.com/sirupsen/logrus"
	"go.etcd.io/etcd/api/v3/mvccpb"
	clientv3 "go.etcd.io/etcd/client/v3"

	"github.com/dfklegend/cell2/node/app"
	"github.com/dfklegend/cell2/node/cluster"
	"github.com/dfklegend/cell2/node/cluster/clusterproviders/etcd"
	"github.com/dfklegend/cell2/node/config"
	"github.com/dfklegend/cell2/utils/logger"

	"verifh/hx"
)

const clusterName = "ut"

var (
	probeTypes = []int64{0, 1, 2, 3, 4}
	probeNames = []int64{0, 1, 2, 3, 4, 5, 6, 7}
)

// ---------------------------------------------------------------- tokens <-> Go values

func memberID(k int64) string { return fmt.Sprintf("n%d", k) }
func nodeID(k int64) string   { return fmt.Sprintf("%s@n%d", clusterName, k) }

// address tokens: a >= 0 -> host h<a>, port 1000+a; -1 -> the provider's "nonhost" pseudo address
// (host "nonhost", port -1); anything below -1 -> a string that is no host:port at all
func host(a int64) string {
	if a < 0 {
		return "nonhost"
	}
	return fmt.Sprintf("h%d", a)
}
func port(a int64) int {
	if a < 0 {
		return -1
	}
	return int(1000 + a)
}
func addrString(a int64) string {
	switch {
	case a == -1:
		return "nonhost"
	case a < -1:
		return "garbage"
	}
	return fmt.Sprintf("%s:%d", host(a), port(a))
}
func typeName(t int64) string { return fmt.Sprintf("t%d", t) }
func svcName(n int64) string  { return fmt.Sprintf("s%d", n) }

var badNames = []string{"", "nodot", ".s1", "t1.", "t1.s1.x"}

func svcString(s hx.T) string {
	switch s.Name {
	case "Svc":
		return typeName(s.Int(0)) + "." + svcName(s.Int(1))
	case "SBad":
		v := s.Int(0)
		if v >= 0 && int(v) < len(badNames) {
			return badNames[v]
		}
		return fmt.Sprintf("junk%d", v)
	}
	panic("c08: bad svc term " + s.Name)
}

func svcStrings(l []any) []string {
	out := make([]string, len(l))
	for i, s := range l {
		out[i] = svcString(hx.AsTerm(s))
	}
	return out
}

// inverse projections; anything unexpected becomes a negative sentinel so that it can never
// compare equal to a model value
func numAfter(s, prefix string) int64 {
	if !strings.HasPrefix(s, prefix) {
		return -900
	}
	n, err := strconv.ParseInt(s[len(prefix):], 10, 64)
	if err != nil {
		return -901
	}
	return n
}

func svcTerm(s string) hx.T {
	for v, b := range badNames {
		if s == b {
			return hx.C("SBad", int64(v))
		}
	}
	if strings.HasPrefix(s, "junk") {
		return hx.C("SBad", numAfter(s, "junk"))
	}
	parts := strings.Split(s, ".")
	if len(parts) == 2 {
		return hx.C("Svc", numAfter(parts[0], "t"), numAfter(parts[1], "s"))
	}
	return hx.C("SBad", int64(-902))
}

func addrTok(h string, p int) int64 {
	if h == "nonhost" && p == -1 {
		return -1
	}
	a := numAfter(h, "h")
	if a >= 0 && port(a) != p {
		return -903
	}
	return a
}

type nodeRec struct {
	id, state, addr int64
	alive           bool
	svcs            []any
}

func parseNode(t hx.T) nodeRec {
	if t.Name != "Nd" {
		panic("c08: bad node term " + t.Name)
	}
	return nodeRec{id: t.Int(0), alive: t.Bool(1), state: t.Int(2), addr: t.Int(3), svcs: t.List(4)}
}

// the JSON value a node registers (the real Node.Serialize)
func (n nodeRec) node() *etcd.Node {
	sv := svcStrings(n.svcs)
	if len(sv) == 0 && n.id%2 == 1 {
		sv = nil // "services":null - MemberStatus turns it into an empty list
	}
	nd := etcd.NewNode(nodeID(n.id), host(n.addr), port(n.addr), sv)
	if n.addr%2 == 1 {
		nd.Host = "" // GetAddress falls back to Address
	}
	nd.SetState(int(n.state))
	nd.SetAlive(n.alive)
	return nd
}

func (n nodeRec) json() []byte {
	b, err := n.node().Serialize()
	if err != nil {
		panic(err)
	}
	return b
}

func memberFromTerm(t hx.T) *cluster.Member {
	if t.Name != "Mb" {
		panic("c08: bad member term " + t.Name)
	}
	return &cluster.Member{Id: nodeID(t.Int(0)), State: int(t.Int(1)), Host: host(t.Int(2)),
		Port: int32(port(t.Int(2))), Services: svcStrings(t.List(3))}
}

func memberTerm(m *cluster.Member) hx.T {
	sv := make([]any, len(m.Services))
	for i, s := range m.Services {
		sv[i] = svcTerm(s)
	}
	return hx.C("Mb", numAfter(m.Id, clusterName+"@n"), int64(m.State), addrTok(m.Host, int(m.Port)), sv)
}

func itemTerm(it *app.ServiceItem) hx.T {
	var pid any = "None"
	if it.PID != nil {
		a := int64(-904)
		if hp := strings.Split(it.PID.Address, ":"); len(hp) == 2 {
			if p, err := strconv.Atoi(hp[1]); err == nil {
				a = addrTok(hp[0], p)
			}
		}
		if it.PID.Id != it.Name {
			a = -905
		}
		pid = hx.C("Some", a)
	}
	return hx.C("It", numAfter(it.Name, "s"), numAfter(it.ClusterNodeID, clusterName+"@n"), int64(it.State), pid)
}

func listTerm(l *app.ServiceList) any {
	if l == nil {
		return "None"
	}
	items := make([]any, len(l.Items))
	for i, it := range l.Items {
		items[i] = itemTerm(it)
	}
	return hx.C("Some", items)
}

func memberLess(a, b *cluster.Member) bool {
	if a.Id != b.Id {
		return a.Id < b.Id
	}
	if a.State != b.State {
		return a.State < b.State
	}
	if a.Host != b.Host {
		return a.Host < b.Host
	}
	if a.Port != b.Port {
		return a.Port < b.Port
	}
	return strings.Join(a.Services, "\x00") < strings.Join(b.Services, "\x00")
}

// queryAll asks the real getters of the real app.Cluster
func queryAll(c *app.Cluster) hx.T {
	types, work, names := []any{}, []any{}, []any{}
	for _, t := range probeTypes {
		types = append(types, hx.Pair{A: t, B: listTerm(c.GetServiceList(typeName(t)))})
		work = append(work, hx.Pair{A: t, B: listTerm(c.GetWorkServiceList(typeName(t)))})
	}
	for _, n := range probeNames {
		var a any = "None"
		if it := c.GetService(svcName(n)); it != nil {
			a = hx.C("Some", itemTerm(it))
		}
		names = append(names, hx.Pair{A: n, B: a})
	}
	wn := []int64{}
	for _, s := range c.GetWorkServiceNames() {
		wn = append(wn, numAfter(s, "s"))
	}
	sort.Slice(wn, func(i, j int) bool { return wn[i] < wn[j] })
	mm := c.GetMembers()
	ml := make([]*cluster.Member, 0, len(mm))
	for _, m := range mm {
		ml = append(ml, m)
	}
	sort.SliceStable(ml, func(i, j int) bool { return memberLess(ml[i], ml[j]) })
	mt := make([]any, len(ml))
	for i, m := range ml {
		mt[i] = memberTerm(m)
	}
	return hx.C("Ans", types, work, names, hx.Norm(wn), mt)
}

// ---------------------------------------------------------------- recording ICluster

// recorder is the ICluster the provider talks to.  It embeds the REAL app.Cluster of the global
// app.Node (GetAddress / GetName / GetID come from Cluster.InitSelf); the node's services and
// state are overridden so that arbitrary records can be tried.  Every published list is put into
// a canonical order (the provider's order is that of a Go map), recorded, handed to the real
// Cluster.UpdateClusterTopology, and the real getters are queried right away - on the goroutine
// that runs _keepWatching, i.e. before the next response is handled.
type recorder struct {
	*app.Cluster
	self nodeRec
	mu   sync.Mutex
	pubs []pubRec
}

type pubRec struct {
	members []any
	answers hx.T
}

func (r *recorder) GetState() int         { return int(r.self.state) }
func (r *recorder) GetServices() []string { return svcStrings(r.self.svcs) }

func (r *recorder) UpdateClusterTopology(ms []*cluster.Member) {
	sorted := append([]*cluster.Member{}, ms...)
	sort.SliceStable(sorted, func(i, j int) bool { return memberLess(sorted[i], sorted[j]) })
	mt := make([]any, len(sorted))
	for i, m := range sorted {
		mt[i] = memberTerm(m)
	}
	r.Cluster.UpdateClusterTopology(sorted)
	q := queryAll(r.Cluster)
	r.mu.Lock()
	r.pubs = append(r.pubs, pubRec{mt, q})
	r.mu.Unlock()
}

func (r *recorder) take() (pubRec, bool) {
	r.mu.Lock()
	defer r.mu.Unlock()
	if len(r.pubs) == 0 {
		return pubRec{}, false
	}
	p := r.pubs[0]
	r.pubs = r.pubs[1:]
	return p, true
}

func (r *recorder) pending() int {
	r.mu.Lock()
	defer r.mu.Unlock()
	return len(r.pubs)
}

// ---------------------------------------------------------------- one provider life

type life struct {
	p    *etcd.Provider
	f    *fakeEtcd
	rec  *recorder
	key0 string // key prefix of the cluster, "/cell2/ut/"
}

const baseKey = "/cell2"

func clusterPrefix() string { return baseKey + "/" + clusterName + "/" }
func keyOf(k int64) string  { return clusterPrefix() + nodeID(k) }

func keyTok(key string) int64 {
	if !strings.HasPrefix(key, clusterPrefix()) {
		return -906
	}
	return numAfter(key[len(clusterPrefix()):], clusterName+"@n")
}

// the record a stored JSON value decodes to (real NewNodeFromBytes), projected to tokens
func recordTerm(val []byte) hx.T {
	n, err := etcd.NewNodeFromBytes(val)
	if err != nil {
		return hx.C("Nd", int64(-908), false, int64(0), int64(0), []any{})
	}
	h, p := n.GetAddress()
	sv := make([]any, len(n.Services))
	for i, s := range n.Services {
		sv[i] = svcTerm(s)
	}
	return hx.C("Nd", numAfter(n.ID, clusterName+"@n"), n.IsAlive(), int64(n.State), addrTok(h, p), sv)
}

func regTerms(recs []kvRec) []any {
	out := []any{}
	for _, r := range recs {
		out = append(out, hx.Pair{A: keyTok(r.key), B: recordTerm([]byte(r.val))})
	}
	return out
}

func watchResponse(evs []any) clientv3.WatchResponse {
	resp := clientv3.WatchResponse{}
	for _, e := range evs {
		ev := hx.AsTerm(e)
		key := []byte(keyOf(ev.Int(0)))
		switch ev.Name {
		case "EPut":
			resp.Events = append(resp.Events, &clientv3.Event{Type: mvccpb.PUT,
				Kv: &mvccpb.KeyValue{Key: key, Value: parseNode(ev.Term(1)).json()}})
		case "EDel":
			resp.Events = append(resp.Events, &clientv3.Event{Type: mvccpb.DELETE, Kv: &mvccpb.KeyValue{Key: key}})
		case "EJunk":
			if ev.Int(1) == 0 {
				resp.Events = append(resp.Events, &clientv3.Event{Type: mvccpb.PUT,
					Kv: &mvccpb.KeyValue{Key: key, Value: []byte("{not json")}})
			} else {
				resp.Events = append(resp.Events, &clientv3.Event{Type: mvccpb.Event_EventType(7),
					Kv: &mvccpb.KeyValue{Key: key}})
			}
		default:
			panic("c08: unknown event " + ev.Name)
		}
	}
	return resp
}

// start runs the REAL StartMember: init, fetchNodes (Get on the fake KV), updateNodesWithSelf,
// publish, startWatching (Watch on the fake Watcher), registerService and startKeepAlive (Put /
// KeepAlive on the fake KV / Lease).
func start(self nodeRec, listing []any) (*life, any) {
	c := app.Node.GetCluster()
	c.InitSelf(addrString(self.addr), &config.ClusterInfo{Enable: true, Name: clusterName}, memberID(self.id), nil, nil)
	rec := &recorder{Cluster: c, self: self}
	f := newFake()
	for _, l := range listing {
		lt := hx.AsTerm(l)
		switch lt.Name {
		case "LNode":
			n := parseNode(lt.Term(0))
			f.listing = append(f.listing, &mvccpb.KeyValue{Key: []byte(keyOf(n.id)), Value: n.json()})
		case "LJunk":
			f.listing = append(f.listing, &mvccpb.KeyValue{Key: []byte(keyOf(99)), Value: []byte("{not json")})
		case "LFail":
			f.getErr = true
		default:
			panic("c08: bad listing entry " + lt.Name)
		}
	}
	p, err := etcd.VerifNewProviderWithClient(baseKey, fakeKV{f: f}, fakeWatcher{f: f}, fakeLeaser{f: f}, fakeLease)
	if err != nil {
		panic(err)
	}
	p.VerifSetRetryInterval(2 * time.Millisecond)
	if err := p.StartMember(rec); err != nil {
		return nil, "BFail"
	}
	app.Node.SetProvider(p)
	okW, okK := waitSig(f.watchSig), waitSig(f.kaSig)
	l := &life{p: p, f: f, rec: rec}
	f.mu.Lock()
	wired := okW && okK &&
		len(f.getKeys) == 1 && f.getKeys[0] == clusterPrefix() && f.getPref[0] &&
		len(f.watchKeys) == 1 && f.watchKeys[0] == clusterPrefix() && f.watchPref[0] && f.watchRevs[0] == 0 &&
		len(f.kaIDs) == 1 && f.kaIDs[0] == fakeLease
	f.mu.Unlock()
	pub, ok := rec.take()
	if !ok {
		return l, "BNone"
	}
	return l, hx.C("BStart", regTerms(f.putsFrom(0)), wired, pub.members, pub.answers)
}

// end stops a provider life the way a node stops it (real Shutdown: deregister, cancel the
// watch) and lets the two goroutines run out: the client closes a watch channel whose context is
// cancelled, and the keep-alive channel.
func (l *life) end() (key int64, cancelled bool) {
	nd := len(l.f.dels)
	l.p.Shutdown(true)
	app.Node.SetProvider(nil)
	ch, ctx, _ := l.f.curWatch()
	cancelled = ctx != nil && ctx.Err() != nil
	l.f.mu.Lock()
	key = -907
	if len(l.f.dels) == nd+1 {
		key = keyTok(l.f.dels[nd])
	}
	ka := l.f.kaCh
	l.f.watchCh, l.f.kaCh = nil, nil
	l.f.mu.Unlock()
	if ch != nil {
		close(ch)
	}
	if ka != nil {
		// a keep-alive response that arrives after Shutdown ends keepAliveForever
		select {
		case ka <- &clientv3.LeaseKeepAliveResponse{ID: fakeLease, TTL: 3}:
		case <-time.After(syncTimeout()):
		}
		close(ka)
	}
	return
}

// ---------------------------------------------------------------- executing a case

func pubObs(kind string, p pubRec) hx.T { return hx.C(kind, p.members, p.answers) }

// Exec runs one op list and returns one observation per op.  Consecutive OBatch ops go to the
// provider's watch goroutine one response after the other on the channel its Watch call got; an
// empty response after the group is the barrier (the channel is unbuffered, so when the barrier
// is taken everything before it has been handled and published).
func Exec(ops []hx.T) (obs []any, nontrivial bool) {
	var cur *life
	defer func() {
		if cur != nil {
			cur.end()
		}
	}()
	// the directory of the global node starts empty in every case
	app.Node.GetCluster().UpdateClusterTopology(nil)
	i := 0
	for i < len(ops) {
		o := ops[i]
		switch o.Name {
		case "OStart":
			if cur != nil {
				cur.end()
				cur = nil
			}
			var ob any
			cur, ob = start(parseNode(o.Term(0)), o.List(1))
			obs = append(obs, ob)
			i++
		case "OBatch":
			j := i
			for j < len(ops) && ops[j].Name == "OBatch" {
				j++
			}
			if cur == nil {
				for ; i < j; i++ {
					obs = append(obs, "BNone")
				}
				break
			}
			alive := true
			for k := i; k < j && alive; k++ {
				alive = cur.f.send(watchResponse(ops[k].List(0)))
			}
			if alive {
				cur.f.send(clientv3.WatchResponse{}) // barrier
			}
			for k := i; k < j; k++ {
				if len(ops[k].List(0)) == 0 {
					obs = append(obs, "BNone")
				} else if p, ok := cur.rec.take(); ok {
					obs = append(obs, pubObs("BPub", p))
					if len(p.members) >= 2 {
						nontrivial = true
					}
				} else {
					obs = append(obs, "BNone")
				}
			}
			// publications nobody asked for (e.g. for an empty response) make the
			// observation list longer than the op list, which the comparison rejects
			for cur.rec.pending() > 0 {
				p, _ := cur.rec.take()
				obs = append(obs, pubObs("BPub", p))
			}
			i = j
		case "OSelfState":
			// the node changes its own state: App.UpdateNodeState -> Provider.UpdateClusterState;
			// the next keep-alive tick makes keepAliveForever revoke the lease and register again
			if cur == nil {
				obs = append(obs, "BNone")
			} else {
				before := cur.f.putCount()
				app.Node.UpdateNodeState(int(o.Int(0)))
				ok := cur.f.sendKeepAlive() && waitSig(cur.f.kaSig)
				recs := cur.f.putsFrom(before)
				switch {
				case !ok || len(recs) == 0:
					obs = append(obs, "BNone")
				case len(recs) == 1:
					obs = append(obs, hx.C("BReg", keyTok(recs[0].key), recordTerm([]byte(recs[0].val))))
				default:
					obs = append(obs, hx.C("BReg", int64(-907), recordTerm([]byte(recs[len(recs)-1].val))))
				}
				nontrivial = true
			}
			i++
		case "OLeaseLost":
			// the keep-alive stream ends (lease expired / connection lost): keepAliveForever
			// returns, startKeepAlive registers the node again (after retryInterval if the first
			// attempt fails)
			if cur == nil {
				obs = append(obs, "BNone")
			} else {
				before := cur.f.putCount()
				cur.f.mu.Lock()
				switch o.Int(0) {
				case 1:
					cur.f.putFail = 1
				case 2:
					cur.f.kaFail = 1
				}
				ka := cur.f.kaCh
				cur.f.kaCh = nil
				cur.f.mu.Unlock()
				if ka != nil {
					close(ka)
				}
				ok := waitSig(cur.f.kaSig)
				recs := cur.f.putsFrom(before)
				want := 1
				if o.Int(0) == 2 {
					want = 2 // the attempt whose KeepAlive failed had registered already
				}
				switch {
				case !ok || len(recs) == 0:
					obs = append(obs, "BNone")
				case len(recs) == want && (want == 1 || recs[0] == recs[1]):
					obs = append(obs, hx.C("BReg", keyTok(recs[0].key), recordTerm([]byte(recs[0].val))))
				default:
					obs = append(obs, hx.C("BReg", int64(-907), recordTerm([]byte(recs[len(recs)-1].val))))
				}
			}
			i++
		case "ORewatch":
			// the watch stream ends (0: closed by the client, otherwise: an error response);
			// the provider's loop must open a new watch and keep folding
			if cur == nil {
				obs = append(obs, "BNone")
			} else {
				ch, _, _ := cur.f.curWatch()
				switch {
				case ch == nil:
				case o.Int(0) == 0:
					close(ch)
				default:
					// a cancel response.  (A COMPACTION error makes the provider list the key space
					// again; that needs a key space to list and is driven by the scripted lives, boot.go)
					cur.f.send(clientv3.WatchResponse{Canceled: true})
				}
				// that stream is over; the provider's next Watch call installs a new channel
				cur.f.mu.Lock()
				if cur.f.watchCh == ch {
					cur.f.watchCh = nil
				}
				cur.f.mu.Unlock()
				ok := waitSig(cur.f.watchSig)
				_, _, n := cur.f.curWatch()
				if !ok {
					n = -909
				}
				obs = append(obs, hx.C("BWatch", int64(n), cur.p.GetHealthStatus() == nil))
			}
			i++
		case "OShutdown":
			if cur == nil {
				obs = append(obs, "BNone")
			} else {
				k, c := cur.end()
				cur = nil
				obs = append(obs, hx.C("BDown", k, c))
			}
			i++
		case "OQuery":
			obs = append(obs, hx.C("BQuery", queryExt()))
			i++
		case "ONode":
			obs = append(obs, nodeRoundTrip(parseNode(o.Term(0))))
			i++
		case "OSelfCluster":
			obs = append(obs, selfCluster(o.Int(0), o.Int(1), o.List(2)))
			i++
		case "OBoot":
			// a whole provider life on the scripted key space (boot.go)
			if cur != nil {
				cur.end()
				cur = nil
			}
			ob, nt := execBoot(o)
			obs = append(obs, ob)
			nontrivial = nontrivial || nt
			i++
		case "OStress":
			ok, differ := stress(hx.Terms(o.Args[0]), hx.Terms(o.Args[1]))
			obs = append(obs, hx.C("BStress", ok))
			nontrivial = nontrivial || differ
			i++
		default:
			panic("c08: unknown op " + o.Name)
		}
	}
	return
}

// ---------------------------------------------------------------- the other getters (node/app/utils.go)

func pidTerm(p *actor.PID, wantID string) any {
	if p == nil {
		return "None"
	}
	a := int64(-904)
	if hp := strings.Split(p.Address, ":"); len(hp) == 2 {
		if n, err := strconv.Atoi(hp[1]); err == nil {
			a = addrTok(hp[0], n)
		}
	}
	if wantID != "" && p.Id != wantID {
		a = -905
	}
	return hx.C("Some", a)
}

func optItem(it *app.ServiceItem) any {
	if it == nil {
		return "None"
	}
	return hx.C("Some", itemTerm(it))
}

func optName(s string) any {
	if s == "" {
		return "None"
	}
	return hx.C("Some", numAfter(s, "s"))
}

func optLen(l *app.ServiceList) any {
	if l == nil {
		return "None"
	}
	return hx.C("Some", int64(len(l.Items)))
}

// queryExt asks the package-level getters of node/app (they go through the global app.Node and
// its Cluster): first / random picks per type, PIDs per name.
func queryExt() hx.T {
	ts, ns := []any{}, []any{}
	for _, t := range probeTypes {
		tn := typeName(t)
		ts = append(ts, hx.C("QT", t,
			optItem(app.GetFirstServiceItem(tn)), optItem(app.GetFirstWorkServiceItem(tn)),
			pidTerm(app.GetFirstService(tn), ""), pidTerm(app.GetFirstWorkService(tn), ""),
			optItem(app.RandGetServiceItem(tn)), optItem(app.RandGetWorkServiceItem(tn)),
			pidTerm(app.RandGetService(tn), ""), pidTerm(app.RandGetWorkService(tn), ""),
			optName(app.RandGetServiceName(tn)), optName(app.RandGetWorkServiceName(tn)),
			optLen(app.GetServices(tn)), optLen(app.GetWorkServices(tn))))
	}
	for _, n := range probeNames {
		sn := svcName(n)
		ns = append(ns, hx.C("QN", n, pidTerm(app.GetServicePID(sn), sn), pidTerm(app.GetWorkServicePID(sn), sn),
			pidTerm(app.Node.GetService(sn), sn)))
	}
	return hx.C("Ext", ts, ns)
}

// ---------------------------------------------------------------- node.go directly

// nodeRoundTrip: what the fold assumes about etcd.Node - Serialize / NewNodeFromBytes /
// Deserialize keep id, alive, state, address and services; a dead clone leaves the original
// alive; Equal is by id.
func nodeRoundTrip(r nodeRec) hx.T {
	nd := r.node()
	b, err := nd.Serialize()
	if err != nil {
		return hx.C("BNode", recordTerm(nil), false)
	}
	n2, err2 := etcd.NewNodeFromBytes(b)
	n3 := &etcd.Node{}
	err3 := n3.Deserialize(b)
	ok := err2 == nil && err3 == nil
	if ok {
		h2, p2 := n2.GetAddress()
		h3, p3 := n3.GetAddress()
		ok = n2.ID == n3.ID && n2.IsAlive() == n3.IsAlive() && n2.State == n3.State && h2 == h3 && p2 == p3 &&
			strings.Join(n2.Services, "\x00") == strings.Join(n3.Services, "\x00")
		cloned := *n2
		cloned.SetAlive(false)
		ok = ok && !cloned.IsAlive() && n2.IsAlive() == r.alive && cloned.ID == n2.ID && cloned.State == n2.State
		other := etcd.NewNode(n2.ID+"x", "h", 1, nil)
		var nilNode *etcd.Node
		ok = ok && n2.Equal(n2) && n2.Equal(n3) && n3.Equal(n2) && !n2.Equal(other) && !n2.Equal(nil) && !nilNode.Equal(n2)
		_, has := n2.GetMeta("k") // Meta is not serialised
		n2.SetMeta("k", "v")
		v, has2 := n2.GetMeta("k")
		ok = ok && !has && has2 && v == "v"
		cn, mn := app.SplitNodeId(nodeID(r.id)) // the provider names nodes cluster@member
		ok = ok && cn == clusterName && mn == memberID(r.id)
		if a, b := app.SplitNodeId("no-at-sign"); a != "" || b != "" {
			ok = false
		}
		ms := n2.MemberStatus()
		ok = ok && ms.Id == n2.ID && ms.Services != nil && len(ms.Services) == len(n2.Services) && ms.State == n2.State
	}
	return hx.C("BNode", recordTerm(b), ok)
}

// ---------------------------------------------------------------- cluster.go: the self cluster

// selfCluster is ClusterModule.makeSelfCluster (cluster disabled): the real Cluster.InitSelf
// (makeFullNameServices from the service configuration), BuildSelfClusterTopology and
// UpdateClusterTopology.  svcs: (name, configured type); type 0 = no configuration entry.
func selfCluster(id, addr int64, svcs []any) hx.T {
	c := app.Node.GetCluster()
	var names []string
	cfg := map[string]*config.ServiceInfo{}
	for _, s := range svcs {
		p := s.(hx.Pair)
		n, t := p.A.(int64), p.B.(int64)
		names = append(names, svcName(n))
		if t != 0 {
			cfg[svcName(n)] = &config.ServiceInfo{Type: typeName(t)}
		}
	}
	c.InitSelf(addrString(addr), &config.ClusterInfo{Enable: false, Name: clusterName}, memberID(id), names, cfg)
	ms := c.BuildSelfClusterTopology()
	consistent := c.GetID() == memberID(id) && c.GetName() == clusterName && c.GetAddress() == addrString(addr) &&
		c.GetState() == 1 && len(ms) == 1 && strings.Join(ms[0].Services, "\x00") == strings.Join(c.GetServices(), "\x00")
	c.UpdateClusterTopology(ms)
	mt := []any{}
	for _, m := range ms {
		mt = append(mt, memberTerm(m))
	}
	if !consistent {
		mt = append(mt, hx.C("Mb", int64(-910), int64(0), int64(0), []any{}))
	}
	return hx.C("BPub", mt, queryAll(c))
}

func init() {
	logger.SetLogLevel(logrus.PanicLevel)
}

// ---------------------------------------------------------------- entry point

func Run(cfg *hx.Config) error {
	emit := func(kind string, ops []hx.T, tags []string) {
		obs, nt := Exec(ops)
		cfg.Emit(hx.Case{Kind: kind, Ops: ops, Obs: obs, Nontrivial: nt, Tags: tags})
	}
	if cfg.In != "" {
		cs, err := hx.ReadCases(cfg.In)
		if err != nil {
			return err
		}
		for _, c := range cs {
			kind := c.Kind
			if kind == "" {
				kind = "replay"
			}
			emit(kind, hx.Terms(c.Ops), c.Tags)
		}
		return nil
	}
	// generate everything first, then emit every third case starting at 0, 1, 2: the evaluation is
	// sharded in blocks of consecutive cases, this spreads the large random histories evenly
	type gc struct {
		kind string
		ops  []hx.T
		tags []string
	}
	var all []gc
	generate(cfg, func(kind string, ops []hx.T, tags []string) { all = append(all, gc{kind, ops, tags}) })
	stride := 3
	if len(all) > 1500 {
		stride = 1 + len(all)/500
	}
	for off := 0; off < stride; off++ {
		for i := off; i < len(all); i += stride {
			emit(all[i].kind, all[i].ops, all[i].tags)
		}
	}
	return nil
}
