package c08

import (
	"fmt"
	"sort"
	"strings"
	"sync"
	"sync/atomic"

	"github.com/dfklegend/cell2/node/app"
	"github.com/dfklegend/cell2/node/cluster"

	"verifh/hx"
)

// Reader atomicity on the real code can only be MEASURED: one updater goroutine alternates
// between two complete views with the real ClusterServices.MakeMembers (four plain reference
// stores), several reader goroutines call the real getters and check that every single answer
// is an answer one of the two views gives.  A `false` is a violation; a `true` proves nothing
// (the proof is C08_reader_atomic, on the model).

const (
	stressReaders = 6
	stressRounds  = 400
)

func itemStr(it *app.ServiceItem) string {
	if it == nil {
		return "nil"
	}
	pid := "nil"
	if it.PID != nil {
		pid = it.PID.Address + "/" + it.PID.Id
	}
	return fmt.Sprintf("%s|%s|%d|%s", it.Name, it.ClusterNodeID, it.State, pid)
}

func listStr(l *app.ServiceList) string {
	if l == nil {
		return "nil"
	}
	parts := make([]string, len(l.Items))
	for i, it := range l.Items {
		parts[i] = itemStr(it)
	}
	return "[" + strings.Join(parts, ";") + "]"
}

type probe struct {
	name string
	ask  func(c *app.Cluster) string
}

func probes() []probe {
	var ps []probe
	for _, t := range probeTypes {
		tn := typeName(t)
		ps = append(ps, probe{"list:" + tn, func(c *app.Cluster) string { return listStr(c.GetServiceList(tn)) }})
		ps = append(ps, probe{"work:" + tn, func(c *app.Cluster) string { return listStr(c.GetWorkServiceList(tn)) }})
	}
	for _, n := range probeNames {
		sn := svcName(n)
		ps = append(ps, probe{"name:" + sn, func(c *app.Cluster) string { return itemStr(c.GetService(sn)) }})
	}
	ps = append(ps, probe{"worknames", func(c *app.Cluster) string {
		ns := c.GetWorkServiceNames()
		sort.Strings(ns)
		return strings.Join(ns, ",")
	}})
	ps = append(ps, probe{"members", func(c *app.Cluster) string {
		var ids []string
		for id, m := range c.GetMembers() {
			ids = append(ids, fmt.Sprintf("%s|%d|%s:%d|%s", id, m.State, m.Host, m.Port, strings.Join(m.Services, ",")))
		}
		sort.Strings(ids)
		return strings.Join(ids, ";")
	}})
	return ps
}

// admissible answers of one complete view.  GetService with a name that occurs under several
// types depends on Go's map iteration order inside MakeMembers, so the view is built several
// times and, in addition, the first item of that name in every per-type list is admitted.
func admissible(view []*cluster.Member, ps []probe, into []map[string]bool) {
	for rep := 0; rep < 4; rep++ {
		c := app.NewCluster()
		c.UpdateClusterTopology(view)
		for i, p := range ps {
			into[i][p.ask(c)] = true
		}
		for i, p := range ps {
			if !strings.HasPrefix(p.name, "name:") {
				continue
			}
			want := strings.TrimPrefix(p.name, "name:")
			for _, t := range probeTypes {
				if l := c.GetServiceList(typeName(t)); l != nil {
					for _, it := range l.Items {
						if it.Name == want {
							into[i][itemStr(it)] = true
							break
						}
					}
				}
			}
		}
	}
}

// a reader that panics on a torn value was not answered from a complete view either
func safeAsk(p probe, c *app.Cluster, adm map[string]bool) (ok bool) {
	defer func() {
		if recover() != nil {
			ok = false
		}
	}()
	return adm[p.ask(c)]
}

func stress(at, bt []hx.T) (ok bool, differ bool) {
	var a, b []*cluster.Member
	for _, t := range at {
		a = append(a, memberFromTerm(t))
	}
	for _, t := range bt {
		b = append(b, memberFromTerm(t))
	}
	ps := probes()
	adm := make([]map[string]bool, len(ps))
	for i := range adm {
		adm[i] = map[string]bool{}
	}
	admissible(a, ps, adm)
	admissible(b, ps, adm)
	for _, m := range adm {
		if len(m) > 1 {
			differ = true
		}
	}

	c := app.NewCluster()
	c.UpdateClusterTopology(a)
	var stop, failed int32
	var wg sync.WaitGroup
	for r := 0; r < stressReaders; r++ {
		wg.Add(1)
		go func(off int) {
			defer wg.Done()
			for atomic.LoadInt32(&stop) == 0 {
				for k := range ps {
					i := (k + off) % len(ps)
					if !safeAsk(ps[i], c, adm[i]) {
						atomic.StoreInt32(&failed, 1)
					}
				}
			}
		}(r * 5)
	}
	for i := 0; i < stressRounds; i++ {
		c.UpdateClusterTopology(b)
		c.UpdateClusterTopology(a)
	}
	atomic.StoreInt32(&stop, 1)
	wg.Wait()
	return atomic.LoadInt32(&failed) == 0, differ
}
