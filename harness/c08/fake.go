package c08

import (
	"context"
	"errors"
	"sync"
	"sync/atomic"
	"time"

	"go.etcd.io/etcd/api/v3/mvccpb"
	clientv3 "go.etcd.io/etcd/client/v3"
)

// fakeEtcd stands in for the etcd client (KV, Watcher, Lease) behind a real Provider.  It holds
// no logic of etcd: Get answers the prepared listing, Watch hands out an unbuffered channel the
// harness writes to, KeepAlive hands out a channel the harness writes to, Put / Delete / Revoke
// are recorded.  Everything else of the three interfaces is left nil (never called by the
// provider).
type fakeEtcd struct {
	mu sync.Mutex

	listing []*mvccpb.KeyValue
	getKeys []string
	getPref []bool

	puts    []kvRec
	dels    []string
	revoke  int
	getErr  bool // the Get fails
	putFail int  // the next putFail Puts fail
	kaFail  int  // the next kaFail KeepAlive calls fail

	watchCh   chan clientv3.WatchResponse
	watchCtx  context.Context
	watchKeys []string
	watchPref []bool
	watchRevs []int64
	watchSig  chan struct{}

	kaCh  chan *clientv3.LeaseKeepAliveResponse
	kaIDs []clientv3.LeaseID
	kaSig chan struct{}

	// scripted mode (boot.go): a key space with revisions; Get and Watch are answered by the script
	boot *bootState
}

type kvRec struct {
	key string
	val string
}

const fakeLease = clientv3.LeaseID(4242)

var errInjected = errors.New("c08: injected etcd failure")

func newFake() *fakeEtcd {
	return &fakeEtcd{watchSig: make(chan struct{}, 1024), kaSig: make(chan struct{}, 1024)}
}

type fakeKV struct {
	clientv3.KV
	f *fakeEtcd
}

func opInfo(key string, opts []clientv3.OpOption) (prefix bool, rev int64) {
	op := clientv3.OpGet(key, opts...)
	return len(op.RangeBytes()) > 0, op.Rev()
}

func (k fakeKV) Get(ctx context.Context, key string, opts ...clientv3.OpOption) (*clientv3.GetResponse, error) {
	k.f.mu.Lock()
	pref, _ := opInfo(key, opts)
	k.f.getKeys = append(k.f.getKeys, key)
	k.f.getPref = append(k.f.getPref, pref)
	if b := k.f.boot; b != nil {
		// scripted: the call blocks until the script lets the (evaluated) response through
		ch := make(chan getReply)
		b.getWait, b.getEval = ch, nil
		k.f.mu.Unlock()
		r := <-ch
		return r.resp, r.err
	}
	defer k.f.mu.Unlock()
	if k.f.getErr {
		return nil, errInjected
	}
	return &clientv3.GetResponse{Kvs: k.f.listing, Count: int64(len(k.f.listing))}, nil
}

func (k fakeKV) Put(ctx context.Context, key, val string, opts ...clientv3.OpOption) (*clientv3.PutResponse, error) {
	k.f.mu.Lock()
	defer k.f.mu.Unlock()
	if k.f.putFail > 0 {
		k.f.putFail--
		return nil, errInjected
	}
	k.f.puts = append(k.f.puts, kvRec{key, val})
	return &clientv3.PutResponse{}, nil
}

func (k fakeKV) Delete(ctx context.Context, key string, opts ...clientv3.OpOption) (*clientv3.DeleteResponse, error) {
	k.f.mu.Lock()
	defer k.f.mu.Unlock()
	k.f.dels = append(k.f.dels, key)
	return &clientv3.DeleteResponse{Deleted: 1}, nil
}

type fakeWatcher struct {
	clientv3.Watcher
	f *fakeEtcd
}

func (w fakeWatcher) Watch(ctx context.Context, key string, opts ...clientv3.OpOption) clientv3.WatchChan {
	w.f.mu.Lock()
	pref, rev := opInfo(key, opts)
	ch := make(chan clientv3.WatchResponse)
	w.f.watchCh, w.f.watchCtx = ch, ctx
	w.f.watchKeys = append(w.f.watchKeys, key)
	w.f.watchPref = append(w.f.watchPref, pref)
	w.f.watchRevs = append(w.f.watchRevs, rev)
	if b := w.f.boot; b != nil {
		// scripted: the channel exists at once (as with the real client), the server side of the
		// watch - and with it its start revision - only when the script registers it
		b.w = &bootWatch{ch: ch, ctx: ctx, req: rev}
		if ctx.Err() != nil {
			// as the real client: a Watch on a context that is already cancelled (the loop's last
			// call after Shutdown) yields a stream that is closed at once
			b.w.dead = true
			close(ch)
		}
	}
	w.f.mu.Unlock()
	w.f.watchSig <- struct{}{}
	return ch
}

type fakeLeaser struct {
	clientv3.Lease
	f *fakeEtcd
}

func (l fakeLeaser) KeepAlive(ctx context.Context, id clientv3.LeaseID) (<-chan *clientv3.LeaseKeepAliveResponse, error) {
	l.f.mu.Lock()
	if l.f.kaFail > 0 {
		l.f.kaFail--
		l.f.mu.Unlock()
		return nil, errInjected
	}
	ch := make(chan *clientv3.LeaseKeepAliveResponse)
	l.f.kaCh = ch
	l.f.kaIDs = append(l.f.kaIDs, id)
	l.f.mu.Unlock()
	l.f.kaSig <- struct{}{}
	return ch, nil
}

func (l fakeLeaser) Revoke(ctx context.Context, id clientv3.LeaseID) (*clientv3.LeaseRevokeResponse, error) {
	l.f.mu.Lock()
	defer l.f.mu.Unlock()
	l.f.revoke++
	return &clientv3.LeaseRevokeResponse{}, nil
}

// ---- harness side

// how long the harness waits for the provider's goroutines at a synchronisation point.  It is
// only ever reached when the code under test misbehaves; after the first miss the waits become
// short so that a broken tree is reported quickly.
var syncNanos = int64(1500 * time.Millisecond)

func syncTimeout() time.Duration { return time.Duration(atomic.LoadInt64(&syncNanos)) }

func missed() bool {
	atomic.StoreInt64(&syncNanos, int64(60*time.Millisecond))
	return false
}

func waitSig(c chan struct{}) bool {
	select {
	case <-c:
		return true
	case <-time.After(syncTimeout()):
		return missed()
	}
}

func (f *fakeEtcd) curWatch() (chan clientv3.WatchResponse, context.Context, int) {
	f.mu.Lock()
	defer f.mu.Unlock()
	return f.watchCh, f.watchCtx, len(f.watchKeys)
}

// send hands one response to the provider's watch goroutine (unbuffered: it returns when the
// goroutine took it, i.e. after everything sent before has been handled completely)
func (f *fakeEtcd) send(r clientv3.WatchResponse) bool {
	ch, _, _ := f.curWatch()
	if ch == nil {
		return false
	}
	select {
	case ch <- r:
		return true
	case <-time.After(syncTimeout()):
		return missed()
	}
}

func (f *fakeEtcd) sendKeepAlive() bool {
	f.mu.Lock()
	ch := f.kaCh
	f.mu.Unlock()
	if ch == nil {
		return false
	}
	select {
	case ch <- &clientv3.LeaseKeepAliveResponse{ID: fakeLease, TTL: 3}:
		return true
	case <-time.After(syncTimeout()):
		return missed()
	}
}

func (f *fakeEtcd) putCount() int {
	f.mu.Lock()
	defer f.mu.Unlock()
	return len(f.puts)
}

func (f *fakeEtcd) putsFrom(i int) []kvRec {
	f.mu.Lock()
	defer f.mu.Unlock()
	return append([]kvRec{}, f.puts[i:]...)
}
