package c08

// The START-UP / re-listing / shutdown phases of a provider life on a SCRIPTED stand-in etcd.
//
// One op `OBoot self member acts` is a whole provider life: the real StartMember (member=true) or
// StartClient runs on its own goroutine against a miniature key space with revisions, and every
// request of the provider is answered only when the script says so:
//
//	AMut m        another node's registration / expiry: the key space moves on by one revision
//	AGetEval      the server evaluates the pending prefix Get (snapshot + header revision)
//	AGetResp      that response reaches the provider
//	AGetFail      the pending Get fails instead
//	AWatch        the server registers the pending Watch request: it starts at the requested
//	              revision, or - none requested - right after the CURRENT revision (etcd semantics);
//	              a start revision that has been compacted is answered with a compaction error
//	ADeliver n    the next (at most n) events the open watch has pending arrive as ONE response
//	AWatchFail v  the open watch stream ends (0: closed, otherwise a cancel response)
//	ACompact      the server compacts its history up to the current revision
//	AShutdown     Provider.Shutdown (the open stream stays deliverable: events in flight)
//
// An action that is not possible in the provider's current situation (no Get pending, nothing to
// deliver ...) is a no-op and observed as such, so a script is meaningful for EVERY order in which
// an implementation issues its requests - it is the schedule, not the program.  Before and after
// every action the driver waits until every goroutine of the provider is parked (blocked in one
// of the stand-in's calls, on the watch / keep-alive channel, or gone): `settle`, by reading the
// goroutine dump.  That is what makes "no request is pending" an observation instead of a guess.

import (
	"bytes"
	"context"
	"runtime"
	"sort"
	"time"

	pb "go.etcd.io/etcd/api/v3/etcdserverpb"
	"go.etcd.io/etcd/api/v3/mvccpb"
	clientv3 "go.etcd.io/etcd/client/v3"

	"github.com/dfklegend/cell2/node/app"
	"github.com/dfklegend/cell2/node/cluster/clusterproviders/etcd"
	"github.com/dfklegend/cell2/node/config"

	"verifh/hx"
)

// ---------------------------------------------------------------- the scripted key space

type getReply struct {
	resp *clientv3.GetResponse
	err  error
}

type bootWatch struct {
	ch         chan clientv3.WatchResponse
	ctx        context.Context
	req        int64 // start revision the provider asked for (0: none)
	registered bool
	next       int // index into log of the next event to deliver (its revision is next+2)
	dead       bool
}

// bootState: mutation i of log has revision i+2 (the empty key space is revision 1, as in etcd)
type bootState struct {
	log     []hx.T
	compact int // number of mutations whose events are compacted away (0: none); compact revision = compact+1

	getWait chan getReply // a Get call of the provider is blocked on this
	getEval *getReply     // ... and has been evaluated: the response is in flight
	w       *bootWatch    // the latest Watch call
}

func (b *bootState) rev() int64 { return int64(len(b.log)) + 1 }

// the key space after the first n mutations, as the Kvs of a prefix Get (sorted by key)
func (b *bootState) snapshot(n int) []*mvccpb.KeyValue {
	type ent struct {
		val      []byte
		mod, cre int64
	}
	m := map[string]*ent{}
	for i := 0; i < n; i++ {
		mu := b.log[i]
		switch mu.Name {
		case "MPut":
			nd := parseNode(mu.Term(0))
			k := keyOf(nd.id)
			e := m[k]
			if e == nil {
				e = &ent{cre: int64(i) + 2}
				m[k] = e
			}
			e.val, e.mod = nd.json(), int64(i)+2
		case "MDel":
			delete(m, keyOf(mu.Int(0)))
		default:
			panic("c08: bad mutation " + mu.Name)
		}
	}
	keys := make([]string, 0, len(m))
	for k := range m {
		keys = append(keys, k)
	}
	sort.Strings(keys)
	out := make([]*mvccpb.KeyValue, 0, len(keys))
	for _, k := range keys {
		out = append(out, &mvccpb.KeyValue{Key: []byte(k), Value: m[k].val, ModRevision: m[k].mod, CreateRevision: m[k].cre, Version: 1})
	}
	return out
}

// events i .. i+k-1 of the log as one watch response.  The header carries the revision of the
// store (as etcd's does), which is ahead of the last event when the response is a fragment.
func (b *bootState) response(i, k int) clientv3.WatchResponse {
	resp := clientv3.WatchResponse{Header: pb.ResponseHeader{Revision: b.rev()}}
	for j := i; j < i+k; j++ {
		mu := b.log[j]
		switch mu.Name {
		case "MPut":
			nd := parseNode(mu.Term(0))
			resp.Events = append(resp.Events, &clientv3.Event{Type: mvccpb.PUT,
				Kv: &mvccpb.KeyValue{Key: []byte(keyOf(nd.id)), Value: nd.json(), ModRevision: int64(j) + 2, Version: 1}})
		case "MDel":
			resp.Events = append(resp.Events, &clientv3.Event{Type: mvccpb.DELETE,
				Kv: &mvccpb.KeyValue{Key: []byte(keyOf(mu.Int(0))), ModRevision: int64(j) + 2}})
		}
	}
	return resp
}

// ---------------------------------------------------------------- quiescence

var (
	markProvider = []byte("clusterproviders/etcd.")
	markStarter  = []byte("c08.runStart")
)

// parked: every goroutine that is running code of the provider (or is about to: the starter) is
// blocked on a channel
func parked(dump []byte) bool {
	for _, g := range bytes.Split(dump, []byte("\n\n")) {
		if !bytes.Contains(g, markProvider) && !bytes.Contains(g, markStarter) {
			continue
		}
		// "goroutine 12 [chan receive]:" / "[select, 2 minutes]:" ...
		a := bytes.IndexByte(g, '[')
		z := bytes.IndexByte(g, ']')
		if a < 0 || z < a {
			return false
		}
		st := g[a+1 : z]
		if !bytes.HasPrefix(st, []byte("chan receive")) && !bytes.HasPrefix(st, []byte("chan send")) &&
			!bytes.HasPrefix(st, []byte("select")) {
			return false
		}
	}
	return true
}

var stackBuf = make([]byte, 1<<18)

// settle waits until the provider's goroutines are all parked
func settle() bool {
	deadline := time.Now().Add(syncTimeout())
	for spin := 0; ; spin++ {
		n := runtime.Stack(stackBuf, true)
		for n == len(stackBuf) {
			stackBuf = make([]byte, 2*len(stackBuf))
			n = runtime.Stack(stackBuf, true)
		}
		if parked(stackBuf[:n]) {
			return true
		}
		if time.Now().After(deadline) {
			return missed()
		}
		if spin < 50 {
			runtime.Gosched()
		} else {
			time.Sleep(40 * time.Microsecond)
		}
	}
}

// runStart is the goroutine StartMember / StartClient runs on (its name is what settle looks for
// before the provider's own frames exist)
func runStart(p *etcd.Provider, rec *recorder, member bool, began chan struct{}, done chan error) {
	close(began) // from here on this goroutine is visible to settle under its own name
	if member {
		done <- p.StartMember(rec)
	} else {
		done <- p.StartClient(rec)
	}
}

// ---------------------------------------------------------------- one scripted life

func (r *recorder) takeAll() []pubRec {
	r.mu.Lock()
	defer r.mu.Unlock()
	p := r.pubs
	r.pubs = nil
	return p
}

func xpub(p pubRec) hx.T { return hx.C("XPub", p.members, p.answers) }

func execBoot(o hx.T) (any, bool) {
	self := parseNode(o.Term(0))
	member := o.Bool(1)
	acts := o.List(2)
	nontrivial := false

	c := app.Node.GetCluster()
	c.InitSelf(addrString(self.addr), &config.ClusterInfo{Enable: true, Name: clusterName}, memberID(self.id), nil, nil)
	rec := &recorder{Cluster: c, self: self}
	f := newFake()
	b := &bootState{}
	f.boot = b
	p, err := etcd.VerifNewProviderWithClient(baseKey, fakeKV{f: f}, fakeWatcher{f: f}, fakeLeaser{f: f}, fakeLease)
	if err != nil {
		panic(err)
	}
	p.VerifSetRetryInterval(2 * time.Millisecond)
	done := make(chan error, 1)
	began := make(chan struct{})
	go runStart(p, rec, member, began, done)
	<-began

	started, failed, down := false, false, false
	// has the start call returned during the action just executed?
	poll := func() (justStarted, justFailed bool) {
		if started || failed {
			return
		}
		select {
		case err := <-done:
			if err != nil {
				failed, justFailed = true, true
			} else {
				started, justStarted = true, true
			}
		default:
		}
		return
	}
	settle()
	if _, jf := poll(); jf {
		return "BFail", false // no Get was ever issued: the provider rejected its own configuration
	}

	wired := func() bool {
		f.mu.Lock()
		defer f.mu.Unlock()
		ok := len(f.getKeys) >= 1
		for i, k := range f.getKeys {
			ok = ok && k == clusterPrefix() && f.getPref[i]
		}
		for i, k := range f.watchKeys {
			ok = ok && k == clusterPrefix() && f.watchPref[i]
		}
		if member {
			ok = ok && len(f.kaIDs) == 1 && f.kaIDs[0] == fakeLease
		} else {
			ok = ok && len(f.kaIDs) == 0 && len(f.puts) == 0
		}
		return ok
	}

	var xs []any
	// what an action produced: its own observation unless publications take its place
	finish := func(primary any, pubAction bool) {
		settle()
		js, jf := poll()
		pubs := rec.takeAll()
		switch {
		case jf:
			xs = append(xs, "XFail")
		case pubAction && len(pubs) > 0:
			if js {
				xs = append(xs, hx.C("XStart", regTerms(f.putsFrom(0)), wired(), pubs[0].members, pubs[0].answers))
			} else {
				xs = append(xs, xpub(pubs[0]))
			}
			if len(pubs[0].members) >= 2 {
				nontrivial = true
			}
			pubs = pubs[1:]
		default:
			xs = append(xs, primary)
		}
		// publications nobody asked for make the list longer than the script: rejected
		for _, q := range pubs {
			xs = append(xs, xpub(q))
		}
	}

	for _, a := range acts {
		at := hx.AsTerm(a)
		settle()
		switch at.Name {
		case "AMut":
			f.mu.Lock()
			b.log = append(b.log, at.Term(0))
			f.mu.Unlock()
			finish("XNone", false)
		case "AGetEval":
			f.mu.Lock()
			ok := b.getWait != nil && b.getEval == nil
			if ok {
				kvs := b.snapshot(len(b.log))
				b.getEval = &getReply{resp: &clientv3.GetResponse{Header: &pb.ResponseHeader{Revision: b.rev()},
					Kvs: kvs, Count: int64(len(kvs))}}
			}
			f.mu.Unlock()
			if ok {
				finish("XAck", false)
			} else {
				finish("XNone", false)
			}
		case "AGetResp":
			f.mu.Lock()
			ch, r := b.getWait, b.getEval
			ok := ch != nil && r != nil
			if ok {
				b.getWait, b.getEval = nil, nil
			}
			f.mu.Unlock()
			if ok {
				ch <- *r
			}
			finish("XNone", true)
		case "AGetFail":
			f.mu.Lock()
			ch := b.getWait
			b.getWait, b.getEval = nil, nil
			f.mu.Unlock()
			if ch != nil {
				ch <- getReply{err: errInjected}
				finish("XAck", false)
			} else {
				finish("XNone", false)
			}
		case "AWatch":
			f.mu.Lock()
			w := b.w
			var primary any = "XNone"
			var fail *clientv3.WatchResponse
			if w != nil && !w.registered && !w.dead {
				start := w.req
				if start == 0 {
					start = b.rev() + 1
				}
				if start < int64(b.compact)+1 {
					w.dead = true
					fail = &clientv3.WatchResponse{Header: pb.ResponseHeader{Revision: b.rev()},
						CompactRevision: int64(b.compact) + 1, Canceled: true}
					primary = "XWComp"
				} else {
					w.registered, w.next = true, int(start-2)
					primary = hx.C("XWReg", start)
				}
			}
			f.mu.Unlock()
			if fail != nil {
				sendWatch(w, *fail)
			}
			finish(primary, false)
		case "ADeliver":
			f.mu.Lock()
			w := b.w
			k := 0
			var resp clientv3.WatchResponse
			if w != nil && w.registered && !w.dead && at.Int(0) >= 1 && w.next >= 0 && w.next < len(b.log) {
				k = len(b.log) - w.next
				if int64(k) > at.Int(0) {
					k = int(at.Int(0))
				}
				resp = b.response(w.next, k)
				w.next += k
			}
			f.mu.Unlock()
			if k > 0 {
				sendWatch(w, resp)
			}
			finish("XNone", true)
		case "AWatchFail":
			f.mu.Lock()
			w := b.w
			ok := w != nil && w.registered && !w.dead
			if ok {
				w.dead = true
			}
			f.mu.Unlock()
			if ok {
				if at.Int(0) == 0 {
					close(w.ch)
				} else {
					sendWatch(w, clientv3.WatchResponse{Header: pb.ResponseHeader{Revision: b.rev()}, Canceled: true})
				}
				settle()
				f.mu.Lock()
				n := len(f.watchKeys)
				f.mu.Unlock()
				finish(hx.C("XWatch", int64(n), p.GetHealthStatus() == nil), false)
			} else {
				finish("XNone", false)
			}
		case "ACompact":
			f.mu.Lock()
			b.compact = len(b.log)
			f.mu.Unlock()
			finish("XNone", false)
		case "AShutdown":
			if started && !down {
				down = true
				nd := len(f.dels)
				p.Shutdown(true)
				f.mu.Lock()
				key := int64(-907)
				if len(f.dels) == nd+1 {
					key = keyTok(f.dels[nd])
				}
				w := b.w
				cancelled := w != nil && w.ctx.Err() != nil
				// a watch the server never registered: the client closes it when its context ends
				closeIt := w != nil && !w.registered && !w.dead
				if closeIt {
					w.dead = true
				}
				f.mu.Unlock()
				if closeIt {
					close(w.ch)
				}
				finish(hx.C("XDown", key, cancelled), false)
			} else {
				finish("XNone", false)
			}
		default:
			panic("c08: unknown action " + at.Name)
		}
	}

	// the life ends: let every goroutine of the provider run out
	settle()
	poll()
	if !down {
		p.Shutdown(true)
	}
	for round := 0; round < 3; round++ {
		f.mu.Lock()
		w := b.w
		closeIt := w != nil && !w.dead
		if closeIt {
			w.dead = true
		}
		ch := b.getWait
		b.getWait, b.getEval = nil, nil
		ka := f.kaCh
		f.kaCh = nil
		f.mu.Unlock()
		if closeIt {
			close(w.ch)
		}
		if ch != nil {
			ch <- getReply{err: errInjected}
		}
		if ka != nil {
			select {
			case ka <- &clientv3.LeaseKeepAliveResponse{ID: fakeLease, TTL: 3}:
			case <-time.After(syncTimeout()):
			}
			close(ka)
		}
		settle()
		poll()
	}
	rec.takeAll()
	return hx.C("BBoot", xs), nontrivial
}

// sendWatch hands one response to the goroutine ranging over the watch channel
func sendWatch(w *bootWatch, r clientv3.WatchResponse) bool {
	select {
	case w.ch <- r:
		return true
	case <-time.After(syncTimeout()):
		return missed()
	}
}
