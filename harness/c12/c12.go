package c12

import (
	"fmt"
	"sort"
	"time"

	"verifh/hx"
)

// A case is a flat list of items (so that check.py can shrink it by dropping items):
//   Host n d   service svc-<n> is configured on the node with disposition d
//   Ghost n    the node's service list names svc-<n> at this position, but the services section
//              does not define it (tokens 11.., never hosted)
//   Do op      one operation
// The node's service list is the Host and Ghost items in order (wherever they stand); the
// hosted services are the Host items.

func host(n int64, d string) hx.T { return hx.C("Host", n, d) }
func ghost(n int64) hx.T          { return hx.C("Ghost", n) }
func do(op hx.T) hx.T             { return hx.C("Do", op) }
func cmd(c string) hx.T           { return do(hx.C("OCmd", c)) }
func retired(n int64) hx.T        { return do(hx.C("OSvcCmd", n, "SRetired")) }
func svcOther(n int64) hx.T       { return do(hx.C("OSvcCmd", n, "SOther")) }
func notify(n int64) hx.T         { return do(hx.C("ONotify", n)) }
func query(n int64) hx.T          { return do(hx.C("OQuery", n)) }
func queryAll() hx.T              { return do(hx.T{Name: "OQueryAll"}) }
func stopDone(b bool) hx.T        { return do(hx.C("OStopDone", b)) }
func hide(n int64) hx.T           { return do(hx.C("OHide", n)) }
func show(n int64) hx.T           { return do(hx.C("OShow", n)) }
func topo(k int64) hx.T           { return do(hx.C("OTopo", k)) }

// Exec runs one case against a fresh real NodeCtrl.  NodeCtrl.Start arms a 3 s wall-clock
// timer that would run checkRetireSupport on its own; a case normally takes a few
// milliseconds, but if the machine stalls long enough for that timer to come near, the
// execution is discarded and repeated so that the recorded history is exactly `items`.
func Exec(items []hx.T) (obs []any, nontrivial bool, tags []string) {
	for attempt := 0; ; attempt++ {
		t0 := time.Now()
		obs, nontrivial, tags = execOnce(items)
		if time.Since(t0) < 2*time.Second || attempt >= 4 {
			return
		}
	}
}

func execOnce(items []hx.T) (obs []any, nontrivial bool, tags []string) {
	var cfg []hx.Pair
	seen := map[int64]bool{}
	dispOf := map[int64]string{}
	tg := map[string]bool{}
	for _, it := range items {
		if it.Name == "Host" {
			if seen[it.Int(0)] {
				tg["cfg-duplicate"] = true
			} else {
				dispOf[it.Int(0)] = hx.AsTerm(it.Args[1]).Name
			}
			seen[it.Int(0)] = true
			cfg = append(cfg, hx.Pair{A: it.Int(0), B: it.Args[1]})
			tg["cfg-"+hx.AsTerm(it.Args[1]).Name] = true
		} else if it.Name == "Ghost" {
			cfg = append(cfg, hx.Pair{A: it.Int(0), B: dGhost})
		}
	}
	ghosts, hostsAfterGhost := 0, 0
	for _, it := range items {
		switch it.Name {
		case "Ghost":
			ghosts++
		case "Host":
			if ghosts > 0 {
				hostsAfterGhost++
			}
		}
	}
	if ghosts > 0 {
		switch {
		case len(seen) == 0:
			tg["list-undefined-only"] = true
		case hostsAfterGhost == 0:
			tg["list-undefined-last"] = true
		default:
			tg["list-undefined-before-a-service"] = true
		}
	}
	tg[fmt.Sprintf("services-%d", len(seen))] = true
	w := newWorld(cfg)
	defer w.close()
	obs = []any{}
	state := "Working"
	retiredSeen := map[int64]bool{}
	hidden := map[int64]bool{}
	retiredWhileHidden := false
	dirState := "Working"        // the node state the directory's copies of the own services carry
	hostedReported := 0          // hosted services that have reported retired
	acceptedAfterReport := false // a retire was accepted after some hosted service had reported
	queried := map[int64]bool{}  // hosted services that received queryretire and answer ok
	reportedUndeclared := false  // "retired" arrived naming a hosted service that has not declared support
	for _, it := range items {
		if it.Name != "Do" {
			continue
		}
		op := it.Term(0)
		ob := w.do(op).(hx.T)
		obs = append(obs, ob)
		// distribution tags, derived from what actually happened
		reply := hx.AsTerm(ob.Args[0])
		evs := ob.Args[1].([]any)
		switch op.Name {
		case "OCmd":
			c := hx.AsTerm(op.Args[0]).Name
			switch c {
			case "CRetire", "CWebRetire":
				tg["retire-"+reply.Name] = true
				if reply.Name == "ROk" && state == "Retiring" {
					tg["retire-again-while-retiring"] = true
				}
				if reply.Name == "ROk" && hostedReported > 0 {
					tg["retire-accepted-after-a-service-reported"] = true
					acceptedAfterReport = true
				}
				if reply.Name != "ROk" && reportedUndeclared {
					tg["retire-refused-after-retired-from-undeclared-service"] = true
				}
			case "CExit", "CWebExit":
				tg["exit-"+reply.Name] = true
			}
		case "OSvcCmd", "ONotify":
			if op.Name == "ONotify" || hx.AsTerm(op.Args[1]).Name == "SRetired" {
				n := op.Int(0)
				if seen[n] && !retiredSeen[n] {
					hostedReported++
					if hostedReported == len(seen) && acceptedAfterReport {
						tg["last-report-after-retire-accepted-after-a-report"] = true
					}
				}
				if seen[n] && !queried[n] {
					reportedUndeclared = true
				}
				switch {
				case !seen[n]:
					tg["retired-unknown-service"] = true
				case retiredSeen[n]:
					tg["retired-repeated"] = true
					if state == "Exiting" || state == "Exited" {
						tg["retired-repeated-after-exit"] = true
					}
				}
				retiredSeen[n] = true
			}
		case "OStopDone":
			if len(evs) > 0 {
				tg["stop-done-succ"] = true
			}
		case "OHide":
			if seen[op.Int(0)] {
				hidden[op.Int(0)] = true
				tg["hide-hosted"] = true
			}
		case "OShow":
			if hidden[op.Int(0)] {
				tg["show-again"] = true
			}
			delete(hidden, op.Int(0))
		}
		// topology rebuilds (OTopo, and OHide/OShow which also re-publish the own member) by the
		// node state the own services are re-published with, and what follows them
		switch op.Name {
		case "OTopo", "OHide", "OShow":
			tg["rebuild-while-"+state] = true
			dirState = state
			if op.Name == "OTopo" {
				tg[fmt.Sprintf("topo-others-%d", op.Int(0))] = true
			}
		case "OCmd":
			c := hx.AsTerm(op.Args[0]).Name
			if (c == "CRetire" || c == "CWebRetire") && reply.Name == "ROk" && dirState != "Working" {
				tg["retire-accepted-with-directory-saying-"+dirState] = true
			}
		case "OQuery", "OQueryAll":
			if dirState != "Working" {
				tg["query-with-directory-saying-"+dirState] = true
			}
		}
		if len(hidden) > 0 {
			switch op.Name {
			case "OCmd":
				c := hx.AsTerm(op.Args[0]).Name
				if (c == "CRetire" || c == "CWebRetire") && reply.Name == "ROk" {
					tg["retire-accepted-while-a-service-hidden"] = true
					retiredWhileHidden = true
				}
			case "OQuery", "OQueryAll":
				tg["query-while-a-service-hidden"] = true
			case "OSvcCmd", "ONotify":
				if hidden[op.Int(0)] {
					tg["retired-from-hidden-service"] = true
				}
			}
		} else if retiredWhileHidden && op.Name == "OCmd" && reply.Name == "ROk" {
			if c := hx.AsTerm(op.Args[0]).Name; c == "CRetire" || c == "CWebRetire" {
				tg["retire-reissued-after-unhide"] = true
			}
		}
		for _, x := range ob.Args[2].([]any) {
			if p := x.(hx.Pair); p.B == "KQuery" && dispOf[p.A.(int64)] == dOk {
				queried[p.A.(int64)] = true
			}
		}
		for _, e := range evs {
			nontrivial = true
			if t := hx.AsTerm(e); t.Name == "EPub" {
				state = hx.AsTerm(t.Args[0]).Name
				tg["reached-"+state] = true
			}
		}
	}
	for t := range tg {
		tags = append(tags, t)
	}
	sort.Strings(tags)
	return
}

// ---- generators ----

var dispositions = []string{dOk, dOk, dOk, dOk, dNo, dNoListener, dErr, dAbsent}

func genConfig(cfg *hx.Config) (items []hx.T, toks []int64, allOk bool) {
	r := cfg.Rng
	k := r.Intn(5) // 0..4 services
	perm := r.Perm(5)
	allOk = true
	forceOk := r.Intn(100) < 55
	for i := 0; i < k; i++ {
		tok := int64(perm[i] + 1)
		d := hx.Pick(r, dispositions)
		if forceOk {
			d = dOk
		}
		if d != dOk {
			allOk = false
		}
		toks = append(toks, tok)
		items = append(items, host(tok, d))
	}
	if k > 0 && r.Intn(12) == 0 { // a service listed twice in the node configuration
		items = append(items, host(toks[r.Intn(k)], hx.Pick(r, dispositions)))
	}
	if r.Intn(4) == 0 { // entries the services section does not define: first / middle / last, maybe twice
		for g := int64(11); g <= 11+int64(r.Intn(2)); g++ {
			p := r.Intn(len(items) + 1)
			if r.Intn(3) == 0 {
				p = 0
			}
			items = append(items[:p], append([]hx.T{ghost(g)}, items[p:]...)...)
			if r.Intn(6) == 0 {
				items = append(items, ghost(g)) // the same undefined name again
			}
		}
	}
	return
}

func randomOp(cfg *hx.Config, toks []int64) hx.T {
	r := cfg.Rng
	tok := func() int64 {
		if len(toks) > 0 && r.Intn(8) > 0 {
			return hx.Pick(r, toks)
		}
		return int64(6 + r.Intn(3)) // not hosted
	}
	switch p := r.Intn(100); {
	case p < 12:
		return cmd("CStat")
	case p < 26:
		return cmd("CRetire")
	case p < 30:
		return cmd("CWebRetire")
	case p < 42:
		return cmd("CExit")
	case p < 45:
		return cmd("CWebExit")
	case p < 53:
		return cmd("CWebNodes")
	case p < 56:
		return cmd("COther")
	case p < 62:
		return queryAll()
	case p < 68:
		return query(tok())
	case p < 82:
		return retired(tok())
	case p < 88:
		return notify(tok())
	case p < 91:
		return svcOther(tok())
	case p < 93:
		return stopDone(r.Intn(4) > 0)
	case p < 95:
		return hide(tok())
	case p < 97:
		return show(tok())
	default:
		return topo(int64(r.Intn(4)))
	}
}

// around wraps an operation: with some probability the cluster topology is rebuilt right before
// and/or right after it (another node joins or leaves: the own services are re-published with
// the node's current state), or a hosted service is unresolvable exactly while the operation is
// handled (hide before, show after - sometimes much later or never).
func around(cfg *hx.Config, toks []int64, op hx.T, later *[]hx.T) []hx.T {
	r := cfg.Rng
	switch r.Intn(8) { // cluster membership changes right before / right after the operation
	case 0:
		return []hx.T{topo(int64(r.Intn(4))), op}
	case 1:
		return []hx.T{op, topo(int64(r.Intn(4)))}
	case 2:
		return []hx.T{topo(int64(r.Intn(4))), op, topo(int64(r.Intn(4)))}
	}
	if len(toks) == 0 || r.Intn(4) != 0 {
		return []hx.T{op}
	}
	t := hx.Pick(r, toks)
	switch r.Intn(4) {
	case 0: // comes back much later
		*later = append(*later, show(t))
		return []hx.T{hide(t), op}
	case 1: // never comes back
		return []hx.T{hide(t), op}
	default:
		return []hx.T{hide(t), op, show(t)}
	}
}

// story: the intended life cycle with noise, repetitions and premature commands mixed in
func genStory(cfg *hx.Config) []hx.T {
	r := cfg.Rng
	items, toks, _ := genConfig(cfg)
	var later []hx.T // deferred "show" operations of services hidden around an earlier command
	noise := func() {
		for r.Intn(3) == 0 {
			items = append(items, randomOp(cfg, toks))
		}
		if len(later) > 0 && r.Intn(3) == 0 {
			items = append(items, later...)
			later = nil
			if r.Intn(2) == 0 { // the operator's recovery path: retire again once everything is back
				items = append(items, cmd("CRetire"))
			}
		}
	}
	add := func(op hx.T) { items = append(items, around(cfg, toks, op, &later)...) }
	noise()
	if r.Intn(4) == 0 { // acks arriving one by one, commands in between
		for _, i := range r.Perm(len(toks)) {
			add(query(toks[i]))
			noise()
		}
	} else {
		add(queryAll())
	}
	noise()
	if len(toks) > 0 && r.Intn(6) == 0 { // a service reports while the node is still working
		add(retired(hx.Pick(r, toks)))
	}
	add(cmd(hx.Pick(r, []string{"CRetire", "CRetire", "CWebRetire"})))
	noise()
	if r.Intn(3) == 0 { // the operator repeats retire (a service missed it), maybe after a membership change
		if r.Intn(2) == 0 {
			items = append(items, topo(int64(1+r.Intn(3))))
		}
		add(cmd(hx.Pick(r, []string{"CRetire", "CWebRetire"})))
		noise()
	}
	for _, i := range r.Perm(len(toks)) {
		if r.Intn(10) == 0 {
			continue // one service never reports
		}
		if r.Intn(3) == 0 {
			add(notify(toks[i]))
		} else {
			add(retired(toks[i]))
		}
		if r.Intn(5) == 0 {
			items = append(items, retired(toks[i])) // repeated
		}
		if r.Intn(4) == 0 { // retire repeated between the reports
			add(cmd(hx.Pick(r, []string{"CRetire", "CWebRetire"})))
		}
		noise()
	}
	add(cmd(hx.Pick(r, []string{"CExit", "CExit", "CWebExit"})))
	noise()
	if len(toks) > 0 && r.Intn(2) == 0 {
		items = append(items, retired(hx.Pick(r, toks))) // late duplicate
		add(cmd("CExit"))
	}
	noise()
	add(stopDone(r.Intn(4) > 0))
	noise()
	items = append(items, cmd("CWebNodes"))
	return items
}

func genRandom(cfg *hx.Config, maxLen int) []hx.T {
	items, toks, _ := genConfig(cfg)
	n := 1 + cfg.Rng.Intn(maxLen)
	for i := 0; i < n; i++ {
		items = append(items, randomOp(cfg, toks))
	}
	return items
}

// exhaustive small scope: prefix, then every sequence of length L over alpha, then web_nodes
func enumerate(prefix []hx.T, alpha []hx.T, L int, emit func([]hx.T)) {
	cur := make([]hx.T, L)
	var rec func(d int)
	rec = func(d int) {
		if d == L {
			c := append(append(append([]hx.T{}, prefix...), cur...), cmd("CWebNodes"))
			emit(c)
			return
		}
		for _, a := range alpha {
			cur[d] = a
			rec(d + 1)
		}
	}
	rec(0)
}

func Run(cfg *hx.Config) error {
	if cfg.Scratch != "" {
		scratch = cfg.Scratch
	}
	emit := func(kind string, items []hx.T) {
		obs, nt, tags := Exec(items)
		cfg.Emit(hx.Case{Kind: kind, Ops: items, Obs: obs, Nontrivial: nt, Tags: tags})
	}
	if cfg.In != "" {
		cs, err := hx.ReadCases(cfg.In)
		if err != nil {
			return err
		}
		for _, c := range cs {
			emit("replay", hx.Terms(c.Ops))
		}
		return nil
	}
	d1, d2 := 4, 3
	if cfg.Tier == "thorough" {
		d1, d2 = 6, 5
	}
	// one retirable service, support already declared and retire accepted
	one := []hx.T{host(1, dOk), queryAll(), cmd("CRetire")}
	alpha1 := []hx.T{cmd("CRetire"), retired(1), cmd("CExit"), stopDone(true), retired(7)}
	for L := 0; L <= d1; L++ {
		enumerate(one, alpha1, L, func(c []hx.T) { emit(fmt.Sprintf("exhaustive-1svc-%d", L), c) })
	}
	// two services, nothing done yet; one of them may not support retirement
	alpha2 := []hx.T{queryAll(), cmd("CRetire"), retired(1), retired(2), cmd("CExit"), stopDone(true)}
	for _, d := range []string{dOk, dNo} {
		two := []hx.T{host(1, dOk), host(2, d)}
		for L := 0; L <= d2; L++ {
			enumerate(two, alpha2, L, func(c []hx.T) { emit(fmt.Sprintf("exhaustive-2svc-%s-%d", d, L), c) })
		}
	}
	// resolvability changing under the controller: a service hidden / shown again at any point
	d3 := 3
	if cfg.Tier == "thorough" {
		d3 = 5
	}
	hid1 := []hx.T{host(1, dOk)}
	alphaH1 := []hx.T{hide(1), show(1), queryAll(), cmd("CRetire"), retired(1), cmd("CExit")}
	for L := 0; L <= d3; L++ {
		enumerate(hid1, alphaH1, L, func(c []hx.T) { emit(fmt.Sprintf("exhaustive-hide-1svc-%d", L), c) })
	}
	hid2 := []hx.T{host(1, dOk), host(2, dOk), queryAll()}
	alphaH2 := []hx.T{hide(2), show(2), cmd("CRetire"), retired(1), retired(2), cmd("CExit")}
	for L := 0; L <= d3; L++ {
		enumerate(hid2, alphaH2, L, func(c []hx.T) { emit(fmt.Sprintf("exhaustive-hide-2svc-%d", L), c) })
	}
	// cluster membership changing under the controller: the topology is rebuilt (own services
	// re-published with the node's current state) at any point of the life cycle
	d4, d5 := 4, 3
	if cfg.Tier == "thorough" {
		d4, d5 = 6, 4
	}
	top1 := []hx.T{host(1, dOk), queryAll()}
	alphaT1 := []hx.T{topo(1), cmd("CRetire"), retired(1), cmd("CExit"), stopDone(true)}
	for L := 0; L <= d4; L++ {
		enumerate(top1, alphaT1, L, func(c []hx.T) { emit(fmt.Sprintf("exhaustive-topo-1svc-%d", L), c) })
	}
	top2 := []hx.T{host(1, dOk), host(2, dOk)}
	alphaT2 := []hx.T{topo(2), topo(0), queryAll(), cmd("CRetire"), retired(1), notify(2), hide(2), show(2)}
	for L := 0; L <= d5; L++ {
		enumerate(top2, alphaT2, L, func(c []hx.T) { emit(fmt.Sprintf("exhaustive-topo-2svc-%d", L), c) })
	}
	// the node's service list as a dimension: an entry the services section does not define at
	// the first / middle / last position among two real services (also one of them listed twice),
	// and a list of undefined entries only
	d6 := 3
	if cfg.Tier == "thorough" {
		d6 = 4
	}
	alphaL := []hx.T{queryAll(), cmd("CRetire"), retired(1), retired(2), cmd("CExit"), cmd("CWebNodes")}
	for li, list := range [][]hx.T{
		{ghost(11), host(1, dOk), host(2, dOk)},
		{host(1, dOk), ghost(11), host(2, dOk)},
		{host(1, dOk), host(2, dOk), ghost(11)},
		{host(2, dOk), ghost(11), host(1, dOk), ghost(12), host(2, dOk)},
	} {
		dl := d6
		if li >= 2 { // undefined entry last / duplicates: one step less
			dl = d6 - 1
		}
		for L := 0; L <= dl; L++ {
			enumerate(list, alphaL, L, func(c []hx.T) { emit(fmt.Sprintf("exhaustive-list-%d-%d", li, L), c) })
		}
	}
	for L := 0; L <= 2; L++ {
		enumerate([]hx.T{ghost(11), ghost(12)}, alphaL, L, func(c []hx.T) { emit(fmt.Sprintf("exhaustive-list-undefined-only-%d", L), c) })
	}
	for i := 0; i < cfg.N; i++ {
		switch i % 4 {
		case 0, 1:
			emit("story", genStory(cfg))
		case 2:
			emit("random", genRandom(cfg, 14))
		default:
			emit("random-long", genRandom(cfg, 60))
		}
	}
	return nil
}
